(* C14AttrsP.v — the carry-over blocks of the transforms compute the documented
   re-arrangement of the operand's attributes (split, swap proved; see Properties/C14.v). *)
From Coq Require Import ZArith List Bool Lia PeanoNat.
From FT Require Import Model.Base Model.Obs Model.C14Attrs Model.C14Build Model.C14Check Proofs.ObsP Proofs.C14BuildP.
Import ListNotations.
Open Scope Z_scope.

(* ---- equality tests *)
Lemma list_eqb_spec {A} (e : A -> A -> bool) (He : forall x y, e x y = true <-> x = y) :
  forall a b, list_eqb e a b = true <-> a = b.
Proof.
  induction a as [|x a IH]; intros [|y b]; simpl; try (split; (reflexivity || discriminate)).
  rewrite andb_true_iff, He, IH. split.
  - intros [-> ->]. reflexivity.
  - intros E. inversion E. split; reflexivity.
Qed.

Lemma atom_eqb_spec a b : atom_eqb a b = true <-> a = b.
Proof. apply list_eqb_spec. intros x y. apply Z.eqb_eq. Qed.

Lemma rid_eqb_spec a b : rid_eqb a b = true <-> a = b.
Proof.
  destruct a as [x|x], b as [y|y]; simpl.
  - rewrite atom_eqb_spec. split; congruence.
  - split; discriminate.
  - split; discriminate.
  - rewrite (list_eqb_spec atom_eqb atom_eqb_spec). split; congruence.
Qed.

Lemma rid_eqb_refl a : rid_eqb a a = true.
Proof. apply rid_eqb_spec. reflexivity. Qed.

Lemma rid_eqb_false a b : a <> b -> rid_eqb a b = false.
Proof.
  intros H. destruct (rid_eqb a b) eqn:E; [|reflexivity].
  apply rid_eqb_spec in E. contradiction.
Qed.

Lemma mem_rid_false_in r ids : mem_rid r ids = false -> ~ In r ids.
Proof.
  unfold mem_rid. intros H Hin.
  assert (E : existsb (rid_eqb r) ids = true).
  { apply existsb_exists. exists r. split; [exact Hin|apply rid_eqb_refl]. }
  congruence.
Qed.

Lemma nodup_rid_NoDup ids : nodup_rid ids = true -> NoDup ids.
Proof.
  induction ids as [|x ids IH]; simpl; intros H; [constructor|].
  apply andb_true_iff in H. destruct H as [H1 H2].
  constructor; [|apply IH; exact H2].
  apply mem_rid_false_in. apply negb_true_iff. exact H1.
Qed.

(* ---- list surgery *)
Lemma all_some_map_Some {A} (l : list A) : all_some (map Some l) = Some l.
Proof. induction l as [|x l IH]; simpl; [reflexivity|rewrite IH; reflexivity]. Qed.

Lemma insert_set_spec {A} : forall d (l : list A) x y z,
  nth_error l d = Some x ->
  insert_at (S d) z (set_nth d y l) = firstn d l ++ [y; z] ++ skipn (S d) l.
Proof.
  induction d as [|d IH]; intros [|h l] x y z H; simpl in H; try discriminate.
  - reflexivity.
  - cbn [set_nth insert_at firstn skipn app]. f_equal.
    change (insert_at (S d) z (set_nth d y l) = firstn d l ++ [y; z] ++ skipn (S d) l).
    eapply IH; exact H.
Qed.

Lemma insert_dup_spec {A} : forall d (l : list A) x,
  nth_error l d = Some x ->
  insert_at (S d) x l = firstn (S d) l ++ skipn d l.
Proof.
  induction d as [|d IH]; intros [|h l] x H; simpl in H; try discriminate.
  - inversion H; subst. reflexivity.
  - cbn [insert_at]. change (firstn (S (S d)) (h :: l)) with (h :: firstn (S d) l).
    change (skipn (S d) (h :: l)) with (skipn d l).
    simpl app. f_equal. apply IH; exact H.
Qed.

Lemma dup_mid_spec {A} : forall d (l : list A) x,
  nth_error l d = Some x ->
  firstn d l ++ [x; x] ++ skipn (S d) l = firstn (S d) l ++ skipn d l.
Proof.
  induction d as [|d IH]; intros [|h l] x H; simpl in H; try discriminate.
  - inversion H; subst. reflexivity.
  - change (firstn (S (S d)) (h :: l)) with (h :: firstn (S d) l).
    change (firstn (S d) (h :: l)) with (h :: firstn d l).
    change (skipn (S (S d)) (h :: l)) with (skipn (S d) l).
    change (skipn (S d) (h :: l)) with (skipn d l).
    simpl app. f_equal. apply IH; exact H.
Qed.

Lemma swap_set_spec {A} : forall d (l : list A) a b,
  nth_error l d = Some a -> nth_error l (S d) = Some b ->
  set_nth (S d) a (set_nth d b l) = swap_list d l.
Proof.
  induction d as [|d IH]; intros [|h l] a b Ha Hb; simpl in Ha, Hb; try discriminate.
  - destruct l as [|h2 l]; simpl in Hb; try discriminate.
    inversion Ha; inversion Hb; subst. reflexivity.
  - cbn [set_nth]. unfold swap_list.
    change (firstn (S d) (h :: l)) with (h :: firstn d l).
    change (skipn (S (S d)) (h :: l)) with (skipn (S d) l).
    change (skipn (S d) (h :: l)) with (skipn d l).
    change (skipn (S (S (S d))) (h :: l)) with (skipn (S (S d)) l).
    simpl app. f_equal. apply (IH l a b Ha Hb).
Qed.

Lemma swap_list_map {A B} (f : A -> B) d (l : list A) :
  map f (swap_list d l) = swap_list d (map f l).
Proof.
  unfold swap_list. rewrite !map_app, <- !firstn_map, <- !skipn_map. reflexivity.
Qed.

Lemma my_firstn_In {A} : forall n (l : list A) x, In x (firstn n l) -> In x l.
Proof.
  induction n as [|n IH]; intros [|h l] x H; simpl in H; try contradiction.
  destruct H as [H|H]; [left; exact H|right; apply (IH l x H)].
Qed.
Lemma my_skipn_In {A} : forall n (l : list A) x, In x (skipn n l) -> In x l.
Proof.
  induction n as [|n IH]; intros [|h l] x H; simpl in H; try contradiction; try exact H.
  right. apply (IH l x H).
Qed.

Lemma swap_list_in {A} d (l : list A) x : In x (swap_list d l) -> In x l.
Proof.
  unfold swap_list. rewrite !in_app_iff.
  intros [H|[H|[H|H]]].
  - eapply my_firstn_In; exact H.
  - apply my_firstn_In in H. eapply my_skipn_In; exact H.
  - apply my_firstn_In in H. eapply my_skipn_In; exact H.
  - eapply my_skipn_In; exact H.
Qed.

(* ---- getFormat by name = by position *)
Lemma index_of_nth : forall ids d r,
  NoDup ids -> nth_error ids d = Some r -> index_of r ids = Some d.
Proof.
  induction ids as [|x ids IH]; intros [|d] r Hnd H; simpl in H; try discriminate.
  - inversion H; subst. simpl. rewrite rid_eqb_refl. reflexivity.
  - simpl. inversion Hnd as [|? ? Hnot Hnd']; subst.
    rewrite rid_eqb_false.
    + rewrite (IH d r Hnd' H). reflexivity.
    + intros ->. apply Hnot. eapply nth_error_In; exact H.
Qed.

Lemma get_format_at : forall t d r,
  NoDup (t_ids t) -> nth_error (t_ids t) d = Some r ->
  get_format t r = nth_error (t_fmts t) d.
Proof.
  intros t d r Hnd H. unfold get_format. rewrite (index_of_nth _ _ _ Hnd H). reflexivity.
Qed.

Lemma map_get_format_self : forall t,
  NoDup (t_ids t) -> length (t_fmts t) = length (t_ids t) ->
  map (get_format t) (t_ids t) = map Some (t_fmts t).
Proof.
  intros t Hnd Hlen.
  apply nth_ext with (d := None) (d' := None).
  - rewrite !map_length. symmetry. exact Hlen.
  - intros n Hn. rewrite map_length in Hn.
    destruct (nth_error (t_ids t) n) as [r|] eqn:Er.
    2:{ apply nth_error_None in Er. lia. }
    rewrite (nth_indep _ None (get_format t r)) by (rewrite map_length; exact Hn).
    rewrite map_nth. rewrite (nth_error_nth _ _ _ Er).
    rewrite (get_format_at t n r Hnd Er).
    destruct (nth_error (t_fmts t) n) as [f|] eqn:Ef.
    2:{ apply nth_error_None in Ef. lia. }
    rewrite (nth_indep _ None (Some f)) by (rewrite map_length; lia).
    rewrite map_nth. rewrite (nth_error_nth _ _ _ Ef). reflexivity.
Qed.

(* ---- split *)
Lemma wf_t_facts t : wf_t t = true ->
  NoDup (t_ids t) /\ length (t_fmts t) = length (t_ids t)
  /\ (forall s, t_shape t = Some s -> length s = length (t_ids t)).
Proof.
  unfold wf_t. intros H. apply andb_true_iff in H. destruct H as [H H3].
  apply andb_true_iff in H. destruct H as [H1 H2].
  split; [apply nodup_rid_NoDup; exact H1|].
  split; [apply Nat.eqb_eq; exact H2|].
  intros s Hs. rewrite Hs in H3. apply Nat.eqb_eq; exact H3.
Qed.

Lemma split_attrs_spec : forall d t,
  wf_kx t (XSplit d) = true -> split_attrs d t = split_spec d t.
Proof.
  intros d t Hwf. unfold wf_kx in Hwf. apply andb_true_iff in Hwf. destruct Hwf as [Ht Hx].
  destruct (wf_t_facts t Ht) as [Hnd [Hlen Hsh]].
  unfold wf_x in Hx. unfold split_attrs, split_spec.
  destruct (nth_error (t_ids t) d) as [[a|l]|] eqn:Eid; try discriminate.
  apply andb_true_iff in Hx. destruct Hx as [Hn1 Hn0].
  apply negb_true_iff in Hn1. apply negb_true_iff in Hn0.
  apply mem_rid_false_in in Hn1. apply mem_rid_false_in in Hn0.
  assert (Hd : (d < length (t_ids t))%nat) by (apply nth_error_Some; congruence).
  destruct (nth_error (t_fmts t) d) as [fd|] eqn:Ef.
  2:{ apply nth_error_None in Ef. lia. }
  (* ids *)
  rewrite (insert_set_spec d (t_ids t) (RS a) _ _ Eid).
  (* formats *)
  assert (Hf : all_some (map (fun r => get_format t
                  (if rid_eqb r (RS (a ++ [1])) then RS a
                   else if rid_eqb r (RS (a ++ [0])) then RS a else r))
                  (firstn d (t_ids t) ++ [RS (a ++ [1]); RS (a ++ [0])] ++ skipn (S d) (t_ids t)))
               = Some (firstn (S d) (t_fmts t) ++ skipn d (t_fmts t))).
  { rewrite <- (dup_mid_spec d (t_fmts t) fd Ef).
    rewrite <- all_some_map_Some. f_equal.
    rewrite !map_app. cbn [map].
    rewrite rid_eqb_refl.
    replace (rid_eqb (RS (a ++ [0])) (RS (a ++ [1]))) with false.
    2:{ symmetry. apply rid_eqb_false. intros E. inversion E as [E'].
        apply app_inv_head in E'. discriminate. }
    rewrite rid_eqb_refl.
    rewrite (get_format_at t d (RS a) Hnd Eid), Ef.
    assert (Hsame : forall r, In r (t_ids t) ->
              get_format t (if rid_eqb r (RS (a ++ [1])) then RS a
                            else if rid_eqb r (RS (a ++ [0])) then RS a else r) = get_format t r).
    { intros r Hr. rewrite !rid_eqb_false; [reflexivity| |]; intros ->; contradiction. }
    rewrite (map_ext_in _ (get_format t) (firstn d (t_ids t)))
      by (intros r Hr; apply Hsame; eapply my_firstn_In; exact Hr).
    rewrite (map_ext_in _ (get_format t) (skipn (S d) (t_ids t)))
      by (intros r Hr; apply Hsame; eapply my_skipn_In; exact Hr).
    rewrite <- firstn_map, <- skipn_map, (map_get_format_self t Hnd Hlen).
    rewrite firstn_map, skipn_map. reflexivity. }
  rewrite Hf.
  (* shape *)
  destruct (t_shape t) as [s|] eqn:Es; simpl option_map.
  - pose proof (Hsh s eq_refl) as Hls.
    destruct s as [|s0 s']; [simpl in Hls; lia|].
    destruct (nth_error (s0 :: s') d) as [x|] eqn:Ex.
    2:{ apply nth_error_None in Ex. lia. }
    rewrite (insert_dup_spec d (s0 :: s') x Ex). reflexivity.
  - reflexivity.
Qed.

(* ---- swap *)
Lemma swap_at_spec {A} d (l : list A) :
  (S d < length l)%nat -> swap_at d l = Some (swap_list d l).
Proof.
  intros H. unfold swap_at.
  destruct (nth_error l d) as [a|] eqn:Ea.
  2:{ apply nth_error_None in Ea. lia. }
  destruct (nth_error l (S d)) as [b|] eqn:Eb.
  2:{ apply nth_error_None in Eb. lia. }
  rewrite (swap_set_spec d l a b Ea Eb). reflexivity.
Qed.

Lemma swap_attrs_spec : forall d t,
  wf_kx t (XSwap d) = true -> swap_attrs d t = swap_spec d t.
Proof.
  intros d t Hwf. unfold wf_kx in Hwf. apply andb_true_iff in Hwf. destruct Hwf as [Ht Hx].
  destruct (wf_t_facts t Ht) as [Hnd [Hlen Hsh]].
  unfold wf_x in Hx. apply andb_true_iff in Hx. destruct Hx as [Hx _].
  apply Nat.ltb_lt in Hx.
  unfold swap_attrs, swap_spec.
  rewrite (swap_at_spec d (t_ids t) Hx).
  assert (Hf : all_some (map (get_format t) (swap_list d (t_ids t))) = Some (swap_list d (t_fmts t))).
  { rewrite swap_list_map, (map_get_format_self t Hnd Hlen), <- swap_list_map.
    apply all_some_map_Some. }
  rewrite Hf.
  destruct (t_shape t) as [s|] eqn:Es; cbn [option_map].
  - pose proof (Hsh s eq_refl) as Hls.
    destruct s as [|s0 s']; [simpl in Hls; lia|].
    rewrite (swap_at_spec d (s0 :: s')) by lia. reflexivity.
  - reflexivity.
Qed.

(* ---- the unflatten re-arrangement inverts the (tuple-style) flatten re-arrangement *)
Lemma unflat_seg_inverse : forall n seg,
  length seg = S (S n) -> unflat_seg (S n) (ST seg) = Some seg.
Proof.
  induction n as [|n IH]; intros seg H.
  - destruct seg as [|a [|b [|c rest]]]; simpl in H; try discriminate. reflexivity.
  - destruct seg as [|a [|b [|c rest]]]; simpl in H; try discriminate.
    change (unflat_seg (S (S n)) (ST (a :: b :: c :: rest)))
      with (option_map (cons a) (unflat_seg (S n) (ST (b :: c :: rest)))).
    rewrite IH; [reflexivity|simpl; lia].
Qed.

Lemma unflat_seg_id_inverse : forall n atoms,
  length atoms = S (S n) -> unflat_seg_id (S n) atoms = Some (map RS atoms).
Proof.
  induction n as [|n IH]; intros atoms H.
  - destruct atoms as [|a [|b [|c rest]]]; simpl in H; try discriminate. reflexivity.
  - destruct atoms as [|a [|b [|c rest]]]; simpl in H; try discriminate.
    change (unflat_seg_id (S (S n)) (a :: b :: c :: rest))
      with (option_map (cons (RS a)) (unflat_seg_id (S n) (b :: c :: rest))).
    rewrite IH; [reflexivity|simpl; lia].
Qed.

(* ---- the part of "the model meets the oracle" that is proved *)
Lemma c14_model_holds_partial : forall c,
  c14_wf c = true ->
  match c with
  | KL _ _ _ => True
  | KX _ (XSplit _) => True
  | KX _ (XSwap _) => True
  | _ => False
  end ->
  holds c14_checker c (model c14_checker c) = true.
Proof.
  intros c Hwf Hk. cbn [holds model c14_checker]. unfold c14_holds. rewrite Hwf. cbn [andb].
  destruct c as [t x|ids shape d t|op ra rb|t0 data0 act0 steps]; try contradiction.
  - destruct x; try contradiction; cbn [c14_model xform_attrs xform_spec]; cbn [c14_wf] in Hwf.
    + rewrite (split_attrs_spec _ _ Hwf). apply V_eqb_refl.
    + rewrite (swap_attrs_spec _ _ Hwf). apply V_eqb_refl.
  - cbn [c14_model]. cbn [c14_wf] in Hwf.
    apply (lazy_holds op (raw_attrs ra) (raw_attrs rb) Hwf).
Qed.
