(* C14BuildP.v — lazy result attributes meet the oracle; active-range iteration equals occupancy
   iteration when the active range covers the coordinates; a fiber's own estimate bounds its
   coordinates. *)
From Coq Require Import ZArith List Bool Lia PeanoNat ZifyBool.
From FT Require Import Model.Base Model.Obs Model.C14Attrs Model.C14Build Model.C14Check Proofs.ObsP.
Import ListNotations.
Open Scope Z_scope.

(* ---- lazy results *)
Lemma lazy_merge_attrs : forall op a b,
  match op with LProject _ _ _ _ => False | LPop => False | _ => True end ->
  lazy_attrs op a b = mkF (f_id a) (f_active a).
Proof. intros op a b H. destruct op; try contradiction; reflexivity. Qed.

Lemma lazy_pop_attrs : forall a b, lazy_attrs LPop a b = mkF (f_id a) (f_active b).
Proof. reflexivity. Qed.

Lemma lazy_project_interval : forall m k lo hi r a b,
  f_active (lazy_attrs (LProject m k (Some (lo, hi)) r) a b) = (lo, hi).
Proof. reflexivity. Qed.

Lemma lazy_project_id : forall m k i r a b,
  f_id (lazy_attrs (LProject m k i (Some r)) a b) = r.
Proof. intros m k [[lo hi]|] r a b; reflexivity. Qed.

Lemma lazy_project_range : forall m k r a b c,
  fst (f_active a) <= c < snd (f_active a) ->
  let rg := f_active (lazy_attrs (LProject m k None r) a b) in
  fst rg <= m * c + k < snd rg.
Proof.
  intros m k r a b c Hc. cbn [lazy_attrs f_active fst snd].
  destruct (f_active a) as [lo hi]. cbn [fst snd] in *.
  assert (Hm : m <= 0 \/ 0 <= m) by lia.
  destruct Hm as [Hm|Hm]; nia.
Qed.

Lemma lazy_holds : forall op a b,
  wf_kl op a b = true -> holds_kl op a b (V_fattrs (lazy_attrs op a b)) = true.
Proof.
  intros op a b Hwf. unfold V_fattrs, Vp.
  destruct op as [ | | | | | | | | m k interval rank_id];
    try (cbn [lazy_attrs holds_kl f_id f_active fst snd];
         rewrite V_eqb_refl, !Z.eqb_refl; reflexivity).
  unfold wf_kl in Hwf.
  destruct interval as [[lo hi]|].
  - cbn [lazy_attrs holds_kl f_id f_active fst snd].
    rewrite !Z.eqb_refl. destruct rank_id; [rewrite V_eqb_refl|]; reflexivity.
  - apply andb_true_iff in Hwf. destruct Hwf as [Hm Hr].
    apply negb_true_iff in Hm. apply Z.eqb_neq in Hm. apply Z.ltb_lt in Hr.
    cbn [lazy_attrs holds_kl f_id f_active fst snd].
    destruct (f_active a) as [alo ahi]. cbn [fst snd] in *.
    assert (Hid : (match rank_id with
                   | Some r => V_eqb (V_atom (match rank_id with Some r0 => r0 | None => unknown_id end)) (V_atom r)
                   | None => true end) = true).
    { destruct rank_id; [apply V_eqb_refl|reflexivity]. }
    rewrite Hid. cbn [andb].
    destruct (0 <? m) eqn:Em.
    + apply Z.ltb_lt in Em. apply andb_true_iff. split; apply Z.eqb_eq; nia.
    + apply Z.ltb_ge in Em. apply andb_true_iff. split; apply Z.eqb_eq; nia.
Qed.

(* ---- iterActive = iterOccupancy *)
Lemma iter_active_occupancy : forall d lo hi es,
  (forall c, In c (map fst es) -> lo <= c < hi) ->
  iter_active d (lo, hi) es = iter_occupancy d es.
Proof.
  intros d lo hi es. unfold iter_active, iter_occupancy. cbn [fst snd].
  induction es as [|[c p] es IH]; intros H; [reflexivity|].
  cbn [iter_range].
  assert (Hc : lo <= c < hi) by (apply H; left; reflexivity).
  assert (E1 : (hi <=? c) = false) by (apply Z.leb_gt; lia).
  assert (E2 : (lo <=? c) = true) by (apply Z.leb_le; lia).
  rewrite E1, E2.
  f_equal. apply IH. intros c' Hc'. apply H. right. exact Hc'.
Qed.

(* ---- a fiber's own estimate (last coordinate + 1) bounds all its coordinates *)
Lemma last_coord_max : forall es c,
  ssorted (map fst es) = true -> In c (map fst es) ->
  exists m, last_coord es = Some m /\ c <= m.
Proof.
  induction es as [|[c0 p0] es IH]; intros c Hs Hin; [contradiction|].
  destruct es as [|[c1 p1] es'].
  - cbn [map fst In] in Hin. destruct Hin as [<-|[]]. exists c0. split; [reflexivity|lia].
  - change (map fst ((c0, p0) :: (c1, p1) :: es')) with (c0 :: c1 :: map fst es') in Hs.
    cbn [ssorted] in Hs. apply andb_true_iff in Hs. destruct Hs as [H01 Hs'].
    apply Z.ltb_lt in H01.
    change (last_coord ((c0, p0) :: (c1, p1) :: es')) with (last_coord ((c1, p1) :: es')).
    change (In c (c0 :: map fst ((c1, p1) :: es'))) in Hin.
    destruct Hin as [<-|Hin].
    + destruct (IH c1 Hs' (or_introl eq_refl)) as [m [Hm Hle]].
      exists m. split; [exact Hm|lia].
    + destruct (IH c Hs' Hin) as [m [Hm Hle]]. exists m. split; [exact Hm|exact Hle].
Qed.

Lemma est1_bound : forall es c,
  ssorted (map fst es) = true -> In c (map fst es) -> c < est1 es.
Proof.
  intros es c Hs Hin. destruct (last_coord_max es c Hs Hin) as [m [Hm Hle]].
  unfold est1. rewrite Hm. lia.
Qed.

(* a rank whose estimated shape was never set (all its fibers empty when appended) or an
   owned fiber without its own active range: the active range is [0, rank shape) or, when the
   rank has no shape, [0, own estimate) *)
Lemma get_active_covers : forall rshape own es c,
  ssorted (map fst es) = true ->
  (forall x, In x (map fst es) -> 0 <= x) ->
  (forall s, rshape = Some s -> s <> 0 -> forall x, In x (map fst es) -> x < s) ->
  In c (map fst es) ->
  fst (get_active rshape (ANode own None es)) <= c < snd (get_active rshape (ANode own None es)).
Proof.
  intros rshape own es c Hs Hnn Hb Hin. cbn [get_active a_es].
  pose proof (est1_bound es c Hs Hin) as He. pose proof (Hnn c Hin) as H0.
  destruct rshape as [s|]; cbn [fst snd].
  - destruct (s =? 0) eqn:E; cbn [fst snd].
    + lia.
    + apply Z.eqb_neq in E. pose proof (Hb s eq_refl E c Hin). lia.
  - lia.
Qed.
