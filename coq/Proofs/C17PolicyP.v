(* C17PolicyP.v — facts about the reference policy g_min_run itself: a fill happens only on a
   read miss and the first access to a line is a miss (bounds); inclusion of the resident sets
   at two capacities (monotonicity), without staging pins. *)
From Coq Require Import ZArith List Bool Lia PeanoNat Permutation.
From FT Require Import Model.Base Model.Obs Model.C17Traffic Model.C17Check
                       Proofs.C17CheckP Proofs.C17SchedP Proofs.C17LiftP Proofs.C17ParamP.
Import ListNotations.
Open Scope Z_scope.

Section Bounds.
Context {A : Type} (same : A -> A -> bool) (isw isstg : A -> bool) (bidx : A -> nat).

(* reads of binding i that are the first access to their line / all reads of binding i *)
Fixpoint gcold (i : nat) (hist S : list A) : Z :=
  match S with
  | [] => 0
  | x :: r => (if Nat.eqb (bidx x) i && negb (isw x) && negb (existsb (same x) hist) then 1 else 0)
              + gcold i (x :: hist) r
  end.

Fixpoint greads (i : nat) (S : list A) : Z :=
  match S with
  | [] => 0
  | x :: r => (if Nat.eqb (bidx x) i && negb (isw x) then 1 else 0) + greads i r
  end.

Lemma existsb_incl (p : A -> bool) l l' : (forall y, In y l -> In y l') ->
  existsb p l = true -> existsb p l' = true.
Proof.
  intros I H. apply existsb_exists in H. destruct H as [y [Hy Hp]]. apply existsb_exists. exists y. auto.
Qed.

Lemma nth_upd_add i j (l : list Z) : (j < length l)%nat ->
  nth i (upd j (Z.add 1) l) 0 = nth i l 0 + (if Nat.eqb j i then 1 else 0).
Proof.
  intros H. rewrite nth_upd by exact H. rewrite (Nat.eqb_sym j i).
  destruct (Nat.eqb_spec i j) as [->|N]; lia.
Qed.

Lemma room_incl cap line rest np : forall fuel R y,
  In y (g_make_room same fuel cap line rest R np) -> In y R.
Proof.
  induction fuel as [|f IH]; intros R y H; cbn [g_make_room] in H; auto.
  destruct (Z.leb _ cap); auto. destruct (g_furthest same rest R); auto.
  apply IH in H. unfold g_drop in H. apply filter_In in H. tauto.
Qed.

Lemma min_run_bounds cap line i : forall S R P fills hist,
  (forall y, In y (R ++ P) -> In y hist) ->
  (forall x, In x S -> (bidx x < length fills)%nat) ->
  nth i fills 0 + gcold i hist S <= nth i (g_min_run same isw isstg bidx cap line S R P fills) 0
  /\ nth i (g_min_run same isw isstg bidx cap line S R P fills) 0 <= nth i fills 0 + greads i S.
Proof.
  induction S as [|x S IH]; intros R P fills hist Inc Hb; cbn [g_min_run gcold greads]; [lia|].
  assert (Hbx : (bidx x < length fills)%nat) by (apply Hb; left; reflexivity).
  assert (HbS : forall f' : list Z, length f' = length fills -> forall y, In y S -> (bidx y < length f')%nat).
  { intros f' L y Hy. rewrite L. apply Hb. right. exact Hy. }
  (* the generic continuation: any R', P' made of residents and x *)
  assert (K : forall R' P' (f' : list Z) (d : Z),
            (forall y, In y (R' ++ P') -> In y (x :: hist)) -> length f' = length fills ->
            nth i f' 0 = nth i fills 0 + d ->
            (if Nat.eqb (bidx x) i && negb (isw x) && negb (existsb (same x) hist) then 1 else 0) <= d ->
            d <= (if Nat.eqb (bidx x) i && negb (isw x) then 1 else 0) ->
            nth i fills 0 + ((if Nat.eqb (bidx x) i && negb (isw x) && negb (existsb (same x) hist) then 1 else 0)
                             + gcold i (x :: hist) S)
            <= nth i (g_min_run same isw isstg bidx cap line S R' P' f') 0
            /\ nth i (g_min_run same isw isstg bidx cap line S R' P' f') 0
               <= nth i fills 0 + ((if Nat.eqb (bidx x) i && negb (isw x) then 1 else 0) + greads i S)).
  { intros R' P' f' d Inc' L E D1 D2. destruct (IH R' P' f' (x :: hist) Inc' (HbS f' L)) as [I1 I2]. lia. }
  assert (IncR : forall y, In y R -> In y (x :: hist)) by (intros y Hy; right; apply Inc; apply in_or_app; left; exact Hy).
  assert (IncP : forall y, In y P -> In y (x :: hist)) by (intros y Hy; right; apply Inc; apply in_or_app; right; exact Hy).
  assert (App : forall R' P', (forall y, In y R' -> In y (x :: hist)) -> (forall y, In y P' -> In y (x :: hist)) ->
                              forall y, In y (R' ++ P') -> In y (x :: hist)).
  { intros R' P' H1 H2 y Hy. apply in_app_or in Hy. destruct Hy; auto. }
  destruct (existsb (same x) (R ++ P)) eqn:Hit.
  - (* hit: no fill; the line was seen before *)
    assert (Seen : existsb (same x) hist = true) by (eapply existsb_incl; [exact Inc|exact Hit]).
    assert (D1 : (if Nat.eqb (bidx x) i && negb (isw x) && negb (existsb (same x) hist) then 1 else 0) <= 0).
    { rewrite Seen. cbn [negb]. rewrite andb_false_r. lia. }
    assert (D2 : 0 <= (if Nat.eqb (bidx x) i && negb (isw x) then 1 else 0)) by (destruct (Nat.eqb (bidx x) i && negb (isw x)); lia).
    destruct (g_next_idx same x S).
    + apply (K R P fills 0); [apply App; auto|reflexivity|lia|exact D1|exact D2].
    + apply (K _ _ fills 0); [|reflexivity|lia|exact D1|exact D2].
      apply App; intros y Hy; unfold g_drop in Hy; apply filter_In in Hy; destruct Hy; auto.
  - (* miss: a fill iff it is a read *)
    set (f' := if isw x then fills else upd (bidx x) (Z.add 1) fills).
    assert (L : length f' = length fills) by (unfold f'; destruct (isw x); [reflexivity|apply upd_length]).
    pose (d0 := if Nat.eqb (bidx x) i && negb (isw x) then 1 else 0).
    assert (E : nth i f' 0 = nth i fills 0 + (if Nat.eqb (bidx x) i && negb (isw x) then 1 else 0)).
    { unfold f'. destruct (isw x); cbn [negb]; [rewrite andb_false_r; lia|].
      rewrite andb_true_r. apply nth_upd_add. exact Hbx. }
    assert (D1 : (if Nat.eqb (bidx x) i && negb (isw x) && negb (existsb (same x) hist) then 1 else 0)
                 <= (if Nat.eqb (bidx x) i && negb (isw x) then 1 else 0)).
    { destruct (Nat.eqb (bidx x) i && negb (isw x)); cbn [andb]; [destruct (negb _); lia|lia]. }
    assert (Rm : forall y, In y (g_make_room same (Datatypes.S (length R)) cap line S R (length P)) -> In y (x :: hist)).
    { intros y Hy. apply IncR. eapply room_incl. exact Hy. }
    assert (Xin : In x (x :: hist)) by (left; reflexivity).
    assert (Cons : forall l, (forall y, In y l -> In y (x :: hist)) -> forall y, In y (x :: l) -> In y (x :: hist)).
    { intros l Hl y [<-|Hy]; auto. }
    destruct (g_next_idx same x S); [|apply (K R P f' d0); [apply App; auto|exact L|exact E|exact D1|unfold d0; lia]].
    destruct (Z.leb _ cap).
    + destruct (isstg x); apply (K _ _ f' d0); try exact L; try exact E; try exact D1; try (unfold d0; lia); apply App; auto; apply Cons; auto.
    + destruct (isstg x).
      * apply (K _ _ f' d0); try exact L; try exact E; try exact D1; try (unfold d0; lia); apply App; auto; apply Cons; auto.
      * destruct (g_furthest same S R); [|apply (K R P f' d0); [apply App; auto|exact L|exact E|exact D1|unfold d0; lia]].
        destruct (later _ _); [|apply (K R P f' d0); [apply App; auto|exact L|exact E|exact D1|unfold d0; lia]].
        apply (K _ _ f' d0); try exact L; try exact E; try exact D1; try (unfold d0; lia); apply App; auto; apply Cons; auto.
Qed.
End Bounds.

(* ------------------------------------------------------------------ monotonicity in the capacity,
   without staging pins: the resident set at the smaller capacity stays included in the one at
   the larger capacity (up to [same]), and the larger cache never has less free room *)
Section Mono.
Context {A : Type} (same : A -> A -> bool) (isw isstg : A -> bool) (bidx : A -> nat).
Hypothesis same_refl : forall a, same a a = true.
Hypothesis same_sym : forall a b, same a b = same b a.
Hypothesis same_trans : forall a b c, same a b = true -> same b c = true -> same a c = true.

Notation nidx := (g_next_idx same).
Notation drop := (g_drop same).

Lemma same_congr u v e : same u v = true -> same u e = same v e.
Proof.
  intros H. destruct (same v e) eqn:E.
  - eapply same_trans; eassumption.
  - destruct (same u e) eqn:E2; auto. rewrite same_sym in H.
    rewrite (same_trans _ _ _ H E2) in E. discriminate.
Qed.

Lemma nidx_same u v rest : same u v = true -> nidx u rest = nidx v rest.
Proof.
  intros H. induction rest as [|e r IH]; cbn [g_next_idx]; auto.
  rewrite (same_congr u v e H), IH. reflexivity.
Qed.

Lemma nidx_eq_same u v : forall rest j, nidx u rest = Some j -> nidx v rest = Some j -> same u v = true.
Proof.
  induction rest as [|e r IH]; intros j Hu Hv; cbn [g_next_idx] in *; [discriminate|].
  destruct (same u e) eqn:Eu; destruct (same v e) eqn:Ev.
  - eapply same_trans; [exact Eu|]. rewrite same_sym. exact Ev.
  - inversion Hu; subst. destruct (nidx v r); discriminate.
  - inversion Hv; subst. destruct (nidx u r); discriminate.
  - destruct (nidx u r) as [a|] eqn:Au; destruct (nidx v r) as [b|] eqn:Bv; cbn in Hu, Hv; try discriminate.
    inversion Hu; inversion Hv; subst. apply (IH a); auto; f_equal; lia.
Qed.

Definition incS (R1 R2 : list A) : Prop := forall y, In y R1 -> existsb (same y) R2 = true.
Fixpoint nodupS (R : list A) : Prop :=
  match R with [] => True | y :: R' => existsb (same y) R' = false /\ nodupS R' end.
Definition liveS (rest R : list A) : Prop := forall y, In y R -> nidx y rest <> None.

Lemma hit_witness y R : existsb (same y) R = true -> exists y2, In y2 R /\ same y y2 = true.
Proof. intros H. apply existsb_exists in H. exact H. Qed.

Lemma hit_intro y R y2 : In y2 R -> same y y2 = true -> existsb (same y) R = true.
Proof. intros H1 H2. apply existsb_exists. eauto. Qed.

Lemma drop_in x R y : In y (drop x R) <-> In y R /\ same x y = false.
Proof. unfold g_drop. rewrite filter_In, negb_true_iff. tauto. Qed.

Lemma nodupS_drop x R : nodupS R -> nodupS (drop x R).
Proof.
  induction R as [|y R IH]; cbn [nodupS]; auto. intros [Hy HR]. unfold g_drop. cbn [filter].
  fold (drop x R). destruct (same x y); cbn [negb]; [apply IH; exact HR|].
  cbn [nodupS]. split; [|apply IH; exact HR].
  destruct (existsb (same y) (drop x R)) eqn:E; auto.
  destruct (hit_witness _ _ E) as [z [Hz Sz]]. apply drop_in in Hz.
  rewrite (hit_intro y R z (proj1 Hz) Sz) in Hy. discriminate.
Qed.

Lemma length_drop x R : nodupS R -> existsb (same x) R = true -> S (length (drop x R)) = length R.
Proof.
  induction R as [|y R IH]; cbn [nodupS existsb]; [discriminate|]. intros [Hy HR] H.
  unfold g_drop. cbn [filter]. fold (drop x R). destruct (same x y) eqn:E; cbn [negb length].
  - f_equal. unfold g_drop. rewrite filter_all; auto. intros z Hz. apply negb_true_iff.
    destruct (same x z) eqn:Ez; auto.
    rewrite same_sym in E. rewrite (hit_intro y R z Hz (same_trans _ _ _ E Ez)) in Hy. discriminate.
  - cbn [orb] in H. rewrite (IH HR H). reflexivity.
Qed.

Lemma incS_drop x R1 R2 : incS R1 R2 -> incS (drop x R1) (drop x R2).
Proof.
  intros I y Hy. apply drop_in in Hy. destruct Hy as [Hy Nx].
  destruct (hit_witness _ _ (I y Hy)) as [y2 [H2 S2]].
  apply (hit_intro y _ y2); auto. apply drop_in. split; auto.
  destruct (same x y2) eqn:E; auto. rewrite same_sym in S2. rewrite (same_trans _ _ _ E S2) in Nx. discriminate.
Qed.

Lemma live_tl x rest R : liveS (x :: rest) R ->
  (forall y, In y R -> same y x = true -> nidx x rest <> None) -> liveS rest R.
Proof.
  intros L H y Hy. specialize (L y Hy). cbn [g_next_idx] in L.
  destruct (same y x) eqn:E.
  - rewrite (nidx_same y x rest E). apply (H y Hy E).
  - destruct (nidx y rest); [discriminate|contradiction].
Qed.

Lemma gfurthest_none rest R : g_furthest same rest R = None -> R = [].
Proof.
  destruct R as [|y R]; auto. cbn [g_furthest]. destruct (g_furthest same rest R); [|discriminate].
  destruct (later _ _); discriminate.
Qed.

Lemma gfurthest_max rest : forall R z, g_furthest same rest R = Some z ->
  In z R /\ forall y, In y R -> later (nidx z rest) (nidx y rest) = true.
Proof.
  induction R as [|y R IH]; intros z H; [discriminate|]. cbn [g_furthest] in H.
  destruct (g_furthest same rest R) as [z'|] eqn:F.
  - destruct (IH z' eq_refl) as [Hin Hmax].
    destruct (later (nidx y rest) (nidx z' rest)) eqn:L; inversion H; subst z.
    + split; [left; reflexivity|]. intros w [<-|Hw].
      * destruct (nidx y rest); cbn; auto. apply Nat.leb_refl.
      * specialize (Hmax w Hw). destruct (nidx y rest), (nidx z' rest), (nidx w rest); cbn in *; auto; try discriminate.
        apply Nat.leb_le in L, Hmax. apply Nat.leb_le. lia.
    + split; [right; exact Hin|]. intros w [<-|Hw]; [|apply Hmax; exact Hw].
      destruct (nidx y rest), (nidx z' rest); cbn in *; auto; try discriminate.
      apply Nat.leb_gt in L. apply Nat.leb_le. lia.
  - inversion H; subst z. apply gfurthest_none in F. subst R.
    split; [left; reflexivity|]. intros w [<-|[]]. destruct (nidx y rest); cbn; auto. apply Nat.leb_refl.
Qed.

(* two maxima of a live set are the same line *)
Lemma max_unique rest R z y : liveS rest R -> In z R -> In y R ->
  later (nidx z rest) (nidx y rest) = true -> later (nidx y rest) (nidx z rest) = true -> same z y = true.
Proof.
  intros L Hz Hy L1 L2. pose proof (L z Hz) as Nz. pose proof (L y Hy) as Ny.
  destruct (nidx z rest) as [a|] eqn:Ea; [|contradiction]. destruct (nidx y rest) as [b|] eqn:Eb; [|contradiction].
  cbn in L1, L2. apply Nat.leb_le in L1, L2. assert (a = b) by lia. subst b.
  eapply nidx_eq_same; eassumption.
Qed.

Lemma incS_cons_both x R1 R2 : incS R1 R2 -> incS (x :: R1) (x :: R2).
Proof.
  intros I y [<-|Hy]; cbn [existsb]; [rewrite same_refl; reflexivity|]. rewrite (I y Hy). apply orb_true_r.
Qed.
Lemma incS_cons_r x R1 R2 : incS R1 R2 -> incS R1 (x :: R2).
Proof. intros I y Hy. cbn [existsb]. rewrite (I y Hy). apply orb_true_r. Qed.
Lemma incS_cons_l x R1 R2 : incS R1 R2 -> existsb (same x) R2 = true -> incS (x :: R1) R2.
Proof. intros I H y [<-|Hy]; auto. Qed.
Lemma incS_drop_l z R1 R2 : incS R1 R2 -> incS (drop z R1) R2.
Proof. intros I y Hy. apply drop_in in Hy. apply I. tauto. Qed.
Lemma live_cons x rest R : liveS rest R -> nidx x rest <> None -> liveS rest (x :: R).
Proof. intros L H y [<-|Hy]; auto. Qed.
Lemma live_drop z rest R : liveS rest R -> liveS rest (drop z R).
Proof. intros L y Hy. apply drop_in in Hy. apply L. tauto. Qed.
Lemma miss_drop x z R : existsb (same x) R = false -> existsb (same x) (drop z R) = false.
Proof.
  intros H. destruct (existsb (same x) (drop z R)) eqn:E; auto.
  destruct (hit_witness _ _ E) as [y [Hy Sy]]. apply drop_in in Hy.
  rewrite (hit_intro x R y (proj1 Hy) Sy) in H. discriminate.
Qed.
Lemma miss_no_same x R y : existsb (same x) R = false -> In y R -> same y x = false.
Proof.
  intros H Hy. destruct (same y x) eqn:E; auto. rewrite same_sym in E.
  rewrite (hit_intro x R y Hy E) in H. discriminate.
Qed.
Lemma live_tl_miss x rest R : liveS (x :: rest) R -> existsb (same x) R = false -> liveS rest R.
Proof.
  intros L H. apply (live_tl x rest R L). intros y Hy E. rewrite (miss_no_same x R y H Hy) in E. discriminate.
Qed.
Lemma inc_hit x R1 R2 : incS R1 R2 -> existsb (same x) R1 = true -> existsb (same x) R2 = true.
Proof.
  intros I H. destruct (hit_witness _ _ H) as [y [Hy Sy]].
  destruct (hit_witness _ _ (I y Hy)) as [y2 [H2 S2]].
  apply (hit_intro x R2 y2 H2). eapply same_trans; eassumption.
Qed.

Lemma live_tl_drop x rest R : liveS (x :: rest) R -> liveS rest (drop x R).
Proof.
  intros L y Hy. apply drop_in in Hy. destruct Hy as [Hy N]. specialize (L y Hy). cbn [g_next_idx] in L.
  rewrite same_sym in N. rewrite N in L. destruct (nidx y rest); [discriminate|contradiction].
Qed.

Lemma incS_drop_r_miss x R1 R2 : incS R1 R2 -> existsb (same x) R1 = false -> incS R1 (drop x R2).
Proof.
  intros I H y Hy. destruct (hit_witness _ _ (I y Hy)) as [y2 [H2 S2]].
  apply (hit_intro y _ y2); auto. apply drop_in. split; auto.
  destruct (same x y2) eqn:E; auto. rewrite same_sym in S2.
  rewrite (hit_intro x R1 y Hy (same_trans _ _ _ E S2)) in H. discriminate.
Qed.

Lemma incS_nil R1 : incS R1 [] -> R1 = [].
Proof. destruct R1 as [|y R1]; auto. intros I. specialize (I y (or_introl eq_refl)). discriminate. Qed.

Lemma later_tr a b c : later a b = true -> later b c = true -> later a c = true.
Proof.
  destruct a, b, c; cbn; auto; try discriminate. intros H1 H2.
  apply Nat.leb_le in H1, H2. apply Nat.leb_le. lia.
Qed.

(* an element of R1 whose line is the furthest of R2 is a maximum of R1 *)
Lemma max_in_small rest R1 R2 z2 y : incS R1 R2 ->
  (forall w, In w R2 -> later (nidx z2 rest) (nidx w rest) = true) ->
  same z2 y = true -> forall w, In w R1 -> later (nidx y rest) (nidx w rest) = true.
Proof.
  intros I Mx Sy w Hw. destruct (hit_witness _ _ (I w Hw)) as [w2 [H2 S2]].
  rewrite <- (nidx_same z2 y rest Sy), (nidx_same w w2 rest S2). apply Mx. exact H2.
Qed.

Lemma inc_rep_both rest R1 R2 z1 z2 : incS R1 R2 -> liveS rest R1 ->
  g_furthest same rest R1 = Some z1 -> g_furthest same rest R2 = Some z2 ->
  incS (drop z1 R1) (drop z2 R2).
Proof.
  intros I L F1 F2 y Hy. apply drop_in in Hy. destruct Hy as [Hy N].
  destruct (gfurthest_max rest R1 z1 F1) as [Hz1 M1]. destruct (gfurthest_max rest R2 z2 F2) as [Hz2 M2].
  destruct (hit_witness _ _ (I y Hy)) as [y2 [H2 S2]].
  apply (hit_intro y _ y2); auto. apply drop_in. split; auto.
  destruct (same z2 y2) eqn:E; auto. exfalso.
  assert (Sy : same z2 y = true) by (eapply same_trans; [exact E|rewrite same_sym; exact S2]).
  pose proof (max_in_small rest R1 R2 z2 y I M2 Sy) as My.
  rewrite (max_unique rest R1 z1 y L Hz1 Hy (M1 y Hy) (My z1 Hz1)) in N. discriminate.
Qed.

Lemma inc_rep_large rest R1 R2 z1 z2 nx : incS R1 R2 -> liveS rest R1 ->
  g_furthest same rest R1 = Some z1 -> g_furthest same rest R2 = Some z2 ->
  later (nidx z1 rest) nx = false -> later (nidx z2 rest) nx = true ->
  incS R1 (drop z2 R2).
Proof.
  intros I L F1 F2 C1 C2 y Hy.
  destruct (gfurthest_max rest R1 z1 F1) as [Hz1 M1]. destruct (gfurthest_max rest R2 z2 F2) as [Hz2 M2].
  destruct (hit_witness _ _ (I y Hy)) as [y2 [H2 S2]].
  apply (hit_intro y _ y2); auto. apply drop_in. split; auto.
  destruct (same z2 y2) eqn:E; auto. exfalso.
  assert (Sy : same z2 y = true) by (eapply same_trans; [exact E|rewrite same_sym; exact S2]).
  pose proof (max_in_small rest R1 R2 z2 y I M2 Sy) as My.
  pose proof (max_unique rest R1 z1 y L Hz1 Hy (M1 y Hy) (My z1 Hz1)) as S1.
  rewrite (nidx_same z1 y rest S1), <- (nidx_same z2 y rest Sy) in C1. congruence.
Qed.

Lemma rep_small_implies_large rest R1 R2 z1 z2 nx : incS R1 R2 ->
  g_furthest same rest R1 = Some z1 -> g_furthest same rest R2 = Some z2 ->
  later (nidx z1 rest) nx = true -> later (nidx z2 rest) nx = true.
Proof.
  intros I F1 F2 C1.
  destruct (gfurthest_max rest R1 z1 F1) as [Hz1 _]. destruct (gfurthest_max rest R2 z2 F2) as [_ M2].
  destruct (hit_witness _ _ (I z1 Hz1)) as [w2 [H2 S2]].
  eapply later_tr; [|exact C1]. rewrite (nidx_same z1 w2 rest S2). apply M2. exact H2.
Qed.

Definition fle (f2 f1 : list Z) : Prop := Forall2 Z.le f2 f1.
Definition fu (x : A) (f : list Z) : list Z := if isw x then f else upd (bidx x) (Z.add 1) f.

Lemma fle_fu x f2 f1 : fle f2 f1 -> fle (fu x f2) (fu x f1).
Proof.
  unfold fu. destruct (isw x); auto. intros H0. generalize (bidx x).
  induction H0 as [|a b l m H Hl IH]; intros [|i]; cbn [upd]; constructor; auto; try lia; apply IH.
Qed.
Lemma fle_fu_r x f2 f1 : fle f2 f1 -> fle f2 (fu x f1).
Proof.
  unfold fu. destruct (isw x); auto. intros H0. generalize (bidx x).
  induction H0 as [|a b l m H Hl IH]; intros [|i]; cbn [upd]; constructor; auto; try lia; apply IH.
Qed.

Section Run.
Variables (cap1 cap2 line : Z).
Hypothesis Hline : 0 < line.
Hypothesis Hcap : cap1 <= cap2.

Record MI (rest R1 R2 : list A) : Prop := {
  M_inc : incS R1 R2;
  M_nd1 : nodupS R1; M_nd2 : nodupS R2;
  M_l1 : liveS rest R1; M_l2 : liveS rest R2;
  M_c1 : Z.of_nat (length R1) * line <= cap1;
  M_c2 : Z.of_nat (length R2) * line <= cap2;
  M_slack : Z.of_nat (length R2) - Z.of_nat (length R1) <= cap2 / line - cap1 / line }.

Lemma room_div n cap : Z.leb ((n + 1) * line) cap = Z.leb (n + 1) (cap / line).
Proof.
  destruct (Z.leb_spec (n + 1) (cap / line)) as [H|H].
  - apply Z.leb_le. pose proof (Z.mul_div_le cap line Hline). nia.
  - apply Z.leb_gt. destruct (Z.lt_ge_cases cap ((n + 1) * line)) as [L|L]; auto.
    exfalso. assert (n + 1 <= cap / line) by (apply Z.div_le_lower_bound; lia). lia.
Qed.

Lemma room_one cap rest R z : nodupS R -> Z.of_nat (length R) * line <= cap ->
  Z.leb ((Z.of_nat (length R + 0) + 1) * line) cap = false ->
  g_furthest same rest R = Some z ->
  g_make_room same (S (length R)) cap line rest R 0 = drop z R.
Proof.
  intros N C F Fz. destruct (gfurthest_max rest R z Fz) as [Hz _].
  pose proof (length_drop z R N (hit_intro z R z Hz (same_refl z))) as L.
  cbn [g_make_room]. rewrite F, Fz. rewrite <- L. cbn [g_make_room].
  assert (Z.leb ((Z.of_nat (length (drop z R) + 0) + 1) * line) cap = true) as ->; [|reflexivity].
  apply Z.leb_le. rewrite Nat.add_0_r. rewrite <- L in C. lia.
Qed.
Lemma size_arith n cap : Z.leb ((Z.of_nat (n + 0) + 1) * line) cap = true ->
  Z.of_nat (S n) * line <= cap /\ Z.of_nat n + 1 <= cap / line.
Proof.
  rewrite Nat.add_0_r. intros H. pose proof H as H'. rewrite room_div in H'. apply Z.leb_le in H, H'. split; lia.
Qed.
Lemma full_arith n cap : Z.leb ((Z.of_nat (n + 0) + 1) * line) cap = false -> cap / line < Z.of_nat n + 1.
Proof. rewrite Nat.add_0_r, room_div. intros H. apply Z.leb_gt in H. exact H. Qed.

Theorem mono_run : forall rest, (forall x, In x rest -> isstg x = false) ->
  forall R1 R2 f1 f2, MI rest R1 R2 -> fle f2 f1 ->
  fle (g_min_run same isw isstg bidx cap2 line rest R2 [] f2)
      (g_min_run same isw isstg bidx cap1 line rest R1 [] f1).
Proof.
  induction rest as [|x rest IH]; intros Hs R1 R2 f1 f2 M F; cbn [g_min_run]; auto.
  assert (Hsx : isstg x = false) by (apply Hs; left; reflexivity).
  assert (Hs' : forall y, In y rest -> isstg y = false) by (intros; apply Hs; right; assumption).
  specialize (IH Hs'). rewrite !app_nil_r, Hsx. cbn [length].
  change (g_drop same x []) with (@nil A). fold (fu x f1) (fu x f2).
  destruct M as [Inc N1 N2 L1 L2 C1 C2 Sl].
  destruct (existsb (same x) R1) eqn:H1.
  - (* hit in both *)
    rewrite (inc_hit x R1 R2 Inc H1). pose proof (inc_hit x R1 R2 Inc H1) as H2.
    destruct (nidx x rest) eqn:Nx.
    + apply IH; auto. constructor; auto; eapply live_tl; eauto; intros; congruence.
    + apply IH; auto. pose proof (length_drop x R1 N1 H1). pose proof (length_drop x R2 N2 H2).
      constructor; eauto using incS_drop, nodupS_drop, live_tl_drop; try nia; lia.
  - destruct (existsb (same x) R2) eqn:H2.
    + (* miss in the small cache only *)
      destruct (nidx x rest) eqn:Nx.
      * assert (L2' : liveS rest R2) by (eapply live_tl; eauto; intros; congruence).
        pose proof (live_tl_miss x rest R1 L1 H1) as L1'.
        assert (Nxx : nidx x rest <> None) by congruence.
        destruct (Z.leb ((Z.of_nat (length R1 + 0) + 1) * line) cap1) eqn:T1.
        -- destruct (size_arith _ _ T1). apply IH; [|apply fle_fu_r; exact F].
           constructor; eauto using incS_cons_l, live_cons; [split; auto|cbn [length]; lia].
        -- destruct (g_furthest same rest R1) as [z1|] eqn:F1.
           ++ destruct (later (nidx z1 rest) (Some n)).
              ** rewrite (room_one cap1 rest R1 z1 N1 C1 T1 F1).
                 destruct (gfurthest_max rest R1 z1 F1) as [Hz1 _].
                 pose proof (length_drop z1 R1 N1 (hit_intro z1 R1 z1 Hz1 (same_refl z1))).
                 apply IH; [|apply fle_fu_r; exact F].
                 constructor; eauto using incS_cons_l, incS_drop_l, live_cons, live_drop, nodupS_drop;
                   [split; eauto using miss_drop, nodupS_drop|cbn [length]; lia|cbn [length]; lia].
              ** apply IH; [|apply fle_fu_r; exact F]. constructor; auto.
           ++ apply IH; [|apply fle_fu_r; exact F]. constructor; auto.
      * pose proof (length_drop x R2 N2 H2).
        apply IH; [|apply fle_fu_r; exact F].
        constructor; eauto using incS_drop_r_miss, nodupS_drop, live_tl_miss, live_tl_drop; try nia; lia.
    + (* miss in both *)
      pose proof (live_tl_miss x rest R1 L1 H1) as L1'. pose proof (live_tl_miss x rest R2 L2 H2) as L2'.
      destruct (nidx x rest) eqn:Nx.
      2:{ apply IH; [|apply fle_fu; exact F]. constructor; auto. }
      assert (Nxx : nidx x rest <> None) by congruence.
      destruct (Z.leb ((Z.of_nat (length R2 + 0) + 1) * line) cap2) eqn:T2;
        destruct (Z.leb ((Z.of_nat (length R1 + 0) + 1) * line) cap1) eqn:T1.
      * destruct (size_arith _ _ T1). destruct (size_arith _ _ T2).
        apply IH; [|apply fle_fu; exact F].
        constructor; eauto using incS_cons_both, live_cons; try (split; auto); cbn [length]; lia.
      * destruct (size_arith _ _ T2). pose proof (full_arith _ _ T1).
        destruct (g_furthest same rest R1) as [z1|] eqn:F1.
        -- destruct (later (nidx z1 rest) (Some n)).
           ++ rewrite (room_one cap1 rest R1 z1 N1 C1 T1 F1).
              destruct (gfurthest_max rest R1 z1 F1) as [Hz1 _].
              pose proof (length_drop z1 R1 N1 (hit_intro z1 R1 z1 Hz1 (same_refl z1))).
              apply IH; [|apply fle_fu; exact F].
              constructor; eauto using incS_cons_both, incS_drop_l, live_cons, live_drop;
                try (split; eauto using miss_drop, nodupS_drop); cbn [length]; lia.
           ++ apply IH; [|apply fle_fu; exact F].
              constructor; eauto using incS_cons_r, live_cons; try (split; auto); cbn [length]; lia.
        -- apply IH; [|apply fle_fu; exact F].
           constructor; eauto using incS_cons_r, live_cons; try (split; auto); cbn [length]; lia.
      * destruct (size_arith _ _ T1). pose proof (full_arith _ _ T2). exfalso. lia.
      * (* both full *)
        destruct (g_furthest same rest R2) as [z2|] eqn:F2.
        2:{ apply gfurthest_none in F2. subst R2. apply incS_nil in Inc. subst R1. cbn [g_furthest].
            apply IH; [|apply fle_fu; exact F]. constructor; cbn; auto; try (intros y []); try lia. }
        destruct (gfurthest_max rest R2 z2 F2) as [Hz2 _].
        pose proof (length_drop z2 R2 N2 (hit_intro z2 R2 z2 Hz2 (same_refl z2))) as Ld2.
        destruct (g_furthest same rest R1) as [z1|] eqn:F1.
        2:{ apply gfurthest_none in F1. subst R1.
            destruct (later (nidx z2 rest) (Some n)).
            - rewrite (room_one cap2 rest R2 z2 N2 C2 T2 F2).
              apply IH; [|apply fle_fu; exact F].
              constructor; eauto using live_cons, live_drop; try (intros y []);
                try (split; eauto using miss_drop, nodupS_drop); cbn [length] in *; lia.
            - apply IH; [|apply fle_fu; exact F]. constructor; auto. }
        destruct (gfurthest_max rest R1 z1 F1) as [Hz1 _].
        pose proof (length_drop z1 R1 N1 (hit_intro z1 R1 z1 Hz1 (same_refl z1))) as Ld1.
        destruct (later (nidx z1 rest) (Some n)) eqn:Lc1; destruct (later (nidx z2 rest) (Some n)) eqn:Lc2.
        -- rewrite (room_one cap1 rest R1 z1 N1 C1 T1 F1), (room_one cap2 rest R2 z2 N2 C2 T2 F2).
           apply IH; [|apply fle_fu; exact F].
           constructor; eauto using incS_cons_both, live_cons, live_drop;
             try (apply incS_cons_both; eapply inc_rep_both; eauto);
             try (split; eauto using miss_drop, nodupS_drop); cbn [length]; lia.
        -- rewrite (rep_small_implies_large rest R1 R2 z1 z2 (Some n) Inc F1 F2 Lc1) in Lc2. discriminate.
        -- rewrite (room_one cap2 rest R2 z2 N2 C2 T2 F2).
           apply IH; [|apply fle_fu; exact F].
           constructor; eauto using live_cons, live_drop;
             try (apply incS_cons_r; eapply inc_rep_large; eauto);
             try (split; eauto using miss_drop, nodupS_drop); cbn [length]; lia.
        -- apply IH; [|apply fle_fu; exact F]. constructor; auto.
Qed.
Theorem policy_monotone sched fills : 0 <= cap1 ->
  (forall x, In x sched -> isstg x = false) ->
  Forall2 Z.le (g_min_run same isw isstg bidx cap2 line sched [] [] fills)
               (g_min_run same isw isstg bidx cap1 line sched [] [] fills).
Proof.
  intros H0 Hs. apply mono_run; auto.
  - constructor; cbn; auto; try (intros y []); try lia.
    pose proof (Z.div_le_mono cap1 cap2 line Hline Hcap). lia.
  - unfold fle. induction fills; constructor; auto; lia.
Qed.
End Run.
End Mono.
