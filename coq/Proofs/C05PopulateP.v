(* C05PopulateP.v — what the populate loop nest does, for every destination, source and body:
   the yields, the final values, the raw structure outside a, no residue, well-formedness. *)
From Coq Require Import ZArith List Bool Lia PeanoNat.
From FT Require Import Model.Base Model.Obs Model.Store Model.StoreCheck Model.C05Populate
                       Model.C05PopulateCheck Proofs.StoreWF Proofs.StoreMap Proofs.C05PositionsP.
Import ListNotations.
Open Scope Z_scope.

(* ---------- erased fibers ---------- *)
Definition efib (es : ifib) : fib := map (fun ct => (fst ct, erase (snd ct))) es.

Lemma erase_node id ow es : erase (INode id ow es) = Node (efib es).
Proof. reflexivity. Qed.

Lemma lookup_efib c : forall es, lookup c (efib es) = option_map erase (assoc c es).
Proof.
  unfold efib. induction es as [|[x p] es IH]; [reflexivity|].
  cbn [map fst snd lookup assoc]. rewrite (Z.eqb_sym c x). destruct (x =? c); [reflexivity|exact IH].
Qed.

Lemma map_fst_efib es : map fst (efib es) = map fst es.
Proof. unfold efib. rewrite map_map. reflexivity. Qed.

Lemma tree_eqb_refl : forall t, tree_eqb t t = true.
Proof.
  induction t as [v|es IH] using tree_ind'; cbn [tree_eqb]; [apply Z.eqb_refl|].
  induction es as [|[c t] es IHes]; [reflexivity|].
  inversion IH as [|? ? Ht Hes]; subst. cbn [snd] in Ht.
  rewrite Z.eqb_refl, Ht. cbn [andb]. apply IHes. exact Hes.
Qed.

Lemma topt_eqb_refl o : topt_eqb o o = true.
Proof. destruct o; [apply tree_eqb_refl|reflexivity]. Qed.

Lemma assoc_remove_nth : forall es i c p q,
  NoDup (map fst es) -> nth_error es i = Some (c, p) ->
  assoc q (remove_nth i es) = if q =? c then None else assoc q es.
Proof.
  induction es as [|[x r] es IH]; intros [|i] c p q Hnd Hn; cbn [nth_error] in Hn; try discriminate;
    cbn [map fst] in Hnd; inversion Hnd as [|? ? Hnin Hnd']; subst.
  - inversion Hn; subst. cbn [remove_nth assoc]. destruct (q =? c) eqn:E.
    + apply Z.eqb_eq in E. subst q. apply assoc_not_in. exact Hnin.
    + rewrite (Z.eqb_sym c q), E. reflexivity.
  - cbn [remove_nth assoc]. destruct (x =? q) eqn:E.
    + apply Z.eqb_eq in E. subst q. destruct (x =? c) eqn:E2; [|reflexivity].
      apply Z.eqb_eq in E2. subst c. exfalso. apply Hnin.
      apply nth_error_In in Hn. apply (in_map fst) in Hn. exact Hn.
    + apply (IH i c p q Hnd' Hn).
Qed.

Lemma assoc_In c : forall es p, assoc c es = Some p -> In c (map fst es).
Proof.
  induction es as [|[x r] es IH]; intros p H; [discriminate|]. cbn [assoc] in H. cbn [map fst].
  destruct (x =? c) eqn:E; [left; apply Z.eqb_eq; exact E|right; eapply IH; exact H].
Qed.

(* ---------- the source side ---------- *)
Lemma a_get_lookup c : forall aes, ssorted (map fst aes) = true -> a_get c aes = lookup c aes.
Proof.
  unfold a_get. induction aes as [|[x t] aes IH]; intros Hs; [reflexivity|].
  cbn [map fst] in *. rewrite ssorted_cons in Hs. apply andb_true_iff in Hs. destruct Hs as [Hh Hs].
  cbn [bisect lookup]. destruct (x <? c) eqn:E.
  - cbn [nth_error]. rewrite (IH Hs). destruct (c =? x) eqn:E2; [lia|reflexivity].
  - cbn [nth_error]. rewrite (Z.eqb_sym x c). destruct (c =? x) eqn:E2; [reflexivity|].
    symmetry. pose proof (ssorted_all_gt x _ Hh Hs) as Hall.
    clear IH Hs Hh. induction aes as [|[y r] aes IHa]; [reflexivity|].
    cbn [map fst] in Hall. inversion Hall; subst. cbn [lookup].
    destruct (c =? y) eqn:E3; [lia|]. apply IHa. assumption.
Qed.

Lemma offers_presents n sp l aes :
  ssorted (map fst aes) = true -> offers n sp l aes = a_presents n sp l aes.
Proof.
  intros Hs. unfold offers, a_presents, present. destruct (is_U sp l); [|reflexivity].
  apply map_ext. intros c. rewrite (a_get_lookup c aes Hs). reflexivity.
Qed.

Lemma ssorted_filter_fst {B} (f : Z * B -> bool) : forall l,
  ssorted (map fst l) = true -> ssorted (map fst (filter f l)) = true.
Proof.
  induction l as [|[x t] l IH]; intros Hs; [reflexivity|].
  cbn [map fst] in Hs. rewrite ssorted_cons in Hs. apply andb_true_iff in Hs. destruct Hs as [Hh Hs].
  cbn [filter]. destruct (f (x, t)); [|apply IH; exact Hs].
  cbn [map fst]. rewrite ssorted_cons, (IH Hs), andb_true_r.
  apply hd_gt_Forall. pose proof (ssorted_all_gt x _ Hh Hs) as Hall.
  rewrite Forall_forall in *. intros y Hy. apply Hall.
  apply in_map_iff in Hy. destruct Hy as [[y' t'] [Hy1 Hy2]]. apply filter_In in Hy2.
  apply in_map_iff. exists (y', t'). tauto.
Qed.

Lemma ssorted_iota_from : forall m s, ssorted (map Z.of_nat (seq s m)) = true.
Proof.
  induction m as [|m IH]; intros s; [reflexivity|].
  cbn [seq map]. rewrite ssorted_cons, IH, andb_true_r.
  destruct m; [reflexivity|]. cbn [seq map hd_gt]. apply Z.ltb_lt. lia.
Qed.

Lemma a_presents_sorted n sp l aes :
  ssorted (map fst aes) = true -> ssorted (map fst (a_presents n sp l aes)) = true.
Proof.
  intros Hs. unfold a_presents. destruct (is_U sp l).
  - rewrite map_map. cbn [fst]. rewrite map_id. apply ssorted_iota_from.
  - apply ssorted_filter_fst. exact Hs.
Qed.

Lemma lookup_In c : forall (l : fib) t, lookup c l = Some t -> In (c, t) l.
Proof.
  induction l as [|[x r] l IH]; intros t H; [discriminate|]. cbn [lookup] in H.
  destruct (c =? x) eqn:E.
  - apply Z.eqb_eq in E. subst. inversion H; subst. left. reflexivity.
  - right. apply IH. exact H.
Qed.

Lemma a_presents_wf n sp l aes m :
  (S l + m = n)%nat ->
  forallb (fun ct => wf_tree m (snd ct)) aes = true ->
  forall cb, In cb (a_presents n sp l aes) -> wf_tree m (snd cb) = true.
Proof.
  intros Hm Hk cb Hin. unfold a_presents in Hin. destruct (is_U sp l).
  - apply in_map_iff in Hin. destruct Hin as [c [Hc _]]. subst cb. cbn [snd].
    destruct (lookup c aes) as [t|] eqn:Hl.
    + apply lookup_In in Hl. rewrite forallb_forall in Hk. apply (Hk (c, t) Hl).
    + unfold a_default. destruct (Nat.eqb (S l) n) eqn:E.
      * apply Nat.eqb_eq in E. assert (m = O) by lia. subst m. reflexivity.
      * apply Nat.eqb_neq in E. destruct m as [|m']; [lia|reflexivity].
  - apply filter_In in Hin. destruct Hin as [Hin _]. rewrite forallb_forall in Hk. apply Hk. exact Hin.
Qed.

(* ---------- the loop nest ---------- *)
Definition ev3 (e : ev) : list Z * tree * tree := (e_path e, e_a e, erase (e_z e)).

Definition runner := list Z -> tree -> (ifib -> ifib) -> ifib -> nat -> list (list nat)
                     -> ifib * nat * list (list nat) * list ev.

(* the per-element condition of raw_ok *)
Definition elem_ok (k' n : nat) (dz : Z) (sp : srcp) (bd : body) (rb : list Z -> bool) (lvl : nat)
           (path : list Z) (zb za : fib) (cb : Z * tree) : bool :=
  let c := fst cb in
  let p := path ++ [c] in
  let leaf := Nat.eqb (S lvl) n in
  let desc := match bd p with ADescend => negb leaf | _ => false end in
  let refb := is_ref (bd p) && negb leaf in
  match lookup c zb, lookup c za with
  | None, None => true
  | None, Some ta =>
    (rb p || negb (is_empty dz ta))
    && (if desc then raw_ok k' n dz sp bd rb (S lvl) p (sub_of (snd cb)) [] (sub_of ta)
        else leaf || refb)
  | Some tb, None =>
    if desc then raw_ok k' n dz sp bd rb (S lvl) p (sub_of (snd cb)) (sub_of tb) [] else leaf
  | Some tb, Some ta =>
    if desc then raw_ok k' n dz sp bd rb (S lvl) p (sub_of (snd cb)) (sub_of tb) (sub_of ta)
    else (leaf && negb (is_empty dz ta)) || refb || tree_eqb tb ta
  end.

Lemma raw_ok_S k' n dz sp bd rb lvl path aes zb za :
  raw_ok (S k') n dz sp bd rb lvl path aes zb za
  = (let offc := map fst (a_presents n sp lvl aes) in
     forallb (fun ct => memZ (fst ct) offc || topt_eqb (lookup (fst ct) za) (Some (snd ct))) zb
     && forallb (fun ct => memZ (fst ct) offc || topt_eqb (lookup (fst ct) zb) (Some (snd ct))) za
     && forallb (elem_ok k' n dz sp bd rb lvl path zb za) (a_presents n sp lvl aes)).
Proof. reflexivity. Qed.

(* the write performed at the point c :: q' by the element (c, bp) of the loop at rank lvl *)
Definition wr_elem (k' n : nat) (sp : srcp) (bd : body) (lvl : nat) (path : list Z) (c : Z)
           (bp : tree) (q' : list Z) : wr :=
  if Nat.eqb (S lvl) n
  then match q', bd (path ++ [c]) with [], AWrite w => w | _, _ => WNone end
  else match bd (path ++ [c]) with
       | ADescend => wr_at k' n sp bd (S lvl) (path ++ [c]) (sub_of bp) q'
       | ARefBelow pt w => if path_eqb q' pt then w else WNone
       | _ => WNone
       end.

Definition wr_loop (k' n : nat) (sp : srcp) (bd : body) (lvl : nat) (path : list Z) (b : fib)
           (q : list Z) : wr :=
  match q with
  | c :: q' => match lookup c b with
               | Some bp => wr_elem k' n sp bd lvl path c bp q'
               | None => WNone
               end
  | [] => WNone
  end.

Lemma wr_at_S k' n sp bd lvl path aes q :
  wr_at (S k') n sp bd lvl path aes q = wr_loop k' n sp bd lvl path (a_presents n sp lvl aes) q.
Proof. destruct q as [|c q']; reflexivity. Qed.

(* the yields of one element / of a loop *)
Definition ev_elem (k' n : nat) (dz : Z) (sp : srcp) (bd : body) (lvl : nat) (path : list Z)
           (zes : fib) (cb : Z * tree) : list (list Z * tree * tree) :=
  let p := path ++ [fst cb] in
  let zp := match lookup (fst cb) zes with Some t => t | None => z_default n dz lvl end in
  (p, snd cb, zp) ::
  match bd p, Nat.eqb (S lvl) n with
  | ADescend, false => exp_evs k' n dz sp bd (S lvl) p (sub_of (snd cb)) (sub_of zp)
  | _, _ => []
  end.

Lemma exp_evs_S k' n dz sp bd lvl path aes zes :
  exp_evs (S k') n dz sp bd lvl path aes zes
  = flat_map (ev_elem k' n dz sp bd lvl path zes) (a_presents n sp lvl aes).
Proof. reflexivity. Qed.

Lemma ev_elems_ext k' n dz sp bd lvl path z1 z2 : forall b,
  (forall c, In c (map fst b) -> lookup c z1 = lookup c z2) ->
  flat_map (ev_elem k' n dz sp bd lvl path z1) b = flat_map (ev_elem k' n dz sp bd lvl path z2) b.
Proof.
  induction b as [|cb b IH]; intros H; [reflexivity|]. cbn [flat_map].
  rewrite IH by (intros c Hc; apply H; right; exact Hc).
  unfold ev_elem. rewrite (H (fst cb)) by (left; reflexivity). reflexivity.
Qed.

(* [rb p]: the body calls getPayloadRef at or below the reference offered at p *)
Definition rb_ok (bd : body) (rb : list Z -> bool) : Prop :=
  (forall p, is_ref (bd p) = true -> rb p = true)
  /\ (forall p c, rb (p ++ [c]) = true -> rb p = true).

Lemma path_eqb_eq : forall a b, path_eqb a b = true -> a = b.
Proof.
  induction a as [|x a IH]; intros [|y b] H; cbn [path_eqb] in H; try discriminate; [reflexivity|].
  apply andb_true_iff in H. destruct H as [H1 H2]. apply Z.eqb_eq in H1. subst. f_equal. apply IH. exact H2.
Qed.

Lemma path_eqb_pt_eqb : forall a b, path_eqb a b = pt_eqb a b.
Proof. induction a as [|x a IH]; intros [|y b]; cbn [path_eqb pt_eqb]; try reflexivity; rewrite IH; reflexivity. Qed.

Section Nest.
  Variables (n : nat) (dz : Z) (sp : srcp) (bd : body) (rb : list Z -> bool).
  Hypothesis Hrb : rb_ok bd rb.

  (* what a runner of the loop over the fiber of rank l (k = n - l levels to go) guarantees *)
  Definition RS (l k : nat) (R : runner) : Prop :=
    forall path bp plug es nx rk,
      (l < n)%nat -> wf_fib n l es = true -> wf_tree k bp = true ->
      let r := R path bp plug es nx rk in
      let es' := fst (fst (fst r)) in
      wf_fib n l es' = true
      /\ (forall q, length q = k ->
            lookup_i dz q es' = apply_wr (wr_at k n sp bd l path (sub_of bp) q) (lookup_i dz q es))
      /\ (forall c, ~ In c (map fst (a_presents n sp l (sub_of bp))) -> assoc c es' = assoc c es)
      /\ (forall c t, assoc c es = None -> assoc c es' = Some t ->
            i_is_empty dz t = false \/ rb (path ++ [c]) = true)
      /\ raw_ok k n dz sp bd rb l path (sub_of bp) (efib es) (efib es') = true
      /\ map ev3 (snd r) = exp_evs k n dz sp bd l path (sub_of bp) (efib es).

  Variables (k' : nat) (inner : runner) (lvl : nat) (path : list Z).
  Hypothesis Hk : (S lvl + k' = n)%nat.
  Hypothesis Hinner : RS (S lvl) k' inner.

  Definition zdef (nx : nat) : itree :=
    if Nat.eqb (S lvl) n then ILeaf dz else INode nx (Some (S lvl)) [].

  Lemma zdef_wf nx : wf_i n (S lvl) (zdef nx) = true.
  Proof.
    unfold zdef. destruct (Nat.eqb (S lvl) n) eqn:E; cbn [wf_i]; [exact E|].
    apply Nat.eqb_neq in E. assert (H : Nat.ltb (S lvl) n = true) by (apply Nat.ltb_lt; lia).
    rewrite H. reflexivity.
  Qed.

  Lemma erase_zdef nx : erase (zdef nx) = z_default n dz lvl.
  Proof. unfold zdef, z_default. destruct (Nat.eqb (S lvl) n); reflexivity. Qed.

  (* locate or create *)
  Lemma create_facts c es nx rk :
    wf_fib n lvl es = true ->
    let i := bisect c (map fst es) in
    let r := create_at n dz lvl (coord_exists c (map fst es) i) i c es nx rk in
    let es1 := fst (fst r) in
    let zp := match assoc c es with Some p => p | None => zdef nx end in
    wf_fib n lvl es1 = true /\ bisect c (map fst es1) = i /\ nth_error es1 i = Some (c, zp)
    /\ wf_i n (S lvl) zp = true
    /\ (coord_exists c (map fst es) i = true <-> assoc c es <> None)
    /\ (forall q, assoc q es1 = if q =? c then Some zp else assoc q es).
  Proof.
    intros Hwf i. cbv zeta.
    pose proof Hwf as Hwf0. unfold wf_fib in Hwf. apply andb_true_iff in Hwf. destruct Hwf as [Hs Hkids].
    assert (Hi : (i <= length es)%nat).
    { unfold i. rewrite <- (map_length fst es). apply bisect_le. }
    unfold create_at. destruct (coord_exists c (map fst es) i) eqn:Hex; cbn [fst].
    - destruct (bisect_assoc_hit es c Hs Hex) as [p [Hn Ha]]. fold i in Hn. rewrite Ha.
      split; [exact Hwf0|]. split; [reflexivity|]. split; [exact Hn|].
      split; [exact (forallb_nth_error _ _ _ _ Hkids Hn)|].
      split; [split; [discriminate|reflexivity]|].
      intros q. destruct (q =? c) eqn:E; [|reflexivity]. apply Z.eqb_eq in E. subst q. exact Ha.
    - pose proof (bisect_assoc_miss es c Hs Hex) as Hmiss. rewrite Hmiss.
      assert (Hgen : forall p, wf_i n (S lvl) p = true ->
                wf_fib n lvl (insert_at i (c, p) es) = true
                /\ bisect c (map fst (insert_at i (c, p) es)) = i
                /\ nth_error (insert_at i (c, p) es) i = Some (c, p)
                /\ wf_i n (S lvl) p = true
                /\ (false = true <-> @None itree <> None)
                /\ (forall q, assoc q (insert_at i (c, p) es) = if q =? c then Some p else assoc q es)).
      { intros p Hp. split; [apply wf_fib_insert; assumption|].
        split; [rewrite map_fst_insert_at; apply bisect_insert_at|].
        split; [apply nth_error_insert_at; exact Hi|]. split; [exact Hp|].
        split; [split; [discriminate|intros H; exfalso; apply H; reflexivity]|].
        intros q. apply assoc_insert_at; assumption. }
      pose proof (zdef_wf nx) as Hzw. unfold zdef in *.
      destruct (Nat.eqb (S lvl) n); cbn [fst]; apply Hgen; exact Hzw.
  Qed.

  (* write back and maybe remove *)
  Lemma finish_facts c es1 i zp zp' rm rk2 :
    wf_fib n lvl es1 = true -> bisect c (map fst es1) = i -> nth_error es1 i = Some (c, zp) ->
    wf_i n (S lvl) zp' = true ->
    let es3 := fst (finish n lvl c rm (set_nth i (c, zp') es1) rk2) in
    wf_fib n lvl es3 = true
    /\ (forall q, assoc q es3 = if q =? c then (if rm then None else Some zp') else assoc q es1).
  Proof.
    intros Hwf Hb Hn Hzp'. cbv zeta.
    assert (Hwf2 : wf_fib n lvl (set_nth i (c, zp') es1) = true)
      by (eapply wf_fib_set_nth; eassumption).
    pose proof Hwf as Hwf0. unfold wf_fib in Hwf. apply andb_true_iff in Hwf. destruct Hwf as [Hs Hkids].
    pose proof (ssorted_NoDup _ Hs) as Hnd.
    assert (Hm2 : map fst (set_nth i (c, zp') es1) = map fst es1)
      by (apply (map_fst_set_nth i c zp' zp es1 Hn)).
    assert (Ha2 : forall q, assoc q (set_nth i (c, zp') es1) = if q =? c then Some zp' else assoc q es1)
      by (intros q; apply (assoc_set_nth es1 i c zp zp' q Hnd Hn)).
    unfold finish. rewrite Hm2, Hb. destruct rm; cbn [fst].
    - split.
      + unfold wf_fib in *. apply andb_true_iff in Hwf2. destruct Hwf2 as [Hs2 Hk2].
        rewrite map_remove_nth, (ssorted_remove_nth _ i Hs2). cbn [andb].
        apply forallb_remove_nth. exact Hk2.
      + intros q.
        assert (Hn2 : nth_error (set_nth i (c, zp') es1) i = Some (c, zp')).
        { clear -Hn. revert i Hn. induction es1 as [|y l IH]; intros [|i] Hn; cbn [nth_error set_nth] in *;
            try discriminate; [reflexivity|apply IH; exact Hn]. }
        rewrite (assoc_remove_nth _ i c zp' q); [|rewrite Hm2; exact Hnd|exact Hn2].
        rewrite Ha2. destruct (q =? c); reflexivity.
    - split; [exact Hwf2|exact Ha2].
  Qed.

  Lemma lookup_i_nil q : lookup_i dz q [] = dz.
  Proof. destruct q; reflexivity. Qed.

  Lemma is_empty_erase : forall t, is_empty dz (erase t) = i_is_empty dz t.
  Proof.
    induction t as [v|id ow es IH] using itree_ind'; [reflexivity|].
    cbn [erase is_empty i_is_empty].
    induction es as [|[c t] es IHes]; [reflexivity|].
    inversion IH as [|? ? Ht Hes]; subst. cbn [map forallb fst snd] in *. rewrite Ht. f_equal. apply IHes. exact Hes.
  Qed.

  Lemma body_run_leaf plug c bp es1 i v nx1 rk1 :
    body_run n dz bd inner lvl path plug c bp es1 i (ILeaf v) nx1 rk1
    = (ILeaf (apply_wr (match bd (path ++ [c]) with AWrite w => w | _ => WNone end) v), nx1, rk1, []).
  Proof. unfold body_run. destruct (bd (path ++ [c])); reflexivity. Qed.

  (* one offered coordinate at the leaf rank *)
  Lemma step2_leaf plug c bp es nx rk :
    Nat.eqb (S lvl) n = true ->
    wf_fib n lvl es = true ->
    let r := step2 n dz bd inner lvl path plug c bp es nx rk in
    let es3 := fst (fst (fst r)) in
    wf_fib n lvl es3 = true
    /\ (forall q, q <> c -> assoc q es3 = assoc q es)
    /\ (forall q', length q' = k' ->
          lookup_i dz (c :: q') es3
          = apply_wr (wr_elem k' n sp bd lvl path c bp q') (lookup_i dz (c :: q') es))
    /\ (forall t, assoc c es = None -> assoc c es3 = Some t -> i_is_empty dz t = false)
    /\ (forall t, assoc c es3 = Some t -> t <> ILeaf dz)
    /\ (forall t, assoc c es3 = Some t -> i_is_empty dz t = false)
    /\ map ev3 (snd r) = ev_elem k' n dz sp bd lvl path (efib es) (c, bp).
  Proof.
    intros Hleaf Hwf. cbv zeta. unfold step2.
    pose proof (create_facts c es nx rk Hwf) as Hc. cbv zeta in Hc.
    set (i := bisect c (map fst es)) in *.
    destruct (create_at n dz lvl (coord_exists c (map fst es) i) i c es nx rk) as [[es1 nx1] rk1] eqn:Hcr.
    cbn [fst] in Hc. destruct Hc as (Hwf1 & Hb1 & Hn1 & Hzw & Hex & Ha1).
    rewrite Hn1.
    assert (Hk0 : k' = O) by (apply Nat.eqb_eq in Hleaf; lia).
    assert (Hzp : exists v, match assoc c es with Some p => p | None => zdef nx end = ILeaf v
                            /\ lookup_i dz [c] es = v).
    { cbn [lookup_i]. destruct (assoc c es) as [p|] eqn:Ha.
      - destruct p as [v|id ow sub]; [exists v; split; reflexivity|].
        rewrite wf_i_node in Hzw. apply andb_true_iff in Hzw. destruct Hzw as [Hlt _].
        apply Nat.ltb_lt in Hlt. apply Nat.eqb_eq in Hleaf. lia.
      - exists dz. unfold zdef. rewrite Hleaf. split; reflexivity. }
    destruct Hzp as [v [Hzp Hv]]. rewrite Hzp in *.
    rewrite body_run_leaf.
    set (w0 := match bd (path ++ [c]) with AWrite w => w | _ => WNone end).
    set (v' := apply_wr w0 v).
    assert (Hzw' : wf_i n (S lvl) (ILeaf v') = true) by exact Hzw.
    set (rm := should_remove dz (negb (coord_exists c (map fst es) i)) (ILeaf v')).
    pose proof (finish_facts c es1 i (ILeaf v) (ILeaf v') rm rk1 Hwf1 Hb1 Hn1 Hzw') as Hf.
    cbv zeta in Hf.
    destruct (finish n lvl c rm (set_nth i (c, ILeaf v') es1) rk1) as [es3 rk3] eqn:Hfin.
    cbn [fst snd] in *. destruct Hf as [Hwf3 Ha3].
    assert (Hrm : rm = (v' =? dz)) by reflexivity.
    split; [exact Hwf3|].
    split.
    { intros q Hq. rewrite Ha3, Ha1. assert (E : (q =? c) = false) by (apply Z.eqb_neq; exact Hq).
      rewrite E. reflexivity. }
    split.
    { intros q' Hq'. rewrite Hk0 in Hq'. destruct q' as [|? ?]; [|discriminate].
      rewrite Hv. unfold wr_elem. rewrite Hleaf. fold w0. cbn [lookup_i]. rewrite Ha3, Z.eqb_refl.
      rewrite Hrm. destruct (v' =? dz) eqn:E; [apply Z.eqb_eq in E; symmetry; exact E|reflexivity]. }
    assert (Hnd : forall t, assoc c es3 = Some t -> t <> ILeaf dz).
    { intros t Ht. rewrite Ha3, Z.eqb_refl, Hrm in Ht. destruct (v' =? dz) eqn:E; [discriminate|].
      inversion Ht; subst t. intros Heq. inversion Heq as [Hvd]. rewrite Hvd, Z.eqb_refl in E. discriminate. }
    split.
    { intros t _ Ht. rewrite Ha3, Z.eqb_refl, Hrm in Ht. destruct (v' =? dz) eqn:E; [discriminate|].
      inversion Ht; subst t. cbn [i_is_empty]. exact E. }
    split; [exact Hnd|].
    split.
    { intros t Ht. rewrite Ha3, Z.eqb_refl, Hrm in Ht. destruct (v' =? dz) eqn:E; [discriminate|].
      inversion Ht; subst t. cbn [i_is_empty]. exact E. }
    cbn [map]. unfold ev_elem, ev3 at 1. cbn [e_path e_a e_z fst snd]. rewrite Hleaf.
    rewrite lookup_efib.
    assert (Hez : match option_map erase (assoc c es) with Some t => t | None => z_default n dz lvl end
                  = erase (ILeaf v)).
    { rewrite <- Hzp. destruct (assoc c es); [reflexivity|]. cbn [option_map]. symmetry. apply erase_zdef. }
    rewrite Hez. destruct (bd (path ++ [c])); reflexivity.
  Qed.

  (* one offered coordinate at an interior rank *)
  Lemma step2_node plug c bp es nx rk :
    Nat.eqb (S lvl) n = false ->
    wf_fib n lvl es = true -> wf_tree k' bp = true ->
    let r := step2 n dz bd inner lvl path plug c bp es nx rk in
    let es3 := fst (fst (fst r)) in
    wf_fib n lvl es3 = true
    /\ (forall q, q <> c -> assoc q es3 = assoc q es)
    /\ (forall q', length q' = k' ->
          lookup_i dz (c :: q') es3
          = apply_wr (wr_elem k' n sp bd lvl path c bp q') (lookup_i dz (c :: q') es))
    /\ (forall t, assoc c es = None -> assoc c es3 = Some t ->
          i_is_empty dz t = false \/ rb (path ++ [c]) = true)
    /\ elem_ok k' n dz sp bd rb lvl path (efib es) (efib es3) (c, bp) = true
    /\ map ev3 (snd r) = ev_elem k' n dz sp bd lvl path (efib es) (c, bp).
  Proof.
    intros Hleaf Hwf Hbp. cbv zeta. unfold step2.
    pose proof (create_facts c es nx rk Hwf) as Hc. cbv zeta in Hc.
    set (i := bisect c (map fst es)) in *.
    destruct (create_at n dz lvl (coord_exists c (map fst es) i) i c es nx rk) as [[es1 nx1] rk1] eqn:Hcr.
    cbn [fst] in Hc. destruct Hc as (Hwf1 & Hb1 & Hn1 & Hzw & Hex & Ha1).
    rewrite Hn1.
    assert (Hlt : (S lvl < n)%nat) by (apply Nat.eqb_neq in Hleaf; lia).
    assert (Hk1 : (0 < k')%nat) by lia.
    destruct Hrb as [Hrb1 Hrb2].
    assert (Hzp : exists id ow sub,
               match assoc c es with Some p => p | None => zdef nx end = INode id ow sub
               /\ wf_fib n (S lvl) sub = true /\ (assoc c es = None -> sub = [])).
    { destruct (assoc c es) as [p|] eqn:Ha.
      - destruct p as [v|id ow sub].
        + cbn [wf_i] in Hzw. rewrite Hzw in Hleaf. discriminate.
        + exists id, ow, sub. rewrite wf_i_node in Hzw. apply andb_true_iff in Hzw.
          split; [reflexivity|]. split; [tauto|discriminate].
      - unfold zdef. rewrite Hleaf. exists nx, (Some (S lvl)), []. repeat split; reflexivity. }
    destruct Hzp as (id & ow & sub & Hzp & Hwsub & Hsubnil). rewrite Hzp in *.
    set (p := path ++ [c]) in *.
    set (isdesc := match bd p with ADescend => true | _ => false end).
    assert (Hbody : exists sub' nx2 rk2 evs,
      body_run n dz bd inner lvl path plug c bp es1 i (INode id ow sub) nx1 rk1 = (INode id ow sub', nx2, rk2, evs)
      /\ wf_fib n (S lvl) sub' = true
      /\ (forall q', length q' = k' ->
            lookup_i dz q' sub' = apply_wr (wr_elem k' n sp bd lvl path c bp q') (lookup_i dz q' sub))
      /\ (forall c1 t1, assoc c1 sub = None -> assoc c1 sub' = Some t1 ->
            i_is_empty dz t1 = false \/ rb p = true)
      /\ (if isdesc then raw_ok k' n dz sp bd rb (S lvl) p (sub_of bp) (efib sub) (efib sub') = true
          else is_ref (bd p) = true \/ sub' = sub)
      /\ map ev3 evs = if isdesc then exp_evs k' n dz sp bd (S lvl) p (sub_of bp) (efib sub) else []).
    { assert (Hsame : forall (Hnd : isdesc = false)
                (Hw0 : forall q', length q' = k' -> wr_elem k' n sp bd lvl path c bp q' = WNone),
        exists sub' nx2 rk2 evs,
          (INode id ow sub, nx1, rk1, @nil ev) = (INode id ow sub', nx2, rk2, evs)
          /\ wf_fib n (S lvl) sub' = true
          /\ (forall q', length q' = k' ->
                lookup_i dz q' sub' = apply_wr (wr_elem k' n sp bd lvl path c bp q') (lookup_i dz q' sub))
          /\ (forall c1 t1, assoc c1 sub = None -> assoc c1 sub' = Some t1 ->
                i_is_empty dz t1 = false \/ rb p = true)
          /\ (if isdesc then raw_ok k' n dz sp bd rb (S lvl) p (sub_of bp) (efib sub) (efib sub') = true
              else is_ref (bd p) = true \/ sub' = sub)
          /\ map ev3 evs = if isdesc then exp_evs k' n dz sp bd (S lvl) p (sub_of bp) (efib sub) else []).
      { intros Hnd Hw0. exists sub, nx1, rk1, []. split; [reflexivity|]. split; [exact Hwsub|].
        split; [intros q' Hq'; rewrite (Hw0 q' Hq'); reflexivity|].
        split; [intros c1 t1 H1 H2; rewrite H1 in H2; discriminate|].
        rewrite Hnd. split; [right; reflexivity|reflexivity]. }
      unfold body_run. fold p. unfold wr_elem in *. fold p in Hsame. fold p. rewrite Hleaf in *.
      unfold isdesc in *. destruct (bd p) as [|w0| |pt w0] eqn:Hbd.
      - apply Hsame; reflexivity.
      - apply Hsame; reflexivity.
      - pose proof (Hinner p bp (fun s => plug (set_nth i (c, INode id ow s) es1)) sub nx1 rk1
                           Hlt Hwsub Hbp) as Hin. cbv zeta in Hin.
        destruct (inner p bp (fun s => plug (set_nth i (c, INode id ow s) es1)) sub nx1 rk1)
          as [[[sub' nx2] rk2] evs] eqn:Hrun.
        cbn [fst snd] in Hin. destruct Hin as (Hi1 & Hi2 & Hi3 & Hi4 & Hi5 & Hi6).
        exists sub', nx2, rk2, evs. split; [reflexivity|]. split; [exact Hi1|].
        split; [exact Hi2|].
        split.
        { intros c1 t1 H1 H2. destruct (Hi4 c1 t1 H1 H2) as [Hl|Hr]; [left; exact Hl|].
          right. exact (Hrb2 p c1 Hr). }
        split; [exact Hi5|exact Hi6].
      - destruct (Nat.eqb (S lvl + length pt) n) eqn:Elen.
        + apply Nat.eqb_eq in Elen.
          assert (Hlp : length pt = (n - S lvl)%nat) by lia.
          pose proof (get_ref_wf n dz w0 pt (S lvl) sub nx1 rk1 Hlt Hwsub) as Hgw.
          destruct (get_ref_lookup n dz w0 pt (S lvl) sub nx1 rk1 Hlt Hwsub Hlp) as [_ Hgl].
          destruct (get_ref n dz w0 (S lvl) pt sub nx1 rk1) as [[[sub' nx2] rk2] rr] eqn:Hg.
          cbn [fst snd] in *.
          exists sub', nx2, rk2, []. split; [reflexivity|]. split; [exact Hgw|].
          split.
          { intros q' Hq'. rewrite (Hgl q') by lia. change (pt_eqb q' pt) with (path_eqb q' pt).
            destruct (path_eqb q' pt) eqn:E; [|reflexivity].
            apply path_eqb_eq in E. subst q'. reflexivity. }
          split; [intros c1 t1 _ _; right; apply Hrb1; rewrite Hbd; reflexivity|].
          split; [left; reflexivity|reflexivity].
        + apply Hsame; [reflexivity|].
          intros q' Hq'. destruct (path_eqb q' pt) eqn:E; [|reflexivity].
          apply path_eqb_eq in E. subst q'. apply Nat.eqb_neq in Elen. lia. }
    destruct Hbody as (sub' & nx2 & rk2 & evs & Hrun & Hw' & Hv' & Hn' & Hr' & He').
    rewrite Hrun.
    assert (Hzw' : wf_i n (S lvl) (INode id ow sub') = true).
    { rewrite wf_i_node, Hw', andb_true_r. apply Nat.ltb_lt. exact Hlt. }
    set (ex := coord_exists c (map fst es) i) in *.
    set (rm := should_remove dz (negb ex) (INode id ow sub')).
    pose proof (finish_facts c es1 i (INode id ow sub) (INode id ow sub') rm rk2 Hwf1 Hb1 Hn1 Hzw') as Hf.
    cbv zeta in Hf.
    destruct (finish n lvl c rm (set_nth i (c, INode id ow sub') es1) rk2) as [es3 rk3] eqn:Hfin.
    cbn [fst snd] in *. destruct Hf as [Hwf3 Ha3].
    assert (Hrm : rm = negb ex && Nat.eqb (length sub') O) by reflexivity.
    assert (Hold : forall q', lookup_i dz (c :: q') es = match q' with [] => dz | _ :: _ => lookup_i dz q' sub end).
    { intros q'. cbn [lookup_i]. destruct (assoc c es) as [p0|] eqn:Ha.
      - subst p0. destruct q'; reflexivity.
      - rewrite (Hsubnil eq_refl). destruct q'; [reflexivity|]. symmetry. apply lookup_i_nil. }
    assert (Hexn : assoc c es = None -> ex = false).
    { intros Ha. destruct ex eqn:E; [|reflexivity]. exfalso. apply (proj1 Hex); [reflexivity|exact Ha]. }
    assert (Hexs : forall p0, assoc c es = Some p0 -> ex = true).
    { intros p0 Ha. apply (proj2 Hex). rewrite Ha. discriminate. }
    split; [exact Hwf3|].
    split.
    { intros q Hq. rewrite Ha3, Ha1. assert (E : (q =? c) = false) by (apply Z.eqb_neq; exact Hq).
      rewrite E. reflexivity. }
    split.
    { intros q' Hq'. rewrite Hold. destruct q' as [|c2 q'']; [cbn [length] in Hq'; lia|].
      rewrite <- (Hv' (c2 :: q'') Hq'). cbn [lookup_i]. rewrite Ha3, Z.eqb_refl.
      destruct rm eqn:Erm; [|reflexivity].
      symmetry in Hrm. apply andb_true_iff in Hrm. destruct Hrm as [_ El].
      apply Nat.eqb_eq in El. destruct sub'; [|discriminate]. reflexivity. }
    assert (HN : forall t, assoc c es = None -> assoc c es3 = Some t ->
                 i_is_empty dz t = false \/ rb p = true).
    { intros t Ha Ht. rewrite Ha3, Z.eqb_refl in Ht. rewrite Hrm, (Hexn Ha) in Ht. cbn [negb andb] in Ht.
      destruct sub' as [|[c1 t1] rest]; [discriminate|]. cbn [length Nat.eqb] in Ht.
      inversion Ht; subst t. cbn [i_is_empty forallb snd].
      destruct (Hn' c1 t1) as [Hl|Hr]; [rewrite (Hsubnil Ha); reflexivity| |left; rewrite Hl; reflexivity|right; exact Hr].
      cbn [assoc]. rewrite Z.eqb_refl. reflexivity. }
    split; [exact HN|].
    split.
    { unfold elem_ok. cbn [fst snd]. fold p. rewrite Hleaf. cbn [negb].
      assert (Hd : match bd p with ADescend => true | _ => false end = isdesc) by reflexivity.
      rewrite Hd. rewrite andb_true_r. rewrite !lookup_efib, Ha3, Z.eqb_refl.
      destruct (assoc c es) as [p0|] eqn:Ha; cbn [option_map].
      - subst p0. rewrite Hrm, (Hexs _ eq_refl). cbn [negb andb option_map].
        rewrite !erase_node. cbn [sub_of]. destruct isdesc; [exact Hr'|].
        cbn [orb]. destruct Hr' as [Hr'|Hr']; [rewrite Hr'; reflexivity|].
        subst sub'. rewrite tree_eqb_refl. apply orb_true_r.
      - destruct rm eqn:Erm; cbn [option_map]; [reflexivity|].
        rewrite is_empty_erase.
        assert (Hres : (rb p || negb (i_is_empty dz (INode id ow sub'))) = true).
        { destruct (HN (INode id ow sub') eq_refl) as [Hl|Hr];
            [rewrite Ha3, Z.eqb_refl; reflexivity|rewrite Hl; apply orb_true_r|rewrite Hr; reflexivity]. }
        rewrite Hres. cbn [andb]. rewrite erase_node. cbn [sub_of].
        destruct isdesc.
        + rewrite (Hsubnil eq_refl) in Hr'. exact Hr'.
        + cbn [orb]. destruct Hr' as [Hr'|Hr']; [exact Hr'|].
          exfalso. subst sub'. rewrite (Hsubnil eq_refl) in Hrm. rewrite (Hexn eq_refl) in Hrm.
          cbn in Hrm. discriminate Hrm. }
    cbn [map]. unfold ev_elem, ev3 at 1. cbn [e_path e_a e_z fst snd]. fold p. rewrite Hleaf.
    rewrite lookup_efib.
    assert (Hez : match option_map erase (assoc c es) with Some t => t | None => z_default n dz lvl end
                  = erase (INode id ow sub)).
    { rewrite <- Hzp. destruct (assoc c es); [reflexivity|]. cbn [option_map]. symmetry. apply erase_zdef. }
    rewrite Hez, erase_node. cbn [sub_of]. rewrite He'. unfold isdesc. destruct (bd p); reflexivity.
  Qed.

  Lemma step2_spec plug c bp es nx rk :
    (lvl < n)%nat -> wf_fib n lvl es = true -> wf_tree k' bp = true ->
    let r := step2 n dz bd inner lvl path plug c bp es nx rk in
    let es3 := fst (fst (fst r)) in
    wf_fib n lvl es3 = true
    /\ (forall q, q <> c -> assoc q es3 = assoc q es)
    /\ (forall q', length q' = k' ->
          lookup_i dz (c :: q') es3
          = apply_wr (wr_elem k' n sp bd lvl path c bp q') (lookup_i dz (c :: q') es))
    /\ (forall t, assoc c es = None -> assoc c es3 = Some t ->
          i_is_empty dz t = false \/ rb (path ++ [c]) = true)
    /\ elem_ok k' n dz sp bd rb lvl path (efib es) (efib es3) (c, bp) = true
    /\ map ev3 (snd r) = ev_elem k' n dz sp bd lvl path (efib es) (c, bp).
  Proof.
    intros Hlt Hwf Hbp. destruct (Nat.eqb (S lvl) n) eqn:Hleaf.
    - pose proof (step2_leaf plug c bp es nx rk Hleaf Hwf) as H. cbv zeta in *.
      destruct H as (H1 & H2 & H3 & H4 & _ & H5 & H6).
      split; [exact H1|]. split; [exact H2|]. split; [exact H3|].
      split; [intros t Ha Ht; left; exact (H4 t Ha Ht)|]. split; [|exact H6].
      unfold elem_ok. cbn [fst snd]. rewrite Hleaf. cbn [negb]. rewrite andb_false_r.
      assert (Hd : match bd (path ++ [c]) with ADescend => false | _ => false end = false)
        by (destruct (bd (path ++ [c])); reflexivity).
      rewrite Hd. rewrite !lookup_efib.
      destruct (assoc c es) as [p0|] eqn:Ha; cbn [option_map];
        destruct (assoc c (fst (fst (fst (step2 n dz bd inner lvl path plug c bp es nx rk))))) as [t|] eqn:Ht;
        cbn [option_map orb andb]; try reflexivity.
      + rewrite is_empty_erase, (H5 t eq_refl). reflexivity.
      + rewrite is_empty_erase, (H4 t eq_refl eq_refl). cbn [negb]. rewrite orb_true_r. reflexivity.
    - exact (step2_node plug c bp es nx rk Hleaf Hwf Hbp).
  Qed.

  Lemma lookup_notin c : forall (b : fib), ~ In c (map fst b) -> lookup c b = None.
  Proof.
    induction b as [|[x t] b IH]; intros H; [reflexivity|]. cbn [lookup map fst] in *.
    destruct (c =? x) eqn:E; [exfalso; apply H; left; symmetry; apply Z.eqb_eq; exact E|].
    apply IH. intros Hin. apply H. right. exact Hin.
  Qed.

  Lemma elem_ok_ext zb za zb' za' cb :
    lookup (fst cb) zb = lookup (fst cb) zb' -> lookup (fst cb) za = lookup (fst cb) za' ->
    elem_ok k' n dz sp bd rb lvl path zb za cb = elem_ok k' n dz sp bd rb lvl path zb' za' cb.
  Proof. intros H1 H2. unfold elem_ok. rewrite H1, H2. reflexivity. Qed.

  Lemma loop2_spec plug : forall b es nx rk,
    (lvl < n)%nat -> wf_fib n lvl es = true -> ssorted (map fst b) = true ->
    (forall cb, In cb b -> wf_tree k' (snd cb) = true) ->
    let r := loop2 n dz bd inner lvl path plug b es nx rk in
    let es' := fst (fst (fst r)) in
    wf_fib n lvl es' = true
    /\ (forall q, ~ In q (map fst b) -> assoc q es' = assoc q es)
    /\ (forall q, length q = S k' ->
          lookup_i dz q es' = apply_wr (wr_loop k' n sp bd lvl path b q) (lookup_i dz q es))
    /\ (forall c t, assoc c es = None -> assoc c es' = Some t ->
          i_is_empty dz t = false \/ rb (path ++ [c]) = true)
    /\ forallb (elem_ok k' n dz sp bd rb lvl path (efib es) (efib es')) b = true
    /\ map ev3 (snd r) = flat_map (ev_elem k' n dz sp bd lvl path (efib es)) b.
  Proof.
    induction b as [|[c0 bp0] b IH]; intros es nx rk Hlt Hwf Hsb Hbw; cbv zeta.
    - cbn [loop2 fst snd map flat_map forallb]. split; [exact Hwf|]. split; [reflexivity|].
      split; [intros q _; destruct q; reflexivity|]. split; [intros c t H1 H2; rewrite H1 in H2; discriminate|].
      split; reflexivity.
    - cbn [loop2].
      pose proof (step2_spec plug c0 bp0 es nx rk Hlt Hwf (Hbw (c0, bp0) (or_introl eq_refl))) as Hst.
      cbv zeta in Hst.
      destruct (step2 n dz bd inner lvl path plug c0 bp0 es nx rk) as [[[es3 nx2] rk3] evs] eqn:Hs2.
      cbn [fst snd] in Hst. destruct Hst as (S1 & S2 & S3 & S4 & S5 & S6).
      cbn [map fst] in Hsb. rewrite ssorted_cons in Hsb. apply andb_true_iff in Hsb. destruct Hsb as [Hhd Hsb'].
      pose proof (ssorted_all_gt c0 _ Hhd Hsb') as Hall.
      assert (Hc0 : ~ In c0 (map fst b)).
      { intros Hin. rewrite Forall_forall in Hall. specialize (Hall c0 Hin). lia. }
      pose proof (IH es3 nx2 rk3 Hlt S1 Hsb' (fun cb Hin => Hbw cb (or_intror Hin))) as Hih.
      cbv zeta in Hih.
      destruct (loop2 n dz bd inner lvl path plug b es3 nx2 rk3) as [[[esf nxf] rkf] evs'] eqn:Hl2.
      cbn [fst snd] in *. destruct Hih as (I1 & I2 & I3 & I4 & I5 & I6).
      assert (Hne : forall c, In c (map fst b) -> c <> c0).
      { intros c Hin Heq. subst c. exact (Hc0 Hin). }
      split; [exact I1|].
      split.
      { intros q Hq. rewrite I2 by (intros Hin; apply Hq; right; exact Hin).
        apply S2. intros Heq. apply Hq. left. symmetry. exact Heq. }
      split.
      { intros q Hq. destruct q as [|c q']; [discriminate|]. cbn [length] in Hq.
        rewrite (I3 (c :: q')) by (cbn [length]; lia). unfold wr_loop. cbn [lookup].
        destruct (c =? c0) eqn:E.
        - apply Z.eqb_eq in E. subst c. rewrite (lookup_notin c0 b Hc0). cbn [apply_wr].
          apply S3. lia.
        - f_equal. cbn [lookup_i]. rewrite S2 by (apply Z.eqb_neq; exact E). reflexivity. }
      split.
      { intros c t Ha Ht. destruct (Z.eq_dec c c0) as [Heq|Hneq].
        - subst c. rewrite (I2 c0 Hc0) in Ht. exact (S4 t Ha Ht).
        - apply (I4 c t); [rewrite (S2 c Hneq); exact Ha|exact Ht]. }
      split.
      { cbn [forallb]. apply andb_true_iff. split.
        - rewrite <- S5. apply elem_ok_ext; cbn [fst]; [reflexivity|].
          rewrite !lookup_efib, (I2 c0 Hc0). reflexivity.
        - rewrite forallb_forall in *. intros cb Hin. rewrite <- (I5 cb Hin).
          apply elem_ok_ext; [|reflexivity].
          rewrite !lookup_efib, S2; [reflexivity|]. apply Hne. apply in_map. exact Hin. }
      rewrite map_app, S6, I6. cbn [flat_map]. f_equal.
      apply ev_elems_ext. intros c Hin. rewrite !lookup_efib, (S2 c (Hne c Hin)). reflexivity.
  Qed.
End Nest.

Lemma memZ_false c l : memZ c l = false -> ~ In c l.
Proof.
  intros H Hin. unfold memZ in H.
  assert (existsb (Z.eqb c) l = true) by (apply existsb_exists; exists c; split; [exact Hin|apply Z.eqb_refl]).
  congruence.
Qed.

Lemma lookup_of_In c t : forall (l : fib), ssorted (map fst l) = true -> In (c, t) l -> lookup c l = Some t.
Proof.
  induction l as [|[x r] l IH]; intros Hs Hin; [destruct Hin|].
  cbn [map fst] in Hs. rewrite ssorted_cons in Hs. apply andb_true_iff in Hs. destruct Hs as [Hh Hs].
  cbn [lookup]. destruct Hin as [Heq|Hin].
  - inversion Heq; subst. rewrite Z.eqb_refl. reflexivity.
  - destruct (c =? x) eqn:E; [|apply IH; assumption].
    apply Z.eqb_eq in E. subst x. pose proof (ssorted_all_gt c _ Hh Hs) as Hall.
    rewrite Forall_forall in Hall. specialize (Hall c (in_map fst _ _ Hin)). cbn [fst] in Hall. lia.
Qed.

Lemma outside_forallb offc (zb za : fib) :
  ssorted (map fst zb) = true ->
  (forall c, ~ In c offc -> lookup c za = lookup c zb) ->
  forallb (fun ct => memZ (fst ct) offc || topt_eqb (lookup (fst ct) za) (Some (snd ct))) zb = true.
Proof.
  intros Hs Hout. apply forallb_forall. intros [c t] Hin. cbn [fst snd].
  destruct (memZ c offc) eqn:E; [reflexivity|]. cbn [orb].
  rewrite (Hout c (memZ_false c offc E)), (lookup_of_In c t zb Hs Hin). apply topt_eqb_refl.
Qed.

(* ---------- the whole nest, by induction on the number of ranks to go ---------- *)
Theorem pop_RS n dz sp bd rb : rb_ok bd rb ->
  forall k l, (l + k = n)%nat -> RS n dz sp bd rb l k (pop k n dz sp bd l).
Proof.
  intros Hrb. induction k as [|k IH]; intros l Hlk; unfold RS; intros path bp plug es nx rk Hlt Hwf Hbp; [lia|].
  destruct bp as [v|aes]; [cbn [wf_tree] in Hbp; discriminate|].
  cbn [wf_tree] in Hbp. apply andb_true_iff in Hbp. destruct Hbp as [Hsa Hka].
  cbn [pop sub_of]. rewrite (offers_presents n sp l aes Hsa).
  pose proof Hwf as Hwf0. unfold wf_fib in Hwf0. apply andb_true_iff in Hwf0. destruct Hwf0 as [Hse _].
  rewrite loop1_loop2;
    [|exact Hse|apply a_presents_sorted; exact Hsa|destruct (a_presents n sp l aes) as [|[c ?] ?]; [exact I|lia]].
  assert (Hk : (S l + k = n)%nat) by lia.
  pose proof (loop2_spec n dz sp bd rb Hrb k (pop k n dz sp bd (S l)) l path Hk (IH (S l) Hk) plug
                         (a_presents n sp l aes) es nx rk Hlt Hwf (a_presents_sorted n sp l aes Hsa)
                         (a_presents_wf n sp l aes k Hk Hka)) as H.
  cbv zeta in H.
  destruct (loop2 n dz bd (pop k n dz sp bd (S l)) l path plug (a_presents n sp l aes) es nx rk)
    as [[[es' nx'] rk'] evs] eqn:Hl2.
  cbn [fst snd] in *. destruct H as (H1 & H2 & H3 & H4 & H5 & H6).
  split; [exact H1|]. split; [intros q Hq; rewrite wr_at_S; apply H3; exact Hq|].
  split; [exact H2|]. split; [exact H4|]. split; [|rewrite exp_evs_S; exact H6].
  rewrite raw_ok_S. cbv zeta. rewrite H5, andb_true_r. apply andb_true_iff. split.
  - apply outside_forallb; [rewrite map_fst_efib; exact Hse|].
    intros c Hc. rewrite !lookup_efib, (H2 c Hc). reflexivity.
  - pose proof H1 as Hwf1. unfold wf_fib in Hwf1. apply andb_true_iff in Hwf1. destruct Hwf1 as [Hse' _].
    apply outside_forallb; [rewrite map_fst_efib; exact Hse'|].
    intros c Hc. rewrite !lookup_efib, (H2 c Hc). reflexivity.
Qed.
