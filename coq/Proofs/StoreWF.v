(* StoreWF.v — C01: every operation of Model/Store.v preserves well-formedness
   (strictly sorted coordinates in every fiber, uniform leaf depth). *)
From Coq Require Import ZArith List Bool Lia PeanoNat.
From FT Require Import Model.Base Model.Store.
Import ListNotations.
Open Scope Z_scope.

(* ---------- well-formedness of identity trees ---------- *)
Fixpoint wf_i (n lvl : nat) (t : itree) : bool :=
  match t with
  | ILeaf _ => Nat.eqb lvl n
  | INode _ _ es => Nat.ltb lvl n && ssorted (map fst es)
                    && forallb (fun ct => wf_i n (S lvl) (snd ct)) es
  end.

Definition wf_fib (n lvl : nat) (es : ifib) : bool :=
  ssorted (map fst es) && forallb (fun ct => wf_i n (S lvl) (snd ct)) es.

Definition hd_gt (x : Z) (l : list Z) : bool :=
  match l with [] => true | y :: _ => x <? y end.

Lemma ssorted_cons x l : ssorted (x :: l) = hd_gt x l && ssorted l.
Proof. destruct l as [|y l]; reflexivity. Qed.

Lemma hd_gt_trans x y l : x < y -> hd_gt y l = true -> hd_gt x l = true.
Proof. destruct l as [|z l]; simpl; intros; [reflexivity|]. lia. Qed.

(* all elements greater than x *)
Lemma ssorted_all_gt x l : hd_gt x l = true -> ssorted l = true -> Forall (fun y => x < y) l.
Proof.
  revert x; induction l as [|y l IH]; intros x Hx Hs; [constructor|].
  simpl in Hx. rewrite ssorted_cons in Hs. apply andb_true_iff in Hs. destruct Hs as [Hy Hs].
  constructor; [lia|]. apply IH; [|exact Hs]. apply (hd_gt_trans x y); [lia|exact Hy].
Qed.

(* ---------- bisect ---------- *)
Lemma bisect_le c cs : (bisect c cs <= length cs)%nat.
Proof. induction cs as [|x cs IH]; simpl; [lia|]. destruct (x <? c); simpl; lia. Qed.

(* inserting at bisect keeps a sorted list sorted, provided c is not already there *)
Lemma insert_sorted c cs :
  ssorted cs = true ->
  coord_exists c cs (bisect c cs) = false ->
  ssorted (insert_at (bisect c cs) c cs) = true.
Proof.
  unfold insert_at, coord_exists.
  induction cs as [|x cs IH]; intros Hs Hne; [reflexivity|].
  rewrite ssorted_cons in Hs. apply andb_true_iff in Hs. destruct Hs as [Hh Hs].
  cbn [bisect] in *. destruct (x <? c) eqn:Hxc.
  - cbn [firstn skipn app nth_error] in *. specialize (IH Hs Hne).
    rewrite ssorted_cons, IH, andb_true_r.
    destruct (bisect c cs) eqn:Hb; cbn [firstn app].
    + simpl. lia.
    + destruct cs as [|y cs']; [simpl in Hb; discriminate|]. simpl. exact Hh.
  - cbn [firstn skipn app nth_error] in *.
    rewrite ssorted_cons. cbn [hd_gt].
    rewrite ssorted_cons, Hh, Hs. simpl.
    apply Z.eqb_neq in Hne. lia.
Qed.

Lemma map_fst_insert_at {B} i (c : Z) (p : B) (es : list (Z * B)) :
  map fst (insert_at i (c, p) es) = insert_at i c (map fst es).
Proof. unfold insert_at. rewrite map_app, firstn_map. simpl. rewrite skipn_map. reflexivity. Qed.

Lemma forallb_insert_at {A} (f : A -> bool) i x l :
  forallb f l = true -> f x = true -> forallb f (insert_at i x l) = true.
Proof.
  unfold insert_at. intros Hl Hx. rewrite forallb_app. simpl. rewrite Hx.
  rewrite <- (firstn_skipn i l) in Hl. rewrite forallb_app in Hl.
  apply andb_true_iff in Hl. destruct Hl as [H1 H2]. rewrite H1, H2. reflexivity.
Qed.

Lemma nth_error_insert_at {A} i (x : A) l :
  (i <= length l)%nat -> nth_error (insert_at i x l) i = Some x.
Proof.
  unfold insert_at. intros Hi. rewrite nth_error_app2; rewrite firstn_length_le by exact Hi; [|lia].
  rewrite Nat.sub_diag. reflexivity.
Qed.

(* ---------- set_nth ---------- *)
Lemma map_fst_set_nth {B} i (c : Z) (p q : B) (es : list (Z * B)) :
  nth_error es i = Some (c, q) -> map fst (set_nth i (c, p) es) = map fst es.
Proof.
  revert i; induction es as [|[c' q'] es IH]; intros [|i] H; simpl in *; try discriminate.
  - inversion H; subst. reflexivity.
  - f_equal. apply IH. exact H.
Qed.

Lemma forallb_set_nth {A} (f : A -> bool) i x l :
  forallb f l = true -> f x = true -> forallb f (set_nth i x l) = true.
Proof.
  revert i; induction l as [|y l IH]; intros [|i] Hl Hx; simpl in *; try reflexivity.
  - apply andb_true_iff in Hl. destruct Hl as [_ Hl]. rewrite Hx, Hl. reflexivity.
  - apply andb_true_iff in Hl. destruct Hl as [Hy Hl]. rewrite Hy. simpl. apply IH; assumption.
Qed.

Lemma forallb_nth_error {A} (f : A -> bool) l i x :
  forallb f l = true -> nth_error l i = Some x -> f x = true.
Proof.
  intros Hl Hn. apply nth_error_In in Hn. rewrite forallb_forall in Hl. apply Hl. exact Hn.
Qed.

Lemma coord_exists_nth {B} c (es : list (Z * B)) i :
  coord_exists c (map fst es) i = true ->
  exists q, nth_error es i = Some (c, q).
Proof.
  unfold coord_exists. rewrite nth_error_map.
  destruct (nth_error es i) as [[c' q]|]; simpl; [|discriminate].
  intros H. apply Z.eqb_eq in H. subst. eexists; reflexivity.
Qed.

(* ---------- get_ref preserves well-formedness ---------- *)
Lemma wf_fib_set_nth n lvl i c p q es :
  wf_fib n lvl es = true -> nth_error es i = Some (c, q) -> wf_i n (S lvl) p = true ->
  wf_fib n lvl (set_nth i (c, p) es) = true.
Proof.
  unfold wf_fib. intros H Hn Hp. apply andb_true_iff in H. destruct H as [Hs Hf].
  rewrite (map_fst_set_nth i c p q es Hn), Hs. simpl.
  apply forallb_set_nth; assumption.
Qed.

Lemma wf_fib_insert n lvl c p es :
  wf_fib n lvl es = true ->
  coord_exists c (map fst es) (bisect c (map fst es)) = false ->
  wf_i n (S lvl) p = true ->
  wf_fib n lvl (insert_at (bisect c (map fst es)) (c, p) es) = true.
Proof.
  unfold wf_fib. intros H Hne Hp. apply andb_true_iff in H. destruct H as [Hs Hf].
  rewrite map_fst_insert_at, (insert_sorted c _ Hs Hne). simpl.
  apply forallb_insert_at; assumption.
Qed.

Lemma get_ref_wf n d w : forall pt lvl es nx rk,
  (lvl < n)%nat ->
  wf_fib n lvl es = true ->
  wf_fib n lvl (fst (fst (fst (get_ref n d w lvl pt es nx rk)))) = true.
Proof.
  induction pt as [|c pt IH]; intros lvl es nx rk Hlvl Hwf; [exact Hwf|].
  cbn [get_ref].
  set (i := bisect c (map fst es)).
  destruct (coord_exists c (map fst es) i) eqn:Hex.
  - (* existing element *)
    destruct (coord_exists_nth c es i Hex) as [q Hq]. rewrite Hq.
    destruct pt as [|c2 pt'].
    + destruct q as [v|id ow es']; cbn [fst].
      * eapply wf_fib_set_nth; [exact Hwf|exact Hq|]. cbn [wf_i].
        unfold wf_fib in Hwf. apply andb_true_iff in Hwf. destruct Hwf as [_ Hf].
        exact (forallb_nth_error _ _ _ _ Hf Hq).
      * exact Hwf.
    + destruct q as [v|id ow es']; cbn [fst]; [exact Hwf|].
      destruct (get_ref n d w (S lvl) (c2 :: pt') es' nx rk) as [[[es'' nx2] rk2] r] eqn:Hrec.
      cbn [fst]. eapply wf_fib_set_nth; [exact Hwf|exact Hq|].
      unfold wf_fib in Hwf. apply andb_true_iff in Hwf. destruct Hwf as [_ Hf].
      pose proof (forallb_nth_error _ _ _ _ Hf Hq) as Hsub. cbn [snd wf_i] in Hsub.
      apply andb_true_iff in Hsub. destruct Hsub as [Hsub Hkids].
      apply andb_true_iff in Hsub. destruct Hsub as [Hlt Hss].
      cbn [wf_i]. rewrite Hlt. cbn [andb].
      apply Nat.ltb_lt in Hlt.
      specialize (IH (S lvl) es' nx rk Hlt). rewrite Hrec in IH. cbn [fst] in IH.
      apply IH. unfold wf_fib. rewrite Hss, Hkids. reflexivity.
  - (* created element *)
    assert (Hi : (i <= length es)%nat).
    { unfold i. rewrite <- (map_length fst es). apply bisect_le. }
    destruct (Nat.eqb (S lvl) n) eqn:Hleaf.
    + (* leaf rank: ILeaf d inserted *)
      rewrite (nth_error_insert_at i (c, ILeaf d) es Hi).
      assert (Hins : wf_fib n lvl (insert_at i (c, ILeaf d) es) = true).
      { apply wf_fib_insert; [exact Hwf|exact Hex|]. cbn [wf_i]. exact Hleaf. }
      destruct pt as [|c2 pt']; cbn [fst].
      * eapply wf_fib_set_nth; [exact Hins|apply nth_error_insert_at; exact Hi|].
        cbn [wf_i]. exact Hleaf.
      * exact Hins.
    + (* interior rank: fresh empty fiber inserted *)
      rewrite (nth_error_insert_at i (c, INode nx (Some (S lvl)) []) es Hi).
      apply Nat.eqb_neq in Hleaf.
      assert (Hlt : (S lvl < n)%nat) by lia.
      assert (Hnew : wf_i n (S lvl) (INode nx (Some (S lvl)) []) = true).
      { cbn [wf_i map ssorted forallb]. apply Nat.ltb_lt in Hlt. rewrite Hlt. reflexivity. }
      assert (Hins : wf_fib n lvl (insert_at i (c, INode nx (Some (S lvl)) []) es) = true).
      { apply wf_fib_insert; [exact Hwf|exact Hex|exact Hnew]. }
      destruct pt as [|c2 pt']; cbn [fst]; [exact Hins|].
      destruct (get_ref n d w (S lvl) (c2 :: pt') [] (S nx) (app_rank (S lvl) nx rk))
        as [[[es'' nx2] rk2] r] eqn:Hrec.
      cbn [fst]. eapply wf_fib_set_nth; [exact Hins|apply nth_error_insert_at; exact Hi|].
      cbn [wf_i]. apply Nat.ltb_lt in Hlt. rewrite Hlt. cbn [andb].
      apply Nat.ltb_lt in Hlt.
      specialize (IH (S lvl) [] (S nx) (app_rank (S lvl) nx rk) Hlt). rewrite Hrec in IH.
      cbn [fst] in IH. apply IH. reflexivity.
Qed.

Lemma wf_i_node n lvl id ow es :
  wf_i n lvl (INode id ow es) = Nat.ltb lvl n && wf_fib n lvl es.
Proof. cbn [wf_i]. unfold wf_fib. rewrite andb_assoc. reflexivity. Qed.

Lemma wf_fib_child n lvl es i c id ow es' :
  wf_fib n lvl es = true -> nth_error es i = Some (c, INode id ow es') ->
  (S lvl < n)%nat /\ wf_fib n (S lvl) es' = true.
Proof.
  unfold wf_fib at 1. intros H Hn. apply andb_true_iff in H. destruct H as [_ Hf].
  pose proof (forallb_nth_error _ _ _ _ Hf Hn) as Hsub. cbn [snd] in Hsub.
  rewrite wf_i_node in Hsub. apply andb_true_iff in Hsub. destruct Hsub as [Hlt Hw].
  apply Nat.ltb_lt in Hlt. split; assumption.
Qed.

(* ---------- at_path ---------- *)
Definition preserves (n : nat) (f : nat -> ifib -> option ifib) : Prop :=
  forall lvl e e', (lvl < n)%nat -> wf_fib n lvl e = true -> f lvl e = Some e' ->
                   wf_fib n lvl e' = true.

Lemma at_path_wf n f : preserves n f -> forall path lvl es es',
  (lvl < n)%nat -> wf_fib n lvl es = true -> at_path path f lvl es = Some es' ->
  wf_fib n lvl es' = true.
Proof.
  intros Hf. induction path as [|c path IH]; intros lvl es es' Hlvl Hwf Hat.
  - cbn [at_path] in Hat. eapply Hf; eassumption.
  - cbn [at_path] in Hat.
    destruct (nth_error es (bisect c (map fst es))) as [[c' [v|id ow e1]]|] eqn:Hn; try discriminate.
    destruct (c' =? c) eqn:Hc; [|discriminate]. apply Z.eqb_eq in Hc. subst c'.
    destruct (at_path path f (S lvl) e1) as [e2|] eqn:Hrec; [|discriminate].
    inversion Hat; subst es'. clear Hat.
    destruct (wf_fib_child n lvl es _ c id ow e1 Hwf Hn) as [Hlt Hw1].
    eapply wf_fib_set_nth; [exact Hwf|exact Hn|].
    rewrite wf_i_node. apply Nat.ltb_lt in Hlt. rewrite Hlt. cbn [andb].
    apply Nat.ltb_lt in Hlt. eapply IH; eassumption.
Qed.

Definition preserves_st (n : nat)
  (f : nat -> ifib -> nat -> list (list nat) -> ifib * nat * list (list nat)) : Prop :=
  forall lvl e nx rk, (lvl < n)%nat -> wf_fib n lvl e = true ->
                      wf_fib n lvl (fst (fst (f lvl e nx rk))) = true.

Lemma at_path_st_wf n f : preserves_st n f -> forall path lvl es nx rk r,
  (lvl < n)%nat -> wf_fib n lvl es = true -> at_path_st path f lvl es nx rk = Some r ->
  wf_fib n lvl (fst (fst r)) = true.
Proof.
  intros Hf. induction path as [|c path IH]; intros lvl es nx rk r Hlvl Hwf Hat.
  - cbn [at_path_st] in Hat. inversion Hat; subst r. apply Hf; assumption.
  - cbn [at_path_st] in Hat.
    destruct (nth_error es (bisect c (map fst es))) as [[c' [v|id ow e1]]|] eqn:Hn; try discriminate.
    destruct (c' =? c) eqn:Hc; [|discriminate]. apply Z.eqb_eq in Hc. subst c'.
    destruct (at_path_st path f (S lvl) e1 nx rk) as [[[e2 nx'] rk']|] eqn:Hrec; [|discriminate].
    inversion Hat; subst r. clear Hat. cbn [fst].
    destruct (wf_fib_child n lvl es _ c id ow e1 Hwf Hn) as [Hlt Hw1].
    eapply wf_fib_set_nth; [exact Hwf|exact Hn|].
    rewrite wf_i_node. apply Nat.ltb_lt in Hlt. rewrite Hlt. cbn [andb].
    apply Nat.ltb_lt in Hlt.
    specialize (IH (S lvl) e1 nx rk _ Hlt Hw1 Hrec). exact IH.
Qed.

(* ---------- below ---------- *)
Lemma below_wf n (f : ifib -> ifib) :
  (forall lvl e, (lvl < n)%nat -> wf_fib n lvl e = true -> wf_fib n lvl (f e) = true) ->
  forall depth lvl es, (lvl < n)%nat -> wf_fib n lvl es = true ->
                       wf_fib n lvl (below depth f es) = true.
Proof.
  intros Hf. induction depth as [|k IH]; intros lvl es Hlvl Hwf; cbn [below].
  - apply Hf; assumption.
  - unfold wf_fib in *. apply andb_true_iff in Hwf. destruct Hwf as [Hs Hk].
    rewrite map_map.
    assert (Hfst : map (fun x : Z * itree =>
               fst (match snd x with
                    | INode id ow es' => (fst x, INode id ow (below k f es'))
                    | ILeaf _ => x end)) es = map fst es).
    { apply map_ext. intros [c [v|id ow e]]; reflexivity. }
    rewrite Hfst, Hs. cbn [andb].
    rewrite forallb_forall in Hk. apply forallb_forall. intros x Hin.
    apply in_map_iff in Hin. destruct Hin as [[c t] [<- Hin]].
    specialize (Hk _ Hin). cbn [snd] in *.
    destruct t as [v|id ow e]; cbn [snd]; [exact Hk|].
    rewrite wf_i_node in *. apply andb_true_iff in Hk. destruct Hk as [Hlt Hw].
    rewrite Hlt. cbn [andb]. apply Nat.ltb_lt in Hlt. apply IH; assumption.
Qed.

(* ---------- append ---------- *)
Lemma ssorted_snoc cs c :
  ssorted cs = true ->
  match rev cs with [] => True | m :: _ => m < c end ->
  ssorted (cs ++ [c]) = true.
Proof.
  induction cs as [|x cs IH]; intros Hs Hl; [reflexivity|].
  rewrite ssorted_cons in Hs. apply andb_true_iff in Hs. destruct Hs as [Hh Hs].
  cbn [app]. rewrite ssorted_cons.
  cbn [rev] in Hl.
  destruct cs as [|y cs'].
  - simpl in *. lia.
  - rewrite IH; [|exact Hs|].
    + rewrite andb_true_r. exact Hh.
    + destruct (rev (y :: cs')) eqn:Hr; [exact I|]. simpl in Hl. exact Hl.
Qed.

Lemma rev_map_fst_last (es : ifib) :
  match rev (map fst es) with
  | [] => last_coord es = None
  | m :: _ => last_coord es = Some m
  end.
Proof.
  unfold last_coord. rewrite <- map_rev. destruct (rev es) as [|[c t] r]; reflexivity.
Qed.

Lemma do_append_wf n c v : forall lvl e e',
  Nat.eqb (S lvl) n = true -> wf_fib n lvl e = true -> do_append c v e = Some e' ->
  wf_fib n lvl e' = true.
Proof.
  intros lvl e e' Hleaf Hwf Hd. unfold do_append in Hd.
  unfold wf_fib in *. apply andb_true_iff in Hwf. destruct Hwf as [Hs Hk].
  pose proof (rev_map_fst_last e) as Hl.
  assert (He' : e' = e ++ [(c, ILeaf v)] /\
                match rev (map fst e) with [] => True | m :: _ => m < c end).
  { destruct (rev (map fst e)) as [|m r].
    - rewrite Hl in Hd. inversion Hd. split; [reflexivity|exact I].
    - rewrite Hl in Hd. destruct (m <? c) eqn:Hm; [|discriminate]. inversion Hd.
      split; [reflexivity|lia]. }
  destruct He' as [-> Hlast].
  rewrite map_app. cbn [map fst]. rewrite (ssorted_snoc _ c Hs Hlast). cbn [andb].
  rewrite forallb_app, Hk. cbn [forallb snd wf_i]. rewrite Hleaf. reflexivity.
Qed.

(* ---------- setitem ---------- *)
Lemma ssorted_set_nth cs : forall i c,
  ssorted cs = true ->
  (match i with O => True | S j => match nth_error cs j with Some x => x < c | None => True end end) ->
  (match nth_error cs (S i) with Some x => c < x | None => True end) ->
  ssorted (set_nth i c cs) = true.
Proof.
  induction cs as [|x cs IH]; intros i c Hs Hl Hr; [destruct i; reflexivity|].
  rewrite ssorted_cons in Hs. apply andb_true_iff in Hs. destruct Hs as [Hh Hs].
  destruct i as [|i]; cbn [set_nth].
  - rewrite ssorted_cons, Hs, andb_true_r. cbn [nth_error] in Hr.
    destruct cs as [|y cs']; [reflexivity|]. simpl in *. lia.
  - rewrite ssorted_cons. cbn [nth_error] in Hr.
    rewrite (IH i c Hs); [| |exact Hr].
    + rewrite andb_true_r. destruct i as [|i]; cbn [nth_error] in Hl.
      * destruct cs as [|y cs']; [reflexivity|]. simpl. lia.
      * destruct cs as [|y cs']; [reflexivity|]. simpl in *. exact Hh.
    + destruct i as [|i]; [exact I|]. cbn [nth_error] in Hl. exact Hl.
Qed.

Lemma map_fst_set_nth_gen {B} i (c : Z) (p : B) (es : list (Z * B)) :
  map fst (set_nth i (c, p) es) = set_nth i c (map fst es).
Proof.
  revert i; induction es as [|[c' q'] es IH]; intros [|i]; simpl; try reflexivity.
  f_equal. apply IH.
Qed.

Lemma do_setitem_wf n pos oc ov : forall lvl e e',
  (lvl < n)%nat -> wf_fib n lvl e = true -> do_setitem pos oc ov e = Some e' ->
  wf_fib n lvl e' = true.
Proof.
  intros lvl e e' Hlvl Hwf Hd. unfold do_setitem in Hd.
  set (len := Z.of_nat (length e)) in *.
  set (p := if pos <? 0 then pos + len else pos) in *.
  destruct (p <? 0); [discriminate|].
  destruct (match oc, ov with None, None => true | _, _ => false end) eqn:Hnn.
  { inversion Hd; subst. exact Hwf. }
  destruct (len <=? p); [discriminate|].
  set (i := Z.to_nat p) in *.
  destruct (match oc with
            | Some c => match i with
                        | O => true
                        | S j => match nth_error (map fst e) j with Some x => x <? c | None => true end
                        end
            | None => true end) eqn:Hleft; [|discriminate].
  destruct (match oc with
            | Some c => match nth_error (map fst e) (S i) with Some x => c <? x | None => true end
            | None => true end) eqn:Hright; [|discriminate].
  cbn [andb] in Hd.
  destruct (nth_error e i) as [[c0 p0]|] eqn:Hn; [|discriminate].
  inversion Hd; subst e'. clear Hd.
  unfold wf_fib in *. apply andb_true_iff in Hwf. destruct Hwf as [Hs Hk].
  assert (Hp0 : wf_i n (S lvl) p0 = true) by exact (forallb_nth_error _ _ _ _ Hk Hn).
  apply andb_true_iff. split.
  - rewrite map_fst_set_nth_gen.
    destruct oc as [c|].
    + apply ssorted_set_nth; [exact Hs| |].
      * destruct i as [|j]; [exact I|]. destruct (nth_error (map fst e) j); [lia|exact I].
      * destruct (nth_error (map fst e) (S i)); [lia|exact I].
    + rewrite <- (map_fst_set_nth_gen i c0 p0 e), (map_fst_set_nth i c0 p0 p0 e Hn). exact Hs.
  - apply forallb_set_nth; [exact Hk|]. cbn [snd].
    destruct ov as [v|]; [|exact Hp0]. destruct p0 as [v0|id ow e0]; [|exact Hp0].
    exact Hp0.
Qed.

(* ---------- updateCoords ---------- *)
Lemma ssorted_NoDup cs : ssorted cs = true -> NoDup cs.
Proof.
  induction cs as [|x cs IH]; intros Hs; [constructor|].
  rewrite ssorted_cons in Hs. apply andb_true_iff in Hs. destruct Hs as [Hh Hs].
  constructor; [|apply IH; exact Hs].
  intros Hin. pose proof (ssorted_all_gt x cs Hh Hs) as Hall.
  rewrite Forall_forall in Hall. specialize (Hall x Hin). lia.
Qed.

Lemma nondecreasing_NoDup_ssorted cs :
  nondecreasing cs = true -> NoDup cs -> ssorted cs = true.
Proof.
  induction cs as [|x cs IH]; intros Hn Hd; [reflexivity|].
  inversion Hd as [|? ? Hnin Hd']; subst.
  rewrite ssorted_cons. destruct cs as [|y cs']; [reflexivity|].
  cbn [nondecreasing] in Hn. apply andb_true_iff in Hn. destruct Hn as [Hxy Hn].
  rewrite (IH Hn Hd'), andb_true_r. cbn [hd_gt].
  assert (x <> y) by (intros ->; apply Hnin; left; reflexivity). lia.
Qed.

Lemma ins_sorted_fst x l :
  ssorted (map fst l) = true -> ~ In (fst x) (map fst l) ->
  ssorted (map fst (ins_sorted x l)) = true
  /\ (forall c, In c (map fst (ins_sorted x l)) <-> fst x = c \/ In c (map fst l)).
Proof.
  induction l as [|y l IH]; intros Hs Hnin.
  - split; [reflexivity|]. intros c. simpl. tauto.
  - cbn [ins_sorted]. cbn [map] in Hs. rewrite ssorted_cons in Hs.
    apply andb_true_iff in Hs. destruct Hs as [Hh Hs].
    destruct (fst x <? fst y) eqn:Hxy.
    + split.
      * cbn [map]. rewrite ssorted_cons. cbn [hd_gt]. rewrite Hxy. cbn [andb].
        rewrite ssorted_cons, Hh, Hs. reflexivity.
      * intros c. simpl. tauto.
    + assert (Hnin' : ~ In (fst x) (map fst l)) by (intros H; apply Hnin; right; exact H).
      destruct (IH Hs Hnin') as [Hs' Hin'].
      split.
      * cbn [map]. rewrite ssorted_cons, Hs', andb_true_r.
        assert (Hne : fst x <> fst y) by (intros E; apply Hnin; left; symmetry; exact E).
        destruct (map fst (ins_sorted x l)) as [|z r] eqn:Hm; [reflexivity|].
        cbn [hd_gt]. assert (Hz : In z (z :: r)) by (left; reflexivity).
        apply Hin' in Hz. destruct Hz as [<-|Hz]; [lia|].
        pose proof (ssorted_all_gt (fst y) (map fst l) Hh Hs) as Hall.
        rewrite Forall_forall in Hall. specialize (Hall z Hz). lia.
      * intros c. cbn [map]. simpl. rewrite Hin'. tauto.
Qed.

Lemma sort_fib_sorted l :
  NoDup (map fst l) ->
  ssorted (map fst (sort_fib l)) = true
  /\ (forall c, In c (map fst (sort_fib l)) <-> In c (map fst l)).
Proof.
  induction l as [|x l IH]; intros Hd.
  - split; [reflexivity|]. intros c. tauto.
  - cbn [map] in Hd. inversion Hd as [|? ? Hnin Hd']; subst.
    destruct (IH Hd') as [Hs Hin]. cbn [sort_fib fold_right].
    fold (sort_fib l).
    assert (Hnin' : ~ In (fst x) (map fst (sort_fib l))) by (rewrite Hin; exact Hnin).
    destruct (ins_sorted_fst x (sort_fib l) Hs Hnin') as [Hs' Hin'].
    split; [exact Hs'|]. intros c. rewrite Hin'. cbn [map]. simpl. rewrite Hin.
    split; intros [H|H]; auto.
Qed.

Lemma ins_sorted_forallb (f : Z * itree -> bool) x l :
  forallb f (ins_sorted x l) = f x && forallb f l.
Proof.
  induction l as [|y l IH]; cbn [ins_sorted]; [reflexivity|].
  destruct (fst x <? fst y); cbn [forallb]; [reflexivity|].
  rewrite IH. destruct (f x), (f y); reflexivity.
Qed.

Lemma sort_fib_forallb (f : Z * itree -> bool) l : forallb f (sort_fib l) = forallb f l.
Proof.
  induction l as [|x l IH]; [reflexivity|].
  cbn [sort_fib fold_right]. fold (sort_fib l). rewrite ins_sorted_forallb, IH. reflexivity.
Qed.

Lemma NoDup_map_affine sg k cs :
  (sg = 1 \/ sg = -1) -> NoDup cs -> NoDup (map (fun c => sg * c + k) cs).
Proof.
  intros Hsg Hd. induction Hd as [|x cs Hnin Hd IH]; [constructor|].
  cbn [map]. constructor; [|exact IH].
  intros Hin. apply in_map_iff in Hin. destruct Hin as [y [Hy Hin]].
  assert (y = x) by (destruct Hsg; subst sg; lia). subst. contradiction.
Qed.

Lemma upd_coords_fiber_wf n sg k :
  (sg = 1 \/ sg = -1) ->
  forall lvl e, (lvl < n)%nat -> wf_fib n lvl e = true ->
                wf_fib n lvl (upd_coords_fiber sg k e) = true.
Proof.
  intros Hsg lvl e Hlvl Hwf. unfold wf_fib in *.
  apply andb_true_iff in Hwf. destruct Hwf as [Hs Hk].
  unfold upd_coords_fiber.
  set (e' := map (fun ct : Z * itree => (sg * fst ct + k, snd ct)) e).
  assert (Hfst : map fst e' = map (fun c => sg * c + k) (map fst e)).
  { unfold e'. rewrite !map_map. reflexivity. }
  assert (Hnd : NoDup (map fst e')).
  { rewrite Hfst. apply NoDup_map_affine; [exact Hsg|]. apply ssorted_NoDup. exact Hs. }
  assert (Hk' : forallb (fun ct : Z * itree => wf_i n (S lvl) (snd ct)) e' = true).
  { unfold e'. rewrite forallb_forall in *. intros x Hin. apply in_map_iff in Hin.
    destruct Hin as [y [<- Hy]]. cbn [snd]. apply Hk. exact Hy. }
  destruct (nondecreasing (map fst e')) eqn:Hnon.
  - rewrite (nondecreasing_NoDup_ssorted _ Hnon Hnd), Hk'. reflexivity.
  - destruct (sort_fib_sorted e' Hnd) as [Hs' _]. rewrite Hs', sort_fib_forallb, Hk'. reflexivity.
Qed.

Lemma nodupb_NoDup l : nodupb l = true -> NoDup l.
Proof.
  induction l as [|x l IH]; intros H; [constructor|].
  cbn [nodupb] in H. apply andb_true_iff in H. destruct H as [Hx Hl].
  constructor; [|apply IH; exact Hl].
  intros Hin. apply negb_true_iff in Hx.
  assert (existsb (Z.eqb x) l = true) as E.
  { apply existsb_exists. exists x. split; [exact Hin|apply Z.eqb_refl]. }
  congruence.
Qed.

Lemma upd_coords_fiber_g_wf n f :
  forall lvl e, (lvl < n)%nat -> wf_fib n lvl e = true ->
                wf_fib n lvl (upd_coords_fiber_g f e) = true.
Proof.
  intros lvl e Hlvl Hwf. unfold upd_coords_fiber_g.
  set (e' := map (fun ct : Z * itree => (f (fst ct), snd ct)) e).
  destruct (nodupb (map fst e')) eqn:Hnd; [|exact Hwf].
  apply nodupb_NoDup in Hnd.
  unfold wf_fib in *. apply andb_true_iff in Hwf. destruct Hwf as [Hs Hk].
  assert (Hk' : forallb (fun ct : Z * itree => wf_i n (S lvl) (snd ct)) e' = true).
  { unfold e'. rewrite forallb_forall in *. intros x Hin. apply in_map_iff in Hin.
    destruct Hin as [y [<- Hy]]. cbn [snd]. apply Hk. exact Hy. }
  destruct (nondecreasing (map fst e')) eqn:Hnon.
  - rewrite (nondecreasing_NoDup_ssorted _ Hnon Hnd), Hk'. reflexivity.
  - destruct (sort_fib_sorted e' Hnd) as [Hs' _]. rewrite Hs', sort_fib_forallb, Hk'. reflexivity.
Qed.

(* ---------- updatePayloads ---------- *)
Lemma upd_payloads_fiber_wf n d k :
  forall lvl e, (lvl < n)%nat -> wf_fib n lvl e = true ->
                wf_fib n lvl (upd_payloads_fiber d k e) = true.
Proof.
  intros lvl e Hlvl Hwf. unfold wf_fib in *.
  apply andb_true_iff in Hwf. destruct Hwf as [Hs Hk]. unfold upd_payloads_fiber.
  rewrite map_map.
  assert (Hfst : map (fun x : Z * itree =>
             fst (match snd x with
                  | ILeaf v => if v =? d then x else (fst x, ILeaf (v + k))
                  | INode _ _ _ => x end)) e = map fst e).
  { apply map_ext. intros [c [v|id ow e0]]; cbn [snd fst]; [destruct (v =? d)|]; reflexivity. }
  rewrite Hfst, Hs. cbn [andb].
  rewrite forallb_forall in *. intros x Hin. apply in_map_iff in Hin.
  destruct Hin as [[c t] [<- Hy]]. specialize (Hk _ Hy). cbn [snd] in *.
  destruct t as [v|id ow e0]; [|exact Hk]. destruct (v =? d); exact Hk.
Qed.

(* ---------- dense reference iteration ---------- *)
Lemma shape_ref_wf n d : forall cs lvl es nx rk,
  (lvl < n)%nat -> wf_fib n lvl es = true ->
  wf_fib n lvl (fst (fst (shape_ref n d lvl cs es nx rk))) = true.
Proof.
  induction cs as [|c cs IH]; intros lvl es nx rk Hlvl Hwf; [exact Hwf|].
  cbn [shape_ref].
  pose proof (get_ref_wf n d WNone [c] lvl es nx rk Hlvl Hwf) as H1.
  destruct (get_ref n d WNone lvl [c] es nx rk) as [[[es1 nx1] rk1] r]. cbn [fst] in H1.
  apply IH; assumption.
Qed.

(* ---------- the number of ranks never changes ---------- *)
Lemma app_rank_length k id rs : length (app_rank k id rs) = length rs.
Proof.
  revert k; induction rs as [|r rs IH]; intros [|k]; simpl; try reflexivity.
  rewrite IH. reflexivity.
Qed.

Lemma get_ref_rk_length n d w : forall pt lvl es nx rk,
  length (snd (fst (get_ref n d w lvl pt es nx rk))) = length rk.
Proof.
  induction pt as [|c pt IH]; intros lvl es nx rk; [reflexivity|].
  cbn [get_ref].
  set (i := bisect c (map fst es)).
  destruct (coord_exists c (map fst es) i).
  - destruct (nth_error es i) as [[c' p]|]; [|reflexivity].
    destruct pt as [|c2 pt']; destruct p as [v|id ow e1]; try reflexivity.
    specialize (IH (S lvl) e1 nx rk).
    destruct (get_ref n d w (S lvl) (c2 :: pt') e1 nx rk) as [[[e2 nx2] rk2] r].
    cbn [fst snd] in *. exact IH.
  - destruct (Nat.eqb (S lvl) n).
    + destruct (nth_error (insert_at i (c, ILeaf d) es) i) as [[c' p]|]; [|reflexivity].
      destruct pt as [|c2 pt']; destruct p as [v|id ow e1]; try reflexivity.
      specialize (IH (S lvl) e1 nx rk).
      destruct (get_ref n d w (S lvl) (c2 :: pt') e1 nx rk) as [[[e2 nx2] rk2] r].
      cbn [fst snd] in *. exact IH.
    + destruct (nth_error (insert_at i (c, INode nx (Some (S lvl)) []) es) i) as [[c' p]|];
        [|cbn [fst snd]; apply app_rank_length].
      destruct pt as [|c2 pt']; destruct p as [v|id ow e1]; cbn [fst snd];
        try apply app_rank_length.
      specialize (IH (S lvl) e1 (S nx) (app_rank (S lvl) nx rk)).
      destruct (get_ref n d w (S lvl) (c2 :: pt') e1 (S nx) (app_rank (S lvl) nx rk))
        as [[[e2 nx2] rk2] r].
      cbn [fst snd] in *. rewrite IH. apply app_rank_length.
Qed.

Lemma shape_ref_rk_length n d : forall cs lvl es nx rk,
  length (snd (shape_ref n d lvl cs es nx rk)) = length rk.
Proof.
  induction cs as [|c cs IH]; intros lvl es nx rk; [reflexivity|].
  cbn [shape_ref].
  pose proof (get_ref_rk_length n d WNone [c] lvl es nx rk) as H1.
  destruct (get_ref n d WNone lvl [c] es nx rk) as [[[es1 nx1] rk1] r]. cbn [fst snd] in H1.
  rewrite IH. exact H1.
Qed.

Lemma at_path_st_rk_length f :
  (forall lvl e nx rk, length (snd (f lvl e nx rk)) = length rk) ->
  forall path lvl es nx rk r,
    at_path_st path f lvl es nx rk = Some r -> length (snd r) = length rk.
Proof.
  intros Hf. induction path as [|c path IH]; intros lvl es nx rk r Hat.
  - cbn [at_path_st] in Hat. inversion Hat; subst. apply Hf.
  - cbn [at_path_st] in Hat.
    destruct (nth_error es (bisect c (map fst es))) as [[c' [v|id ow e1]]|]; try discriminate.
    destruct (c' =? c); [|discriminate].
    destruct (at_path_st path f (S lvl) e1 nx rk) as [[[e2 nx'] rk']|] eqn:Hrec; [|discriminate].
    inversion Hat; subst r. cbn [snd]. apply (IH _ _ _ _ _ Hrec).
Qed.

(* ---------- state invariant and the step theorem ---------- *)
Definition wf_st (s : st) : Prop :=
  exists id ow es, s_root s = INode id ow es /\ (0 < nranks s)%nat
                   /\ wf_fib (nranks s) O es = true.

Lemma wf_st_with_root s es' nx rk :
  wf_st s -> length rk = nranks s -> wf_fib (nranks s) O es' = true ->
  wf_st (with_root s es' nx rk).
Proof.
  intros (id & ow & es & Hr & Hn & Hw) Hlen Hw'. unfold with_root. rewrite Hr.
  exists id, ow, es'. unfold nranks in *. cbn [s_root s_ranks]. rewrite Hlen.
  repeat split; assumption.
Qed.

Lemma root_es_of s id ow es : s_root s = INode id ow es -> root_es s = es.
Proof. unfold root_es. intros ->. reflexivity. Qed.

(* f need only preserve well-formedness at the level the path ends at *)
Lemma at_path_wf_at n f : forall path lvl L es es',
  L = (lvl + length path)%nat ->
  (forall e e', (L < n)%nat -> wf_fib n L e = true -> f L e = Some e' -> wf_fib n L e' = true) ->
  (lvl < n)%nat -> wf_fib n lvl es = true -> at_path path f lvl es = Some es' ->
  wf_fib n lvl es' = true.
Proof.
  induction path as [|c path IH]; intros lvl L es es' HL Hf Hlvl Hwf Hat.
  - cbn [at_path] in Hat. cbn [length] in HL. rewrite Nat.add_0_r in HL. subst L.
    eapply Hf; eassumption.
  - cbn [at_path] in Hat.
    destruct (nth_error es (bisect c (map fst es))) as [[c' [v|id ow e1]]|] eqn:Hn; try discriminate.
    destruct (c' =? c) eqn:Hc; [|discriminate]. apply Z.eqb_eq in Hc. subst c'.
    destruct (at_path path f (S lvl) e1) as [e2|] eqn:Hrec; [|discriminate].
    inversion Hat; subst es'. clear Hat.
    destruct (wf_fib_child n lvl es _ c id ow e1 Hwf Hn) as [Hlt Hw1].
    eapply wf_fib_set_nth; [exact Hwf|exact Hn|].
    rewrite wf_i_node. apply Nat.ltb_lt in Hlt. rewrite Hlt. cbn [andb].
    apply Nat.ltb_lt in Hlt.
    eapply (IH (S lvl) L); try eassumption. cbn [length] in HL. lia.
Qed.

Lemma local_wf s path f :
  wf_st s ->
  (forall e e', (length path < nranks s)%nat -> wf_fib (nranks s) (length path) e = true ->
                f (length path) e = Some e' -> wf_fib (nranks s) (length path) e' = true) ->
  wf_st (fst (local s path f)).
Proof.
  intros Hs Hf. unfold local. destruct (path_ok path (root_es s)); [|exact Hs].
  destruct (at_path path f O (root_es s)) as [es'|] eqn:Hat; [|exact Hs].
  cbn [fst]. apply wf_st_with_root; [exact Hs|reflexivity|].
  destruct Hs as (id & ow & es & Hr & Hn & Hw). rewrite (root_es_of s id ow es Hr) in Hat.
  eapply (at_path_wf_at (nranks s) f path O (length path)); try eassumption. reflexivity.
Qed.

Lemma get_ref_single_preserves n d w c :
  preserves_st n (fun lvl es nx rk =>
     let '(es1, nx1, rk1, _) := get_ref n d w lvl [c] es nx rk in (es1, nx1, rk1)).
Proof.
  intros lvl e nx rk Hlvl Hwf.
  pose proof (get_ref_wf n d w [c] lvl e nx rk Hlvl Hwf) as H.
  destruct (get_ref n d w lvl [c] e nx rk) as [[[es1 nx1] rk1] r]. exact H.
Qed.

Lemma get_ref_single_len n d w c : forall lvl e nx rk,
  length (snd (let '(es1, nx1, rk1, _) := get_ref n d w lvl [c] e nx rk in (es1, nx1, rk1)))
  = length rk.
Proof.
  intros lvl e nx rk.
  pose proof (get_ref_rk_length n d w [c] lvl e nx rk) as H.
  destruct (get_ref n d w lvl [c] e nx rk) as [[[es1 nx1] rk1] r]. exact H.
Qed.

Lemma at_path_st_wf_st s path f r :
  wf_st s -> preserves_st (nranks s) f ->
  (forall lvl e nx rk, length (snd (f lvl e nx rk)) = length rk) ->
  at_path_st path f O (root_es s) (s_next s) (s_ranks s) = Some r ->
  wf_st (with_root s (fst (fst r)) (snd (fst r)) (snd r)).
Proof.
  intros Hs Hf Hlen Hat.
  apply wf_st_with_root; [exact Hs| |].
  - apply (at_path_st_rk_length f Hlen _ _ _ _ _ _ Hat).
  - destruct Hs as (id & ow & es & Hr & Hn & Hw). rewrite (root_es_of s id ow es Hr) in Hat.
    eapply at_path_st_wf; eassumption.
Qed.

Lemma wf_st_ranks s rk' :
  wf_st s -> length rk' = nranks s ->
  wf_st {| s_root := s_root s; s_ranks := rk'; s_next := s_next s; s_d := s_d s |}.
Proof.
  intros (id & ow & es & Hr & Hn & Hw) Hlen. exists id, ow, es.
  unfold nranks in *. cbn [s_root s_ranks]. rewrite Hlen. repeat split; assumption.
Qed.

(* ---------- fiber-valued mutators: loading a plain tree ---------- *)
Lemma load_node_es lvl es nx rk :
  load lvl (Node es) nx rk =
  let '(es', nx', rk') := load_es lvl es (S nx) (app_rank lvl nx rk) in
  (INode nx (Some lvl) es', nx', rk').
Proof. reflexivity. Qed.

Lemma load_len : forall t lvl nx rk, length (snd (load lvl t nx rk)) = length rk.
Proof.
  induction t as [v|es IH] using tree_ind'; intros lvl nx rk; [reflexivity|].
  rewrite load_node_es.
  assert (H : forall nx rk, length (snd (load_es lvl es nx rk)) = length rk).
  { clear nx rk. induction es as [|[c t] es IHes]; intros nx rk; [reflexivity|].
    inversion IH as [|? ? Ht Hes]; subst. cbn [snd] in Ht. cbn [load_es].
    specialize (Ht (S lvl) nx rk). destruct (load (S lvl) t nx rk) as [[t1 nx1] rk1]. cbn [snd] in Ht.
    specialize (IHes Hes nx1 rk1). destruct (load_es lvl es nx1 rk1) as [[l2 nx2] rk2].
    cbn [snd] in *. congruence. }
  specialize (H (S nx) (app_rank lvl nx rk)).
  destruct (load_es lvl es (S nx) (app_rank lvl nx rk)) as [[es' nx'] rk'].
  cbn [snd] in *. rewrite H. apply app_rank_length.
Qed.

Lemma load_es_len lvl : forall l nx rk, length (snd (load_es lvl l nx rk)) = length rk.
Proof.
  induction l as [|[c t] l IH]; intros nx rk; [reflexivity|]. cbn [load_es].
  pose proof (load_len t (S lvl) nx rk) as Ht.
  destruct (load (S lvl) t nx rk) as [[t1 nx1] rk1]. cbn [snd] in Ht.
  specialize (IH nx1 rk1). destruct (load_es lvl l nx1 rk1) as [[l2 nx2] rk2].
  cbn [snd] in *. congruence.
Qed.

Lemma load_wf n : forall t lvl nx rk,
  (lvl <= n)%nat -> plain_wf (n - lvl) t = true -> wf_i n lvl (fst (fst (load lvl t nx rk))) = true.
Proof.
  induction t as [v|es IH] using tree_ind'; intros lvl nx rk Hl Hp.
  - cbn [plain_wf] in Hp. apply Nat.eqb_eq in Hp. cbn [load fst wf_i]. apply Nat.eqb_eq. lia.
  - cbn [plain_wf] in Hp. destruct (n - lvl)%nat as [|k] eqn:Ek; [discriminate|].
    apply andb_true_iff in Hp. destruct Hp as [Hs Hk].
    assert (Hk' : k = (n - S lvl)%nat) by lia. subst k.
    rewrite load_node_es.
    assert (H : forall nx rk,
               map fst (fst (fst (load_es lvl es nx rk))) = map fst es
               /\ forallb (fun ct => wf_i n (S lvl) (snd ct)) (fst (fst (load_es lvl es nx rk))) = true).
    { clear nx rk Hs. induction es as [|[c t] es IHes]; intros nx rk; [split; reflexivity|].
      inversion IH as [|? ? Ht Hes]; subst. cbn [snd] in Ht. cbn [forallb snd] in Hk.
      apply andb_true_iff in Hk. destruct Hk as [Hk1 Hk2]. cbn [load_es].
      assert (Hl' : (S lvl <= n)%nat) by lia.
      specialize (Ht (S lvl) nx rk Hl' Hk1). destruct (load (S lvl) t nx rk) as [[t1 nx1] rk1].
      cbn [fst] in Ht. destruct (IHes Hes Hk2 nx1 rk1) as [H1 H2].
      destruct (load_es lvl es nx1 rk1) as [[l2 nx2] rk2]. cbn [fst snd map forallb] in *.
      rewrite H1, H2, Ht. split; reflexivity. }
    destruct (H (S nx) (app_rank lvl nx rk)) as [H1 H2].
    destruct (load_es lvl es (S nx) (app_rank lvl nx rk)) as [[es' nx'] rk']. cbn [fst] in *.
    rewrite wf_i_node. unfold wf_fib. rewrite H1, Hs, H2.
    assert (Hlt : Nat.ltb lvl n = true) by (apply Nat.ltb_lt; lia). rewrite Hlt. reflexivity.
Qed.

Lemma load_es_wf n lvl : forall l nx rk,
  (S lvl <= n)%nat -> forallb (fun ct => plain_wf (n - S lvl) (snd ct)) l = true ->
  map fst (fst (fst (load_es lvl l nx rk))) = map fst l
  /\ forallb (fun ct => wf_i n (S lvl) (snd ct)) (fst (fst (load_es lvl l nx rk))) = true.
Proof.
  induction l as [|[c t] l IH]; intros nx rk Hl Hk; [split; reflexivity|].
  cbn [forallb snd] in Hk. apply andb_true_iff in Hk. destruct Hk as [Hk1 Hk2]. cbn [load_es].
  pose proof (load_wf n t (S lvl) nx rk Hl Hk1) as Ht.
  destruct (load (S lvl) t nx rk) as [[t1 nx1] rk1]. cbn [fst] in Ht.
  destruct (IH nx1 rk1 Hl Hk2) as [H1 H2].
  destruct (load_es lvl l nx1 rk1) as [[l2 nx2] rk2]. cbn [fst snd map forallb] in *.
  rewrite H1, H2, Ht. split; reflexivity.
Qed.

Lemma ssorted_app a : forall b,
  ssorted a = true -> ssorted b = true ->
  match rev a, b with m :: _, c0 :: _ => m < c0 | _, _ => True end ->
  ssorted (a ++ b) = true.
Proof.
  induction a as [|x a IH]; intros b Ha Hb Hl; [exact Hb|].
  rewrite ssorted_cons in Ha. apply andb_true_iff in Ha. destruct Ha as [Hh Ha].
  cbn [app]. rewrite ssorted_cons. cbn [rev] in Hl.
  destruct a as [|y a'].
  - cbn [app]. rewrite Hb, andb_true_r. cbn [rev app] in Hl. destruct b as [|c0 b]; [reflexivity|].
    cbn [hd_gt]. lia.
  - rewrite IH; [|exact Ha|exact Hb|].
    + rewrite andb_true_r. exact Hh.
    + destruct (rev (y :: a')) eqn:Hr; [exact I|]. cbn [app] in Hl. exact Hl.
Qed.

Lemma drop_dead_length dead rk : length (drop_dead dead rk) = length rk.
Proof. unfold drop_dead. apply map_length. Qed.

(* what `for c, p in other` offers, recursively *)
Definition prune_go (d : Z) : fib -> fib :=
  fix go (l : fib) : fib :=
    match l with
    | [] => []
    | (c, t') :: l' => if is_empty d t' then go l' else (c, prune d t') :: go l'
    end.

Lemma prune_node d es : prune d (Node es) = Node (prune_go d es).
Proof. reflexivity. Qed.

Lemma prune_go_gt d x : forall l,
  Forall (fun y => x < y) (map fst l) -> Forall (fun y => x < y) (map fst (prune_go d l)).
Proof.
  induction l as [|[c t] l IH]; intros H; [constructor|]. cbn [map fst] in H.
  inversion H as [|? ? Hc Hl]; subst. cbn [prune_go].
  destruct (is_empty d t); [apply IH; exact Hl|]. cbn [map fst]. constructor; [exact Hc|apply IH; exact Hl].
Qed.

Lemma Forall_hd_gt x l : Forall (fun y => x < y) l -> hd_gt x l = true.
Proof. destruct l as [|y l]; [reflexivity|]. intros H. inversion H; subst. cbn [hd_gt]. lia. Qed.

Lemma prune_go_sorted d : forall l, ssorted (map fst l) = true -> ssorted (map fst (prune_go d l)) = true.
Proof.
  induction l as [|[c t] l IH]; intros Hs; [reflexivity|]. cbn [map fst] in Hs.
  rewrite ssorted_cons in Hs. apply andb_true_iff in Hs. destruct Hs as [Hh Hs]. cbn [prune_go].
  destruct (is_empty d t); [apply IH; exact Hs|]. cbn [map fst]. rewrite ssorted_cons, (IH Hs), andb_true_r.
  apply Forall_hd_gt. apply prune_go_gt. apply ssorted_all_gt; assumption.
Qed.

Lemma prune_wf d : forall t k, plain_wf k t = true -> plain_wf k (prune d t) = true.
Proof.
  induction t as [v|es IH] using tree_ind'; intros k Hp; [exact Hp|].
  rewrite prune_node. cbn [plain_wf] in *. destruct k as [|k]; [discriminate|].
  apply andb_true_iff in Hp. destruct Hp as [Hs Hk]. rewrite (prune_go_sorted d es Hs). cbn [andb].
  clear Hs. induction es as [|[c t] es IHes]; [reflexivity|].
  inversion IH as [|? ? Ht Hes]; subst. cbn [snd] in Ht. cbn [forallb snd] in Hk.
  apply andb_true_iff in Hk. destruct Hk as [Hk1 Hk2]. cbn [prune_go].
  destruct (is_empty d t); [apply IHes; assumption|].
  cbn [forallb snd]. rewrite (Ht k Hk1). cbn [andb]. apply IHes; assumption.
Qed.

(* ---------- the four updates keep a fiber well-formed ---------- *)
Lemma append_fib_wf n c t lvl e nx rk :
  (S lvl < n)%nat -> plain_wf (n - S lvl) t = true -> wf_fib n lvl e = true ->
  (match last_coord e with Some m => m <? c | None => true end) = true ->
  wf_fib n lvl (fst (fst (append_fib c t lvl e nx rk))) = true.
Proof.
  intros Hl Hp Hwf Ho. unfold append_fib.
  assert (Hl' : (S lvl <= n)%nat) by lia.
  pose proof (load_wf n t (S lvl) nx rk Hl' Hp) as Ht.
  destruct (load (S lvl) t nx rk) as [[t1 nx1] rk1]. cbn [fst] in *.
  unfold wf_fib in *. apply andb_true_iff in Hwf. destruct Hwf as [Hs Hk].
  pose proof (rev_map_fst_last e) as Hlast.
  assert (Hlt : match rev (map fst e) with [] => True | m :: _ => m < c end).
  { destruct (rev (map fst e)) as [|m r]; [exact I|]. rewrite Hlast in Ho. lia. }
  rewrite map_app. cbn [map fst]. rewrite (ssorted_snoc _ c Hs Hlt). cbn [andb].
  rewrite forallb_app, Hk. cbn [forallb snd]. rewrite Ht. reflexivity.
Qed.

Lemma extend_fib_wf n l lvl e nx rk :
  (lvl < n)%nat -> plain_wf (n - lvl) (Node l) = true -> wf_fib n lvl e = true ->
  (match last_coord e, l with Some m, (c0, _) :: _ => m <? c0 | _, _ => true end) = true ->
  wf_fib n lvl (fst (fst (extend_fib l lvl e nx rk))) = true.
Proof.
  intros Hl Hp Hwf Ho. unfold extend_fib. cbn [plain_wf] in Hp.
  destruct (n - lvl)%nat as [|k] eqn:Ek; [discriminate|].
  apply andb_true_iff in Hp. destruct Hp as [Hsl Hkl].
  assert (Hk' : k = (n - S lvl)%nat) by lia. subst k.
  assert (Hl' : (S lvl <= n)%nat) by lia.
  destruct (load_es_wf n lvl l nx rk Hl' Hkl) as [H1 H2].
  destruct (load_es lvl l nx rk) as [[l1 nx1] rk1]. cbn [fst] in *.
  unfold wf_fib in *. apply andb_true_iff in Hwf. destruct Hwf as [Hs Hk].
  rewrite map_app, forallb_app, Hk, H2, H1. rewrite andb_true_r.
  apply ssorted_app; [exact Hs|exact Hsl|].
  pose proof (rev_map_fst_last e) as Hlast.
  destruct (rev (map fst e)) as [|m r]; [exact I|]. rewrite Hlast in Ho.
  destruct l as [|[c0 t0] l0]; [exact I|]. cbn [map fst]. lia.
Qed.

Lemma setitem_fib_wf n i t lvl e nx rk :
  (S lvl < n)%nat -> plain_wf (n - S lvl) t = true -> wf_fib n lvl e = true ->
  wf_fib n lvl (fst (fst (setitem_fib i t lvl e nx rk))) = true.
Proof.
  intros Hl Hp Hwf. unfold setitem_fib.
  destruct (nth_error e i) as [[c0 old]|] eqn:Hn; [|exact Hwf].
  assert (Hl' : (S lvl <= n)%nat) by lia.
  pose proof (load_wf n t (S lvl) nx (drop_dead (all_ids old) rk) Hl' Hp) as Ht.
  destruct (load (S lvl) t nx (drop_dead (all_ids old) rk)) as [[t1 nx1] rk1]. cbn [fst] in *.
  eapply wf_fib_set_nth; [exact Hwf|exact Hn|exact Ht].
Qed.

Lemma assign_fib_wf n d l0 lvl e nx rk :
  (lvl < n)%nat -> plain_wf (n - lvl) (Node l0) = true ->
  wf_fib n lvl (fst (fst (assign_fib (prune_go d l0) lvl e nx rk))) = true.
Proof.
  intros Hl Hp. unfold assign_fib.
  pose proof (prune_wf d (Node l0) _ Hp) as Hp'. rewrite prune_node in Hp'. cbn [plain_wf] in Hp'.
  destruct (n - lvl)%nat as [|k] eqn:Ek; [discriminate|].
  apply andb_true_iff in Hp'. destruct Hp' as [Hsl Hkl].
  assert (Hk' : k = (n - S lvl)%nat) by lia. subst k.
  assert (Hl' : (S lvl <= n)%nat) by lia.
  destruct (load_es_wf n lvl (prune_go d l0) nx (drop_dead (all_ids_fib e) rk) Hl' Hkl) as [H1 H2].
  destruct (load_es lvl (prune_go d l0) nx (drop_dead (all_ids_fib e) rk)) as [[l1 nx1] rk1].
  cbn [fst] in *. unfold wf_fib. rewrite H1, Hsl, H2. reflexivity.
Qed.

Lemma append_fib_len c t lvl e nx rk : length (snd (append_fib c t lvl e nx rk)) = length rk.
Proof.
  unfold append_fib. pose proof (load_len t (S lvl) nx rk) as H.
  destruct (load (S lvl) t nx rk) as [[t1 nx1] rk1]. exact H.
Qed.

Lemma extend_fib_len l lvl e nx rk : length (snd (extend_fib l lvl e nx rk)) = length rk.
Proof.
  unfold extend_fib. pose proof (load_es_len lvl l nx rk) as H.
  destruct (load_es lvl l nx rk) as [[l1 nx1] rk1]. exact H.
Qed.

Lemma setitem_fib_len i t lvl e nx rk : length (snd (setitem_fib i t lvl e nx rk)) = length rk.
Proof.
  unfold setitem_fib. destruct (nth_error e i) as [[c0 old]|]; [|reflexivity].
  pose proof (load_len t (S lvl) nx (drop_dead (all_ids old) rk)) as H.
  destruct (load (S lvl) t nx (drop_dead (all_ids old) rk)) as [[t1 nx1] rk1].
  cbn [snd] in *. rewrite H. apply drop_dead_length.
Qed.

Lemma assign_fib_len l lvl e nx rk : length (snd (assign_fib l lvl e nx rk)) = length rk.
Proof. unfold assign_fib. rewrite load_es_len. apply drop_dead_length. Qed.

(* f need only preserve well-formedness at the fiber the path ends at *)
Lemma at_path_st_wf_at n f : forall path lvl L es nx rk r,
  L = (lvl + length path)%nat ->
  (forall e nx rk, (L < n)%nat -> wf_fib n L e = true -> fiber_at path es = Some e ->
                   wf_fib n L (fst (fst (f L e nx rk))) = true) ->
  (lvl < n)%nat -> wf_fib n lvl es = true -> at_path_st path f lvl es nx rk = Some r ->
  wf_fib n lvl (fst (fst r)) = true.
Proof.
  induction path as [|c path IH]; intros lvl L es nx rk r HL Hf Hlvl Hwf Hat.
  - cbn [at_path_st] in Hat. inversion Hat; subst r. cbn [length] in HL. rewrite Nat.add_0_r in HL.
    subst L. apply Hf; [exact Hlvl|exact Hwf|reflexivity].
  - cbn [at_path_st] in Hat. cbn [fiber_at] in Hf.
    destruct (nth_error es (bisect c (map fst es))) as [[c' [v|id ow e1]]|] eqn:Hn; try discriminate.
    destruct (c' =? c) eqn:Hc; [|discriminate]. apply Z.eqb_eq in Hc. subst c'.
    destruct (at_path_st path f (S lvl) e1 nx rk) as [[[e2 nx'] rk']|] eqn:Hrec; [|discriminate].
    inversion Hat; subst r. clear Hat. cbn [fst].
    destruct (wf_fib_child n lvl es _ c id ow e1 Hwf Hn) as [Hlt Hw1].
    eapply wf_fib_set_nth; [exact Hwf|exact Hn|].
    rewrite wf_i_node. apply Nat.ltb_lt in Hlt. rewrite Hlt. cbn [andb].
    apply Nat.ltb_lt in Hlt.
    apply (IH (S lvl) L e1 nx rk (e2, nx', rk')); [cbn [length] in HL; lia|exact Hf|exact Hlt|exact Hw1|exact Hrec].
Qed.

Lemma at_path_st_wf_st_at s path f r :
  wf_st s ->
  (forall e nx rk, (length path < nranks s)%nat -> wf_fib (nranks s) (length path) e = true ->
                   fiber_at path (root_es s) = Some e ->
                   wf_fib (nranks s) (length path) (fst (fst (f (length path) e nx rk))) = true) ->
  (forall lvl e nx rk, length (snd (f lvl e nx rk)) = length rk) ->
  at_path_st path f O (root_es s) (s_next s) (s_ranks s) = Some r ->
  wf_st (with_root s (fst (fst r)) (snd (fst r)) (snd r)).
Proof.
  intros Hs Hf Hlen Hat.
  apply wf_st_with_root; [exact Hs| |].
  - apply (at_path_st_rk_length f Hlen _ _ _ _ _ _ Hat).
  - destruct Hs as (id & ow & es & Hr & Hn & Hw). rewrite (root_es_of s id ow es Hr) in *.
    eapply (at_path_st_wf_at (nranks s) f path O (length path)); try eassumption. reflexivity.
Qed.

Lemma step0_wf s o : wf_st s -> wf_st (fst (step0 s o)).
Proof.
  intros Hs. destruct o; cbn [Store.step0].
  - (* OGetRef *)
    destruct (Nat.leb (length pt) (nranks s) && negb (Nat.eqb (length pt) 0)); [|exact Hs].
    pose proof Hs as (id & ow & es & Hr & Hn & Hw).
    pose proof (get_ref_wf (nranks s) (s_d s) w pt O (root_es s) (s_next s) (s_ranks s) Hn) as H1.
    pose proof (get_ref_rk_length (nranks s) (s_d s) w pt O (root_es s) (s_next s) (s_ranks s)) as H2.
    destruct (get_ref (nranks s) (s_d s) w O pt (root_es s) (s_next s) (s_ranks s))
      as [[[es' nx] rk] r].
    cbn [fst snd] in *. apply wf_st_with_root; [exact Hs|exact H2|].
    apply H1. rewrite (root_es_of s id ow es Hr). exact Hw.
  - (* OGet *)
    destruct (Nat.leb (length pt) (nranks s) && negb (Nat.eqb (length pt) 0)); exact Hs.
  - (* OAppend *)
    destruct (Nat.eqb (S (length path)) (nranks s)) eqn:Hleaf; [|exact Hs].
    apply local_wf; [exact Hs|]. intros e e' Hlvl Hwf Hd.
    eapply do_append_wf; eassumption.
  - (* OSetItem *)
    destruct (Nat.eqb (S (length path)) (nranks s)
              || Nat.ltb (length path) (nranks s) && match ov with None => true | Some _ => false end)
      eqn:Hg; [|exact Hs].
    apply local_wf; [exact Hs|]. intros e e' Hlvl Hwf Hd.
    eapply do_setitem_wf; eassumption.
  - (* OClear *)
    destruct (Nat.ltb (length path) (nranks s)); [|exact Hs].
    destruct (fiber_at path (root_es s)) as [es|]; [|exact Hs].
    pose proof (local_wf s path (fun _ => do_clear) Hs) as Hl.
    destruct (local s path (fun _ : nat => do_clear)) as [s' out] eqn:Hloc. cbn [fst] in *.
    assert (Hs' : wf_st s').
    { apply Hl. intros e e' _ _ Hd. unfold do_clear in Hd. inversion Hd. reflexivity. }
    destruct out; cbn [fst]; [|exact Hs'|exact Hs'].
    apply wf_st_ranks; [exact Hs'|]. rewrite map_length. reflexivity.
  - (* OUpdCoords *)
    destruct (Nat.ltb (length path + depth) (nranks s) && ((sg =? 1) || (sg =? -1))) eqn:Hg;
      [|exact Hs].
    apply andb_true_iff in Hg. destruct Hg as [_ Hsg].
    assert (Hsg' : sg = 1 \/ sg = -1).
    { apply orb_true_iff in Hsg. destruct Hsg as [H|H]; apply Z.eqb_eq in H; auto. }
    apply local_wf; [exact Hs|]. intros e e' Hlvl Hwf Hd. inversion Hd; subst e'.
    apply below_wf; [|exact Hlvl|exact Hwf].
    intros lvl' e0 Hl' Hw'. apply upd_coords_fiber_wf; assumption.
  - (* OUpdCoordsTbl *)
    destruct (Nat.ltb (length path + depth) (nranks s)); [|exact Hs].
    destruct (fiber_at path (root_es s)) as [es0|]; [|exact Hs].
    destruct (distinct_below depth (tbl_fn tbl off) es0); [|exact Hs].
    apply local_wf; [exact Hs|]. intros e e' Hlvl Hwf Hd. inversion Hd; subst e'.
    apply below_wf; [|exact Hlvl|exact Hwf].
    intros lvl' e0 Hl' Hw'. apply upd_coords_fiber_g_wf; assumption.
  - (* OUpdPayloads *)
    destruct (Nat.eqb (S (length path + depth)) (nranks s)); [|exact Hs].
    apply local_wf; [exact Hs|]. intros e e' Hlvl Hwf Hd. inversion Hd; subst e'.
    apply below_wf; [|exact Hlvl|exact Hwf].
    intros lvl' e0 Hl' Hw'. apply upd_payloads_fiber_wf; assumption.
  - (* OShapeRef *)
    destruct (Nat.ltb (length path) (nranks s) && (0 <? step) && (0 <=? lo)); [|exact Hs].
    destruct (at_path_st path _ O (root_es s) (s_next s) (s_ranks s)) as [[[es' nx] rk]|] eqn:Hat;
      [|exact Hs].
    cbn [fst].
    refine (at_path_st_wf_st s path _ (es', nx, rk) Hs _ _ Hat).
    + intros lvl e nx0 rk0 Hl Hw. apply shape_ref_wf; assumption.
    + intros lvl e nx0 rk0. apply shape_ref_rk_length.
  - (* OGetPos *)
    destruct (Nat.ltb (length path) (nranks s)); [|exact Hs].
    destruct (fiber_at path (root_es s)) as [es|]; [|exact Hs].
    destruct (sp_in_range (norm_sp sp es) es); exact Hs.
  - (* OGetPosRef *)
    destruct (Nat.ltb (length path) (nranks s)); [|exact Hs].
    destruct (fiber_at path (root_es s)) as [es|]; [|exact Hs].
    destruct (sp_in_range (norm_sp sp es) es); [|exact Hs].
    destruct (coord_exists c (map fst es) (coord2pos c (map fst es) (norm_sp sp es))
              || negb (coord_exists c (map fst es) (bisect c (map fst es)))); [|exact Hs].
    destruct (at_path_st path _ O (root_es s) (s_next s) (s_ranks s)) as [[[es' nx] rk]|] eqn:Hat;
      [|exact Hs].
    cbn [fst].
    refine (at_path_st_wf_st s path _ (es', nx, rk) Hs _ _ Hat).
    + apply get_ref_single_preserves.
    + apply get_ref_single_len.
  - (* OGetSP *)
    destruct (Nat.ltb (length path) (nranks s)); [|exact Hs].
    destruct (fiber_at path (root_es s)) as [es|]; [|exact Hs].
    destruct (sp_in_range (norm_sp sp es) es); [|exact Hs].
    destruct (sp_assert c (norm_sp sp es) es); exact Hs.
  - (* OGetRefSP *)
    destruct (Nat.ltb (length path) (nranks s)); [|exact Hs].
    destruct (fiber_at path (root_es s)) as [es|]; [|exact Hs].
    destruct (sp_in_range (norm_sp sp es) es); [|exact Hs].
    destruct (coord_exists c (map fst es) (coord2pos c (map fst es) (norm_sp sp es))
              || negb (coord_exists c (map fst es) (bisect c (map fst es)))); [|exact Hs].
    destruct (at_path_st path _ O (root_es s) (s_next s) (s_ranks s)) as [[[es' nx] rk]|] eqn:Hat;
      [|exact Hs].
    cbn [fst].
    refine (at_path_st_wf_st s path _ (es', nx, rk) Hs _ _ Hat).
    + apply get_ref_single_preserves.
    + apply get_ref_single_len.
  - (* OGetD *)
    destruct (Nat.leb (length pt) (nranks s) && negb (Nat.eqb (length pt) 0)); exact Hs.
  - (* OAppendFib *)
    destruct (Nat.ltb (S (length path)) (nranks s) && plain_wf (nranks s - S (length path)) t) eqn:Hg;
      [|exact Hs].
    apply andb_true_iff in Hg. destruct Hg as [Hlt Hp]. apply Nat.ltb_lt in Hlt.
    destruct (fiber_at path (root_es s)) as [e|] eqn:Hfa; [|exact Hs].
    destruct (match last_coord e with Some m => m <? c | None => true end) eqn:Ho; [|exact Hs].
    destruct (at_path_st path (append_fib c t) O (root_es s) (s_next s) (s_ranks s))
      as [[[es' nx] rk]|] eqn:Hat; [|exact Hs].
    cbn [fst]. refine (at_path_st_wf_st_at s path _ (es', nx, rk) Hs _ _ Hat).
    + intros e0 nx0 rk0 _ Hw0 Hf0. rewrite Hfa in Hf0. inversion Hf0; subst e0. apply append_fib_wf; assumption.
    + intros lvl e0 nx0 rk0. apply append_fib_len.
  - (* OExtend *)
    destruct t as [v|l]; [exact Hs|].
    destruct (Nat.ltb (length path) (nranks s) && plain_wf (nranks s - length path) (Node l)) eqn:Hg;
      [|exact Hs].
    apply andb_true_iff in Hg. destruct Hg as [Hlt Hp]. apply Nat.ltb_lt in Hlt.
    destruct (fiber_at path (root_es s)) as [e|] eqn:Hfa; [|exact Hs].
    destruct (is_empty (s_d s) (Node l)); [exact Hs|].
    destruct (match last_coord e, l with Some m, (c0, _) :: _ => m <? c0 | _, _ => true end) eqn:Ho;
      [|exact Hs].
    destruct (at_path_st path (extend_fib l) O (root_es s) (s_next s) (s_ranks s))
      as [[[es' nx] rk]|] eqn:Hat; [|exact Hs].
    cbn [fst]. refine (at_path_st_wf_st_at s path _ (es', nx, rk) Hs _ _ Hat).
    + intros e0 nx0 rk0 _ Hw0 Hf0. rewrite Hfa in Hf0. inversion Hf0; subst e0. apply extend_fib_wf; assumption.
    + intros lvl e0 nx0 rk0. apply extend_fib_len.
  - (* OSetItemFib *)
    destruct (Nat.ltb (S (length path)) (nranks s) && plain_wf (nranks s - S (length path)) t) eqn:Hg;
      [|exact Hs].
    apply andb_true_iff in Hg. destruct Hg as [Hlt Hp]. apply Nat.ltb_lt in Hlt.
    destruct (fiber_at path (root_es s)) as [e|] eqn:Hfa; [|exact Hs].
    cbv zeta.
    destruct (((if pos <? 0 then pos + Z.of_nat (length e) else pos) <? 0)
              || (Z.of_nat (length e) <=? (if pos <? 0 then pos + Z.of_nat (length e) else pos)));
      [exact Hs|].
    destruct (at_path_st path _ O (root_es s) (s_next s) (s_ranks s))
      as [[[es' nx] rk]|] eqn:Hat; [|exact Hs].
    cbn [fst]. refine (at_path_st_wf_st_at s path _ (es', nx, rk) Hs _ _ Hat).
    + intros e0 nx0 rk0 _ Hw0 _. apply setitem_fib_wf; assumption.
    + intros lvl e0 nx0 rk0. apply setitem_fib_len.
  - (* OAssignFib *)
    destruct t as [v|l0]; [exact Hs|]. rewrite prune_node.
    destruct (Nat.ltb (length path) (nranks s) && plain_wf (nranks s - length path) (Node l0)) eqn:Hg;
      [|exact Hs].
    apply andb_true_iff in Hg. destruct Hg as [Hlt Hp]. apply Nat.ltb_lt in Hlt.
    destruct (at_path_st path _ O (root_es s) (s_next s) (s_ranks s))
      as [[[es' nx] rk]|] eqn:Hat; [|exact Hs].
    cbn [fst]. refine (at_path_st_wf_st_at s path _ (es', nx, rk) Hs _ _ Hat).
    + intros e0 nx0 rk0 Hl0 _ _. apply assign_fib_wf; assumption.
    + intros lvl e0 nx0 rk0. apply assign_fib_len.
  - (* OSetItemCF: not a step0 operation *)
    exact Hs.
Qed.

(* a refused operation (or an ill-addressed one) leaves the state exactly as it was *)
Lemma local_unchanged s path f :
  snd (local s path f) = Rejected \/ snd (local s path f) = BadAddress ->
  fst (local s path f) = s.
Proof.
  unfold local. destruct (path_ok path (root_es s)); [|reflexivity].
  destruct (at_path path f O (root_es s)); [|reflexivity].
  cbn [snd]. intros [H|H]; discriminate.
Qed.

Lemma step0_rejected_unchanged s o :
  snd (Store.step0 s o) = Rejected \/ snd (Store.step0 s o) = BadAddress ->
  fst (Store.step0 s o) = s.
Proof.
  intros H. destruct o; cbn [Store.step0] in *.
  - destruct (Nat.leb (length pt) (nranks s) && negb (Nat.eqb (length pt) 0)); [|reflexivity].
    destruct (get_ref (nranks s) (s_d s) w O pt (root_es s) (s_next s) (s_ranks s))
      as [[[es' nx] rk] r]. cbn [snd] in H. destruct H; discriminate.
  - destruct (Nat.leb (length pt) (nranks s) && negb (Nat.eqb (length pt) 0)); reflexivity.
  - destruct (Nat.eqb (S (length path)) (nranks s)); [|reflexivity].
    apply local_unchanged. exact H.
  - destruct (Nat.eqb (S (length path)) (nranks s)
              || Nat.ltb (length path) (nranks s) && match ov with None => true | Some _ => false end);
      [|reflexivity].
    apply local_unchanged. exact H.
  - destruct (Nat.ltb (length path) (nranks s)); [|reflexivity].
    destruct (fiber_at path (root_es s)) as [es|]; [|reflexivity].
    pose proof (local_unchanged s path (fun _ => do_clear)) as Hl.
    destruct (local s path (fun _ : nat => do_clear)) as [s' out]. cbn [fst snd] in *.
    destruct out; cbn [fst snd] in *.
    + destruct H; discriminate.
    + apply Hl. left; reflexivity.
    + apply Hl. right; reflexivity.
  - destruct (Nat.ltb (length path + depth) (nranks s) && ((sg =? 1) || (sg =? -1))); [|reflexivity].
    apply local_unchanged. exact H.
  - destruct (Nat.ltb (length path + depth) (nranks s)); [|reflexivity].
    destruct (fiber_at path (root_es s)) as [es0|]; [|reflexivity].
    destruct (distinct_below depth (tbl_fn tbl off) es0); [|reflexivity].
    apply local_unchanged. exact H.
  - destruct (Nat.eqb (S (length path + depth)) (nranks s)); [|reflexivity].
    apply local_unchanged. exact H.
  - destruct (Nat.ltb (length path) (nranks s) && (0 <? step) && (0 <=? lo)); [|reflexivity].
    destruct (at_path_st path _ O (root_es s) (s_next s) (s_ranks s)) as [[[es' nx] rk]|];
      [|reflexivity].
    cbn [snd] in H. destruct H; discriminate.
  - destruct (Nat.ltb (length path) (nranks s)); [|reflexivity].
    destruct (fiber_at path (root_es s)) as [es|]; [|reflexivity].
    destruct (sp_in_range (norm_sp sp es) es); reflexivity.
  - destruct (Nat.ltb (length path) (nranks s)); [|reflexivity].
    destruct (fiber_at path (root_es s)) as [es|]; [|reflexivity].
    destruct (sp_in_range (norm_sp sp es) es); [|reflexivity].
    destruct (coord_exists c (map fst es) (coord2pos c (map fst es) (norm_sp sp es))
              || negb (coord_exists c (map fst es) (bisect c (map fst es)))); [|reflexivity].
    destruct (at_path_st path _ O (root_es s) (s_next s) (s_ranks s)) as [[[es' nx] rk]|];
      [|reflexivity].
    cbn [snd] in H. destruct H; discriminate.
  - destruct (Nat.ltb (length path) (nranks s)); [|reflexivity].
    destruct (fiber_at path (root_es s)) as [es|]; [|reflexivity].
    destruct (sp_in_range (norm_sp sp es) es); [|reflexivity].
    destruct (sp_assert c (norm_sp sp es) es); reflexivity.
  - destruct (Nat.ltb (length path) (nranks s)); [|reflexivity].
    destruct (fiber_at path (root_es s)) as [es|]; [|reflexivity].
    destruct (sp_in_range (norm_sp sp es) es); [|reflexivity].
    destruct (coord_exists c (map fst es) (coord2pos c (map fst es) (norm_sp sp es))
              || negb (coord_exists c (map fst es) (bisect c (map fst es)))); [|reflexivity].
    destruct (at_path_st path _ O (root_es s) (s_next s) (s_ranks s)) as [[[es' nx] rk]|];
      [|reflexivity].
    cbn [snd] in H. destruct H; discriminate.
  - destruct (Nat.leb (length pt) (nranks s) && negb (Nat.eqb (length pt) 0)); reflexivity.
  - destruct (Nat.ltb (S (length path)) (nranks s) && plain_wf (nranks s - S (length path)) t);
      [|reflexivity].
    destruct (fiber_at path (root_es s)) as [e|]; [|reflexivity].
    destruct (match last_coord e with Some m => m <? c | None => true end); [|reflexivity].
    destruct (at_path_st path _ O (root_es s) (s_next s) (s_ranks s)) as [[[es' nx] rk]|];
      [|reflexivity].
    cbn [snd] in H. destruct H; discriminate.
  - destruct t as [v|l]; [reflexivity|].
    destruct (Nat.ltb (length path) (nranks s) && plain_wf (nranks s - length path) (Node l));
      [|reflexivity].
    destruct (fiber_at path (root_es s)) as [e|]; [|reflexivity].
    destruct (is_empty (s_d s) (Node l)); [reflexivity|].
    destruct (match last_coord e, l with Some m, (c0, _) :: _ => m <? c0 | _, _ => true end);
      [|reflexivity].
    destruct (at_path_st path _ O (root_es s) (s_next s) (s_ranks s)) as [[[es' nx] rk]|];
      [|reflexivity].
    cbn [snd] in H. destruct H; discriminate.
  - destruct (Nat.ltb (S (length path)) (nranks s) && plain_wf (nranks s - S (length path)) t);
      [|reflexivity].
    destruct (fiber_at path (root_es s)) as [e|]; [|reflexivity]. cbv zeta in *.
    destruct (((if pos <? 0 then pos + Z.of_nat (length e) else pos) <? 0)
              || (Z.of_nat (length e) <=? (if pos <? 0 then pos + Z.of_nat (length e) else pos)));
      [reflexivity|].
    destruct (at_path_st path _ O (root_es s) (s_next s) (s_ranks s)) as [[[es' nx] rk]|];
      [|reflexivity].
    cbn [snd] in H. destruct H; discriminate.
  - destruct (prune (s_d s) t) as [v|l]; [reflexivity|].
    destruct (Nat.ltb (length path) (nranks s) && plain_wf (nranks s - length path) t);
      [|reflexivity].
    destruct (at_path_st path _ O (root_es s) (s_next s) (s_ranks s)) as [[[es' nx] rk]|];
      [|reflexivity].
    cbn [snd] in H. destruct H; discriminate.
  - reflexivity.
Qed.

(* ---------- OSetItemCF: the coordinate-only assignment, then the fiber-only assignment ----------
   [step] differs from [step0] only there; every theorem about [step0] is lifted through
   [step_decomp]. *)
Lemma step_not_cf s o :
  match o with OSetItemCF _ _ _ _ => False | _ => True end -> Store.step s o = step0 s o.
Proof. destruct o; intros H; try reflexivity. contradiction. Qed.

Lemma step_decomp s o :
  Store.step s o = step0 s o
  \/ exists path pos c t, o = OSetItemCF path pos c t
     /\ ((fst (Store.step s o) = s
          /\ (snd (Store.step s o) = Rejected \/ snd (Store.step s o) = BadAddress))
         \/ exists s1 r1,
              Nat.ltb (S (length path)) (nranks s) && plain_wf (nranks s - S (length path)) t = true
              /\ step0 s (OSetItem path pos (Some c) None) = (s1, Done r1)
              /\ Store.step s o = step0 s1 (OSetItemFib path pos t)).
Proof.
  destruct o; try (left; reflexivity).
  right. exists path, pos, c, t. split; [reflexivity|]. cbn [Store.step].
  destruct (Nat.ltb (S (length path)) (nranks s) && plain_wf (nranks s - S (length path)) t) eqn:Hg;
    [|left; split; [reflexivity|right; reflexivity]].
  destruct (step0 s (OSetItem path pos (Some c) None)) as [s1 [r1| |]] eqn:E1.
  - right. exists s1, r1. repeat split; reflexivity.
  - left. split; [reflexivity|left; reflexivity].
  - left. split; [reflexivity|right; reflexivity].
Qed.

Theorem step_wf s o : wf_st s -> wf_st (fst (Store.step s o)).
Proof.
  intros Hs.
  destruct (step_decomp s o) as [E|(path & pos & c & t & _ & [[E _]|(s1 & r1 & _ & E1 & E2)])].
  - rewrite E. apply step0_wf. exact Hs.
  - rewrite E. exact Hs.
  - rewrite E2. apply step0_wf.
    pose proof (step0_wf s (OSetItem path pos (Some c) None) Hs) as H1. rewrite E1 in H1. exact H1.
Qed.

(* once the coordinate has been accepted the payload part cannot be refused: it addresses the
   same fiber at the same position, and the fiber has kept its length *)
Lemma set_nth_len {A} (x : A) : forall l i, length (set_nth i x l) = length l.
Proof. induction l as [|y l IH]; intros [|i]; cbn [set_nth length]; try reflexivity. rewrite IH. reflexivity. Qed.

Lemma set_nth_hit {A} (x : A) : forall l i y, nth_error l i = Some y -> nth_error (set_nth i x l) i = Some x.
Proof.
  induction l as [|z l IH]; intros [|i] y H; cbn [nth_error set_nth] in *; try discriminate; [reflexivity|].
  eapply IH. exact H.
Qed.

Lemma do_setitem_coord_some pos c e e' :
  do_setitem pos (Some c) None e = Some e' ->
  length e' = length e
  /\ ((if pos <? 0 then pos + Z.of_nat (length e) else pos) <? 0)
     || (Z.of_nat (length e) <=? (if pos <? 0 then pos + Z.of_nat (length e) else pos)) = false.
Proof.
  unfold do_setitem. intros Hd.
  destruct ((if pos <? 0 then pos + Z.of_nat (length e) else pos) <? 0); [discriminate|].
  destruct (Z.of_nat (length e) <=? (if pos <? 0 then pos + Z.of_nat (length e) else pos));
    [discriminate|].
  split; [|reflexivity].
  match type of Hd with (if ?b then _ else _) = _ => destruct b; [|discriminate] end.
  destruct (nth_error e (Z.to_nat (if pos <? 0 then pos + Z.of_nat (length e) else pos)))
    as [[c0 p0]|]; [|discriminate].
  inversion Hd. apply set_nth_len.
Qed.

Lemma path_ok_fiber_at f : forall path lvl es es',
  at_path path f lvl es = Some es' -> exists e, fiber_at path es = Some e.
Proof.
  induction path as [|c path IH]; intros lvl es es' Hat.
  - exists es. reflexivity.
  - cbn [at_path] in Hat. cbn [fiber_at].
    destruct (nth_error es (bisect c (map fst es))) as [[c' [v|id ow e1]]|]; try discriminate.
    destruct (c' =? c); [|discriminate].
    destruct (at_path path f (S lvl) e1) as [e2|] eqn:Hrec; [|discriminate].
    eapply IH. exact Hrec.
Qed.

Lemma fiber_at_at_path f : forall path lvl es es' e,
  fiber_at path es = Some e -> at_path path f lvl es = Some es' ->
  exists e', f (lvl + length path)%nat e = Some e' /\ fiber_at path es' = Some e'.
Proof.
  induction path as [|c path IH]; intros lvl es es' e Hf Hat.
  - cbn [fiber_at] in Hf. inversion Hf; subst e. cbn [at_path] in Hat. cbn [length].
    rewrite Nat.add_0_r. exists es'. split; [exact Hat|reflexivity].
  - cbn [fiber_at] in Hf. cbn [at_path] in Hat.
    destruct (nth_error es (bisect c (map fst es))) as [[c' [v|id ow e1]]|] eqn:Hn; try discriminate.
    destruct (c' =? c) eqn:Hc; [|discriminate]. apply Z.eqb_eq in Hc. subst c'.
    destruct (at_path path f (S lvl) e1) as [e2|] eqn:Hrec; [|discriminate].
    inversion Hat; subst es'. clear Hat.
    destruct (IH (S lvl) e1 e2 e Hf Hrec) as (e' & H1 & H2).
    exists e'. split.
    + cbn [length]. rewrite Nat.add_succ_r. exact H1.
    + cbn [fiber_at]. rewrite (map_fst_set_nth _ c _ _ es Hn), (set_nth_hit _ _ _ _ Hn), Z.eqb_refl.
      exact H2.
Qed.

Lemma fiber_at_at_path_st f : forall path lvl es nx rk e,
  fiber_at path es = Some e -> exists r, at_path_st path f lvl es nx rk = Some r.
Proof.
  induction path as [|c path IH]; intros lvl es nx rk e Hf.
  - eexists. reflexivity.
  - cbn [fiber_at] in Hf. cbn [at_path_st].
    destruct (nth_error es (bisect c (map fst es))) as [[c' [v|id ow e1]]|]; try discriminate.
    destruct (c' =? c); [|discriminate].
    destruct (IH (S lvl) e1 nx rk e Hf) as ([[e2 nx'] rk'] & Hr). rewrite Hr. eexists. reflexivity.
Qed.

Lemma setitemcf_payload_done s path pos c t s1 r1 :
  Nat.ltb (S (length path)) (nranks s) && plain_wf (nranks s - S (length path)) t = true ->
  step0 s (OSetItem path pos (Some c) None) = (s1, Done r1) ->
  exists s2, step0 s1 (OSetItemFib path pos t) = (s2, Done RNone).
Proof.
  intros Hg E1. cbn [step0] in E1.
  destruct (Nat.eqb (S (length path)) (nranks s) || Nat.ltb (length path) (nranks s) && true);
    [|discriminate].
  unfold local in E1.
  destruct (path_ok path (root_es s)); [|discriminate].
  destruct (at_path path (fun _ : nat => do_setitem pos (Some c) None) 0 (root_es s)) as [es'|] eqn:Hat;
    [|discriminate].
  inversion E1 as [[Hs1 Hr1]]. clear E1 Hr1.
  destruct (path_ok_fiber_at _ _ _ _ _ Hat) as (e & Hfa).
  destruct (fiber_at_at_path _ _ _ _ _ _ Hfa Hat) as (e' & Hdo & Hfa').
  destruct (do_setitem_coord_some pos c e e' Hdo) as [Hlen Hrange].
  unfold with_root. unfold root_es in Hfa. destruct (s_root s) as [v|id ow es0] eqn:Hroot.
  - (* a leaf root has no element to assign to *)
    destruct path as [|c1 path]; cbn [fiber_at nth_error] in Hfa; [|discriminate].
    inversion Hfa; subst e. cbn [length] in Hrange. exfalso.
    apply orb_false_iff in Hrange. destruct Hrange as [Ha Hb].
    apply Z.ltb_ge in Ha. apply Z.leb_gt in Hb. cbn [Z.of_nat] in Ha, Hb.
    destruct (pos <? 0); lia.
  - cbn [step0]. unfold nranks, root_es. cbn [s_root s_ranks s_next]. fold (nranks s).
    rewrite Hg, Hfa'. cbv zeta. rewrite Hlen, Hrange.
    destruct (fiber_at_at_path_st (setitem_fib
                (Z.to_nat (if pos <? 0 then pos + Z.of_nat (length e) else pos)) t)
                path 0 es' (s_next s) (s_ranks s) e' Hfa') as ([[e2 nx'] rk'] & Hr).
    rewrite Hr. eexists. reflexivity.
Qed.

(* a refused operation (or an ill-addressed one) leaves the state exactly as it was *)
Theorem step_rejected_unchanged s o :
  snd (Store.step s o) = Rejected \/ snd (Store.step s o) = BadAddress ->
  fst (Store.step s o) = s.
Proof.
  intros H.
  destruct (step_decomp s o) as [E|(path & pos & c & t & _ & [[E _]|(s1 & r1 & Hg & E1 & E2)])].
  - rewrite E in *. apply step0_rejected_unchanged. exact H.
  - exact E.
  - destruct (setitemcf_payload_done s path pos c t s1 r1 Hg E1) as (s2 & E3).
    rewrite E2, E3 in H. cbn [snd] in H. destruct H; discriminate.
Qed.
