(* C16PopNestP.v — run_level's populate branch meets the nest specification (concrete sources),
   and the nest induction over the populate prefix. *)
From Coq Require Import ZArith List Bool Lia ZifyBool.
From FT Require Import Model.Base Model.Obs Model.C16Metrics Model.C16Nest Model.C16Check
                       Proofs.C16MetricsP Proofs.C16CoreP Proofs.C16RefP Proofs.C16AndP
                       Proofs.C16NestP Proofs.C16PlainP Proofs.C16AndLevelP Proofs.C16EagerP
                       Proofs.C16PopP Proofs.C16PopPosP Proofs.C16PopCoreP.
Import ListNotations.
Open Scope Z_scope.

Section WithZZ.
Context {zz : ZZ}.

(* ------------------------------------------------------------------ the `&` source of a populate *)
Lemma and_src_rows : forall i r la lb tr xs ys pt (fx fy : Z -> option Z), r = Z.of_nat i -> la <> lb ->
  ssorted_f xs -> ssorted_f ys ->
  let ag := and_go r la lb (tr (r, K_INT, la)) (tr (r, K_INT, lb)) xs ys 0 0 [] in
  forall label, tr (r, K_INT, label) = true ->
  (label = la \/ label = lb ->
   (forall j ct, nth_error xs j = Some ct -> fx (fst ct) = Some (Z.of_nat j)) /\
   (forall j ct, nth_error ys j = Some ct -> fy (fst ct) = Some (Z.of_nat j))) ->
  map (fun cp : Z * Z => pt ++ [fst cp; snd cp]) (uses label (all_events ag))
  = if label =? la then map (fun ct => addr pt (fst ct) (fx (fst ct))) (touched (last_coord ys) xs)
    else if label =? lb then map (fun ct => addr pt (fst ct) (fy (fst ct))) (touched (last_coord xs) ys)
    else [].
Proof.
  intros i r la lb tr xs ys pt fx fy Hr Hl Hsx Hsy ag label Htr Hp. unfold ag.
  destruct (label =? la) eqn:E0; [|destruct (label =? lb) eqn:E1].
  - apply Z.eqb_eq in E0. subst label. rewrite Htr. destruct (Hp (or_introl eq_refl)) as [Px Py].
    rewrite (and_go_a_rows r la lb (tr (r, K_INT, lb)) Hl xs Hsx ys Hsy 0 0 []).
    cbn [uses flat_map app]. unfold rows_of. rewrite map_map. symmetry.
    rewrite (addr_enum fx pt (touched (last_coord ys) xs) 0); [apply map_ext; intros [j0 [c0 t0]]; reflexivity|].
    intros j ct Hn. rewrite (Px j ct); [f_equal; lia|]. eapply touched_nth; eauto.
  - apply Z.eqb_eq in E1. subst label. rewrite Htr. destruct (Hp (or_intror eq_refl)) as [Px Py].
    rewrite (and_go_b_rows r la lb (tr (r, K_INT, la)) Hl xs Hsx ys Hsy 0 0 []).
    cbn [uses flat_map app]. unfold rows_of. rewrite map_map. symmetry.
    rewrite (addr_enum fy pt (touched (last_coord xs) ys) 0); [apply map_ext; intros [j0 [c0 t0]]; reflexivity|].
    intros j ct Hn. rewrite (Py j ct); [f_equal; lia|]. eapply touched_nth; eauto.
  - destruct (and_go_events (fun ev => uses label [ev] = []) r la lb (tr (r, K_INT, la)) (tr (r, K_INT, lb)))
      with (xs := xs) (ys := ys) (apos := 0) (bpos := 0) (pre := @nil mev) as [N1 N2]; auto.
    + intros c p. unfold uses. cbn [flat_map app]. rewrite (Z.eqb_sym la label), E0, andb_false_r. reflexivity.
    + intros c p. unfold uses. cbn [flat_map app]. rewrite (Z.eqb_sym lb label), E1, andb_false_r. reflexivity.
    + unfold all_events. rewrite uses_app, (uses_nouse label _ N2), app_nil_r.
      assert (uses label (flat_map fst (fst (and_go r la lb (tr (r, K_INT, la)) (tr (r, K_INT, lb)) xs ys 0 0 []))) = []) as ->; [|reflexivity].
      induction N1 as [|el l Hel Hl' IHl]; auto. cbn [flat_map]. rewrite uses_app, (uses_nouse label _ Hel), IHl. reflexivity.
Qed.

(* ------------------------------------------------------------------ labels of a populate level *)
Lemma pop_labels : forall i z, labinv i z ->
  let r := Z.of_nat i in
  let ls1 := snd (lab_reg (th_lab z) r) in
  let g1 := lab_get ls1 r in let g2 := lab_get (snd g1) r in
  fst (lab_reg (th_lab z) r) = [] /\ fst g1 = 0 /\ fst g2 = 1
  /\ linv (S i) (snd g2) /\ memZ r (lb_reg (snd g2)) = true
  /\ lookup_rm r (lb_cnt (snd g2)) = Some 2.
Proof.
  intros i z Hz r ls1 g1 g2.
  destruct (lab_reg_inv i z Hz) as (R1 & R2 & R3 & R4 & R5). fold r in R1, R2, R3, R4, R5. fold ls1 in R2, R3, R4, R5.
  destruct (lab_get_val ls1 r 0 R3) as (A1 & A2 & A3).
  { destruct R4 as [R4|R4]; [right|left]; auto. }
  fold g1 in A1, A2, A3.
  destruct (lab_get_val (snd g1) r 1 A3 (or_introl A2)) as (B1 & B2 & B3). fold g2 in B1, B2, B3.
  destruct (lab_get_inv i ls1 R3) as (G1 & G2 & G3). fold r in G1, G2, G3. fold g1 in G1, G2, G3.
  destruct (lab_get_inv i (snd g1) G1) as (H1 & H2 & H3). fold r in H1, H2, H3. fold g2 in H1, H2, H3.
  split; [exact R1|split; [exact A1|split; [exact B1|split; [|split; [exact B3|exact B2]]]]].
  destruct R2 as [N2 C2]. split.
  - unfold noall. cbn [th_lab]. rewrite H2, G2. exact R5.
  - intros j Hj. unfold cz. cbn [th_lab]. rewrite H3, G3 by lia. apply (C2 j Hj).
Qed.

Lemma linv_end : forall i ls, linv (S i) ls -> linv i (lab_end ls (Z.of_nat i)).
Proof.
  intros i ls H. unfold linv in *. apply (lab_end_inv i {| th_z := None; th_lab := ls |} H).
Qed.

Lemma depth_node : forall dz t, depth_ok (S dz) t = true -> exists zes, t = Node zes /\ ftyp dz zes.
Proof.
  intros dz t H. destruct t as [v|es]; [discriminate|]. exists es. split; auto.
  cbn in H. unfold ftyp. apply Forall_forall. intros ct Hin. rewrite forallb_forall in H. apply H, Hin.
Qed.

Lemma ftyp_node : forall dz zes, ftyp dz zes -> depth_ok (S dz) (Node zes) = true.
Proof.
  intros dz zes H. cbn. apply forallb_forall. intros ct Hin. unfold ftyp in H. rewrite Forall_forall in H. apply H, Hin.
Qed.

(* ------------------------------------------------------------------ z_i << x_i *)
Definition asc_src (L : level) (e : env) : Prop :=
  match map fst (ref_elems L e) with [] => True | c0 :: cs => inc_from c0 cs end.

(* what the destination-side clause (zs = true) needs at a populate level: the fibers of the point
   in the trees before / after the run are the one handed in / returned, the traversal does not
   insert, destination and source are ascending *)
Definition zside_ok (tr : tkey -> bool) (zshape : list Z) (nz i : nat) (L : level) (body : body_t)
  (pt : list Z) (e : env) (z : thr) (zes : fib) : Prop :=
  zdesc zz_in pt = zes
  /\ th_z (snd (run_level tr zshape nz i L body e z)) = Some (Node (zdesc zz_out pt))
  /\ appending L zes e = true /\ ssorted_f zes /\ asc_src L e.

Lemma pop_fib_level_spec : forall zs n tr zshape nz i x u zu sh lv' pt e z zes (body : body_t) dz,
  length pt = i -> labinv i z -> th_z z = Some (Node zes) -> ftyp dz zes -> nz = (S i + dz)%nat ->
  let r := Z.of_nat i in
  let L := {| l_pop := true; l_src := SFib x; l_ufmt := u; l_zufmt := zu; l_proj := None; l_shape := sh |} in
  (tr (r, K_POP, 1) = true -> pos_ok L e x) ->
  (forall c e' z', labinv (S i) z' -> zty dz z' ->
     labinv (S i) (snd (body c e' z')) /\ zty dz (snd (body c e' z'))) ->
  (forall c e' z', labinv (S i) z' -> zty dz z' -> In (c, e') (ref_elems L e) ->
     spec zs tr n (S i) lv' (pt ++ [c]) e' (fst (body c e' z'))) ->
  (zs = true -> zside_ok tr zshape nz i L body pt e z zes) ->
  spec zs tr n i (L :: lv') pt e (fst (run_level tr zshape nz i L body e z))
  /\ labinv i (snd (run_level tr zshape nz i L body e z))
  /\ zty (S dz) (snd (run_level tr zshape nz i L body e z)).
Proof.
  intros zs n tr zshape nz i x u zu sh lv' pt e z zes body dz Lpt Hz Hzt Hft Hnz r L Hpos Hb Hbody HZ.
  destruct (pop_labels i z Hz) as (P1 & P2 & P3 & P4 & P5 & P6). fold r in P1, P2, P3, P4, P5, P6.
  unfold zside_ok in HZ.
  unfold run_level in HZ |- *. cbn [l_pop l_src l_proj l_ufmt l_zufmt l_shape L fst snd] in HZ |- *.
  rewrite Hzt in HZ |- *. fold r in HZ |- *.
  cbn [src_labels src_stream fst snd] in HZ |- *. rewrite P1, P2, P3. rewrite ?P1, ?P2, ?P3 in HZ.
  set (ls3 := snd (lab_get (snd (lab_get (snd (lab_reg (th_lab z) r)) r)) r)) in *.
  set (els := map (fun ct : Z * tree => (@nil mev, (fst ct, set_nth x (snd ct) e))) (offered_f u sh (sub e x))) in *.
  assert (Hzl : Nat.eqb (S i) nz = true -> dz = O) by (intros H; apply Nat.eqb_eq in H; lia).
  assert (Hzl2 : Nat.eqb (S i) nz = false -> (0 < dz)%nat) by (intros H; apply Nat.eqb_neq in H; lia).
  destruct (pop_level_core zs n tr i (SFib x) u zu sh lv' pt e body zes els [] ls3 (nth i zshape 0)
              (Nat.eqb (S i) nz) dz Lpt P4 Hft Hzl Hzl2 Hb Hbody) as (C1 & C2 & C3).
  - unfold els. apply Forall_forall. intros el Hin. apply in_map_iff in Hin. destruct Hin as (ct & <- & _). constructor.
  - constructor.
  - unfold els, ref_elems, ref_off, pcoord. cbn [l_src l_proj l_ufmt l_shape]. rewrite !map_map. reflexivity.
  - intros label _. unfold expect_at. cbn [l_pop l_src l_proj l_ufmt andb orb negb].
    assert (uses label (flat_map fst els ++ []) = []) as ->.
    { rewrite app_nil_r. unfold els. clear. induction (offered_f u sh (sub e x)); cbn; auto. }
    reflexivity.
  - intros Hbt. unfold expect_at. cbn [l_pop l_src l_proj l_ufmt andb orb negb].
    change (K_POP =? K_ITER) with false. change (K_POP =? K_INT) with false.
    change (K_POP =? K_POP) with true. change (1 =? 1) with true. cbn [andb].
    unfold ref_elems, ref_off, pcoord. cbn [l_src l_proj l_ufmt l_shape].
    rewrite enum_map', !map_map. symmetry. cbn [fst snd].
    rewrite (addr_enum (pos_in {| l_pop := true; l_src := SFib x; l_ufmt := u; l_zufmt := zu; l_proj := None; l_shape := sh |} e x)
                       pt (offered_f u sh (sub e x)) 0).
    + reflexivity.
    + intros j ct Hn. pose proof (Hpos Hbt j ct Hn) as Hq. unfold L in Hq. rewrite Hq. reflexivity.
  - intros Hzs. destruct (HZ Hzs) as (Zi & Zo & Happ & Hsz & Hasc). cbn [snd th_z] in Zo.
    split; [exact Zi|]. split; [|split; [exact Happ|split; [exact Hsz|exact Hasc]]].
    inversion Zo as [Zo']. reflexivity.
  - fold r in C1, C2, C3. cbn [reg_events map app]. cbn [app] in C1.
    split; [exact C1|split].
    + cbn [snd]. apply labinv_linv. cbn [th_lab]. apply linv_end. exact C2.
    + cbn [snd]. eexists. split; [reflexivity|]. apply ftyp_node. exact C3.
Qed.

Lemma flat_map_fst_map : forall {A B C} (g : list A * B -> C) (l : list (list A * B)),
  flat_map fst (map (fun pc => (fst pc, g pc)) l) = flat_map fst l.
Proof. induction l as [|pc l IH]; cbn; auto. rewrite IH. reflexivity. Qed.

(* ------------------------------------------------------------------ z_i << (x_i & y_i) *)
Lemma pop_and_level_spec : forall zs n tr zshape nz i x y u zu sh lv' pt e z zes (body : body_t) dz,
  length pt = i -> labinv i z -> th_z z = Some (Node zes) -> ftyp dz zes -> nz = (S i + dz)%nat ->
  let r := Z.of_nat i in
  let L := {| l_pop := true; l_src := SAnd x y; l_ufmt := u; l_zufmt := zu; l_proj := None; l_shape := sh |} in
  ssorted_f (ref_off L e x) -> ssorted_f (ref_off L e y) ->
  (tr (r, K_INT, 2) = true \/ tr (r, K_INT, 3) = true -> pos_ok L e x /\ pos_ok L e y) ->
  (forall c e' z', labinv (S i) z' -> zty dz z' ->
     labinv (S i) (snd (body c e' z')) /\ zty dz (snd (body c e' z'))) ->
  (forall c e' z', labinv (S i) z' -> zty dz z' -> In (c, e') (ref_elems L e) ->
     spec zs tr n (S i) lv' (pt ++ [c]) e' (fst (body c e' z'))) ->
  (zs = true -> zside_ok tr zshape nz i L body pt e z zes) ->
  spec zs tr n i (L :: lv') pt e (fst (run_level tr zshape nz i L body e z))
  /\ labinv i (snd (run_level tr zshape nz i L body e z))
  /\ zty (S dz) (snd (run_level tr zshape nz i L body e z)).
Proof.
  intros zs n tr zshape nz i x y u zu sh lv' pt e z zes body dz Lpt Hz Hzt Hft Hnz r L Hsx Hsy Hpos Hb Hbody HZ.
  destruct (pop_labels i z Hz) as (P1 & P2 & P3 & P4 & P5 & P6). fold r in P1, P2, P3, P4, P5, P6.
  unfold zside_ok in HZ.
  unfold run_level in HZ |- *. cbn [l_pop l_src l_proj l_ufmt l_zufmt l_shape L fst snd] in HZ |- *.
  rewrite Hzt in HZ |- *. fold r in HZ |- *.
  cbn [src_labels src_stream fst snd] in HZ |- *. rewrite P1, P2, P3. rewrite ?P1, ?P2, ?P3 in HZ.
  set (ls2 := snd (lab_get (snd (lab_get (snd (lab_reg (th_lab z) r)) r)) r)) in *.
  destruct (lab_get_val ls2 r 2 P5 (or_introl P6)) as (A1 & A2 & A3).
  destruct (lab_get_val (snd (lab_get ls2 r)) r 3 A3 (or_introl A2)) as (B1 & B2 & B3).
  destruct (lab_get_inv i ls2 P5) as (G1 & G2 & G3). fold r in G1, G2, G3.
  destruct (lab_get_inv i (snd (lab_get ls2 r)) G1) as (H1 & H2 & H3). fold r in H1, H2, H3.
  rewrite A1, B1. rewrite ?A1, ?B1 in HZ.
  set (ls3 := snd (lab_get (snd (lab_get ls2 r)) r)) in *.
  assert (Hls3 : linv (S i) ls3).
  { destruct P4 as [N4 C4]. split.
    - unfold noall in *. cbn [th_lab] in *. rewrite H2, G2. exact N4.
    - intros j Hj. unfold cz in *. cbn [th_lab] in *. rewrite H3, G3 by lia. apply (C4 j Hj). }
  set (xs := offered_f u sh (sub e x)) in *. set (ys := offered_f u sh (sub e y)) in *.
  change (ref_off L e x) with xs in *. change (ref_off L e y) with ys in *.
  set (ag := and_go r 2 3 (tr (r, K_INT, 2)) (tr (r, K_INT, 3)) xs ys 0 0 []) in *.
  set (els := map (fun pc : list mev * (Z * (tree * tree)) =>
                     (fst pc, (fst (snd pc), set_nth y (snd (snd (snd pc))) (set_nth x (fst (snd (snd pc))) e))))
                  (fst ag)) in *.
  assert (Hzl : Nat.eqb (S i) nz = true -> dz = O) by (intros H; apply Nat.eqb_eq in H; lia).
  assert (Hzl2 : Nat.eqb (S i) nz = false -> (0 < dz)%nat) by (intros H; apply Nat.eqb_neq in H; lia).
  destruct (and_go_events (srcP i) r 2 3 (tr (r, K_INT, 2)) (tr (r, K_INT, 3))) with (xs := xs) (ys := ys)
    (apos := 0) (bpos := 0) (pre := @nil mev) as [E1 E2]; try (intros; cbn; auto; fail); auto.
  fold ag in E1, E2.
  pose proof (and_go_yields r 2 3 (tr (r, K_INT, 2)) (tr (r, K_INT, 3)) xs Hsx ys Hsy 0 0 []) as HY. fold ag in HY.
  destruct (pop_level_core zs n tr i (SAnd x y) u zu sh lv' pt e body zes els (snd ag) ls3 (nth i zshape 0)
              (Nat.eqb (S i) nz) dz Lpt Hls3 Hft Hzl Hzl2 Hb Hbody) as (C1 & C2 & C3).
  - unfold els. apply Forall_forall. intros el Hin. apply in_map_iff in Hin. destruct Hin as (pc & <- & Hpc).
    cbn [fst]. rewrite Forall_forall in E1. apply (E1 _ Hpc).
  - exact E2.
  - rewrite (ref_elems_and {| l_pop := true; l_src := SAnd x y; l_ufmt := u; l_zufmt := zu; l_proj := None; l_shape := sh |}
                             x y e eq_refl).
    fold L. change (ref_off L e x) with xs. change (ref_off L e y) with ys.
    rewrite <- HY. unfold els. rewrite !map_map. reflexivity.
  - intros label Htr.
    assert (Hfm : flat_map fst els = flat_map fst (fst ag)).
    { unfold els. apply (flat_map_fst_map (fun pc : list mev * (Z * (tree * tree)) =>
        (fst (snd pc), set_nth y (snd (snd (snd pc))) (set_nth x (fst (snd (snd pc))) e)))). }
    rewrite Hfm. change (flat_map fst (fst ag) ++ snd ag) with (all_events ag). unfold ag.
    rewrite (and_src_rows i r 2 3 tr xs ys pt (pos_in L e x) (pos_in L e y) eq_refl ltac:(lia) Hsx Hsy label Htr).
    + unfold expect_at. cbn [l_pop l_src l_proj l_ufmt andb orb negb].
      change (K_INT =? K_ITER) with false. change (K_INT =? K_INT) with true. cbn [andb].
      change (2 + 1) with 3. reflexivity.
    + intros [-> | ->]; [apply Hpos; left; exact Htr|apply Hpos; right; exact Htr].
  - intros Hbt. unfold expect_at. cbn [l_pop l_src l_proj l_ufmt andb orb negb].
    change (K_POP =? K_ITER) with false. change (K_POP =? K_INT) with false.
    change (K_POP =? K_POP) with true. change (1 =? 1) with true. cbn [andb]. reflexivity.
  - intros Hzs. destruct (HZ Hzs) as (Zi & Zo & Happ & Hsz & Hasc). cbn [snd th_z] in Zo.
    split; [exact Zi|]. split; [|split; [exact Happ|split; [exact Hsz|exact Hasc]]].
    inversion Zo as [Zo']. reflexivity.
  - fold r in C1, C2, C3. cbn [reg_events map app]. cbn [app] in C1.
    split; [exact C1|split].
    + cbn [snd]. apply labinv_linv. cbn [th_lab]. apply linv_end. exact C2.
    + cbn [snd]. eexists. split; [reflexivity|]. apply ftyp_node. exact C3.
Qed.

(* ------------------------------------------------------------------ invariants threaded through
   a nest with a populate prefix: label state and typing of the populated tree *)
Definition lvl_ok (L : level) : bool :=
  match l_proj L with None => true | Some _ => false end
  && match l_src L with SFib _ => true | SAnd x y => negb (Nat.eqb x y) end.

Lemma src_labels_linv : forall i ls s, linv (S i) ls -> memZ (Z.of_nat i) (lb_reg ls) = true ->
  linv (S i) (snd (src_labels ls (Z.of_nat i) s)).
Proof.
  intros i ls s H Hm. destruct s as [x|x y]; cbn [src_labels snd]; auto.
  destruct (lab_get_inv i ls Hm) as (G1 & G2 & G3).
  destruct (lab_get_inv i (snd (lab_get ls (Z.of_nat i))) G1) as (H1 & H2 & H3).
  destruct H as [N C]. split.
  - unfold noall in *. cbn [th_lab] in *. rewrite H2, G2. exact N.
  - intros j Hj. unfold cz in *. cbn [th_lab] in *. rewrite H3, G3 by lia. apply (C j Hj).
Qed.

Lemma pop_level_inv : forall tr zshape nz i L (body : body_t) e z zes dz,
  l_pop L = true -> l_proj L = None ->
  labinv i z -> th_z z = Some (Node zes) -> ftyp dz zes -> nz = (S i + dz)%nat ->
  (forall c e' z', labinv (S i) z' -> zty dz z' ->
     labinv (S i) (snd (body c e' z')) /\ zty dz (snd (body c e' z'))) ->
  labinv i (snd (run_level tr zshape nz i L body e z))
  /\ zty (S dz) (snd (run_level tr zshape nz i L body e z)).
Proof.
  intros tr zshape nz i L body e z zes dz Hp Hj Hz Hzt Hft Hnz Hb.
  destruct (pop_labels i z Hz) as (P1 & P2 & P3 & P4 & P5 & P6).
  unfold run_level. rewrite Hj, Hp, Hzt. cbn [fst snd].
  set (r := Z.of_nat i) in *.
  set (ls2 := snd (lab_get (snd (lab_get (snd (lab_reg (th_lab z) r)) r)) r)) in *.
  pose proof (src_labels_linv i ls2 (l_src L) P4 P5) as Hl3. fold r in Hl3.
  assert (Hzl : Nat.eqb (S i) nz = true -> dz = O) by (intros H; apply Nat.eqb_eq in H; lia).
  assert (Hzl2 : Nat.eqb (S i) nz = false -> (0 < dz)%nat) by (intros H; apply Nat.eqb_neq in H; lia).
  match goal with |- context [pop_loop r ?la ?lb ?rt ?wt ?bt ?zl ?cm ?ip body ?els 0 ?st ?ls] =>
    destruct (pop_loop_facts i la lb rt wt bt zl cm ip body [] dz Hzl Hzl2 Hb els 0 st ls Hl3 Hft)
      as (_ & _ & _ & F4 & F5) end.
  fold r in F4, F5. split.
  - apply labinv_linv. cbn [th_lab]. apply linv_end. exact F4.
  - eexists. split; [reflexivity|]. apply ftyp_node. exact F5.
Qed.

Lemma eager_zty : forall tr zshape nz m lv, forallb eager_level lv = true ->
  forall i pt e z, zty 0 z -> zty 0 (snd (run tr zshape nz m lv i pt e z)).
Proof.
  intros tr zshape nz m lv. induction lv as [|L lv IH]; intros Hpl i pt e z Hz.
  - cbn [run snd]. unfold leaf_update. destruct Hz as (t & Ht & Hd). rewrite Ht.
    destruct t as [v|es]; [|discriminate]. destruct (skip_pt m pt); [exists (Leaf v); rewrite Ht; auto|].
    exists (Leaf (v + 1)). split; reflexivity.
  - cbn [forallb] in Hpl. apply andb_true_iff in Hpl. destruct Hpl as [HL Hpl].
    destruct L as [pop s u zu pj sh]. unfold eager_level in HL. cbn [l_pop l_src l_ufmt l_proj] in HL.
    destruct pop; [discriminate|]. destruct pj; [discriminate|].
    assert (Hb : forall c e' z', zty 0 z' ->
              zty 0 (snd ((fun c0 e0 z0 => run tr zshape nz m lv (S i) (pt ++ [c0]) e0 z0) c e' z'))).
    { intros c e' z' Hz'. apply IH; auto. }
    cbn [run]. unfold run_level. cbn [l_pop l_src l_proj l_ufmt l_shape fst snd].
    assert (Hz1 : forall ls, zty 0 (with_lab z ls)) by (intros ls; exact Hz).
    destruct s as [x|x y].
    + destruct u; cbn [negb snd].
      * destruct (iter_plain_all_facts (zty 0) x e _ pt (dense sh (sub e x)) 0 _ Hb (Hz1 (snd (lab_reg (th_lab z) (Z.of_nat i)))))
          as (_ & _ & _ & F4). exact F4.
      * destruct (iter_plain_facts (zty 0) x e _ pt (sub e x) 0 _ Hb (Hz1 (snd (lab_reg (th_lab z) (Z.of_nat i)))))
          as (_ & _ & _ & F4). exact F4.
    + cbn [src_labels src_stream fst snd].
      match goal with |- zty 0 (with_lab (snd (iter_lazy ?b ?els 0 ?z0)) _) =>
        destruct (iter_lazy_facts (zty 0) b pt els 0 z0 Hb (Hz1 _)) as (_ & _ & _ & F4); exact F4 end.
Qed.

Fixpoint pnest (lv : list level) : bool :=
  match lv with
  | [] => true
  | L :: lv' => lvl_ok L && if l_pop L then pnest lv' else forallb eager_level (L :: lv')
  end.

Lemma pnest_inv : forall tr zshape m lv, pnest lv = true ->
  forall nz i pt e z, nz = (i + n_pop lv)%nat -> labinv i z -> zty (n_pop lv) z ->
  labinv i (snd (run tr zshape nz m lv i pt e z)) /\ zty (n_pop lv) (snd (run tr zshape nz m lv i pt e z)).
Proof.
  intros tr zshape m lv. induction lv as [|L lv IH]; intros Hp nz i pt e z Hnz Hz Hzt.
  - cbn [n_pop] in *. split.
    + cbn [run snd]. unfold leaf_update. destruct (th_z z) as [[v|es]|]; auto. destruct (skip_pt m pt); auto.
    + apply (eager_zty tr zshape nz m [] eq_refl i pt e z Hzt).
  - cbn [pnest] in Hp. apply andb_true_iff in Hp. destruct Hp as [Hok Hp].
    cbn [n_pop] in *. destruct (l_pop L) eqn:EP.
    + (* populate level *)
      destruct Hzt as (t & Ht & Hd). destruct (depth_node _ _ Hd) as (zes & -> & Hft).
      unfold lvl_ok in Hok. apply andb_true_iff in Hok. destruct Hok as [Hpj _].
      assert (Hj : l_proj L = None) by (destruct (l_proj L); [discriminate|reflexivity]).
      cbn [run]. apply (pop_level_inv tr zshape nz i L _ e z zes (n_pop lv) EP Hj Hz Ht Hft ltac:(lia)).
      intros c e' z' Hz' Hzt'. apply IH; auto. lia.
    + split.
      * apply (eager_noall tr zshape nz m (L :: lv) Hp i pt e z Hz).
      * apply (eager_zty tr zshape nz m (L :: lv) Hp i pt e z Hzt).
Qed.

(* ------------------------------------------------------------------ the nest theorem with a
   populate prefix *)
Definition lvl_pos_ok (tr : tkey -> bool) (i : nat) (L : level) (e : env) : Prop :=
  match l_src L with
  | SAnd x y =>
    let base := if l_pop L then 2 else 0 in
    (tr (Z.of_nat i, K_INT, base) = true \/ tr (Z.of_nat i, K_INT, base + 1) = true) ->
    l_ufmt L = true \/ (noemp (nth x e (Node [])) /\ noemp (nth y e (Node [])))
  | SFib x =>
    l_pop L = true -> tr (Z.of_nat i, K_POP, 1) = true -> l_ufmt L = true \/ noemp (nth x e (Node []))
  end.

(* where an intersect_<l> / populate_<source> trace is registered, the operands it addresses are
   uncompressed or store no empty element: the complement of known-finding region 1 *)
Definition nest_pos_ok (tr : tkey -> bool) (i : nat) (lv : list level) (e : env) : Prop :=
  forall k L, nth_error lv k = Some L -> lvl_pos_ok tr (i + k) L e.

Lemma lvl_pos_ok_cleaner : forall tr i L e e', lvl_pos_ok tr i L e -> cleaner e e' -> lvl_pos_ok tr i L e'.
Proof.
  intros tr i L e e' H Hc. unfold lvl_pos_ok in *. destruct (l_src L) as [x|x y].
  - intros Hp Ht. destruct (H Hp Ht) as [Hu|Hx]; auto.
  - cbv zeta in *. intros Hn. destruct (H Hn) as [Hu|[Hx Hy]]; auto.
Qed.

Lemma nest_pos_ok_down : forall tr i L lv e e', nest_pos_ok tr i (L :: lv) e -> cleaner e e' ->
  nest_pos_ok tr (S i) lv e'.
Proof.
  intros tr i L lv e e' H Hc k L' Hn. replace (S i + k)%nat with (i + S k)%nat by lia.
  eapply lvl_pos_ok_cleaner; [|exact Hc]. apply H. exact Hn.
Qed.

Lemma pos_ok_int : forall tr i lv e, forallb eager_level lv = true -> nest_pos_ok tr i lv e ->
  nest_int_ok tr i lv e.
Proof.
  intros tr i lv e Heg H k L x y Hn Hs Hi. specialize (H k L Hn). unfold lvl_pos_ok in H. rewrite Hs in H.
  assert (Hp : l_pop L = false).
  { rewrite forallb_forall in Heg. specialize (Heg L (nth_error_In _ _ Hn)). unfold eager_level in Heg.
    destruct (l_pop L); [discriminate|reflexivity]. }
  rewrite Hp in H. cbv zeta in H. apply H. exact Hi.
Qed.

Lemma ref_elems_child : forall L e c e', lvl_ok L = true -> env_ok e -> In (c, e') (ref_elems L e) ->
  env_ok e' /\ cleaner e e'.
Proof.
  intros L e c e' Hok He Hin. unfold lvl_ok in Hok. apply andb_true_iff in Hok. destruct Hok as [Hj Hxy].
  unfold ref_elems in Hin. destruct (l_src L) as [x|x y] eqn:Es.
  - apply in_map_iff in Hin. destruct Hin as ([c0 t] & E & Hin). inversion E; subst. cbn [fst snd].
    destruct (ref_off_ok L e x He) as [_ Hs]. rewrite Forall_forall in Hs. split.
    + apply set_nth_ok; auto. apply (Hs _ Hin).
    + apply cleaner_set. intros Hx. unfold ref_off in Hin.
      apply (offered_f_child (l_ufmt L) (l_shape L) (sub e x) c0 t (sub_noemp e x Hx) Hin).
  - apply in_flat_map in Hin. destruct Hin as ([c0 tx] & Hinx & Hm). cbn [fst snd] in Hm.
    destruct (lookup c0 (ref_off L e y)) as [ty|] eqn:El; [|destruct Hm]. destruct Hm as [Hm|[]]. inversion Hm; subst.
    destruct (lookup_In _ _ _ El) as [c2 Hin2].
    destruct (ref_off_ok L e x He) as [_ Hsx]. destruct (ref_off_ok L e y He) as [_ Hsy].
    rewrite Forall_forall in Hsx, Hsy. split.
    + apply set_nth_ok; [apply set_nth_ok; auto; apply (Hsx _ Hinx)|apply (Hsy _ Hin2)].
    + eapply cleaner_trans.
      * apply (cleaner_set e x tx). intros Hx. unfold ref_off in Hinx.
        apply (offered_f_child (l_ufmt L) (l_shape L) (sub e x) c tx (sub_noemp e x Hx) Hinx).
      * apply cleaner_set. intros Hy.
        assert (Hy0 : noemp (nth y e (Node []))).
        { rewrite nth_set_nth in Hy. rewrite Nat.eqb_sym in Hy. destruct (Nat.eqb x y); [discriminate|]. exact Hy. }
        unfold ref_off in Hin2.
        apply (offered_f_child (l_ufmt L) (l_shape L) (sub e y) c2 ty (sub_noemp e y Hy0) Hin2).
Qed.

Theorem pnest_spec_gen : forall n tr zshape m lv, pnest lv = true ->
  forall nz i pt e z, length pt = i -> nz = (i + n_pop lv)%nat -> labinv i z -> zty (n_pop lv) z ->
  env_ok e -> nest_pos_ok tr i lv e ->
  spec false tr n i lv pt e (fst (run tr zshape nz m lv i pt e z)).
Proof.
  intros n tr zshape m lv. induction lv as [|L lv IH]; intros Hp nz i pt e z Lpt Hnz Hz Hzt He Hpo.
  - apply (plain_nest_spec_gen false n tr zshape nz m [] eq_refl i pt e z Lpt Hz).
  - cbn [pnest] in Hp. apply andb_true_iff in Hp. destruct Hp as [Hok Hp].
    cbn [n_pop] in *. destruct (l_pop L) eqn:EP.
    + (* populate level *)
      destruct Hzt as (t & Ht & Hd). destruct (depth_node _ _ Hd) as (zes & -> & Hft).
      pose proof Hok as Hok'. unfold lvl_ok in Hok'. apply andb_true_iff in Hok'. destruct Hok' as [Hpj Hxy].
      destruct L as [pop s u zu pj sh]. cbn [l_pop l_proj l_src] in *. subst pop.
      destruct pj; [discriminate|].
      assert (Hb : forall c e' z', labinv (S i) z' -> zty (n_pop lv) z' ->
                labinv (S i) (snd (run tr zshape nz m lv (S i) (pt ++ [c]) e' z'))
                /\ zty (n_pop lv) (snd (run tr zshape nz m lv (S i) (pt ++ [c]) e' z'))).
      { intros c e' z' Hz' Hzt'. apply pnest_inv; auto. lia. }
      assert (Hbody : forall c e' z', labinv (S i) z' -> zty (n_pop lv) z' ->
                In (c, e') (ref_elems {| l_pop := true; l_src := s; l_ufmt := u; l_zufmt := zu; l_proj := None; l_shape := sh |} e) ->
                spec false tr n (S i) lv (pt ++ [c]) e' (fst (run tr zshape nz m lv (S i) (pt ++ [c]) e' z'))).
      { intros c e' z' Hz' Hzt' Hin. destruct (ref_elems_child _ e c e' Hok He Hin) as [He' Hcl].
        apply IH; auto.
        - rewrite app_length. cbn. lia.
        - lia.
        - eapply nest_pos_ok_down; eauto. }
      pose proof (Hpo O _ eq_refl) as Hp0. unfold lvl_pos_ok in Hp0. cbn [l_src l_pop l_ufmt] in Hp0.
      replace (i + 0)%nat with i in Hp0 by lia.
      cbn [run]. destruct s as [x|x y].
      * apply (pop_fib_level_spec false n tr zshape nz i x u zu sh lv pt e z zes _ (n_pop lv) Lpt Hz Ht Hft ltac:(lia)); auto;
          [|discriminate].
        intros Hbt. apply pos_ok_of; auto.
      * cbv zeta in Hp0.
        apply (pop_and_level_spec false n tr zshape nz i x y u zu sh lv pt e z zes _ (n_pop lv) Lpt Hz Ht Hft ltac:(lia)); auto;
          [| | |discriminate].
        { apply (ref_off_ok _ e x He). }
        { apply (ref_off_ok _ e y He). }
        { intros Hn. destruct (Hp0 Hn) as [Hu|[Hx Hy]]; split; apply pos_ok_of; auto. }
    + apply (eager_nest_spec false n tr zshape nz m (L :: lv) Hp i pt e z Lpt Hz He).
      apply pos_ok_int; auto.
Qed.


(* ---- ascending coordinates of the reference elements (sorted inputs) ---- *)
Lemma inc_from_and : forall (ys : fib) (g : Z * tree -> tree -> env) xs c, all_gt c xs -> ssorted_f xs ->
  inc_from c (map fst (flat_map (fun ct => match lookup (fst ct) ys with
                                            | Some ty => [(fst ct, g ct ty)] | None => [] end) xs)).
Proof.
  intros ys g xs. induction xs as [|[c' t'] xs IH]; intros c Hg Hs; [exact I|].
  destruct Hg as [H1 H2]. destruct Hs as [Hs1 Hs2]. cbn [flat_map fst].
  destruct (lookup c' ys); cbn [app map fst].
  - split; [exact H1|]. apply IH; auto.
  - apply IH; auto.
Qed.

Lemma asc_src_ok : forall L e, env_ok e -> l_proj L = None -> asc_src L e.
Proof.
  intros L e He Hj. unfold asc_src, ref_elems, pcoord. rewrite Hj. destruct (l_src L) as [x|x y].
  - rewrite map_map. cbn [fst]. destruct (ref_off_ok L e x He) as [Hso _].
    destruct (ref_off L e x) as [|[c0 t0] rest]; [exact I|]. destruct Hso as [Hg Hso].
    cbn [map fst]. apply all_gt_inc; auto.
  - destruct (ref_off_ok L e x He) as [Hso _]. induction (ref_off L e x) as [|[c0 t0] rest IH]; [exact I|].
    destruct Hso as [Hg Hso]. cbn [flat_map fst]. destruct (lookup c0 (ref_off L e y)); cbn [app map fst].
    + apply (inc_from_and (ref_off L e y) (fun ct ty => set_nth y ty (set_nth x (snd ct) e))); auto.
    + apply IH; auto.
Qed.

(* ---- a nest whose populate prefix is its first level only: the whole specification incl. the
   destination side (zs = true) when the root traversal does not insert ---- *)
Theorem pop1_spec : forall zs n tr zshape m L lv e zes,
  lvl_ok L = true -> l_pop L = true -> forallb eager_level lv = true ->
  ftyp 0 zes -> env_ok e -> nest_pos_ok tr 0 (L :: lv) e ->
  let z := {| th_z := Some (Node zes); th_lab := lab0 |} in
  (zs = true -> zside_ok tr zshape 1 0 L (fun c e' z' => run tr zshape 1 m lv 1 ([] ++ [c]) e' z') [] e z zes) ->
  spec zs tr n 0 (L :: lv) [] e (fst (run tr zshape 1 m (L :: lv) 0 [] e z)).
Proof.
  intros zs n tr zshape m L lv e zes Hok EP Hp Hft He Hpo z HZ.
  pose proof Hok as Hok'. unfold lvl_ok in Hok'. apply andb_true_iff in Hok'. destruct Hok' as [Hpj Hxy].
  destruct L as [pop s u zu pj sh]. cbn [l_pop l_proj l_src] in *. subst pop.
  destruct pj; [discriminate|].
  assert (Hz : labinv 0 z) by apply labinv0.
  assert (Hb : forall c e' z', labinv 1 z' -> zty 0 z' ->
            labinv 1 (snd (run tr zshape 1 m lv 1 ([] ++ [c]) e' z'))
            /\ zty 0 (snd (run tr zshape 1 m lv 1 ([] ++ [c]) e' z'))).
  { intros c e' z' Hz' Hzt'. split; [apply eager_noall; auto|apply eager_zty; auto]. }
  assert (Hbody : forall c e' z', labinv 1 z' -> zty 0 z' ->
            In (c, e') (ref_elems {| l_pop := true; l_src := s; l_ufmt := u; l_zufmt := zu; l_proj := None; l_shape := sh |} e) ->
            spec zs tr n 1 lv ([] ++ [c]) e' (fst (run tr zshape 1 m lv 1 ([] ++ [c]) e' z'))).
  { intros c e' z' Hz' Hzt' Hin. destruct (ref_elems_child _ e c e' Hok He Hin) as [He' Hcl].
    apply (eager_nest_spec zs n tr zshape 1 m lv Hp 1%nat ([] ++ [c]) e' z' eq_refl Hz' He').
    apply pos_ok_int; auto. eapply nest_pos_ok_down; eauto. }
  pose proof (Hpo O _ eq_refl) as Hp0. unfold lvl_pos_ok in Hp0. cbn [l_src l_pop l_ufmt] in Hp0.
  cbn [plus] in Hp0.
  cbn [run]. destruct s as [x|x y].
  - apply (pop_fib_level_spec zs n tr zshape 1 0 x u zu sh lv [] e z zes _ 0%nat eq_refl Hz eq_refl Hft eq_refl); auto.
    intros Hbt. apply pos_ok_of; auto.
  - cbv zeta in Hp0.
    apply (pop_and_level_spec zs n tr zshape 1 0 x y u zu sh lv [] e z zes _ 0%nat eq_refl Hz eq_refl Hft eq_refl); auto.
    + apply (ref_off_ok _ e x He).
    + apply (ref_off_ok _ e y He).
    + intros Hn. destruct (Hp0 Hn) as [Hu|[Hx Hy]]; split; apply pos_ok_of; auto.
Qed.

End WithZZ.
