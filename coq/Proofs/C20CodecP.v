(* Proofs about Model/C20Codec.v and the layout decoder of Model/C20CodecCheck.v (C20). *)
From Coq Require Import ZArith List Bool Lia.
From FT Require Import Model.Base Model.Obs Model.C20Codec Model.C20CodecCheck.
Import ListNotations.
Open Scope Z_scope.

(* ------------------------------------------------------------------ arrays of an output *)
Definition c20_arrs (o : c20_out) : c20_arr := map (fun r => (rk_coords r, rk_pays r)) o.

Fixpoint c20_aapp (a b : c20_arr) : c20_arr :=
  match a, b with
  | [], _ => b
  | _, [] => a
  | (c1, p1) :: a', (c2, p2) :: b' => (c1 ++ c2, p1 ++ p2) :: c20_aapp a' b'
  end.

Definition c20_blank_arr (n : nat) : c20_arr := repeat ([], []) n.

Lemma arrs_oapp a : forall b, c20_arrs (c20_oapp a b) = c20_aapp (c20_arrs a) (c20_arrs b).
Proof.
  induction a as [|x a IH]; intros [|y b]; simpl; try reflexivity.
  rewrite IH. reflexivity.
Qed.

Lemma aapp_assoc a : forall b c, c20_aapp (c20_aapp a b) c = c20_aapp a (c20_aapp b c).
Proof.
  induction a as [|[c1 p1] a IH]; intros [|[c2 p2] b] [|[c3 p3] c]; simpl; try reflexivity.
  rewrite IH, !app_assoc. reflexivity.
Qed.

Lemma aapp_len a : forall b, length a = length b -> length (c20_aapp a b) = length b.
Proof.
  induction a as [|[c1 p1] a IH]; intros [|[c2 p2] b] H; simpl in *; try congruence.
  rewrite IH; congruence.
Qed.

Lemma aapp_blank b : c20_aapp (c20_blank_arr (length b)) b = b.
Proof.
  induction b as [|[c p] b IH]; simpl; [reflexivity|]. unfold c20_blank_arr in IH. rewrite IH.
  reflexivity.
Qed.

Lemma arrs_blank fs : c20_arrs (c20_blank fs) = c20_blank_arr (length fs).
Proof. induction fs; simpl; [reflexivity|]. unfold c20_blank_arr in *. rewrite IHfs. reflexivity. Qed.

Lemma blank_arr_len n : length (c20_blank_arr n) = n.
Proof. apply repeat_length. Qed.

(* ------------------------------------------------------------------ list helpers *)
Lemma len_app {A} (a b : list A) : c20_len (a ++ b) = c20_len a + c20_len b.
Proof. unfold c20_len. rewrite app_length. lia. Qed.

Lemma len_nonneg {A} (a : list A) : 0 <= c20_len a.
Proof. unfold c20_len. lia. Qed.

Lemma len_map {A B} (f : A -> B) l : c20_len (map f l) = c20_len l.
Proof. unfold c20_len. rewrite map_length. reflexivity. Qed.

Lemma firstn_exact a b : c20_firstn (c20_len a) (a ++ b) = a.
Proof.
  unfold c20_firstn, c20_len. rewrite Nat2Z.id.
  rewrite firstn_app, Nat.sub_diag, firstn_all. simpl. apply app_nil_r.
Qed.

Lemma skipn_exact a b : c20_skipn (c20_len a) (a ++ b) = b.
Proof.
  unfold c20_skipn, c20_len. rewrite Nat2Z.id.
  rewrite skipn_app, Nat.sub_diag, skipn_all. reflexivity.
Qed.

Lemma enough_exact a b : c20_enough (c20_len a) (a ++ b) = true.
Proof.
  unfold c20_enough. rewrite len_app. pose proof (len_nonneg a). pose proof (len_nonneg b).
  apply andb_true_iff. split; apply Z.leb_le; lia.
Qed.

Lemma firstn_exact' n a b : c20_len a = n -> c20_firstn n (a ++ b) = a.
Proof. intros <-. apply firstn_exact. Qed.
Lemma skipn_exact' n a b : c20_len a = n -> c20_skipn n (a ++ b) = b.
Proof. intros <-. apply skipn_exact. Qed.
Lemma enough_exact' n a b : c20_len a = n -> c20_enough n (a ++ b) = true.
Proof. intros <-. apply enough_exact. Qed.

Lemma combine_map_fst_snd {A B} (l : list (A * B)) : combine (map fst l) (map snd l) = l.
Proof. induction l as [|[a b] l IH]; simpl; congruence. Qed.

Lemma combine_map_r {A B} (f : A -> B) l : combine l (map f l) = map (fun i => (i, f i)) l.
Proof. induction l; simpl; congruence. Qed.

Lemma diffs_cumul l : forall a, c20_diffs a (c20_cumul a l) = l.
Proof.
  induction l as [|x l IH]; intros a; simpl; [reflexivity|].
  rewrite IH. f_equal. lia.
Qed.

Lemma cumul_len l : forall a, c20_len (c20_cumul a l) = c20_len l.
Proof.
  induction l as [|x l IH]; intros a; cbn [c20_cumul]; [reflexivity|].
  unfold c20_len in *. cbn [length]. rewrite !Nat2Z.inj_succ, (IH (a + x)). reflexivity.
Qed.

Lemma range_len d : 0 <= d -> c20_len (c20_range d) = d.
Proof.
  intros H. unfold c20_len, c20_range, iota. rewrite map_length, seq_length. lia.
Qed.

Lemma range_len' d : c20_len (c20_range d) = Z.max 0 d.
Proof.
  unfold c20_len, c20_range, iota. rewrite map_length, seq_length. lia.
Qed.

(* ------------------------------------------------------------------ ascending coordinates *)
Lemma asc_weaken lo lo' hi cs : lo' <= lo -> c20_asc lo hi cs = true -> c20_asc lo' hi cs = true.
Proof.
  destruct cs as [|c cs]; simpl; [reflexivity|]. intros Hl H.
  apply andb_true_iff in H. destruct H as [H H2]. apply andb_true_iff in H. destruct H as [H0 H1].
  rewrite H2, H1. apply Z.leb_le in H0. replace (lo' <=? c) with true; [reflexivity|].
  symmetry. apply Z.leb_le. lia.
Qed.

Lemma asc_cons lo hi c cs :
  c20_asc lo hi (c :: cs) = true -> lo <= c < hi /\ c20_asc (c + 1) hi cs = true.
Proof.
  simpl. intros H. apply andb_true_iff in H. destruct H as [H H2].
  apply andb_true_iff in H. destruct H as [H0 H1].
  apply Z.leb_le in H0. apply Z.ltb_lt in H1. auto.
Qed.

Lemma asc_filter {A} (p : Z * A -> bool) (es : list (Z * A)) : forall lo hi,
  c20_asc lo hi (map fst es) = true -> c20_asc lo hi (map fst (filter p es)) = true.
Proof.
  induction es as [|[c t] es IH]; intros lo hi H; [reflexivity|].
  cbn [map fst] in H. apply asc_cons in H. destruct H as [Hc H].
  cbn [filter]. destruct (p (c, t)).
  - cbn [map fst c20_asc]. rewrite (IH _ _ H).
    replace (lo <=? c) with true by (symmetry; apply Z.leb_le; lia).
    replace (c <? hi) with true by (symmetry; apply Z.ltb_lt; lia). reflexivity.
  - apply (asc_weaken (c + 1)); [lia|]. apply IH, H.
Qed.

Lemma asc_lookup_none (es : fib) : forall lo hi a,
  c20_asc lo hi (map fst es) = true -> a < lo -> lookup a es = None.
Proof.
  induction es as [|[c t] es IH]; intros lo hi a H Ha; [reflexivity|].
  cbn [map fst] in H. apply asc_cons in H. destruct H as [Hc H].
  cbn [lookup]. replace (a =? c) with false by (symmetry; apply Z.eqb_neq; lia).
  apply (IH (c + 1) hi); [assumption|lia].
Qed.

Lemma asc_mem_false cs : forall lo hi a,
  c20_asc lo hi cs = true -> a < lo -> c20_mem a cs = false.
Proof.
  induction cs as [|c cs IH]; intros lo hi a H Ha; [reflexivity|].
  apply asc_cons in H. destruct H as [Hc H]. unfold c20_mem in *. cbn [existsb].
  replace (a =? c) with false by (symmetry; apply Z.eqb_neq; lia).
  apply (IH (c + 1) hi); [assumption|lia].
Qed.

(* ------------------------------------------------------------------ content lemmas *)
Definition c20_pref (c : Z) (pv : list Z * Z) : list Z * Z := (c :: fst pv, snd pv).

Definition c20_econtent (es : fib) : list (list Z * Z) :=
  flat_map (fun ct => map (c20_pref (fst ct)) (content 0 (snd ct))) es.

Lemma content_node es : content 0 (Node es) = c20_econtent es.
Proof. reflexivity. Qed.

Lemma empty_content : forall t, is_empty 0 t = true -> content 0 t = [].
Proof.
  induction t as [v|es IH] using tree_ind'; simpl; intros H.
  - rewrite H. reflexivity.
  - induction es as [|[c t] es IHes]; [reflexivity|].
    simpl in H. apply andb_true_iff in H. destruct H as [H1 H2].
    inversion IH as [|? ? Ht Hes]; subst. simpl in Ht. simpl.
    rewrite (Ht H1), (IHes Hes H2). reflexivity.
Qed.

Lemma content_present es : c20_econtent (present 0 es) = c20_econtent es.
Proof.
  unfold c20_econtent, present.
  induction es as [|[c t] es IH]; [reflexivity|]. cbn [filter flat_map snd fst].
  destruct (is_empty 0 t) eqn:E; cbn [negb].
  - rewrite (empty_content _ E). simpl. exact IH.
  - cbn [flat_map snd fst]. rewrite IH. reflexivity.
Qed.

(* the content of a node depends only on the coordinates and the sub-contents *)
Lemma econtent_combine cs : forall Ts ks,
  Forall2 (fun T k => content 0 T = content 0 k) Ts ks ->
  c20_econtent (combine cs Ts) = c20_econtent (combine cs ks).
Proof.
  induction cs as [|c cs IH]; intros Ts ks H; [reflexivity|].
  destruct H as [|T k Ts ks HT H]; [reflexivity|].
  unfold c20_econtent in *. cbn [combine flat_map fst snd]. rewrite HT, (IH _ _ H). reflexivity.
Qed.

(* dense walk over positions = the stored elements *)
Lemma dense_content (X : Z -> tree) n : forall a es,
  c20_asc (Z.of_nat a) (Z.of_nat (a + n)) (map fst es) = true ->
  (forall i, Z.of_nat a <= i -> content 0 (X i) = content 0 (c20_sub_at i es)) ->
  c20_econtent (map (fun i => (i, X i)) (map Z.of_nat (seq a n))) = c20_econtent es.
Proof.
  induction n as [|n IH]; intros a es Hasc HX.
  - destruct es as [|[c t] es]; [reflexivity|].
    cbn [map fst] in Hasc. apply asc_cons in Hasc. lia.
  - cbn [seq map]. unfold c20_econtent at 1. cbn [flat_map fst snd].
    fold (c20_econtent (map (fun i => (i, X i)) (map Z.of_nat (seq (S a) n)))).
    destruct es as [|[c t] es].
    + rewrite HX by lia. unfold c20_sub_at. cbn [lookup]. cbn [content flat_map map app].
      apply (IH (S a) []); [reflexivity|]. intros i Hi. rewrite HX by lia. reflexivity.
    + cbn [map fst] in Hasc. pose proof (asc_cons _ _ _ _ Hasc) as [Hc Hrest].
      destruct (Z.eq_dec c (Z.of_nat a)) as [->|Hne].
      * rewrite HX by lia. unfold c20_sub_at at 1. cbn [lookup]. rewrite Z.eqb_refl.
        unfold c20_econtent at 2. cbn [flat_map fst snd]. f_equal.
        apply (IH (S a) es).
        -- replace (Z.of_nat (S a)) with (Z.of_nat a + 1) by lia.
           replace (S a + n)%nat with (a + S n)%nat by lia. exact Hrest.
        -- intros i Hi. rewrite HX by lia. unfold c20_sub_at. cbn [lookup].
           replace (i =? Z.of_nat a) with false by (symmetry; apply Z.eqb_neq; lia).
           reflexivity.
      * rewrite HX by lia. unfold c20_sub_at at 1.
        rewrite (asc_lookup_none ((c, t) :: es) (Z.of_nat a + 1) (Z.of_nat (a + S n)) (Z.of_nat a)).
        -- cbn [content flat_map map app].
           apply (IH (S a) ((c, t) :: es)).
           ++ replace (Z.of_nat (S a)) with (Z.of_nat a + 1) by lia.
              replace (S a + n)%nat with (a + S n)%nat by lia.
              apply (asc_weaken c); [lia|].
              cbn [map fst c20_asc]. rewrite Hrest.
              replace (c <=? c) with true by (symmetry; apply Z.leb_le; lia).
              replace (c <? Z.of_nat (a + S n)) with true by (symmetry; apply Z.ltb_lt; lia).
              reflexivity.
           ++ intros i Hi. apply HX. lia.
        -- cbn [map fst c20_asc]. rewrite Hrest.
           replace (Z.of_nat a + 1 <=? c) with true by (symmetry; apply Z.leb_le; lia).
           replace (c <? Z.of_nat (a + S n)) with true by (symmetry; apply Z.ltb_lt; lia).
           reflexivity.
        -- lia.
Qed.

(* ------------------------------------------------------------------ bit masks *)
Lemma asc_weaken_hi cs : forall lo hi hi', hi <= hi' -> c20_asc lo hi cs = true ->
  c20_asc lo hi' cs = true.
Proof.
  induction cs as [|c cs IH]; intros lo hi hi' Hh H; [reflexivity|].
  apply asc_cons in H. destruct H as [Hc H]. cbn [c20_asc]. rewrite (IH _ _ _ Hh H).
  replace (lo <=? c) with true by (symmetry; apply Z.leb_le; lia).
  replace (c <? hi') with true by (symmetry; apply Z.ltb_lt; lia). reflexivity.
Qed.

Lemma asc_to_nat cs dim : c20_asc 0 dim cs = true ->
  c20_asc (Z.of_nat 0) (Z.of_nat (0 + Z.to_nat dim)) cs = true.
Proof. intros H. apply (asc_weaken_hi cs 0 dim); [lia|exact H]. Qed.

Lemma filter_mem_seq n : forall a cs,
  c20_asc (Z.of_nat a) (Z.of_nat (a + n)) cs = true ->
  filter (fun i => c20_mem i cs) (map Z.of_nat (seq a n)) = cs.
Proof.
  induction n as [|n IH]; intros a cs H.
  - destruct cs as [|c cs]; [reflexivity|]. apply asc_cons in H. lia.
  - cbn [seq map filter]. destruct cs as [|c cs].
    + cbn [c20_mem existsb]. apply (IH (S a) []). reflexivity.
    + pose proof (asc_cons _ _ _ _ H) as [Hc Hrest].
      destruct (Z.eq_dec c (Z.of_nat a)) as [->|Hne].
      * unfold c20_mem at 1. cbn [existsb]. rewrite Z.eqb_refl. cbn [orb]. f_equal.
        transitivity (filter (fun i => c20_mem i cs) (map Z.of_nat (seq (S a) n))); [|apply IH].
        -- apply filter_ext_in. intros i Hi. apply in_map_iff in Hi.
           destruct Hi as [k [<- Hk]]. apply in_seq in Hk.
           unfold c20_mem. cbn [existsb].
           replace (Z.of_nat k =? Z.of_nat a) with false by (symmetry; apply Z.eqb_neq; lia).
           reflexivity.
        -- replace (Z.of_nat (S a)) with (Z.of_nat a + 1) by lia.
           replace (S a + n)%nat with (a + S n)%nat by lia. exact Hrest.
      * rewrite (asc_mem_false (c :: cs) (Z.of_nat a + 1) (Z.of_nat (a + S n))); [| |lia].
        -- apply (IH (S a)).
           replace (Z.of_nat (S a)) with (Z.of_nat a + 1) by lia.
           replace (S a + n)%nat with (a + S n)%nat by lia.
           apply (asc_weaken c); [lia|]. cbn [c20_asc]. rewrite Hrest.
           replace (c <=? c) with true by (symmetry; apply Z.leb_le; lia).
           replace (c <? Z.of_nat (a + S n)) with true by (symmetry; apply Z.ltb_lt; lia).
           reflexivity.
        -- cbn [c20_asc]. rewrite Hrest.
           replace (Z.of_nat a + 1 <=? c) with true by (symmetry; apply Z.leb_le; lia).
           replace (c <? Z.of_nat (a + S n)) with true by (symmetry; apply Z.ltb_lt; lia).
           reflexivity.
Qed.

Lemma positions_map (g : Z -> Z) l :
  map fst (filter (fun ib : Z * Z => snd ib =? 1) (map (fun i => (i, g i)) l))
  = filter (fun i => g i =? 1) l.
Proof.
  induction l as [|a l IH]; [reflexivity|]. cbn [map filter snd].
  destruct (g a =? 1); cbn [map fst]; rewrite IH; reflexivity.
Qed.

Lemma bits_length dim cs : length (c20_bits dim cs) = Z.to_nat dim.
Proof. unfold c20_bits, c20_range, iota. rewrite !map_length, seq_length. reflexivity. Qed.

Lemma bits_len dim cs : 0 <= dim -> c20_len (c20_bits dim cs) = dim.
Proof. intros H. unfold c20_len. rewrite bits_length. lia. Qed.

Lemma positions_bits dim cs : c20_asc 0 dim cs = true ->
  c20_positions (c20_bits dim cs) = cs.
Proof.
  intros H. unfold c20_positions. rewrite bits_length. unfold c20_bits, c20_range.
  rewrite combine_map_r, positions_map.
  etransitivity; [|exact (filter_mem_seq (Z.to_nat dim) 0 cs (asc_to_nat _ _ H))].
  unfold iota. apply filter_ext. intros i. destruct (c20_mem i cs); reflexivity.
Qed.

(* ------------------------------------------------------------------ unfolding equations *)
Lemma arrs_fold base outs :
  c20_arrs (fold_right c20_oapp base outs) = fold_right c20_aapp (c20_arrs base) (map c20_arrs outs).
Proof. induction outs as [|o outs IH]; simpl; [reflexivity|]. rewrite arrs_oapp, IH. reflexivity. Qed.

Lemma arrs_enc_leaf f d ds t :
  c20_arrs (fst (c20_enc [f] (d :: ds) t))
  = [(c20_coords f d (c20_es t), c20_vals f d (c20_es t))].
Proof. reflexivity. Qed.

Lemma enc_ret f fs' d ds t : snd (c20_enc (f :: fs') (d :: ds) t) = c20_ret f (c20_es t).
Proof. destruct fs'; reflexivity. Qed.

Lemma arrs_enc_int f g fs'' d ds t :
  c20_arrs (fst (c20_enc (f :: g :: fs'') (d :: ds) t))
  = (c20_coords f d (c20_es t),
     if c20_upper g
     then c20_cumul 0 (map (fun k => snd (c20_enc (g :: fs'') ds k)) (c20_kids f d (c20_es t)))
     else [])
    :: fold_right c20_aapp (c20_blank_arr (S (length fs'')))
         (map (fun k => c20_arrs (fst (c20_enc (g :: fs'') ds k))) (c20_kids f d (c20_es t))).
Proof.
  cbn [c20_enc fst c20_arrs map rk_coords rk_pays].
  rewrite arrs_fold, arrs_blank, !map_map. reflexivity.
Qed.

Lemma enc_length fs : forall ds t, length ds = length fs ->
  length (c20_arrs (fst (c20_enc fs ds t))) = length fs.
Proof.
  induction fs as [|f fs IH]; intros ds t H; [reflexivity|].
  destruct ds as [|d ds]; [discriminate|]. destruct fs as [|g fs''].
  - reflexivity.
  - rewrite arrs_enc_int. cbn [length]. f_equal.
    induction (c20_kids f d (c20_es t)) as [|k ks IHk]; cbn [map fold_right].
    + apply blank_arr_len.
    + rewrite aapp_len; [exact IHk|]. rewrite IHk. apply IH. cbn [length] in *. lia.
Qed.

Definition c20_dec_cs (f : c20_fmt) (d cnt : Z) (C : list Z) : list Z :=
  match f with
  | FU => c20_range d
  | FC => c20_firstn cnt C
  | FB => c20_positions (c20_firstn d C)
  end.
Definition c20_dec_C' (f : c20_fmt) (d cnt : Z) (C : list Z) : list Z :=
  match f with FU => C | FC => c20_skipn cnt C | FB => c20_skipn d C end.
Definition c20_dec_ok1 (f : c20_fmt) (d cnt : Z) (C : list Z) : bool :=
  match f with
  | FU => true
  | FC => c20_enough cnt C
  | FB => c20_enough d C && (c20_len (c20_dec_cs f d cnt C) =? cnt)
  end.

Lemma dec_leaf f d ds cnt C P st' :
  c20_dec [f] (d :: ds) cnt ((C, P) :: st')
  = (Node (combine (c20_dec_cs f d cnt C)
                   (map Leaf (c20_firstn (c20_len (c20_dec_cs f d cnt C)) P))),
     (c20_dec_C' f d cnt C, c20_skipn (c20_len (c20_dec_cs f d cnt C)) P) :: st',
     c20_dec_ok1 f d cnt C && c20_enough (c20_len (c20_dec_cs f d cnt C)) P).
Proof. destruct f; reflexivity. Qed.

Lemma dec_int f g fs'' d ds cnt C P st' :
  c20_dec (f :: g :: fs'') (d :: ds) cnt ((C, P) :: st')
  = let cs := c20_dec_cs f d cnt C in
    let n := c20_len cs in
    let up := c20_upper g in
    let r := c20_dec_list (c20_dec (g :: fs'') ds)
               (if up then c20_diffs 0 (c20_firstn n P) else map (fun _ => 0) cs) st' in
    (Node (combine cs (fst (fst r))),
     (c20_dec_C' f d cnt C, if up then c20_skipn n P else P) :: snd (fst r),
     c20_dec_ok1 f d cnt C && (if up then c20_enough n P else true) && snd r).
Proof. destruct f; reflexivity. Qed.

(* the coordinates the layout assigns to a fiber *)
Definition c20_lc (f : c20_fmt) (d : Z) (es : fib) : list Z :=
  match f with FU => c20_range d | _ => map fst (present 0 es) end.

Definition c20_cnt_ok (f : c20_fmt) (cnt : Z) (t : tree) : Prop :=
  c20_upper f = true -> cnt = c20_len (present 0 (c20_es t)).

Lemma dec_coords f d cnt es Cr :
  0 <= d ->
  c20_asc 0 d (map fst es) = true -> c20_cnt_ok f cnt (Node es) ->
  c20_dec_cs f d cnt (c20_coords f d es ++ Cr) = c20_lc f d es
  /\ c20_dec_C' f d cnt (c20_coords f d es ++ Cr) = Cr
  /\ c20_dec_ok1 f d cnt (c20_coords f d es ++ Cr) = true.
Proof.
  intros Hd Hasc Hcnt. unfold c20_cnt_ok in Hcnt. cbn [c20_es] in Hcnt.
  pose proof (asc_filter (fun ct => negb (is_empty 0 (snd ct))) es 0 d Hasc) as Hp.
  fold (present 0 es) in Hp.
  destruct f; cbn [c20_dec_cs c20_dec_C' c20_dec_ok1 c20_coords c20_lc].
  - auto.
  - rewrite (Hcnt eq_refl), <- (len_map fst).
    rewrite firstn_exact, skipn_exact, enough_exact. auto.
  - pose proof (bits_len d (map fst (present 0 es)) Hd) as Hb.
    rewrite (firstn_exact' _ _ _ Hb), (skipn_exact' _ _ _ Hb), (enough_exact' _ _ _ Hb).
    rewrite (positions_bits _ _ Hp), (Hcnt eq_refl), len_map, Z.eqb_refl. auto.
Qed.

(* ------------------------------------------------------------------ sub-fibers *)
Lemma lookup_in (es : fib) : forall i t, lookup i es = Some t -> In (i, t) es.
Proof.
  induction es as [|[c u] es IH]; intros i t H; [discriminate|].
  cbn [lookup] in H. destruct (i =? c) eqn:E.
  - apply Z.eqb_eq in E. subst. inversion H. left. reflexivity.
  - right. apply IH, H.
Qed.

Lemma kids_wf f d d' ds' es :
  c20_wf_tree (d :: d' :: ds') (Node es) = true ->
  Forall (fun k => c20_wf_tree (d' :: ds') k = true) (c20_kids f d es).
Proof.
  intros H. cbn [c20_wf_tree] in H. apply andb_true_iff in H. destruct H as [_ H].
  rewrite forallb_forall in H.
  assert (HU : Forall (fun k => c20_wf_tree (d' :: ds') k = true)
                      (map (fun i => c20_sub_at i es) (c20_range d))).
  { apply Forall_forall. intros k Hk. apply in_map_iff in Hk. destruct Hk as [i [<- _]].
    unfold c20_sub_at. destruct (lookup i es) as [t|] eqn:E.
    - apply (H (i, t)). apply lookup_in, E.
    - reflexivity. }
  assert (HC : Forall (fun k => c20_wf_tree (d' :: ds') k = true) (map snd (present 0 es))).
  { apply Forall_forall. intros k Hk. apply in_map_iff in Hk. destruct Hk as [[c t] [<- Hin]].
    apply filter_In in Hin. destruct Hin as [Hin _]. apply (H _ Hin). }
  destruct f; assumption.
Qed.

Lemma lc_kids_len f d es : c20_len (c20_lc f d es) = c20_len (c20_kids f d es).
Proof. destruct f; cbn [c20_lc c20_kids]; rewrite !len_map; reflexivity. Qed.

Lemma kids_content f d es : c20_asc 0 d (map fst es) = true ->
  c20_econtent (combine (c20_lc f d es) (c20_kids f d es)) = c20_econtent es.
Proof.
  intros Hasc.
  assert (HC : c20_econtent (combine (map fst (present 0 es)) (map snd (present 0 es)))
               = c20_econtent es).
  { rewrite combine_map_fst_snd. apply content_present. }
  destruct f; cbn [c20_lc c20_kids]; try exact HC.
  rewrite combine_map_r. unfold c20_range, iota.
  apply (dense_content (fun i => c20_sub_at i es) (Z.to_nat d) 0 es (asc_to_nat _ _ Hasc)).
  reflexivity.
Qed.

Lemma leaf_content f d es :
  c20_wf_tree [d] (Node es) = true ->
  c20_econtent (combine (c20_lc f d es) (map Leaf (c20_vals f d es))) = c20_econtent es.
Proof.
  intros H. cbn [c20_wf_tree] in H. apply andb_true_iff in H. destruct H as [Hasc H].
  rewrite forallb_forall in H.
  assert (Hleaf : forall c t, In (c, t) es -> t = Leaf (c20_leafval t)).
  { intros c t Hin. specialize (H _ Hin). cbn [snd] in H. destruct t; [reflexivity|discriminate]. }
  assert (HC : c20_econtent (combine (map fst (present 0 es))
                 (map Leaf (map (fun ct => c20_leafval (snd ct)) (present 0 es)))) = c20_econtent es).
  { rewrite map_map.
    rewrite (map_ext_in (fun ct => Leaf (c20_leafval (snd ct))) snd).
    - rewrite combine_map_fst_snd. apply content_present.
    - intros [c t] Hin. apply filter_In in Hin. destruct Hin as [Hin _]. cbn [snd].
      symmetry. apply (Hleaf c t Hin). }
  destruct f; cbn [c20_lc c20_vals]; try exact HC.
  rewrite map_map, combine_map_r. unfold c20_range, iota.
  apply (dense_content (fun i => Leaf (c20_leaf_at i es)) (Z.to_nat d) 0 es (asc_to_nat _ _ Hasc)).
  intros i _. unfold c20_leaf_at, c20_sub_at. destruct (lookup i es) as [t|] eqn:E.
  - rewrite <- (Hleaf i t (lookup_in _ _ _ E)). reflexivity.
  - reflexivity.
Qed.

(* ------------------------------------------------------------------ the round trip *)
Definition c20_rt_stmt (fs : list c20_fmt) (ds : list Z) (k : tree) : Prop :=
  forall cnt rest, length rest = length fs -> c20_cnt_ok (hd FU fs) cnt k ->
  exists T, c20_dec fs ds cnt (c20_aapp (c20_arrs (fst (c20_enc fs ds k))) rest) = (T, rest, true)
            /\ content 0 T = content 0 k.

Lemma dec_list_rt g fs'' ds (Hlen : length ds = length (g :: fs'')) kids : forall rest cnts,
  length rest = length (g :: fs'') ->
  Forall (c20_rt_stmt (g :: fs'') ds) kids ->
  Forall2 (fun k cnt => c20_cnt_ok g cnt k) kids cnts ->
  exists Ts,
    c20_dec_list (c20_dec (g :: fs'') ds) cnts
      (fold_right c20_aapp rest (map (fun k => c20_arrs (fst (c20_enc (g :: fs'') ds k))) kids))
    = (Ts, rest, true)
    /\ Forall2 (fun T k => content 0 T = content 0 k) Ts kids.
Proof.
  induction kids as [|k kids IH]; intros rest cnts Hrest Hall Hc.
  - inversion Hc; subst. exists []. split; [reflexivity|constructor].
  - inversion Hc as [|? cnt ? cnts' Hk Hc']; subst.
    inversion Hall as [|? ? Hk1 Hall']; subst.
    destruct (IH rest cnts' Hrest Hall' Hc') as [Ts [E HTs]].
    cbn [map fold_right].
    set (rest' := fold_right c20_aapp rest
                    (map (fun k0 => c20_arrs (fst (c20_enc (g :: fs'') ds k0))) kids)) in *.
    assert (Hl : length rest' = length (g :: fs'')).
    { subst rest'. clear -Hrest Hlen. induction kids as [|k0 kids IHk]; cbn [map fold_right].
      - exact Hrest.
      - rewrite aapp_len; [exact IHk|]. rewrite IHk. apply enc_length, Hlen. }
    destruct (Hk1 cnt rest' Hl Hk) as [T [ET HT]].
    exists (T :: Ts). split.
    + cbn [c20_dec_list]. rewrite ET. cbn [fst snd]. rewrite E. reflexivity.
    + constructor; assumption.
Qed.

Lemma all_rt fs : forall ds k,
  length ds = length fs -> fs <> [] -> forallb (Z.leb 0) ds = true ->
  c20_wf_tree ds k = true -> c20_rt_stmt fs ds k.
Proof.
  induction fs as [|f fs IH]; intros ds k Hlen Hne Hpos Hwf; [congruence|].
  destruct ds as [|d ds]; [discriminate|].
  destruct k as [v|es]; [discriminate|].
  cbn [forallb] in Hpos. apply andb_true_iff in Hpos. destruct Hpos as [Hd Hpos].
  apply Z.leb_le in Hd.
  pose proof Hwf as Hwf0. cbn [c20_wf_tree] in Hwf0. apply andb_true_iff in Hwf0.
  destruct Hwf0 as [Hasc _].
  intros cnt rest Hrest Hcnt. cbn [hd] in Hcnt.
  destruct rest as [|[Cr Pr] rest']; [discriminate|].
  destruct fs as [|g fs''].
  - (* leaf rank *)
    destruct ds as [|? ?]; [|discriminate].
    destruct rest' as [|? ?]; [|discriminate].
    rewrite arrs_enc_leaf. cbn [c20_aapp c20_es]. rewrite dec_leaf.
    destruct (dec_coords f d cnt es Cr Hd Hasc Hcnt) as [E1 [E2 E3]].
    rewrite E1, E2, E3.
    assert (Hn : c20_len (c20_vals f d es) = c20_len (c20_lc f d es)).
    { destruct f; cbn [c20_vals c20_lc]; rewrite !len_map; reflexivity. }
    rewrite (firstn_exact' _ _ _ Hn), (skipn_exact' _ _ _ Hn), (enough_exact' _ _ _ Hn).
    eexists. split; [reflexivity|].
    rewrite !content_node. apply leaf_content, Hwf.
  - (* interior rank *)
    destruct ds as [|d' ds']; [discriminate|].
    rewrite arrs_enc_int. cbn [c20_aapp c20_es]. rewrite dec_int. cbv zeta.
    destruct (dec_coords f d cnt es Cr Hd Hasc Hcnt) as [E1 [E2 E3]].
    rewrite E1, E2, E3.
    set (kids := c20_kids f d es).
    assert (Hkw : Forall (fun k => c20_wf_tree (d' :: ds') k = true) kids)
      by (apply kids_wf, Hwf).
    assert (Hlen' : length (d' :: ds') = length (g :: fs'')) by (cbn [length] in *; lia).
    assert (Hall : Forall (c20_rt_stmt (g :: fs'') (d' :: ds')) kids).
    { apply Forall_forall. intros k Hk. rewrite Forall_forall in Hkw.
      apply IH; [exact Hlen'|discriminate|exact Hpos|apply Hkw, Hk]. }
    assert (Hrest' : length rest' = length (g :: fs'')) by (cbn [length] in *; lia).
    (* the rest of the arrays of the lower ranks *)
    assert (Hfold : c20_aapp
              (fold_right c20_aapp (c20_blank_arr (S (length fs'')))
                 (map (fun k => c20_arrs (fst (c20_enc (g :: fs'') (d' :: ds') k))) kids)) rest'
            = fold_right c20_aapp rest'
                 (map (fun k => c20_arrs (fst (c20_enc (g :: fs'') (d' :: ds') k))) kids)).
    { clear -Hrest'. induction kids as [|k kids IHk]; cbn [map fold_right].
      - cbn [length] in Hrest'. rewrite <- Hrest'. apply aapp_blank.
      - rewrite aapp_assoc, IHk. reflexivity. }
    rewrite Hfold.
    (* the segment lengths read back from the occupancies *)
    set (cnts := if c20_upper g
                 then c20_diffs 0 (c20_firstn (c20_len (c20_lc f d es))
                        ((if c20_upper g
                          then c20_cumul 0 (map (fun k => snd (c20_enc (g :: fs'') (d' :: ds') k)) kids)
                          else []) ++ Pr))
                 else map (fun _ => 0) (c20_lc f d es)).
    assert (Hc : Forall2 (fun k cnt => c20_cnt_ok g cnt k) kids cnts).
    { subst cnts. destruct (c20_upper g) eqn:Eg.
      - assert (Hn : c20_len (c20_cumul 0 (map (fun k => snd (c20_enc (g :: fs'') (d' :: ds') k)) kids))
                     = c20_len (c20_lc f d es)).
        { rewrite cumul_len, len_map. symmetry. apply lc_kids_len. }
        rewrite (firstn_exact' _ _ _ Hn), diffs_cumul.
        clear -Eg. induction kids as [|k kids IHk]; cbn [map]; constructor; [|exact IHk].
        intros _. rewrite enc_ret. destruct g; [discriminate Eg| |]; reflexivity.
      - assert (Hn : length (c20_lc f d es) = length kids).
        { pose proof (lc_kids_len f d es) as L. unfold c20_len in L. fold kids in L. lia. }
        revert Hn. generalize (c20_lc f d es). clear -Eg.
        induction kids as [|k kids IHk]; intros [|c l] Hn; try discriminate; cbn [map]; constructor.
        + intros Hu. unfold c20_cnt_ok. congruence.
        + apply IHk. cbn [length] in Hn. lia. }
    destruct (dec_list_rt g fs'' (d' :: ds') Hlen' kids rest' cnts Hrest' Hall Hc) as [Ts [ET HTs]].
    rewrite ET. cbn [fst snd].
    assert (Hok2 : (if c20_upper g
                    then c20_enough (c20_len (c20_lc f d es))
                           ((if c20_upper g
                             then c20_cumul 0 (map (fun k => snd (c20_enc (g :: fs'') (d' :: ds') k)) kids)
                             else []) ++ Pr)
                    else true) = true
                   /\ (if c20_upper g
                       then c20_skipn (c20_len (c20_lc f d es))
                              ((if c20_upper g
                                then c20_cumul 0 (map (fun k => snd (c20_enc (g :: fs'') (d' :: ds') k)) kids)
                                else []) ++ Pr)
                       else (if c20_upper g
                             then c20_cumul 0 (map (fun k => snd (c20_enc (g :: fs'') (d' :: ds') k)) kids)
                             else []) ++ Pr) = Pr).
    { destruct (c20_upper g); [|split; reflexivity].
      assert (Hn : c20_len (c20_cumul 0 (map (fun k => snd (c20_enc (g :: fs'') (d' :: ds') k)) kids))
                   = c20_len (c20_lc f d es)).
      { rewrite cumul_len, len_map. symmetry. apply lc_kids_len. }
      rewrite (enough_exact' _ _ _ Hn), (skipn_exact' _ _ _ Hn). split; reflexivity. }
    destruct Hok2 as [Hok2 HP]. rewrite Hok2, HP.
    eexists. split; [reflexivity|].
    rewrite !content_node, (econtent_combine _ _ _ HTs). apply kids_content, Hasc.
Qed.

(* ------------------------------------------------------------------ coordinate lookup *)
Lemma asc_nth_ge cs : forall lo hi j,
  c20_asc lo hi cs = true -> (j < length cs)%nat -> lo <= nth j cs 0.
Proof.
  induction cs as [|a cs IH]; intros lo hi j H Hj; [simpl in Hj; lia|].
  apply asc_cons in H. destruct H as [Hc H]. destruct j; cbn [nth]; [lia|].
  cbn [length] in Hj. specialize (IH (a + 1) hi j H). lia.
Qed.

Lemma asc_nth_lt cs : forall lo hi i j,
  c20_asc lo hi cs = true -> (i < j)%nat -> (j < length cs)%nat -> nth i cs 0 < nth j cs 0.
Proof.
  induction cs as [|a cs IH]; intros lo hi i j H Hij Hj; [simpl in Hj; lia|].
  apply asc_cons in H. destruct H as [Hc H]. cbn [length] in Hj.
  destruct j; [lia|]. destruct i; cbn [nth].
  - pose proof (asc_nth_ge cs (a + 1) hi j H). lia.
  - apply (IH (a + 1) hi); [assumption|lia|lia].
Qed.

Lemma nthZ_lt cs lo hi i j : c20_asc lo hi cs = true -> 0 <= i < j -> j < c20_len cs ->
  c20_nthZ cs i < c20_nthZ cs j.
Proof.
  intros H Hij Hj. unfold c20_nthZ, c20_len in *. apply (asc_nth_lt cs lo hi); [assumption|lia|lia].
Qed.

Lemma first_ge_char cs q : forall i (k : nat),
  (k < length cs)%nat -> q <= nth k cs 0 -> (forall j, (j < k)%nat -> nth j cs 0 < q) ->
  c20_first_ge cs q i = Some (i + Z.of_nat k).
Proof.
  induction cs as [|x cs IH]; intros i k Hk Hq Hlt; [simpl in Hk; lia|].
  cbn [c20_first_ge]. destruct k.
  - cbn [nth] in Hq. replace (q <=? x) with true by (symmetry; apply Z.leb_le; lia).
    f_equal. lia.
  - pose proof (Hlt 0%nat ltac:(lia)) as H0. cbn [nth] in H0.
    replace (q <=? x) with false by (symmetry; apply Z.leb_gt; lia).
    rewrite (IH (i + 1) k).
    + f_equal. lia.
    + cbn [length] in Hk. lia.
    + exact Hq.
    + intros j Hj. apply (Hlt (S j)). lia.
Qed.

Lemma first_ge_none cs q : forall i,
  (forall j, (j < length cs)%nat -> nth j cs 0 < q) -> c20_first_ge cs q i = None.
Proof.
  induction cs as [|x cs IH]; intros i H; [reflexivity|].
  cbn [c20_first_ge]. pose proof (H 0%nat ltac:(cbn [length]; lia)) as H0. cbn [nth] in H0.
  replace (q <=? x) with false by (symmetry; apply Z.leb_gt; lia).
  apply IH. intros j Hj. apply (H (S j)). cbn [length]. lia.
Qed.

Lemma last_nth (l : list Z) : l <> [] -> last l 0 = nth (length l - 1) l 0.
Proof.
  induction l as [|a l IH]; [congruence|]. intros _. destruct l as [|b l]; [reflexivity|].
  change (last (a :: b :: l) 0) with (last (b :: l) 0). rewrite IH by discriminate.
  cbn [length]. replace (S (S (length l)) - 1)%nat with (S (S (length l) - 1))%nat by lia.
  reflexivity.
Qed.

Lemma bs_correct cs lo0 hi0 q (Hasc : c20_asc lo0 hi0 cs = true)
      (Hlast : q <= c20_nthZ cs (c20_len cs - 1)) (Hne1 : 1 <= c20_len cs) : forall fuel lo hi mid,
  0 <= lo -> hi < c20_len cs -> lo <= hi + 1 -> hi - lo + 1 <= Z.of_nat fuel ->
  (forall j, 0 <= j < lo -> c20_nthZ cs j < q) ->
  (forall j, hi < j < c20_len cs -> q < c20_nthZ cs j) ->
  (lo <= hi \/ (lo = mid + 1 /\ c20_nthZ cs mid < q) \/ (hi = mid - 1 /\ q < c20_nthZ cs mid)) ->
  exists r, c20_bs fuel cs q lo hi mid = Some r /\ 0 <= r < c20_len cs /\ q <= c20_nthZ cs r
            /\ forall j, 0 <= j < r -> c20_nthZ cs j < q.
Proof.
  induction fuel as [|fuel IH]; intros lo hi mid Hlo Hhi Hle Hfuel Hbelow Habove Hmid.
  - cbn [c20_bs]. destruct (lo <=? hi) eqn:E; [apply Z.leb_le in E; lia|].
    apply Z.leb_gt in E.
    assert (Hr : (if q >? c20_nthZ cs mid then mid + 1 else mid) = lo).
    { destruct Hmid as [H|[[H1 H2]|[H1 H2]]]; [lia| |].
      - replace (q >? c20_nthZ cs mid) with true by (symmetry; apply Z.gtb_lt; lia). lia.
      - replace (q >? c20_nthZ cs mid) with false by (symmetry; rewrite Z.gtb_ltb; apply Z.ltb_ge; lia). lia. }
    rewrite Hr. exists lo. split; [reflexivity|].
    assert (Hlt : lo < c20_len cs).
    { destruct (Z.eq_dec lo (c20_len cs)) as [E'|E']; [|lia].
      specialize (Hbelow (c20_len cs - 1)). lia. }
    split; [lia|]. split; [|exact Hbelow]. specialize (Habove lo). lia.
  - cbn [c20_bs]. destruct (lo <=? hi) eqn:E.
    + apply Z.leb_le in E.
      set (m := (hi + lo + 1) / 2).
      assert (Hm1 : lo <= m) by (apply Z.div_le_lower_bound; lia).
      assert (Hm2 : m < hi + 1) by (apply Z.div_lt_upper_bound; lia).
      destruct (c20_nthZ cs m =? q) eqn:Eq.
      * apply Z.eqb_eq in Eq. exists m. split; [reflexivity|]. split; [lia|]. split; [lia|].
        intros j Hj. rewrite <- Eq. apply (nthZ_lt cs lo0 hi0); [assumption|lia|lia].
      * apply Z.eqb_neq in Eq. destruct (c20_nthZ cs m <? q) eqn:El.
        -- apply Z.ltb_lt in El. apply IH; try lia.
           ++ intros j Hj. destruct (Z.eq_dec j m) as [->|Hne]; [exact El|].
              pose proof (nthZ_lt cs lo0 hi0 j m Hasc). lia.
           ++ exact Habove.
        -- apply Z.ltb_ge in El. apply IH; try lia.
           ++ exact Hbelow.
           ++ intros j Hj. destruct (Z.eq_dec j m) as [->|Hne]; [lia|].
              pose proof (nthZ_lt cs lo0 hi0 m j Hasc). lia.
    + apply Z.leb_gt in E.
      assert (Hr : (if q >? c20_nthZ cs mid then mid + 1 else mid) = lo).
      { destruct Hmid as [H|[[H1 H2]|[H1 H2]]]; [lia| |].
        - replace (q >? c20_nthZ cs mid) with true by (symmetry; apply Z.gtb_lt; lia). lia.
        - replace (q >? c20_nthZ cs mid) with false by (symmetry; rewrite Z.gtb_ltb; apply Z.ltb_ge; lia). lia. }
      rewrite Hr. exists lo. split; [reflexivity|].
      assert (Hlt : lo < c20_len cs).
      { destruct (Z.eq_dec lo (c20_len cs)) as [E'|E']; [|lia].
        specialize (Hbelow (c20_len cs - 1)). lia. }
      split; [lia|]. split; [|exact Hbelow]. specialize (Habove lo). lia.
Qed.

(* CoordinateList.coordToHandle = index of the first stored coordinate not below the query
   (None past the end), for every strictly increasing coordinate list *)
Lemma c2h_first_ge cs lo hi q : c20_asc lo hi cs = true ->
  c20_c2h_C cs q = c20_first_ge cs q 0.
Proof.
  intros Hasc. unfold c20_c2h_C. destruct cs as [|c0 cs']; [reflexivity|].
  set (cs := c0 :: cs') in *.
  assert (Hlast : c20_last cs = c20_nthZ cs (c20_len cs - 1)).
  { unfold c20_last, c20_nthZ, c20_len. rewrite last_nth by discriminate. f_equal.
    subst cs. cbn [length]. lia. }
  assert (Hlen : 1 <= c20_len cs) by (subst cs; unfold c20_len; cbn [length]; lia).
  destruct (q >? c20_last cs) eqn:E1.
  - apply Z.gtb_lt in E1. symmetry. apply first_ge_none. intros j Hj.
    rewrite Hlast in E1. unfold c20_nthZ, c20_len in E1.
    destruct (Nat.eq_dec j (length cs - 1)) as [->|Hne].
    + replace (Z.to_nat (Z.of_nat (length cs) - 1)) with (length cs - 1)%nat in E1 by lia. exact E1.
    + pose proof (asc_nth_lt cs lo hi j (length cs - 1) Hasc ltac:(lia) ltac:(lia)).
      replace (Z.to_nat (Z.of_nat (length cs) - 1)) with (length cs - 1)%nat in E1 by lia. lia.
  - rewrite Z.gtb_ltb in E1. apply Z.ltb_ge in E1. destruct (q <=? c0) eqn:E2.
    + subst cs. cbn [c20_first_ge]. rewrite E2. reflexivity.
    + apply Z.leb_gt in E2.
      destruct (bs_correct cs lo hi q Hasc ltac:(rewrite <- Hlast; exact E1) Hlen
                  (length cs) 0 (c20_len cs - 1) 0) as [r [Er [Hr [Hq Hb]]]]; try lia.
      * unfold c20_len. lia.
      * rewrite Er. symmetry.
        rewrite (first_ge_char cs q 0 (Z.to_nat r)).
        -- f_equal. lia.
        -- unfold c20_len in Hr. lia.
        -- exact Hq.
        -- intros j Hj. specialize (Hb (Z.of_nat j)). unfold c20_nthZ in Hb.
           rewrite Nat2Z.id in Hb. apply Hb. lia.
Qed.

(* ------------------------------------------------------------------ getSize *)
Definition c20_hd_fiber (r : c20_out * Z) : c20_efib :=
  match fst r with
  | rk :: _ => match rk_fibers rk with e :: _ => e | [] => Build_c20_efib FU [] [] [] 0 0 true false 0 end
  | [] => Build_c20_efib FU [] [] [] 0 0 true false 0
  end.

Definition c20_coord_words (f : c20_fmt) (d n : Z) : Z :=
  match f with FU => 0 | FC => n | FB => (d + 31) / 32 end.

Lemma size_leaf f d ds t : 0 <= d ->
  let n := c20_len (c20_lc f d (c20_es t)) in
  c20_size (c20_hd_fiber (c20_enc [f] (d :: ds) t)) = c20_coord_words f d n + 0 + n.
Proof.
  intros Hd. destruct f; cbn [c20_enc c20_hd_fiber fst rk_fibers c20_size ef_fmt ef_occ ef_leaf
    ef_npay ef_coords c20_coords c20_vals c20_lc c20_coord_words orb];
    rewrite ?len_map, ?bits_len by assumption; unfold c20_len; cbn [length]; lia.
Qed.

Lemma size_int f g fs'' d ds t : 0 <= d ->
  let n := c20_len (c20_lc f d (c20_es t)) in
  c20_size (c20_hd_fiber (c20_enc (f :: g :: fs'') (d :: ds) t))
  = c20_coord_words f d n + (if c20_upper g then n else 0)
    + match f with FU => 0 | _ => if c20_upper g then n else 0 end.
Proof.
  intros Hd. cbv zeta. rewrite (lc_kids_len f d (c20_es t)).
  destruct f; cbn [c20_enc c20_hd_fiber fst rk_fibers c20_size ef_fmt ef_occ ef_leaf ef_nextup
    ef_npay ef_coords c20_coords c20_lc c20_coord_words orb];
    destruct (c20_upper g); rewrite ?cumul_len, ?len_map, ?bits_len by assumption;
    unfold c20_len; cbn [length]; try lia.
  all: cbn [c20_kids]; rewrite ?map_length; lia.
Qed.

(* ------------------------------------------------------------------ slice scans *)
Fixpoint c20_enum (ph : Z) (cs : list Z) : list (Z * Z) :=
  match cs with [] => [] | c :: cs' => (c, ph) :: c20_enum (ph + 1) cs' end.

Lemma bscan_bits n : forall a cs ph npay,
  c20_asc (Z.of_nat a) (Z.of_nat (a + n)) cs = true -> npay = ph + c20_len cs ->
  c20_bscan (map (fun i => if c20_mem i cs then 1 else 0) (map Z.of_nat (seq a n)))
            (Z.of_nat a) ph npay = c20_enum ph cs.
Proof.
  induction n as [|n IH]; intros a cs ph npay H Hn.
  - destruct cs as [|c cs]; [reflexivity|]. apply asc_cons in H. lia.
  - cbn [seq map c20_bscan]. destruct cs as [|c cs].
    + replace (ph >=? npay) with true; [reflexivity|].
      symmetry. apply Z.geb_le. unfold c20_len in Hn. cbn [length] in Hn. lia.
    + replace (ph >=? npay) with false.
      2:{ symmetry. rewrite Z.geb_leb. apply Z.leb_gt. unfold c20_len in Hn. cbn [length] in Hn. lia. }
      pose proof (asc_cons _ _ _ _ H) as [Hc Hrest].
      destruct (Z.eq_dec c (Z.of_nat a)) as [->|Hne].
      * unfold c20_mem at 1. cbn [existsb]. rewrite Z.eqb_refl. cbn [orb Z.eqb Pos.eqb c20_enum].
        f_equal. replace (Z.of_nat a + 1) with (Z.of_nat (S a)) by lia.
        rewrite <- (IH (S a) cs (ph + 1) npay).
        -- f_equal. apply map_ext_in. intros i Hi. apply in_map_iff in Hi.
           destruct Hi as [k [<- Hk]]. apply in_seq in Hk. unfold c20_mem. cbn [existsb].
           replace (Z.of_nat k =? Z.of_nat a) with false by (symmetry; apply Z.eqb_neq; lia).
           reflexivity.
        -- replace (Z.of_nat (S a)) with (Z.of_nat a + 1) by lia.
           replace (S a + n)%nat with (a + S n)%nat by lia. exact Hrest.
        -- unfold c20_len in *. cbn [length] in Hn. lia.
      * rewrite (asc_mem_false (c :: cs) (Z.of_nat a + 1) (Z.of_nat (a + S n))); [| |lia].
        -- cbn [Z.eqb]. replace (Z.of_nat a + 1) with (Z.of_nat (S a)) by lia.
           apply (IH (S a)); [|exact Hn].
           replace (Z.of_nat (S a)) with (Z.of_nat a + 1) by lia.
           replace (S a + n)%nat with (a + S n)%nat by lia.
           apply (asc_weaken c); [lia|]. cbn [c20_asc]. rewrite Hrest.
           replace (c <=? c) with true by (symmetry; apply Z.leb_le; lia).
           replace (c <? Z.of_nat (a + S n)) with true by (symmetry; apply Z.ltb_lt; lia).
           reflexivity.
        -- cbn [c20_asc]. rewrite Hrest.
           replace (Z.of_nat a + 1 <=? c) with true by (symmetry; apply Z.leb_le; lia).
           replace (c <? Z.of_nat (a + S n)) with true by (symmetry; apply Z.ltb_lt; lia).
           reflexivity.
Qed.

(* Bitvector slice scan of an encoded mask: the set positions in order, payload handles
   0, 1, 2 ... *)
Lemma bscan_mask d cs : c20_asc 0 d cs = true ->
  c20_bscan (c20_bits d cs) 0 0 (c20_len cs) = c20_enum 0 cs.
Proof.
  intros H. unfold c20_bits, c20_range, iota.
  apply (bscan_bits (Z.to_nat d) 0 cs 0 (c20_len cs) (asc_to_nat _ _ H)). lia.
Qed.

(* U and C slice scans: the handles 0 .. n-1 *)
Lemma handles_from_0 n : c20_handles (Some 0) n = c20_range n.
Proof.
  unfold c20_handles. rewrite Z.sub_0_r. rewrite <- (map_id (c20_range n)) at 2.
  apply map_ext. intros i. lia.
Qed.

(* ------------------------------------------------------------------ element-wise scans *)
Definition c20_e_coord (x : c20_elem) : option Z := fst (fst x).
Definition c20_e_pay (x : c20_elem) : option Z := snd (fst x).
Definition c20_e_val (x : c20_elem) : option Z := snd x.

Lemma nth_seq_id (l : list Z) : map (fun k => nth k l 0) (seq 0 (length l)) = l.
Proof.
  induction l as [|x l IH]; [reflexivity|]. cbn [length seq map nth]. f_equal.
  rewrite <- seq_shift, map_map. exact IH.
Qed.

Lemma nthZ_range l : map (c20_nthZ l) (c20_range (c20_len l)) = l.
Proof.
  unfold c20_range, c20_len, iota. rewrite Nat2Z.id, map_map.
  rewrite <- (nth_seq_id l) at 2. apply map_ext. intros k. unfold c20_nthZ. rewrite Nat2Z.id.
  reflexivity.
Qed.

Lemma range_in d h : In h (c20_range d) -> 0 <= h < d.
Proof.
  unfold c20_range, iota. intros H. apply in_map_iff in H. destruct H as [k [<- Hk]].
  apply in_seq in Hk. lia.
Qed.

Lemma iota_len_range {A} (l : list A) : iota (length l) = c20_range (c20_len l).
Proof. unfold c20_range, c20_len. rewrite Nat2Z.id. reflexivity. Qed.

Lemma range_length d : length (c20_range d) = Z.to_nat d.
Proof. unfold c20_range, iota. rewrite map_length, seq_length. reflexivity. Qed.

(* Uncompressed: the scan visits every position 0 .. shape-1; the payload handle of position i
   is i; at the leaf rank the value read is the i-th stored payload *)
Lemma scan_U e osf d : ef_fmt e = FU -> ef_shape e = d -> ef_npay e = d ->
  (ef_leaf e = true -> c20_len (ef_vals e) = d) ->
  map c20_e_coord (c20_scan e osf) = map Some (c20_range d)
  /\ map c20_e_pay (c20_scan e osf) = map Some (c20_range d)
  /\ (ef_leaf e = true -> map c20_e_val (c20_scan e osf) = map Some (ef_vals e)).
Proof.
  intros Hf Hs Hn Hv. unfold c20_scan, c20_c2h. rewrite Hf, Hs.
  assert (Hh : c20_handles (if (0 <? 0) || (0 >=? d) then None else Some 0) d = c20_range d).
  { destruct (0 >=? d) eqn:E; cbn [Z.ltb Z.compare orb].
    - rewrite Z.geb_leb in E. apply Z.leb_le in E. unfold c20_handles, c20_range.
      replace (Z.to_nat d) with 0%nat by lia. reflexivity.
    - apply handles_from_0. }
  rewrite Hh, !map_map. unfold c20_e_coord, c20_e_pay, c20_e_val. cbn [fst snd].
  assert (Hp : forall h, In h (c20_range d) -> c20_h2p_base e h = Some h).
  { intros h Hin. apply range_in in Hin. unfold c20_h2p_base. rewrite Hn.
    replace (h >=? d) with false; [reflexivity|]. symmetry. rewrite Z.geb_leb. apply Z.leb_gt. lia. }
  split; [reflexivity|]. split.
  - apply map_ext_in. exact Hp.
  - intros Hl. rewrite Hl. specialize (Hv Hl).
    transitivity (map Some (map (c20_nthZ (ef_vals e)) (c20_range (c20_len (ef_vals e)))));
      [|rewrite nthZ_range; reflexivity].
    rewrite Hv, map_map.
    apply map_ext_in. intros h Hin. rewrite (Hp h Hin). apply range_in in Hin.
    unfold c20_p2v. rewrite Hn.
    replace (h >=? d) with false; [reflexivity|]. symmetry. rewrite Z.geb_leb. apply Z.leb_gt. lia.
Qed.

Lemma c2h_C_zero cs hi : c20_asc 0 hi cs = true ->
  c20_c2h_C cs 0 = match cs with [] => None | _ => Some 0 end.
Proof.
  intros H. rewrite (c2h_first_ge cs 0 hi 0 H). destruct cs as [|c cs]; [reflexivity|].
  apply asc_cons in H. destruct H as [Hc _]. cbn [c20_first_ge].
  replace (0 <=? c) with true; [reflexivity|]. symmetry. apply Z.leb_le. lia.
Qed.

(* CoordinateList: the scan visits every stored coordinate in order; the payload handle is the
   position (wherever the fiber stores payload entries); at the leaf rank the value read is the
   stored payload of that position *)
Lemma scan_C e osf hi : ef_fmt e = FC -> c20_asc 0 hi (ef_coords e) = true ->
  (ef_leaf e = true -> ef_npay e = c20_len (ef_coords e) /\ c20_len (ef_vals e) = c20_len (ef_coords e)) ->
  map c20_e_coord (c20_scan e osf) = map Some (ef_coords e)
  /\ (ef_leaf e || ef_nextup e = true ->
      map c20_e_pay (c20_scan e osf) = map Some (c20_range (c20_len (ef_coords e))))
  /\ (ef_leaf e = true -> map c20_e_val (c20_scan e osf) = map Some (ef_vals e)).
Proof.
  intros Hf Hasc Hleaf. unfold c20_scan, c20_c2h. rewrite Hf, (c2h_C_zero _ _ Hasc).
  set (cs := ef_coords e) in *.
  assert (Hh : c20_handles (match cs with [] => None | _ => Some 0 end) (c20_len cs)
               = c20_range (c20_len cs)).
  { destruct cs; [reflexivity|apply handles_from_0]. }
  rewrite Hh, !map_map. unfold c20_e_coord, c20_e_pay, c20_e_val. cbn [fst snd].
  split; [|split].
  - transitivity (map Some (map (c20_nthZ cs) (c20_range (c20_len cs))));
      [|rewrite nthZ_range; reflexivity].
    rewrite map_map. apply map_ext_in. intros h Hin.
    apply range_in in Hin.
    replace (h >=? c20_len cs) with false; [reflexivity|].
    symmetry. rewrite Z.geb_leb. apply Z.leb_gt. lia.
  - intros Hl. apply map_ext. intros h.
    destruct (ef_leaf e); [reflexivity|]. cbn [orb] in Hl. rewrite Hl. reflexivity.
  - intros Hl. rewrite Hl. destruct (Hleaf Hl) as [Hn Hv]. cbn [negb andb].
    transitivity (map Some (map (c20_nthZ (ef_vals e)) (c20_range (c20_len (ef_vals e)))));
      [|rewrite nthZ_range; reflexivity].
    rewrite Hv, map_map.
    apply map_ext_in. intros h Hin. apply range_in in Hin. unfold c20_p2v. rewrite Hn.
    replace (h >=? c20_len cs) with false; [reflexivity|].
    symmetry. rewrite Z.geb_leb. apply Z.leb_gt. lia.
Qed.

Lemma enum_fst cs : forall ph, map fst (c20_enum ph cs) = cs.
Proof. induction cs as [|c cs IH]; intros ph; [reflexivity|]. cbn [c20_enum map fst]. rewrite IH. reflexivity. Qed.

Lemma enum_snd cs : forall ph,
  map snd (c20_enum ph cs) = map (fun k => ph + k) (c20_range (c20_len cs)).
Proof.
  induction cs as [|c cs IH]; intros ph; [reflexivity|].
  cbn [c20_enum map snd]. rewrite IH. unfold c20_range, c20_len, iota. rewrite !Nat2Z.id.
  cbn [length seq map]. f_equal; [lia|]. rewrite <- seq_shift, !map_map.
  apply map_ext. intros k. lia.
Qed.

(* Bitvector: the scan visits the set positions of the mask in order; payload handles
   0, 1, 2, ...; at the leaf rank the value read is the stored payload of that handle *)
Lemma scan_B e osf d cs : ef_fmt e = FB -> c20_asc 0 d cs = true ->
  ef_coords e = c20_bits d cs -> ef_npay e = c20_len cs ->
  (ef_leaf e = true -> c20_len (ef_vals e) = c20_len cs) ->
  map c20_e_coord (c20_scan e osf) = map Some cs
  /\ map c20_e_pay (c20_scan e osf) = map Some (c20_range (c20_len cs))
  /\ (ef_leaf e = true -> map c20_e_val (c20_scan e osf) = map Some (ef_vals e)).
Proof.
  intros Hf Hasc Hc Hn Hv. unfold c20_scan. rewrite Hf, Hc, Hn, (bscan_mask d cs Hasc), !map_map.
  unfold c20_e_coord, c20_e_pay, c20_e_val. cbn [fst snd].
  assert (Hp : forall h, In h (c20_range (c20_len cs)) -> c20_h2p_base e h = Some h).
  { intros h Hin. apply range_in in Hin. unfold c20_h2p_base. rewrite Hn.
    replace (h >=? c20_len cs) with false; [reflexivity|].
    symmetry. rewrite Z.geb_leb. apply Z.leb_gt. lia. }
  assert (Hsnd : map snd (c20_enum 0 cs) = c20_range (c20_len cs)).
  { rewrite enum_snd. rewrite <- (map_id (c20_range (c20_len cs))) at 2. apply map_ext. intros; lia. }
  split; [|split].
  - transitivity (map Some (map fst (c20_enum 0 cs))); [|rewrite enum_fst; reflexivity].
    rewrite map_map. reflexivity.
  - rewrite <- Hsnd, map_map.
    apply map_ext_in. intros [c p] Hin. cbn [snd]. apply Hp. rewrite <- Hsnd.
    apply in_map_iff. exists (c, p). auto.
  - intros Hl. rewrite Hl. specialize (Hv Hl).
    transitivity (map Some (map (c20_nthZ (ef_vals e)) (c20_range (c20_len (ef_vals e)))));
      [|rewrite nthZ_range; reflexivity].
    rewrite Hv, <- Hsnd, !map_map.
    apply map_ext_in. intros [c p] Hin. cbn [snd].
    assert (Hin' : In p (c20_range (c20_len cs))).
    { rewrite <- Hsnd. apply in_map_iff. exists (c, p). auto. }
    rewrite (Hp p Hin'). apply range_in in Hin'. unfold c20_p2v. rewrite Hn.
    replace (p >=? c20_len cs) with false; [reflexivity|].
    symmetry. rewrite Z.geb_leb. apply Z.leb_gt. lia.
Qed.
