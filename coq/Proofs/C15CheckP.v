(* C15CheckP.v — the observation of a complete session in closed form (independent of the state
   the session starts from), and: the model satisfies the oracle. *)
From Coq Require Import ZArith List Bool Lia.
From FT Require Import Model.Base Model.Obs Model.C15Metrics Model.C15Check
                       Proofs.ObsP Proofs.C15RunP Proofs.C15RefP Proofs.C15StateP.
Import ListNotations.
Open Scope Z_scope.

Definition kernel_run (s : session) : tree * list mev :=
  run true 0 (s_wt s) (s_da s) (s_db s) (s_lv s) (z_init (s_lv s)) (s_a s) (s_b s).

Definition counts_ev (evs : list mev) : Z * Z * Z :=
  (cnt (is_cnt 0) evs, cnt (is_cnt 1) evs, cnt (is_cnt 2) evs).

Definition iters_ev (s : session) (evs : list mev) : list (option Z) :=
  map (fun i => if traced_iter s i
                then Some (num_iters ((if Z.ltb 0 (cnt (is_reg i) evs) then 1 else 0)
                                      + cnt (is_use i) evs))
                else None)
      (iota (length (s_lv s))).

(* what is observed of a complete session, whatever ran before it *)
Definition obs_closed (s : session) : V :=
  c15_obs (fst (run false 0 (s_wt s) (s_da s) (s_db s) (s_lv s) (z_init (s_lv s)) (s_a s) (s_b s)))
          (fst (kernel_run s)) (counts_ev (snd (kernel_run s))) (iters_ev s (snd (kernel_run s))).

Lemma obs_from_closed m s :
  s_end s = true -> obs_from m s = if session_fails s then Verr 3 else obs_closed s.
Proof.
  intros Hend. unfold obs_from. destruct (session_fails s); [reflexivity|].
  unfold obs_closed, run_session, kernel_run.
  destruct (session_start_facts m s) as [Hc [_ [_ [Hm [Ha [Hu _]]]]]]. cbv zeta in *.
  rewrite Hc, Hend.
  destruct (run true 0 (s_wt s) (s_da s) (s_db s) (s_lv s) (z_init (s_lv s)) (s_a s) (s_b s)) as [z evs] eqn:Er.
  cbn [fst snd]. f_equal.
  - unfold counts_of, counts_ev.
    destruct (apply_counts evs (session_start m s)) as [H1 [H2 H3]].
    rewrite H1, H2, H3, Hm, Ha, Hu. reflexivity.
  - unfold iters_of, iters_ev. apply map_ext_in. intros i _.
    destruct (traced_iter s i) eqn:Et; auto.
    f_equal. apply (session_iters m s i evs Et).
Qed.

Lemma obs_isolated m1 m2 s : s_end s = true -> obs_from m1 s = obs_from m2 s.
Proof. intros H. rewrite !obs_from_closed; auto. Qed.

Lemma kernel_wf_ok lv a b :
  kernel_wf lv a b = true ->
  forallb (fun l => la l || lb l) lv = true /\ op_ok la lv a /\ op_ok lb lv b.
Proof.
  unfold kernel_wf, op_ok. rewrite !andb_true_iff. tauto.
Qed.

Lemma num_iters_reg q evs :
  reg_first q evs ->
  num_iters ((if Z.ltb 0 (cnt (is_reg q) evs) then 1 else 0) + cnt (is_use q) evs)
  = cnt (is_use q) evs.
Proof.
  intros Hr. unfold num_iters. pose proof (cnt_nonneg (is_use q) evs).
  pose proof (cnt_nonneg (is_reg q) evs).
  destruct (Z.ltb_spec 0 (cnt (is_reg q) evs)); [lia|].
  rewrite Hr by lia. lia.
Qed.

Lemma iters_ev_spec s :
  kernel_wf (s_lv s) (s_a s) (s_b s) = true ->
  iters_ev s (snd (kernel_run s)) = spec_iters s.
Proof.
  intros Hwf. destruct (kernel_wf_ok _ _ _ Hwf) as [Hlv [Ha Hb]].
  unfold iters_ev, spec_iters, iota. rewrite map_map. apply map_ext. intros i.
  destruct (traced_iter s (Z.of_nat i)); auto. f_equal.
  unfold kernel_run. rewrite num_iters_reg by apply run_reg_first.
  rewrite run_cnt_use by auto.
  destruct (Z.ltb_spec (Z.of_nat i) 0); [lia|].
  replace (Z.to_nat (Z.of_nat i - 0)) with i by lia. reflexivity.
Qed.

Lemma zval_init lv : feq (zval (z_init lv)) (fun _ => 0).
Proof. intros p. unfold z_init. apply zval_default. Qed.

Lemma counts_spec s :
  kernel_wf (s_lv s) (s_a s) (s_b s) = true ->
  let evs := snd (kernel_run s) in
  cnt (is_cnt 0) evs = spec_leafs (s_da s) (s_db s) (s_lv s) (s_a s) (s_b s) /\
  cnt (is_cnt 2) evs = spec_leafs (s_da s) (s_db s) (s_lv s) (s_a s) (s_b s) /\
  cnt (is_cnt 1) evs
  = ref_adds (fun _ => 0) (spec_trace (s_da s) (s_db s) (s_lv s) (s_a s) (s_b s)).
Proof.
  intros Hwf. destruct (kernel_wf_ok _ _ _ Hwf) as [Hlv [Ha Hb]]. cbv zeta. unfold kernel_run.
  repeat split.
  - apply run_cnt_leafs; auto.
  - apply run_cnt_leafs; auto.
  - destruct (run_ref (s_wt s) (s_da s) (s_db s) (s_lv s) 0 (z_init (s_lv s)) (s_a s) (s_b s) Hlv Ha Hb
                (zok_default _)) as [_ [_ Hd]].
    rewrite Hd. apply ref_adds_ext. apply zval_init.
Qed.

(* the output tensor holds, at every point, the value of the reference map *)
Lemma output_ref s :
  kernel_wf (s_lv s) (s_a s) (s_b s) = true ->
  feq (zval (fst (kernel_run s)))
      (ref_final (fun _ => 0) (spec_trace (s_da s) (s_db s) (s_lv s) (s_a s) (s_b s))).
Proof.
  intros Hwf. destruct (kernel_wf_ok _ _ _ Hwf) as [Hlv [Ha Hb]]. unfold kernel_run.
  destruct (run_ref (s_wt s) (s_da s) (s_db s) (s_lv s) 0 (z_init (s_lv s)) (s_a s) (s_b s) Hlv Ha Hb
              (zok_default _)) as [_ [Hv _]].
  intros p. rewrite Hv. apply ref_final_ext. apply zval_init.
Qed.

Lemma region0 c : c15_region c = 0 -> session_fails (k_final c) = false.
Proof. unfold c15_region. destruct (session_fails (k_final c)); [discriminate | reflexivity]. Qed.

Lemma model_meets_spec c :
  c15_wf c = true -> c15_region c = 0 -> c15_holds c (c15_model c) = true.
Proof.
  intros Hwf Hreg. apply region0 in Hreg. unfold c15_holds. rewrite Hwf. cbn [andb].
  unfold c15_wf in Hwf. rewrite !andb_true_iff in Hwf. destruct Hwf as [Hk Hend].
  unfold c15_model. rewrite obs_from_closed by auto. rewrite Hreg.
  unfold obs_closed, c15_obs, V_counts, counts_ev. cbn [fst snd].
  destruct (counts_spec _ Hk) as [H0 [H2 H1]]. cbv zeta in *.
  rewrite (iters_ev_spec _ Hk), H0, H2, H1.
  unfold kernel_run. rewrite run_transparent.
  rewrite !V_eqb_refl, !Z.eqb_refl. reflexivity.
Qed.

(* in the region of the known finding the observation is the error, and the property fails *)
Lemma model_region1 c :
  s_end (k_final c) = true -> c15_region c = 1 ->
  c15_model c = Verr 3 /\ c15_holds c (c15_model c) = false.
Proof.
  intros Hend Hreg. unfold c15_region in Hreg.
  destruct (session_fails (k_final c)) eqn:Ef; [|discriminate].
  assert (c15_model c = Verr 3) as ->.
  { unfold c15_model. rewrite obs_from_closed by auto. rewrite Ef. reflexivity. }
  split; [reflexivity|]. unfold c15_holds. apply andb_false_r.
Qed.

(* the region is empty when the output has a declared shape or no populate_write_0 trace is
   registered: there every case holds *)
Lemma no_write_trace_region0 c :
  s_zshape (k_final c) = true \/ forallb (fun k => negb (Z.eqb (snd k) 4)) (s_traces (k_final c)) = true ->
  c15_region c = 0.
Proof.
  intros H. unfold c15_region, session_fails.
  rewrite cnt_zero_existsb; [reflexivity|]. apply run_no_fail. intros q. unfold s_wt.
  destruct H as [-> | H]; [reflexivity|].
  apply andb_false_iff. right.
  induction (s_traces (k_final c)) as [|k ks IH]; cbn [existsb forallb] in *; auto.
  apply andb_true_iff in H. destruct H as [Hk Hks]. rewrite (IH Hks), orb_false_r.
  unfold key_eqb. cbn [fst snd]. apply negb_true_iff in Hk.
  destruct (Z.eqb_spec 4 (snd k)); [|apply andb_false_r].
  rewrite Z.eqb_neq in Hk. congruence.
Qed.

(* the output tensor of a session, started in any state, is the output with collection off *)
Lemma session_transparent m s :
  fst (fst (run_session m s)) = fst (run false 0 (s_wt s) (s_da s) (s_db s) (s_lv s) (z_init (s_lv s)) (s_a s) (s_b s)).
Proof.
  unfold run_session. destruct (session_start_facts m s) as [Hc _]. cbv zeta in Hc. rewrite Hc.
  rewrite <- run_transparent.
  destruct (run true 0 (s_wt s) (s_da s) (s_db s) (s_lv s) (z_init (s_lv s)) (s_a s) (s_b s)). reflexivity.
Qed.

Lemma session_iters_exact m s q :
  traced_iter s q = true ->
  num_iters (file_lines (q, 0)
     (m_files (end_collect (fold_left m_apply (snd (kernel_run s)) (session_start m s)))))
  = cnt (is_use q) (snd (kernel_run s)).
Proof.
  intros Ht. rewrite (session_iters m s q _ Ht). apply num_iters_reg. apply run_reg_first.
Qed.

Lemma model_isolated p1 p2 f :
  s_end f = true ->
  c15_model {| k_prior := p1; k_final := f |} = c15_model {| k_prior := p2; k_final := f |}.
Proof. intros H. unfold c15_model. cbn [k_final]. apply obs_isolated; auto. Qed.

Lemma lookup_existsb c (b : fib) :
  existsb (Z.eqb c) (map fst b) = match lookup c b with Some _ => true | None => false end.
Proof.
  induction b as [|[c' p] b IH]; cbn [map existsb lookup fst]; auto.
  destruct (Z.eqb c c'); auto.
Qed.

(* coordinates of the intersection = those coordinates of a that occur in b *)
Lemma and_spec_coords a b :
  map fst (and_spec a b) = filter (fun c => existsb (Z.eqb c) (map fst b)) (map fst a).
Proof.
  induction a as [|[c p] a IH]; cbn [and_spec map filter fst]; auto.
  rewrite lookup_existsb. destruct (lookup c b); cbn [map fst]; rewrite IH; reflexivity.
Qed.

Lemma leaf_rule vz va vb :
  leaf_stmt true (Leaf vz) (Leaf va) (Leaf vb)
  = (Leaf (vz + va * vb), ECount 0 :: ECount 2 :: (if Z.eqb vz 0 then [] else [ECount 1])).
Proof. reflexivity. Qed.
