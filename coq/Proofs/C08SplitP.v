(* C08SplitP.v — lemmas about Model/C08Split.v: the single-pass splitters compute the
   reference map of Model/C08SplitCheck.v. *)
From Coq Require Import ZArith List Bool Lia ZifyBool PeanoNat.
From FT Require Import Model.Base Model.Obs Model.C08Split Model.C08SplitCheck.
Import ListNotations.
Open Scope Z_scope.

(* ------------------------------------------------------------------ sorted lists *)
Lemma ssorted_cons x l : ssorted (x :: l) = true -> ssorted l = true.
Proof.
  cbn [ssorted]. destruct l as [|y l']; [reflexivity|].
  intros H. apply andb_true_iff in H. apply H.
Qed.

Lemma ssorted_cons_lt x l : ssorted (x :: l) = true -> forall y, In y l -> x < y.
Proof.
  revert x. induction l as [|z l IH]; intros x H y Hy; [destruct Hy|].
  cbn [ssorted] in H. apply andb_true_iff in H. destruct H as [Hxz Hs].
  destruct Hy as [->|Hy]; [lia|].
  specialize (IH z Hs y Hy). lia.
Qed.

Lemma ssorted_nth_lt l : ssorted l = true -> forall i j a b,
  (i < j)%nat -> nth_error l i = Some a -> nth_error l j = Some b -> a < b.
Proof.
  induction l as [|x l IH]; intros Hs i j a b Hij Ha Hb.
  - destruct i; discriminate.
  - destruct j as [|j]; [lia|]. cbn [nth_error] in Hb.
    destruct i as [|i].
    + cbn [nth_error] in Ha. injection Ha as <-.
      apply (ssorted_cons_lt _ _ Hs). eapply nth_error_In; eauto.
    + cbn [nth_error] in Ha. apply (IH (ssorted_cons _ _ Hs) i j); auto. lia.
Qed.

Lemma ssorted_cons_intro x l :
  ssorted l = true -> (forall y, In y l -> x < y) -> ssorted (x :: l) = true.
Proof.
  intros Hs Hlt. destruct l as [|y r]; [reflexivity|].
  change (ssorted (x :: y :: r)) with ((x <? y) && ssorted (y :: r)).
  rewrite Hs, andb_true_r. specialize (Hlt y (or_introl eq_refl)). lia.
Qed.

Lemma ssorted_filter_fst (f : elem -> bool) (l : list elem) :
  ssorted (map fst l) = true -> ssorted (map fst (filter f l)) = true.
Proof.
  induction l as [|x l IH]; intros Hs; [reflexivity|].
  cbn [map] in Hs. pose proof (ssorted_cons _ _ Hs) as Hs'.
  cbn [filter]. destruct (f x); [|auto].
  cbn [map]. apply ssorted_cons_intro; [auto|].
  intros y Hy. apply (ssorted_cons_lt _ _ Hs).
  apply in_map_iff in Hy. destruct Hy as [e [<- He]]. apply filter_In in He.
  apply in_map. apply He.
Qed.

Lemma filter_all_false {A} (f : A -> bool) l :
  (forall x, In x l -> f x = false) -> filter f l = [].
Proof.
  induction l as [|x l IH]; intros H; [reflexivity|].
  cbn [filter]. rewrite (H x (or_introl eq_refl)). apply IH. intros y Hy. apply H. right. exact Hy.
Qed.

(* ------------------------------------------------------------------ app_at *)
Lemma app_at_length {K} i x (st : list (K * list elem)) : length (app_at i x st) = length st.
Proof.
  revert i. induction st as [|[k b] st IH]; intros i; [reflexivity|].
  destruct i; cbn [app_at length]; auto.
Qed.

Lemma app_at_nth {K} (dk : K) j x (st : list (K * list elem)) i :
  (j < length st)%nat ->
  snd (nth i (app_at j x st) (dk, [])) =
  if Nat.eqb i j then snd (nth i st (dk, [])) ++ [x] else snd (nth i st (dk, [])).
Proof.
  revert i j. induction st as [|[k b] st IH]; intros i j Hj; [cbn in Hj; lia|].
  destruct j as [|j]; destruct i as [|i]; cbn [app_at nth Nat.eqb snd]; try reflexivity.
  apply IH. cbn in Hj. lia.
Qed.

Lemma app_at_keys {K} j x (st : list (K * list elem)) : map fst (app_at j x st) = map fst st.
Proof.
  revert j. induction st as [|[k b] st IH]; intros j; [reflexivity|].
  destruct j; cbn [app_at map fst]; [reflexivity|]. rewrite IH. reflexivity.
Qed.

(* ------------------------------------------------------------------ min_list *)
Lemma min_list_some l m : min_list l = Some m -> In m l /\ forall y, In y l -> (m <= y)%nat.
Proof.
  revert m. induction l as [|x l IH]; intros m H; [discriminate|].
  cbn [min_list] in H. destruct (min_list l) as [m'|] eqn:E.
  - injection H as <-. destruct (IH m' eq_refl) as [Hin Hle]. split.
    + destruct (Nat.min_spec x m') as [[_ ->]|[_ ->]]; [left; reflexivity|right; exact Hin].
    + intros y [<-|Hy]; [lia|]. specialize (Hle y Hy). lia.
  - injection H as <-. destruct l; [|cbn in E; destruct (min_list l); discriminate].
    split; [left; reflexivity|]. intros y [<-|[]]. lia.
Qed.

Lemma min_list_none l : min_list l = None -> l = [].
Proof. destruct l as [|x l]; [reflexivity|]. cbn. destruct (min_list l); discriminate. Qed.

(* ================================================================== non-uniform *)
Section NonUniform.
  Variables (splits : list Z) (pre post a0 a1 : Z).
  Hypothesis Hsorted : ssorted splits = true.
  Hypothesis Hpre : 0 <= pre.
  Hypothesis Hpost : 0 <= post.

  (* element x belongs to partition j of the split list *)
  Definition sel (j : nat) (x : elem) : bool :=
    match bnd splits j with
    | Some s => member pre post a0 a1 s (bnd splits (S j)) x
    | None => false
    end.

  Let n := length splits.

  Definition in_window (x : elem) : Prop := a0 - pre <= fst x /\ fst x < a1 + post.

  Lemma bnd_lt i j a b : (i < j)%nat -> bnd splits i = Some a -> bnd splits j = Some b -> a < b.
  Proof. unfold bnd. intros. eapply ssorted_nth_lt; eauto. Qed.

  Lemma bnd_some i : (i < n)%nat -> exists s, bnd splits i = Some s.
  Proof.
    intros H. unfold bnd. destruct (nth_error splits i) eqn:E; [eauto|].
    apply nth_error_None in E. unfold n in H. lia.
  Qed.

  Lemma bnd_none i : (n <= i)%nat -> bnd splits i = None.
  Proof. intros H. unfold bnd. apply nth_error_None. exact H. Qed.

  Lemma bnd_le i j a b : (i <= j)%nat -> bnd splits i = Some a -> bnd splits j = Some b -> a <= b.
  Proof.
    intros Hij Ha Hb. destruct (Nat.eq_dec i j) as [->|Hne].
    - rewrite Ha in Hb. injection Hb as <-. lia.
    - assert (a < b) by (apply (bnd_lt i j a b); [lia|exact Ha|exact Hb]). lia.
  Qed.

  (* the while loop selects exactly the partitions from i on that the element belongs to *)
  Lemma nu_while_spec fuel : forall x i bk inds,
    in_window x -> (i + fuel = n)%nat -> length bk = n ->
    let r := nu_while fuel splits pre post a0 a1 x i bk inds in
    length (fst r) = n /\
    (forall j, (j < n)%nat ->
       snd (nth j (fst r) (tt, [])) =
       snd (nth j bk (tt, [])) ++ (if (i <=? j)%nat && sel j x then [x] else [])) /\
    snd r = inds ++ filter (fun j => sel j x) (seq i fuel).
  Proof.
    induction fuel as [|f IH]; intros x i bk inds Hw Hi Hlen.
    - cbn [nu_while fst snd seq filter]. split; [exact Hlen|]. split.
      + intros j Hj. replace (i <=? j)%nat with false by (symmetry; apply Nat.leb_gt; lia).
        cbn [andb]. rewrite app_nil_r. reflexivity.
      + rewrite app_nil_r. reflexivity.
    - destruct (bnd_some i ltac:(lia)) as [s Hs].
      (* facts used for the two break arms: nothing from i on is selected *)
      assert (Hbreak : (a1 <= s \/ fst x < s - pre) ->
                       forall j, (i <= j)%nat -> sel j x = false).
      { intros Hc j Hj. unfold sel. destruct (bnd splits j) as [sj|] eqn:Esj; [|reflexivity].
        pose proof (bnd_le i j s sj Hj Hs Esj).
        unfold member, meets, p_lo. destruct Hc; lia. }
      cbn [nu_while].
      destruct (ext_le (bnd splits (S i)) a0) eqn:C1.
      { (* continue: partition i lies before the active range *)
        assert (sel i x = false) as Hsel.
        { unfold sel. rewrite Hs. unfold member, meets. rewrite C1. cbn [negb]. rewrite andb_false_r. reflexivity. }
        cbn [seq filter]. rewrite Hsel. specialize (IH x (S i) bk inds Hw ltac:(lia) Hlen).
        cbn zeta in IH. destruct IH as [L [B I]]. split; [exact L|]. split; [|exact I].
        intros j Hj. rewrite (B j Hj). f_equal.
        destruct (Nat.eq_dec i j) as [->|Hne].
        - rewrite Hsel. rewrite !andb_false_r. reflexivity.
        - replace (S i <=? j)%nat with (i <=? j)%nat; [reflexivity|].
          destruct (i <=? j)%nat eqn:E1; symmetry.
          + apply Nat.leb_le. apply Nat.leb_le in E1. lia.
          + apply Nat.leb_gt. apply Nat.leb_gt in E1. lia. }
      destruct (ext_ge (bnd splits i) a1) eqn:C2.
      { rewrite Hs in C2. cbn [ext_ge] in C2.
        assert (forall j, (i <= j)%nat -> sel j x = false) as Hno by (apply Hbreak; lia).
        cbn [fst snd]. split; [exact Hlen|]. split.
        - intros j Hj. destruct (i <=? j)%nat eqn:E1.
          + rewrite (Hno j) by (apply Nat.leb_le; exact E1). rewrite app_nil_r. reflexivity.
          + cbn [andb]. rewrite app_nil_r. reflexivity.
        - rewrite filter_all_false, app_nil_r; [reflexivity|].
          intros j Hj. apply in_seq in Hj. apply Hno. lia. }
      destruct (ge_ext_add (fst x) (bnd splits (S i)) post) eqn:C3.
      { assert (sel i x = false) as Hsel.
        { unfold sel. rewrite Hs. unfold member, p_hi, ext_min.
          unfold ge_ext_add in C3. destruct (bnd splits (S i)); [lia|discriminate]. }
        cbn [seq filter]. rewrite Hsel. specialize (IH x (S i) bk inds Hw ltac:(lia) Hlen).
        cbn zeta in IH. destruct IH as [L [B I]]. split; [exact L|]. split; [|exact I].
        intros j Hj. rewrite (B j Hj). f_equal.
        destruct (Nat.eq_dec i j) as [->|Hne].
        - rewrite Hsel. rewrite !andb_false_r. reflexivity.
        - replace (S i <=? j)%nat with (i <=? j)%nat; [reflexivity|].
          destruct (i <=? j)%nat eqn:E1; symmetry.
          + apply Nat.leb_le. apply Nat.leb_le in E1. lia.
          + apply Nat.leb_gt. apply Nat.leb_gt in E1. lia. }
      destruct (lt_ext_sub (fst x) (bnd splits i) pre) eqn:C4.
      { rewrite Hs in C4. cbn [lt_ext_sub] in C4.
        assert (forall j, (i <= j)%nat -> sel j x = false) as Hno by (apply Hbreak; lia).
        cbn [fst snd]. split; [exact Hlen|]. split.
        - intros j Hj. destruct (i <=? j)%nat eqn:E1.
          + rewrite (Hno j) by (apply Nat.leb_le; exact E1). rewrite app_nil_r. reflexivity.
          + cbn [andb]. rewrite app_nil_r. reflexivity.
        - rewrite filter_all_false, app_nil_r; [reflexivity|].
          intros j Hj. apply in_seq in Hj. apply Hno. lia. }
      (* the element is placed in partition i *)
      assert (sel i x = true) as Hsel.
      { unfold sel. rewrite Hs. rewrite Hs in C2, C4. cbn [ext_ge lt_ext_sub] in C2, C4.
        destruct Hw as [Hw1 Hw2].
        unfold member, meets, p_lo, p_hi, ext_min. rewrite C1.
        unfold ge_ext_add in C3. destruct (bnd splits (S i)); lia. }
      cbn [seq filter]. rewrite Hsel.
      specialize (IH x (S i) (app_at i x bk) (inds ++ [i]) Hw ltac:(lia)
                     ltac:(rewrite app_at_length; exact Hlen)).
      cbn zeta in IH. destruct IH as [L [B I]]. split; [exact L|]. split.
      + intros j Hj. rewrite (B j Hj).
        rewrite (app_at_nth tt i x bk j) by lia.
        destruct (Nat.eq_dec j i) as [->|Hne].
        * rewrite Nat.eqb_refl. replace (S i <=? i)%nat with false by (symmetry; apply Nat.leb_gt; lia).
          rewrite Nat.leb_refl, Hsel. cbn [andb]. rewrite app_nil_r. reflexivity.
        * replace (Nat.eqb j i) with false by (symmetry; apply Nat.eqb_neq; exact Hne).
          f_equal. replace (S i <=? j)%nat with (i <=? j)%nat; [reflexivity|].
          destruct (i <=? j)%nat eqn:E1; symmetry.
          -- apply Nat.leb_le. apply Nat.leb_le in E1. lia.
          -- apply Nat.leb_gt. apply Nat.leb_gt in E1. lia.
      + rewrite I. rewrite <- app_assoc. reflexivity.
  Qed.
  Lemma sel_window j x : sel j x = true -> in_window x.
  Proof.
    unfold sel, in_window. destruct (bnd splits j) as [s|]; [|discriminate].
    unfold member, meets, p_lo, p_hi, ext_min. destruct (bnd splits (S j)); lia.
  Qed.

  Lemma sel_future j m x x' :
    (j < m)%nat -> sel j x = false -> sel m x = true -> fst x <= fst x' -> sel j x' = false.
  Proof.
    intros Hjm Hj Hm Hle. unfold sel in *.
    destruct (bnd splits m) as [sm|] eqn:Em; [|discriminate].
    destruct (bnd splits j) as [sj|] eqn:Ej; [|reflexivity].
    assert (S j <= m)%nat as Hle' by lia.
    destruct (bnd splits (S j)) as [ej|] eqn:Eej.
    - pose proof (bnd_le (S j) m ej sm Hle' Eej Em).
      pose proof (bnd_lt j m sj sm Hjm Ej Em).
      unfold member, meets, p_lo, p_hi, ext_min, ext_le in *.
      destruct (bnd splits (S m)); lia.
    - exfalso. unfold bnd in Eej, Em. apply nth_error_None in Eej.
      assert (nth_error splits m <> None) as Hn by congruence.
      apply nth_error_Some in Hn. lia.
  Qed.

  Lemma nu_outer_spec : forall l bk ss B,
    ssorted (map fst l) = true ->
    length bk = n -> (ss <= n)%nat ->
    (forall j, (j < n)%nat -> snd (nth j bk (tt, [])) = B j) ->
    (forall j x', (j < ss)%nat -> In x' l -> sel j x' = false) ->
    let r := nu_outer splits pre post a0 a1 l bk ss in
    length r = n /\
    forall j, (j < n)%nat -> snd (nth j r (tt, [])) = B j ++ filter (sel j) l.
  Proof.
    induction l as [|[c p] l IH]; intros bk ss B Hsl Hlen Hss HB Hinv.
    - cbn [nu_outer filter]. split; [exact Hlen|]. intros j Hj. rewrite app_nil_r. auto.
    - cbn [map fst] in Hsl. pose proof (ssorted_cons _ _ Hsl) as Hsl'.
      pose proof (ssorted_cons_lt _ _ Hsl) as Hlt.
      assert (Hinv' : forall j x', (j < ss)%nat -> In x' l -> sel j x' = false)
        by (intros j x' Hj Hx; apply Hinv; [exact Hj|right; exact Hx]).
      cbn [nu_outer].
      destruct (c <? a0 - pre) eqn:C1.
      { (* before the window: belongs to no partition *)
        assert (forall j, sel j (c, p) = false) as Hno.
        { intros j. destruct (sel j (c, p)) eqn:E; [|reflexivity].
          apply sel_window in E. unfold in_window in E. cbn [fst] in E. lia. }
        specialize (IH bk ss B Hsl' Hlen Hss HB Hinv'). cbn zeta in IH.
        destruct IH as [L R]. split; [exact L|]. intros j Hj. rewrite (R j Hj).
        cbn [filter]. rewrite Hno. reflexivity. }
      destruct (a1 + post <=? c) eqn:C2.
      { (* past the window: neither this nor any later element belongs anywhere *)
        split; [exact Hlen|]. intros j Hj. rewrite (HB j Hj).
        rewrite filter_all_false; [rewrite app_nil_r; reflexivity|].
        intros x' Hx'. destruct (sel j x') eqn:E; [|reflexivity].
        apply sel_window in E. unfold in_window in E.
        destruct Hx' as [<-|Hx']; [cbn [fst] in E; lia|].
        specialize (Hlt (fst x') (in_map fst _ _ Hx')). lia. }
      destruct (lt_ext_sub c (bnd splits ss) pre) eqn:C3.
      { assert (forall j, sel j (c, p) = false) as Hno.
        { intros j. destruct (Nat.lt_ge_cases j ss) as [Hj|Hj].
          - apply Hinv; [exact Hj|left; reflexivity].
          - unfold sel. destruct (bnd splits j) as [sj|] eqn:Ej; [|reflexivity].
            destruct (bnd splits ss) as [s0|] eqn:E0.
            + pose proof (bnd_le ss j s0 sj Hj E0 Ej). cbn [lt_ext_sub] in C3.
              unfold member, p_lo. cbn [fst]. lia.
            + exfalso. unfold bnd in E0, Ej. apply nth_error_None in E0.
              assert (nth_error splits j <> None) as Hn by congruence.
              apply nth_error_Some in Hn. lia. }
        specialize (IH bk ss B Hsl' Hlen Hss HB Hinv'). cbn zeta in IH.
        destruct IH as [L R]. split; [exact L|]. intros j Hj. rewrite (R j Hj).
        cbn [filter]. rewrite Hno. reflexivity. }
      assert (in_window (c, p)) as Hw by (unfold in_window; cbn [fst]; lia).
      pose proof (nu_while_spec (length splits - ss) (c, p) ss bk [] Hw
                                ltac:(unfold n in *; lia) Hlen) as W.
      cbn zeta in W.
      destruct (nu_while (length splits - ss) splits pre post a0 a1 (c, p) ss bk [])
        as [bk' inds] eqn:EW.
      cbn [fst snd] in W. destruct W as [L' [B' I']]. cbn [app] in I'.
      set (B2 := fun j => B j ++ (if sel j (c, p) then [(c, p)] else [])).
      assert (HB2 : forall j, (j < n)%nat -> snd (nth j bk' (tt, [])) = B2 j).
      { intros j Hj. rewrite (B' j Hj), (HB j Hj). unfold B2. f_equal.
        destruct (ss <=? j)%nat eqn:E1; [reflexivity|].
        apply Nat.leb_gt in E1. rewrite (Hinv j (c, p) E1 (or_introl eq_refl)). reflexivity. }
      assert (Hfin : forall r, (length r = n /\
                 forall j, (j < n)%nat -> snd (nth j r (tt, [])) = B2 j ++ filter (sel j) l) ->
                 length r = n /\
                 forall j, (j < n)%nat ->
                   snd (nth j r (tt, [])) = B j ++ filter (sel j) ((c, p) :: l)).
      { intros r [L R]. split; [exact L|]. intros j Hj. rewrite (R j Hj). unfold B2.
        cbn [filter]. destruct (sel j (c, p)); rewrite <- app_assoc; reflexivity. }
      destruct (min_list inds) as [m|] eqn:Em.
      + apply min_list_some in Em. destruct Em as [Hm Hmin].
        rewrite I' in Hm. apply filter_In in Hm. destruct Hm as [Hm1 Hm2].
        apply in_seq in Hm1. apply Hfin.
        apply (IH bk' m B2 Hsl' L' ltac:(unfold n in *; lia) HB2).
        intros j x' Hj Hx'.
        destruct (Nat.lt_ge_cases j ss) as [Hjs|Hjs]; [apply Hinv'; assumption|].
        apply (sel_future j m (c, p) x' Hj); [|exact Hm2|].
        * destruct (sel j (c, p)) eqn:E; [|reflexivity]. exfalso.
          assert (In j inds) as Hji.
          { rewrite I'. apply filter_In. split; [apply in_seq; unfold n in *; lia|exact E]. }
          specialize (Hmin j Hji). lia.
        * cbn [fst]. specialize (Hlt (fst x') (in_map fst _ _ Hx')). lia.
      + apply Hfin. apply (IH bk' ss B2 Hsl' L' Hss HB2 Hinv').
  Qed.

  (* the final buckets: partition j holds exactly the elements that belong to it *)
  Lemma nu_outer_final l :
    ssorted (map fst l) = true ->
    nu_outer splits pre post a0 a1 l (map (fun _ => (tt, [])) splits) O
    = map (fun j => (tt, filter (sel j) l)) (seq 0 n).
  Proof.
    intros Hsl.
    pose proof (nu_outer_spec l (map (fun _ => (tt, [])) splits) O (fun _ => []) Hsl
                  ltac:(rewrite map_length; reflexivity) ltac:(lia)) as H.
    cbn zeta in H. destruct H as [L R].
    - intros j Hj. clear. revert j. induction splits as [|s r IH]; intros [|j]; cbn; auto.
    - intros j x' Hj. lia.
    - apply (nth_ext _ _ (tt, []) ((fun j => (tt, filter (sel j) l)) O)).
      + rewrite L, map_length, seq_length. reflexivity.
      + intros j Hj. rewrite L in Hj.
        rewrite (map_nth (fun j => (tt, filter (sel j) l)) (seq 0 n) O j).
        rewrite seq_nth by exact Hj. cbn [Nat.add].
        specialize (R j Hj). cbn [app] in R.
        destruct (nth j (nu_outer splits pre post a0 a1 l (map (fun _ => (tt, [])) splits) O) (tt, []))
          as [[] b]. cbn [snd] in R. rewrite R. reflexivity.
  Qed.
End NonUniform.

(* ------------------------------------------------------------------ emitting the buckets *)
Lemma nu_emit_ref splits pre post a0 a1 rel pes : forall suf pre_l,
  splits = pre_l ++ suf ->
  nu_emit splits a0 a1 rel (length pre_l)
          (map (fun j => (tt, filter (sel splits pre post a0 a1 j) pes))
               (seq (length pre_l) (length suf)))
  = flat_map (ref_part pre post rel a0 a1 pes) (list_bounds suf).
Proof.
  induction suf as [|s r IH]; intros pre_l Hsp; [reflexivity|].
  cbn [length seq map nu_emit list_bounds flat_map].
  assert (bnd splits (length pre_l) = Some s) as Es.
  { unfold bnd. rewrite Hsp, nth_error_app2 by lia. rewrite Nat.sub_diag. reflexivity. }
  assert (bnd splits (S (length pre_l)) = match r with [] => None | e :: _ => Some e end) as Ee.
  { unfold bnd. rewrite Hsp, nth_error_app2 by lia.
    replace (S (length pre_l) - length pre_l)%nat with 1%nat by lia. destruct r; reflexivity. }
  assert (nth (length pre_l) splits 0 = s) as En.
  { rewrite Hsp, app_nth2 by lia. rewrite Nat.sub_diag. reflexivity. }
  specialize (IH (pre_l ++ [s])). rewrite app_length in IH. cbn [length] in IH.
  replace (length pre_l + 1)%nat with (S (length pre_l)) in IH by lia.
  rewrite IH by (rewrite <- app_assoc; exact Hsp).
  assert (filter (sel splits pre post a0 a1 (length pre_l)) pes
          = filter (member pre post a0 a1 s match r with [] => None | e :: _ => Some e end) pes)
    as Hf by (unfold sel; rewrite Es, Ee; reflexivity).
  rewrite Hf, Ee, En.
  unfold ref_part. cbn [fst snd]. unfold p_lo, p_hi.
  destruct (filter (member pre post a0 a1 s match r with [] => None | e :: _ => Some e end) pes);
    reflexivity.
Qed.

Lemma ref_parts_nil pre post rel a bs : ref_parts pre post rel a [] bs = [].
Proof. unfold ref_parts. induction bs as [|b bs IH]; [reflexivity|]. cbn. exact IH. Qed.

Theorem nonuniform_is_ref splits pre post rel d a es :
  ssorted splits = true -> 0 <= pre -> 0 <= post -> ssorted (map fst es) = true ->
  split_nonuniform_iter splits pre post rel d a es
  = ref_parts pre post rel a (present d es) (list_bounds splits).
Proof.
  intros Hs Hpre Hpost Hes. unfold split_nonuniform_iter.
  destruct es as [|e es']; [cbn [present filter]; rewrite ref_parts_nil; reflexivity|].
  rewrite (nu_outer_final splits pre post (fst a) (snd a) Hs)
    by (apply ssorted_filter_fst; exact Hes).
  apply (nu_emit_ref splits pre post (fst a) (snd a) rel (present d (e :: es')) splits []).
  reflexivity.
Qed.

(* ================================================================== what the oracle means *)
Definition ext_gt (e : option Z) (a : Z) : Prop := match e with Some z => a < z | None => True end.
Definition ext_lt_c (c : Z) (e : option Z) (post : Z) : Prop :=
  match e with Some z => c < z + post | None => True end.

Lemma member_iff pre post a0 a1 s e x :
  member pre post a0 a1 s e x = true <->
  (s < a1 /\ ext_gt e a0) /\ Z.max s a0 - pre <= fst x < ext_min e a1 + post.
Proof. unfold member, meets, p_lo, p_hi, ext_min, ext_le, ext_gt. destruct e; lia. Qed.

(* equivalently: inside the partition's own interval extended by the halos, and inside the
   active range extended by the halos *)
Lemma member_iff2 pre post a0 a1 s e x :
  member pre post a0 a1 s e x = true <->
  (s < a1 /\ ext_gt e a0) /\ (s - pre <= fst x /\ ext_lt_c (fst x) e post) /\
  (a0 - pre <= fst x < a1 + post).
Proof. unfold member, meets, p_lo, p_hi, ext_min, ext_le, ext_gt, ext_lt_c. destruct e; lia. Qed.

Lemma ref_parts_in pre post rel a pes bs p :
  In p (ref_parts pre post rel a pes bs) <->
  exists s e, In (s, e) bs /\
    filter (member pre post (fst a) (snd a) s e) pes <> [] /\
    p = (s, rel_coords rel s (filter (member pre post (fst a) (snd a) s e) pes),
         (Z.max s (fst a), ext_min e (snd a))).
Proof.
  unfold ref_parts. rewrite in_flat_map. split.
  - intros [[s e] [Hb Hp]]. exists s, e. split; [exact Hb|].
    unfold ref_part in Hp. cbn [fst snd] in Hp.
    destruct (filter (member pre post (fst a) (snd a) s e) pes) as [|y l] eqn:E; [destruct Hp|].
    destruct Hp as [<-|[]]. split; [discriminate|reflexivity].
  - intros [s [e [Hb [Hne ->]]]]. exists (s, e). split; [exact Hb|].
    unfold ref_part. cbn [fst snd].
    destruct (filter (member pre post (fst a) (snd a) s e) pes) as [|y l] eqn:E; [congruence|].
    left. reflexivity.
Qed.

Lemma ref_parts_lower_in pre post a pes bs s lower r x :
  In (s, lower, r) (ref_parts pre post false a pes bs) ->
  (In x lower <-> In x pes /\ exists e, In (s, e) bs /\ r = (Z.max s (fst a), ext_min e (snd a)) /\
                                      member pre post (fst a) (snd a) s e x = true).
Proof.
  intros H. apply ref_parts_in in H. destruct H as [s' [e [Hb [Hne Hp]]]].
  injection Hp as -> -> ->. cbn [rel_coords]. rewrite filter_In. split.
  - intros [H1 H2]. split; [exact H1|]. exists e. auto.
  - intros [H1 [e' [Hb' [Hr Hm]]]]. split; [exact H1|].
    (* the range determines membership: same s, same clipped end *)
    injection Hr as Hr. apply member_iff in Hm. apply member_iff.
    destruct Hm as [[Hm1 Hm2] Hm3]. rewrite <- Hr in Hm3.
    split; [|exact Hm3]. split; [exact Hm1|].
    destruct (filter (member pre post (fst a) (snd a) s' e) pes) as [|y l] eqn:E; [congruence|].
    assert (In y (filter (member pre post (fst a) (snd a) s' e) pes)) as Hy by (rewrite E; left; reflexivity).
    apply filter_In in Hy. destruct Hy as [_ Hy]. apply member_iff in Hy. apply Hy.
Qed.

Lemma ref_parts_keys_sub pre post rel a pes bs k :
  In k (map (fun p : part => fst (fst p)) (ref_parts pre post rel a pes bs)) -> In k (map fst bs).
Proof.
  intros H. apply in_map_iff in H. destruct H as [p [<- Hp]].
  apply ref_parts_in in Hp. destruct Hp as [s [e [Hb [_ ->]]]]. cbn [fst].
  apply (in_map fst _ _ Hb).
Qed.

Lemma ref_parts_ascending pre post rel a pes bs :
  ssorted (map fst bs) = true ->
  ssorted (map (fun p : part => fst (fst p)) (ref_parts pre post rel a pes bs)) = true.
Proof.
  induction bs as [|[s e] bs IH]; intros Hs; [reflexivity|].
  cbn [map fst] in Hs. pose proof (ssorted_cons _ _ Hs) as Hs'.
  unfold ref_parts. cbn [flat_map]. fold (ref_parts pre post rel a pes bs).
  unfold ref_part at 1. cbn [fst snd].
  destruct (filter (member pre post (fst a) (snd a) s e) pes) as [|y l]; [apply IH; exact Hs'|].
  cbn [app map fst]. apply ssorted_cons_intro; [apply IH; exact Hs'|].
  intros k Hk. apply ref_parts_keys_sub in Hk. apply (ssorted_cons_lt _ _ Hs). exact Hk.
Qed.

Lemma rel_coords_spec s l :
  rel_coords false s l = l /\
  map fst (rel_coords true s l) = map (fun x => fst x - s) l /\
  map snd (rel_coords true s l) = map snd l.
Proof. unfold rel_coords. rewrite !map_map. cbn [fst snd]. auto. Qed.

(* consecutive partitions that both meet the active range abut; every range lies inside the
   active range; a partition [s', e') of a partition whose range is (lo, hi) has range
   [s', e') clipped to (lo, hi) — i.e. clipped to the original active range when it lies inside *)
Lemma ranges_tile a0 a1 s e e' :
  meets s (Some e) a0 a1 = true -> meets e e' a0 a1 = true ->
  p_hi (Some e) a1 = p_lo e a0.
Proof. unfold meets, p_hi, p_lo, ext_min, ext_le. destruct e'; lia. Qed.

Lemma ranges_inside a0 a1 s e :
  a0 < a1 -> meets s e a0 a1 = true ->
  a0 <= p_lo s a0 /\ p_lo s a0 < p_hi e a1 /\ p_hi e a1 <= a1 \/ ext_le e s = true.
Proof. unfold meets, p_hi, p_lo, ext_min, ext_le. destruct e; lia. Qed.

Lemma ranges_nested a0 a1 s e s' e' :
  p_lo s' (p_lo s a0) = Z.max s' (Z.max s a0) /\
  p_hi (Some e') (p_hi (Some e) a1) = Z.min e' (Z.min e a1) /\
  (s <= s' -> e' <= e -> p_lo s' (p_lo s a0) = p_lo s' a0 /\
                          p_hi (Some e') (p_hi (Some e) a1) = p_hi (Some e') a1).
Proof. unfold p_lo, p_hi, ext_min. lia. Qed.

(* ------------------------------------------------------------------ lossless, zero halos *)
Definition in_range (lo hi : Z) (x : elem) : bool := (lo <=? fst x) && (fst x <? hi).

Lemma filter_range_app (l : list elem) lo mid hi :
  ssorted (map fst l) = true -> lo <= mid -> mid <= hi ->
  filter (in_range lo mid) l ++ filter (in_range mid hi) l = filter (in_range lo hi) l.
Proof.
  intros Hs H1 H2. induction l as [|x l IH]; [reflexivity|].
  cbn [map] in Hs. pose proof (ssorted_cons _ _ Hs) as Hs'.
  pose proof (ssorted_cons_lt _ _ Hs) as Hlt. specialize (IH Hs').
  cbn [filter].
  destruct (in_range lo mid x) eqn:E1, (in_range mid hi x) eqn:E2, (in_range lo hi x) eqn:E3;
    unfold in_range in E1, E2, E3; try lia.
  - cbn [app]. rewrite IH. reflexivity.
  - assert (filter (in_range lo mid) l = []) as Hnil.
    { apply filter_all_false. intros y Hy. specialize (Hlt (fst y) (in_map fst _ _ Hy)).
      unfold in_range. lia. }
    rewrite Hnil in *. cbn [app] in *. rewrite IH. reflexivity.
  - exact IH.
Qed.

Definition clip (a0 a1 z : Z) : Z := Z.max a0 (Z.min z a1).
Definition clip_ext (a0 a1 : Z) (e : option Z) : Z :=
  match e with Some z => clip a0 a1 z | None => a1 end.

Lemma member0_range a0 a1 s e : a0 <= a1 -> forall x,
  member 0 0 a0 a1 s e x = in_range (clip a0 a1 s) (clip_ext a0 a1 e) x.
Proof.
  intros Ha x. unfold member, meets, p_lo, p_hi, ext_min, ext_le, in_range, clip_ext, clip.
  destruct e; lia.
Qed.

(* the lower fibers of a split list, concatenated in partition order, are the non-empty
   elements from the first boundary (clipped) to the end of the active range: every one
   exactly once, in the original order, payloads untouched *)
Lemma lossless_list a0 a1 (pes : list elem) : a0 <= a1 -> ssorted (map fst pes) = true ->
  forall splits, ssorted splits = true ->
  concat (map (fun p : part => snd (fst p)) (ref_parts 0 0 false (a0, a1) pes (list_bounds splits)))
  = match splits with
    | [] => []
    | s0 :: _ => filter (in_range (clip a0 a1 s0) a1) pes
    end.
Proof.
  intros Ha Hp. induction splits as [|s r IH]; intros Hs; [reflexivity|].
  pose proof (ssorted_cons _ _ Hs) as Hs'. specialize (IH Hs').
  unfold ref_parts in *. cbn [list_bounds flat_map fst snd]. cbn [fst snd] in IH.
  rewrite map_app, concat_app, IH.
  assert (concat (map (fun p : part => snd (fst p))
            (ref_part 0 0 false a0 a1 pes (s, match r with [] => None | e :: _ => Some e end)))
          = filter (member 0 0 a0 a1 s match r with [] => None | e :: _ => Some e end) pes) as ->.
  { unfold ref_part. cbn [fst snd].
    destruct (filter (member 0 0 a0 a1 s match r with [] => None | e :: _ => Some e end) pes);
      [reflexivity|]. cbn [map concat fst snd rel_coords]. rewrite app_nil_r. reflexivity. }
  rewrite (filter_ext _ _ (member0_range a0 a1 s _ Ha)).
  destruct r as [|e r'].
  - cbn [clip_ext]. rewrite app_nil_r. reflexivity.
  - cbn [clip_ext].
    assert (s < e) by (apply (ssorted_cons_lt _ _ Hs); left; reflexivity).
    apply filter_range_app; [exact Hp| |]; unfold clip; lia.
Qed.

(* ------------------------------------------------------------------ position-space boundaries *)
Lemma iter_range_sub d a0 a1 es x : In x (iter_range d a0 a1 es) -> In x es /\ a0 <= fst x.
Proof.
  induction es as [|[c t] es IH]; intros H; [destruct H|].
  cbn [iter_range] in H. destruct (a1 <=? c); [destruct H|].
  apply in_app_or in H. destruct H as [H|H].
  - destruct ((a0 <=? c) && negb (is_empty d t)) eqn:E; [|destruct H].
    destruct H as [<-|[]]. split; [left; reflexivity|cbn [fst]; lia].
  - destruct (IH H) as [H1 H2]. split; [right; exact H1|exact H2].
Qed.

Lemma iter_range_sorted d a0 a1 es :
  ssorted (map fst es) = true -> ssorted (map fst (iter_range d a0 a1 es)) = true.
Proof.
  induction es as [|[c t] es IH]; intros Hs; [reflexivity|].
  cbn [map fst] in Hs. pose proof (ssorted_cons _ _ Hs) as Hs'.
  cbn [iter_range]. destruct (a1 <=? c); [reflexivity|].
  destruct ((a0 <=? c) && negb (is_empty d t)); cbn [app]; [|auto].
  cbn [map fst]. apply ssorted_cons_intro; [auto|].
  intros y Hy. apply (ssorted_cons_lt _ _ Hs).
  apply in_map_iff in Hy. destruct Hy as [e [<- He]].
  apply iter_range_sub in He. apply in_map. apply He.
Qed.

Lemma eq_bounds_tail step a0 l : forall i, 0 < i -> ssorted (map fst l) = true ->
  ssorted (eq_bounds step a0 i l) = true /\
  forall k, In k (eq_bounds step a0 i l) -> In k (map fst l).
Proof.
  induction l as [|[c t] l IH]; intros i Hi Hs; [split; [reflexivity|intros k []]|].
  cbn [map fst] in Hs. pose proof (ssorted_cons _ _ Hs) as Hs'.
  destruct (IH (i + 1) ltac:(lia) Hs') as [IH1 IH2].
  cbn [eq_bounds]. replace (i =? 0) with false by lia.
  destruct (i mod step =? 0); cbn [app].
  - split.
    + apply ssorted_cons_intro; [exact IH1|]. intros y Hy.
      apply (ssorted_cons_lt _ _ Hs). apply IH2. exact Hy.
    + intros k [<-|Hk]; [left; reflexivity|right; apply IH2; exact Hk].
  - split; [exact IH1|]. intros k Hk. right. apply IH2. exact Hk.
Qed.

Lemma eq_bounds_sorted step d a0 a1 es :
  ssorted (map fst es) = true ->
  ssorted (eq_bounds step a0 0 (iter_range d a0 a1 es)) = true.
Proof.
  intros Hs. pose proof (iter_range_sorted d a0 a1 es Hs) as Hi.
  assert (forall x, In x (iter_range d a0 a1 es) -> a0 <= fst x) as Hge
    by (intros x Hx; apply (iter_range_sub d a0 a1 es x Hx)).
  destruct (iter_range d a0 a1 es) as [|[c t] l]; [reflexivity|].
  cbn [eq_bounds]. cbn [Z.eqb app]. cbn [map fst] in Hi.
  destruct (eq_bounds_tail step a0 l 1 ltac:(lia) (ssorted_cons _ _ Hi)) as [T1 T2].
  apply ssorted_cons_intro; [exact T1|].
  intros y Hy. specialize (T2 y Hy). pose proof (ssorted_cons_lt _ _ Hi y T2).
  specialize (Hge (c, t) (or_introl eq_refl)). cbn [fst] in Hge. lia.
Qed.

Lemma uneq_bounds_tail sizes a0 l : forall i base j, 0 < i -> ssorted (map fst l) = true ->
  ssorted (uneq_bounds sizes a0 i base j l) = true /\
  forall k, In k (uneq_bounds sizes a0 i base j l) -> In k (map fst l).
Proof.
  induction l as [|[c t] l IH]; intros i base j Hi Hs; [split; [reflexivity|intros k []]|].
  cbn [map fst] in Hs. pose proof (ssorted_cons _ _ Hs) as Hs'.
  cbn [uneq_bounds]. destruct (Nat.eqb j (length sizes)); [split; [reflexivity|intros k []]|].
  replace (i =? 0) with false by lia.
  destruct (i - base =? nth j sizes 0).
  - destruct (IH (i + 1) i (S j) ltac:(lia) Hs') as [IH1 IH2]. split.
    + apply ssorted_cons_intro; [exact IH1|]. intros y Hy.
      apply (ssorted_cons_lt _ _ Hs). apply IH2. exact Hy.
    + intros k [<-|Hk]; [left; reflexivity|right; apply IH2; exact Hk].
  - destruct (IH (i + 1) base j ltac:(lia) Hs') as [IH1 IH2].
    split; [exact IH1|]. intros k Hk. right. apply IH2. exact Hk.
Qed.

Lemma uneq_bounds_sorted sizes d a0 a1 es :
  ssorted (map fst es) = true ->
  ssorted (uneq_bounds sizes a0 0 0 O (iter_range d a0 a1 es)) = true.
Proof.
  intros Hs. pose proof (iter_range_sorted d a0 a1 es Hs) as Hi.
  assert (forall x, In x (iter_range d a0 a1 es) -> a0 <= fst x) as Hge
    by (intros x Hx; apply (iter_range_sub d a0 a1 es x Hx)).
  destruct (iter_range d a0 a1 es) as [|[c t] l]; [reflexivity|].
  cbn [uneq_bounds]. destruct (Nat.eqb 0 (length sizes)); [reflexivity|].
  cbn [Z.eqb]. cbn [map fst] in Hi.
  destruct (uneq_bounds_tail sizes a0 l 1 0 O ltac:(lia) (ssorted_cons _ _ Hi)) as [T1 T2].
  apply ssorted_cons_intro; [exact T1|].
  intros y Hy. specialize (T2 y Hy). pose proof (ssorted_cons_lt _ _ Hi y T2).
  specialize (Hge (c, t) (or_introl eq_refl)). cbn [fst] in Hge. lia.
Qed.

(* position-space splits: whatever boundaries the selection loop picked, the partitions are the
   reference map over those boundaries *)
Theorem position_is_ref pre post rel d a es :
  0 <= pre -> 0 <= post -> ssorted (map fst es) = true ->
  (forall step,
     split_nonuniform_iter (eq_bounds step (fst a) 0 (iter_range d (fst a) (snd a) es)) pre post rel d a es
     = ref_parts pre post rel a (present d es)
                 (list_bounds (eq_bounds step (fst a) 0 (iter_range d (fst a) (snd a) es)))) /\
  (forall sizes,
     split_nonuniform_iter (uneq_bounds sizes (fst a) 0 0 O (iter_range d (fst a) (snd a) es)) pre post rel d a es
     = ref_parts pre post rel a (present d es)
                 (list_bounds (uneq_bounds sizes (fst a) 0 0 O (iter_range d (fst a) (snd a) es)))).
Proof.
  intros Hpre Hpost Hs. split; intros; apply nonuniform_is_ref; auto using eq_bounds_sorted, uneq_bounds_sorted.
Qed.

(* ------------------------------------------------------------------ uniform: arithmetic *)
Lemma div_le_iff a b k : 0 < b -> (a / b <= k <-> a < (k + 1) * b).
Proof.
  intros Hb. pose proof (Z.div_mod a b ltac:(lia)). pose proof (Z.mod_pos_bound a b Hb).
  split; intros; nia.
Qed.
Lemma le_div_iff a b k : 0 < b -> (k <= a / b <-> k * b <= a).
Proof.
  intros Hb. pose proof (Z.div_mod a b ltac:(lia)). pose proof (Z.mod_pos_bound a b Hb).
  split; intros; nia.
Qed.

Lemma prog_in n : forall s step x,
  In x (prog n s step) <-> exists j, 0 <= j < Z.of_nat n /\ x = s + j * step.
Proof.
  induction n as [|n IH]; intros s step x.
  - cbn [prog]. split; [intros []|intros [j [Hj _]]; lia].
  - cbn [prog In]. rewrite IH. split.
    + intros [<-|[j [Hj ->]]]; [exists 0; lia|exists (j + 1); lia].
    + intros [j [Hj ->]]. destruct (Z.eq_dec j 0) as [->|Hne]; [left; lia|].
      right. exists (j - 1). lia.
Qed.

(* the partitions _SplitterUniform visits for an element are exactly the multiples of step
   whose interval extended by the halos contains the coordinate *)
Lemma parts_of_in step pre post c s :
  0 < step -> 0 <= pre -> 0 <= post ->
  (In s (parts_of step pre post c) <-> exists k, s = k * step /\ s - pre <= c < s + step + post).
Proof.
  intros Hs Hpre Hpost. unfold parts_of. rewrite prog_in.
  set (q0 := (c - post) / step). set (q1 := (c + pre) / step).
  assert (q0 <= q1) as Hq.
  { subst q0 q1. apply Z.div_le_mono; lia. }
  rewrite Z2Nat.id by lia. split.
  - intros [j [Hj ->]]. exists (q0 + j). split; [lia|].
    pose proof (div_le_iff (c - post) step (q0 + j) Hs) as A.
    pose proof (le_div_iff (c + pre) step (q0 + j) Hs) as B.
    assert ((c - post) / step <= q0 + j) as H3 by (subst q0; lia).
    assert (q0 + j <= (c + pre) / step) as H4 by (subst q1; lia).
    apply A in H3. apply B in H4. nia.
  - intros [k [-> Hk]]. exists (k - q0).
    pose proof (div_le_iff (c - post) step k Hs) as A.
    pose proof (le_div_iff (c + pre) step k Hs) as B.
    assert ((c - post) / step <= k) by (apply A; nia).
    assert (k <= (c + pre) / step) by (apply B; nia).
    subst q0 q1. split; [lia|]. lia.
Qed.

(* the boundaries the oracle enumerates for a uniform split: exactly the multiples of step
   whose interval [s, s+step) meets the active range, ascending *)
Lemma uni_bounds_in step a0 a1 s e :
  0 < step ->
  (In (s, e) (uni_bounds step a0 a1) <->
   exists k, s = k * step /\ e = Some (s + step) /\ a0 < s + step /\ s < a1).
Proof.
  intros Hs. unfold uni_bounds, iota. rewrite map_map, in_map_iff.
  set (q0 := a0 / step). set (q1 := (a1 - 1) / step).
  split.
  - intros [j [Hj Hin]]. apply in_seq in Hin. injection Hj as <- <-.
    exists (q0 + Z.of_nat j). split; [reflexivity|]. split; [reflexivity|].
    pose proof (div_le_iff a0 step (q0 + Z.of_nat j) Hs) as A.
    pose proof (le_div_iff (a1 - 1) step (q0 + Z.of_nat j) Hs) as B.
    assert (a0 / step <= q0 + Z.of_nat j) as H3 by (subst q0; lia).
    assert (q0 + Z.of_nat j <= (a1 - 1) / step) as H4 by (subst q1; lia).
    apply A in H3. apply B in H4. nia.
  - intros [k [-> [-> [H1 H2]]]].
    pose proof (div_le_iff a0 step k Hs) as A.
    pose proof (le_div_iff (a1 - 1) step k Hs) as B.
    assert (a0 / step <= k) by (apply A; nia).
    assert (k <= (a1 - 1) / step) by (apply B; nia).
    exists (Z.to_nat (k - q0)). split.
    + rewrite Z2Nat.id by (subst q0; lia). f_equal; [f_equal; lia|f_equal; f_equal; f_equal; lia].
    + apply in_seq. subst q0 q1. lia.
Qed.

Lemma uni_bounds_sorted step a0 a1 : 0 < step -> ssorted (map fst (uni_bounds step a0 a1)) = true.
Proof.
  intros Hs. unfold uni_bounds, iota. rewrite !map_map. cbn [fst].
  generalize (Z.to_nat ((a1 - 1) / step - a0 / step + 1)). intros n.
  generalize 0%nat. induction n as [|n IH]; intros b; [reflexivity|].
  cbn [seq map]. apply ssorted_cons_intro; [apply IH|].
  intros y Hy. apply in_map_iff in Hy. destruct Hy as [j [<- Hj]]. apply in_seq in Hj. nia.
Qed.
