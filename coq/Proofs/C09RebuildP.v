(* C09RebuildP.v — the tree built by swizzleRanks' rebuild loop from strictly ascending keys is
   sorted and has uniform depth. *)
From Coq Require Import ZArith List Bool Lia Permutation PeanoNat.
From FT Require Import Model.Base Model.Obs Model.C09Transform Model.C09Check
                       Proofs.C09OrderP Proofs.C09FlattenP Proofs.C09BelowP Proofs.C09CheckP
                       Proofs.C09SwizzleP Proofs.C09WfP.
Import ListNotations.
Open Scope Z_scope.

(* the rightmost path spells all of l *)
Fixpoint rpf (l : list coord) (t : ct) : Prop :=
  match l with
  | [] => True
  | c :: l' => match t with
               | CN es => exists es0 t', es = es0 ++ [(c, t')] /\ rpf l' t'
               | CL _ => False
               end
  end.

Lemma rpf_rp : forall j l t, rpf l t -> (j < length l)%nat -> rp j l t.
Proof.
  induction j as [|j IH]; intros l t H Hl; destruct l as [|c l']; simpl in Hl; try lia;
    destruct t as [v|es]; try (destruct H; fail); destruct H as [es0 [t' [-> H]]].
  - simpl. eexists. reflexivity.
  - simpl. exists es0, t'. split; [reflexivity|]. apply IH; [exact H|lia].
Qed.

Lemma rpf_chain : forall k p, rpf k (chain k p).
Proof. induction k as [|c k IH]; intros p; simpl; [exact I|]. exists [], (chain k p). split; [reflexivity|apply IH]. Qed.

Lemma rpf_after : forall p j k t, rp j k t -> (j < length k)%nat -> rpf k (rappend j k p t).
Proof.
  intros p. induction j as [|j IH]; intros k t Hrp Hlen.
  - destruct k as [|c k']; [simpl in Hlen; lia|]. destruct Hrp as [es ->]. simpl.
    exists es, (chain k' p). split; [reflexivity|apply rpf_chain].
  - destruct k as [|c k']; [destruct Hrp|]. destruct t as [v|es]; [destruct Hrp|].
    destruct Hrp as [es0 [t' [-> Hrp]]]. simpl in Hlen. simpl rappend. rewrite on_last_app.
    simpl. exists es0, (rappend j k' p t'). split; [reflexivity|]. apply IH; [exact Hrp|lia].
Qed.

(* ------------------------------------------------------------------ sortedness *)
Lemma csorted_chain : forall k p, csorted p = true -> csorted (chain k p) = true.
Proof. induction k as [|c k IH]; intros p H; simpl; [exact H|]. rewrite IH by exact H. reflexivity. Qed.

Lemma csorted_CN : forall es, csorted (CN es) = true <->
  pw ccmp (map fst es) /\ Forall (fun cp => csorted (snd cp) = true) es.
Proof.
  intros es. simpl. rewrite andb_true_iff, forallb_forall, Forall_forall. split; intros [H1 H2]; split; auto.
  - apply (asc_pw ccmp ccmp_trans). exact H1.
  - apply pw_asc. exact H1.
Qed.

Lemma csorted_snoc : forall es0 cl t' c t2,
  csorted (CN (es0 ++ [(cl, t')])) = true -> ccmp cl c = Lt -> csorted t2 = true ->
  csorted (CN ((es0 ++ [(cl, t')]) ++ [(c, t2)])) = true.
Proof.
  intros es0 cl t' c t2 H Hlt H2. apply csorted_CN in H. destruct H as [Hpw Hall]. apply csorted_CN. split.
  - rewrite map_app. apply pw_app; [exact Hpw|simpl; split; [constructor|exact I]|].
    intros x y Hx [<-|[]]. rewrite map_app in Hx, Hpw. apply in_app_or in Hx. destruct Hx as [Hx|[<-|[]]]; [|exact Hlt].
    apply ccmp_trans with (b := cl); [|exact Hlt].
    clear -Hpw Hx. induction es0 as [|[c0 p0] es0 IH]; [destruct Hx|]. simpl in *.
    destruct Hpw as [H0 Hpw]. destruct Hx as [<-|Hx]; [|auto].
    rewrite Forall_forall in H0. apply H0. apply in_or_app. right. left. reflexivity.
  - apply Forall_app. split; [exact Hall|]. constructor; [exact H2|constructor].
Qed.

Lemma csorted_rappend : forall p, csorted p = true -> forall j k l t,
  rpf l t -> firstn j k = firstn j l -> (j < length k)%nat -> length l = length k ->
  csorted t = true -> ccmp (nth j l []) (nth j k []) = Lt ->
  csorted (rappend j k p t) = true.
Proof.
  intros p Hp. induction j as [|j IH]; intros k l t Hrpf Hfn Hlen Hll Hs Hlt.
  - destruct k as [|c k']; [simpl in Hlen; lia|]. destruct l as [|cl l']; [discriminate|].
    destruct t as [v|es]; [destruct Hrpf|]. destruct Hrpf as [es0 [t' [-> _]]]. simpl in Hlt.
    simpl rappend. apply csorted_snoc; [exact Hs|exact Hlt|apply csorted_chain; exact Hp].
  - destruct k as [|c k']; [simpl in Hlen; lia|]. destruct l as [|cl l']; [discriminate|].
    simpl in Hfn. inversion Hfn as [[Ec Hfn']]. subst cl.
    destruct t as [v|es]; [destruct Hrpf|]. destruct Hrpf as [es0 [t' [-> Hrpf]]].
    simpl in Hlen, Hll, Hlt. simpl rappend. rewrite on_last_app.
    apply csorted_CN in Hs. destruct Hs as [Hpw Hall]. apply csorted_CN. split.
    + rewrite map_app in *. exact Hpw.
    + apply Forall_app in Hall. destruct Hall as [Ha Hb]. apply Forall_app. split; [exact Ha|].
      inversion Hb as [|? ? Ht' _]; subst. constructor; [|constructor]. simpl in *.
      apply (IH k' l' t'); auto; lia.
Qed.

(* where the new key first differs from the previous one, it is larger there *)
Lemma cpl_diff_lt : forall l k, kcmp l k = Lt -> length l = length k ->
  ccmp (nth (cpl (removelast k) l) l []) (nth (cpl (removelast k) l) k []) = Lt.
Proof.
  induction l as [|cl l' IH]; intros k Hlt Hlen; destruct k as [|c k']; try discriminate.
  simpl in Hlen. unfold kcmp in Hlt. simpl in Hlt.
  destruct k' as [|c2 k''].
  - destruct l'; [|discriminate]. simpl. destruct (ccmp cl c); try discriminate; reflexivity.
  - change (removelast (c :: c2 :: k'')) with (c :: removelast (c2 :: k'')).
    set (r := removelast (c2 :: k'')). cbn [cpl].
    destruct (ccmp c cl) eqn:E; cbn [is_eq nth].
    + apply ccmp_eq in E. subst cl. rewrite ccmp_refl in Hlt. subst r. apply IH; [exact Hlt|lia].
    + destruct (ccmp cl c) eqn:E2; try discriminate; [|reflexivity].
      apply ccmp_eq in E2. subst. rewrite ccmp_refl in E. discriminate.
    + destruct (ccmp cl c) eqn:E2; try discriminate; [|reflexivity].
      apply ccmp_eq in E2. subst. rewrite ccmp_refl in E. discriminate.
Qed.

(* ------------------------------------------------------------------ depth *)
Lemma cdepth_chain : forall k m p, cdepth_ok m p = true -> cdepth_ok (length k + m) (chain k p) = true.
Proof. induction k as [|c k IH]; intros m p H; simpl; [exact H|]. rewrite IH by exact H. reflexivity. Qed.

Lemma cdepth_rappend : forall p m, cdepth_ok m p = true -> forall j k t,
  rp j k t -> (j < length k)%nat -> cdepth_ok (length k + m) t = true ->
  cdepth_ok (length k + m) (rappend j k p t) = true.
Proof.
  intros p m Hp. induction j as [|j IH]; intros k t Hrp Hlen Hd.
  - destruct k as [|c k']; [simpl in Hlen; lia|]. destruct Hrp as [es ->]. simpl in *.
    rewrite forallb_app, Hd. simpl. rewrite cdepth_chain by exact Hp. reflexivity.
  - destruct k as [|c k']; [destruct Hrp|]. destruct t as [v|es]; [destruct Hrp|].
    destruct Hrp as [es0 [t' [-> Hrp]]]. simpl in Hlen. simpl rappend. rewrite on_last_app.
    simpl in *. rewrite forallb_app in *. apply andb_true_iff in Hd. destruct Hd as [H0 H1].
    rewrite H0. simpl in *. apply andb_true_iff in H1. destruct H1 as [H1 _].
    rewrite IH; auto. lia.
Qed.

(* ------------------------------------------------------------------ the loop *)
Definition rb_inv2 (n m : nat) (st : ct * option (list coord)) : Prop :=
  csorted (fst st) = true /\ cdepth_ok (n + m) (fst st) = true /\
  match snd st with
  | None => fst st = CN []
  | Some l => length l = n /\ rpf l (fst st)
  end.

Lemma rebuild_fold_inv2 : forall n m kvs st, (1 <= n)%nat ->
  Forall (fun kv => length (fst kv) = n /\ csorted (snd kv) = true /\ cdepth_ok m (snd kv) = true) kvs ->
  pw kcmp (map fst kvs) ->
  (forall l, snd st = Some l -> Forall (fun k => kcmp l k = Lt) (map fst kvs)) ->
  rb_inv2 n m st -> rb_inv2 n m (fold_left rebuild_step kvs st).
Proof.
  induction kvs as [|[k p] kvs IH]; intros [t last] Hn Hk Hpw Hlast Hinv; [exact Hinv|].
  apply Forall_cons_iff in Hk. destruct Hk as [[Hkl [Hps Hpd]] Hrest]. destruct Hpw as [Hkk Hpw].
  destruct Hinv as [Hs [Hd Hl]]. simpl in *. apply IH; auto.
  - intros l E. unfold rebuild_step in E. simpl in E. inversion E; subst l. exact Hkk.
  - unfold rebuild_step. cbn [fst snd].
    destruct last as [l|].
    + destruct Hl as [Hll Hrpf].
      assert (Hlt : kcmp l k = Lt).
      { specialize (Hlast l eq_refl). inversion Hlast; assumption. }
      destruct (cpl_spec (removelast k) l) as [E Hle]. rewrite length_removelast in Hle.
      set (j := cpl (removelast k) l) in *.
      assert (Hj : (j < length k)%nat) by lia.
      assert (Efn : firstn j k = firstn j l) by (rewrite <- E; symmetry; apply firstn_removelast; lia).
      assert (Hrp : rp j k t).
      { apply rp_prefix with (k := l); [apply rpf_rp; [exact Hrpf|lia]|symmetry; exact Efn]. }
      split; [|split; [|split]].
      * apply (csorted_rappend p Hps j k l t); auto; try lia.
        subst j. apply cpl_diff_lt; [exact Hlt|lia].
      * rewrite <- Hkl in *. apply cdepth_rappend; auto.
      * exact Hkl.
      * apply rpf_after; assumption.
    + subst t. split; [|split; [|split]].
      * destruct k as [|c k']; [simpl in Hkl; lia|]. simpl. rewrite csorted_chain by exact Hps. reflexivity.
      * rewrite <- Hkl in *. apply cdepth_rappend; auto; try (simpl; eexists; reflexivity); try lia.
      * exact Hkl.
      * apply rpf_after; [simpl; eexists; reflexivity|lia].
Qed.

Theorem rebuild_wf : forall n m kvs, (1 <= n)%nat ->
  Forall (fun kv => length (fst kv) = n /\ csorted (snd kv) = true /\ cdepth_ok m (snd kv) = true) kvs ->
  pw kcmp (map fst kvs) ->
  csorted (rebuild kvs) = true /\ cdepth_ok (n + m) (rebuild kvs) = true.
Proof.
  intros n m kvs Hn Hk Hpw. unfold rebuild.
  destruct (rebuild_fold_inv2 n m kvs (CN [], None) Hn Hk Hpw) as [H1 [H2 _]].
  - intros l E. discriminate.
  - split; [reflexivity|]. split; [|reflexivity]. destruct (n + m)%nat eqn:E; [lia|reflexivity].
  - split; assumption.
Qed.

(* ------------------------------------------------------------------ facts about the extraction *)
Lemma extract_facts : forall n N t, (n <= N)%nat -> cdepth_ok N t = true -> csorted t = true ->
  pw kcmp (map fst (extract n t))
  /\ Forall (fun kp => csorted (snd kp) = true /\ cdepth_ok (N - n) (snd kp) = true) (extract n t).
Proof.
  induction n as [|n IH]; intros N t Hn Hd Hs.
  - simpl. rewrite Nat.sub_0_r. split; [split; [constructor|exact I]|]. constructor; [split; assumption|constructor].
  - destruct N as [|N]; [lia|]. destruct t as [v|es]; [discriminate|].
    apply csorted_CN in Hs. destruct Hs as [Hpw Hall]. simpl in Hd. rewrite forallb_forall in Hd.
    change (extract (S n) (CN es))
      with (flat_map (fun cp => map (fun kp => (fst cp :: fst kp, snd kp)) (extract n (snd cp))) es).
    simpl Nat.sub.
    induction es as [|[c p] es IHes]; [split; [exact I|constructor]|].
    simpl in Hpw. destruct Hpw as [Hc Hpw]. inversion Hall as [|? ? Hp Hrest]; subst. simpl in Hp.
    destruct (IH N p ltac:(lia) (Hd _ (or_introl eq_refl)) Hp) as [I1 I2].
    destruct IHes as [J1 J2]; auto; [intros x Hx; apply Hd; right; exact Hx|].
    simpl flat_map. split.
    + rewrite map_app. apply pw_app; [|exact J1|].
      * rewrite map_map. simpl. rewrite <- map_map with (f := fst) (g := cons c).
        apply (pw_map kcmp kcmp); [|exact I1]. intros a b H. rewrite kcmp_cons_same. exact H.
      * intros x y Hx Hy. apply in_map_iff in Hx. destruct Hx as [[kx sx] [<- Hx]].
        apply in_map_iff in Hx. destruct Hx as [[k s] [Ex _]]. inversion Ex; subst. simpl.
        apply in_map_iff in Hy. destruct Hy as [[ky sy] [<- Hy]].
        apply in_flat_map in Hy. destruct Hy as [[c' p'] [Hin' Hy]].
        apply in_map_iff in Hy. destruct Hy as [[k' s'] [Ey _]]. inversion Ey; subst. simpl.
        apply kcmp_cons_lt. rewrite Forall_forall in Hc. apply Hc. apply in_map_iff. exists (c', p'). auto.
    + apply Forall_app. split; [|exact J2].
      apply Forall_forall. intros kp Hin. apply in_map_iff in Hin. destruct Hin as [[k s] [<- Hk]]. simpl.
      rewrite Forall_forall in I2. apply (I2 _ Hk).
Qed.

(* ------------------------------------------------------------------ the guide is a permutation of 0..sl-1 *)
Lemma NoDup_app_l : forall {A} (l1 l2 : list A), NoDup (l1 ++ l2) -> NoDup l1.
Proof.
  induction l1 as [|x l1 IH]; intros l2 H; [constructor|].
  simpl in H. inversion H as [|? ? Hx Hrest]; subst. constructor; [|eapply IH; eauto].
  intros Hin. apply Hx. apply in_or_app. left. exact Hin.
Qed.

Lemma guide_facts : forall perm, is_perm_of perm (length perm) = true ->
  let n := length perm in
  let sl := (n - common_prefix_len (rev (seq 0 n)) (rev perm))%nat in
  (sl <= n)%nat /\ length (firstn sl perm) = sl /\ forall i, (i < sl)%nat -> In i (firstn sl perm).
Proof.
  intros perm Hperm n sl.
  destruct (is_perm_facts _ _ Hperm) as [_ [Hnd Hlt]].
  set (m := common_prefix_len (rev (seq 0 n)) (rev perm)) in *.
  destruct (cpn_spec (rev (seq 0 n)) (rev perm)) as [E Hm]. fold m in E, Hm.
  rewrite rev_length, seq_length in Hm.
  rewrite !firstn_rev, seq_length in E. fold n in E. fold sl in E.
  apply (f_equal (@rev nat)) in E. rewrite !rev_involutive in E.
  assert (Hseq : skipn sl (seq 0 n) = seq sl m).
  { replace n with (sl + m)%nat at 1 by (subst sl; lia). rewrite seq_app, skipn_app, seq_length.
    rewrite Nat.sub_diag. rewrite skipn_all2 by (rewrite seq_length; lia). reflexivity. }
  rewrite Hseq in E.
  assert (Hsplit : perm = firstn sl perm ++ seq sl m) by (rewrite E; symmetry; apply firstn_skipn).
  assert (Hg : length (firstn sl perm) = sl) by (rewrite firstn_length; fold n; subst sl; lia).
  split; [subst sl; lia|]. split; [exact Hg|].
  assert (Hincl : incl (firstn sl perm) (seq 0 sl)).
  { intros i Hi. assert (Hin : In i perm) by (rewrite Hsplit; apply in_or_app; left; exact Hi).
    pose proof (Hlt _ Hin) as Hn.
    assert (Hnot : ~ In i (seq sl m)).
    { apply (NoDup_app_disj (firstn sl perm)); [rewrite <- Hsplit; exact Hnd|exact Hi]. }
    rewrite in_seq in Hnot. apply in_seq. fold n in Hn. subst sl. lia. }
  intros i Hi.
  apply (@NoDup_length_incl _ (firstn sl perm) (seq 0 sl)).
  - apply (NoDup_app_l _ (seq sl m)). rewrite <- Hsplit. exact Hnd.
  - rewrite seq_length, Hg. lia.
  - exact Hincl.
  - apply in_seq. lia.
Qed.

Lemma map_eq_in : forall {A B} (f h : A -> B) l x, map f l = map h l -> In x l -> f x = h x.
Proof.
  induction l as [|y l IH]; intros x E Hin; [destruct Hin|].
  simpl in E. inversion E. destruct Hin as [<-|Hin]; auto.
Qed.

Lemma permute_inj : forall g sl (p q : list coord), (forall i, (i < sl)%nat -> In i g) ->
  length p = sl -> length q = sl -> permute_key g p = permute_key g q -> p = q.
Proof.
  intros g sl p q Hg Hp Hq E. apply (nth_ext p q [] []); [lia|].
  intros i Hi. unfold permute_key in E.
  apply (map_eq_in (fun i => nth i p []) (fun i => nth i q []) g i E). apply Hg. lia.
Qed.

Lemma NoDup_map_inj_in : forall {A B} (f : A -> B) l,
  (forall x y, In x l -> In y l -> f x = f y -> x = y) -> NoDup l -> NoDup (map f l).
Proof.
  induction l as [|x l IH]; intros Hinj Hnd; [constructor|].
  inversion Hnd as [|? ? Hx Hrest]; subst. simpl. constructor.
  - intros Hin. apply in_map_iff in Hin. destruct Hin as [y [E Hy]].
    assert (y = x) by (apply Hinj; [right; exact Hy|left; reflexivity|exact E]). subst. auto.
  - apply IH; [|exact Hrest]. intros a b Ha Hb. apply Hinj; right; assumption.
Qed.

(* ------------------------------------------------------------------ swizzle: the result is well formed *)
Theorem swizzle_wf : forall perm t,
  is_perm_of perm (length perm) = true -> (1 <= length perm)%nat ->
  cdepth_ok (length perm) t = true -> csorted t = true ->
  csorted (swizzle perm t) = true /\ cdepth_ok (length perm) (swizzle perm t) = true.
Proof.
  intros perm t Hperm Hn1 Hd Hs. unfold swizzle.
  destruct (nat_list_eqb perm (seq 0 (length perm))) eqn:Eid; [split; assumption|].
  destruct (guide_facts perm Hperm) as [Hsl [Hg Hcov]].
  set (n := length perm) in *.
  set (sl := (n - common_prefix_len (rev (seq 0 n)) (rev perm))%nat) in *.
  set (g := firstn sl perm) in *.
  assert (Hsl1 : (1 <= sl)%nat).
  { destruct sl as [|sl'] eqn:Es; [|lia]. exfalso.
    destruct (cpn_spec (rev (seq 0 n)) (rev perm)) as [E Hm].
    rewrite rev_length, seq_length in Hm.
    assert (Hm' : common_prefix_len (rev (seq 0 n)) (rev perm) = n) by lia.
    rewrite Hm' in E. rewrite !firstn_all2 in E by (rewrite rev_length, ?seq_length; subst n; lia).
    apply (f_equal (@rev nat)) in E. rewrite !rev_involutive in E.
    rewrite <- E in Eid. clear -Eid.
    assert (forall l, nat_list_eqb l l = true) as R.
    { induction l as [|x l IH]; simpl; [reflexivity|]. rewrite Nat.eqb_refl. exact IH. }
    rewrite R in Eid. discriminate. }
  destruct (extract_facts sl n t Hsl Hd Hs) as [Hkeys Hpay].
  pose proof (extract_key_len sl t) as Hklen.
  set (items := map (fun kp : list coord * ct => (permute_key g (fst kp), snd kp)) (rev (extract sl t))).
  pose proof (rebuild_wf sl (n - sl) (sort_by kcmp fst items) Hsl1) as W.
  replace (sl + (n - sl))%nat with n in W by lia. apply W.
  - apply Forall_forall. intros kv Hin. apply (Permutation_in _ (sort_by_perm kcmp fst _)) in Hin.
    apply in_map_iff in Hin. destruct Hin as [kp [<- Hkp]]. simpl. apply in_rev in Hkp.
    rewrite Forall_forall in Hpay. destruct (Hpay _ Hkp) as [P1 P2].
    split; [unfold permute_key; rewrite map_length; exact Hg|]. split; assumption.
  - apply (sort_by_pw kcmp fst kcmp_anti kcmp_eq kcmp_trans).
    unfold items. rewrite map_map. simpl.
    rewrite <- map_map with (f := fst) (g := permute_key g).
    apply NoDup_map_inj_in.
    + intros x y Hx Hy E. rewrite Forall_forall in Hklen.
      apply in_map_iff in Hx. destruct Hx as [kx [<- Hx]]. apply in_rev in Hx.
      apply in_map_iff in Hy. destruct Hy as [ky [<- Hy]]. apply in_rev in Hy.
      apply (permute_inj g sl); auto.
    + rewrite map_rev. apply NoDup_rev. apply (pw_NoDup kcmp); [exact kcmp_refl|exact Hkeys].
Qed.

(* ------------------------------------------------------------------ swizzle = sort of the permuted points *)
Theorem swizzle_sorted_content : forall d perm t,
  is_perm_of perm (length perm) = true -> (1 <= length perm)%nat ->
  cdepth_ok (length perm) t = true -> csorted t = true ->
  ccontent d (swizzle perm t)
  = sort_by kcmp fst (map (on_pt (permute_key perm)) (ccontent d t)).
Proof.
  intros d perm t Hperm Hn1 Hd Hs.
  destruct (swizzle_wf perm t Hperm Hn1 Hd Hs) as [Hs' _].
  pose proof (swizzle_content d perm t Hperm Hd Hn1) as HP.
  pose proof (content_sorted d _ Hs') as Hpw.
  apply (sorted_perm_eq kcmp fst kcmp_anti); [exact Hpw| |].
  - apply (sort_by_pw kcmp fst kcmp_anti kcmp_eq kcmp_trans).
    apply (Permutation_NoDup (l := map fst (ccontent d (swizzle perm t)))).
    + apply Permutation_map. exact HP.
    + apply (pw_NoDup kcmp); [exact kcmp_refl|exact Hpw].
  - eapply Permutation_trans; [exact HP|]. apply Permutation_sym. apply sort_by_perm.
Qed.

(* ------------------------------------------------------------------ the inverse permutation *)
Lemma index_of_nth : forall l j dflt, NoDup l -> (j < length l)%nat -> index_of (nth j l dflt) l = j.
Proof.
  induction l as [|x l IH]; intros j dflt Hnd Hj; [simpl in Hj; lia|].
  inversion Hnd as [|? ? Hx Hrest]; subst. destruct j as [|j]; simpl.
  - rewrite Nat.eqb_refl. reflexivity.
  - simpl in Hj. destruct (Nat.eqb (nth j l dflt) x) eqn:E.
    + apply Nat.eqb_eq in E. exfalso. apply Hx. rewrite <- E. apply nth_In. lia.
    + f_equal. apply IH; [exact Hrest|lia].
Qed.

Lemma nth_index_of : forall l x dflt, In x l -> nth (index_of x l) l dflt = x.
Proof.
  induction l as [|y l IH]; intros x dflt Hin; [destruct Hin|].
  simpl. destruct (Nat.eqb x y) eqn:E; [apply Nat.eqb_eq in E; auto|].
  destruct Hin as [->|Hin]; [rewrite Nat.eqb_refl in E; discriminate|]. simpl. apply IH. exact Hin.
Qed.

Lemma index_of_lt : forall l x, In x l -> (index_of x l < length l)%nat.
Proof.
  induction l as [|y l IH]; intros x Hin; [destruct Hin|].
  simpl. destruct (Nat.eqb x y) eqn:E; [lia|].
  destruct Hin as [->|Hin]; [rewrite Nat.eqb_refl in E; discriminate|]. specialize (IH _ Hin). lia.
Qed.

Lemma inv_perm_is_perm : forall perm, is_perm_of perm (length perm) = true ->
  length (inv_perm perm) = length perm /\ is_perm_of (inv_perm perm) (length perm) = true.
Proof.
  intros perm Hperm. destruct (is_perm_facts _ _ Hperm) as [_ [Hnd Hlt]].
  assert (Hl : length (inv_perm perm) = length perm) by (unfold inv_perm; rewrite map_length, seq_length; reflexivity).
  split; [exact Hl|]. unfold is_perm_of. rewrite Hl, Nat.eqb_refl. simpl.
  apply forallb_forall. intros j Hj. apply in_seq in Hj. apply existsb_exists.
  exists j. split; [|apply Nat.eqb_refl].
  unfold inv_perm. apply in_map_iff. exists (nth j perm 0%nat). split.
  - apply index_of_nth; [exact Hnd|lia].
  - apply in_seq. split; [lia|]. simpl. apply Hlt. apply nth_In. lia.
Qed.

Lemma permute_inv : forall perm (p : list coord), is_perm_of perm (length perm) = true ->
  length p = length perm -> permute_key (inv_perm perm) (permute_key perm p) = p.
Proof.
  intros perm p Hperm Hp. destruct (is_perm_facts _ _ Hperm) as [_ [Hnd Hlt]].
  unfold inv_perm, permute_key. rewrite map_map.
  transitivity (permute_key (seq 0 (length perm)) p); [|apply permute_id; exact Hp]. unfold permute_key.
  apply map_ext_in. intros x Hx. apply in_seq in Hx.
  assert (Hin : In x perm).
  { unfold is_perm_of in Hperm. apply andb_true_iff in Hperm. destruct Hperm as [_ Hall].
    rewrite forallb_forall in Hall. assert (Hs : In x (seq 0 (length perm))) by (apply in_seq; lia).
    specialize (Hall _ Hs). apply existsb_exists in Hall. destruct Hall as [y [Hy E]].
    apply Nat.eqb_eq in E. subst. exact Hy. }
  rewrite (nth_indep _ [] (nth (length p) p [])) by (rewrite map_length; apply index_of_lt; exact Hin).
  rewrite (map_nth (fun j => nth j p []) perm (length p)). rewrite nth_index_of by exact Hin.
  reflexivity.
Qed.

Theorem swizzle_inverse : forall d perm t,
  is_perm_of perm (length perm) = true -> (1 <= length perm)%nat ->
  cdepth_ok (length perm) t = true -> csorted t = true ->
  ccontent d (swizzle (inv_perm perm) (swizzle perm t)) = ccontent d t.
Proof.
  intros d perm t Hperm Hn1 Hd Hs.
  destruct (swizzle_wf perm t Hperm Hn1 Hd Hs) as [Hs1 Hd1].
  destruct (inv_perm_is_perm perm Hperm) as [Hli Hpi].
  rewrite <- Hli in Hpi, Hd1, Hn1.
  destruct (swizzle_wf (inv_perm perm) _ Hpi Hn1 Hd1 Hs1) as [Hs2 _].
  apply (sorted_perm_eq kcmp fst kcmp_anti); [apply content_sorted; exact Hs2|apply content_sorted; exact Hs|].
  eapply Permutation_trans; [apply (swizzle_content d _ _ Hpi Hd1 Hn1)|].
  eapply Permutation_trans; [apply Permutation_map; apply (swizzle_content d perm t Hperm Hd)|].
  - rewrite Hli in Hn1. exact Hn1.
  - rewrite map_map. rewrite <- (map_id (ccontent d t)) at 2. apply Permutation_refl'.
    apply map_ext_in. intros [q v] Hin. unfold on_pt. simpl. f_equal.
    apply permute_inv; [exact Hperm|]. apply (points_len d _ _ Hd _ Hin).
Qed.
