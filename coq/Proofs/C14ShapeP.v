(* C14ShapeP.v — the depth-first shape estimation of Fiber._calcShape bounds every stored
   coordinate of every level (with the S6 fix). *)
From Coq Require Import ZArith List Bool Lia PeanoNat.
From FT Require Import Model.Base Model.Obs Model.C14Attrs Model.C14Build Model.C14Check
                       Proofs.ObsP Proofs.C14BuildP Proofs.C14AttrsP Proofs.C14FlatP.
Import ListNotations.
Open Scope Z_scope.

Section ATreeInd.
  Variable P : atree -> Prop.
  Hypothesis HLeaf : forall v, P (ALeaf v).
  Hypothesis HNode : forall own act es, Forall (fun ct => P (snd ct)) es -> P (ANode own act es).
  Fixpoint atree_ind' (t : atree) : P t :=
    match t with
    | ALeaf v => HLeaf v
    | ANode own act es => HNode own act es
        ((fix go (l : list (Z * atree)) : Forall (fun ct => P (snd ct)) l :=
            match l with
            | [] => Forall_nil _
            | ct :: l' => Forall_cons ct (atree_ind' (snd ct)) (go l')
            end) es)
    end.
End ATreeInd.

(* every fiber's coordinates ascend *)
Fixpoint a_sorted (t : atree) : bool :=
  match t with
  | ALeaf _ => true
  | ANode _ _ es => ssorted (map fst es) && forallb (fun ct => a_sorted (snd ct)) es
  end.

Lemma wf_atree_sorted : forall t bounds, wf_atree bounds t = true -> a_sorted t = true.
Proof.
  induction t as [v|own act es IH] using atree_ind'; intros bounds H; [reflexivity|].
  cbn [wf_atree] in H.
  repeat (apply andb_true_iff in H; destruct H as [H ?Hc]).
  cbn [a_sorted]. rewrite H. cbn [andb].
  apply forallb_forall. intros ct Hct.
  rewrite forallb_forall in Hc. rewrite Forall_forall in IH.
  apply (IH ct Hct (tl bounds)). apply Hc. exact Hct.
Qed.

(* ---- monotone growth of the shape accumulator *)
Definition M (a b : list Z) : Prop :=
  (length a <= length b)%nat /\ forall i, (i < length a)%nat -> nth i a 0 <= nth i b 0.

Lemma M_refl a : M a a.
Proof. split; [lia|intros; lia]. Qed.

Lemma M_trans a b c : M a b -> M b c -> M a c.
Proof.
  intros [L1 H1] [L2 H2]. split; [lia|]. intros i Hi.
  specialize (H1 i Hi). specialize (H2 i ltac:(lia)). lia.
Qed.

Lemma M_snoc a x : M a (a ++ [x]).
Proof.
  split; [rewrite app_length; simpl; lia|]. intros i Hi. rewrite app_nth1 by exact Hi. lia.
Qed.

Lemma set_nth_length {A} : forall n (x : A) l, length (set_nth n x l) = length l.
Proof.
  induction n as [|n IH]; intros x [|h l]; try reflexivity.
  change (length (h :: set_nth n x l) = length (h :: l)). simpl. f_equal. apply IH.
Qed.

Lemma nth_set_nth {A} : forall n (x : A) l i d,
  (n < length l)%nat -> nth i (set_nth n x l) d = if Nat.eqb i n then x else nth i l d.
Proof.
  induction n as [|n IH]; intros x [|h l] i d H; simpl in H; try lia.
  - destruct i; reflexivity.
  - change (set_nth (S n) x (h :: l)) with (h :: set_nth n x l).
    destruct i as [|i]; [reflexivity|].
    change (nth (S i) (h :: set_nth n x l) d) with (nth i (set_nth n x l) d).
    rewrite IH by lia. reflexivity.
Qed.

Lemma M_set_max a n x : (n < length a)%nat -> M a (set_nth n (Z.max (nth n a 0) x) a).
Proof.
  intros Hn. split; [rewrite set_nth_length; lia|]. intros i Hi.
  rewrite nth_set_nth by exact Hn. destruct (Nat.eqb i n) eqn:E; [|lia].
  apply Nat.eqb_eq in E. subst i. lia.
Qed.

(* coverage of the sub-tree t hanging at level lvl *)
Definition Cov (lvl : nat) (t : atree) (sh : list Z) : Prop :=
  forall l f c, In f (alevel l t) -> In c (map fst (a_es f)) ->
    (lvl + l < length sh)%nat /\ c < nth (lvl + l) sh 0.

Lemma Cov_mono lvl t a b : Cov lvl t a -> M a b -> Cov lvl t b.
Proof.
  intros HC [HL HM] l f c Hf Hc. destruct (HC l f c Hf Hc) as [H1 H2].
  split; [lia|]. specialize (HM _ H1). lia.
Qed.

(* ---- the inner loop of _calcShape as a named function *)
Fixpoint cs_go (lvl : nat) (es : list (Z * atree)) (sh : list Z) : list Z :=
  match es with
  | [] => sh
  | (_, p) :: es' => cs_go lvl es' (calc_shape (S lvl) p sh)
  end.

Definition cs_shape1 (lvl : nat) (mc : Z) (shape : list Z) : list Z :=
  if Nat.ltb (length shape) (S lvl) then shape ++ [mc + 1]
  else set_nth lvl (Z.max (nth lvl shape 0) (mc + 1)) shape.

Lemma cs_go_fix lvl : forall es sh,
  (fix go (es : list (Z * atree)) (sh : list Z) {struct es} : list Z :=
     match es with
     | [] => sh
     | (_, p) :: es' => go es' (calc_shape (S lvl) p sh)
     end) es sh = cs_go lvl es sh.
Proof.
  induction es as [|[c p] es IH]; intros sh; [reflexivity|]. cbn [cs_go]. rewrite <- IH. reflexivity.
Qed.

Lemma calc_shape_node : forall lvl own act es shape,
  calc_shape lvl (ANode own act es) shape =
  match last_coord es with
  | None => if Nat.ltb (length shape) (S lvl) then shape ++ [0] else shape
  | Some mc =>
    match es with
    | (_, ANode _ _ _) :: _ => cs_go lvl es (cs_shape1 lvl mc shape)
    | _ => cs_shape1 lvl mc shape
    end
  end.
Proof.
  intros lvl own act es shape. cbn [calc_shape].
  destruct (last_coord es) as [mc|]; [|reflexivity].
  fold (cs_shape1 lvl mc shape).
  destruct es as [|[c0 [v|o a e]] es']; try reflexivity.
  exact (cs_go_fix lvl ((c0, ANode o a e) :: es') (cs_shape1 lvl mc shape)).
Qed.

Lemma last_coord_none : forall es, last_coord es = None -> es = [].
Proof.
  induction es as [|[c p] es IH]; [reflexivity|]. intros H. exfalso.
  destruct es as [|ct es']; [discriminate|].
  change (last_coord ((c, p) :: ct :: es')) with (last_coord (ct :: es')) in H.
  specialize (IH H). discriminate.
Qed.

Lemma cs_shape1_facts : forall lvl mc sh, (lvl <= length sh)%nat ->
  M sh (cs_shape1 lvl mc sh) /\ (lvl < length (cs_shape1 lvl mc sh))%nat
  /\ mc + 1 <= nth lvl (cs_shape1 lvl mc sh) 0.
Proof.
  intros lvl mc sh H. unfold cs_shape1.
  destruct (Nat.ltb (length sh) (S lvl)) eqn:E.
  - apply Nat.ltb_lt in E. assert (length sh = lvl) by lia.
    split; [apply M_snoc|]. split; [rewrite app_length; simpl; lia|].
    rewrite app_nth2 by lia. replace (lvl - length sh)%nat with O by lia. simpl. lia.
  - apply Nat.ltb_ge in E.
    split; [apply M_set_max; lia|]. split; [rewrite set_nth_length; lia|].
    rewrite nth_set_nth by lia. rewrite Nat.eqb_refl. lia.
Qed.

Lemma leaves_no_levels : forall (es : list (Z * atree)) l f,
  forallb (fun ct => a_depth_ok 0 (snd ct)) es = true ->
  ~ In f (flat_map (fun ct => alevel l (snd ct)) es).
Proof.
  intros es l f H Hin. apply in_flat_map in Hin. destruct Hin as [ct [Hct Hf]].
  rewrite forallb_forall in H. specialize (H ct Hct).
  destruct ct as [c0 [v|o a e]]; cbn [snd] in *; [destruct l; contradiction|discriminate].
Qed.

Lemma calc_shape_inv : forall t n lvl sh,
  a_depth_ok n t = true -> a_sorted t = true -> (lvl <= length sh)%nat ->
  M sh (calc_shape lvl t sh) /\ Cov lvl t (calc_shape lvl t sh).
Proof.
  induction t as [v|own act es IH] using atree_ind'; intros n lvl sh Hd Hs Hl.
  - split; [apply M_refl|]. intros l f c Hf. destruct l; contradiction.
  - destruct n as [|n']; [discriminate|]. cbn [a_depth_ok] in Hd.
    cbn [a_sorted] in Hs. apply andb_true_iff in Hs. destruct Hs as [Hso Hsc].
    rewrite calc_shape_node.
    destruct (last_coord es) as [mc|] eqn:Elc.
    2:{ apply last_coord_none in Elc. subst es.
        split.
        - destruct (Nat.ltb (length sh) (S lvl)); [apply M_snoc|apply M_refl].
        - intros l f c Hf Hc. destruct l as [|l].
          + destruct Hf as [<-|[]]. contradiction.
          + contradiction. }
    destruct (cs_shape1_facts lvl mc sh Hl) as [HM1 [HL1 Hmc]].
    set (sh1 := cs_shape1 lvl mc sh) in *.
    (* the node itself is covered by sh1 and by anything above it *)
    assert (Hself : forall r, M sh1 r -> forall c, In c (map fst es) ->
                    (lvl + 0 < length r)%nat /\ c < nth (lvl + 0) r 0).
    { intros r [HL HM] c Hc. rewrite Nat.add_0_r.
      destruct (last_coord_max es c Hso Hc) as [m [Hm Hle]]. rewrite Elc in Hm. inversion Hm; subst m.
      split; [lia|]. specialize (HM lvl HL1). lia. }
    destruct es as [|[c0 [v|o a e]] es'] eqn:Ees.
    + discriminate.
    + (* leaf payloads: no deeper level *)
      split; [exact HM1|].
      assert (Hn : n' = O).
      { cbn [forallb snd] in Hd. apply andb_true_iff in Hd. destruct Hd as [Hd _].
        destruct n'; [reflexivity|discriminate]. }
      subst n'.
      intros l f c Hf Hc. destruct l as [|l].
      * destruct Hf as [<-|[]]. apply (Hself sh1 (M_refl _) c Hc).
      * exfalso. cbn [alevel] in Hf. exact (leaves_no_levels _ l f Hd Hf).
    + (* fiber payloads: the loop *)
      rewrite <- Ees in *. clear Ees.
      assert (Hgo : forall es0 sh0,
                 Forall (fun ct => forall n lvl sh, a_depth_ok n (snd ct) = true ->
                           a_sorted (snd ct) = true -> (lvl <= length sh)%nat ->
                           M sh (calc_shape lvl (snd ct) sh) /\ Cov lvl (snd ct) (calc_shape lvl (snd ct) sh)) es0 ->
                 forallb (fun ct => a_depth_ok n' (snd ct)) es0 = true ->
                 forallb (fun ct => a_sorted (snd ct)) es0 = true ->
                 (S lvl <= length sh0)%nat ->
                 M sh0 (cs_go lvl es0 sh0)
                 /\ forall ct, In ct es0 -> Cov (S lvl) (snd ct) (cs_go lvl es0 sh0)).
      { induction es0 as [|[c p] es0 IHes]; intros sh0 HF Hd0 Hs0 Hl0.
        - split; [apply M_refl|intros ct []].
        - inversion HF as [|? ? Hp HF']; subst.
          cbn [forallb snd] in Hd0, Hs0.
          apply andb_true_iff in Hd0. destruct Hd0 as [Hdp Hd0].
          apply andb_true_iff in Hs0. destruct Hs0 as [Hsp Hs0].
          cbn [snd] in Hp.
          destruct (Hp n' (S lvl) sh0 Hdp Hsp Hl0) as [HMp HCp].
          cbn [cs_go].
          assert (Hl1 : (S lvl <= length (calc_shape (S lvl) p sh0))%nat) by (destruct HMp; lia).
          destruct (IHes (calc_shape (S lvl) p sh0) HF' Hd0 Hs0 Hl1) as [HMr HCr].
          split; [eapply M_trans; eassumption|].
          intros ct [<-|Hct].
          + cbn [snd]. eapply Cov_mono; eassumption.
          + apply HCr. exact Hct. }
      destruct (Hgo es sh1 IH Hd Hsc ltac:(lia)) as [HMr HCr].
      split; [eapply M_trans; eassumption|].
      intros l f c Hf Hc. destruct l as [|l].
      * destruct Hf as [<-|[]]. apply (Hself _ HMr c Hc).
      * cbn [alevel] in Hf. apply in_flat_map in Hf. destruct Hf as [ct [Hct Hf]].
        destruct (HCr ct Hct l f c Hf Hc) as [H1 H2].
        replace (lvl + S l)%nat with (S lvl + l)%nat by lia. split; assumption.
Qed.

Lemma estimate_in_shape : forall n t,
  a_depth_ok n t = true -> a_sorted t = true ->
  forall l f c, In f (alevel l t) -> In c (map fst (a_es f)) ->
  c < nth l (estimate_shape t) 0.
Proof.
  intros n t Hd Hs l f c Hf Hc. unfold estimate_shape.
  destruct (calc_shape_inv t n 0 [] Hd Hs ltac:(simpl; lia)) as [_ HC].
  destruct (HC l f c Hf Hc) as [_ H]. exact H.
Qed.
