(* C04AndP.v — a & b for operands of any two tuple arities: the element streams' prefixes. *)
From Coq Require Import ZArith List Bool Lia Sorted.
From FT Require Import Model.Base Model.Obs Model.C04Coiter Model.C04Check
                       Proofs.C04CoiterP Proofs.C04LexP Proofs.C04PrefixP.
Import ListNotations.
Open Scope Z_scope.

Lemma llookup_len {X} n (s : list (coord * X)) c p :
  alllen n s -> llookup c s = Some p -> length c = n.
Proof.
  intros Hl E. apply alookup_In in E; [|exact lex_eqb_spec].
  unfold alllen in Hl. rewrite Forall_forall in Hl. exact (Hl _ E).
Qed.

Lemma llookup_badlen {X} n (s : list (coord * X)) c :
  alllen n s -> length c <> n -> llookup c s = None.
Proof.
  intros Hl N. destruct (llookup c s) eqn:E; [|reflexivity].
  exfalso. apply N. eapply llookup_len; eassumption.
Qed.

Lemma and_op_nil_l {P Q} (sb : list (coord * Q)) : and_op (@nil (coord * P)) sb = [].
Proof.
  unfold and_op. destruct (Nat.eqb _ _); [destruct sb as [|[? ?] ?]; reflexivity|].
  destruct (Nat.ltb _ _); destruct sb as [|[? ?] ?]; reflexivity.
Qed.

Lemma and_op_nil_r {P Q} (sa : list (coord * P)) : and_op sa (@nil (coord * Q)) = [].
Proof.
  unfold and_op. destruct (Nat.eqb _ _); [destruct sa as [|[? ?] ?]; reflexivity|].
  destruct (Nat.ltb _ _); destruct sa as [|[? ?] ?]; reflexivity.
Qed.

Lemma flat_map_map {A B D} (g : A -> B) (f : B -> list D) l :
  flat_map f (map g l) = flat_map (fun x => f (g x)) l.
Proof. induction l as [|x l IH]; [reflexivity|]. cbn [map flat_map]. rewrite IH. reflexivity. Qed.

Lemma llookup_map_pair {X} c (l : list (coord * X)) :
  llookup c (map (fun cq => (fst cq, (fst cq, snd cq))) l)
  = match llookup c l with Some q => Some (c, q) | None => None end.
Proof.
  unfold llookup. induction l as [|[c' q] l IH]; [reflexivity|].
  cbn [map alookup fst snd]. destruct (lex_eqb c c') eqn:E; [|exact IH].
  apply lex_eqb_spec in E. subst. reflexivity.
Qed.

Lemma lsorted_map_keys {X Y} (f : coord * X -> coord * Y) (l : list (coord * X)) :
  (forall x, fst (f x) = fst x) -> lsorted l -> lsorted (map f l).
Proof.
  intros Hf Hs. unfold lsorted, ksorted in *. rewrite map_map.
  rewrite (map_ext (fun x => fst (f x)) fst Hf). exact Hs.
Qed.

Section AndOp.
  Context {P Q : Type}.

  Definition sel_l (na : nat) (sa : list (coord * P)) (cq : coord * Q) : option (P * Q) :=
    match llookup (firstn na (fst cq)) sa with Some p => Some (p, snd cq) | None => None end.
  Definition sel_r (nb : nat) (sb : list (coord * Q)) (cp : coord * P) : option (P * Q) :=
    match llookup (firstn nb (fst cp)) sb with Some q => Some (snd cp, q) | None => None end.

  Lemma pmatch_l_emit na sa (b : list (coord * Q)) :
    flat_map (pmatch_l na sa) b
    = flat_map (emit (sel_l na sa)) (map (fun cq => (fst cq, (fst cq, snd cq))) b).
  Proof.
    rewrite flat_map_map. apply flat_map_ext. intros x.
    unfold pmatch_l, emit, sel_l. cbn [fst snd]. destruct (llookup _ sa); reflexivity.
  Qed.

  Lemma pmatch_r_emit nb sb (a : list (coord * P)) :
    flat_map (pmatch_r nb sb) a
    = flat_map (emit (sel_r nb sb)) (map (fun cp => (fst cp, (fst cp, snd cp))) a).
  Proof.
    rewrite flat_map_map. apply flat_map_ext. intros x.
    unfold pmatch_r, emit, sel_r. cbn [fst snd]. destruct (llookup _ sb); reflexivity.
  Qed.

  (* a & b on two ascending element streams whose coordinates have arity na and nb: ascending;
     a coordinate c of the longer arity is delivered iff its prefix of length na is in a and
     its prefix of length nb is in b, with their payloads there (for na = nb: c itself) *)
  Theorem and_op_spec na nb (sa : list (coord * P)) (sb : list (coord * Q)) :
    lsorted sa -> lsorted sb -> alllen na sa -> alllen nb sb ->
    lsorted (and_op sa sb)
    /\ forall c, llookup c (and_op sa sb)
                 = match llookup (firstn na c) sa, llookup (firstn nb c) sb with
                   | Some p, Some q =>
                     if Nat.eqb (length c) (Nat.max na nb) then Some (p, q) else None
                   | _, _ => None
                   end.
  Proof.
    intros Ha Hb La Lb.
    destruct sa as [|[ca pa] sa'] eqn:Esa.
    { rewrite and_op_nil_l. split; [constructor|]. intros c. reflexivity. }
    destruct sb as [|[cb pb] sb'] eqn:Esb.
    { rewrite and_op_nil_r. split; [constructor|]. intros c.
      destruct (llookup (firstn na c) ((ca, pa) :: sa')); reflexivity. }
    rewrite <- Esa, <- Esb in *.
    assert (Aa : arity sa = na).
    { rewrite Esa. cbn [arity]. rewrite Esa in La. exact (Forall_inv La). }
    assert (Ab : arity sb = nb).
    { rewrite Esb. cbn [arity]. rewrite Esb in Lb. exact (Forall_inv Lb). }
    unfold and_op. rewrite Aa, Ab. clear Aa Ab.
    destruct (Nat.eqb na nb) eqn:En.
    - apply Nat.eqb_eq in En. subst nb. rewrite Nat.max_id.
      destruct (and_merge_correct lex_eqb lex_ltb lex_eqb_spec lex_ltb_irrefl lex_ltb_trans
                  lex_ltb_total sa sb Ha Hb) as [RS RL].
      split; [exact RS|]. intros c. unfold llookup at 1. rewrite RL.
      fold (llookup c sa). fold (llookup c sb).
      destruct (Nat.eqb (length c) na) eqn:El.
      + apply Nat.eqb_eq in El. rewrite <- El, firstn_all.
        destruct (llookup c sa), (llookup c sb); reflexivity.
      + apply Nat.eqb_neq in El. rewrite (llookup_badlen na sa c La El).
        destruct (llookup (firstn na c) sa), (llookup (firstn na c) sb); reflexivity.
    - apply Nat.eqb_neq in En. destruct (Nat.ltb na nb) eqn:Lt.
      + apply Nat.ltb_lt in Lt. rewrite (Nat.max_r na nb) by lia.
        assert (Lb' : alllen (na + (nb - na)) sb) by (replace (na + (nb - na))%nat with nb by lia; exact Lb).
        rewrite (and_merge_l_spec na (nb - na) sa sb Ha La Hb Lb'), pmatch_l_emit.
        pose proof (lsorted_map_keys (fun cq : coord * Q => (fst cq, (fst cq, snd cq))) sb
                      (fun _ => eq_refl) Hb) as GS.
        destruct (emit_spec lex_eqb lex_ltb lex_eqb_spec lex_ltb_irrefl lex_ltb_trans
                    (sel_l na sa) _ GS) as [ES EL].
        split; [exact ES|]. intros c. unfold llookup at 1. rewrite EL.
        fold (llookup c (map (fun cq : coord * Q => (fst cq, (fst cq, snd cq))) sb)).
        rewrite llookup_map_pair. unfold sel_l. cbn [fst snd].
        destruct (Nat.eqb (length c) nb) eqn:El.
        * apply Nat.eqb_eq in El. rewrite <- El, firstn_all.
          destruct (llookup c sb); cbn [fst snd]; destruct (llookup (firstn na c) sa); reflexivity.
        * apply Nat.eqb_neq in El. rewrite (llookup_badlen nb sb c Lb El).
          destruct (llookup (firstn na c) sa), (llookup (firstn nb c) sb); reflexivity.
      + apply Nat.ltb_ge in Lt. rewrite (Nat.max_l na nb) by lia.
        assert (La' : alllen (nb + (na - nb)) sa) by (replace (nb + (na - nb))%nat with na by lia; exact La).
        rewrite (and_merge_r_spec nb (na - nb) sa sb Ha La' Hb Lb), pmatch_r_emit.
        pose proof (lsorted_map_keys (fun cp : coord * P => (fst cp, (fst cp, snd cp))) sa
                      (fun _ => eq_refl) Ha) as GS.
        destruct (emit_spec lex_eqb lex_ltb lex_eqb_spec lex_ltb_irrefl lex_ltb_trans
                    (sel_r nb sb) _ GS) as [ES EL].
        split; [exact ES|]. intros c. unfold llookup at 1. rewrite EL.
        fold (llookup c (map (fun cp : coord * P => (fst cp, (fst cp, snd cp))) sa)).
        rewrite llookup_map_pair. unfold sel_r. cbn [fst snd].
        destruct (Nat.eqb (length c) na) eqn:El.
        * apply Nat.eqb_eq in El. rewrite <- El, firstn_all.
          destruct (llookup c sa); cbn [fst snd]; destruct (llookup (firstn nb c) sb); reflexivity.
        * apply Nat.eqb_neq in El. rewrite (llookup_badlen na sa c La El).
          destruct (llookup (firstn na c) sa), (llookup (firstn nb c) sb); reflexivity.
  Qed.
End AndOp.
