(* C17SortP.v — sorting facts used to lift the cache refinement to cases: the stable insertion
   sort ssort, the bucket sort of the bindings = the oracle's stable sort, and the k-way merge of
   the main loop = the stable sort of the tagged accesses by (padded stamp, binding). *)
From Coq Require Import ZArith List Bool Lia PeanoNat Permutation.
From FT Require Import Model.Base Model.Obs Model.C17Traffic Model.C17Check
                       Proofs.C17TrafficP Proofs.C17CheckP Proofs.C17SchedP Proofs.C17LiftP.
Import ListNotations.
Open Scope Z_scope.

(* ------------------------------------------------------------------ ssort, generically *)
Section Ssort.
Context {A : Type} (lt : A -> A -> bool).

Lemma gins_head x l : (forall y, In y l -> lt y x = false) -> ins lt x l = x :: l.
Proof. destruct l as [|y l]; cbn [ins]; auto. intros H. rewrite (H y (or_introl eq_refl)). reflexivity. Qed.

Lemma gins_skip x l1 l2 : (forall y, In y l1 -> lt y x = true) -> ins lt x (l1 ++ l2) = l1 ++ ins lt x l2.
Proof.
  induction l1 as [|y l1 IH]; intros H; cbn [app ins]; auto.
  rewrite (H y (or_introl eq_refl)). f_equal. apply IH. intros z Hz. apply H. right. exact Hz.
Qed.

Lemma gins_perm x l : Permutation (ins lt x l) (x :: l).
Proof.
  induction l as [|y l IH]; cbn [ins]; auto. destruct (lt y x); auto.
  eapply perm_trans; [apply perm_skip; exact IH|]. apply perm_swap.
Qed.

Lemma gssort_perm l : Permutation (ssort lt l) l.
Proof.
  induction l as [|x l IH]; cbn [ssort fold_right]; auto. fold (ssort lt l).
  eapply perm_trans; [apply gins_perm|]. apply perm_skip. exact IH.
Qed.

(* an element that is strictly below everything before it and not above anything after it comes
   first *)
Lemma gssort_extract x : forall M1 M2,
  (forall y, In y M1 -> lt x y = true) -> (forall y, In y M2 -> lt y x = false) ->
  ssort lt (M1 ++ x :: M2) = x :: ssort lt (M1 ++ M2).
Proof.
  induction M1 as [|y M1 IH]; intros M2 H1 H2; cbn [app ssort fold_right].
  - fold (ssort lt M2). apply gins_head. intros y Hy. apply H2. apply (Permutation_in _ (gssort_perm M2) Hy).
  - fold (ssort lt (M1 ++ x :: M2)). fold (ssort lt (M1 ++ M2)).
    rewrite IH by (auto; intros z Hz; apply H1; right; exact Hz).
    cbn [ins]. rewrite (H1 y (or_introl eq_refl)). reflexivity.
Qed.

(* a map that preserves the order commutes with the sort *)
Lemma gssort_map {B} (lt' : B -> B -> bool) (f : A -> B) l :
  (forall x y, lt' (f x) (f y) = lt x y) -> ssort lt' (map f l) = map f (ssort lt l).
Proof.
  intros H. induction l as [|x l IH]; cbn [map ssort fold_right]; auto.
  fold (ssort lt' (map f l)). fold (ssort lt l). rewrite IH.
  generalize (ssort lt l). intros s. induction s as [|y s IHs]; cbn [map ins]; auto.
  rewrite H. destruct (lt y x); cbn [map]; [rewrite IHs|]; reflexivity.
Qed.
End Ssort.

(* ------------------------------------------------------------------ bindings: bucket sort = stable sort *)
Definition blt (a b : c17_bind) : bool := Nat.ltb (k_r a) (k_r b).
Definition buckets (bs : list c17_bind) (lo len : nat) : list c17_bind :=
  flat_map (fun r => filter (fun b => Nat.eqb (k_r b) r) bs) (seq lo len).

Lemma flat_map_ext_in' {A B} (f g : A -> list B) l :
  (forall x, In x l -> f x = g x) -> flat_map f l = flat_map g l.
Proof.
  induction l as [|x l IH]; intros H; cbn [flat_map]; auto.
  rewrite (H x (or_introl eq_refl)), IH; auto. intros y Hy. apply H. right. exact Hy.
Qed.

Lemma buckets_ge bs : forall len lo y, In y (buckets bs lo len) -> (lo <= k_r y)%nat.
Proof.
  induction len as [|len IH]; intros lo y H; [destruct H|].
  unfold buckets in *. cbn [seq flat_map] in H. apply in_app_or in H. destruct H as [H|H].
  - apply filter_In in H. destruct H as [_ H]. apply Nat.eqb_eq in H. lia.
  - apply IH in H. lia.
Qed.

Lemma buckets_S bs lo len :
  buckets bs lo (S len) = filter (fun b => Nat.eqb (k_r b) lo) bs ++ buckets bs (S lo) len.
Proof. reflexivity. Qed.

Lemma ins_buckets b bs : forall len lo, (lo <= k_r b < lo + len)%nat ->
  ins blt b (buckets bs lo len) = buckets (b :: bs) lo len.
Proof.
  induction len as [|len IH]; intros lo H; [lia|].
  rewrite !buckets_S. cbn [filter].
  destruct (Nat.eqb_spec (k_r b) lo) as [E|E].
  - (* b opens its bucket; the later buckets do not change *)
    assert (R : buckets (b :: bs) (S lo) len = buckets bs (S lo) len).
    { unfold buckets. apply flat_map_ext_in'. intros r Hr. apply in_seq in Hr. cbn [filter].
      destruct (Nat.eqb_spec (k_r b) r); [lia|reflexivity]. }
    rewrite R. cbn [app]. apply gins_head. intros y Hy. unfold blt. apply Nat.ltb_ge.
    apply in_app_or in Hy. destruct Hy as [Hy|Hy].
    + apply filter_In in Hy. destruct Hy as [_ Hy]. apply Nat.eqb_eq in Hy. lia.
    + apply buckets_ge in Hy. lia.
  - rewrite gins_skip.
    + f_equal. apply IH. lia.
    + intros y Hy. apply filter_In in Hy. destruct Hy as [_ Hy]. apply Nat.eqb_eq in Hy.
      unfold blt. apply Nat.ltb_lt. lia.
Qed.

Lemma isort_buckets : forall bs n, (max_r bs < n)%nat -> ssort blt bs = buckets bs 0 n.
Proof.
  induction bs as [|b bs IH]; intros n H.
  - cbn. unfold buckets. induction (seq 0 n); cbn; auto.
  - cbn [ssort fold_right]. fold (ssort blt bs). cbn [max_r fold_right] in H. fold (max_r bs) in H.
    rewrite (IH n) by lia. apply ins_buckets. lia.
Qed.

Lemma sort_binds_isort bs : sort_binds bs = isort_binds bs.
Proof. unfold sort_binds, isort_binds. symmetry. apply (isort_buckets bs (S (max_r bs))). lia. Qed.

(* ------------------------------------------------------------------ the k-way merge = stable sort *)
Section Merge.
Variable nord : nat.
Notation ta := (nat * access)%type.
Definition kof (x : ta) : list Z := key_of nord (fst x) (snd x).
Definition keylt (x y : ta) : bool := lex_lt (kof x) (kof y).

Fixpoint sortedA (i : nat) (l : list access) : Prop :=
  match l with
  | [] => True
  | a :: l' => (forall b, In b l' -> lex_lt (key_of nord i b) (key_of nord i a) = false) /\ sortedA i l'
  end.

Fixpoint sortedK (keys : list (list Z * nat)) : Prop :=
  match keys with
  | [] => True
  | h :: t => (forall e, In e t -> lex_lt (fst e) (fst h) = false) /\ sortedK t
  end.

Lemma insert_key_sorted k l : sortedK l -> sortedK (insert_key k l).
Proof.
  induction l as [|h l IH]; intros S; cbn [insert_key].
  - cbn. split; auto. intros e [].
  - cbn [sortedK] in S. destruct S as [Sh Sl]. destruct (lex_lt (fst h) (fst k)) eqn:E.
    + cbn [sortedK]. split; [|apply IH; exact Sl].
      intros e He. apply (Permutation_in _ (insert_key_perm k l)) in He.
      destruct He as [<-|He]; [apply lex_lt_asym; exact E|apply Sh; exact He].
    + cbn [sortedK]. split; [|split; auto].
      intros e [<-|He]; [exact E|]. eapply lex_le_trans; [exact E|apply Sh; exact He].
Qed.

Lemma tag_from_in {A} : forall (rem : list (list A)) k j b,
  In (j, b) (tag_from k rem) -> (k <= j)%nat /\ In b (nth (j - k) rem []).
Proof.
  induction rem as [|l rem IH]; intros k j b H; [destruct H|].
  cbn [tag_from] in H. apply in_app_or in H. destruct H as [H|H].
  - apply in_map_iff in H. destruct H as [x [E Hx]]. inversion E; subst.
    split; [lia|]. rewrite Nat.sub_diag. exact Hx.
  - apply IH in H. destruct H as [H1 H2]. split; [lia|].
    replace (j - k)%nat with (S (j - S k)) by lia. exact H2.
Qed.

(* taking the head of list i out of the tagged concatenation *)
Lemma tag_from_split {A} : forall (rem : list (list A)) k i a tl,
  nth i rem [] = a :: tl ->
  exists M1 M2, tag_from k rem = M1 ++ ((k + i)%nat, a) :: M2
                /\ tag_from k (upd i (fun _ => tl) rem) = M1 ++ M2
                /\ (forall y, In y M1 -> fst y <> (k + i)%nat).
Proof.
  induction rem as [|l rem IH]; intros k i a tl H; [destruct i; discriminate|].
  destruct i as [|i]; cbn [nth] in H.
  - subst l. exists [], (map (pair k) tl ++ tag_from (S k) rem). cbn [tag_from upd map app].
    rewrite Nat.add_0_r. split; [reflexivity|]. split; [reflexivity|]. intros y [].
  - destruct (IH (S k) i a tl H) as (M1 & M2 & E1 & E2 & N).
    exists (map (pair k) l ++ M1), M2. cbn [tag_from upd]. rewrite E1, E2, <- !app_assoc.
    replace (S k + i)%nat with (k + S i)%nat in * by lia. split; [reflexivity|]. split; [reflexivity|].
    intros y Hy. apply in_app_or in Hy. destruct Hy as [Hy|Hy].
    + apply in_map_iff in Hy. destruct Hy as [x [<- _]]. cbn. lia.
    + apply N. exact Hy.
Qed.

Lemma kof_tag_neq x y : fst x <> fst y -> kof x <> kof y.
Proof.
  unfold kof, key_of. intros N E. apply app_inj_tail in E. destruct E as [_ E]. apply N. lia.
Qed.

Record KInv (keys : list (list Z * nat)) (rem : list (list access)) : Prop := {
  K_nd : NoDup (map snd keys);
  K_in : forall i, In i (map snd keys) <-> nth i rem [] <> [];
  K_key : forall k i, In (k, i) keys -> exists a tl, nth i rem [] = a :: tl /\ k = key_of nord i a;
  K_sorted : sortedK keys;
  K_lists : forall i, sortedA i (nth i rem []) }.

Lemma schedule_is_sort : forall fuel keys rem,
  KInv keys rem -> (total_len rem <= fuel)%nat ->
  schedule fuel nord keys rem = ssort keylt (tag_from 0 rem).
Proof.
  induction fuel as [|f IH]; intros keys rem KI Hf.
  - cbn [schedule].
    assert (E : tag_from 0 rem = []).
    { assert (Z0 : forall j, nth j rem [] = []) by (apply total_len_zero; lia).
      clear -Z0. generalize 0%nat. induction rem as [|l rem IHr]; intros k; [reflexivity|].
      cbn [tag_from]. pose proof (Z0 O) as H0. cbn in H0. subst l. cbn. apply IHr.
      intros j. exact (Z0 (S j)). }
    rewrite E. reflexivity.
  - destruct KI as [ND HI HK HS HL]. cbn [schedule]. destruct keys as [|[k i] keys'].
    + assert (E : tag_from 0 rem = []).
      { assert (Z0 : forall j, nth j rem [] = []).
        { intros j. destruct (nth j rem []) eqn:En; auto.
          assert (In j (map snd (@nil (list Z * nat)))) as [] by (apply HI; congruence). }
        clear -Z0. generalize 0%nat. induction rem as [|l rem IHr]; intros k; [reflexivity|].
        cbn [tag_from]. pose proof (Z0 O) as H0. cbn in H0. subst l. cbn. apply IHr.
        intros j. exact (Z0 (S j)). }
      rewrite E. reflexivity.
    + destruct (HK k i (or_introl eq_refl)) as (a & tl & En & Ek). rewrite En.
      pose proof (nth_nonnil_lt rem i ltac:(congruence)) as Hlen.
      cbn [map snd] in ND. inversion ND as [|? ? Hni ND']; subst.
      cbn [sortedK] in HS. destruct HS as [Sh St].
      destruct (tag_from_split rem 0 i a tl En) as (M1 & M2 & E1 & E2 & N1). cbn [Nat.add] in E1, N1.
      (* (i, a) is a minimum of the tagged concatenation *)
      assert (G : forall y, In y (tag_from 0 rem) -> lex_lt (kof y) (kof (i, a)) = false).
      { intros [j b] Hy. destruct (tag_from_in _ _ _ _ Hy) as [_ Hb]. rewrite Nat.sub_0_r in Hb.
        assert (Hj : nth j rem [] <> []) by (intros E; rewrite E in Hb; destruct Hb).
        apply HI in Hj. cbn [map snd In] in Hj. unfold kof. cbn [fst snd].
        assert (Hmin : exists hj tlj, nth j rem [] = hj :: tlj
                       /\ lex_lt (key_of nord j hj) (key_of nord i a) = false).
        { destruct Hj as [<-|Hj].
          - exists a, tl. split; auto. apply lex_lt_irrefl.
          - apply in_map_iff in Hj. destruct Hj as [[kj j'] [Ej Hin]]. cbn in Ej. subst j'.
            destruct (HK kj j (or_intror Hin)) as (hj & tlj & Enj & Ekj).
            exists hj, tlj. split; auto. rewrite <- Ekj. apply (Sh (kj, j) Hin). }
        destruct Hmin as (hj & tlj & Enj & Hle). rewrite Enj in Hb.
        destruct Hb as [<-|Hb]; [exact Hle|].
        pose proof (HL j) as Sj. rewrite Enj in Sj. cbn [sortedA] in Sj. destruct Sj as [Sj _].
        eapply lex_le_trans; [exact Hle|apply Sj; exact Hb]. }
      rewrite E1. rewrite (gssort_extract keylt (i, a) M1 M2).
      * f_equal. rewrite <- E2. apply IH.
        -- (* the invariant is kept *)
           constructor.
           ++ destruct tl as [|a' tl']; auto. apply insert_key_nodup; auto.
           ++ intros x. rewrite nth_upd by assumption.
              destruct (Nat.eqb_spec x i) as [->|Hne].
              ** destruct tl as [|a' tl'].
                 --- split; [intros H; contradiction|intros H; contradiction].
                 --- rewrite insert_key_in. cbn [snd]. split; [congruence|auto].
              ** specialize (HI x). cbn [map snd In] in HI.
                 destruct tl as [|a' tl'].
                 --- split; intros H; [apply HI; auto|].
                     apply HI in H. destruct H as [H|H]; [congruence|exact H].
                 --- rewrite insert_key_in. cbn [snd]. split.
                     +++ intros [H|H]; [congruence|]. apply HI. auto.
                     +++ intros H. apply HI in H. destruct H as [H|H]; [congruence|auto].
           ++ intros k2 i2 Hin.
              assert (Hold : In (k2, i2) keys' -> exists a2 tl2,
                               nth i2 (upd i (fun _ => tl) rem) [] = a2 :: tl2 /\ k2 = key_of nord i2 a2).
              { intros Hk. rewrite nth_upd by assumption.
                destruct (Nat.eqb_spec i2 i) as [->|Hne].
                - exfalso. apply Hni. apply in_map_iff. exists (k2, i). auto.
                - apply HK. right. exact Hk. }
              destruct tl as [|a' tl']; [apply Hold; exact Hin|].
              apply (Permutation_in _ (insert_key_perm _ keys')) in Hin.
              destruct Hin as [E|Hin]; [|apply Hold; exact Hin].
              inversion E; subst. exists a', tl'. rewrite nth_upd by assumption.
              rewrite Nat.eqb_refl. auto.
           ++ destruct tl as [|a' tl']; auto. apply insert_key_sorted. exact St.
           ++ intros x. rewrite nth_upd by assumption.
              destruct (Nat.eqb_spec x i) as [->|Hne]; [|apply HL].
              pose proof (HL i) as Si. rewrite En in Si. cbn [sortedA] in Si. tauto.
        -- rewrite (total_len_upd rem i a tl En) in Hf. lia.
      * intros y Hy. unfold keylt.
        assert (Hin : In y (tag_from 0 rem)) by (rewrite E1; apply in_or_app; left; exact Hy).
        pose proof (G y Hin) as Gy.
        destruct (lex_lt (kof (i, a)) (kof y)) eqn:L; auto.
        exfalso. apply (kof_tag_neq (i, a) y); [cbn [fst]; intros E; apply (N1 y Hy); auto|].
        apply lex_total; assumption.
      * intros y Hy. unfold keylt. apply G. rewrite E1. apply in_or_app. right. right. exact Hy.
Qed.
End Merge.

Lemma init_keys_key nord : forall rem k kk i, In (kk, i) (init_keys nord k rem) ->
  (k <= i)%nat /\ exists a tl, nth (i - k) rem [] = a :: tl /\ kk = key_of nord i a.
Proof.
  induction rem as [|l rem IH]; intros k kk i H; [destruct H|]. cbn [init_keys] in H.
  assert (Hrec : In (kk, i) (init_keys nord (S k) rem) ->
                 (k <= i)%nat /\ exists a tl, nth (i - k) (l :: rem) [] = a :: tl /\ kk = key_of nord i a).
  { intros H'. destruct (IH _ _ _ H') as (H1 & a & tl & E & Ek). split; [lia|]. exists a, tl.
    replace (i - k)%nat with (S (i - S k)) by lia. auto. }
  destruct l as [|a l]; [apply Hrec; exact H|].
  apply (Permutation_in _ (insert_key_perm _ _)) in H. destruct H as [E|H]; [|apply Hrec; exact H].
  inversion E; subst. split; [lia|]. exists a, l. rewrite Nat.sub_diag. auto.
Qed.

Lemma init_keys_sorted nord : forall rem k, sortedK (init_keys nord k rem).
Proof.
  induction rem as [|l rem IH]; intros k; cbn [init_keys]; [exact I|].
  destruct l; [apply IH|apply insert_key_sorted; apply IH].
Qed.

Theorem the_schedule_is_sort nord rem :
  (forall i, sortedA nord i (nth i rem [])) ->
  the_schedule nord rem = ssort (keylt nord) (tag_from 0 rem).
Proof.
  intros HL. unfold the_schedule. apply schedule_is_sort; [|lia].
  destruct (init_keys_inv nord rem 0) as [ND HI]. constructor; auto.
  - intros i. rewrite HI, Nat.sub_0_r. split; [tauto|]. intros H. split; [lia|exact H].
  - intros k i H. destruct (init_keys_key nord rem 0 k i H) as (_ & a & tl & E & Ek).
    rewrite Nat.sub_0_r in E. eauto.
  - apply init_keys_sorted.
Qed.

(* ------------------------------------------------------------------ the sort is sorted *)
Section Sorted.
Context {A : Type} (lt : A -> A -> bool).
Hypothesis lt_asym : forall a b, lt a b = true -> lt b a = false.
Hypothesis le_trans : forall a b c, lt b a = false -> lt c b = false -> lt c a = false.

Fixpoint sortedG (l : list A) : Prop :=
  match l with
  | [] => True
  | x :: l' => (forall y, In y l' -> lt y x = false) /\ sortedG l'
  end.

Lemma gins_sorted x l : sortedG l -> sortedG (ins lt x l).
Proof.
  induction l as [|h l IH]; intros S; cbn [ins].
  - cbn. split; auto; intros y [].
  - cbn [sortedG] in S. destruct S as [Sh Sl]. destruct (lt h x) eqn:E.
    + cbn [sortedG]. split; [|apply IH; exact Sl].
      intros y Hy. apply (Permutation_in _ (gins_perm lt x l)) in Hy.
      destruct Hy as [<-|Hy]; [apply lt_asym; exact E|apply Sh; exact Hy].
    + cbn [sortedG]. split; [|split; auto].
      intros y [<-|Hy]; [exact E|]. eapply le_trans; [exact E|apply Sh; exact Hy].
Qed.

Lemma gssort_sorted l : sortedG (ssort lt l).
Proof. induction l as [|x l IH]; cbn [ssort fold_right]; [exact I|]. apply gins_sorted. exact IH. Qed.
End Sorted.

(* ------------------------------------------------------------------ padding with -1 orders
   non-negative stamps like Python's list comparison *)
Definition nonneg (l : list Z) : Prop := Forall (fun z => 0 <= z) l.

Lemma pad_length l n : length (pad l n) = n.
Proof. revert l; induction n as [|n IH]; intros [|x l]; cbn [pad length]; auto. Qed.

Lemma pad_lt : forall n a b, nonneg a -> nonneg b -> (length a <= n)%nat -> (length b <= n)%nat ->
  lex_lt a b = true -> lex_lt (pad a n) (pad b n) = true.
Proof.
  induction n as [|n IH]; intros a b Na Nb La Lb H.
  - destruct a, b; cbn in *; try lia; try discriminate.
  - destruct a as [|x a], b as [|y b]; cbn [pad lex_lt] in *; try discriminate.
    + inversion Nb; subst. destruct (Z.ltb_spec (-1) y); [reflexivity|lia].
    + inversion Na; inversion Nb; subst.
      destruct (Z.ltb x y); auto. destruct (Z.ltb y x); [discriminate|].
      apply IH; auto; cbn in *; lia.
Qed.

Lemma pad_inj : forall n a b, nonneg a -> nonneg b -> (length a <= n)%nat -> (length b <= n)%nat ->
  pad a n = pad b n -> a = b.
Proof.
  induction n as [|n IH]; intros a b Na Nb La Lb H.
  - destruct a, b; cbn in *; try lia; try reflexivity.
  - destruct a as [|x a], b as [|y b]; cbn [pad] in H; inversion H; subst.
    + reflexivity.
    + inversion Nb; subst. lia.
    + inversion Na; subst. lia.
    + inversion Na; inversion Nb; subst. f_equal. apply (IH a b); auto; cbn in *; lia.
Qed.

Lemma lex_lt_snoc : forall p q x y, length p = length q ->
  lex_lt (p ++ [x]) (q ++ [y]) = if list_eqb p q then Z.ltb x y else lex_lt p q.
Proof.
  induction p as [|a p IH]; intros [|b q] x y L; cbn in L; try discriminate.
  - cbn. destruct (Z.ltb x y); auto. destruct (Z.ltb y x); reflexivity.
  - cbn [app lex_lt list_eqb]. destruct (Z.ltb_spec a b); destruct (Z.ltb_spec b a); destruct (Z.eqb_spec a b);
      try lia; cbn [andb]; auto; try (apply IH; lia).
Qed.

(* ------------------------------------------------------------------ the stable sort commutes with
   filtering; a sorted list is its own sort; projections of the tagged concatenation *)
Section SortFilter.
Context {A : Type} (lt : A -> A -> bool).
Hypothesis lt_asym : forall a b, lt a b = true -> lt b a = false.
Hypothesis le_trans : forall a b c, lt b a = false -> lt c b = false -> lt c a = false.

Lemma sortedG_filter p l : sortedG lt l -> sortedG lt (filter p l).
Proof.
  induction l as [|x l IH]; cbn [filter sortedG]; auto. intros [Sx Sl].
  destruct (p x); [|apply IH; exact Sl]. cbn [sortedG]. split; [|apply IH; exact Sl].
  intros y Hy. apply filter_In in Hy. apply Sx. tauto.
Qed.

Lemma gins_filter p x : forall l, sortedG lt l ->
  filter p (ins lt x l) = if p x then ins lt x (filter p l) else filter p l.
Proof.
  induction l as [|y l IH]; intros S; cbn [ins filter].
  - destruct (p x); reflexivity.
  - cbn [sortedG] in S. destruct S as [Sy Sl]. destruct (lt y x) eqn:E.
    + cbn [filter]. rewrite (IH Sl). destruct (p x), (p y); cbn [ins]; try rewrite E; reflexivity.
    + cbn [filter]. destruct (p x); [|reflexivity].
      symmetry. apply gins_head. intros z Hz.
      assert (Hz' : In z (y :: l)) by (destruct (p y); [destruct Hz as [<-|Hz]; [left; reflexivity|right]|right];
                                       apply filter_In in Hz; tauto).
      destruct Hz' as [<-|Hz']; [exact E|]. eapply le_trans; [exact E|apply Sy; exact Hz'].
Qed.

Lemma gssort_filter p l : filter p (ssort lt l) = ssort lt (filter p l).
Proof.
  induction l as [|x l IH]; cbn [ssort fold_right filter]; auto. fold (ssort lt l).
  rewrite gins_filter by (apply gssort_sorted; auto). rewrite IH.
  destruct (p x); reflexivity.
Qed.

Lemma gssort_id l : sortedG lt l -> ssort lt l = l.
Proof.
  induction l as [|x l IH]; cbn [ssort fold_right sortedG]; auto. intros [Sx Sl].
  fold (ssort lt l). rewrite (IH Sl). apply gins_head. exact Sx.
Qed.
End SortFilter.

Lemma filter_tag_from {A} (i : nat) : forall (L : list (list A)) k, (k <= i)%nat ->
  filter (fun u : nat * A => Nat.eqb (fst u) i) (tag_from k L) = map (pair i) (nth (i - k) L []).
Proof.
  induction L as [|l L IH]; intros k H; cbn [tag_from filter].
  - destruct (i - k)%nat; reflexivity.
  - rewrite filter_app. destruct (Nat.eqb_spec k i) as [->|N].
    + rewrite Nat.sub_diag. cbn [nth].
      rewrite filter_all by (intros u Hu; apply in_map_iff in Hu; destruct Hu as [x [<- _]]; apply Nat.eqb_refl).
      assert (E : filter (fun u : nat * A => Nat.eqb (fst u) i) (tag_from (S i) L) = []).
      { clear. generalize (S i) (Nat.lt_succ_diag_r i). induction L as [|l L IHL]; intros k H; cbn [tag_from filter]; auto.
        rewrite filter_app, IHL by lia. rewrite app_nil_r.
        induction l as [|x l IHl]; cbn [map filter fst]; auto.
        destruct (Nat.eqb_spec k i); [lia|exact IHl]. }
      rewrite E, app_nil_r. reflexivity.
    + replace (i - k)%nat with (S (i - S k)) by lia. cbn [nth]. rewrite IH by lia.
      assert (E : filter (fun u : nat * A => Nat.eqb (fst u) i) (map (pair k) l) = []).
      { induction l as [|x l IHl]; cbn [map filter fst]; auto. destruct (Nat.eqb_spec k i); [contradiction|exact IHl]. }
      rewrite E. reflexivity.
Qed.
