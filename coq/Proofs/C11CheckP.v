(* C11CheckP.v — the faithful model's observation satisfies the executable C11 oracle. *)
From Coq Require Import ZArith List Bool Lia Sorted.
From FT Require Import Model.Base Model.Obs Model.C11PyOps Model.C11Fiber
                       Gen.C11PayloadOps Gen.C11CoordPayloadOps Model.C11Check
                       Proofs.ObsP Proofs.C11OpsP Proofs.C11FiberP.
Import ListNotations.
Open Scope Z_scope.

Lemma maxl_ge x l : In x l -> x <= maxl l.
Proof.
  induction l as [|y l IH]; [intros []|]. cbn [maxl fold_right In]. fold (maxl l).
  intros [H|H]; [subst; lia|specialize (IH H); lia].
Qed.

Lemma forallb_coords (P : Z -> bool) (a : zfib) :
  forallb (fun cv => P (fst cv)) a = true -> forall x, In x (coordsP a) -> P x = true.
Proof.
  intros H x Hx. unfold coordsP in Hx. apply in_map_iff in Hx. destruct Hx as [cv [E Hin]].
  rewrite forallb_forall in H. subst. apply H. exact Hin.
Qed.

Lemma eff_none_bound : forall a, sortedP a -> forall x, In x (coordsP a) -> x < eff_shape None a.
Proof.
  induction a as [|[c v] a IH]; intros Hs x Hx; [destruct Hx|].
  destruct (sortedP_cons _ _ _ Hs) as [Hsa Hla].
  destruct a as [|[c1 v1] a1].
  - cbn in Hx. destruct Hx as [Hx|[]]. subst. cbn. lia.
  - assert (E : eff_shape None ((c, v) :: (c1, v1) :: a1) = eff_shape None ((c1, v1) :: a1)).
    { unfold eff_shape. cbn [rev]. destruct (rev a1 ++ [(c1, v1)]) as [|q t] eqn:Eq.
      - destruct (rev a1); discriminate.
      - reflexivity. }
    rewrite E. cbn [coordsP map fst In] in Hx. destruct Hx as [Hx|Hx].
    + subst x. assert (c < c1).
      { unfold lb in Hla. rewrite Forall_forall in Hla. apply Hla. cbn. left. reflexivity. }
      assert (c1 < eff_shape None ((c1, v1) :: a1)) by (apply IH; [exact Hsa|cbn; left; reflexivity]).
      lia.
    + apply IH; [exact Hsa|exact Hx].
Qed.

Lemma wf_fib_inv sa a : wf_fib sa a = true ->
  sortedP a /\ (forall x, In x (coordsP a) -> 0 <= x < eff_shape sa a) /\ 0 <= eff_shape sa a.
Proof.
  unfold wf_fib. intros H. apply andb_true_iff in H. destruct H as [H H3].
  apply andb_true_iff in H. destruct H as [H1 H2].
  assert (Hs : sortedP a) by (apply ssorted_strong; exact H1).
  assert (H0 : forall x, In x (coordsP a) -> 0 <= x).
  { intros x Hx. apply Z.leb_le. exact (forallb_coords (fun c => 0 <=? c) a H2 x Hx). }
  split; [exact Hs|]. destruct sa as [n|].
  - apply andb_true_iff in H3. destruct H3 as [Hn H3]. apply Z.leb_le in Hn.
    split; [|exact Hn]. intros x Hx. split; [apply H0; exact Hx|].
    apply Z.ltb_lt. exact (forallb_coords (fun c => c <? n) a H3 x Hx).
  - split.
    + intros x Hx. split; [apply H0; exact Hx|apply eff_none_bound; assumption].
    + unfold eff_shape. destruct (rev a) as [|[c v] t] eqn:E; [lia|].
      assert (In c (coordsP a)).
      { unfold coordsP. apply in_map_iff. exists (c, v). split; [reflexivity|].
        apply in_rev. rewrite E. left. reflexivity. }
      specialize (H0 c H). lia.
Qed.

Lemma fib_ok_intro N r : sortedP r -> (forall x, In x (coordsP r) -> 0 <= x < N) -> fib_ok N r = true.
Proof.
  intros Hs Hb. unfold fib_ok. apply andb_true_iff. split; [apply strong_ssorted; exact Hs|].
  apply forallb_forall. intros x Hx. specialize (Hb x Hx).
  apply andb_true_iff. split; [apply Z.leb_le|apply Z.ltb_lt]; lia.
Qed.

Lemma memb_In c l : memb c l = true <-> In c l.
Proof. apply existsb_In. Qed.

Lemma eqb_of_iff (b1 b2 : bool) : (b1 = true <-> b2 = true) -> Bool.eqb b1 b2 = true.
Proof. destruct b1, b2; cbn; intros [H1 H2]; auto; try (symmetry; auto). Qed.

Lemma pointwise_intro N r dom val :
  fib_ok N r = true ->
  (forall c, 0 <= c < N -> (In c (coordsP r) <-> dom c = true)) ->
  (forall c, 0 <= c < N -> getz c r = val c) ->
  pointwise N r dom val = true.
Proof.
  intros Hok Hd Hv. unfold pointwise. rewrite Hok. cbn [andb].
  apply forallb_forall. intros c Hc. apply zrange_In in Hc.
  apply andb_true_iff. split.
  - apply eqb_of_iff. rewrite memb_In. apply Hd. exact Hc.
  - apply Z.eqb_eq. apply Hv. exact Hc.
Qed.

Lemma same_content_intro N r r' :
  fib_ok N r = true -> fib_ok N r' = true -> (forall c, getz c r = getz c r') ->
  same_content N r r' = true.
Proof.
  intros H1 H2 Hv. unfold same_content. rewrite H1, H2. cbn [andb].
  apply forallb_forall. intros c _. apply Z.eqb_eq. apply Hv.
Qed.

Lemma unV_V_fib a : unV_fib (V_fib a) = Some a.
Proof.
  unfold V_fib, Vl, unV_fib. induction a as [|[c v] a IH]; [reflexivity|].
  cbn [map Vp fst snd]. rewrite IH. reflexivity.
Qed.

Section FibCase.
  Variables (sa : option Z) (a : zfib) (sb : option Z) (b : zfib) (s : Z).
  Hypothesis Hwa : wf_fib sa a = true.
  Hypothesis Hwb : wf_fib sb b = true.
  Let N := universe sa a sb b.

  Lemma in_a_bound x : In x (coordsP a) -> 0 <= x < N.
  Proof.
    intros Hx. pose proof (wf_fib_inv _ _ Hwa) as HH. destruct HH as (_ & H & _). specialize (H x Hx).
    pose proof (maxl_ge x (coords a) Hx). unfold N, universe. lia.
  Qed.
  Lemma in_b_bound x : In x (coordsP b) -> 0 <= x < N.
  Proof.
    intros Hx. pose proof (wf_fib_inv _ _ Hwb) as HH. destruct HH as (_ & H & _). specialize (H x Hx).
    pose proof (maxl_ge x (coords b) Hx). unfold N, universe. lia.
  Qed.
  Lemma eff_a_bound : eff_shape sa a < N.
  Proof. unfold N, universe. lia. Qed.

  Let Hsa : sortedP a := proj1 (wf_fib_inv _ _ Hwa).
  Let Hsb : sortedP b := proj1 (wf_fib_inv _ _ Hwb).

  Lemma spec_add_fiber :
    fib_spec false true sa a sb b s (fib_obs (fadd a b) None (fiadd a b) true a b) = true.
  Proof.
    unfold fib_spec, fib_obs. rewrite !unV_V_fib. fold N.
    assert (Hok1 : fib_ok N (fadd a b) = true).
    { apply fib_ok_intro; [apply fadd_sorted; assumption|].
      intros x Hx. apply fadd_In in Hx.
      destruct Hx as [Hx|Hx]; apply coordsP_nonempty_incl in Hx; [apply in_a_bound|apply in_b_bound]; exact Hx. }
    apply andb_true_iff. split.
    - apply same_content_intro; [|exact Hok1|].
      + apply fib_ok_intro; [apply fiadd_sorted; assumption|].
        intros x Hx. apply fiadd_incl in Hx. destruct Hx; [apply in_a_bound|apply in_b_bound]; assumption.
      + intros c. rewrite fiadd_getz, fadd_getz by assumption. reflexivity.
    - apply pointwise_intro; [exact Hok1| |].
      + intros c _. unfold stored_nz. rewrite orb_true_iff, !memb_In. apply fadd_In.
      + intros c _. apply fadd_getz; assumption.
  Qed.

  Lemma spec_mul_fiber :
    fib_spec true true sa a sb b s (fib_obs (fmul a b) None (fimul a b) true a b) = true.
  Proof.
    unfold fib_spec, fib_obs. rewrite !unV_V_fib. fold N.
    assert (Hok1 : fib_ok N (fmul a b) = true).
    { apply fib_ok_intro; [apply fmul_sorted; assumption|].
      intros x Hx. apply fmul_In in Hx; [|assumption|assumption].
      destruct Hx as [Hx _]. apply coordsP_nonempty_incl in Hx. apply in_a_bound. exact Hx. }
    apply andb_true_iff. split.
    - apply same_content_intro; [|exact Hok1|].
      + apply fib_ok_intro.
        * unfold sortedP. rewrite fimul_coords. exact Hsa.
        * intros x Hx. rewrite fimul_coords in Hx. apply in_a_bound. exact Hx.
      + intros c. rewrite fimul_getz, fmul_getz by assumption. reflexivity.
    - apply pointwise_intro; [exact Hok1| |].
      + intros c _. unfold stored_nz. rewrite andb_true_iff, !memb_In. apply fmul_In; assumption.
      + intros c _. apply fmul_getz; assumption.
  Qed.

  Lemma spec_add_scalar :
    fib_spec false false sa a sb b s
      (fib_obs (fadd_scalar sa a s) (Some (fadd_scalar sa a s)) (fiadd_scalar sa a s) true a b) = true.
  Proof.
    unfold fib_spec, fib_obs. rewrite !unV_V_fib. fold N. cbn [Vo].
    pose proof (wf_fib_inv _ _ Hwa) as HH. destruct HH as (_ & Hba & Hn).
    assert (Hok1 : fib_ok N (fadd_scalar sa a s) = true).
    { apply fib_ok_intro.
      - unfold sortedP. rewrite fadd_scalar_coords. apply zrange_sorted.
      - intros x Hx. rewrite fadd_scalar_coords in Hx. apply zrange_In in Hx.
        pose proof eff_a_bound. lia. }
    apply andb_true_iff. split.
    - apply same_content_intro; [|exact Hok1|].
      + destruct (fiadd_scalar_spec sa a s 0 Hsa) as (H1 & _ & H3).
        apply fib_ok_intro; [exact H1|].
        intros x Hx. destruct (H3 x Hx) as [H|H]; [pose proof eff_a_bound; lia|apply in_a_bound; exact H].
      + intros c. destruct (fiadd_scalar_spec sa a s c Hsa) as (_ & H2 & _).
        rewrite H2, fadd_scalar_getz.
        destruct ((0 <=? c) && (c <? eff_shape sa a)) eqn:E; [lia|].
        apply getz_notin. intros Hin. specialize (Hba c Hin).
        apply andb_false_iff in E. destruct E as [E|E]; [apply Z.leb_gt in E|apply Z.ltb_ge in E]; lia.
    - apply andb_true_iff. split; [|apply V_eqb_refl].
      apply pointwise_intro; [exact Hok1| |].
      + intros c _. rewrite fadd_scalar_coords, zrange_In. unfold in_shape.
        rewrite andb_true_iff, Z.leb_le, Z.ltb_lt. tauto.
      + intros c _. unfold in_shape. apply fadd_scalar_getz.
  Qed.

  Lemma spec_mul_scalar :
    fib_spec true false sa a sb b s
      (fib_obs (fmul_scalar a s) (Some (fmul_scalar a s)) (fimul_scalar a s) true a b) = true.
  Proof.
    unfold fib_spec, fib_obs. rewrite !unV_V_fib. fold N. cbn [Vo].
    assert (Hok1 : fib_ok N (fmul_scalar a s) = true).
    { apply fib_ok_intro.
      - unfold sortedP. rewrite fmul_scalar_coords. apply sortedP_nonempty. exact Hsa.
      - intros x Hx. rewrite fmul_scalar_coords in Hx. apply coordsP_nonempty_incl in Hx.
        apply in_a_bound. exact Hx. }
    apply andb_true_iff. split.
    - apply same_content_intro; [|exact Hok1|].
      + apply fib_ok_intro.
        * unfold sortedP. rewrite fimul_scalar_coords. exact Hsa.
        * intros x Hx. rewrite fimul_scalar_coords in Hx. apply in_a_bound. exact Hx.
      + intros c. rewrite fimul_scalar_getz, fmul_scalar_getz by assumption. apply Z.mul_comm.
    - apply andb_true_iff. split; [|apply V_eqb_refl].
      apply pointwise_intro; [exact Hok1| |].
      + intros c _. unfold stored_nz. rewrite memb_In, fmul_scalar_coords. tauto.
      + intros c _. apply fmul_scalar_getz. exact Hsa.
  Qed.
End FibCase.

Lemma fib_model_spec mul withfiber sa a sb b s :
  wf_fib sa a = true -> wf_fib sb b = true ->
  fib_spec mul withfiber sa a sb b s (fib_model mul withfiber sa a b s) = true.
Proof.
  intros Hwa Hwb. unfold fib_model. destruct mul, withfiber.
  - apply spec_mul_fiber; assumption.
  - apply spec_mul_scalar; assumption.
  - apply spec_add_fiber; assumption.
  - apply spec_add_scalar; assumption.
Qed.

(* ---------------------------------------------------------------- histories (round 2) *)
Lemma forallb_coords_intro (P : Z -> bool) (a : zfib) :
  (forall x, In x (coordsP a) -> P x = true) -> forallb (fun cv => P (fst cv)) a = true.
Proof.
  intros H. apply forallb_forall. intros cv Hin. apply H. unfold coordsP. apply in_map. exact Hin.
Qed.

Lemma wf_fib_intro sa r :
  sortedP r -> (forall x, In x (coordsP r) -> 0 <= x) ->
  (forall n, sa = Some n -> 0 <= n /\ forall x, In x (coordsP r) -> x < n) ->
  wf_fib sa r = true.
Proof.
  intros Hs H0 Hn. unfold wf_fib. apply andb_true_iff. split; [apply andb_true_iff; split|].
  - apply strong_ssorted. exact Hs.
  - apply (forallb_coords_intro (fun c => 0 <=? c)). intros x Hx. apply Z.leb_le. apply H0. exact Hx.
  - destruct sa as [n|]; [|reflexivity]. destruct (Hn n eq_refl) as [Hn0 Hlt].
    apply andb_true_iff. split; [apply Z.leb_le; exact Hn0|].
    apply (forallb_coords_intro (fun c => c <? n)). intros x Hx. apply Z.ltb_lt. apply Hlt. exact Hx.
Qed.

Lemma wf_fib_parts sa a : wf_fib sa a = true ->
  sortedP a /\ (forall x, In x (coordsP a) -> 0 <= x)
  /\ (forall n, sa = Some n -> 0 <= n /\ forall x, In x (coordsP a) -> x < n).
Proof.
  intros H. destruct (wf_fib_inv _ _ H) as (Hs & Hb & Hn). split; [exact Hs|]. split.
  - intros x Hx. specialize (Hb x Hx). lia.
  - intros n E. subst sa. cbn [eff_shape] in *. split; [exact Hn|]. intros x Hx. specialize (Hb x Hx). lia.
Qed.

Lemma within_coords sa c n : within sa c = true -> sa = Some n -> forall x, In x (coordsP c) -> x < n.
Proof.
  intros H E x Hx. subst sa. cbn [within] in H. apply Z.ltb_lt.
  exact (forallb_coords (fun c => c <? n) c H x Hx).
Qed.

Lemma wf_fib_fiadd sa a sc c :
  wf_fib sa a = true -> wf_fib sc c = true -> within sa c = true -> wf_fib sa (fiadd a c) = true.
Proof.
  intros Ha Hc Hw. destruct (wf_fib_parts _ _ Ha) as (Hsa & H0a & Hna).
  destruct (wf_fib_parts _ _ Hc) as (Hsc & H0c & _).
  apply wf_fib_intro.
  - apply fiadd_sorted; assumption.
  - intros x Hx. apply fiadd_incl in Hx. destruct Hx; auto.
  - intros n E. destruct (Hna n E) as [Hn Hlt]. split; [exact Hn|].
    intros x Hx. apply fiadd_incl in Hx. destruct Hx as [Hx|Hx]; [auto|].
    exact (within_coords sa c n Hw E x Hx).
Qed.

Lemma wf_fib_fimul sa a c : wf_fib sa a = true -> wf_fib sa (fimul a c) = true.
Proof.
  intros Ha. destruct (wf_fib_parts _ _ Ha) as (Hsa & H0a & Hna).
  apply wf_fib_intro.
  - unfold sortedP. rewrite fimul_coords. exact Hsa.
  - intros x Hx. rewrite fimul_coords in Hx. auto.
  - intros n E. destruct (Hna n E) as [Hn Hlt]. split; [exact Hn|].
    intros x Hx. rewrite fimul_coords in Hx. auto.
Qed.

Lemma hist_step_wf pre a :
  wf_afib a = true ->
  match pre with None => True | Some (_, c) => wf_afib c = true /\ within (af_shape a) (af_elems c) = true end ->
  wf_fib (af_shape a) (af_elems (hist_step pre a)) = true /\ af_shape (hist_step pre a) = af_shape a.
Proof.
  unfold wf_afib. intros Ha Hp. destruct pre as [[m c]|]; [|split; [exact Ha|reflexivity]].
  destruct Hp as [Hc Hw]. destruct m; cbn [hist_step st_imul_fiber st_iadd_fiber af_elems af_shape].
  - split; [apply wf_fib_fimul; exact Ha|reflexivity].
  - split; [eapply wf_fib_fiadd; eassumption|reflexivity].
Qed.

Lemma pre_ok_model pre a :
  wf_afib a = true ->
  match pre with None => True | Some (_, c) => wf_afib c = true /\ within (af_shape a) (af_elems c) = true end ->
  pre_ok pre a (af_elems (hist_step pre a)) = true.
Proof.
  intros Ha Hp. destruct (hist_step_wf pre a Ha Hp) as [Hwf1 _].
  destruct pre as [[m c]|]; [|apply V_eqb_refl].
  destruct Hp as [Hc Hw]. unfold wf_afib in *. unfold pre_ok.
  rewrite Hwf1. cbn [andb].
  destruct (wf_fib_parts _ _ Ha) as (Hsa & _ & _). destruct (wf_fib_parts _ _ Hc) as (Hsc & _ & _).
  apply andb_true_iff. split.
  - apply fib_ok_intro.
    + destruct (wf_fib_parts _ _ Hwf1) as (H & _ & _). exact H.
    + intros x Hx. destruct m; cbn [hist_step st_imul_fiber st_iadd_fiber af_elems] in Hx.
      * rewrite fimul_coords in Hx. exact (in_a_bound _ _ _ _ Ha x Hx).
      * apply fiadd_incl in Hx. destruct Hx as [Hx|Hx];
          [exact (in_a_bound _ _ _ _ Ha x Hx)|exact (in_b_bound _ _ _ _ Hc x Hx)].
  - apply forallb_forall. intros x _. apply Z.eqb_eq.
    destruct m; cbn [hist_step st_imul_fiber st_iadd_fiber af_elems].
    + apply fimul_getz.
    + apply fiadd_getz; assumption.
Qed.

Lemma hist_model_spec pre mul withfiber a b s :
  wf_afib a = true -> wf_afib b = true ->
  match pre with None => True | Some (_, c) => wf_afib c = true /\ within (af_shape a) (af_elems c) = true end ->
  hist_spec pre mul withfiber a b s (c11_model (CFibH pre mul withfiber a b s)) = true.
Proof.
  intros Ha Hb Hp. cbn [c11_model]. unfold hist_spec. rewrite unV_V_fib.
  destruct (hist_step_wf pre a Ha Hp) as [Hwf1 Hsh].
  rewrite (pre_ok_model pre a Ha Hp). cbn [andb]. rewrite Hsh.
  apply fib_model_spec; [exact Hwf1|exact Hb].
Qed.

(* ---------------------------------------------------------------- chains (round 3) *)
Lemma wf_fib_none_nil : wf_fib None [] = true.
Proof. reflexivity. Qed.

Lemma wf_fib_fadd sa a sc c :
  wf_fib sa a = true -> wf_fib sc c = true -> within sa c = true -> wf_fib sa (fadd a c) = true.
Proof.
  intros Ha Hc Hw. destruct (wf_fib_parts _ _ Ha) as (Hsa & H0a & Hna).
  destruct (wf_fib_parts _ _ Hc) as (Hsc & H0c & _).
  assert (Hin : forall x, In x (coordsP (fadd a c)) -> In x (coordsP a) \/ In x (coordsP c)).
  { intros x Hx. apply fadd_In in Hx. destruct Hx as [Hx|Hx]; apply coordsP_nonempty_incl in Hx; auto. }
  apply wf_fib_intro.
  - apply fadd_sorted; assumption.
  - intros x Hx. destruct (Hin x Hx); auto.
  - intros n E. destruct (Hna n E) as [Hn Hlt]. split; [exact Hn|].
    intros x Hx. destruct (Hin x Hx) as [H|H]; [auto|exact (within_coords sa c n Hw E x H)].
Qed.

Lemma wf_fib_fmul sa a sc c :
  wf_fib sa a = true -> wf_fib sc c = true -> wf_fib sa (fmul a c) = true.
Proof.
  intros Ha Hc. destruct (wf_fib_parts _ _ Ha) as (Hsa & H0a & Hna).
  destruct (wf_fib_parts _ _ Hc) as (Hsc & _ & _).
  assert (Hin : forall x, In x (coordsP (fmul a c)) -> In x (coordsP a)).
  { intros x Hx. apply fmul_In in Hx; [|assumption|assumption].
    destruct Hx as [Hx _]. apply coordsP_nonempty_incl. exact Hx. }
  apply wf_fib_intro.
  - apply fmul_sorted; assumption.
  - intros x Hx. auto.
  - intros n E. destruct (Hna n E) as [Hn Hlt]. split; [exact Hn|]. intros x Hx. auto.
Qed.

Lemma wf_fib_fadd_scalar sa a k : wf_fib sa a = true -> wf_fib sa (fadd_scalar sa a k) = true.
Proof.
  intros Ha. destruct (wf_fib_parts _ _ Ha) as (Hsa & H0a & Hna).
  apply wf_fib_intro.
  - unfold sortedP. rewrite fadd_scalar_coords. apply zrange_sorted.
  - intros x Hx. rewrite fadd_scalar_coords in Hx. apply zrange_In in Hx. lia.
  - intros n E. destruct (Hna n E) as [Hn Hlt]. split; [exact Hn|].
    intros x Hx. rewrite fadd_scalar_coords in Hx. apply zrange_In in Hx. subst sa. cbn [eff_shape] in Hx. lia.
Qed.

Lemma wf_fib_fmul_scalar sa a k : wf_fib sa a = true -> wf_fib sa (fmul_scalar a k) = true.
Proof.
  intros Ha. destruct (wf_fib_parts _ _ Ha) as (Hsa & H0a & Hna).
  apply wf_fib_intro.
  - unfold sortedP. rewrite fmul_scalar_coords. apply sortedP_nonempty. exact Hsa.
  - intros x Hx. rewrite fmul_scalar_coords in Hx. apply coordsP_nonempty_incl in Hx. auto.
  - intros n E. destruct (Hna n E) as [Hn Hlt]. split; [exact Hn|].
    intros x Hx. rewrite fmul_scalar_coords in Hx. apply coordsP_nonempty_incl in Hx. auto.
Qed.

Lemma wf_fib_fiadd_scalar sa a k : wf_fib sa a = true -> wf_fib sa (fiadd_scalar sa a k) = true.
Proof.
  intros Ha. destruct (wf_fib_parts _ _ Ha) as (Hsa & H0a & Hna).
  destruct (fiadd_scalar_spec sa a k 0 Hsa) as (H1 & _ & H3).
  apply wf_fib_intro.
  - exact H1.
  - intros x Hx. destruct (H3 x Hx) as [H|H]; [lia|auto].
  - intros n E. destruct (Hna n E) as [Hn Hlt]. split; [exact Hn|].
    intros x Hx. destruct (H3 x Hx) as [H|H]; [subst sa; cbn [eff_shape] in H; lia|auto].
Qed.

Lemma wf_fib_fimul_scalar sa a k : wf_fib sa a = true -> wf_fib sa (fimul_scalar a k) = true.
Proof.
  intros Ha. destruct (wf_fib_parts _ _ Ha) as (Hsa & H0a & Hna).
  apply wf_fib_intro.
  - unfold sortedP. rewrite fimul_scalar_coords. exact Hsa.
  - intros x Hx. rewrite fimul_scalar_coords in Hx. auto.
  - intros n E. destruct (Hna n E) as [Hn Hlt]. split; [exact Hn|].
    intros x Hx. rewrite fimul_scalar_coords in Hx. auto.
Qed.

(* a well-formed r whose coordinates come from a or c lies in the universe of (a, c) *)
Lemma fib_ok_of_wf sa a sc c r :
  wf_fib sa a = true -> wf_fib sc c = true -> sortedP r ->
  (forall x, In x (coordsP r) -> In x (coordsP a) \/ In x (coordsP c) \/ 0 <= x < eff_shape sa a) ->
  fib_ok (universe sa a sc c) r = true.
Proof.
  intros Ha Hc Hs Hin. apply fib_ok_intro; [exact Hs|].
  intros x Hx. destruct (Hin x Hx) as [H|[H|H]].
  - exact (in_a_bound sa a sc c Ha x H).
  - exact (in_b_bound sa a sc c Hc x H).
  - pose proof (eff_a_bound sa a sc c). lia.
Qed.

Lemma forallb_range_intro N (P : Z -> bool) : (forall x, P x = true) -> forallb P (zrange N) = true.
Proof. intros H. apply forallb_forall. intros x _. apply H. Qed.

Lemma outside_shape_zero sa a x : wf_fib sa a = true -> in_shape sa a x = false -> getz x a = 0.
Proof.
  intros Ha E. pose proof (wf_fib_inv _ _ Ha) as HH. destruct HH as (_ & Hb & _).
  apply getz_notin. intros Hin. specialize (Hb x Hin). unfold in_shape in E.
  apply andb_false_iff in E. destruct E as [E|E]; [apply Z.leb_gt in E|apply Z.ltb_ge in E]; lia.
Qed.

Lemma step_ok_model sh acc st :
  wf_fib sh (af_elems acc) = true -> af_shape acc = sh -> step_wf sh st = true ->
  step_ok sh st (af_elems acc) (af_elems (chain_step acc st)) = true
  /\ wf_fib sh (af_elems (chain_step acc st)) = true
  /\ af_shape (chain_step acc st) = sh.
Proof.
  intros Ha Hsh Hst. destruct (wf_fib_parts _ _ Ha) as (Hsa & _ & _).
  assert (Hnil : wf_fib None [] = true) by reflexivity.
  destruct st as [c|c|k|k|c|c|k|k]; cbn [step_wf] in Hst;
    cbn [chain_step st_add_fiber st_mul_fiber st_add_scalar st_mul_scalar st_iadd_fiber st_imul_fiber
         st_iadd_scalar st_imul_scalar af_elems af_shape];
    try (apply andb_true_iff in Hst; destruct Hst as [Hc Hw]; unfold wf_afib in Hc;
         destruct (wf_fib_parts _ _ Hc) as (Hsc & _ & _));
    rewrite ?Hsh; unfold step_ok; cbn [step_universe].
  - (* acc + c *)
    pose proof (wf_fib_fadd _ _ _ _ Ha Hc Hw) as Hwf. rewrite Hwf. cbn [andb].
    split; [|split; reflexivity].
    apply pointwise_intro.
    + apply (fib_ok_of_wf sh (af_elems acc) (af_shape c) (af_elems c)); [assumption|assumption|apply fadd_sorted; assumption|].
      intros x Hx. apply fadd_In in Hx. destruct Hx as [Hx|Hx]; apply coordsP_nonempty_incl in Hx; auto.
    + intros x _. unfold stored_nz. rewrite orb_true_iff, !memb_In. apply fadd_In.
    + intros x _. cbn [step_val]. apply fadd_getz; assumption.
  - (* acc * c *)
    pose proof (wf_fib_fmul _ _ _ _ Ha Hc) as Hwf. rewrite Hwf. cbn [andb].
    split; [|split; reflexivity].
    apply pointwise_intro.
    + apply (fib_ok_of_wf sh (af_elems acc) (af_shape c) (af_elems c)); [assumption|assumption|apply fmul_sorted; assumption|].
      intros x Hx. apply fmul_In in Hx; [|assumption|assumption]. destruct Hx as [Hx _].
      apply coordsP_nonempty_incl in Hx. auto.
    + intros x _. unfold stored_nz. rewrite andb_true_iff, !memb_In. apply fmul_In; assumption.
    + intros x _. cbn [step_val]. apply fmul_getz; assumption.
  - (* acc + k *)
    pose proof (wf_fib_fadd_scalar _ _ k Ha) as Hwf. rewrite Hwf. cbn [andb].
    split; [|split; reflexivity].
    apply pointwise_intro.
    + apply (fib_ok_of_wf sh (af_elems acc) None []); [assumption|exact Hnil| |].
      * unfold sortedP. rewrite fadd_scalar_coords. apply zrange_sorted.
      * intros x Hx. rewrite fadd_scalar_coords in Hx. apply zrange_In in Hx. auto.
    + intros x _. rewrite fadd_scalar_coords, zrange_In. unfold in_shape.
      rewrite andb_true_iff, Z.leb_le, Z.ltb_lt. tauto.
    + intros x _. cbn [step_val]. unfold in_shape. apply fadd_scalar_getz.
  - (* acc * k *)
    pose proof (wf_fib_fmul_scalar _ _ k Ha) as Hwf. rewrite Hwf. cbn [andb].
    split; [|split; reflexivity].
    apply pointwise_intro.
    + apply (fib_ok_of_wf sh (af_elems acc) None []); [assumption|exact Hnil| |].
      * unfold sortedP. rewrite fmul_scalar_coords. apply sortedP_nonempty. exact Hsa.
      * intros x Hx. rewrite fmul_scalar_coords in Hx. apply coordsP_nonempty_incl in Hx. auto.
    + intros x _. unfold stored_nz. rewrite memb_In, fmul_scalar_coords. tauto.
    + intros x _. cbn [step_val]. apply fmul_scalar_getz. exact Hsa.
  - (* acc += c *)
    pose proof (wf_fib_fiadd _ _ _ _ Ha Hc Hw) as Hwf. rewrite Hwf. cbn [andb].
    split; [|split; reflexivity].
    apply andb_true_iff. split.
    + apply (fib_ok_of_wf sh (af_elems acc) (af_shape c) (af_elems c)); [assumption|assumption|apply fiadd_sorted; assumption|].
      intros x Hx. apply fiadd_incl in Hx. tauto.
    + apply forallb_range_intro. intros x. apply Z.eqb_eq. cbn [step_val]. apply fiadd_getz; assumption.
  - (* acc *= c *)
    pose proof (wf_fib_fimul _ _ (af_elems c) Ha) as Hwf. rewrite Hwf. cbn [andb].
    split; [|split; reflexivity].
    apply andb_true_iff. split.
    + apply (fib_ok_of_wf sh (af_elems acc) (af_shape c) (af_elems c)); [assumption|assumption| |].
      * unfold sortedP. rewrite fimul_coords. exact Hsa.
      * intros x Hx. rewrite fimul_coords in Hx. auto.
    + apply forallb_range_intro. intros x. apply Z.eqb_eq. cbn [step_val]. apply fimul_getz.
  - (* acc += k *)
    pose proof (wf_fib_fiadd_scalar _ _ k Ha) as Hwf. rewrite Hwf. cbn [andb].
    split; [|split; reflexivity].
    destruct (fiadd_scalar_spec sh (af_elems acc) k 0 Hsa) as (H1 & _ & H3).
    apply andb_true_iff. split.
    + apply (fib_ok_of_wf sh (af_elems acc) None []); [assumption|exact Hnil|exact H1|].
      intros x Hx. destruct (H3 x Hx); auto.
    + apply forallb_range_intro. intros x. apply Z.eqb_eq. cbn [step_val].
      destruct (fiadd_scalar_spec sh (af_elems acc) k x Hsa) as (_ & H2 & _). rewrite H2.
      unfold in_shape. destruct ((0 <=? x) && (x <? eff_shape sh (af_elems acc))) eqn:E; [lia|].
      apply (outside_shape_zero sh); [exact Ha|exact E].
  - (* acc *= k *)
    pose proof (wf_fib_fimul_scalar _ _ k Ha) as Hwf. rewrite Hwf. cbn [andb].
    split; [|split; reflexivity].
    apply andb_true_iff. split.
    + apply (fib_ok_of_wf sh (af_elems acc) None []); [assumption|exact Hnil| |].
      * unfold sortedP. rewrite fimul_scalar_coords. exact Hsa.
      * intros x Hx. rewrite fimul_scalar_coords in Hx. auto.
    + apply forallb_range_intro. intros x. apply Z.eqb_eq. cbn [step_val].
      rewrite fimul_scalar_getz. apply Z.mul_comm.
Qed.

Lemma steps_ok_model sh ops : forall steps acc same a0cur,
  wf_fib sh (af_elems acc) = true -> af_shape acc = sh -> wf_fib sh a0cur = true ->
  forallb (step_wf sh) steps = true ->
  steps_ok sh ops same a0cur (af_elems acc) steps (chain_obs ops same a0cur acc steps)
  = Some (af_elems (chain acc steps), chain_a0 same a0cur acc steps)
  /\ wf_fib sh (af_elems (chain acc steps)) = true /\ af_shape (chain acc steps) = sh
  /\ wf_fib sh (chain_a0 same a0cur acc steps) = true.
Proof.
  induction steps as [|st steps IH]; intros acc same a0cur Ha Hsh Ha0 Hw.
  - cbn. auto.
  - cbn [forallb] in Hw. apply andb_true_iff in Hw. destruct Hw as [Hst Hw].
    destruct (step_ok_model sh acc st Ha Hsh Hst) as (Hok & Hwf' & Hsh').
    cbn [chain_obs steps_ok chain_a0]. rewrite unV_V_fib, Hok, !V_eqb_refl. cbn [andb].
    unfold chain. cbn [fold_left]. apply IH; [exact Hwf'|exact Hsh'| |exact Hw].
    destruct (same && is_inplace st); assumption.
Qed.

Lemma re_operand_wf sh : forall steps c,
  forallb (step_wf sh) steps = true -> re_operand steps = Some c -> step_wf sh (SAddF c) = true.
Proof.
  unfold re_operand. induction steps as [|st steps IH]; intros c Hw E; [discriminate|].
  cbn [forallb] in Hw. apply andb_true_iff in Hw. destruct Hw as [Hst Hw].
  cbn [step_operands flat_map] in E. fold (step_operands steps) in E.
  destruct st as [c'|c'|k|k|c'|c'|k|k]; cbn [step_operand app] in E;
    try (apply IH; assumption); inversion E; subst; exact Hst.
Qed.

Lemma chain_model_spec a0 steps mul withfiber b s :
  wf_afib a0 = true -> wf_afib b = true -> forallb (step_wf (af_shape a0)) steps = true ->
  chain_spec a0 steps mul withfiber b s (c11_model (CFibC a0 steps mul withfiber b s)) = true.
Proof.
  intros Ha Hb Hw. cbn [c11_model]. unfold chain_spec.
  destruct (steps_ok_model (af_shape a0) (V_operands steps) steps a0 true (af_elems a0) Ha eq_refl Ha Hw)
    as (H1 & H2 & H3 & H4).
  rewrite H1, H3. rewrite (fib_model_spec mul withfiber (af_shape a0) _ (af_shape b) (af_elems b) s H2 Hb).
  cbn [andb]. destruct (re_operand steps) as [c|] eqn:E; cbn [Vo]; [|reflexivity].
  rewrite unV_V_fib.
  pose proof (re_operand_wf (af_shape a0) steps c Hw E) as Hc.
  destruct (step_ok_model (af_shape a0)
              (Build_afib (af_shape a0) None (chain_a0 true (af_elems a0) a0 steps)) (SAddF c)
              H4 eq_refl Hc) as (Hok & _ & _).
  exact Hok.
Qed.

Lemma c11_model_holds c : holds c11_checker c (model c11_checker c) = true.
Proof.
  cbn [holds model c11_checker]. unfold c11_holds.
  destruct (c11_wf c) eqn:Hwf; [|reflexivity].
  destruct c as [i o kl kr x y|mul withfiber sa a sb b s|pre mul withfiber a b s|a0 steps mul withfiber b s].
  - cbn [c11_model]. cbn [c11_wf] in Hwf.
    apply andb_true_iff in Hwf. destruct Hwf as [Hwf _].
    apply andb_true_iff in Hwf. destruct Hwf as [Hwf _].
    apply andb_true_iff in Hwf. destruct Hwf as [Hsc _].
    rewrite (ops_correct pyval bop_py bop_py_swap i o kl kr x y Hsc). apply V_eqb_refl.
  - cbn [c11_wf] in Hwf. apply andb_true_iff in Hwf. destruct Hwf as [Hwa Hwb].
    cbn [c11_model]. apply fib_model_spec; assumption.
  - cbn [c11_wf] in Hwf. apply andb_true_iff in Hwf. destruct Hwf as [Hwf Hp].
    apply andb_true_iff in Hwf. destruct Hwf as [Hwa Hwb].
    apply hist_model_spec; [exact Hwa|exact Hwb|].
    destruct pre as [[m c]|]; [|exact I]. apply andb_true_iff in Hp. exact Hp.
  - cbn [c11_wf] in Hwf. apply andb_true_iff in Hwf. destruct Hwf as [Hwf Hst].
    apply andb_true_iff in Hwf. destruct Hwf as [Hwa Hwb].
    apply chain_model_spec; assumption.
Qed.

(* the oracle is not vacuous: well-formed cases exist in every class *)
Lemma c11_wf_examples :
  c11_wf (COp true OLshift KE KS (PyInt 4) (PyInt 6)) = true
  /\ c11_wf (COp false OTrueDiv KS KE (PyInt 2) (PyFlt 1 2)) = true
  /\ c11_wf (CFib true true (Some 6) [(0, 1); (2, 2); (5, 3)] None [(2, 10); (3, 20)] 0) = true
  /\ c11_wf (CFib false false None [(0, 1); (1, 0); (4, 3)] None [] 2) = true.
Proof. vm_compute. repeat split. Qed.

(* ---------------------------------------------------------------- statements used by Properties/C11.v *)
Lemma payload_ops_correct : forall (T : Type) (bop : pyop -> T -> T -> T),
  cmp_swap_law bop ->
  forall i o kl kr (x y : T), scope i o kl kr = true -> has_elem kl kr = false ->
    run_op T bop payload_table coordpayload_table i o kl kr x y = spec_op T bop i o kl kr x y.
Proof. intros T bop H i o kl kr x y Hs _. apply ops_correct; assumption. Qed.

Lemma element_ops_correct : forall (T : Type) (bop : pyop -> T -> T -> T),
  cmp_swap_law bop ->
  forall i o kl kr (x y : T), scope i o kl kr = true -> has_elem kl kr = true ->
    run_op T bop payload_table coordpayload_table i o kl kr x y = spec_op T bop i o kl kr x y.
Proof. intros T bop H i o kl kr x y Hs _. apply ops_correct; assumption. Qed.

Lemma fiber_add_correct : forall a b, sortedP a -> sortedP b ->
  sortedP (fadd a b)
  /\ (forall c, In c (coordsP (fadd a b)) <-> In c (coordsP (nonempty a)) \/ In c (coordsP (nonempty b)))
  /\ (forall c, getz c (fadd a b) = getz c a + getz c b).
Proof.
  intros a b Ha Hb. split; [apply fadd_sorted; assumption|]. split.
  - intros c. apply fadd_In.
  - intros c. apply fadd_getz; assumption.
Qed.

Lemma fiber_mul_correct : forall a b, sortedP a -> sortedP b ->
  sortedP (fmul a b)
  /\ (forall c, In c (coordsP (fmul a b)) <-> In c (coordsP (nonempty a)) /\ In c (coordsP (nonempty b)))
  /\ (forall c, getz c (fmul a b) = getz c a * getz c b).
Proof.
  intros a b Ha Hb. split; [apply fmul_sorted; assumption|]. split.
  - intros c. apply fmul_In; assumption.
  - intros c. apply fmul_getz; assumption.
Qed.

Lemma fiber_add_scalar_correct : forall sa a s,
  coordsP (fadd_scalar sa a s) = zrange (eff_shape sa a)
  /\ (forall c, getz c (fadd_scalar sa a s)
                = if (0 <=? c) && (c <? eff_shape sa a) then s + getz c a else 0).
Proof. intros. split; [apply fadd_scalar_coords|intros c; apply fadd_scalar_getz]. Qed.

Lemma fiber_mul_scalar_correct : forall a s, sortedP a ->
  coordsP (fmul_scalar a s) = coordsP (nonempty a)
  /\ (forall c, getz c (fmul_scalar a s) = s * getz c a).
Proof. intros a s Ha. split; [apply fmul_scalar_coords|intros c; apply fmul_scalar_getz; exact Ha]. Qed.

Lemma inplace_agree : forall sa a b s, wf_fib sa a = true -> sortedP b ->
  (sortedP (fiadd a b) /\ forall c, getz c (fiadd a b) = getz c (fadd a b))
  /\ (sortedP (fimul a b) /\ forall c, getz c (fimul a b) = getz c (fmul a b))
  /\ (sortedP (fiadd_scalar sa a s) /\ forall c, getz c (fiadd_scalar sa a s) = getz c (fadd_scalar sa a s))
  /\ (sortedP (fimul_scalar a s) /\ forall c, getz c (fimul_scalar a s) = getz c (fmul_scalar a s)).
Proof.
  intros sa a b s Hw Hb. destruct (wf_fib_inv _ _ Hw) as (Ha & Hba & _).
  split; [|split; [|split]].
  - split; [apply fiadd_sorted; assumption|].
    intros c. rewrite fiadd_getz, fadd_getz by assumption. reflexivity.
  - split; [unfold sortedP; rewrite fimul_coords; exact Ha|].
    intros c. rewrite fimul_getz, fmul_getz by assumption. reflexivity.
  - destruct (fiadd_scalar_spec sa a s 0 Ha) as (H1 & _ & _). split; [exact H1|].
    intros c. destruct (fiadd_scalar_spec sa a s c Ha) as (_ & H2 & _).
    rewrite H2, fadd_scalar_getz.
    destruct ((0 <=? c) && (c <? eff_shape sa a)) eqn:E; [lia|].
    apply getz_notin. intros Hin. specialize (Hba c Hin).
    apply andb_false_iff in E. destruct E as [E|E]; [apply Z.leb_gt in E|apply Z.ltb_ge in E]; lia.
  - split; [unfold sortedP; rewrite fimul_scalar_coords; exact Ha|].
    intros c. rewrite fimul_scalar_getz, fmul_scalar_getz by assumption. apply Z.mul_comm.
Qed.

(* ---------------------------------------------------------------- round 2 statements *)
Lemma fiber_history : forall (m : bool) (a c : afib) (s : Z),
  wf_afib a = true -> wf_afib c = true -> within (af_shape a) (af_elems c) = true ->
  let a1 := hist_step (Some (m, c)) a in
  wf_afib a1 = true
  /\ af_shape a1 = af_shape a
  /\ (forall x, getz x (af_elems a1)
                = if m then getz x (af_elems a) * getz x (af_elems c)
                  else getz x (af_elems a) + getz x (af_elems c))
  /\ coordsP (af_elems (st_add_scalar a1 s)) = zrange (eff_shape (af_shape a) (af_elems a1))
  /\ (forall x, getz x (af_elems (st_add_scalar a1 s))
                = if (0 <=? x) && (x <? eff_shape (af_shape a) (af_elems a1))
                  then s + getz x (af_elems a1) else 0)
  /\ (forall x, getz x (af_elems (st_iadd_scalar a1 s)) = getz x (af_elems (st_add_scalar a1 s)))
  /\ (forall x, getz x (af_elems (st_imul_scalar a1 s)) = getz x (af_elems (st_mul_scalar a1 s))).
Proof.
  intros m a c s Ha Hc Hw a1.
  destruct (hist_step_wf (Some (m, c)) a Ha (conj Hc Hw)) as [Hwf1 Hsh]. fold a1 in Hwf1, Hsh.
  assert (Hwf1' : wf_afib a1 = true) by (unfold wf_afib; rewrite Hsh; exact Hwf1).
  destruct (wf_fib_parts _ _ Ha) as (Hsa & _ & _). destruct (wf_fib_parts _ _ Hc) as (Hsc & _ & _).
  split; [exact Hwf1'|]. split; [exact Hsh|]. split.
  - intros x. subst a1. destruct m; cbn [hist_step st_imul_fiber st_iadd_fiber af_elems].
    + apply fimul_getz.
    + apply fiadd_getz; assumption.
  - unfold st_add_scalar, st_iadd_scalar, st_imul_scalar, st_mul_scalar. cbn [af_elems]. rewrite Hsh.
    split; [apply fadd_scalar_coords|]. split; [intros x; apply fadd_scalar_getz|].
    destruct (inplace_agree (af_shape a) (af_elems a1) [] s Hwf1 (SSorted_nil _)) as (_ & _ & H3 & H4).
    split; [apply H3|apply H4].
Qed.

Lemma active_range_not_read : forall sh act act' es (b : afib) (s : Z),
  let a := Build_afib sh act es in
  let a' := Build_afib sh act' es in
  af_elems (st_add_scalar a s) = af_elems (st_add_scalar a' s)
  /\ af_elems (st_mul_scalar a s) = af_elems (st_mul_scalar a' s)
  /\ af_elems (st_iadd_scalar a s) = af_elems (st_iadd_scalar a' s)
  /\ af_elems (st_imul_scalar a s) = af_elems (st_imul_scalar a' s)
  /\ af_elems (st_add_fiber a b) = af_elems (st_add_fiber a' b)
  /\ af_elems (st_mul_fiber a b) = af_elems (st_mul_fiber a' b)
  /\ af_elems (st_iadd_fiber a b) = af_elems (st_iadd_fiber a' b)
  /\ af_elems (st_imul_fiber a b) = af_elems (st_imul_fiber a' b)
  /\ af_elems (st_add_fiber b a) = af_elems (st_add_fiber b a')
  /\ af_elems (st_iadd_fiber b a) = af_elems (st_iadd_fiber b a').
Proof. intros. repeat split. Qed.

Lemma c11_hist_examples :
  let a := Build_afib (Some 6) None [(0, 1); (1, 2); (5, 3)] in
  let c := Build_afib (Some 2) None [(0, 2); (1, 10)] in
  c11_wf (CFibH (Some (false, c)) false false a (Build_afib None (Some (1, 3)) []) 2) = true
  /\ get_active (hist_step (Some (false, c)) a) = (0, 2)
  /\ af_elems (st_add_scalar (hist_step (Some (false, c)) a) 2)
     = [(0, 5); (1, 14); (2, 2); (3, 2); (4, 2); (5, 5)].
Proof. vm_compute. repeat split. Qed.

(* ---------------------------------------------------------------- round 3 statements *)
Lemma chain_step_val sh acc st :
  wf_fib sh (af_elems acc) = true -> af_shape acc = sh -> step_wf sh st = true ->
  wf_fib sh (af_elems (chain_step acc st)) = true
  /\ af_shape (chain_step acc st) = sh
  /\ forall x, getz x (af_elems (chain_step acc st)) = step_val sh (af_elems acc) st x.
Proof.
  intros Ha Hsh Hst. destruct (step_ok_model sh acc st Ha Hsh Hst) as (_ & Hwf & Hs).
  split; [exact Hwf|]. split; [exact Hs|]. intros x.
  destruct (wf_fib_parts _ _ Ha) as (Hsa & _ & _).
  destruct st as [c|c|k|k|c|c|k|k]; cbn [step_wf] in Hst;
    cbn [chain_step st_add_fiber st_mul_fiber st_add_scalar st_mul_scalar st_iadd_fiber st_imul_fiber
         st_iadd_scalar st_imul_scalar af_elems af_shape step_val];
    try (apply andb_true_iff in Hst; destruct Hst as [Hc Hw]; unfold wf_afib in Hc;
         destruct (wf_fib_parts _ _ Hc) as (Hsc & _ & _)); rewrite ?Hsh.
  - apply fadd_getz; assumption.
  - apply fmul_getz; assumption.
  - unfold in_shape. apply fadd_scalar_getz.
  - apply fmul_scalar_getz; assumption.
  - apply fiadd_getz; assumption.
  - apply fimul_getz.
  - destruct (fiadd_scalar_spec sh (af_elems acc) k x Hsa) as (_ & H2 & _). rewrite H2.
    unfold in_shape. destruct ((0 <=? x) && (x <? eff_shape sh (af_elems acc))) eqn:E; [lia|].
    apply (outside_shape_zero sh); [exact Ha|exact E].
  - rewrite fimul_scalar_getz. apply Z.mul_comm.
Qed.

Lemma fiber_chain : forall sh steps acc k,
  wf_fib sh (af_elems acc) = true -> af_shape acc = sh -> forallb (step_wf sh) steps = true ->
  let r := chain acc steps in
  wf_fib sh (af_elems r) = true /\ af_shape r = sh
  /\ coordsP (af_elems (st_add_scalar r k)) = zrange (eff_shape sh (af_elems r))
  /\ (forall x, getz x (af_elems (st_add_scalar r k))
                = if (0 <=? x) && (x <? eff_shape sh (af_elems r)) then k + getz x (af_elems r) else 0)
  /\ (forall x, getz x (af_elems (st_iadd_scalar r k)) = getz x (af_elems (st_add_scalar r k)))
  /\ (forall x, getz x (af_elems (st_imul_scalar r k)) = getz x (af_elems (st_mul_scalar r k))).
Proof.
  intros sh steps acc k Ha Hsh Hw r.
  destruct (steps_ok_model sh (VL []) steps acc true (af_elems acc) Ha Hsh Ha Hw) as (_ & Hwf & Hs & _).
  fold r in Hwf, Hs.
  split; [exact Hwf|]. split; [exact Hs|].
  unfold st_add_scalar, st_iadd_scalar, st_imul_scalar, st_mul_scalar. cbn [af_elems]. rewrite Hs.
  split; [apply fadd_scalar_coords|]. split; [intros x; apply fadd_scalar_getz|].
  destruct (inplace_agree sh (af_elems r) [] k Hwf (SSorted_nil _)) as (_ & _ & H3 & H4).
  split; [apply H3|apply H4].
Qed.

Lemma c11_chain_examples :
  let f := Build_afib None None [(0, 1); (1, 2)] in
  let g := Build_afib None None [(1, 10); (3, 20); (4, 30)] in
  c11_wf (CFibC f [SAddF g] false false (Build_afib None None []) 2) = true
  /\ af_shape (chain f [SAddF g]) = None
  /\ af_elems (st_add_scalar (chain f [SAddF g]) 2) = [(0, 3); (1, 14); (2, 2); (3, 22); (4, 32)]
  /\ af_elems (st_iadd_scalar (chain (Build_afib None None []) [SMulS 2; SIAddF g]) 2)
     = [(0, 2); (1, 12); (2, 2); (3, 22); (4, 32)].
Proof. vm_compute. repeat split. Qed.

(* ---------------------------------------------------------------- round 4 statements *)
Lemma chain_a0_false : forall steps a0cur acc, chain_a0 false a0cur acc steps = a0cur.
Proof. induction steps as [|st steps IH]; intros; [reflexivity|]. cbn [chain_a0 andb]. apply IH. Qed.

Lemma chain_a0_split : forall pre acc a0cur st rest,
  forallb is_inplace pre = true -> is_inplace st = false ->
  chain_a0 true a0cur acc (pre ++ st :: rest)
  = match pre with [] => a0cur | _ => af_elems (chain acc pre) end.
Proof.
  induction pre as [|p pre IH]; intros acc a0cur st rest Hp Hst.
  - cbn [app chain_a0]. rewrite Hst. cbn [andb]. apply chain_a0_false.
  - cbn [forallb] in Hp. apply andb_true_iff in Hp. destruct Hp as [Hp1 Hp].
    cbn [app chain_a0]. rewrite Hp1. cbn [andb].
    rewrite (IH (chain_step acc p) (af_elems (chain_step acc p)) st rest Hp Hst).
    unfold chain. cbn [fold_left]. destruct pre; reflexivity.
Qed.

Lemma chain_a0_all_inplace : forall steps acc a0cur,
  forallb is_inplace steps = true ->
  chain_a0 true a0cur acc steps = match steps with [] => a0cur | _ => af_elems (chain acc steps) end.
Proof.
  induction steps as [|p steps IH]; intros acc a0cur Hp; [reflexivity|].
  cbn [forallb] in Hp. apply andb_true_iff in Hp. destruct Hp as [Hp1 Hp].
  cbn [chain_a0]. rewrite Hp1. cbn [andb]. rewrite (IH _ _ Hp).
  unfold chain. cbn [fold_left]. destruct steps; reflexivity.
Qed.
