(* StoreMirror.v — C02: the rank lists of Model/Store.v always mirror the tree.

   Everything is counted: [cnt x P t] is the number of fibers of the tree [t] that carry the
   identity [x] and sit at a depth satisfying [P] (depth 0 = the root of [t]).  With
   P = (k =?) this is the multiplicity of x in [ids k t]; with P = everything it is the
   multiplicity in [all_ids t].  Every operation is characterised by how it changes these
   counts and the per-rank counts, so that all bookkeeping arguments are linear arithmetic. *)
From Coq Require Import ZArith List Bool Lia PeanoNat Permutation.
From FT Require Import Model.Base Model.Obs Model.Store Model.StoreCheck
                       Proofs.StoreWF Proofs.StoreCheckP.
Import ListNotations.
Open Scope nat_scope.

(* ---------- counting ---------- *)
Definition cntl (x : nat) (l : list nat) : nat := count_occ Nat.eq_dec l x.

Definition lsum {A} (f : A -> nat) : list A -> nat :=
  fix go (l : list A) : nat := match l with [] => 0 | a :: l' => f a + go l' end.

Fixpoint cnt (x : nat) (P : nat -> bool) (t : itree) : nat :=
  match t with
  | ILeaf _ => 0
  | INode id _ es =>
    (if P 0 && Nat.eqb id x then 1 else 0)
    + lsum (fun ct => cnt x (fun k => P (S k)) (snd ct)) es
  end.

(* the same over the payloads of an element list (depth 0 = the payloads themselves) *)
Definition cntf (x : nat) (P : nat -> bool) (es : ifib) : nat :=
  lsum (fun ct => cnt x P (snd ct)) es.

Definition tt_ : nat -> bool := fun _ => true.

Definition own_f (k : nat) (es : ifib) : bool := forallb (fun ct => owners_ok k (snd ct)) es.

Lemma cntl_nil x : cntl x [] = 0.
Proof. reflexivity. Qed.

Lemma cntl_cons x y l : cntl x (y :: l) = (if Nat.eqb y x then 1 else 0) + cntl x l.
Proof.
  unfold cntl. cbn [count_occ]. destruct (Nat.eq_dec y x) as [E|E].
  - subst. rewrite Nat.eqb_refl. reflexivity.
  - apply Nat.eqb_neq in E. rewrite E. reflexivity.
Qed.

Lemma cntl_app x l1 l2 : cntl x (l1 ++ l2) = cntl x l1 + cntl x l2.
Proof. unfold cntl. apply count_occ_app. Qed.

Lemma lsum_app {A} (f : A -> nat) l1 l2 : lsum f (l1 ++ l2) = lsum f l1 + lsum f l2.
Proof. induction l1 as [|a l1 IH]; cbn [app lsum]; [reflexivity|]. rewrite IH. lia. Qed.

Lemma lsum_map {A B} (f : B -> nat) (h : A -> B) l : lsum f (map h l) = lsum (fun a => f (h a)) l.
Proof. induction l as [|a l IH]; cbn [map lsum]; [reflexivity|]. rewrite IH. reflexivity. Qed.

Lemma lsum_ext_in {A} (f g : A -> nat) l :
  (forall a, In a l -> f a = g a) -> lsum f l = lsum g l.
Proof.
  induction l as [|a l IH]; intros H; cbn [lsum]; [reflexivity|].
  rewrite (H a (or_introl eq_refl)), IH; [reflexivity|]. intros b Hb. apply H. right. exact Hb.
Qed.

Lemma lsum_le_in {A} (f g : A -> nat) l :
  (forall a, In a l -> f a <= g a) -> lsum f l <= lsum g l.
Proof.
  induction l as [|a l IH]; intros H; cbn [lsum]; [lia|].
  pose proof (H a (or_introl eq_refl)). assert (lsum f l <= lsum g l); [|lia].
  apply IH. intros b Hb. apply H. right. exact Hb.
Qed.

Lemma cntl_flat_map {A} x (f : A -> list nat) l :
  cntl x (flat_map f l) = lsum (fun a => cntl x (f a)) l.
Proof.
  induction l as [|a l IH]; cbn [flat_map lsum]; [reflexivity|]. rewrite cntl_app, IH. reflexivity.
Qed.

Lemma cnt_node x P id ow es :
  cnt x P (INode id ow es)
  = (if P 0 && Nat.eqb id x then 1 else 0) + cntf x (fun k => P (S k)) es.
Proof. reflexivity. Qed.

Lemma cntf_nil x P : cntf x P [] = 0.
Proof. reflexivity. Qed.

Lemma cntf_cons x P ct es : cntf x P (ct :: es) = cnt x P (snd ct) + cntf x P es.
Proof. reflexivity. Qed.

Lemma cntf_app x P e1 e2 : cntf x P (e1 ++ e2) = cntf x P e1 + cntf x P e2.
Proof. unfold cntf. apply lsum_app. Qed.

Lemma cntf_insert_at x P i c t es :
  cntf x P (insert_at i (c, t) es) = cntf x P es + cnt x P t.
Proof.
  unfold insert_at. rewrite cntf_app, cntf_cons. cbn [snd].
  rewrite <- (firstn_skipn i es) at 3. rewrite cntf_app. lia.
Qed.

Lemma cntf_set_nth x P : forall es i c t c0 t0,
  nth_error es i = Some (c0, t0) ->
  cntf x P (set_nth i (c, t) es) + cnt x P t0 = cntf x P es + cnt x P t.
Proof.
  induction es as [|a es IH]; intros [|i] c t c0 t0 Hn; cbn [nth_error] in Hn; try discriminate.
  - inversion Hn; subst a. cbn [set_nth]. rewrite !cntf_cons. cbn [snd]. lia.
  - cbn [set_nth]. rewrite !cntf_cons. specialize (IH i c t c0 t0 Hn). lia.
Qed.

Lemma cnt_ext x : forall t P Q, (forall k, P k = Q k) -> cnt x P t = cnt x Q t.
Proof.
  induction t as [v|id ow es IH] using itree_ind'; intros P Q H; [reflexivity|].
  cbn [cnt]. rewrite (H 0). f_equal.
  apply lsum_ext_in. intros ct Hin. rewrite Forall_forall in IH.
  apply (IH ct Hin). intros k. apply H.
Qed.

Lemma cntf_ext x P Q es : (forall k, P k = Q k) -> cntf x P es = cntf x Q es.
Proof. intros H. unfold cntf. apply lsum_ext_in. intros ct _. apply cnt_ext. exact H. Qed.

Lemma cnt_mono x : forall t P Q, (forall k, P k = true -> Q k = true) -> cnt x P t <= cnt x Q t.
Proof.
  induction t as [v|id ow es IH] using itree_ind'; intros P Q H; [reflexivity|].
  cbn [cnt].
  assert (H1 : lsum (fun ct => cnt x (fun k => P (S k)) (snd ct)) es
               <= lsum (fun ct => cnt x (fun k => Q (S k)) (snd ct)) es).
  { apply lsum_le_in. intros ct Hin. rewrite Forall_forall in IH.
    apply (IH ct Hin). intros k. apply H. }
  specialize (H 0). destruct (P 0); [rewrite H by reflexivity; lia|].
  cbn [andb]. lia.
Qed.

Lemma cntf_mono x P Q es : (forall k, P k = true -> Q k = true) -> cntf x P es <= cntf x Q es.
Proof. intros H. unfold cntf. apply lsum_le_in. intros ct _. apply cnt_mono. exact H. Qed.

Lemma cnt_le_all x P t : cnt x P t <= cnt x tt_ t.
Proof. apply cnt_mono. reflexivity. Qed.

Lemma cntf_le_all x P es : cntf x P es <= cntf x tt_ es.
Proof. apply cntf_mono. reflexivity. Qed.

Lemma cnt_false x : forall t P, (forall k, P k = false) -> cnt x P t = 0.
Proof.
  induction t as [v|id ow es IH] using itree_ind'; intros P H; [reflexivity|].
  cbn [cnt]. rewrite (H 0). cbn [andb].
  assert (H1 : lsum (fun ct => cnt x (fun k => P (S k)) (snd ct)) es = lsum (fun _ => 0) es).
  { apply lsum_ext_in. intros ct Hin. rewrite Forall_forall in IH. apply (IH ct Hin).
    intros k. apply H. }
  rewrite H1. clear. induction es as [|a es IH]; [reflexivity|exact IH].
Qed.

(* two disjoint depth sets never count the same fiber twice *)
Lemma cnt_disj x : forall t P Q, (forall k, P k = true -> Q k = true -> False) ->
  cnt x P t + cnt x Q t <= cnt x tt_ t.
Proof.
  induction t as [v|id ow es IH] using itree_ind'; intros P Q H; [reflexivity|].
  cbn [cnt].
  assert (H1 : lsum (fun ct => cnt x (fun k => P (S k)) (snd ct)) es
               + lsum (fun ct => cnt x (fun k => Q (S k)) (snd ct)) es
               <= lsum (fun ct => cnt x (fun k => tt_ (S k)) (snd ct)) es).
  { revert IH. induction es as [|a es IHes]; intros IH; cbn [lsum]; [lia|].
    inversion IH as [|? ? Ha Hes]; subst.
    specialize (IHes Hes).
    pose proof (Ha (fun k => P (S k)) (fun k => Q (S k)) (fun k => H (S k))) as Ha'.
    change (fun k => tt_ (S k)) with tt_ in *. lia. }
  specialize (H 0). unfold tt_ at 1. cbn [andb].
  destruct (P 0), (Q 0); cbn [andb]; try (exfalso; apply H; reflexivity);
    destruct (Nat.eqb id x); lia.
Qed.

(* ---------- the counts are the multiplicities in ids / all_ids ---------- *)
Lemma cnt_ids x : forall t k Q, (forall j, Q j = Nat.eqb k j) -> cntl x (ids k t) = cnt x Q t.
Proof.
  induction t as [v|id ow es IH] using itree_ind'; intros k Q HQ; [destruct k; reflexivity|].
  cbn [cnt]. rewrite HQ. destruct k as [|k]; cbn [ids].
  - cbn [Nat.eqb andb]. rewrite cntl_cons, cntl_nil.
    assert (H0 : lsum (fun ct => cnt x (fun k => Q (S k)) (snd ct)) es = 0).
    { change (cntf x (fun k => Q (S k)) es = 0).
      assert (H1 : cntf x (fun k => Q (S k)) es = lsum (fun _ => 0) es).
      { apply lsum_ext_in. intros ct _. apply cnt_false. intros j. rewrite HQ. reflexivity. }
      rewrite H1. clear. induction es as [|a es IH]; [reflexivity|exact IH]. }
    rewrite H0. reflexivity.
  - cbn [Nat.eqb andb]. rewrite cntl_flat_map. cbn [plus].
    apply lsum_ext_in. intros ct Hin. rewrite Forall_forall in IH.
    apply (IH ct Hin). intros j. rewrite HQ. reflexivity.
Qed.

Lemma cnt_all_ids x : forall t, cntl x (all_ids t) = cnt x tt_ t.
Proof.
  induction t as [v|id ow es IH] using itree_ind'; [reflexivity|].
  cbn [all_ids cnt]. rewrite cntl_cons, cntl_flat_map. unfold tt_ at 1. cbn [andb]. f_equal.
  apply lsum_ext_in. intros ct Hin. rewrite Forall_forall in IH. apply (IH ct Hin).
Qed.

Lemma cntf_all_ids x es : cntl x (all_ids_fib es) = cntf x tt_ es.
Proof.
  unfold all_ids_fib, cntf. rewrite cntl_flat_map. apply lsum_ext_in. intros ct _.
  apply cnt_all_ids.
Qed.

(* ---------- fresh identities ---------- *)
Definition bump (nx nx' x : nat) : nat := if Nat.leb nx x && Nat.ltb x nx' then 1 else 0.

Lemma bump_refl nx x : bump nx nx x = 0.
Proof.
  unfold bump. destruct (Nat.leb_spec nx x), (Nat.ltb_spec x nx); cbn [andb]; try reflexivity; lia.
Qed.

Lemma bump_trans a b c x : a <= b -> b <= c -> bump a b x + bump b c x = bump a c x.
Proof.
  intros H1 H2. unfold bump.
  destruct (Nat.leb_spec a x), (Nat.ltb_spec x b), (Nat.leb_spec b x), (Nat.ltb_spec x c);
    cbn [andb]; lia.
Qed.

Lemma bump_S nx x : bump nx (S nx) x = if Nat.eqb nx x then 1 else 0.
Proof.
  unfold bump. destruct (Nat.leb_spec nx x), (Nat.ltb_spec x (S nx)), (Nat.eqb_spec nx x);
    cbn [andb]; lia.
Qed.

Lemma bump_le1 a b x : bump a b x <= 1.
Proof. unfold bump. destruct (Nat.leb a x && Nat.ltb x b); lia. Qed.

Lemma bump_lt a b x : x < a -> bump a b x = 0.
Proof. intros H. unfold bump. destruct (Nat.leb_spec a x); [lia|reflexivity]. Qed.

Lemma bump_ge a b x : b <= x -> bump a b x = 0.
Proof.
  intros H. unfold bump. destruct (Nat.ltb_spec x b); [lia|]. rewrite andb_false_r. reflexivity.
Qed.

(* ---------- rank lists ---------- *)
Lemma app_rank_nth x : forall rs k id j,
  cntl x (nth j (app_rank k id rs) [])
  = cntl x (nth j rs []) + (if Nat.eqb j k && Nat.ltb k (length rs) && Nat.eqb id x then 1 else 0).
Proof.
  induction rs as [|r rs IH]; intros k id j.
  - destruct k; cbn [app_rank]; destruct j; cbn [nth length];
      rewrite ?andb_false_r; cbn [andb]; rewrite cntl_nil; reflexivity.
  - destruct k as [|k]; cbn [app_rank].
    + destruct j as [|j]; cbn [nth Nat.eqb andb length].
      * rewrite cntl_app, cntl_cons, cntl_nil. cbn [Nat.ltb Nat.leb andb]. lia.
      * lia.
    + destruct j as [|j]; cbn [nth Nat.eqb andb length]; [lia|].
      rewrite IH. reflexivity.
Qed.

(* ---------- owners ---------- *)
Lemma owners_node k id ow es :
  owners_ok k (INode id ow es)
  = (match ow with Some k' => Nat.eqb k k' | None => false end) && own_f (S k) es.
Proof. reflexivity. Qed.

Lemma own_f_set_nth k es i c t c0 t0 :
  own_f k es = true -> nth_error es i = Some (c0, t0) -> owners_ok k t = true ->
  own_f k (set_nth i (c, t) es) = true.
Proof. intros H _ Ht. unfold own_f. apply forallb_set_nth; [exact H|exact Ht]. Qed.

Lemma own_f_nth k es i c0 t0 :
  own_f k es = true -> nth_error es i = Some (c0, t0) -> owners_ok k t0 = true.
Proof. intros H Hn. exact (forallb_nth_error _ _ _ _ H Hn). Qed.

(* ---------- a fiber-local update seen from an enclosing fiber ---------- *)
Lemma at_path_cnt f : forall path lvl L es es',
  L = lvl + length path ->
  at_path path f lvl es = Some es' ->
  exists e e', fiber_at path es = Some e /\ f L e = Some e'
    /\ (forall x P Q, (forall k, Q k = P (k + length path)) ->
          cntf x P es' + cntf x Q e = cntf x P es + cntf x Q e')
    /\ ((own_f (S L) e = true -> own_f (S L) e' = true) ->
        own_f (S lvl) es = true -> own_f (S lvl) es' = true).
Proof.
  induction path as [|c path IH]; intros lvl L es es' HL Hat.
  - cbn [at_path] in Hat. cbn [length] in HL. rewrite Nat.add_0_r in HL. subst L.
    exists es, es'. split; [reflexivity|]. split; [exact Hat|]. split.
    + intros x P Q HQ. rewrite (cntf_ext x Q P es), (cntf_ext x Q P es'); [lia| |];
        intros k; rewrite HQ; cbn [length]; rewrite Nat.add_0_r; reflexivity.
    + intros H. exact H.
  - cbn [at_path] in Hat. cbn [fiber_at].
    destruct (nth_error es (bisect c (map fst es))) as [[c' [v|id ow e1]]|] eqn:Hn; try discriminate.
    destruct (Z.eqb c' c) eqn:Hc; [|discriminate].
    destruct (at_path path f (S lvl) e1) as [e2|] eqn:Hrec; [|discriminate].
    inversion Hat; subst es'. clear Hat.
    destruct (IH (S lvl) L e1 e2) as (e & e' & Hfa & Hf & Hcnt & Hown);
      [cbn [length] in HL; lia|exact Hrec|].
    exists e, e'. split; [exact Hfa|]. split; [exact Hf|]. split.
    + intros x P Q HQ.
      pose proof (cntf_set_nth x P es _ c (INode id ow e2) c' (INode id ow e1) Hn) as H1.
      rewrite !cnt_node in H1.
      assert (H2 : forall k, Q k = (fun j => P (S j)) (k + length path)).
      { intros k. rewrite HQ. cbn [length]. f_equal. lia. }
      pose proof (Hcnt x (fun j => P (S j)) Q H2) as H3. lia.
    + intros He Hes.
      pose proof (own_f_nth _ _ _ _ _ Hes Hn) as Ho. rewrite owners_node in Ho.
      apply andb_true_iff in Ho. destruct Ho as [Ho1 Ho2].
      eapply own_f_set_nth; [exact Hes|exact Hn|]. rewrite owners_node, Ho1. cbn [andb].
      apply Hown; assumption.
Qed.

Lemma at_path_st_cnt f : forall path lvl L es nx rk es' nx' rk',
  L = lvl + length path ->
  at_path_st path f lvl es nx rk = Some (es', nx', rk') ->
  exists e e', fiber_at path es = Some e /\ f L e nx rk = (e', nx', rk')
    /\ (forall x P Q, (forall k, Q k = P (k + length path)) ->
          cntf x P es' + cntf x Q e = cntf x P es + cntf x Q e')
    /\ ((own_f (S L) e = true -> own_f (S L) e' = true) ->
        own_f (S lvl) es = true -> own_f (S lvl) es' = true).
Proof.
  induction path as [|c path IH]; intros lvl L es nx rk es' nx' rk' HL Hat.
  - cbn [at_path_st] in Hat. cbn [length] in HL. rewrite Nat.add_0_r in HL. subst L.
    exists es, es'. split; [reflexivity|]. split; [inversion Hat; reflexivity|]. split.
    + intros x P Q HQ. rewrite (cntf_ext x Q P es), (cntf_ext x Q P es'); [lia| |];
        intros k; rewrite HQ; cbn [length]; rewrite Nat.add_0_r; reflexivity.
    + intros H. exact H.
  - cbn [at_path_st] in Hat. cbn [fiber_at].
    destruct (nth_error es (bisect c (map fst es))) as [[c' [v|id ow e1]]|] eqn:Hn; try discriminate.
    destruct (Z.eqb c' c) eqn:Hc; [|discriminate].
    destruct (at_path_st path f (S lvl) e1 nx rk) as [[[e2 nx2] rk2]|] eqn:Hrec; [|discriminate].
    inversion Hat; subst es' nx2 rk2. clear Hat.
    destruct (IH (S lvl) L e1 nx rk e2 nx' rk') as (e & e' & Hfa & Hf & Hcnt & Hown);
      [cbn [length] in HL; lia|exact Hrec|].
    exists e, e'. split; [exact Hfa|]. split; [exact Hf|]. split.
    + intros x P Q HQ.
      pose proof (cntf_set_nth x P es _ c (INode id ow e2) c' (INode id ow e1) Hn) as H1.
      rewrite !cnt_node in H1.
      assert (H2 : forall k, Q k = (fun j => P (S j)) (k + length path)).
      { intros k. rewrite HQ. cbn [length]. f_equal. lia. }
      pose proof (Hcnt x (fun j => P (S j)) Q H2) as H3. lia.
    + intros He Hes.
      pose proof (own_f_nth _ _ _ _ _ Hes Hn) as Ho. rewrite owners_node in Ho.
      apply andb_true_iff in Ho. destruct Ho as [Ho1 Ho2].
      eapply own_f_set_nth; [exact Hes|exact Hn|]. rewrite owners_node, Ho1. cbn [andb].
      apply Hown; assumption.
Qed.

(* ---------- how an update that may create fibers changes (elements, counter, rank lists) ---------- *)
Definition delta (lvl : nat) (es : ifib) (nx : nat) (rk : list (list nat))
                 (es' : ifib) (nx' : nat) (rk' : list (list nat)) : Prop :=
  nx <= nx' /\ length rk' = length rk
  /\ (forall x j Q, j < length rk -> (forall k, Q k = Nat.eqb j (k + S lvl)) ->
        cntl x (nth j rk' []) + cntf x Q es = cntl x (nth j rk []) + cntf x Q es')
  /\ (forall x, cntf x tt_ es' = cntf x tt_ es + bump nx nx' x)
  /\ (own_f (S lvl) es = true -> own_f (S lvl) es' = true).

Lemma delta_refl lvl es nx rk : delta lvl es nx rk es nx rk.
Proof.
  split; [lia|]. split; [reflexivity|]. split; [intros; lia|]. split; [|intros H; exact H].
  intros x. rewrite bump_refl. lia.
Qed.

Lemma delta_trans lvl es nx rk es1 nx1 rk1 es2 nx2 rk2 :
  delta lvl es nx rk es1 nx1 rk1 -> delta lvl es1 nx1 rk1 es2 nx2 rk2 ->
  delta lvl es nx rk es2 nx2 rk2.
Proof.
  intros (Ha1 & Ha2 & Ha3 & Ha4 & Ha5) (Hb1 & Hb2 & Hb3 & Hb4 & Hb5).
  split; [lia|]. split; [congruence|]. split; [|split].
  - intros x j Q Hj HQ. pose proof (Ha3 x j Q Hj HQ). rewrite <- Ha2 in Hj.
    pose proof (Hb3 x j Q Hj HQ). lia.
  - intros x. rewrite Hb4, Ha4, <- (bump_trans nx nx1 nx2 x Ha1 Hb1). lia.
  - intros H. apply Hb5, Ha5, H.
Qed.

(* the update happened inside the sub-fiber stored at position i *)
Lemma delta_child lvl es i c c0 id ow e nx rk e' nx' rk' :
  nth_error es i = Some (c0, INode id ow e) ->
  delta (S lvl) e nx rk e' nx' rk' ->
  delta lvl es nx rk (set_nth i (c, INode id ow e') es) nx' rk'.
Proof.
  intros Hn (H1 & H2 & H3 & H4 & H5).
  split; [exact H1|]. split; [exact H2|]. split; [|split].
  - intros x j Q Hj HQ.
    pose proof (cntf_set_nth x Q es i c (INode id ow e') c0 (INode id ow e) Hn) as Hs.
    rewrite !cnt_node in Hs.
    assert (HQ' : forall k, (fun j0 => Q (S j0)) k = Nat.eqb j (k + S (S lvl))).
    { intros k. cbn beta. rewrite HQ. f_equal. lia. }
    pose proof (H3 x j _ Hj HQ'). lia.
  - intros x.
    pose proof (cntf_set_nth x tt_ es i c (INode id ow e') c0 (INode id ow e) Hn) as Hs.
    rewrite !cnt_node in Hs. change (fun k => tt_ (S k)) with tt_ in Hs.
    pose proof (H4 x). lia.
  - intros Hes.
    pose proof (own_f_nth _ _ _ _ _ Hes Hn) as Ho. rewrite owners_node in Ho.
    apply andb_true_iff in Ho. destruct Ho as [Ho1 Ho2].
    eapply own_f_set_nth; [exact Hes|exact Hn|]. rewrite owners_node, Ho1. cbn [andb].
    apply H5. exact Ho2.
Qed.

(* replacing an element by one with the same fibers below (a leaf by a leaf) *)
Lemma delta_set_leaf lvl es i c c0 v v' nx rk :
  nth_error es i = Some (c0, ILeaf v) ->
  delta lvl es nx rk (set_nth i (c, ILeaf v') es) nx rk.
Proof.
  intros Hn. split; [lia|]. split; [reflexivity|]. split; [|split].
  - intros x j Q Hj HQ.
    pose proof (cntf_set_nth x Q es i c (ILeaf v') c0 (ILeaf v) Hn) as Hs. cbn [cnt] in Hs. lia.
  - intros x. rewrite bump_refl.
    pose proof (cntf_set_nth x tt_ es i c (ILeaf v') c0 (ILeaf v) Hn) as Hs. cbn [cnt] in Hs. lia.
  - intros Hes. eapply own_f_set_nth; [exact Hes|exact Hn|reflexivity].
Qed.

Lemma delta_insert_leaf lvl es i c v nx rk :
  delta lvl es nx rk (insert_at i (c, ILeaf v) es) nx rk.
Proof.
  split; [lia|]. split; [reflexivity|]. split; [|split].
  - intros x j Q Hj HQ. rewrite cntf_insert_at. cbn [cnt]. lia.
  - intros x. rewrite bump_refl, cntf_insert_at. cbn [cnt]. lia.
  - intros Hes. unfold own_f. apply forallb_insert_at; [exact Hes|reflexivity].
Qed.

(* _createDefault at an interior rank: a fresh empty fiber, registered with the next rank *)
Lemma delta_insert_node lvl es i c nx rk :
  delta lvl es nx rk (insert_at i (c, INode nx (Some (S lvl)) []) es) (S nx)
        (app_rank (S lvl) nx rk).
Proof.
  split; [lia|]. split; [apply app_rank_length|]. split; [|split].
  - intros x j Q Hj HQ. rewrite cntf_insert_at, cnt_node, cntf_nil, app_rank_nth.
    rewrite (HQ 0). cbn [plus].
    destruct (Nat.eqb_spec j (S lvl)) as [E|E]; cbn [andb]; [|lia].
    subst j. apply Nat.ltb_lt in Hj. rewrite Hj. cbn [andb]. lia.
  - intros x. rewrite cntf_insert_at, cnt_node, cntf_nil, bump_S. unfold tt_ at 2. cbn [andb]. lia.
  - intros Hes. unfold own_f. apply forallb_insert_at; [exact Hes|].
    cbn [snd owners_ok forallb]. rewrite Nat.eqb_refl. reflexivity.
Qed.

(* ---------- getPayloadRef ---------- *)
Definition gr_post (n : nat) (d : Z) (w : wr) (lvl : nat) (c : Z) (pt' : list Z) (i : nat)
           (es1 : ifib) (nx1 : nat) (rk1 : list (list nat))
  : ifib * nat * list (list nat) * option itree :=
  match nth_error es1 i with
  | None => (es1, nx1, rk1, None)
  | Some (_, p) =>
    match pt', p with
    | [], ILeaf v =>
      let p' := ILeaf (apply_wr w v) in
      (set_nth i (c, p') es1, nx1, rk1, Some p')
    | [], INode _ _ _ => (es1, nx1, rk1, Some p)
    | _ :: _, INode id ow es' =>
      let '(es'', nx2, rk2, r) := get_ref n d w (S lvl) pt' es' nx1 rk1 in
      (set_nth i (c, INode id ow es'') es1, nx2, rk2, r)
    | _ :: _, ILeaf _ => (es1, nx1, rk1, None)
    end
  end.

Lemma get_ref_cons n d w lvl c pt' es nx rk :
  get_ref n d w lvl (c :: pt') es nx rk =
  let i := bisect c (map fst es) in
  let '(es1, nx1, rk1) :=
    if coord_exists c (map fst es) i then (es, nx, rk)
    else if Nat.eqb (S lvl) n then (insert_at i (c, ILeaf d) es, nx, rk)
         else (insert_at i (c, INode nx (Some (S lvl)) []) es, S nx, app_rank (S lvl) nx rk) in
  gr_post n d w lvl c pt' i es1 nx1 rk1.
Proof. reflexivity. Qed.

Lemma get_ref_delta n d w : forall pt lvl es nx rk es' nx' rk' r,
  get_ref n d w lvl pt es nx rk = (es', nx', rk', r) -> delta lvl es nx rk es' nx' rk'.
Proof.
  induction pt as [|c pt IH]; intros lvl es nx rk es' nx' rk' r Hg.
  - cbn [get_ref] in Hg. inversion Hg; subst. apply delta_refl.
  - rewrite get_ref_cons in Hg. cbv zeta in Hg.
    set (i := bisect c (map fst es)) in *.
    assert (Hpost : forall es1 nx1 rk1,
               gr_post n d w lvl c pt i es1 nx1 rk1 = (es', nx', rk', r) ->
               delta lvl es1 nx1 rk1 es' nx' rk').
    { intros es1 nx1 rk1 Hp. unfold gr_post in Hp.
      destruct (nth_error es1 i) as [[c0 p]|] eqn:Hn.
      - destruct pt as [|c2 pt']; destruct p as [v|id ow e1].
        + inversion Hp; subst. eapply delta_set_leaf. exact Hn.
        + inversion Hp; subst. apply delta_refl.
        + inversion Hp; subst. apply delta_refl.
        + destruct (get_ref n d w (S lvl) (c2 :: pt') e1 nx1 rk1) as [[[e2 nx2] rk2] r2] eqn:Hrec.
          inversion Hp; subst. eapply delta_child; [exact Hn|].
          eapply IH. exact Hrec.
      - inversion Hp; subst. apply delta_refl. }
    destruct (coord_exists c (map fst es) i).
    + apply Hpost. exact Hg.
    + destruct (Nat.eqb (S lvl) n).
      * eapply delta_trans; [apply delta_insert_leaf|]. apply Hpost. exact Hg.
      * eapply delta_trans; [apply delta_insert_node|]. apply Hpost. exact Hg.
Qed.

Lemma shape_ref_delta n d : forall cs lvl es nx rk es' nx' rk',
  shape_ref n d lvl cs es nx rk = (es', nx', rk') -> delta lvl es nx rk es' nx' rk'.
Proof.
  induction cs as [|c cs IH]; intros lvl es nx rk es' nx' rk' Hs.
  - cbn [shape_ref] in Hs. inversion Hs; subst. apply delta_refl.
  - cbn [shape_ref] in Hs.
    destruct (get_ref n d WNone lvl [c] es nx rk) as [[[es1 nx1] rk1] r1] eqn:Hg.
    eapply delta_trans; [eapply get_ref_delta; exact Hg|]. apply IH. exact Hs.
Qed.

Lemma get_ref_single_delta n d w c lvl es nx rk es' nx' rk' :
  (let '(es1, nx1, rk1, _) := get_ref n d w lvl [c] es nx rk in (es1, nx1, rk1)) = (es', nx', rk') ->
  delta lvl es nx rk es' nx' rk'.
Proof.
  destruct (get_ref n d w lvl [c] es nx rk) as [[[es1 nx1] rk1] r1] eqn:Hg.
  intros H. inversion H; subst. eapply get_ref_delta. exact Hg.
Qed.

(* ---------- the same through a path ---------- *)
Lemma at_path_st_delta f :
  (forall L e nx rk e' nx' rk', f L e nx rk = (e', nx', rk') -> delta L e nx rk e' nx' rk') ->
  forall path lvl es nx rk es' nx' rk',
    at_path_st path f lvl es nx rk = Some (es', nx', rk') -> delta lvl es nx rk es' nx' rk'.
Proof.
  intros Hf. induction path as [|c path IH]; intros lvl es nx rk es' nx' rk' Hat.
  - cbn [at_path_st] in Hat. inversion Hat as [Hat']. apply Hf. exact Hat'.
  - cbn [at_path_st] in Hat.
    destruct (nth_error es (bisect c (map fst es))) as [[c' [v|id ow e1]]|] eqn:Hn; try discriminate.
    destruct (Z.eqb c' c); [|discriminate].
    destruct (at_path_st path f (S lvl) e1 nx rk) as [[[e2 nx2] rk2]|] eqn:Hrec; [|discriminate].
    inversion Hat; subst. eapply delta_child; [exact Hn|]. eapply IH. exact Hrec.
Qed.

(* ---------- the invariant ---------- *)
Definition Mirror (s : st) : Prop :=
  (forall k id, k < nranks s -> cntl id (nth k (s_ranks s) []) = cntl id (ids k (s_root s)))
  /\ (forall id, cntl id (all_ids (s_root s)) <= 1)
  /\ (forall id, s_next s <= id -> cntl id (all_ids (s_root s)) = 0)
  /\ owners_ok 0 (s_root s) = true.

Definition MirrorC (t : itree) (rk : list (list nat)) (nx : nat) : Prop :=
  (forall k x, k < length rk -> cntl x (nth k rk []) = cnt x (Nat.eqb k) t)
  /\ (forall x, cnt x tt_ t <= 1)
  /\ (forall x, nx <= x -> cnt x tt_ t = 0)
  /\ owners_ok 0 t = true.

Lemma Mirror_C s : Mirror s <-> MirrorC (s_root s) (s_ranks s) (s_next s).
Proof.
  unfold Mirror, MirrorC, nranks.
  split; intros (HA & HB & HC & HD); (split; [|split; [|split]]); try exact HD.
  - intros k x Hk. rewrite (HA k x Hk). apply cnt_ids. reflexivity.
  - intros x. rewrite <- cnt_all_ids. apply HB.
  - intros x Hx. rewrite <- cnt_all_ids. apply HC; exact Hx.
  - intros k x Hk. rewrite (HA k x Hk). symmetry. apply cnt_ids. reflexivity.
  - intros x. rewrite cnt_all_ids. apply HB.
  - intros x Hx. rewrite cnt_all_ids. apply HC; exact Hx.
Qed.

Lemma delta_mirror rid ow es nx rk es' nx' rk' :
  MirrorC (INode rid ow es) rk nx -> delta 0 es nx rk es' nx' rk' ->
  MirrorC (INode rid ow es') rk' nx'.
Proof.
  intros (HA & HB & HC & HD) (H1 & H2 & H3 & H4 & H5).
  split; [|split; [|split]].
  - intros k x Hk. rewrite H2 in Hk. specialize (HA k x Hk). rewrite cnt_node in *.
    assert (HQ : forall j, (fun j0 => Nat.eqb k (S j0)) j = Nat.eqb k (j + 1)).
    { intros j. cbn beta. f_equal. lia. }
    pose proof (H3 x k _ Hk HQ). lia.
  - intros x. specialize (HB x). specialize (HC x). specialize (H4 x). rewrite cnt_node in *.
    change (fun k => tt_ (S k)) with tt_ in *.
    pose proof (bump_le1 nx nx' x). destruct (Nat.le_gt_cases nx x) as [Hle|Hgt].
    + specialize (HC Hle). lia.
    + rewrite (bump_lt nx nx' x Hgt) in H4. lia.
  - intros x Hx. assert (Hx' : nx <= x) by lia. specialize (HC x Hx'). specialize (H4 x).
    rewrite cnt_node in *. change (fun k => tt_ (S k)) with tt_ in *.
    rewrite (bump_ge nx nx' x Hx) in H4. lia.
  - rewrite owners_node in *. apply andb_true_iff in HD. destruct HD as [Ho1 Ho2].
    rewrite Ho1. cbn [andb]. apply H5. exact Ho2.
Qed.

Lemma mirror_with_root s rid ow es es' nx' rk' :
  s_root s = INode rid ow es -> Mirror s ->
  delta 0 es (s_next s) (s_ranks s) es' nx' rk' -> Mirror (with_root s es' nx' rk').
Proof.
  intros Hr HM Hd. apply Mirror_C. apply Mirror_C in HM. unfold with_root. rewrite Hr in *.
  cbn [s_root s_ranks s_next]. eapply delta_mirror; eassumption.
Qed.

(* ---------- updates that create and remove nothing ---------- *)
Definition same_cnt (k : nat) (e e' : ifib) : Prop :=
  (forall x P, cntf x P e' = cntf x P e) /\ (own_f k e = true -> own_f k e' = true).

Lemma at_path_same f :
  (forall L e e', f L e = Some e' -> same_cnt (S L) e e') ->
  forall path lvl es es', at_path path f lvl es = Some es' -> same_cnt (S lvl) es es'.
Proof.
  intros Hf path lvl es es' Hat.
  destruct (at_path_cnt f path lvl (lvl + length path) es es' eq_refl Hat)
    as (e & e' & Hfa & Hfe & Hcnt & Hown).
  destruct (Hf _ _ _ Hfe) as [Hc Ho]. split.
  - intros x P.
    pose proof (Hcnt x P (fun k => P (k + length path)) (fun k => eq_refl)) as H1.
    rewrite Hc in H1. lia.
  - apply Hown. exact Ho.
Qed.

Lemma same_delta lvl es es' nx rk : same_cnt (S lvl) es es' -> delta lvl es nx rk es' nx rk.
Proof.
  intros [Hc Ho]. split; [lia|]. split; [reflexivity|]. split; [|split; [|exact Ho]].
  - intros x j Q _ _. rewrite Hc. lia.
  - intros x. rewrite Hc, bump_refl. lia.
Qed.

Lemma local_mirror s path f :
  wf_st s -> Mirror s ->
  (forall L e e', f L e = Some e' -> same_cnt (S L) e e') ->
  Mirror (fst (local s path f)).
Proof.
  intros (rid & ow & es & Hr & Hn & Hw) HM Hf. unfold local.
  destruct (path_ok path (root_es s)); [|exact HM].
  destruct (at_path path f 0 (root_es s)) as [es'|] eqn:Hat; [|exact HM].
  cbn [fst]. rewrite (root_es_of s rid ow es Hr) in Hat.
  eapply mirror_with_root; [exact Hr|exact HM|]. apply same_delta.
  eapply at_path_same; eassumption.
Qed.

Lemma same_cnt_refl k e : same_cnt k e e.
Proof. split; [reflexivity|intros H; exact H]. Qed.

Lemma do_append_same c v k e e' : do_append c v e = Some e' -> same_cnt k e e'.
Proof.
  unfold do_append. intros H.
  assert (He : e' = e ++ [(c, ILeaf v)]).
  { destruct (last_coord e) as [m|]; [destruct (Z.ltb m c); [|discriminate]|]; inversion H; reflexivity. }
  subst e'. split.
  - intros x P. rewrite cntf_app, cntf_cons, cntf_nil. cbn [snd cnt]. lia.
  - intros Ho. unfold own_f in *. rewrite forallb_app, Ho. reflexivity.
Qed.

Lemma do_setitem_same pos oc ov k e e' : do_setitem pos oc ov e = Some e' -> same_cnt k e e'.
Proof.
  unfold do_setitem. intros Hd.
  set (len := Z.of_nat (length e)) in *.
  set (p := if Z.ltb pos 0 then (pos + len)%Z else pos) in *.
  destruct (Z.ltb p 0); [discriminate|].
  destruct (match oc, ov with None, None => true | _, _ => false end).
  { inversion Hd; subst. apply same_cnt_refl. }
  destruct (Z.leb len p); [discriminate|].
  set (i := Z.to_nat p) in *.
  destruct (_ && _); [|discriminate].
  destruct (nth_error e i) as [[c0 p0]|] eqn:Hn; [|discriminate].
  inversion Hd; subst e'. clear Hd.
  set (c1 := match oc with Some c => c | None => c0 end).
  set (p1 := match ov, p0 with Some v, ILeaf _ => ILeaf v | _, _ => p0 end).
  assert (Hp : (forall x P, cnt x P p1 = cnt x P p0) /\ (forall j, owners_ok j p1 = owners_ok j p0)).
  { unfold p1. destruct ov as [v|]; destruct p0 as [v0|id ow e0]; split; reflexivity. }
  destruct Hp as [Hp1 Hp2]. split.
  - intros x P. pose proof (cntf_set_nth x P e i c1 p1 c0 p0 Hn) as H. rewrite Hp1 in H. lia.
  - intros Ho. eapply own_f_set_nth; [exact Ho|exact Hn|]. rewrite Hp2.
    eapply own_f_nth; eassumption.
Qed.

Lemma below_same (g : ifib -> ifib) :
  (forall k e, same_cnt k e (g e)) -> forall depth k es, same_cnt k es (below depth g es).
Proof.
  intros Hg. induction depth as [|dep IH]; intros k es; cbn [below]; [apply Hg|]. split.
  - intros x P. unfold cntf. rewrite lsum_map. apply lsum_ext_in. intros [c t] _. cbn [snd fst].
    destruct t as [v|id ow e0]; cbn [snd]; [reflexivity|].
    rewrite !cnt_node. f_equal. apply (IH (S k) e0).
  - unfold own_f. rewrite !forallb_forall. intros Ho y Hin. apply in_map_iff in Hin.
    destruct Hin as [[c t] [<- Hin]]. specialize (Ho _ Hin). cbn [snd fst] in *.
    destruct t as [v|id ow e0]; cbn [snd]; [exact Ho|].
    rewrite owners_node in *. apply andb_true_iff in Ho. destruct Ho as [Ho1 Ho2].
    rewrite Ho1. cbn [andb]. apply (IH (S k) e0). exact Ho2.
Qed.

Lemma cntf_ins_sorted x P a l : cntf x P (ins_sorted a l) = cnt x P (snd a) + cntf x P l.
Proof.
  induction l as [|y l IH]; cbn [ins_sorted]; [reflexivity|].
  destruct (Z.ltb (fst a) (fst y)); [reflexivity|]. rewrite !cntf_cons, IH. lia.
Qed.

Lemma cntf_sort_fib x P l : cntf x P (sort_fib l) = cntf x P l.
Proof.
  induction l as [|a l IH]; [reflexivity|]. cbn [sort_fib fold_right]. fold (sort_fib l).
  rewrite cntf_ins_sorted, IH. reflexivity.
Qed.

Lemma upd_coords_same sg c k e : same_cnt k e (upd_coords_fiber sg c e).
Proof.
  unfold upd_coords_fiber.
  set (e1 := map (fun ct : Z * itree => ((sg * fst ct + c)%Z, snd ct)) e).
  assert (H1 : same_cnt k e e1).
  { split.
    - intros x P. unfold e1, cntf. rewrite lsum_map. reflexivity.
    - unfold e1, own_f. rewrite !forallb_forall. intros Ho y Hin. apply in_map_iff in Hin.
      destruct Hin as [z [<- Hin]]. cbn [snd]. apply Ho. exact Hin. }
  destruct (nondecreasing (map fst e1)); [exact H1|].
  destruct H1 as [Hc Ho]. split.
  - intros x P. rewrite cntf_sort_fib. apply Hc.
  - intros H. unfold own_f. rewrite sort_fib_forallb. apply Ho. exact H.
Qed.

Lemma upd_coords_g_same (f : Z -> Z) k e : same_cnt k e (upd_coords_fiber_g f e).
Proof.
  unfold upd_coords_fiber_g.
  set (e1 := map (fun ct : Z * itree => (f (fst ct), snd ct)) e).
  assert (H1 : same_cnt k e e1).
  { split.
    - intros x P. unfold e1, cntf. rewrite lsum_map. reflexivity.
    - unfold e1, own_f. rewrite !forallb_forall. intros Ho y Hin. apply in_map_iff in Hin.
      destruct Hin as [z [<- Hin]]. cbn [snd]. apply Ho. exact Hin. }
  destruct (nodupb (map fst e1)); [|apply same_cnt_refl].
  destruct (nondecreasing (map fst e1)); [exact H1|].
  destruct H1 as [Hc Ho]. split.
  - intros x P. rewrite cntf_sort_fib. apply Hc.
  - intros H. unfold own_f. rewrite sort_fib_forallb. apply Ho. exact H.
Qed.

Lemma upd_payloads_same d c k e : same_cnt k e (upd_payloads_fiber d c e).
Proof.
  unfold upd_payloads_fiber. split.
  - intros x P. unfold cntf. rewrite lsum_map. apply lsum_ext_in. intros [c0 t] _. cbn [snd fst].
    destruct t as [v|id ow e0]; [|reflexivity]. destruct (Z.eqb v d); reflexivity.
  - unfold own_f. rewrite !forallb_forall. intros Ho y Hin. apply in_map_iff in Hin.
    destruct Hin as [[c0 t] [<- Hin]]. specialize (Ho _ Hin). cbn [snd fst] in *.
    destruct t as [v|id ow e0]; [|exact Ho]. destruct (Z.eqb v d); reflexivity.
Qed.

(* ---------- clear ---------- *)
Lemma cntl_filter x p l : cntl x (filter p l) = if p x then cntl x l else 0.
Proof.
  induction l as [|a l IH]; cbn [filter]; [destruct (p x); reflexivity|].
  destruct (p a) eqn:Hpa.
  - rewrite !cntl_cons, IH. destruct (Nat.eqb_spec a x) as [E|E].
    + subst. rewrite Hpa. reflexivity.
    + destruct (p x); reflexivity.
  - rewrite cntl_cons, IH. destruct (Nat.eqb_spec a x) as [E|E].
    + subst. rewrite Hpa. reflexivity.
    + destruct (p x); reflexivity.
Qed.

Lemma existsb_eqb_cntl x l : existsb (Nat.eqb x) l = negb (Nat.eqb (cntl x l) 0).
Proof.
  induction l as [|a l IH]; [reflexivity|]. cbn [existsb]. rewrite cntl_cons, IH.
  rewrite (Nat.eqb_sym x a). destruct (Nat.eqb a x); [reflexivity|]. reflexivity.
Qed.

Lemma clear_mirror s path : wf_st s -> Mirror s -> Mirror (fst (Store.step0 s (OClear path))).
Proof.
  intros Hwf HM. cbn [Store.step0].
  destruct (Nat.ltb (length path) (nranks s)); [|exact HM].
  destruct (fiber_at path (root_es s)) as [eF|] eqn:HF; [|exact HM].
  unfold local. destruct (path_ok path (root_es s)); [|exact HM].
  destruct (at_path path (fun _ => do_clear) 0 (root_es s)) as [es'|] eqn:Hat; [|exact HM].
  cbn [fst].
  destruct Hwf as (rid & ow & es & Hr & Hn & Hw). rewrite (root_es_of s rid ow es Hr) in *.
  destruct (at_path_cnt _ path 0 (length path) es es' eq_refl Hat)
    as (e & e' & Hfa & Hf & Hcnt & Hown).
  rewrite HF in Hfa. inversion Hfa; subst e. clear Hfa.
  unfold do_clear in Hf. inversion Hf; subst e'. clear Hf.
  apply Mirror_C. apply Mirror_C in HM. unfold with_root. rewrite Hr in *.
  cbn [s_root s_ranks s_next].
  destruct HM as (HA & HB & HC & HD).
  (* what is left of any count, and what went *)
  assert (Hsplit : forall x P, cnt x P (INode rid ow es') <= cnt x P (INode rid ow es)
                               /\ cnt x P (INode rid ow es) <= cnt x P (INode rid ow es') + cntf x tt_ eF
                               /\ cnt x tt_ (INode rid ow es') + cntf x tt_ eF = cnt x tt_ (INode rid ow es)).
  { intros x P. rewrite !cnt_node.
    pose proof (Hcnt x (fun k => P (S k)) (fun k => P (S (k + length path))) (fun k => eq_refl)) as H1.
    pose proof (Hcnt x (fun k => tt_ (S k)) tt_ (fun k => eq_refl)) as H2.
    rewrite cntf_nil in H1, H2.
    pose proof (cntf_le_all x (fun k => P (S (k + length path))) eF).
    change (fun k => tt_ (S k)) with tt_ in *. lia. }
  split; [|split; [|split]].
  - intros k x Hk. rewrite map_length in Hk.
    set (g := filter (fun id => negb (existsb (Nat.eqb id) (all_ids_fib eF)))).
    assert (Hnth : nth k (map g (s_ranks s)) [] = g (nth k (s_ranks s) []))
      by (apply (map_nth g (s_ranks s) [] k)).
    rewrite Hnth. unfold g. rewrite cntl_filter, existsb_eqb_cntl, cntf_all_ids, negb_involutive.
    specialize (HA k x Hk). specialize (HB x).
    destruct (Hsplit x (Nat.eqb k)) as (S1 & S2 & S3).
    pose proof (cnt_le_all x (Nat.eqb k) (INode rid ow es')) as S4.
    destruct (Nat.eqb_spec (cntf x tt_ eF) 0) as [E|E]; lia.
  - intros x. destruct (Hsplit x tt_) as (S1 & _). specialize (HB x). lia.
  - intros x Hx. destruct (Hsplit x tt_) as (S1 & _). specialize (HC x Hx). lia.
  - rewrite owners_node in *. apply andb_true_iff in HD. destruct HD as [Ho1 Ho2].
    rewrite Ho1. cbn [andb]. apply Hown; [reflexivity|exact Ho2].
Qed.

(* ---------- Tensor.fromFiber: the _addFiber registration ---------- *)
Definition load_spec (lvl : nat) (t' : itree) (nx : nat) (rk : list (list nat))
           (nx' : nat) (rk' : list (list nat)) : Prop :=
  nx <= nx' /\ length rk' = length rk
  /\ (forall x j Q, j < length rk -> (forall k, Q k = Nat.eqb j (k + lvl)) ->
        cntl x (nth j rk' []) = cntl x (nth j rk []) + cnt x Q t')
  /\ (forall x, cnt x tt_ t' = bump nx nx' x)
  /\ owners_ok lvl t' = true.

Lemma load_ok : forall t lvl nx rk t' nx' rk',
  load lvl t nx rk = (t', nx', rk') -> load_spec lvl t' nx rk nx' rk'.
Proof.
  induction t as [v|es IH] using tree_ind'; intros lvl nx rk t' nx' rk' Hl.
  - cbn [load] in Hl. inversion Hl; subst. split; [lia|]. split; [reflexivity|].
    split; [intros; cbn [cnt]; lia|]. split; [intros x; rewrite bump_refl; reflexivity|reflexivity].
  - rewrite load_node in Hl.
    assert (Hlist : forall nx rk es' nx' rk',
               load_list lvl es nx rk = (es', nx', rk') ->
               nx <= nx' /\ length rk' = length rk
               /\ (forall x j Q, j < length rk -> (forall k, Q k = Nat.eqb j (k + S lvl)) ->
                     cntl x (nth j rk' []) = cntl x (nth j rk []) + cntf x Q es')
               /\ (forall x, cntf x tt_ es' = bump nx nx' x)
               /\ own_f (S lvl) es' = true).
    { clear Hl nx rk t' nx' rk'.
      induction es as [|[c t] es IHes]; intros nx rk es' nx' rk' Hl.
      - cbn [load_list] in Hl. inversion Hl; subst. split; [lia|]. split; [reflexivity|].
        split; [intros; rewrite cntf_nil; lia|]. split; [intros x; rewrite bump_refl; reflexivity|reflexivity].
      - inversion IH as [|? ? Ht Hes]; subst. cbn [snd] in Ht. cbn [load_list] in Hl.
        destruct (load (S lvl) t nx rk) as [[t1 nx1] rk1] eqn:Hl1.
        destruct (load_list lvl es nx1 rk1) as [[l2 nx2] rk2] eqn:Hl2.
        inversion Hl; subst es' nx' rk'. clear Hl.
        destruct (Ht _ _ _ _ _ _ Hl1) as (A1 & A2 & A3 & A4 & A5).
        destruct (IHes Hes _ _ _ _ _ Hl2) as (B1 & B2 & B3 & B4 & B5).
        split; [lia|]. split; [congruence|]. split; [|split].
        + intros x j Q Hj HQ. rewrite cntf_cons. cbn [snd].
          rewrite (B3 x j Q); [|rewrite A2; exact Hj|exact HQ].
          rewrite (A3 x j Q Hj HQ). lia.
        + intros x. rewrite cntf_cons. cbn [snd].
          rewrite A4, B4. apply bump_trans; assumption.
        + unfold own_f in *. cbn [forallb snd]. rewrite A5, B5. reflexivity. }
    destruct (load_list lvl es (S nx) (app_rank lvl nx rk)) as [[es' nx1] rk1] eqn:Hll.
    inversion Hl; subst t' nx' rk'. clear Hl.
    destruct (Hlist _ _ _ _ _ Hll) as (B1 & B2 & B3 & B4 & B5).
    rewrite app_rank_length in B2, B3.
    split; [lia|]. split; [exact B2|]. split; [|split].
    + intros x j Q Hj HQ. rewrite cnt_node.
      assert (HQ' : forall k, (fun j0 => Q (S j0)) k = Nat.eqb j (k + S lvl)).
      { intros k. cbn beta. rewrite HQ. f_equal. lia. }
      rewrite (B3 x j _ Hj HQ'), app_rank_nth. rewrite (HQ 0). cbn [plus].
      destruct (Nat.eqb_spec j lvl) as [E|E]; cbn [andb]; [|lia].
      subst j. apply Nat.ltb_lt in Hj. rewrite Hj. cbn [andb]. lia.
    + intros x. rewrite cnt_node. change (fun k => tt_ (S k)) with tt_. rewrite B4.
      unfold tt_ at 1. cbn [andb]. rewrite <- (bump_trans nx (S nx) nx1 x) by lia.
      rewrite bump_S. reflexivity.
    + rewrite owners_node, Nat.eqb_refl, B5. reflexivity.
Qed.

Lemma load_es_ok lvl : forall l nx rk l' nx' rk',
  load_es lvl l nx rk = (l', nx', rk') ->
  nx <= nx' /\ length rk' = length rk
  /\ (forall x j Q, j < length rk -> (forall k, Q k = Nat.eqb j (k + S lvl)) ->
        cntl x (nth j rk' []) = cntl x (nth j rk []) + cntf x Q l')
  /\ (forall x, cntf x tt_ l' = bump nx nx' x)
  /\ own_f (S lvl) l' = true.
Proof.
  induction l as [|[c t] l IH]; intros nx rk l' nx' rk' Hl.
  - cbn [load_es] in Hl. inversion Hl; subst. split; [lia|]. split; [reflexivity|].
    split; [intros; rewrite cntf_nil; lia|]. split; [intros x; rewrite bump_refl; reflexivity|reflexivity].
  - cbn [load_es] in Hl.
    destruct (load (S lvl) t nx rk) as [[t1 nx1] rk1] eqn:Hl1.
    destruct (load_es lvl l nx1 rk1) as [[l2 nx2] rk2] eqn:Hl2.
    inversion Hl; subst l' nx' rk'. clear Hl.
    destruct (load_ok _ _ _ _ _ _ _ Hl1) as (A1 & A2 & A3 & A4 & A5).
    destruct (IH _ _ _ _ _ Hl2) as (B1 & B2 & B3 & B4 & B5).
    split; [lia|]. split; [congruence|]. split; [|split].
    + intros x j Q Hj HQ. rewrite cntf_cons. cbn [snd].
      rewrite (B3 x j Q); [|rewrite A2; exact Hj|exact HQ].
      rewrite (A3 x j Q Hj HQ). lia.
    + intros x. rewrite cntf_cons. cbn [snd]. rewrite A4, B4. apply bump_trans; assumption.
    + unfold own_f in *. cbn [forallb snd]. rewrite A5, B5. reflexivity.
Qed.

(* ---------- replacing part of a fiber: some elements leave (their fibers are disowned), new
   ones arrive (their fibers get fresh identities and are registered) ---------- *)
Definition deadb (rem : ifib) (x : nat) : bool := negb (Nat.eqb (cntf x tt_ rem) 0).

Lemma replace_mirror rid ow es es' rk nx rk' nx' L (rem add : ifib) :
  MirrorC (INode rid ow es) rk nx ->
  (forall x P Q, (forall k, Q k = P (k + L)) ->
     cntf x P es' + cntf x Q rem = cntf x P es + cntf x Q add) ->
  (forall x, cntf x tt_ rem <= cntf x tt_ es) ->
  nx <= nx' -> length rk' = length rk ->
  (forall x j Q, j < length rk -> (forall k, Q k = Nat.eqb j (k + S L)) ->
     cntl x (nth j rk' []) = (if deadb rem x then 0 else cntl x (nth j rk [])) + cntf x Q add) ->
  (forall x, cntf x tt_ add = bump nx nx' x) ->
  (own_f 1 es = true -> own_f 1 es' = true) ->
  MirrorC (INode rid ow es') rk' nx'.
Proof.
  intros (HA & HB & HC & HD) Htree Hold Hnx Hlen Hrank Hadd Hown.
  assert (Htt : forall x, cntf x tt_ es' + cntf x tt_ rem = cntf x tt_ es + bump nx nx' x).
  { intros x. rewrite <- Hadd. apply (Htree x tt_ tt_). reflexivity. }
  split; [|split; [|split]].
  - intros j x Hj. rewrite Hlen in Hj. specialize (HA j x Hj). specialize (HB x).
    specialize (Htt x). specialize (Hold x). rewrite cnt_node in *.
    change (fun k => tt_ (S k)) with tt_ in *.
    set (Pj := fun k => Nat.eqb j (S k)) in *.
    set (Qj := fun k => Nat.eqb j (S (k + L))).
    pose proof (Htree x Pj Qj (fun k => eq_refl)) as Ht.
    assert (HQj : forall k, Qj k = Nat.eqb j (k + S L)).
    { intros k. unfold Qj. f_equal. lia. }
    pose proof (Hrank x j Qj Hj HQj) as Hr.
    pose proof (cntf_le_all x Qj rem). pose proof (cntf_le_all x Qj add).
    pose proof (cntf_le_all x Pj es'). pose proof (cntf_le_all x Pj es).
    specialize (Hadd x). unfold deadb in Hr.
    destruct (Nat.eqb_spec (cntf x tt_ rem) 0) as [E|E]; cbn [negb] in Hr; [lia|].
    (* a removed fiber: it was in the tree once, it is old, nothing of it remains *)
    destruct (Nat.le_gt_cases nx x) as [Hx|Hx].
    + specialize (HC x Hx). rewrite cnt_node in HC. change (fun k => tt_ (S k)) with tt_ in HC. lia.
    + rewrite (bump_lt nx nx' x Hx) in *.
      assert (Hr0 : (if (Nat.eqb j 0) && Nat.eqb rid x then 1 else 0) <= (if tt_ 0 && Nat.eqb rid x then 1 else 0)).
      { unfold tt_. cbn [andb]. destruct (Nat.eqb j 0); cbn [andb]; destruct (Nat.eqb rid x); lia. }
      lia.
  - intros x. specialize (HB x). specialize (HC x). specialize (Htt x). rewrite cnt_node in *.
    change (fun k => tt_ (S k)) with tt_ in *.
    pose proof (bump_le1 nx nx' x). destruct (Nat.le_gt_cases nx x) as [Hx|Hx].
    + specialize (HC Hx). lia.
    + rewrite (bump_lt nx nx' x Hx) in Htt. lia.
  - intros x Hx. assert (Hx' : nx <= x) by lia. specialize (HC x Hx'). specialize (Htt x).
    rewrite cnt_node in *. change (fun k => tt_ (S k)) with tt_ in *.
    rewrite (bump_ge nx nx' x Hx) in Htt. lia.
  - rewrite owners_node in *. apply andb_true_iff in HD. destruct HD as [Ho1 Ho2].
    rewrite Ho1. cbn [andb]. apply Hown. exact Ho2.
Qed.

(* what an update at one fiber must say about itself for [replace_mirror] *)
Definition f_spec (L : nat) (e : ifib) (nx : nat) (rk : list (list nat))
           (e' : ifib) (nx' : nat) (rk' : list (list nat)) : Prop :=
  exists rem add,
    (forall x Q, cntf x Q e' + cntf x Q rem = cntf x Q e + cntf x Q add)
    /\ (forall x, cntf x tt_ rem <= cntf x tt_ e)
    /\ nx <= nx' /\ length rk' = length rk
    /\ (forall x j Q, j < length rk -> (forall k, Q k = Nat.eqb j (k + S L)) ->
          cntl x (nth j rk' []) = (if deadb rem x then 0 else cntl x (nth j rk [])) + cntf x Q add)
    /\ (forall x, cntf x tt_ add = bump nx nx' x)
    /\ (own_f (S L) e = true -> own_f (S L) e' = true).

Lemma cntf_nth_le x P : forall (es : ifib) i c t, nth_error es i = Some (c, t) -> cnt x P t <= cntf x P es.
Proof.
  induction es as [|a es IH]; intros [|i] c t H; cbn [nth_error] in H; try discriminate.
  - inversion H; subst. rewrite cntf_cons. cbn [snd]. lia.
  - rewrite cntf_cons. specialize (IH i c t H). lia.
Qed.

Lemma fiber_at_cnt_le x : forall path es e, fiber_at path es = Some e -> cntf x tt_ e <= cntf x tt_ es.
Proof.
  induction path as [|c path IH]; intros es e H; cbn [fiber_at] in H.
  - inversion H; subst. lia.
  - destruct (nth_error es (bisect c (map fst es))) as [[c' [v|id ow e1]]|] eqn:Hn; try discriminate.
    destruct (Z.eqb c' c); [|discriminate]. specialize (IH e1 e H).
    pose proof (cntf_nth_le x tt_ es _ _ _ Hn) as H1. rewrite cnt_node in H1.
    change (fun k => tt_ (S k)) with tt_ in H1. lia.
Qed.

Lemma spec_mirror s path f es' nx' rk' :
  wf_st s -> Mirror s ->
  (forall e nx rk e1 nx1 rk1, f (length path) e nx rk = (e1, nx1, rk1) ->
                              f_spec (length path) e nx rk e1 nx1 rk1) ->
  at_path_st path f 0 (root_es s) (s_next s) (s_ranks s) = Some (es', nx', rk') ->
  Mirror (with_root s es' nx' rk').
Proof.
  intros (rid & ow & es & Hr & Hn & Hw) HM Hf Hat. rewrite (root_es_of s rid ow es Hr) in Hat.
  destruct (at_path_st_cnt f path 0 (length path) es _ _ es' nx' rk' eq_refl Hat)
    as (e & e' & Hfa & Hfe & Hcnt & Hown).
  destruct (Hf _ _ _ _ _ _ Hfe) as (rem & add & S1 & S2 & S3 & S4 & S5 & S6 & S7).
  apply Mirror_C. apply Mirror_C in HM. unfold with_root. rewrite Hr in *.
  cbn [s_root s_ranks s_next].
  apply (replace_mirror rid ow es es' (s_ranks s) (s_next s) rk' nx' (length path) rem add HM).
  - intros x P Q HQ. pose proof (Hcnt x P Q HQ). pose proof (S1 x Q). lia.
  - intros x. pose proof (S2 x). pose proof (fiber_at_cnt_le x path es e Hfa). lia.
  - exact S3.
  - exact S4.
  - exact S5.
  - exact S6.
  - apply Hown. exact S7.
Qed.

Lemma drop_dead_nth x dead rk j :
  cntl x (nth j (drop_dead dead rk) [])
  = if Nat.eqb (cntl x dead) 0 then cntl x (nth j rk []) else 0.
Proof.
  unfold drop_dead.
  set (g := filter (fun id => negb (existsb (Nat.eqb id) dead))).
  assert (Hnth : nth j (map g rk) [] = g (nth j rk [])) by (apply (map_nth g rk [] j)).
  rewrite Hnth. unfold g. rewrite cntl_filter, existsb_eqb_cntl, negb_involutive. reflexivity.
Qed.

Lemma append_fib_spec c t L e nx rk e' nx' rk' :
  append_fib c t L e nx rk = (e', nx', rk') -> f_spec L e nx rk e' nx' rk'.
Proof.
  unfold append_fib. destruct (load (S L) t nx rk) as [[t1 nx1] rk1] eqn:Hl. intros H.
  inversion H; subst e' nx' rk'. clear H.
  destruct (load_ok _ _ _ _ _ _ _ Hl) as (A1 & A2 & A3 & A4 & A5).
  exists [], [(c, t1)]. split; [|split; [|split; [|split; [|split; [|split]]]]].
  - intros x Q. rewrite cntf_app, cntf_nil. lia.
  - intros x. rewrite cntf_nil. lia.
  - exact A1.
  - exact A2.
  - intros x j Q Hj HQ. cbn [deadb]. unfold deadb. rewrite cntf_nil. cbn [Nat.eqb negb].
    rewrite cntf_cons, cntf_nil. cbn [snd]. rewrite (A3 x j Q Hj HQ). lia.
  - intros x. rewrite cntf_cons, cntf_nil. cbn [snd]. rewrite A4. lia.
  - intros Ho. unfold own_f in *. rewrite forallb_app, Ho. cbn [forallb snd]. rewrite A5. reflexivity.
Qed.

Lemma extend_fib_spec l L e nx rk e' nx' rk' :
  extend_fib l L e nx rk = (e', nx', rk') -> f_spec L e nx rk e' nx' rk'.
Proof.
  unfold extend_fib. destruct (load_es L l nx rk) as [[l1 nx1] rk1] eqn:Hl. intros H.
  inversion H; subst e' nx' rk'. clear H.
  destruct (load_es_ok _ _ _ _ _ _ _ Hl) as (A1 & A2 & A3 & A4 & A5).
  exists [], l1. split; [|split; [|split; [|split; [|split; [|split]]]]].
  - intros x Q. rewrite cntf_app, cntf_nil. lia.
  - intros x. rewrite cntf_nil. lia.
  - exact A1.
  - exact A2.
  - intros x j Q Hj HQ. unfold deadb. rewrite cntf_nil. cbn [Nat.eqb negb]. apply (A3 x j Q Hj HQ).
  - exact A4.
  - intros Ho. unfold own_f in *. rewrite forallb_app, Ho. exact A5.
Qed.

Lemma setitem_fib_spec i t L e nx rk e' nx' rk' :
  setitem_fib i t L e nx rk = (e', nx', rk') -> f_spec L e nx rk e' nx' rk'.
Proof.
  unfold setitem_fib. destruct (nth_error e i) as [[c0 old]|] eqn:Hn.
  - destruct (load (S L) t nx (drop_dead (all_ids old) rk)) as [[t1 nx1] rk1] eqn:Hl. intros H.
    inversion H; subst e' nx' rk'. clear H.
    destruct (load_ok _ _ _ _ _ _ _ Hl) as (A1 & A2 & A3 & A4 & A5).
    unfold drop_dead in A2, A3. rewrite map_length in A2, A3. fold (drop_dead (all_ids old) rk) in A3.
    exists [(c0, old)], [(c0, t1)]. split; [|split; [|split; [|split; [|split; [|split]]]]].
    + intros x Q. rewrite !cntf_cons, !cntf_nil. cbn [snd].
      pose proof (cntf_set_nth x Q e i c0 t1 c0 old Hn). lia.
    + intros x. rewrite cntf_cons, cntf_nil. cbn [snd].
      pose proof (cntf_nth_le x tt_ e i c0 old Hn). lia.
    + exact A1.
    + exact A2.
    + intros x j Q Hj HQ. rewrite (A3 x j Q Hj HQ), drop_dead_nth, cnt_all_ids.
      unfold deadb. rewrite !cntf_cons, !cntf_nil. cbn [snd]. rewrite !Nat.add_0_r.
      destruct (Nat.eqb (cnt x tt_ old) 0); reflexivity.
    + intros x. rewrite cntf_cons, cntf_nil. cbn [snd]. rewrite A4. lia.
    + intros Ho. eapply own_f_set_nth; [exact Ho|exact Hn|exact A5].
  - intros H. inversion H; subst e' nx' rk'. clear H.
    exists [], []. split; [|split; [|split; [|split; [|split; [|split]]]]].
    + intros x Q. lia.
    + intros x. rewrite cntf_nil. lia.
    + lia.
    + reflexivity.
    + intros x j Q Hj HQ. unfold deadb. rewrite !cntf_nil. cbn [Nat.eqb negb]. lia.
    + intros x. rewrite cntf_nil, bump_refl. reflexivity.
    + intros Ho. exact Ho.
Qed.

Lemma assign_fib_spec l L e nx rk e' nx' rk' :
  assign_fib l L e nx rk = (e', nx', rk') -> f_spec L e nx rk e' nx' rk'.
Proof.
  unfold assign_fib. intros Hl.
  destruct (load_es_ok _ _ _ _ _ _ _ Hl) as (A1 & A2 & A3 & A4 & A5).
  unfold drop_dead in A2, A3. rewrite map_length in A2, A3. fold (drop_dead (all_ids_fib e) rk) in A3.
  exists e, e'. split; [|split; [|split; [|split; [|split; [|split]]]]].
  - intros x Q. lia.
  - intros x. lia.
  - exact A1.
  - exact A2.
  - intros x j Q Hj HQ. rewrite (A3 x j Q Hj HQ), drop_dead_nth, cntf_all_ids.
    unfold deadb. destruct (Nat.eqb (cntf x tt_ e) 0); reflexivity.
  - exact A4.
  - intros _. exact A5.
Qed.

(* ---------- every operation keeps the invariant ---------- *)
Lemma at_path_st_mirror s path f es' nx' rk' :
  wf_st s -> Mirror s ->
  (forall L e nx rk e1 nx1 rk1, f L e nx rk = (e1, nx1, rk1) -> delta L e nx rk e1 nx1 rk1) ->
  at_path_st path f 0 (root_es s) (s_next s) (s_ranks s) = Some (es', nx', rk') ->
  Mirror (with_root s es' nx' rk').
Proof.
  intros (rid & ow & es & Hr & Hn & Hw) HM Hf Hat. rewrite (root_es_of s rid ow es Hr) in Hat.
  eapply mirror_with_root; [exact Hr|exact HM|]. eapply at_path_st_delta; eassumption.
Qed.

Lemma step0_mirror s o : wf_st s -> Mirror s -> Mirror (fst (Store.step0 s o)).
Proof.
  intros Hs HM. destruct o; cbn [Store.step0].
  - (* OGetRef *)
    destruct (Nat.leb (length pt) (nranks s) && negb (Nat.eqb (length pt) 0)); [|exact HM].
    destruct (get_ref (nranks s) (s_d s) w 0 pt (root_es s) (s_next s) (s_ranks s))
      as [[[es' nx] rk] r] eqn:Hg. cbn [fst].
    pose proof Hs as (rid & ow & es & Hr & Hn & Hw). rewrite (root_es_of s rid ow es Hr) in Hg.
    eapply mirror_with_root; [exact Hr|exact HM|]. eapply get_ref_delta. exact Hg.
  - (* OGet *)
    destruct (Nat.leb (length pt) (nranks s) && negb (Nat.eqb (length pt) 0)); exact HM.
  - (* OAppend *)
    destruct (Nat.eqb (S (length path)) (nranks s)); [|exact HM].
    apply local_mirror; [exact Hs|exact HM|]. intros L e e' H. eapply do_append_same. exact H.
  - (* OSetItem *)
    destruct (Nat.eqb (S (length path)) (nranks s)
              || Nat.ltb (length path) (nranks s) && match ov with None => true | Some _ => false end);
      [|exact HM].
    apply local_mirror; [exact Hs|exact HM|]. intros L e e' H. eapply do_setitem_same. exact H.
  - (* OClear *)
    apply (clear_mirror s path Hs HM).
  - (* OUpdCoords *)
    destruct (Nat.ltb (length path + depth) (nranks s) && (Z.eqb sg 1 || Z.eqb sg (-1))); [|exact HM].
    apply local_mirror; [exact Hs|exact HM|]. intros L e e' H. inversion H; subst e'.
    apply below_same. intros k0 e0. apply upd_coords_same.
  - (* OUpdCoordsTbl *)
    destruct (Nat.ltb (length path + depth) (nranks s)); [|exact HM].
    destruct (fiber_at path (root_es s)) as [es|]; [|exact HM].
    destruct (distinct_below depth (tbl_fn tbl off) es); [|exact HM].
    apply local_mirror; [exact Hs|exact HM|]. intros L e e' H. inversion H; subst e'.
    apply below_same. intros k0 e0. apply upd_coords_g_same.
  - (* OUpdPayloads *)
    destruct (Nat.eqb (S (length path + depth)) (nranks s)); [|exact HM].
    apply local_mirror; [exact Hs|exact HM|]. intros L e e' H. inversion H; subst e'.
    apply below_same. intros k0 e0. apply upd_payloads_same.
  - (* OShapeRef *)
    destruct (Nat.ltb (length path) (nranks s) && Z.ltb 0 step && Z.leb 0 lo); [|exact HM].
    destruct (at_path_st path _ 0 (root_es s) (s_next s) (s_ranks s)) as [[[es' nx] rk]|] eqn:Hat;
      [|exact HM].
    cbn [fst]. refine (at_path_st_mirror s path _ es' nx rk Hs HM _ Hat).
    intros L e nx0 rk0 e1 nx1 rk1 H. eapply shape_ref_delta. exact H.
  - (* OGetPos *)
    destruct (Nat.ltb (length path) (nranks s)); [|exact HM].
    destruct (fiber_at path (root_es s)) as [es|]; [|exact HM].
    destruct (sp_in_range (norm_sp sp es) es); exact HM.
  - (* OGetPosRef *)
    destruct (Nat.ltb (length path) (nranks s)); [|exact HM].
    destruct (fiber_at path (root_es s)) as [es|]; [|exact HM].
    destruct (sp_in_range (norm_sp sp es) es); [|exact HM].
    destruct (coord_exists c (map fst es) (coord2pos c (map fst es) (norm_sp sp es))
              || negb (coord_exists c (map fst es) (bisect c (map fst es)))); [|exact HM].
    destruct (at_path_st path _ 0 (root_es s) (s_next s) (s_ranks s)) as [[[es' nx] rk]|] eqn:Hat;
      [|exact HM].
    cbn [fst]. refine (at_path_st_mirror s path _ es' nx rk Hs HM _ Hat).
    intros L e nx0 rk0 e1 nx1 rk1 H. eapply get_ref_single_delta. exact H.
  - (* OGetSP *)
    destruct (Nat.ltb (length path) (nranks s)); [|exact HM].
    destruct (fiber_at path (root_es s)) as [es|]; [|exact HM].
    destruct (sp_in_range (norm_sp sp es) es); [|exact HM].
    destruct (sp_assert c (norm_sp sp es) es); exact HM.
  - (* OGetRefSP *)
    destruct (Nat.ltb (length path) (nranks s)); [|exact HM].
    destruct (fiber_at path (root_es s)) as [es|]; [|exact HM].
    destruct (sp_in_range (norm_sp sp es) es); [|exact HM].
    destruct (coord_exists c (map fst es) (coord2pos c (map fst es) (norm_sp sp es))
              || negb (coord_exists c (map fst es) (bisect c (map fst es)))); [|exact HM].
    destruct (at_path_st path _ 0 (root_es s) (s_next s) (s_ranks s)) as [[[es' nx] rk]|] eqn:Hat;
      [|exact HM].
    cbn [fst]. refine (at_path_st_mirror s path _ es' nx rk Hs HM _ Hat).
    intros L e nx0 rk0 e1 nx1 rk1 H. eapply get_ref_single_delta. exact H.
  - (* OGetD *)
    destruct (Nat.leb (length pt) (nranks s) && negb (Nat.eqb (length pt) 0)); exact HM.
  - (* OAppendFib *)
    destruct (Nat.ltb (S (length path)) (nranks s) && plain_wf (nranks s - S (length path)) t);
      [|exact HM].
    destruct (fiber_at path (root_es s)) as [e|]; [|exact HM].
    destruct (match last_coord e with Some m => Z.ltb m c | None => true end); [|exact HM].
    destruct (at_path_st path _ 0 (root_es s) (s_next s) (s_ranks s)) as [[[es' nx] rk]|] eqn:Hat;
      [|exact HM].
    cbn [fst]. refine (spec_mirror s path _ es' nx rk Hs HM _ Hat).
    intros e0 nx0 rk0 e1 nx1 rk1 H. eapply append_fib_spec. exact H.
  - (* OExtend *)
    destruct t as [v|l]; [exact HM|].
    destruct (Nat.ltb (length path) (nranks s) && plain_wf (nranks s - length path) (Node l));
      [|exact HM].
    destruct (fiber_at path (root_es s)) as [e|]; [|exact HM].
    destruct (is_empty (s_d s) (Node l)); [exact HM|].
    destruct (match last_coord e, l with Some m, (c0, _) :: _ => Z.ltb m c0 | _, _ => true end);
      [|exact HM].
    destruct (at_path_st path _ 0 (root_es s) (s_next s) (s_ranks s)) as [[[es' nx] rk]|] eqn:Hat;
      [|exact HM].
    cbn [fst]. refine (spec_mirror s path _ es' nx rk Hs HM _ Hat).
    intros e0 nx0 rk0 e1 nx1 rk1 H. eapply extend_fib_spec. exact H.
  - (* OSetItemFib *)
    destruct (Nat.ltb (S (length path)) (nranks s) && plain_wf (nranks s - S (length path)) t);
      [|exact HM].
    destruct (fiber_at path (root_es s)) as [e|]; [|exact HM]. cbv zeta.
    destruct ((Z.ltb (if Z.ltb pos 0 then (pos + Z.of_nat (length e))%Z else pos) 0)
              || (Z.leb (Z.of_nat (length e)) (if Z.ltb pos 0 then (pos + Z.of_nat (length e))%Z else pos)));
      [exact HM|].
    destruct (at_path_st path _ 0 (root_es s) (s_next s) (s_ranks s)) as [[[es' nx] rk]|] eqn:Hat;
      [|exact HM].
    cbn [fst]. refine (spec_mirror s path _ es' nx rk Hs HM _ Hat).
    intros e0 nx0 rk0 e1 nx1 rk1 H. eapply setitem_fib_spec. exact H.
  - (* OAssignFib *)
    destruct (prune (s_d s) t) as [v|l]; [exact HM|].
    destruct (Nat.ltb (length path) (nranks s) && plain_wf (nranks s - length path) t);
      [|exact HM].
    destruct (at_path_st path _ 0 (root_es s) (s_next s) (s_ranks s)) as [[[es' nx] rk]|] eqn:Hat;
      [|exact HM].
    cbn [fst]. refine (spec_mirror s path _ es' nx rk Hs HM _ Hat).
    intros e0 nx0 rk0 e1 nx1 rk1 H. eapply assign_fib_spec. exact H.
  - (* OSetItemCF: not a step0 operation *)
    exact HM.
Qed.

(* OSetItemCF = the coordinate-only assignment, then the fiber-only assignment (step_decomp) *)
Theorem step_mirror s o : wf_st s -> Mirror s -> Mirror (fst (Store.step s o)).
Proof.
  intros Hs HM.
  destruct (step_decomp s o) as [E|(path & pos & c & t & _ & [[E _]|(s1 & r1 & _ & E1 & E2)])].
  - rewrite E. apply step0_mirror; assumption.
  - rewrite E. exact HM.
  - pose proof (step0_wf s (OSetItem path pos (Some c) None) Hs) as Hs1.
    pose proof (step0_mirror s (OSetItem path pos (Some c) None) Hs HM) as HM1.
    rewrite E1 in Hs1, HM1. cbn [fst] in Hs1, HM1.
    rewrite E2. apply step0_mirror; assumption.
Qed.

Theorem run_mirror : forall ops s, wf_st s -> Mirror s -> wf_st (run s ops) /\ Mirror (run s ops).
Proof.
  induction ops as [|o ops IH]; intros s Hs HM; [split; assumption|].
  cbn [run fold_left]. apply IH; [apply step_wf; exact Hs|apply step_mirror; assumption].
Qed.

Theorem run_prefix_mirror ops s k : wf_st s -> Mirror s -> Mirror (run s (firstn k ops)).
Proof. intros Hs HM. apply run_mirror; assumption. Qed.

Lemma init_mirror_gen n d t : Mirror (init n d t).
Proof.
  unfold init. destruct (load 0 t 0 (repeat [] n)) as [[r nx] rk] eqn:Hl.
  destruct (load_ok _ _ _ _ _ _ _ Hl) as (A1 & A2 & A3 & A4 & A5).
  apply Mirror_C. cbn [s_root s_ranks s_next]. split; [|split; [|split]].
  - intros k x Hk. rewrite A2 in Hk.
    rewrite (A3 x k (Nat.eqb k) Hk); [|intros j; rewrite Nat.add_0_r; reflexivity].
    rewrite nth_repeat. reflexivity.
  - intros x. rewrite A4. apply bump_le1.
  - intros x Hx. rewrite A4. apply bump_ge. exact Hx.
  - exact A5.
Qed.

Theorem init_mirror c : wf_case c = true -> Mirror (init (h_n c) (h_d c) (h_tree c)).
Proof. intros _. apply init_mirror_gen. Qed.

(* ---------- what the invariant says ---------- *)
Lemma cntl_ids_le_all x k t : cntl x (ids k t) <= cntl x (all_ids t).
Proof.
  rewrite (cnt_ids x t k (Nat.eqb k) (fun j => eq_refl)), cnt_all_ids. apply cnt_le_all.
Qed.

Inductive Owners : nat -> itree -> Prop :=
| Ow_leaf k v : Owners k (ILeaf v)
| Ow_node k id es : Forall (fun ct => Owners (S k) (snd ct)) es -> Owners k (INode id (Some k) es).

Lemma owners_ok_spec : forall t k, owners_ok k t = true <-> Owners k t.
Proof.
  induction t as [v|id ow es IH] using itree_ind'; intros k.
  - split; [intros _; constructor|reflexivity].
  - rewrite owners_node, andb_true_iff. unfold own_f. rewrite forallb_forall. split.
    + intros [Ho Hk]. destruct ow as [k'|]; [|discriminate]. apply Nat.eqb_eq in Ho. subst k'.
      constructor. apply Forall_forall. intros ct Hin. rewrite Forall_forall in IH.
      apply (IH ct Hin). apply Hk. exact Hin.
    + intros H. inversion H as [|? ? ? Hk]; subst. split; [apply Nat.eqb_refl|].
      intros ct Hin. rewrite Forall_forall in IH, Hk. apply (IH ct Hin). apply Hk. exact Hin.
Qed.

Theorem mirror_meaning s : wf_st s -> Mirror s ->
  (forall k, k < nranks s ->
     NoDup (nth k (s_ranks s) [])
     /\ (forall id, In id (nth k (s_ranks s) []) <-> In id (ids k (s_root s)))
     /\ Permutation (nth k (s_ranks s) []) (ids k (s_root s)))
  /\ (exists rid ow es, s_root s = INode rid ow es /\ nth 0 (s_ranks s) [] = [rid])
  /\ NoDup (all_ids (s_root s))
  /\ (forall id, In id (all_ids (s_root s)) -> id < s_next s)
  /\ Owners 0 (s_root s).
Proof.
  intros (rid & ow & es & Hr & Hn & Hw) (HA & HB & HC & HD).
  split; [|split; [|split; [|split]]].
  - intros k Hk. split; [|split].
    + apply (NoDup_count_occ Nat.eq_dec). intros x. fold (cntl x (nth k (s_ranks s) [])).
      rewrite (HA k x Hk). pose proof (cntl_ids_le_all x k (s_root s)). specialize (HB x). lia.
    + intros id. rewrite !(count_occ_In Nat.eq_dec).
      fold (cntl id (nth k (s_ranks s) [])). fold (cntl id (ids k (s_root s))).
      rewrite (HA k id Hk). reflexivity.
    + apply (Permutation_count_occ Nat.eq_dec). intros x. apply (HA k x Hk).
  - exists rid, ow, es. split; [exact Hr|].
    assert (HP : Permutation [rid] (nth 0 (s_ranks s) [])).
    { apply (Permutation_count_occ Nat.eq_dec). intros x. symmetry.
      fold (cntl x (nth 0 (s_ranks s) [])). rewrite (HA 0 x Hn), Hr. reflexivity. }
    apply Permutation_length_1_inv in HP. exact HP.
  - apply (NoDup_count_occ Nat.eq_dec). exact HB.
  - intros id Hin. apply (count_occ_In Nat.eq_dec) in Hin. fold (cntl id (all_ids (s_root s))) in Hin.
    destruct (Nat.lt_ge_cases id (s_next s)) as [H|H]; [exact H|]. rewrite (HC id H) in Hin. lia.
  - apply owners_ok_spec. exact HD.
Qed.
