(* C09SwapP.v — Fiber.swapRanks = flatten(pair) + sort by the reversed coordinate + unflatten;
   the Below descent up to permutation; Tensor.swapRanks at any depth. *)
From Coq Require Import ZArith List Bool Lia Permutation PeanoNat.
From FT Require Import Model.Base Model.Obs Model.C09Transform Model.C09Check
                       Proofs.C09OrderP Proofs.C09FlattenP Proofs.C09BelowP Proofs.C09CheckP
                       Proofs.C09SwizzleP Proofs.C09WfP.
Import ListNotations.
Open Scope Z_scope.

Lemma content_nil_cempty : forall d t, ccontent d t = [] -> cempty d t = true.
Proof.
  intros d t. induction t as [v|es IH] using ct_ind'; simpl; intros H.
  - destruct (v =? d); [reflexivity|discriminate].
  - induction es as [|[c p] es IHes]; [reflexivity|].
    simpl in H. apply app_eq_nil in H. destruct H as [H1 H2].
    inversion IH as [|? ? IHp IHrest]; subst. simpl in *.
    rewrite IHp; [|destruct (ccontent d p); [reflexivity|discriminate]]. simpl. apply IHes; assumption.
Qed.

Lemma pw_heads_ok : forall rest a c0 (p : ct),
  pw ccmp (map fst ((a :: c0, p) :: rest)) -> Forall (fun cp : coord * ct => fst cp <> []) rest ->
  heads_ok a rest.
Proof.
  induction rest as [|[cx p'] rest IH]; intros a c0 p Hpw Hne; [exact I|].
  inversion Hne as [|? ? Hcx Hrest]; subst. simpl in Hcx.
  destruct cx as [|b c0']; [congruence|]. simpl.
  destruct Hpw as [Ha Hpw]. inversion Ha as [|? ? Hab _]; subst. simpl in Hab.
  split.
  - unfold ccmp in Hab. simpl in Hab. destruct (a ?= b) eqn:E; try discriminate.
    + apply Z.compare_eq in E. lia.
    + rewrite Z.compare_lt_iff in E. lia.
  - apply (IH b c0' p'); assumption.
Qed.

(* content of a fiber is invariant, up to permutation, under permuting its elements *)
Lemma content_perm : forall d es es', Permutation es es' ->
  Permutation (ccontent d (CN es)) (ccontent d (CN es')).
Proof. intros d es es' H. rewrite !content_CN. apply Permutation_flat_map. exact H. Qed.

Lemma content_map_key : forall d (f : coord -> coord) es,
  ccontent d (CN (map (fun cp => (f (fst cp), snd cp)) es))
  = map (on_pt (fun p => match p with c :: q => f c :: q | [] => [] end)) (ccontent d (CN es)).
Proof.
  intros d f es. rewrite !content_CN, flat_map_map, map_flat_map. apply flat_map_ext_in.
  intros [c p] _. simpl. rewrite map_map. apply map_ext. intros [q v]. reflexivity.
Qed.

Lemma NoDup_map_inj_in2 : forall {A B} (f : A -> B) l,
  (forall x y, In x l -> In y l -> f x = f y -> x = y) -> NoDup l -> NoDup (map f l).
Proof.
  induction l as [|x l IH]; intros Hinj Hnd; [constructor|].
  inversion Hnd as [|? ? Hx Hrest]; subst. simpl. constructor.
  - intros Hin. apply in_map_iff in Hin. destruct Hin as [y [E Hy]].
    assert (y = x) by (apply Hinj; [right; exact Hy|left; reflexivity|exact E]). subst. auto.
  - apply IH; [|exact Hrest]. intros a b Ha Hb. apply Hinj; right; assumption.
Qed.

Definition swap0 (p : list coord) : list coord :=
  match p with a :: b :: q => b :: a :: q | _ => p end.

Lemma merge_items_len2 : forall sh d es, wfl 1 es ->
  Forall (fun cp : coord * ct => length (fst cp) = 2%nat) (merge_items st_pair sh d es).
Proof.
  intros sh d es [_ [Hsg Hsub]]. apply Forall_forall. intros [k p] Hin.
  unfold merge_items in Hin. apply in_flat_map in Hin. destruct Hin as [[c1 p1] [Hcp Hin]].
  apply in_map_iff in Hin. destruct Hin as [[c0 p0] [E Hp0]]. inversion E; subst. simpl.
  rewrite forallb_forall in Hsg. pose proof (Hsg _ Hcp) as H1. simpl in H1.
  rewrite Forall_forall in Hsub. destruct (Hsub _ Hcp) as [s [Es [_ [Hsg0 _]]]]. simpl in Es. subst p1.
  unfold cpresent in Hp0. apply filter_In in Hp0. destruct Hp0 as [Hp0 _]. simpl in Hp0.
  rewrite forallb_forall in Hsg0. pose proof (Hsg0 _ Hp0) as H0. simpl in H0.
  destruct c1 as [|a [|? ?]]; try discriminate. destruct c0 as [|b [|? ?]]; try discriminate. reflexivity.
Qed.

Lemma swap_fiber_unfold : forall fuel d es fl,
  merge_helper 1 st_pair true fuel [] d es = Some fl -> fl <> [] ->
  swap_fiber fuel d es = unflatten 1 (sort_by ccmp fst (map (fun cp => (rev (fst cp), snd cp)) fl)).
Proof. intros fuel d es fl H Hne. unfold swap_fiber. rewrite H. destruct fl; [congruence|reflexivity]. Qed.

Theorem swap_fiber_content : forall fuel d es, wfl 1 es -> cempty d (CN es) = false ->
  exists r, swap_fiber fuel d es = Some r
    /\ Permutation (ccontent d (CN r)) (map (on_pt swap0) (ccontent d (CN es))).
Proof.
  intros fuel d es Hwf Hne.
  assert (Hs : tp st_pair) by (right; reflexivity).
  pose proof Hwf as [Hpw [Hsg Hsub]].
  assert (Hf : all_fibers es = true).
  { unfold all_fibers. apply forallb_forall. intros cp Hin. rewrite Forall_forall in Hsub.
    destruct (Hsub _ Hin) as [s [E _]]. rewrite E. reflexivity. }
  set (fl := merge_items st_pair (prodZ (firstn 1 (tl (@nil Z)))) d es).
  assert (Hk : pw ccmp (map fst fl)).
  { apply merge_items_pw; auto. eapply Forall_impl; [|exact Hsub].
    intros cp [s [E Hw]]. rewrite E. simpl. eapply wfl_pw. exact Hw. }
  assert (Efl : merge_helper 1 st_pair true fuel [] d es = Some fl) by (apply merge_helper_1; assumption).
  assert (Cfl : ccontent d (CN fl) = map (on_pt img2) (ccontent d (CN es))) by (apply merge_items_content; assumption).
  pose proof (merge_items_len2 (prodZ (firstn 1 (tl (@nil Z)))) d es Hwf) as Hlen. fold fl in Hlen.
  set (rk := fun cp : coord * ct => (rev (fst cp), snd cp)).
  set (s := sort_by ccmp fst (map rk fl)).
  assert (HPs : Permutation s (map rk fl)) by apply sort_by_perm.
  assert (Hslen : Forall (fun cp : coord * ct => length (fst cp) = 2%nat) s).
  { apply Forall_forall. intros cp Hin. apply (Permutation_in _ HPs) in Hin.
    apply in_map_iff in Hin. destruct Hin as [cp0 [<- H0]]. simpl. rewrite rev_length.
    rewrite Forall_forall in Hlen. auto. }
  assert (Hspw : pw ccmp (map fst s)).
  { apply (sort_by_pw ccmp fst ccmp_anti ccmp_eq ccmp_trans).
    rewrite map_map. simpl. rewrite <- map_map with (f := fst) (g := @rev Z).
    apply NoDup_map_inj_in2.
    - intros x y _ _ E. rewrite <- (rev_involutive x), <- (rev_involutive y), E. reflexivity.
    - apply (pw_NoDup ccmp); [exact ccmp_refl|exact Hk]. }
  assert (Hflne : fl <> []).
  { intros E. rewrite E in Cfl. change (ccontent d (CN [])) with (@nil (list coord * Z)) in Cfl. symmetry in Cfl. apply map_eq_nil in Cfl.
    apply content_nil_cempty in Cfl. rewrite Cfl in Hne. discriminate. }
  rewrite (swap_fiber_unfold fuel d es fl Efl Hflne). fold rk. fold s.
  assert (Hok : unfl_ok 1 s).
  { destruct s as [|[cx p] rest] eqn:Es.
    - apply Permutation_nil in HPs. destruct fl; [congruence|discriminate].
    - inversion Hslen as [|? ? Hcx Hrest]; subst. simpl in Hcx.
      destruct cx as [|b [|a [|? ?]]]; try discriminate. simpl. split; [|apply Forall_forall; intros; exact I].
      apply (pw_heads_ok rest b [a] p); [exact Hspw|].
      eapply Forall_impl; [|exact Hrest]. intros cp H E. simpl in H. rewrite E in H. discriminate. }
  destruct (unflatten_content 1 d s Hok) as [r [Er Cr]].
  exists r. split; [exact Er|]. rewrite Cr.
  eapply Permutation_trans; [apply Permutation_map; apply (content_perm d _ _ HPs)|].
  unfold rk. rewrite (content_map_key d (@rev Z)). rewrite Cfl, !map_map.
  apply Permutation_refl'. apply map_ext_in. intros [q v] Hin. unfold on_pt. simpl. f_equal.
  destruct (wfl_points 1 d es Hwf _ Hin) as [Hl Hsing]. simpl in Hl, Hsing.
  destruct q as [|c1 [|c0 q']]; simpl in Hl; try lia.
  inversion Hsing as [|? ? H1 Hs2]; subst. inversion Hs2 as [|? ? H0 _]; subst.
  destruct c1 as [|a [|? ?]]; try discriminate. destruct c0 as [|b [|? ?]]; try discriminate. reflexivity.
Qed.

(* ------------------------------------------------------------------ the Below descent up to permutation *)
Theorem below_perm : forall (W : cfib -> Prop) f g d,
  (forall s, W s -> cempty d (CN s) = false ->
     exists r, f s = Some r /\ Permutation (ccontent d (CN r)) (map (on_pt g) (ccontent d (CN s)))) ->
  forall k es, at_depth k W es ->
  exists r, upd_below k f d es = Some r
    /\ Permutation (ccontent d (CN r)) (map (on_pt (nunder (S k) g)) (ccontent d (CN es)))
    /\ map fst r = map fst es.
Proof.
  intros W f g d Hf. induction k as [|k IH]; intros es Hes.
  - induction es as [|[c p] es IHes].
    + exists []. repeat split. apply Permutation_refl.
    + inversion Hes as [|? ? [s [Es Ws]] Hrest]; subst. simpl in Es. subst p.
      destruct (IHes Hrest) as [r [Er [Cr Kr]]].
      unfold upd_below in *. cbn [map fst snd].
      destruct (cempty d (CN s)) eqn:Ee.
      * cbn [all_some]. fold (upd_below 0 f d es) in *. rewrite Er.
        exists ((c, CN []) :: r). split; [reflexivity|]. split; [|simpl; f_equal; exact Kr].
        rewrite !content_cons. rewrite (cempty_content _ _ Ee). simpl. exact Cr.
      * destruct (Hf s Ws Ee) as [rs [Ers Crs]]. rewrite Ers. cbn [option_map all_some].
        fold (upd_below 0 f d es) in *. rewrite Er.
        exists ((c, CN rs) :: r). split; [reflexivity|]. split; [|simpl; f_equal; exact Kr].
        rewrite !content_cons, map_app. apply Permutation_app; [|exact Cr].
        rewrite (map_under_pcons g c). apply Permutation_map. exact Crs.
  - induction es as [|[c p] es IHes].
    + exists []. repeat split. apply Permutation_refl.
    + inversion Hes as [|? ? [s [Es Ws]] Hrest]; subst. simpl in Es. subst p.
      destruct (IHes Hrest) as [r [Er [Cr Kr]]].
      destruct (IH s Ws) as [rs [Ers [Crs _]]].
      change (upd_below (S k) f d ((c, CN s) :: es))
        with (all_some (option_map (fun r => (c, CN r)) (upd_below k f d s)
                        :: map (fun cp => match snd cp with
                                          | CN s => option_map (fun r => (fst cp, CN r)) (upd_below k f d s)
                                          | CL _ => None end) es)).
      rewrite Ers. cbn [option_map all_some].
      change (all_some (map (fun cp => match snd cp with
                                          | CN s => option_map (fun r => (fst cp, CN r)) (upd_below k f d s)
                                          | CL _ => None end) es)) with (upd_below (S k) f d es).
      rewrite Er. exists ((c, CN rs) :: r). split; [reflexivity|]. split; [|simpl; f_equal; exact Kr].
      rewrite !content_cons, map_app. apply Permutation_app; [|exact Cr].
      rewrite (map_under_pcons (nunder (S k) g) c). apply Permutation_map. exact Crs.
Qed.

(* ------------------------------------------------------------------ Tensor.swapRanks *)
Lemma all_empty_content : forall (W : cfib -> Prop) d k es, at_depth k W es ->
  level_all_empty d (S k) (CN es) = true -> ccontent d (CN es) = [].
Proof.
  intros W d. induction k as [|k IH]; intros es Hes Hall.
  - unfold level_all_empty in Hall. simpl in Hall. rewrite content_CN.
    induction es as [|[c p] es IHes]; [reflexivity|].
    inversion Hes as [|? ? [s [Es _]] Hrest]; subst. simpl in Es. subst p.
    cbn [flat_map snd] in Hall. cbn [app] in Hall. cbn [forallb] in Hall.
    apply andb_true_iff in Hall. destruct Hall as [H1 H2].
    cbn [flat_map fst snd]. rewrite (cempty_content d (CN s)) by exact H1. simpl. apply IHes; assumption.
  - unfold level_all_empty in *. rewrite content_CN.
    change (clevel (S (S k)) (CN es)) with (flat_map (fun cp => clevel (S k) (snd cp)) es) in Hall.
    induction es as [|[c p] es IHes]; [reflexivity|].
    inversion Hes as [|? ? [s [Es Ws]] Hrest]; subst. simpl in Es. subst p.
    simpl in Hall. rewrite forallb_app in Hall. apply andb_true_iff in Hall. destruct Hall as [H1 H2].
    cbn [flat_map fst snd]. rewrite (IH s Ws H1). simpl. apply IHes; assumption.
Qed.

Definition swap_dom (depth : nat) (es : cfib) : Prop :=
  match depth with O => wfl 1 es | S k => at_depth k (wfl 1) es end.

Theorem t_swap_content : forall depth fuel d es, swap_dom depth es ->
  exists r, t_swap depth fuel d es = Some r
    /\ Permutation (ccontent d (CN r)) (map (on_pt (nunder depth swap0)) (ccontent d (CN es))).
Proof.
  intros depth fuel d es Hdom. unfold t_swap.
  destruct (level_all_empty d depth (CN es)) eqn:Eall.
  - exists es. split; [reflexivity|].
    assert (E : ccontent d (CN es) = []).
    { destruct depth as [|k].
      - unfold level_all_empty in Eall. simpl in Eall. rewrite andb_true_r in Eall.
        apply (cempty_content d (CN es)). exact Eall.
      - apply (all_empty_content (wfl 1) d k es Hdom Eall). }
    rewrite E. apply Permutation_refl.
  - destruct depth as [|k]; simpl modify_root.
    + apply swap_fiber_content; [exact Hdom|].
      unfold level_all_empty in Eall. simpl in Eall. rewrite andb_true_r in Eall. exact Eall.
    + destruct (below_perm (wfl 1) (swap_fiber fuel d) swap0 d
                  (fun s Ws Hne => swap_fiber_content fuel d s Ws Hne) k es Hdom) as [r [Er [Cr _]]].
      exists r. split; [exact Er|exact Cr].
Qed.

(* the point map is the transposition of coordinates depth and depth+1 *)
Lemma nunder_swap0 : forall depth p, (depth + 2 <= length p)%nat -> nunder depth swap0 p = img_swap depth p.
Proof.
  induction depth as [|k IH]; intros p H.
  - destruct p as [|a [|b q]]; simpl in H; try lia. reflexivity.
  - destruct p as [|c q]; simpl in H; try lia.
    change (nunder (S k) swap0 (c :: q)) with (c :: nunder k swap0 q). rewrite IH by lia. reflexivity.
Qed.
