(* C08UniformP.v — _SplitterUniform (lazily created buckets looked up through the search_start
   window) computes the reference map over the multiples of step that meet the active range. *)
From Coq Require Import ZArith List Bool Lia ZifyBool PeanoNat.
From FT Require Import Model.Base Model.Obs Model.C08Split Model.C08SplitCheck Proofs.C08SplitP.
Import ListNotations.
Open Scope Z_scope.

(* ================================================================== uniform: bucket algebra *)
Fixpoint blook (k : Z) (st : buckets) : list elem :=
  match st with
  | [] => []
  | (k', b) :: st' => if k =? k' then b else blook k st'
  end.

Definition nonempty_b (st : buckets) : Prop := forall k b, In (k, b) st -> b <> [].

Lemma blook_absent k st : ~ In k (map fst st) -> blook k st = [].
Proof.
  induction st as [|[k0 b0] st IH]; intros H; [reflexivity|].
  cbn [blook]. cbn [map fst In] in H.
  destruct (Z.eqb_spec k k0) as [->|Hne]; [exfalso; apply H; left; reflexivity|].
  apply IH. intros Hin. apply H. right. exact Hin.
Qed.

Lemma blook_present k st : nonempty_b st -> In k (map fst st) -> blook k st <> [].
Proof.
  induction st as [|[k0 b0] st IH]; intros Hne H; [destruct H|].
  cbn [blook]. destruct (Z.eqb_spec k k0) as [->|Hk].
  - apply (Hne k0 b0). left. reflexivity.
  - apply IH.
    + intros k' b' Hin. apply (Hne k' b'). right. exact Hin.
    + cbn [map fst In] in H. destruct H as [H|H]; [congruence|exact H].
Qed.

Lemma blook_in_keys k st : blook k st <> [] -> In k (map fst st).
Proof.
  intros H. destruct (in_dec Z.eq_dec k (map fst st)) as [Hin|Hn]; [exact Hin|].
  exfalso. apply H. apply blook_absent. exact Hn.
Qed.

Lemma blook_app_at k q x st : In q (map fst st) ->
  blook k (app_at (index_of q (map fst st)) x st)
  = if k =? q then blook q st ++ [x] else blook k st.
Proof.
  induction st as [|[k0 b0] st IH]; intros Hin; [destruct Hin|].
  cbn [map fst index_of].
  destruct (Z.eqb_spec q k0) as [->|Hq].
  - cbn [app_at blook]. rewrite Z.eqb_refl. destruct (k =? k0); reflexivity.
  - cbn [app_at blook]. cbn [map fst In] in Hin.
    destruct Hin as [Hin|Hin]; [congruence|].
    replace (q =? k0) with false by lia.
    destruct (Z.eqb_spec k k0) as [->|Hk].
    + replace (k0 =? q) with false by lia. reflexivity.
    + apply IH. exact Hin.
Qed.

Lemma blook_snoc k q b st : ~ In q (map fst st) ->
  blook k (st ++ [(q, b)]) = if k =? q then b else blook k st.
Proof.
  induction st as [|[k0 b0] st IH]; intros Hn.
  - cbn [app blook]. destruct (k =? q); reflexivity.
  - cbn [app blook]. cbn [map fst In] in Hn.
    destruct (Z.eqb_spec k k0) as [->|Hk].
    + replace (k0 =? q) with false; [reflexivity|].
      symmetry. apply Z.eqb_neq. intros ->. apply Hn. left. reflexivity.
    + apply IH. intros Hin. apply Hn. right. exact Hin.
Qed.

Lemma index_of_nth q l : In q l -> nth_error l (index_of q l) = Some q.
Proof.
  induction l as [|y l IH]; intros H; [destruct H|].
  cbn [index_of]. destruct (Z.eqb_spec q y) as [->|Hq]; [reflexivity|].
  cbn [nth_error]. apply IH. destruct H as [H|H]; [congruence|exact H].
Qed.

Lemma ssorted_snoc l q : ssorted l = true -> (forall y, In y l -> y < q) -> ssorted (l ++ [q]) = true.
Proof.
  induction l as [|x l IH]; intros Hs Hlt; [reflexivity|].
  cbn [app]. apply ssorted_cons_intro.
  - apply IH; [apply (ssorted_cons _ _ Hs)|]. intros y Hy. apply Hlt. right. exact Hy.
  - intros y Hy. apply in_app_or in Hy. destruct Hy as [Hy|[<-|[]]].
    + apply (ssorted_cons_lt _ _ Hs). exact Hy.
    + apply Hlt. left. reflexivity.
Qed.

Lemma firstn_in_nth {A} n (l : list A) x : In x (firstn n l) ->
  exists p, (p < n)%nat /\ nth_error l p = Some x.
Proof.
  revert l. induction n as [|n IH]; intros l H; [destruct H|].
  destruct l as [|y l]; [destruct H|]. cbn [firstn In] in H.
  destruct H as [->|H]; [exists O; split; [lia|reflexivity]|].
  destruct (IH l H) as [p [Hp Hn]]. exists (S p). split; [lia|exact Hn].
Qed.

Lemma firstn_snoc_in {A} n (l : list A) a x :
  In x (firstn n (l ++ [a])) -> In x (firstn n l) \/ x = a.
Proof.
  rewrite firstn_app. intros H. apply in_app_or in H. destruct H as [H|H]; [left; exact H|].
  right. destruct (n - length l)%nat; [destruct H|]. cbn [firstn In] in H.
  destruct H as [H|H]; [auto|]. destruct n0; destruct H.
Qed.

(* the lookup into upper_coords[search_start:] finds the partition whenever it exists, provided
   the partition is not among the first search_start ones *)
Definition put (q : Z) (x : elem) (st : buckets) : buckets * nat :=
  if existsb (Z.eqb q) (map fst st)
  then (app_at (index_of q (map fst st)) x st, index_of q (map fst st))
  else (st ++ [(q, [x])], length st).

Lemma existsb_eqb_in q l : existsb (Z.eqb q) l = true <-> In q l.
Proof.
  rewrite existsb_exists. split.
  - intros [y [Hy E]]. apply Z.eqb_eq in E. subst. exact Hy.
  - intros H. exists q. split; [exact H|apply Z.eqb_refl].
Qed.

Lemma place_put ss q x st : ~ In q (firstn ss (map fst st)) -> place ss q x st = put q x st.
Proof.
  intros Hn. unfold place, put.
  assert (existsb (Z.eqb q) (skipn ss (map fst st)) = existsb (Z.eqb q) (map fst st)) as ->; [|reflexivity].
  rewrite <- (firstn_skipn ss (map fst st)) at 2. rewrite existsb_app.
  destruct (existsb (Z.eqb q) (firstn ss (map fst st))) eqn:E; [|reflexivity].
  apply existsb_eqb_in in E. contradiction.
Qed.

(* effect of one placement *)
Lemma put_spec q x st :
  ssorted (map fst st) = true -> nonempty_b st ->
  (~ In q (map fst st) -> forall k', In k' (map fst st) -> k' < q) ->
  let r := put q x st in
  ssorted (map fst (fst r)) = true /\ nonempty_b (fst r) /\
  (forall k, blook k (fst r) = if k =? q then blook q st ++ [x] else blook k st) /\
  nth_error (map fst (fst r)) (snd r) = Some q /\
  (map fst (fst r) = map fst st \/ (~ In q (map fst st) /\ map fst (fst r) = map fst st ++ [q])).
Proof.
  intros Hs Hne Hnew. unfold put.
  destruct (existsb (Z.eqb q) (map fst st)) eqn:E.
  - apply existsb_eqb_in in E. cbn [fst snd]. rewrite app_at_keys.
    split; [exact Hs|]. split; [|split; [|split]].
    + intros k b Hin. clear -Hne Hin.
      revert Hin. generalize (index_of q (map fst st)) as i. induction st as [|[k0 b0] st IH]; intros i Hin.
      * destruct Hin.
      * destruct i as [|i]; cbn [app_at In] in Hin.
        -- destruct Hin as [Hin|Hin].
           ++ injection Hin as <- <-. destruct b0; discriminate.
           ++ apply (Hne k b). right. exact Hin.
        -- destruct Hin as [Hin|Hin].
           ++ apply (Hne k b). left. exact Hin.
           ++ apply (IH (fun k' b' H => Hne k' b' (or_intror H)) i Hin).
    + intros k. apply blook_app_at. exact E.
    + apply index_of_nth. exact E.
    + left. reflexivity.
  - assert (~ In q (map fst st)) as Hn.
    { intros Hin. apply existsb_eqb_in in Hin. congruence. }
    cbn [fst snd]. rewrite map_app. cbn [map fst].
    split; [apply ssorted_snoc; [exact Hs|apply Hnew; exact Hn]|]. split; [|split; [|split]].
    + intros k b Hin. apply in_app_or in Hin. destruct Hin as [Hin|[Hin|[]]].
      * apply (Hne k b Hin).
      * injection Hin as <- <-. discriminate.
    + intros k. rewrite (blook_snoc k q [x] st Hn), (blook_absent q st Hn). reflexivity.
    + rewrite nth_error_app2 by (rewrite map_length; lia). rewrite map_length, Nat.sub_diag. reflexivity.
    + right. split; [exact Hn|reflexivity].
Qed.

(* the placements of one element, as a fold *)
Fixpoint places (ss : nat) (x : elem) (qs : list Z) (st : buckets) (inds : list nat)
  : buckets * list nat :=
  match qs with
  | [] => (st, inds)
  | q :: qs' => let '(st', i) := place ss q x st in places ss x qs' st' (inds ++ [i])
  end.

Definition elig (step a0 a1 k : Z) : bool := (a0 <? k + step) && (k <? a1).

Lemma uni_inner_places step a0 a1 x ss : forall ps st inds,
  0 < step -> ssorted ps = true ->
  uni_inner step a0 a1 x ss ps st inds = places ss x (filter (elig step a0 a1) ps) st inds.
Proof.
  induction ps as [|p ps IH]; intros st inds Hstep Hs; [reflexivity|].
  pose proof (ssorted_cons _ _ Hs) as Hs'. pose proof (ssorted_cons_lt _ _ Hs) as Hlt.
  cbn [uni_inner filter]. unfold elig at 1.
  destruct (p + step <=? a0) eqn:C1.
  - replace (a0 <? p + step) with false by lia. cbn [andb]. apply IH; assumption.
  - replace (a0 <? p + step) with true by lia. cbn [andb].
    destruct (a1 <=? p) eqn:C2.
    + replace (p <? a1) with false by lia.
      rewrite filter_all_false; [reflexivity|].
      intros y Hy. specialize (Hlt y Hy). unfold elig. lia.
    + replace (p <? a1) with true by lia. cbn [places].
      destruct (place ss p x st) as [st' i]. apply IH; assumption.
Qed.

Lemma places_spec ss x : forall qs st inds,
  ssorted qs = true ->
  ssorted (map fst st) = true -> nonempty_b st ->
  (forall q, In q qs -> ~ In q (map fst st) -> forall k', In k' (map fst st) -> k' < q) ->
  (forall q, In q qs -> ~ In q (firstn ss (map fst st))) ->
  let r := places ss x qs st inds in
  ssorted (map fst (fst r)) = true /\ nonempty_b (fst r) /\
  (forall k, blook k (fst r) = blook k st ++ (if existsb (Z.eqb k) qs then [x] else [])) /\
  (exists added, snd r = inds ++ added /\ (qs <> [] -> added <> []) /\
     forall q, In q qs -> exists i, In i added /\ nth_error (map fst (fst r)) i = Some q) /\
  (exists extra, map fst (fst r) = map fst st ++ extra /\ forall k, In k extra -> In k qs).
Proof.
  induction qs as [|q qs IH]; intros st inds Hq Hs Hne Hnew Hss.
  - cbn [places fst snd existsb]. split; [exact Hs|]. split; [exact Hne|]. split; [|split].
    + intros k. rewrite app_nil_r. reflexivity.
    + exists []. split; [rewrite app_nil_r; reflexivity|]. split; [congruence|]. intros q [].
    + exists []. split; [rewrite app_nil_r; reflexivity|]. intros k [].
  - pose proof (ssorted_cons _ _ Hq) as Hq'. pose proof (ssorted_cons_lt _ _ Hq) as Hqlt.
    cbn [places]. rewrite (place_put ss q x st (Hss q (or_introl eq_refl))).
    pose proof (put_spec q x st Hs Hne (Hnew q (or_introl eq_refl))) as P. cbn zeta in P.
    destruct (put q x st) as [st1 i1]. cbn [fst snd] in P.
    destruct P as [Hs1 [Hne1 [Hb1 [Hn1 Hk1]]]].
    assert (Hext1 : exists e1, map fst st1 = map fst st ++ e1 /\ forall k, In k e1 -> k = q).
    { destruct Hk1 as [E|[_ E]].
      - exists []. rewrite app_nil_r. split; [exact E|]. intros k [].
      - exists [q]. split; [exact E|]. intros k [Hk|[]]. auto. }
    destruct Hext1 as [e1 [He1 He1q]].
    assert (Hkeys1 : forall k, In k (map fst st1) -> In k (map fst st) \/ k = q).
    { intros k Hk. rewrite He1 in Hk. apply in_app_or in Hk.
      destruct Hk as [Hk|Hk]; [left; exact Hk|right; apply He1q; exact Hk]. }
    assert (Hsub1 : forall k, In k (map fst st) -> In k (map fst st1)).
    { intros k Hk. rewrite He1. apply in_or_app. left. exact Hk. }
    specialize (IH st1 (inds ++ [i1]) Hq' Hs1 Hne1).
    assert (Hnew1 : forall q0, In q0 qs -> ~ In q0 (map fst st1) ->
                    forall k', In k' (map fst st1) -> k' < q0).
    { intros q0 Hq0 Hn0 k' Hk'. destruct (Hkeys1 k' Hk') as [Hk | Hk].
      - apply (Hnew q0 (or_intror Hq0)); [|exact Hk]. intros Hin. apply Hn0. apply Hsub1. exact Hin.
      - subst k'. apply Hqlt. exact Hq0. }
    assert (Hss1 : forall q0, In q0 qs -> ~ In q0 (firstn ss (map fst st1))).
    { intros q0 Hq0 Hin. destruct Hk1 as [E|[_ E]]; rewrite E in Hin.
      - apply (Hss q0 (or_intror Hq0)). exact Hin.
      - apply firstn_snoc_in in Hin. destruct Hin as [Hin | Hin].
        + apply (Hss q0 (or_intror Hq0)). exact Hin.
        + subst q0. specialize (Hqlt q Hq0). lia. }
    specialize (IH Hnew1 Hss1). cbn zeta in IH.
    destruct (places ss x qs st1 (inds ++ [i1])) as [st2 inds2]. cbn [fst snd] in *.
    destruct IH as [Hs2 [Hne2 [Hb2 [[added [Ha1 [Ha2 Ha3]]] [e2 [He2 He2q]]]]]].
    split; [exact Hs2|]. split; [exact Hne2|]. split; [|split].
    + intros k. rewrite Hb2, Hb1. cbn [existsb].
      destruct (Z.eqb_spec k q) as [Hkq|Hkq].
      * subst k. cbn [orb]. replace (existsb (Z.eqb q) qs) with false.
        -- rewrite app_nil_r. reflexivity.
        -- symmetry. destruct (existsb (Z.eqb q) qs) eqn:E; [|reflexivity].
           apply existsb_eqb_in in E. specialize (Hqlt q E). lia.
      * cbn [orb]. reflexivity.
    + exists (i1 :: added). split; [rewrite Ha1, <- app_assoc; reflexivity|]. split; [discriminate|].
      intros q0 [Hq0|Hq0].
      * subst q0. exists i1. split; [left; reflexivity|].
        rewrite He2. rewrite nth_error_app1; [exact Hn1|].
        apply nth_error_Some. congruence.
      * destruct (Ha3 q0 Hq0) as [i [Hi Hn]]. exists i. split; [right; exact Hi|exact Hn].
    + exists (e1 ++ e2). split; [rewrite He2, He1, app_assoc; reflexivity|].
      intros k Hk. apply in_app_or in Hk. destruct Hk as [Hk|Hk].
      * left. symmetry. apply He1q. exact Hk.
      * right. apply He2q. exact Hk.
Qed.

Lemma ssorted_prog n : forall s step, 0 < step -> ssorted (prog n s step) = true.
Proof.
  induction n as [|n IH]; intros s step Hs; [reflexivity|].
  cbn [prog]. apply ssorted_cons_intro; [apply IH; exact Hs|].
  intros y Hy. apply prog_in in Hy. destruct Hy as [j [Hj ->]]. nia.
Qed.

Lemma ssorted_filter_Z (f : Z -> bool) l : ssorted l = true -> ssorted (filter f l) = true.
Proof.
  induction l as [|x l IH]; intros Hs; [reflexivity|].
  pose proof (ssorted_cons _ _ Hs) as Hs'. cbn [filter]. destruct (f x); [|auto].
  apply ssorted_cons_intro; [auto|]. intros y Hy. apply filter_In in Hy.
  apply (ssorted_cons_lt _ _ Hs). apply Hy.
Qed.

Section Uniform.
  Variables (step pre post a0 a1 : Z).
  Hypothesis Hstep : 0 < step.
  Hypothesis Hpre : 0 <= pre.
  Hypothesis Hpost : 0 <= post.
  Hypothesis Ha : a0 < a1.

  Definition inb (k : Z) : bool := existsb (Z.eqb k) (map fst (uni_bounds step a0 a1)).
  Definition um (k : Z) (x : elem) : bool := inb k && member pre post a0 a1 k (Some (k + step)) x.
  Definition qs_of (c : Z) : list Z := filter (elig step a0 a1) (parts_of step pre post c).

  Lemma inb_iff k : inb k = true <-> exists q, k = q * step /\ a0 < k + step /\ k < a1.
  Proof.
    unfold inb. rewrite existsb_eqb_in, in_map_iff. split.
    - intros [[s e] [Hk Hin]]. cbn [fst] in Hk. subst s.
      apply (uni_bounds_in step a0 a1 k e Hstep) in Hin.
      destruct Hin as [q [H1 [_ [H2 H3]]]]. exists q. auto.
    - intros [q [H1 [H2 H3]]]. exists (k, Some (k + step)). split; [reflexivity|].
      apply (uni_bounds_in step a0 a1 k (Some (k + step)) Hstep). exists q. auto.
  Qed.

  Definition window (x : elem) : Prop := a0 - pre <= fst x /\ fst x < a1 + post.

  Lemma um_window k x : um k x = true -> window x.
  Proof.
    unfold um, window. intros H. apply andb_true_iff in H. destruct H as [_ H].
    apply member_iff2 in H. lia.
  Qed.

  Lemma qs_char x k : window x -> (In k (qs_of (fst x)) <-> um k x = true).
  Proof.
    intros [W1 W2]. unfold qs_of, um. rewrite filter_In, andb_true_iff.
    rewrite (parts_of_in step pre post (fst x) k Hstep Hpre Hpost), inb_iff, member_iff.
    unfold elig, ext_gt, ext_min. split.
    - intros [[q [Hq Hr]] He]. split; [exists q; lia|lia].
    - intros [[q [Hq Hr]] Hm]. split; [exists q; lia|lia].
  Qed.

  Lemma qs_sorted c : ssorted (qs_of c) = true.
  Proof. unfold qs_of, parts_of. apply ssorted_filter_Z. apply ssorted_prog. exact Hstep. Qed.

  (* covering: an element inside the halo-extended active range belongs to at least one
     partition that meets the (non-empty) active range, so min(inds) cannot fail *)
  Lemma qs_nonempty x : window x -> qs_of (fst x) <> [].
  Proof.
    intros W. pose proof W as [W1 W2].
    set (c := fst x) in *.
    set (P := (c + pre) / step * step).
    assert (HP : P <= c + pre < P + step).
    { subst P. pose proof (Z.div_mod (c + pre) step ltac:(lia)).
      pose proof (Z.mod_pos_bound (c + pre) step Hstep). nia. }
    destruct (Z.lt_ge_cases P a1) as [Hlt|Hge].
    - assert (In P (qs_of c)) as Hin.
      { apply (qs_char x P W). unfold um. apply andb_true_iff. split.
        - apply inb_iff. exists ((c + pre) / step). subst P. lia.
        - apply member_iff. unfold ext_gt, ext_min. fold c. lia. }
      intros E. rewrite E in Hin. destruct Hin.
    - set (R := (a1 - 1) / step * step).
      assert (HR : R <= a1 - 1 < R + step).
      { subst R. pose proof (Z.div_mod (a1 - 1) step ltac:(lia)).
        pose proof (Z.mod_pos_bound (a1 - 1) step Hstep). nia. }
      assert (In R (qs_of c)) as Hin.
      { apply (qs_char x R W). unfold um. apply andb_true_iff. split.
        - apply inb_iff. exists ((a1 - 1) / step). subst R. lia.
        - apply member_iff. unfold ext_gt, ext_min. fold c. lia. }
      intros E. rewrite E in Hin. destruct Hin.
  Qed.

  Lemma um_lower k' q x0 x :
    um k' x0 = true -> um q x = true -> q < k' -> fst x0 <= fst x -> um q x0 = true.
  Proof.
    unfold um. rewrite !andb_true_iff, !member_iff. unfold ext_gt, ext_min.
    intros [I1 M1] [I2 M2] Hlt Hle. split; [exact I2|]. lia.
  Qed.

  Lemma um_convex k x0 x x' :
    um k x0 = true -> um k x' = true -> fst x0 <= fst x <= fst x' -> um k x = true.
  Proof.
    unfold um. rewrite !andb_true_iff, !member_iff. unfold ext_gt, ext_min.
    intros [I1 M1] [I2 M2] Hle. split; [exact I1|]. lia.
  Qed.

  Lemma filter_nonempty_ex {A} (f : A -> bool) l : filter f l <> [] -> exists y, In y l /\ f y = true.
  Proof.
    intros H. destruct (filter f l) as [|y r] eqn:E; [congruence|].
    exists y. apply filter_In. rewrite E. left. reflexivity.
  Qed.

  Lemma uni_outer_spec : forall l dn st ss,
    ssorted (map fst l) = true ->
    (forall x0 x, In x0 dn -> In x l -> fst x0 < fst x) ->
    ssorted (map fst st) = true -> nonempty_b st ->
    (forall k, blook k st = filter (um k) dn) ->
    (forall k x', In k (firstn ss (map fst st)) -> In x' l -> um k x' = false) ->
    exists st', uni_outer step pre post a0 a1 l st ss = Some st' /\
      ssorted (map fst st') = true /\ nonempty_b st' /\
      forall k, blook k st' = filter (um k) (dn ++ l).
  Proof.
    induction l as [|[c p] l IH]; intros dn st ss Hsl Hord Hs Hne Hb Hss.
    - exists st. cbn [uni_outer]. rewrite app_nil_r. auto.
    - cbn [map fst] in Hsl. pose proof (ssorted_cons _ _ Hsl) as Hsl'.
      pose proof (ssorted_cons_lt _ _ Hsl) as Hlt.
      assert (Hord' : forall x0 x, In x0 (dn ++ [(c, p)]) -> In x l -> fst x0 < fst x).
      { intros x0 x H0 Hx. apply in_app_or in H0. destruct H0 as [H0|[H0|[]]].
        - apply Hord; [exact H0|right; exact Hx].
        - subst x0. cbn [fst]. apply Hlt. apply (in_map fst _ _ Hx). }
      assert (Hss' : forall k x', In k (firstn ss (map fst st)) -> In x' l -> um k x' = false)
        by (intros k x' Hk Hx; apply Hss; [exact Hk|right; exact Hx]).
      cbn [uni_outer].
      destruct (c <? a0 - pre) eqn:C1.
      { assert (forall k, um k (c, p) = false) as Hno.
        { intros k. destruct (um k (c, p)) eqn:E; [|reflexivity].
          apply um_window in E. unfold window in E. cbn [fst] in E. lia. }
        destruct (IH (dn ++ [(c, p)]) st ss Hsl' Hord' Hs Hne) as [st' [E [S' [N' B']]]].
        - intros k. rewrite filter_app. cbn [filter]. rewrite Hno, app_nil_r. apply Hb.
        - exact Hss'.
        - exists st'. rewrite <- app_assoc in B'. auto. }
      destruct (a1 + post <=? c) eqn:C2.
      { exists st. split; [reflexivity|]. split; [exact Hs|]. split; [exact Hne|].
        intros k. rewrite filter_app, Hb.
        rewrite <- (app_nil_r (filter (um k) dn)) at 1. f_equal. symmetry.
        apply filter_all_false. intros x' Hx'. destruct (um k x') eqn:E; [|reflexivity].
        apply um_window in E. unfold window in E.
        destruct Hx' as [<-|Hx']; [cbn [fst] in E; lia|].
        specialize (Hlt (fst x') (in_map fst _ _ Hx')). lia. }
      assert (W : window (c, p)) by (unfold window; cbn [fst]; lia).
      rewrite (uni_inner_places step a0 a1 (c, p) ss (parts_of step pre post c) st [] Hstep)
        by (unfold parts_of; apply ssorted_prog; exact Hstep).
      fold (qs_of c).
      assert (Hnew : forall q, In q (qs_of c) -> ~ In q (map fst st) ->
                     forall k', In k' (map fst st) -> k' < q).
      { intros q Hq Hn k' Hk'. apply (qs_char (c, p) q W) in Hq.
        pose proof (blook_present k' st Hne Hk') as Hb'. rewrite Hb in Hb'.
        apply filter_nonempty_ex in Hb'. destruct Hb' as [x0 [H0 U0]].
        destruct (Z.lt_ge_cases k' q) as [Hlt'|Hge]; [exact Hlt'|]. exfalso.
        assert (k' <> q) by (intros ->; contradiction).
        assert (um q x0 = true) as U.
        { apply (um_lower k' q x0 (c, p) U0 Hq); [lia|].
          specialize (Hord x0 (c, p) H0 (or_introl eq_refl)). lia. }
        apply Hn. apply blook_in_keys. rewrite Hb. intros E.
        assert (In x0 (filter (um q) dn)) as Hin by (apply filter_In; auto).
        rewrite E in Hin. destruct Hin. }
      assert (Hssq : forall q, In q (qs_of c) -> ~ In q (firstn ss (map fst st))).
      { intros q Hq Hin. apply (qs_char (c, p) q W) in Hq.
        rewrite (Hss q (c, p) Hin (or_introl eq_refl)) in Hq. discriminate. }
      pose proof (places_spec ss (c, p) (qs_of c) st [] (qs_sorted c) Hs Hne Hnew Hssq) as P.
      cbn zeta in P. destruct (places ss (c, p) (qs_of c) st []) as [st1 inds] eqn:EP.
      cbn [fst snd] in P.
      destruct P as [Hs1 [Hne1 [Hb1 [[added [Ha1 [Ha2 Ha3]]] [extra [He1 He2]]]]]].
      cbn [app] in Ha1. subst inds.
      destruct (min_list added) as [m|] eqn:Em.
      2:{ apply min_list_none in Em. exfalso. apply (Ha2 (qs_nonempty (c, p) W)). exact Em. }
      apply min_list_some in Em. destruct Em as [Hm Hmin].
      assert (Hb1' : forall k, blook k st1 = filter (um k) (dn ++ [(c, p)])).
      { intros k. rewrite Hb1, Hb, filter_app. cbn [filter]. f_equal.
        destruct (um k (c, p)) eqn:E.
        - apply (qs_char (c, p) k W) in E. apply existsb_eqb_in in E. cbn [fst] in E. rewrite E. reflexivity.
        - destruct (existsb (Z.eqb k) (qs_of c)) eqn:E2; [|reflexivity].
          apply existsb_eqb_in in E2. apply (qs_char (c, p) k W) in E2. congruence. }
      destruct (IH (dn ++ [(c, p)]) st1 m Hsl' Hord' Hs1 Hne1 Hb1') as [st' [E [S' [N' B']]]].
      + (* keys before the new search_start cannot receive later elements *)
        intros k x' Hk Hx'. destruct (um k x') eqn:U'; [|reflexivity]. exfalso.
        apply firstn_in_nth in Hk. destruct Hk as [pos [Hpos Hnth]].
        assert (Hkq : ~ In k (qs_of c)).
        { intros Hq. destruct (Ha3 k Hq) as [i [Hi Hn]]. specialize (Hmin i Hi).
          assert (pos < i)%nat by lia.
          pose proof (ssorted_nth_lt _ Hs1 pos i k k H Hnth Hn). lia. }
        assert (um k (c, p) = false) as Uc.
        { destruct (um k (c, p)) eqn:E1; [|reflexivity]. exfalso. apply Hkq.
          apply (qs_char (c, p) k W). exact E1. }
        assert (In k (map fst st1)) as Hkin by (eapply nth_error_In; eauto).
        pose proof (blook_present k st1 Hne1 Hkin) as Hb'. rewrite Hb1' in Hb'.
        apply filter_nonempty_ex in Hb'. destruct Hb' as [x0 [H0 U0]].
        apply in_app_or in H0. destruct H0 as [H0|[H0|[]]]; [|subst x0; congruence].
        assert (um k (c, p) = true); [|congruence].
        apply (um_convex k x0 (c, p) x' U0 U'). cbn [fst].
        specialize (Hord x0 (c, p) H0 (or_introl eq_refl)). cbn [fst] in Hord.
        specialize (Hlt (fst x') (in_map fst _ _ Hx')). lia.
      + exists st'. rewrite <- app_assoc in B'. auto.
  Qed.
End Uniform.

(* two bucket lists with strictly ascending keys, no empty bucket and the same lookup are equal *)
Lemma assoc_ext : forall s1 s2 : buckets,
  ssorted (map fst s1) = true -> ssorted (map fst s2) = true ->
  nonempty_b s1 -> nonempty_b s2 ->
  (forall k, blook k s1 = blook k s2) -> s1 = s2.
Proof.
  induction s1 as [|[k1 b1] r1 IH]; intros [|[k2 b2] r2] H1 H2 N1 N2 Hb.
  - reflexivity.
  - exfalso. specialize (Hb k2). cbn [blook] in Hb. rewrite Z.eqb_refl in Hb.
    apply (N2 k2 b2 (or_introl eq_refl)). congruence.
  - exfalso. specialize (Hb k1). cbn [blook] in Hb. rewrite Z.eqb_refl in Hb.
    apply (N1 k1 b1 (or_introl eq_refl)). congruence.
  - cbn [map fst] in H1, H2.
    pose proof (ssorted_cons_lt _ _ H1) as L1. pose proof (ssorted_cons_lt _ _ H2) as L2.
    assert (k1 = k2) as ->.
    { destruct (Z.lt_trichotomy k1 k2) as [Hlt|[E|Hgt]]; [|exact E|]; exfalso.
      - pose proof (Hb k1) as E. cbn [blook] in E. rewrite Z.eqb_refl in E.
        replace (k1 =? k2) with false in E by lia.
        rewrite (blook_absent k1 r2) in E.
        + apply (N1 k1 b1 (or_introl eq_refl)). exact E.
        + intros Hin. specialize (L2 k1 Hin). lia.
      - pose proof (Hb k2) as E. cbn [blook] in E. rewrite Z.eqb_refl in E.
        replace (k2 =? k1) with false in E by lia.
        rewrite (blook_absent k2 r1) in E.
        + apply (N2 k2 b2 (or_introl eq_refl)). congruence.
        + intros Hin. specialize (L1 k2 Hin). lia. }
    assert (b1 = b2) as ->.
    { specialize (Hb k2). cbn [blook] in Hb. rewrite Z.eqb_refl in Hb. exact Hb. }
    f_equal. apply IH.
    + apply (ssorted_cons _ _ H1).
    + apply (ssorted_cons _ _ H2).
    + intros k b Hin. apply (N1 k b). right. exact Hin.
    + intros k b Hin. apply (N2 k b). right. exact Hin.
    + intros k. specialize (Hb k). cbn [blook] in Hb.
      destruct (Z.eqb_spec k k2) as [Ek|Hne]; [|exact Hb]. rewrite Ek.
      rewrite (blook_absent k2 r1), (blook_absent k2 r2); [reflexivity| |].
      * intros Hin. specialize (L2 k2 Hin). lia.
      * intros Hin. specialize (L1 k2 Hin). lia.
Qed.

Section UniformRef.
  Variables (step pre post a0 a1 : Z) (pes : list elem).

  (* the reference map as a bucket list *)
  Definition rb1 (se : Z * option Z) : buckets :=
    match filter (member pre post a0 a1 (fst se) (snd se)) pes with
    | [] => []
    | b => [(fst se, b)]
    end.
  Definition Rb (bs : list (Z * option Z)) : buckets := flat_map rb1 bs.

  Definition uniform_ends (bs : list (Z * option Z)) : Prop :=
    forall s e, In (s, e) bs -> e = Some (s + step).

  Lemma Rb_elems rel bs : uniform_ends bs ->
    map (uni_elem step a0 a1 rel) (Rb bs) = ref_parts pre post rel (a0, a1) pes bs.
  Proof.
    unfold Rb, ref_parts. cbn [fst snd].
    induction bs as [|[s e] bs IH]; intros Hu; [reflexivity|].
    cbn [flat_map]. rewrite map_app, IH by (intros s' e' H; apply Hu; right; exact H).
    f_equal. unfold rb1, ref_part. cbn [fst snd].
    rewrite (Hu s e (or_introl eq_refl)).
    destruct (filter (member pre post a0 a1 s (Some (s + step))) pes); reflexivity.
  Qed.

  Lemma Rb_nonempty bs : nonempty_b (Rb bs).
  Proof.
    intros k b Hin. unfold Rb in Hin. apply in_flat_map in Hin. destruct Hin as [se [_ Hin]].
    unfold rb1 in Hin. destruct (filter (member pre post a0 a1 (fst se) (snd se)) pes) eqn:E; [destruct Hin|].
    destruct Hin as [Hin|[]]. injection Hin as <- <-. discriminate.
  Qed.

  Lemma Rb_keys_sub bs k : In k (map fst (Rb bs)) -> In k (map fst bs).
  Proof.
    intros H. apply in_map_iff in H. destruct H as [[k' b] [<- Hin]].
    unfold Rb in Hin. apply in_flat_map in Hin. destruct Hin as [se [Hse Hin]].
    unfold rb1 in Hin. destruct (filter (member pre post a0 a1 (fst se) (snd se)) pes); [destruct Hin|].
    destruct Hin as [Hin|[]]. injection Hin as <- _. cbn [fst]. apply (in_map fst _ _ Hse).
  Qed.

  Lemma Rb_sorted bs : ssorted (map fst bs) = true -> ssorted (map fst (Rb bs)) = true.
  Proof.
    induction bs as [|[s e] bs IH]; intros Hs; [reflexivity|].
    cbn [map fst] in Hs. pose proof (ssorted_cons _ _ Hs) as Hs'.
    unfold Rb. cbn [flat_map]. fold (Rb bs). unfold rb1 at 1. cbn [fst snd].
    destruct (filter (member pre post a0 a1 s e) pes); [apply IH; exact Hs'|].
    cbn [app map fst]. apply ssorted_cons_intro; [apply IH; exact Hs'|].
    intros k Hk. apply Rb_keys_sub in Hk. apply (ssorted_cons_lt _ _ Hs). exact Hk.
  Qed.

  Lemma Rb_blook bs k : ssorted (map fst bs) = true -> uniform_ends bs ->
    blook k (Rb bs) = if existsb (Z.eqb k) (map fst bs)
                      then filter (member pre post a0 a1 k (Some (k + step))) pes else [].
  Proof.
    induction bs as [|[s e] bs IH]; intros Hs Hu; [reflexivity|].
    cbn [map fst] in Hs. pose proof (ssorted_cons _ _ Hs) as Hs'.
    pose proof (ssorted_cons_lt _ _ Hs) as Hlt.
    assert (uniform_ends bs) as Hu' by (intros s' e' H; apply Hu; right; exact H).
    specialize (IH Hs' Hu'). rewrite (Hu s e (or_introl eq_refl)).
    unfold Rb. cbn [flat_map map fst existsb]. fold (Rb bs). unfold rb1 at 1. cbn [fst snd].
    destruct (Z.eqb_spec k s) as [->|Hne]; cbn [orb].
    - assert (existsb (Z.eqb s) (map fst bs) = false) as En.
      { destruct (existsb (Z.eqb s) (map fst bs)) eqn:E; [|reflexivity].
        apply existsb_eqb_in in E. specialize (Hlt s E). lia. }
      rewrite En in IH.
      destruct (filter (member pre post a0 a1 s (Some (s + step))) pes) as [|y b] eqn:E.
      + cbn [app]. exact IH.
      + cbn [app blook]. rewrite Z.eqb_refl. reflexivity.
    - destruct (filter (member pre post a0 a1 s (Some (s + step))) pes) as [|y b] eqn:E.
      + cbn [app]. exact IH.
      + cbn [app blook]. replace (k =? s) with false by lia. exact IH.
  Qed.
End UniformRef.

Lemma uni_bounds_ends step a0 a1 : 0 < step -> uniform_ends step (uni_bounds step a0 a1).
Proof.
  intros Hs s e Hin. apply (uni_bounds_in step a0 a1 s e Hs) in Hin.
  destruct Hin as [k [_ [E _]]]. exact E.
Qed.

Theorem uniform_is_ref step pre post rel d a es :
  0 < step -> 0 <= pre -> 0 <= post -> (es <> [] -> fst a < snd a) ->
  ssorted (map fst es) = true ->
  split_uniform step pre post rel d a es
  = Some (ref_parts pre post rel a (present d es) (uni_bounds step (fst a) (snd a))).
Proof.
  intros Hstep Hpre Hpost Ha Hes. unfold split_uniform.
  destruct es as [|e0 es']; [rewrite ref_parts_nil; reflexivity|].
  specialize (Ha ltac:(discriminate)). destruct a as [a0 a1]. cbn [fst snd] in *.
  set (pes := present d (e0 :: es')).
  destruct (uni_outer_spec step pre post a0 a1 Hstep Hpre Hpost Ha pes [] [] O) as [st [E [S [N B]]]].
  - apply ssorted_filter_fst. exact Hes.
  - intros x0 x [].
  - reflexivity.
  - intros k b [].
  - intros k. reflexivity.
  - intros k x' [].
  - rewrite E. f_equal. cbn [app] in B.
    assert (st = Rb pre post a0 a1 pes (uni_bounds step a0 a1)) as ->.
    { apply assoc_ext; [exact S| |exact N| |].
      - apply Rb_sorted. apply uni_bounds_sorted. exact Hstep.
      - apply Rb_nonempty.
      - intros k. rewrite B.
        rewrite (Rb_blook step pre post a0 a1 pes (uni_bounds step a0 a1) k
                   (uni_bounds_sorted step a0 a1 Hstep) (uni_bounds_ends step a0 a1 Hstep)).
        fold (inb step a0 a1 k). unfold um.
        destruct (inb step a0 a1 k); [reflexivity|].
        apply filter_all_false. intros x _. reflexivity. }
    apply Rb_elems. apply uni_bounds_ends. exact Hstep.
Qed.
