(* Proofs tying Model/C12Check.v (the executable C12 oracle) to Proofs/C12EqP.v. *)
From Coq Require Import ZArith List Bool Lia.
From FT Require Import Model.Base Model.Obs Model.C12Eq Model.C12Check
                       Proofs.ObsP Proofs.C12EqP.
Import ListNotations.
Open Scope Z_scope.

(* ------------------------------------------------------------------ decision procedures *)
Lemma zs_eqb_spec x y : zs_eqb x y = true <-> x = y.
Proof.
  revert y. induction x as [|a x IH]; intros [|b y]; simpl; try (split; congruence).
  rewrite andb_true_iff, Z.eqb_eq, IH. split; [intros [-> ->]; reflexivity|].
  intros H. inversion H. split; reflexivity.
Qed.

Lemma content_eqb_spec x y : content_eqb x y = true <-> x = y.
Proof.
  revert y. induction x as [|[p v] x IH]; intros [|[q w] y]; simpl; try (split; congruence).
  rewrite !andb_true_iff, zs_eqb_spec, Z.eqb_eq, IH. split.
  - intros [[-> ->] ->]. reflexivity.
  - intros H. inversion H. auto.
Qed.

Lemma same_content_spec x y :
  same_content x y = true <-> content (it_d x) (it_tree x) = content (it_d y) (it_tree y).
Proof. apply content_eqb_spec. Qed.

Lemma bool_eq_iff (a b : bool) : (a = true <-> b = true) -> a = b.
Proof. destruct a, b; intros [H1 H2]; auto. symmetry; auto. Qed.

(* ------------------------------------------------------------------ snapshots *)
Lemma V_to_of_tree : forall t n, depth_ok n t = true -> V_to_tree n (V_of_tree t) = Some t.
Proof.
  induction t as [v|es IH] using tree_ind'; intros n H.
  - destruct n; [reflexivity|discriminate].
  - destruct n as [|n]; [discriminate|]. cbn [depth_ok] in H.
    cbn [V_of_tree V_to_tree].
    match goal with |- option_map Node ?X = _ => assert (X = Some es) as -> end; [|reflexivity].
    induction es as [|[c t] es IHes]; [reflexivity|].
    inversion IH as [|? ? Ht Hes]; subst. simpl in Ht.
    apply forallb_cons in H. destruct H as [H1 H2]. simpl in H1.
    cbn [map fst snd]. rewrite (Ht n H1), (IHes Hes H2). reflexivity.
Qed.

(* ------------------------------------------------------------------ nonEmpty is canonical *)
Lemma non_empty_no_default d : forall t,
  is_empty d t = false -> no_explicit_default d (non_empty d t) = true.
Proof.
  induction t as [v|es IH] using tree_ind'; intros E.
  - simpl in *. rewrite E. reflexivity.
  - clear E. rewrite non_empty_node. cbn [no_explicit_default].
    induction es as [|[c t] es IHes]; [reflexivity|].
    inversion IH as [|? ? Ht Hes]; subst. simpl in Ht.
    cbn [non_empty_list]. destruct (is_empty d t) eqn:E.
    + apply IHes, Hes.
    + apply forallb_cons. split; [apply Ht; reflexivity|apply IHes, Hes].
Qed.

Lemma non_empty_list_no_default d es :
  no_explicit_default d (Node (non_empty_list d es)) = true.
Proof.
  cbn [no_explicit_default].
  induction es as [|[c t] es IHes]; [reflexivity|].
  cbn [non_empty_list]. destruct (is_empty d t) eqn:E; [exact IHes|].
  apply forallb_cons. split; [apply non_empty_no_default, E|exact IHes].
Qed.

Lemma non_empty_no_empty_below d : forall t, no_empty_below d (non_empty d t) = true.
Proof.
  induction t as [v|es IH] using tree_ind'; [reflexivity|].
  rewrite non_empty_node. cbn [no_empty_below].
  induction es as [|[c t] es IHes]; [reflexivity|].
  inversion IH as [|? ? Ht Hes]; subst. simpl in Ht.
  cbn [non_empty_list]. destruct (is_empty d t) eqn:E; [apply IHes, Hes|].
  apply forallb_cons. split; [|apply IHes, Hes].
  cbn [snd]. rewrite Ht, andb_true_r.
  destruct (non_empty d t) eqn:N; [reflexivity|].
  rewrite <- N, non_empty_is_empty, E. reflexivity.
Qed.

Lemma non_empty_canonical d es : canonical d (non_empty d (Node es)) = true.
Proof.
  unfold canonical. rewrite non_empty_no_empty_below, non_empty_node, non_empty_list_no_default.
  reflexivity.
Qed.

(* ------------------------------------------------------------------ the model meets the oracle *)
Lemma item_wf_root n it : item_wf n it = true -> wf_root n (it_tree it).
Proof.
  unfold item_wf, wf_root. destruct (it_tree it) as [v|es]; [discriminate|].
  intros H. apply andb_true_iff in H. destruct H as [D S]. eauto.
Qed.

Lemma item_model_holds n it : item_wf n it = true -> item_holds n it (item_model it) = true.
Proof.
  intros W. pose proof (item_wf_root n it W) as R.
  unfold item_holds, item_model.
  destruct R as [[es Hes] [D S]].
  assert (R : wf_root n (it_tree it)) by (split; eauto).
  destruct (non_empty_eq n (it_d it) _ R) as [N1 N2].
  destruct (deep_copy_eq n (it_d it) _ R) as [C1 C2].
  rewrite N1, N2, C1, C2.
  assert (T1 : tensor_eq (it_ids it) (it_ids it) (it_d it) (it_d it)
                         (deep_copy (it_tree it)) (it_tree it) = true)
    by (rewrite deep_copy_id; apply (tensor_eq_spec n _ _ _ _ _ _ R R); auto).
  assert (T2 : tensor_eq (it_ids it) (it_ids it) (it_d it) (it_d it)
                         (it_tree it) (deep_copy (it_tree it)) = true)
    by (rewrite deep_copy_id; apply (tensor_eq_spec n _ _ _ _ _ _ R R); auto).
  rewrite T1, T2.
  rewrite (V_to_of_tree _ n (non_empty_depth _ _ _ D)).
  rewrite non_empty_content, (proj2 (content_eqb_spec _ _) eq_refl).
  assert (Hc : canonical (it_d it) (non_empty (it_d it) (it_tree it)) = true)
    by (rewrite Hes; apply non_empty_canonical).
  rewrite Hc.
  rewrite <- count_values_content, !V_eqb_refl.
  assert (is_empty (it_d it) (it_tree it)
          = match content (it_d it) (it_tree it) with [] => true | _ :: _ => false end) as ->.
  { pose proof (is_empty_content (it_d it) (it_tree it)) as H.
    destruct (content (it_d it) (it_tree it)); destruct (is_empty (it_d it) (it_tree it));
      try reflexivity.
    - apply H; reflexivity.
    - destruct H as [H _]. discriminate (H eq_refl). }
  rewrite V_eqb_refl. reflexivity.
Qed.

Lemma is_empty_spec d t :
  is_empty d t = match content d t with [] => true | _ :: _ => false end.
Proof.
  pose proof (is_empty_content d t) as H.
  destruct (content d t); destruct (is_empty d t); try reflexivity.
  - apply H; reflexivity.
  - destruct H as [H _]. discriminate (H eq_refl).
Qed.

Lemma copy_row_holds n it :
  item_wf n it = true -> copy_holds n it (copy_row (it_d it) (it_tree it)) = true.
Proof.
  intros W. pose proof (item_wf_root n it W) as R.
  unfold copy_holds, copy_row. rewrite deep_copy_id.
  destruct R as [[es Hes] [D S]].
  assert (R : wf_root n (it_tree it)) by (split; eauto).
  rewrite (fiber_eq_refl n _ _ R).
  rewrite (V_to_of_tree _ n (non_empty_depth _ _ _ D)).
  rewrite non_empty_content, (proj2 (content_eqb_spec _ _) eq_refl).
  assert (Hc : canonical (it_d it) (non_empty (it_d it) (it_tree it)) = true)
    by (rewrite Hes; apply non_empty_canonical).
  rewrite Hc, <- count_values_content, <- is_empty_spec, !V_eqb_refl. reflexivity.
Qed.

Lemma copies_model_hold n it :
  item_wf n it = true -> copies_hold n it (copies_model it) = true.
Proof.
  intros W. unfold copies_hold, copies_model. rewrite repeat_length, Nat.eqb_refl.
  apply forallb_forall. intros x Hx. apply repeat_spec in Hx. subst x.
  apply copy_row_holds, W.
Qed.

Lemma forall2b_map {A} (f : A -> V -> bool) (g : A -> V) l :
  (forall x, In x l -> f x (g x) = true) -> forall2b f l (map g l) = true.
Proof.
  induction l as [|x l IH]; intros H; [reflexivity|].
  simpl. rewrite (H x (or_introl eq_refl)), IH; [reflexivity|].
  intros y Hy. apply H. right. exact Hy.
Qed.

Lemma in_pairs {A} (l : list A) x y : In (x, y) (pairs l) -> In x l /\ In y l.
Proof.
  unfold pairs. intros H. apply in_flat_map in H. destruct H as [x' [Hx H]].
  apply in_map_iff in H. destruct H as [y' [E Hy]]. inversion E; subst. auto.
Qed.

Lemma c12_model_holds c :
  c12_wf c = true -> holds c12_checker c (model c12_checker c) = true.
Proof.
  intros W. cbn [holds model c12_checker]. unfold c12_holds, c12_model, Vl.
  unfold c12_wf in W. rewrite forallb_forall in W.
  rewrite !andb_true_iff. repeat split.
  - apply forall2b_map. intros x Hx. apply item_model_holds, W, Hx.
  - apply forall2b_map. intros x Hx. apply copies_model_hold, W, Hx.
  - apply forall2b_map. intros [x y] Hxy. apply in_pairs in Hxy. destruct Hxy as [Hx Hy].
    cbn [fst snd]. apply V_eqb_spec. f_equal. apply bool_eq_iff.
    rewrite same_content_spec.
    apply (fiber_eq_content_wf (k_depth c)); apply item_wf_root, W; assumption.
  - apply forall2b_map. intros [x y] Hxy. apply in_pairs in Hxy. destruct Hxy as [Hx Hy].
    cbn [fst snd]. apply V_eqb_spec. f_equal. apply bool_eq_iff.
    rewrite andb_true_iff, zs_eqb_spec, same_content_spec.
    apply (tensor_eq_spec (k_depth c)); apply item_wf_root, W; assumption.
Qed.

(* ------------------------------------------------------------------ what the oracle means *)
Lemma forall2b_Forall2 {A B} (f : A -> B -> bool) x y :
  forall2b f x y = true <-> Forall2 (fun a b => f a b = true) x y.
Proof.
  revert y. induction x as [|a x IH]; intros [|b y]; simpl.
  - split; [constructor|reflexivity].
  - split; [discriminate|intros H; inversion H].
  - split; [discriminate|intros H; inversion H].
  - rewrite andb_true_iff, IH. split.
    + intros [H1 H2]. constructor; assumption.
    + intros H. inversion H; subst. auto.
Qed.

Lemma forall2b_eq_map {A} (g : A -> V) l vs :
  forall2b (fun x v => V_eqb v (g x)) l vs = true <-> vs = map g l.
Proof.
  revert vs. induction l as [|x l IH]; intros [|v vs]; simpl; try (split; congruence).
  rewrite andb_true_iff, V_eqb_spec, IH. split; [intros [-> ->]; reflexivity|].
  intros H. inversion H. auto.
Qed.

Lemma is_one_spec v : is_one v = true <-> v = VZ 1.
Proof. apply V_eqb_spec. Qed.

(* an observed per-tree row satisfies the oracle iff it says: empty exactly when the tree has
   no non-default point; both counts are the number of such points; the observed pruned copy
   is a tree of the case's depth with the same content, no explicit default and no empty
   sub-fiber; and the four comparisons (pruned copy / deep copy against the original, both
   ways) returned True *)
Lemma item_holds_meaning n it e cnt ne ne1 ne2 dc1 dc2 tcnt tdc1 tdc2 s1 s2 :
  item_holds n it (VL [e; cnt; ne; ne1; ne2; dc1; dc2; tcnt; tdc1; tdc2; s1; s2]) = true <->
  let ct := content (it_d it) (it_tree it) in
  e = Vb (match ct with [] => true | _ :: _ => false end)
  /\ cnt = VZ (Z.of_nat (length ct)) /\ tcnt = VZ (Z.of_nat (length ct))
  /\ (exists t', V_to_tree n ne = Some t' /\ content (it_d it) t' = ct
                 /\ no_explicit_default (it_d it) t' = true
                 /\ no_empty_below (it_d it) t' = true)
  /\ ne1 = VZ 1 /\ ne2 = VZ 1 /\ dc1 = VZ 1 /\ dc2 = VZ 1 /\ tdc1 = VZ 1 /\ tdc2 = VZ 1.
Proof.
  cbn zeta. unfold item_holds.
  rewrite !andb_true_iff, !V_eqb_spec, !is_one_spec.
  destruct (V_to_tree n ne) as [t'|].
  - unfold canonical. rewrite !andb_true_iff, content_eqb_spec. split.
    + intros [[[[[[[[[H1 H2] H3] [H4 [H5 H6]]] H7] H8] H9] H10] H11] H12].
      repeat split; try assumption. exists t'. auto.
    + intros [H1 [H2 [H3 [[t'' [E [H4 [H5 H6]]]] [H7 [H8 [H9 [H10 [H11 H12]]]]]]]]].
      inversion E; subst t''. repeat split; assumption.
  - split.
    + intros [[[[[[[[[_ _] _] F] _] _] _] _] _] _]. discriminate.
    + intros [_ [_ [_ [[t'' [E _]] _]]]]. discriminate.
Qed.

(* a row of the copy block satisfies the oracle iff the copy compared equal to its original both
   ways and, used on its own, reported the emptiness, the count and a pruned form that the
   original's content dictates *)
Lemma copy_holds_meaning n it e1 e2 emp cnt ne s :
  copy_holds n it (VL [e1; e2; emp; cnt; ne; s]) = true <->
  let ct := content (it_d it) (it_tree it) in
  e1 = VZ 1 /\ e2 = VZ 1
  /\ emp = Vb (match ct with [] => true | _ :: _ => false end)
  /\ cnt = VZ (Z.of_nat (length ct))
  /\ (exists t', V_to_tree n ne = Some t' /\ content (it_d it) t' = ct
                 /\ no_explicit_default (it_d it) t' = true
                 /\ no_empty_below (it_d it) t' = true).
Proof.
  cbn zeta. unfold copy_holds.
  rewrite !andb_true_iff, !V_eqb_spec, !is_one_spec.
  destruct (V_to_tree n ne) as [t'|].
  - unfold canonical. rewrite !andb_true_iff, content_eqb_spec. split.
    + intros [[[[H1 H2] H3] H4] [H5 [H6 H7]]]. repeat split; try assumption. exists t'. auto.
    + intros [H1 [H2 [H3 [H4 [t'' [E [H5 [H6 H7]]]]]]]]. inversion E; subst t''.
      repeat split; assumption.
  - split.
    + intros [_ F]. discriminate.
    + intros [_ [_ [_ [_ [t'' [E _]]]]]]. discriminate.
Qed.

Lemma copies_hold_meaning n it o :
  copies_hold n it o = true <->
  exists rows, o = VL rows /\ length rows = n_copy_forms
               /\ Forall (fun row => copy_holds n it row = true) rows.
Proof.
  unfold copies_hold. destruct o as [z|rows].
  - split; [discriminate|]. intros [rows [E _]]. discriminate.
  - rewrite andb_true_iff, Nat.eqb_eq, forallb_forall, <- Forall_forall. split.
    + intros [H1 H2]. exists rows. auto.
    + intros [rows' [E [H1 H2]]]. inversion E; subst. auto.
Qed.

Lemma c12_holds_meaning c o :
  c12_holds c o = true <->
  exists items cps,
    o = VL [VL items;
            VL (map (fun xy => Vb (same_content (fst xy) (snd xy))) (pairs (k_items c)));
            VL (map (fun xy => Vb (zs_eqb (it_ids (fst xy)) (it_ids (snd xy))
                                   && same_content (fst xy) (snd xy))) (pairs (k_items c)));
            VL cps]
    /\ Forall2 (fun it row => item_holds (k_depth c) it row = true) (k_items c) items
    /\ Forall2 (fun it blk => copies_hold (k_depth c) it blk = true) (k_items c) cps.
Proof.
  unfold c12_holds. split.
  - intros H.
    destruct o as [z|[|[z1|items] [|[z2|eqs] [|[z3|teqs] [|[z4|cps] [|? ?]]]]]]; try discriminate.
    rewrite !andb_true_iff in H. destruct H as [[[H1 H4] H2] H3].
    apply forall2b_Forall2 in H1. apply forall2b_Forall2 in H4.
    apply (forall2b_eq_map (fun xy => Vb (same_content (fst xy) (snd xy)))) in H2.
    apply (forall2b_eq_map (fun xy => Vb (zs_eqb (it_ids (fst xy)) (it_ids (snd xy))
                                          && same_content (fst xy) (snd xy)))) in H3.
    subst. exists items, cps. split; [reflexivity|split; assumption].
  - intros [items [cps [-> [H H']]]]. rewrite !andb_true_iff. repeat split.
    + apply forall2b_Forall2, H.
    + apply forall2b_Forall2, H'.
    + apply (forall2b_eq_map (fun xy => Vb (same_content (fst xy) (snd xy)))). reflexivity.
    + apply (forall2b_eq_map (fun xy => Vb (zs_eqb (it_ids (fst xy)) (it_ids (snd xy))
                                            && same_content (fst xy) (snd xy)))). reflexivity.
Qed.
