(* Proofs: equal content lists <-> equal value at every point (trees read as maps), and
   uniqueness of the canonical representation. *)
From Coq Require Import ZArith List Bool Lia.
From FT Require Import Model.Base Model.Obs Model.C12Eq Model.C12Check
                       Proofs.C12EqP Proofs.C12CheckP.
Import ListNotations.
Open Scope Z_scope.

(* ------------------------------------------------------------------ lookup *)
Lemma lookup_first c t es : lookup c ((c, t) :: es) = Some t.
Proof. simpl. rewrite Z.eqb_refl. reflexivity. Qed.

Lemma lookup_other c c0 t es : c <> c0 -> lookup c ((c0, t) :: es) = lookup c es.
Proof. intros H. simpl. destruct (Z.eqb_spec c c0); [contradiction|reflexivity]. Qed.

Lemma lookup_none_gt c es : Forall (fun x => c < x) (map fst es) -> lookup c es = None.
Proof.
  induction es as [|[c0 t] es IH]; intros H; [reflexivity|].
  simpl in H. inversion H; subst. rewrite lookup_other by lia. apply IH. assumption.
Qed.

Lemma value_at_node d c p es :
  value_at d (c :: p) (Node es)
  = match lookup c es with Some s => value_at d p s | None => d end.
Proof. reflexivity. Qed.

(* ------------------------------------------------------------------ assoc *)
Lemma assoc_app p X Y :
  assoc p (X ++ Y) = match assoc p X with Some v => Some v | None => assoc p Y end.
Proof.
  induction X as [|[q v] X IH]; [reflexivity|]. simpl.
  destruct (zs_eqb p q); [reflexivity|exact IH].
Qed.

Lemma assoc_map_cons c c0 p (X : list (list Z * Z)) :
  assoc (c :: p) (map (fun pv => (c0 :: fst pv, snd pv)) X)
  = if Z.eqb c c0 then assoc p X else None.
Proof.
  induction X as [|[q v] X IH]; [destruct (Z.eqb c c0); reflexivity|].
  cbn [map assoc fst snd zs_eqb]. rewrite IH.
  destruct (Z.eqb c c0); [|reflexivity]. reflexivity.
Qed.

Lemma assoc_heads_gt c p R : heads_gt c R -> assoc (c :: p) R = None.
Proof.
  induction R as [|[q v] R IH]; intros H; [reflexivity|].
  inversion H as [|? ? Hq HR]; subst. simpl in Hq. destruct q as [|h q]; [contradiction|].
  cbn [assoc zs_eqb]. destruct (Z.eqb_spec c h); [lia|]. cbn [andb]. apply IH, HR.
Qed.

(* the value at a point is read off the content list *)
Lemma value_at_assoc d : forall t n p,
  depth_ok n t = true -> sorted_t t = true -> length p = n ->
  value_at d p t = match assoc p (content d t) with Some v => v | None => d end.
Proof.
  induction t as [v|es IH] using tree_ind'; intros n p D S L.
  - destruct n; [|discriminate]. destruct p; [|discriminate]. simpl.
    destruct (Z.eqb_spec v d) as [->|Hne]; reflexivity.
  - destruct n as [|n]; [discriminate|]. destruct p as [|c p]; [discriminate|].
    injection L as L. rewrite value_at_node, content_node.
    cbn [depth_ok sorted_t] in D, S. apply andb_true_iff in S. destruct S as [S S'].
    induction es as [|[c0 t0] es IHes]; [reflexivity|].
    inversion IH as [|? ? Ht Hes]; subst. simpl in Ht.
    apply forallb_cons in D. destruct D as [D0 D]. simpl in D0.
    apply forallb_cons in S'. destruct S' as [S0 S']. simpl in S0.
    simpl in S. apply ssorted_cons_inv in S. destruct S as [S Hgt].
    rewrite node_content_cons, assoc_app, assoc_map_cons.
    destruct (Z.eqb_spec c c0) as [->|Hne].
    + rewrite lookup_first, (Ht (length p) p D0 S0 eq_refl).
      destruct (assoc p (content d t0)); [reflexivity|].
      rewrite (assoc_heads_gt c0 p _ (node_content_heads d c0 es Hgt)). reflexivity.
    + rewrite lookup_other by assumption. apply IHes; assumption.
Qed.

(* a tree that reads as the default everywhere has no content *)
Lemma all_default_content d : forall n t,
  depth_ok n t = true -> sorted_t t = true ->
  (forall p, length p = n -> value_at d p t = d) -> content d t = [].
Proof.
  induction n as [|n IHn]; intros t D S H.
  - destruct t as [v|es]; [|discriminate]. specialize (H [] eq_refl). simpl in H.
    simpl. subst v. rewrite Z.eqb_refl. reflexivity.
  - destruct t as [v|es]; [discriminate|]. rewrite content_node.
    cbn [depth_ok sorted_t] in D, S. apply andb_true_iff in S. destruct S as [S S'].
    induction es as [|[c t] es IHes]; [reflexivity|].
    apply forallb_cons in D. destruct D as [D0 D]. simpl in D0.
    apply forallb_cons in S'. destruct S' as [S0 S']. simpl in S0.
    simpl in S. apply ssorted_cons_inv in S. destruct S as [S Hgt].
    rewrite node_content_cons.
    rewrite (IHn t D0 S0), IHes; try assumption; [reflexivity| |].
    + intros [|c' p] L; [discriminate|]. injection L as L.
      specialize (H (c' :: p) (f_equal Datatypes.S L)). rewrite value_at_node in *.
      destruct (Z.eqb_spec c' c) as [->|Hne].
      * rewrite (lookup_none_gt c es Hgt). reflexivity.
      * rewrite lookup_other in H by assumption. exact H.
    + intros p L. specialize (H (c :: p) (f_equal Datatypes.S L)).
      rewrite value_at_node, lookup_first in H. exact H.
Qed.

(* equal at every point => equal content lists (sorted trees of the same depth) *)
Lemma pointwise_content d : forall n a b,
  depth_ok n a = true -> depth_ok n b = true -> sorted_t a = true -> sorted_t b = true ->
  (forall p, length p = n -> value_at d p a = value_at d p b) ->
  content d a = content d b.
Proof.
  induction n as [|n IHn]; intros a b Da Db Sa Sb H.
  - destruct a as [va|ea]; [|discriminate]. destruct b as [vb|eb]; [|discriminate].
    specialize (H [] eq_refl). simpl in H. subst. reflexivity.
  - destruct a as [va|ea]; [discriminate|]. destruct b as [vb|eb]; [discriminate|].
    revert eb Db Sb H. induction ea as [|[ca ta] ea IHa]; intros eb Db Sb H.
    + symmetry. apply (all_default_content d (S n)); try assumption.
      intros p L. rewrite <- (H p L). destruct p; reflexivity.
    + pose proof Da as Da0. pose proof Sa as Sa0.
      cbn [depth_ok sorted_t] in Da, Sa. apply andb_true_iff in Sa. destruct Sa as [Sa Sa'].
      apply forallb_cons in Da. destruct Da as [Dta Da]. simpl in Dta.
      apply forallb_cons in Sa'. destruct Sa' as [Sta Sa']. simpl in Sta.
      simpl in Sa. apply ssorted_cons_inv in Sa. destruct Sa as [Sa Hgta].
      assert (Wa' : depth_ok (S n) (Node ea) = true /\ sorted_t (Node ea) = true).
      { cbn [depth_ok sorted_t]. rewrite Da, Sa, Sa'. auto. }
      destruct Wa' as [Da' Sa''].
      induction eb as [|[cb tb] eb IHb].
      * apply (all_default_content d (S n)); try assumption.
        intros p L. rewrite (H p L). destruct p; reflexivity.
      * pose proof Db as Db0. pose proof Sb as Sb0.
        cbn [depth_ok sorted_t] in Db, Sb. apply andb_true_iff in Sb. destruct Sb as [Sb Sb'].
        apply forallb_cons in Db. destruct Db as [Dtb Db]. simpl in Dtb.
        apply forallb_cons in Sb'. destruct Sb' as [Stb Sb']. simpl in Stb.
        simpl in Sb. apply ssorted_cons_inv in Sb. destruct Sb as [Sb Hgtb].
        assert (Wb' : depth_ok (S n) (Node eb) = true /\ sorted_t (Node eb) = true).
        { cbn [depth_ok sorted_t]. rewrite Db, Sb, Sb'. auto. }
        destruct Wb' as [Db' Sb''].
        rewrite !content_node, !node_content_cons.
        destruct (Z.lt_trichotomy ca cb) as [Hlt|[Heq|Hgt]].
        -- (* ca < cb: ta reads as the default everywhere *)
           assert (Ea : content d ta = []).
           { apply (all_default_content d n); try assumption. intros p L.
             specialize (H (ca :: p) (f_equal Datatypes.S L)).
             rewrite !value_at_node, lookup_first in H. rewrite H.
             rewrite lookup_other by lia.
             rewrite (lookup_none_gt ca eb); [reflexivity|].
             eapply Forall_impl; [|exact Hgtb]. intros x Hx. simpl in Hx. lia. }
           rewrite Ea. cbn [map app]. rewrite <- node_content_cons.
           apply (IHa Da' Sa'' ((cb, tb) :: eb) Db0 Sb0).
           intros [|c p] L; [discriminate|]. specialize (H (c :: p) L).
           rewrite !value_at_node in *.
           destruct (Z.eqb_spec c ca) as [->|Hne].
           ++ rewrite (lookup_none_gt ca ea Hgta). rewrite lookup_other by lia.
              rewrite (lookup_none_gt ca eb); [reflexivity|].
              eapply Forall_impl; [|exact Hgtb]. intros x Hx. simpl in Hx. lia.
           ++ rewrite lookup_other in H by assumption. exact H.
        -- subst cb. f_equal.
           ++ f_equal. apply (IHn ta tb); try assumption. intros p L.
              specialize (H (ca :: p) (f_equal Datatypes.S L)).
              rewrite !value_at_node, !lookup_first in H. exact H.
           ++ apply (IHa Da' Sa'' eb Db' Sb'').
              intros [|c p] L; [discriminate|]. specialize (H (c :: p) L).
              rewrite !value_at_node in *.
              destruct (Z.eqb_spec c ca) as [->|Hne].
              ** rewrite (lookup_none_gt ca ea Hgta), (lookup_none_gt ca eb Hgtb). reflexivity.
              ** rewrite !lookup_other in H by assumption. exact H.
        -- (* cb < ca: tb reads as the default everywhere *)
           assert (Eb : content d tb = []).
           { apply (all_default_content d n); try assumption. intros p L.
             specialize (H (cb :: p) (f_equal Datatypes.S L)).
             rewrite !value_at_node, lookup_first in H. rewrite <- H.
             rewrite lookup_other by lia.
             rewrite (lookup_none_gt cb ea); [reflexivity|].
             eapply Forall_impl; [|exact Hgta]. intros x Hx. simpl in Hx. lia. }
           rewrite Eb. cbn [map app]. rewrite <- node_content_cons.
           apply (IHb Db' Sb'').
           intros [|c p] L; [discriminate|]. specialize (H (c :: p) L).
           rewrite !value_at_node in *.
           destruct (Z.eqb_spec c cb) as [->|Hne].
           ++ rewrite (lookup_none_gt cb eb Hgtb). rewrite lookup_other by lia.
              rewrite (lookup_none_gt cb ea); [reflexivity|].
              eapply Forall_impl; [|exact Hgta]. intros x Hx. simpl in Hx. lia.
           ++ rewrite (lookup_other c cb) in H by assumption. exact H.
Qed.

Lemma content_pointwise n d a b :
  depth_ok n a = true -> depth_ok n b = true -> sorted_t a = true -> sorted_t b = true ->
  (content d a = content d b
   <-> forall p, length p = n -> value_at d p a = value_at d p b).
Proof.
  intros Da Db Sa Sb. split.
  - intros E p L.
    rewrite (value_at_assoc d a n p Da Sa L), (value_at_assoc d b n p Db Sb L), E. reflexivity.
  - apply pointwise_content; assumption.
Qed.

Lemma fiber_eq_pointwise n d ea eb :
  depth_ok n (Node ea) = true -> depth_ok n (Node eb) = true ->
  sorted_t (Node ea) = true -> sorted_t (Node eb) = true ->
  (fiber_eq d d (Node ea) (Node eb) = true
   <-> forall p, length p = n -> value_at d p (Node ea) = value_at d p (Node eb)).
Proof.
  intros Da Db Sa Sb.
  rewrite (fiber_eq_content n d d ea eb Da Db Sa Sb).
  apply content_pointwise; assumption.
Qed.

(* ------------------------------------------------------------------ canonical trees are unique
   two sorted trees of the same depth without explicit defaults and without empty sub-fibers
   that have the same content are the same tree: the oracle's demand on nonEmpty()
   (same content, canonical) leaves no freedom beyond the order of coordinates *)
Lemma canonical_cons d c t es :
  no_explicit_default d (Node ((c, t) :: es)) = true ->
  no_empty_below d (Node ((c, t) :: es)) = true ->
  is_empty d t = false
  /\ no_explicit_default d t = true /\ no_empty_below d t = true
  /\ no_explicit_default d (Node es) = true /\ no_empty_below d (Node es) = true.
Proof.
  cbn [no_explicit_default no_empty_below]. intros H1 H2.
  apply forallb_cons in H1. destruct H1 as [H1 H1'].
  apply forallb_cons in H2. destruct H2 as [H2 H2']. cbn [snd] in H1, H2.
  apply andb_true_iff in H2. destruct H2 as [H2 H3].
  repeat split; try assumption.
  destruct t as [v|es']; simpl in *.
  - destruct (Z.eqb v d); [discriminate|reflexivity].
  - destruct (forallb (fun ct => is_empty d (snd ct)) es'); [discriminate|reflexivity].
Qed.

Lemma canonical_unique d : forall n a b,
  depth_ok n a = true -> depth_ok n b = true -> sorted_t a = true -> sorted_t b = true ->
  no_explicit_default d a = true -> no_empty_below d a = true ->
  no_explicit_default d b = true -> no_empty_below d b = true ->
  content d a = content d b -> a = b.
Proof.
  induction n as [|n IHn]; intros a b Da Db Sa Sb Na Ea Nb Eb H.
  - destruct a as [va|ea]; [|discriminate]. destruct b as [vb|eb]; [|discriminate].
    simpl in *. destruct (Z.eqb va d); [discriminate|]. destruct (Z.eqb vb d); [discriminate|].
    inversion H. reflexivity.
  - destruct a as [va|ea]; [discriminate|]. destruct b as [vb|eb]; [discriminate|].
    f_equal. rewrite !content_node in H.
    cbn [depth_ok sorted_t] in Da, Db, Sa, Sb.
    apply andb_true_iff in Sa. destruct Sa as [Sa Sa'].
    apply andb_true_iff in Sb. destruct Sb as [Sb Sb'].
    revert eb Db Sb Sb' Nb Eb H.
    induction ea as [|[ca ta] ea IHa]; intros eb Db Sb Sb' Nb Eb H.
    + destruct eb as [|[cb tb] eb]; [reflexivity|].
      destruct (canonical_cons d cb tb eb Nb Eb) as [Eb0 _].
      destruct (content_nonempty_head d cb tb (node_content d eb) Eb0) as [p [v [r Hh]]].
      rewrite node_content_cons, Hh in H. discriminate.
    + destruct (canonical_cons d ca ta ea Na Ea) as [Ea0 [Na0 [Ea1 [Na' Ea']]]].
      destruct eb as [|[cb tb] eb].
      * destruct (content_nonempty_head d ca ta (node_content d ea) Ea0) as [p [v [r Hh]]].
        rewrite node_content_cons, Hh in H. discriminate.
      * destruct (canonical_cons d cb tb eb Nb Eb) as [Eb0 [Nb0 [Eb1 [Nb' Eb']]]].
        apply forallb_cons in Da. destruct Da as [Dta Da]. simpl in Dta.
        apply forallb_cons in Db. destruct Db as [Dtb Db]. simpl in Dtb.
        apply forallb_cons in Sa'. destruct Sa' as [Sta Sa']. simpl in Sta.
        apply forallb_cons in Sb'. destruct Sb' as [Stb Sb']. simpl in Stb.
        simpl in Sa, Sb. apply ssorted_cons_inv in Sa. destruct Sa as [Sa Hgta].
        apply ssorted_cons_inv in Sb. destruct Sb as [Sb Hgtb].
        rewrite !node_content_cons in H.
        assert (ca = cb) as ->.
        { destruct (content_nonempty_head d ca ta (node_content d ea) Ea0) as [p [v [r1 H1]]].
          destruct (content_nonempty_head d cb tb (node_content d eb) Eb0) as [q [w [r2 H2]]].
          rewrite H1, H2 in H. inversion H. reflexivity. }
        pose proof (node_content_heads d cb ea Hgta) as G1.
        pose proof (node_content_heads d cb eb Hgtb) as G2.
        destruct (split_by_head _ _ _ _ _ G1 G2 H) as [Ht Hr].
        rewrite (IHn ta tb Dta Dtb Sta Stb Na0 Ea1 Nb0 Eb1 Ht).
        rewrite (IHa Da Sa Sa' Na' Ea' eb Db Sb Sb' Nb' Eb' Hr). reflexivity.
Qed.

(* == decides equality of the pruned copies: two well-formed root fibers compare equal exactly
   when nonEmpty() gives the SAME tree for both (structural identity of canonical forms) *)
Lemma eq_iff_same_pruned n d a b : wf_root n a -> wf_root n b ->
  (fiber_eq d d a b = true <-> non_empty d a = non_empty d b).
Proof.
  intros Wa Wb. rewrite (fiber_eq_content_wf n d d a b Wa Wb). split; intros H.
  - destruct Wa as [[ea ->] [Da Sa]]. destruct Wb as [[eb ->] [Db Sb]].
    pose proof (non_empty_canonical d ea) as Ca. pose proof (non_empty_canonical d eb) as Cb.
    unfold canonical in Ca, Cb. apply andb_true_iff in Ca, Cb. destruct Ca as [Ca1 Ca2], Cb as [Cb1 Cb2].
    apply (canonical_unique d n); auto using non_empty_depth, non_empty_sorted.
    rewrite !non_empty_content. exact H.
  - rewrite <- (non_empty_content d a), <- (non_empty_content d b), H. reflexivity.
Qed.
