(* C15StateP.v — the Metrics state machine of Model/C15Metrics.v: what a list of events does to
   the counts, to the trace of one rank and to its file, from any state. *)
From Coq Require Import ZArith List Bool Lia.
From FT Require Import Model.Base Model.Obs Model.C15Metrics Model.C15Check Proofs.C15RunP.
Import ListNotations.
Open Scope Z_scope.

Lemma key_eqb_eq a b : key_eqb a b = true <-> a = b.
Proof.
  unfold key_eqb. destruct a as [a1 a2], b as [b1 b2]. cbn [fst snd].
  rewrite andb_true_iff, !Z.eqb_eq. split; [intros [? ?]; subst; auto | intros H; inversion H; auto].
Qed.

Lemma key_eqb_refl a : key_eqb a a = true.
Proof. apply key_eqb_eq; reflexivity. Qed.

Definition find_tr (k : key) (ts : list trace_st) : option trace_st :=
  find (fun t => key_eqb k (t_key t)) ts.

Lemma find_tr_key k ts t : find_tr k ts = Some t -> t_key t = k.
Proof. intros H. apply find_some in H. destruct H as [_ H]. apply key_eqb_eq in H. auto. Qed.

Lemma find_tr_map k (f : trace_st -> trace_st) ts :
  (forall t, t_key (f t) = t_key t) ->
  find_tr k (map f ts) = option_map f (find_tr k ts).
Proof.
  intros Hf. unfold find_tr. induction ts as [|t ts IH]; cbn [map find]; auto.
  rewrite Hf. destruct (key_eqb k (t_key t)); auto.
Qed.

Lemma find_tr_filter k r ts :
  fst k = r ->
  find_tr k (filter (fun t => Z.eqb (fst (t_key t)) r) ts) = find_tr k ts.
Proof.
  intros Hk. unfold find_tr. induction ts as [|t ts IH]; cbn [filter find]; auto.
  destruct (Z.eqb_spec (fst (t_key t)) r) as [He|Hne]; cbn [find].
  - rewrite IH. reflexivity.
  - destruct (key_eqb k (t_key t)) eqn:E; auto. apply key_eqb_eq in E. subst k. congruence.
Qed.

Lemma find_tr_filter_none k r ts :
  fst k <> r ->
  find_tr k (filter (fun t => Z.eqb (fst (t_key t)) r) ts) = None.
Proof.
  intros Hk. unfold find_tr. induction ts as [|t ts IH]; cbn [filter find]; auto.
  destruct (Z.eqb_spec (fst (t_key t)) r) as [He|Hne]; cbn [find]; auto.
  destruct (key_eqb k (t_key t)) eqn:E; auto. apply key_eqb_eq in E. subst k. congruence.
Qed.

Lemma file_get_map_app k (f : trace_st -> Z) ts fs :
  file_get k (map (fun t => (t_key t, f t)) ts ++ fs)
  = match find_tr k ts with Some t => Some (f t) | None => file_get k fs end.
Proof.
  unfold find_tr. induction ts as [|t ts IH]; cbn [map app file_get find]; auto.
  destruct (key_eqb k (t_key t)); auto.
Qed.

Lemma memZ_app x l r : memZ x (l ++ [r]) = memZ x l || Z.eqb x r.
Proof. unfold memZ. rewrite existsb_app. cbn [existsb]. rewrite orb_false_r. reflexivity. Qed.

(* ------------------------------------------------------------------ counts *)

Lemma apply_counts : forall evs m,
  m_mul (fold_left m_apply evs m) = m_mul m + cnt (is_cnt 0) evs /\
  m_add (fold_left m_apply evs m) = m_add m + cnt (is_cnt 1) evs /\
  m_upd (fold_left m_apply evs m) = m_upd m + cnt (is_cnt 2) evs.
Proof.
  induction evs as [|e evs IH]; intros m; cbn [fold_left].
  - rewrite !cnt_nil. lia.
  - destruct (IH (m_apply m e)) as [H1 [H2 H3]]. rewrite H1, H2, H3, !cnt_cons.
    destruct e as [r|r|k|]; cbn [m_apply is_cnt].
    + unfold m_register. destruct (memZ r (m_reg m)); cbn; lia.
    + cbn. lia.
    + cbn [m_count m_mul m_add m_upd].
      destruct (Z.eqb_spec k 0), (Z.eqb_spec k 1), (Z.eqb_spec k 2); lia.
    + lia.
Qed.

(* ------------------------------------------------------------------ one rank's "iter" trace *)

Definition reg1 (q : Z) (m : mstate) (e : mev) : bool := is_reg q e && negb (memZ q (m_reg m)).

Lemma step_view q m e t :
  find_tr (q, 0) (m_traces m) = Some t ->
  exists t1, find_tr (q, 0) (m_traces (m_apply m e)) = Some t1 /\
    t_started t1 = t_started t || reg1 q m e /\
    t_lines t1 = t_lines t + (if reg1 q m e then 1 else 0) + (if is_use q e then 1 else 0) /\
    file_lines (q, 0) (m_files (m_apply m e))
      = (if reg1 q m e then 0 else file_lines (q, 0) (m_files m)) /\
    memZ q (m_reg (m_apply m e)) = memZ q (m_reg m) || is_reg q e.
Proof.
  intros Hf. pose proof (find_tr_key _ _ _ Hf) as Hk. unfold reg1.
  destruct e as [r|r|k|]; cbn [m_apply is_reg is_use].
  - (* ERegister *)
    unfold m_register. destruct (memZ r (m_reg m)) eqn:Em.
    + exists t. destruct (Z.eqb_spec r q) as [->|Hne].
      * rewrite Em. cbn. rewrite orb_false_r. repeat split; auto. lia.
      * cbn. rewrite !orb_false_r. repeat split; auto. lia.
    + cbn [m_traces m_files m_reg]. rewrite find_tr_map by (intros t0; destruct (Z.eqb _ r); reflexivity).
      rewrite Hf. cbn [option_map]. eexists; split; [reflexivity|].
      rewrite Hk. cbn [fst]. rewrite memZ_app.
      unfold file_lines. rewrite (file_get_map_app (q, 0) (fun _ => 0)).
      destruct (Z.eqb_spec r q) as [->|Hne].
      * rewrite Z.eqb_refl, Em. cbn [negb andb t_started t_lines].
        rewrite find_tr_filter by reflexivity. rewrite Hf.
        rewrite orb_true_r. repeat split; auto. lia.
      * destruct (Z.eqb_spec q r); [congruence|]. cbn [andb].
        rewrite find_tr_filter_none by (cbn [fst]; congruence).
        rewrite !orb_false_r. repeat split; auto. lia.
  - (* EUse *)
    cbn [m_use m_traces m_files m_reg andb].
    rewrite find_tr_map by (intros t0; destruct (key_eqb _ _); reflexivity).
    rewrite Hf. cbn [option_map]. eexists; split; [reflexivity|].
    rewrite Hk. unfold key_eqb. cbn [fst snd]. rewrite andb_true_r.
    rewrite !orb_false_r.
    destruct (Z.eqb_spec q r) as [->|Hne].
    + rewrite Z.eqb_refl. cbn [t_started t_lines]. repeat split; auto. lia.
    + destruct (Z.eqb_spec r q); [congruence|]. repeat split; auto. lia.
  - (* ECount *)
    cbn [m_count m_traces m_files m_reg andb]. exists t.
    rewrite !orb_false_r. repeat split; auto. lia.
  - (* EFail *)
    cbn [andb]. exists t. rewrite !orb_false_r. repeat split; auto. lia.
Qed.

Definition newly (q : Z) (m : mstate) (evs : list mev) : bool :=
  negb (memZ q (m_reg m)) && Z.ltb 0 (cnt (is_reg q) evs).

Lemma apply_view q : forall evs m t,
  find_tr (q, 0) (m_traces m) = Some t ->
  exists t', find_tr (q, 0) (m_traces (fold_left m_apply evs m)) = Some t' /\
    t_started t' = t_started t || newly q m evs /\
    t_lines t' = t_lines t + (if newly q m evs then 1 else 0) + cnt (is_use q) evs /\
    file_lines (q, 0) (m_files (fold_left m_apply evs m))
      = (if newly q m evs then 0 else file_lines (q, 0) (m_files m)).
Proof.
  induction evs as [|e evs IH]; intros m t Hf; cbn [fold_left].
  - exists t. unfold newly. rewrite !cnt_nil. cbn. rewrite andb_false_r, orb_false_r.
    repeat split; auto. lia.
  - destruct (step_view q m e t Hf) as [t1 [Hf1 [Hs1 [Hl1 [Hfl1 Hm1]]]]].
    destruct (IH (m_apply m e) t1 Hf1) as [t' [Hf' [Hs' [Hl' Hfl']]]].
    exists t'. split; auto.
    unfold newly in *. rewrite Hm1 in *. rewrite !cnt_cons. unfold reg1 in *.
    pose proof (cnt_nonneg (is_reg q) evs) as Hnn.
    rewrite Hs', Hl', Hfl', Hs1, Hl1, Hfl1.
    destruct (memZ q (m_reg m)), (is_reg q e); cbn [negb andb orb].
    + rewrite !orb_false_r. repeat split; auto. lia.
    + rewrite !orb_false_r. repeat split; auto. lia.
    + assert (Z.ltb 0 (1 + cnt (is_reg q) evs) = true) as -> by lia.
      rewrite !orb_false_r, !orb_true_r. repeat split; auto. lia.
    + cbn [Z.add]. rewrite !orb_false_r. repeat split; auto.
      destruct (Z.ltb 0 (cnt (is_reg q) evs)); lia.
Qed.

(* ------------------------------------------------------------------ the state a session starts in *)

Definition fresh_traces (ts : list trace_st) : Prop :=
  forall t, In t ts -> t_started t = false /\ t_lines t = 0.

Lemma has_trace_find k ts : has_trace k ts = true -> exists t, find_tr k ts = Some t.
Proof.
  unfold has_trace, find_tr. induction ts as [|t ts IH]; cbn [existsb find]; [discriminate|].
  destruct (key_eqb k (t_key t)); eauto.
Qed.

Lemma trace_fold : forall ks m,
  let m' := fold_left (fun m k => m_trace k m) ks m in
  m_coll m' = m_coll m /\ m_reg m' = m_reg m /\ m_files m' = m_files m /\
  m_mul m' = m_mul m /\ m_add m' = m_add m /\ m_upd m' = m_upd m /\
  (fresh_traces (m_traces m) -> fresh_traces (m_traces m')) /\
  (forall k, has_trace k (m_traces m') = has_trace k (m_traces m) || existsb (key_eqb k) ks).
Proof.
  induction ks as [|k0 ks IH]; intros m; cbv zeta; cbn [fold_left existsb].
  - repeat (split; [reflexivity|]). split; [auto|]. intros k. rewrite orb_false_r. reflexivity.
  - destruct (IH (m_trace k0 m)) as [H1 [H2 [H3 [H4 [H5 [H6 [H7 H8]]]]]]].
    cbv zeta in *. rewrite H1, H2, H3, H4, H5, H6.
    assert (m_coll (m_trace k0 m) = m_coll m /\ m_reg (m_trace k0 m) = m_reg m /\
            m_files (m_trace k0 m) = m_files m /\ m_mul (m_trace k0 m) = m_mul m /\
            m_add (m_trace k0 m) = m_add m /\ m_upd (m_trace k0 m) = m_upd m)
      as [E1 [E2 [E3 [E4 [E5 E6]]]]]
      by (unfold m_trace; destruct (has_trace k0 (m_traces m)); cbn; repeat split; reflexivity).
    repeat (split; [assumption|]). split.
    + intros Hfr. apply H7. unfold m_trace. destruct (has_trace k0 (m_traces m)); auto.
      cbn [m_traces]. intros t Hin. apply in_app_or in Hin.
      destruct Hin as [Hin|[<-|[]]]; [auto | split; reflexivity].
    + intros k. rewrite H8. unfold m_trace. destruct (has_trace k0 (m_traces m)) eqn:Eh.
      * destruct (key_eqb k k0) eqn:E; cbn [orb]; auto.
        apply key_eqb_eq in E. subst k. rewrite Eh. reflexivity.
      * cbn [m_traces]. unfold has_trace at 1. rewrite existsb_app. cbn [existsb t_key].
        rewrite orb_false_r. fold (has_trace k (m_traces m)). rewrite orb_assoc. reflexivity.
Qed.

Lemma session_start_facts m s :
  let m0 := session_start m s in
  m_coll m0 = true /\ m_reg m0 = [] /\ m_files m0 = m_files m /\
  m_mul m0 = 0 /\ m_add m0 = 0 /\ m_upd m0 = 0 /\
  fresh_traces (m_traces m0) /\
  (forall k, has_trace k (m_traces m0) = existsb (key_eqb k) (s_traces s)).
Proof.
  unfold session_start.
  destruct (trace_fold (s_traces s) (begin_collect m)) as [H1 [H2 [H3 [H4 [H5 [H6 [H7 H8]]]]]]].
  cbv zeta in *. rewrite H1, H2, H3, H4, H5, H6. cbn [begin_collect m_coll m_reg m_files m_mul m_add m_upd m_traces] in *.
  repeat (split; [reflexivity|]). split.
  - apply H7. intros t [].
  - intros k. rewrite H8. reflexivity.
Qed.

(* numIters of the "iter" file of rank q after a complete session, from ANY earlier state *)
Lemma session_iters m s q evs :
  traced_iter s q = true ->
  let m1 := fold_left m_apply evs (session_start m s) in
  num_iters (file_lines (q, 0) (m_files (end_collect m1)))
  = num_iters ((if Z.ltb 0 (cnt (is_reg q) evs) then 1 else 0) + cnt (is_use q) evs).
Proof.
  intros Htr. destruct (session_start_facts m s) as [_ [Hreg [_ [_ [_ [_ [Hfr Hhas]]]]]]].
  cbv zeta in *.
  assert (has_trace (q, 0) (m_traces (session_start m s)) = true) as Hh by (rewrite Hhas; exact Htr).
  destruct (has_trace_find _ _ Hh) as [t Hf].
  destruct (apply_view q evs _ t Hf) as [t' [Hf' [Hs' [Hl' Hfl']]]].
  destruct (Hfr t) as [Hst Hln].
  { unfold find_tr in Hf. apply find_some in Hf. tauto. }
  unfold newly in *. rewrite Hreg in *. cbn [memZ existsb negb andb] in *.
  unfold end_collect. cbn [m_files]. unfold file_lines at 1.
  rewrite (file_get_map_app (q, 0)
             (fun t => (if t_started t then file_lines (t_key t) (m_files (fold_left m_apply evs (session_start m s))) else 0) + t_lines t)).
  rewrite Hf'. rewrite (find_tr_key _ _ _ Hf'). rewrite Hs', Hl', Hfl', Hst, Hln.
  destruct (Z.ltb 0 (cnt (is_reg q) evs)); cbn [orb]; f_equal; lia.
Qed.
