(* C16PopPosP.v — the position the populate generator computes for a coordinate: for a strictly
   sorted destination fiber whose elements before the running position lie below the coordinate,
   it is the number of stored coordinates below it (rank_in), and the element is found there iff
   the coordinate is stored. *)
From Coq Require Import ZArith List Bool Lia ZifyBool.
From FT Require Import Model.Base Model.Obs Model.C16Metrics Model.C16Nest Model.C16Check
                       Proofs.C16AndP Proofs.C16EagerP Proofs.C16PopP.
Import ListNotations.
Open Scope Z_scope.

Lemma rank_in_gt : forall c es, all_gt c es -> rank_in c es = 0.
Proof.
  intros c es. unfold rank_in, lenZ. induction es as [|[c' t] es IH]; intros H; cbn; auto.
  destruct H as [H1 H2]. destruct (c' <? c) eqn:E; [lia|]. apply IH. exact H2.
Qed.

Lemma all_gt_le : forall a b es, a <= b -> all_gt b es -> all_gt a es.
Proof. intros a b es H. induction es as [|[c t] es IH]; cbn; auto. intros [H1 H2]. split; [lia|auto]. Qed.

Lemma bisect_rank : forall c es, ssorted_f es -> bisect c es = rank_in c es.
Proof.
  intros c es. induction es as [|[c' t] es IH]; intros Hs; [reflexivity|].
  destruct Hs as [Hg Hs]. cbn [bisect]. unfold rank_in, lenZ. cbn [filter fst].
  destruct (c' <? c) eqn:E.
  - cbn [length]. rewrite IH by auto. unfold rank_in, lenZ. lia.
  - assert (all_gt c es) by (eapply all_gt_le; [|exact Hg]; lia).
    pose proof (rank_in_gt c es H) as R. unfold rank_in, lenZ in R. lia.
Qed.

Lemma ssorted_f_skipn : forall n es, ssorted_f es -> ssorted_f (skipn n es).
Proof.
  induction n as [|n IH]; intros es H; [exact H|]. destruct es as [|[c t] es]; [exact H|].
  destruct H as [_ H]. cbn. apply IH. exact H.
Qed.

Lemma rank_in_split : forall c n es, (n <= length es)%nat ->
  Forall (fun ct => fst ct < c) (firstn n es) ->
  rank_in c es = Z.of_nat n + rank_in c (skipn n es).
Proof.
  intros c. induction n as [|n IH]; intros es Hl Hf; [cbn; lia|].
  destruct es as [|[c' t] es]; [cbn in Hl; lia|]. cbn [firstn skipn] in *. inversion Hf; subst.
  cbn in Hl. specialize (IH es ltac:(lia) H2). unfold rank_in, lenZ in *. cbn [filter fst].
  cbn [fst] in H1. assert (c' <? c = true) as -> by lia. cbn [length]. lia.
Qed.

(* the element at index rank_in c es of a sorted fiber is the one with coordinate c, if stored *)
Lemma nth_rank : forall c es, ssorted_f es ->
  match nth_error es (Z.to_nat (rank_in c es)) with
  | Some (c', _) => (c' =? c) = mem_fib c es
  | None => mem_fib c es = false
  end.
Proof.
  intros c es. induction es as [|[c' t] es IH]; intros Hs; [reflexivity|].
  destruct Hs as [Hg Hs]. unfold rank_in, lenZ, mem_fib. cbn [filter fst existsb].
  destruct (c' <? c) eqn:E.
  - cbn [length]. rewrite Nat2Z.id. cbn [nth_error]. specialize (IH Hs).
    unfold rank_in, lenZ in IH. rewrite Nat2Z.id in IH. assert (c' =? c = false) as -> by lia. cbn [orb].
    exact IH.
  - assert (Hg' : all_gt c es) by (eapply all_gt_le; [|exact Hg]; lia).
    pose proof (rank_in_gt c es Hg') as R. unfold rank_in, lenZ in R.
    assert (length (filter (fun ct : Z * tree => fst ct <? c) es) = O) as -> by lia.
    cbn [Z.of_nat Z.to_nat nth_error].
    assert (existsb (fun ct : Z * tree => fst ct =? c) es = false) as ->.
    { clear - Hg'. induction es as [|[c2 t2] es IH]; cbn; auto. destruct Hg' as [H1 H2].
      assert (c2 =? c = false) as -> by lia. cbn. auto. }
    rewrite orb_false_r. reflexivity.
Qed.

(* what pop_elem computes *)
Theorem pop_elem_position : forall r la lb rt wt bt zl cm ip j c st,
  ssorted_f (p_z st) -> 0 <= p_apos st -> (Z.to_nat (p_apos st) <= length (p_z st))%nat ->
  Forall (fun ct => fst ct < c) (firstn (Z.to_nat (p_apos st)) (p_z st)) ->
  let x := pop_elem r la lb rt wt bt zl cm ip j c st in
  snd (fst (fst (fst x))) = rank_in c (p_z st)
  /\ pe_new x = negb (mem_fib c (p_z st)).
Proof.
  intros r la lb rt wt bt zl cm ip j c st Hs H0 Hl Hf x. subst x. unfold pop_elem. cbv zeta.
  cbn [pe_new fst snd].
  set (zes := p_z st) in *.
  assert (Hap : match zes with [] => p_apos st | _ :: _ => p_apos st + bisect c (skipnZ (p_apos st) zes) end
                = rank_in c zes).
  { destruct zes as [|ct zes'] eqn:Ez.
    - cbn in Hl. unfold rank_in, lenZ. cbn. lia.
    - rewrite <- Ez in *. unfold skipnZ. rewrite bisect_rank by (apply ssorted_f_skipn; exact Hs).
      rewrite (rank_in_split c (Z.to_nat (p_apos st)) zes Hl Hf). lia. }
  rewrite Hap. split; [reflexivity|].
  pose proof (nth_rank c zes Hs) as Hn. unfold nthZ.
  destruct (nth_error zes (Z.to_nat (rank_in c zes))) as [[c' t]|].
  - destruct (c' =? c) eqn:E; rewrite <- Hn; reflexivity.
  - rewrite Hn. reflexivity.
Qed.

(* a traversal that is not inserting: the destination is uncompressed, or the coordinate does
   not precede the last stored one (fiber.py 1149-1150) *)
Definition not_inserting (cm : bool) (j c : Z) (st : pst) : Prop :=
  p_ins st = false /\
  ((j =? 0) && cm = true -> match last_coord (p_z st) with Some m => (c <? m) = false | None => True end).

(* the populate_read row of one element: (coordinate, number of stored coordinates below it),
   present iff the coordinate was already stored *)
Theorem pop_elem_read_row : forall r la lb rt wt bt zl cm ip j c st,
  ssorted_f (p_z st) -> 0 <= p_apos st -> (Z.to_nat (p_apos st) <= length (p_z st))%nat ->
  Forall (fun ct => fst ct < c) (firstn (Z.to_nat (p_apos st)) (p_z st)) ->
  not_inserting cm j c st -> p_toins st = [] ->
  let x := pop_elem r la lb rt wt bt zl cm ip j c st in
  kuses K_RD la (pe_ev x) = (if rt && mem_fib c (p_z st) then [(c, rank_in c (p_z st))] else [])
  /\ p_ins (pe_st x) = false /\ p_toins (pe_st x) = [].
Proof.
  intros r la lb rt wt bt zl cm ip j c st Hs H0 Hl Hf [Hi Hc] Ht x.
  pose proof (pop_elem_position r la lb rt wt bt zl cm ip j c st Hs H0 Hl Hf) as [Hp Hn].
  fold x in Hp, Hn. subst x. unfold pop_elem in *. cbv zeta in *. cbn [pe_ev pe_new pe_st fst snd] in *.
  assert (Hins : (if (j =? 0) && cm
                  then match last_coord (p_z st) with Some m => c <? m | None => p_ins st end
                  else p_ins st) = false).
  { destruct ((j =? 0) && cm); [|exact Hi]. specialize (Hc eq_refl).
    destruct (last_coord (p_z st)); [exact Hc|exact Hi]. }
  rewrite Hins. cbn [andb p_ins p_toins]. split; [|split; [reflexivity|exact Ht]].
  rewrite Hp. rewrite Hp in Hn. rewrite Hn, Ht.
  rewrite !kuses_app.
  assert (kuses K_RD la (opt_ev bt (EUse r c j K_POP lb)) = []) as ->.
  { destruct bt; cbn [opt_ev kuses flat_map app]; reflexivity. }
  cbn [kuses flat_map app].
  destruct (mem_fib c (p_z st)); cbn [negb]; rewrite ?andb_false_r, ?andb_true_r; [|reflexivity].
  destruct rt; cbn [opt_ev kuses flat_map app]; [|reflexivity].
  rewrite !Z.eqb_refl. cbn [andb lenZ length Z.of_nat]. rewrite Z.sub_0_r. reflexivity.
Qed.

(* ---- the destination fiber as a sorted map: what one element's insert / replace / delete do ---- *)
Definition rkn (c : Z) (es : fib) : nat := length (filter (fun ct : Z * tree => fst ct <? c) es).
Lemma rank_rkn : forall c es, rank_in c es = Z.of_nat (rkn c es).
Proof. reflexivity. Qed.

Definition ocons (o : option tree) (c : Z) (es : fib) : fib :=
  match o with Some t => (c, t) :: es | None => es end.
Fixpoint upd (c : Z) (o : option tree) (es : fib) : fib :=
  match es with
  | [] => ocons o c []
  | (c', t') :: es' => if c' <? c then (c', t') :: upd c o es'
                       else if c' =? c then ocons o c es' else ocons o c es
  end.

Lemma rkn_gt : forall c es, all_gt c es -> rkn c es = O.
Proof. intros c es H. pose proof (rank_in_gt c es H) as R. rewrite rank_rkn in R. lia. Qed.

Lemma rkn_ge : forall c c' es, c <= c' -> all_gt c' es -> rkn c es = O.
Proof. intros. apply rkn_gt. eapply all_gt_le; eauto. Qed.

Lemma mem_gt : forall c es, all_gt c es -> mem_fib c es = false.
Proof.
  intros c es. unfold mem_fib. induction es as [|[c2 t2] es IH]; cbn; auto. intros [H1 H2].
  assert (c2 =? c = false) as -> by lia. cbn. auto.
Qed.

Lemma rkn_cons : forall c c' t es, rkn c ((c', t) :: es) = ((if (c' <? c)%Z then 1 else 0) + rkn c es)%nat.
Proof. intros. unfold rkn. cbn [filter fst]. destruct (c' <? c); reflexivity. Qed.

Lemma mem_cons : forall c c' t es, mem_fib c ((c', t) :: es) = (c' =? c) || mem_fib c es.
Proof. reflexivity. Qed.

Lemma upd_insert : forall c t es, ssorted_f es -> mem_fib c es = false ->
  insert_at (rkn c es) (c, t) es = upd c (Some t) es.
Proof.
  intros c t es. induction es as [|[c' t'] es IH]; intros Hs Hm; [reflexivity|].
  destruct Hs as [Hg Hs]. rewrite mem_cons in Hm. apply orb_false_iff in Hm. destruct Hm as [Hc Hm].
  rewrite rkn_cons. cbn [upd]. rewrite Hc. destruct (c' <? c) eqn:E.
  - cbn [plus insert_at]. f_equal. auto.
  - rewrite (rkn_ge c c' es) by (auto; lia). reflexivity.
Qed.

Lemma upd_self : forall c es, ssorted_f es -> mem_fib c es = true -> exists t0, es = upd c (Some t0) es.
Proof.
  intros c es. induction es as [|[c' t'] es IH]; intros Hs Hm; [discriminate|].
  destruct Hs as [Hg Hs]. rewrite mem_cons in Hm. cbn [upd]. destruct (c' <? c) eqn:E.
  - assert (c' =? c = false) as Hc by lia. rewrite Hc in Hm. cbn in Hm.
    destruct (IH Hs Hm) as (t0 & H0). exists t0. f_equal. exact H0.
  - destruct (c' =? c) eqn:Hc.
    + exists t'. cbn. f_equal. f_equal. lia.
    + cbn in Hm. rewrite mem_gt in Hm; [discriminate|]. eapply all_gt_le; [|exact Hg]. lia.
Qed.

Lemma upd_replace : forall c t t' es, ssorted_f es ->
  replace_at (rkn c es) (c, t') (upd c (Some t) es) = upd c (Some t') es.
Proof.
  intros c t t' es. induction es as [|[c' t0] es IH]; intros Hs; [reflexivity|].
  destruct Hs as [Hg Hs]. rewrite rkn_cons. cbn [upd]. destruct (c' <? c) eqn:E.
  - cbn [plus replace_at]. f_equal. auto.
  - rewrite (rkn_ge c c' es) by (auto; lia). destruct (c' =? c); reflexivity.
Qed.

Lemma upd_delete : forall c t es, ssorted_f es ->
  delete_at (rkn c es) (upd c (Some t) es) = upd c None es.
Proof.
  intros c t es. induction es as [|[c' t0] es IH]; intros Hs; [reflexivity|].
  destruct Hs as [Hg Hs]. rewrite rkn_cons. cbn [upd]. destruct (c' <? c) eqn:E.
  - cbn [plus delete_at]. f_equal. auto.
  - rewrite (rkn_ge c c' es) by (auto; lia). destruct (c' =? c); reflexivity.
Qed.

Lemma all_gt_upd : forall m c o es, all_gt m es -> m < c -> all_gt m (upd c o es).
Proof.
  intros m c o es. induction es as [|[c' t'] es IH]; intros Hg Hlt.
  - destruct o; cbn; auto.
  - destruct Hg as [H1 H2]. cbn [upd]. destruct (c' <? c); [cbn; auto|].
    destruct (c' =? c); destruct o; cbn; auto.
Qed.

Lemma ssorted_upd : forall c o es, ssorted_f es -> ssorted_f (upd c o es).
Proof.
  intros c o es. induction es as [|[c' t'] es IH]; intros Hs.
  - destruct o; cbn; auto.
  - destruct Hs as [Hg Hs]. cbn [upd]. destruct (c' <? c) eqn:E.
    + cbn. split; [apply all_gt_upd; [auto|lia]|auto].
    + destruct (c' =? c) eqn:Hc.
      * destruct o; cbn; auto. split; auto. eapply all_gt_le; [|exact Hg]. lia.
      * destruct o; cbn; auto. split; [split; [lia|eapply all_gt_le; [|exact Hg]; lia]|auto].
Qed.

Lemma rkn_upd_le : forall c2 c o es, c2 <= c -> rkn c2 (upd c o es) = rkn c2 es.
Proof.
  intros c2 c o es Hle. induction es as [|[c' t'] es IH].
  - destruct o; cbn [upd ocons]; [rewrite rkn_cons|]; auto. assert (c <? c2 = false) as -> by lia. reflexivity.
  - cbn [upd]. destruct (c' <? c) eqn:E; [rewrite !rkn_cons, IH; reflexivity|].
    destruct (c' =? c) eqn:Hc; destruct o; cbn [ocons]; rewrite ?rkn_cons; auto.
    + assert (c <? c2 = false) as -> by lia. assert (c' <? c2 = false) as -> by lia. reflexivity.
    + assert (c' <? c2 = false) as -> by lia. reflexivity.
    + assert (c <? c2 = false) as -> by lia. reflexivity.
Qed.

Lemma mem_upd_ne : forall c2 c o es, c2 <> c -> mem_fib c2 (upd c o es) = mem_fib c2 es.
Proof.
  intros c2 c o es Hne. induction es as [|[c' t'] es IH].
  - destruct o; cbn [upd ocons]; [rewrite mem_cons|]; auto. assert (c =? c2 = false) as -> by lia. reflexivity.
  - cbn [upd]. destruct (c' <? c) eqn:E; [rewrite !mem_cons, IH; reflexivity|].
    destruct (c' =? c) eqn:Hc; destruct o; cbn [ocons]; rewrite ?mem_cons; auto.
    + assert (c =? c2 = false) as -> by lia. assert (c' =? c2 = false) as -> by lia. reflexivity.
    + assert (c' =? c2 = false) as -> by lia. reflexivity.
    + assert (c =? c2 = false) as -> by lia. reflexivity.
Qed.

Lemma mem_upd_eq : forall c o es, ssorted_f es ->
  mem_fib c (upd c o es) = match o with Some _ => true | None => false end.
Proof.
  intros c o es. induction es as [|[c' t'] es IH]; intros Hs.
  - destruct o; cbn [upd ocons]; [rewrite mem_cons, Z.eqb_refl|]; reflexivity.
  - destruct Hs as [Hg Hs]. cbn [upd]. destruct (c' <? c) eqn:E.
    + rewrite mem_cons, IH by auto. assert (c' =? c = false) as -> by lia. reflexivity.
    + assert (Hm : mem_fib c es = false) by (apply mem_gt; eapply all_gt_le; [|exact Hg]; lia).
      destruct (c' =? c) eqn:Hc; destruct o; cbn [ocons]; rewrite ?mem_cons, ?Z.eqb_refl, ?Hc, ?Hm; reflexivity.
Qed.

Lemma rkn_mono : forall c c2 es, c <= c2 -> (rkn c es <= rkn c2 es)%nat.
Proof.
  intros c c2 es H. induction es as [|[c' t'] es IH]; [cbn; lia|]. rewrite !rkn_cons.
  destruct (c' <? c) eqn:E1; destruct (c' <? c2) eqn:E2; lia.
Qed.

Lemma rkn_upd_gt : forall c c2 o es, c < c2 ->
  (rkn c es + match o with Some _ => 1 | None => 0 end <= rkn c2 (upd c o es))%nat.
Proof.
  intros c c2 o es Hlt. induction es as [|[c' t'] es IH].
  - destruct o; cbn [upd ocons]; [rewrite rkn_cons; assert (c <? c2 = true) as -> by lia|]; cbn; lia.
  - cbn [upd]. rewrite rkn_cons. destruct (c' <? c) eqn:E.
    + rewrite rkn_cons. assert (c' <? c2 = true) as -> by lia. lia.
    + pose proof (rkn_mono c c2 es ltac:(lia)).
      destruct (c' =? c) eqn:Hc; destruct o; cbn [ocons]; rewrite ?rkn_cons;
        try (assert (c <? c2 = true) as -> by lia); try lia.
      all: destruct (c' <? c2); lia.
Qed.

Lemma firstn_le_rank : forall c es n, ssorted_f es -> (n <= rkn c es)%nat ->
  Forall (fun ct : Z * tree => fst ct < c) (firstn n es).
Proof.
  intros c es. induction es as [|[c' t'] es IH]; intros n Hs Hn; [rewrite firstn_nil; constructor|].
  destruct n as [|n]; [constructor|]. destruct Hs as [Hg Hs]. rewrite rkn_cons in Hn. cbn [firstn].
  destruct (c' <? c) eqn:E.
  - constructor; [cbn; lia|]. apply IH; auto. lia.
  - rewrite (rkn_ge c c' es) in Hn by (auto; lia). lia.
Qed.

Lemma rkn_le_length : forall c es, (rkn c es <= length es)%nat.
Proof. intros c es. induction es as [|[c' t'] es IH]; [cbn; lia|]. rewrite rkn_cons. cbn [length]. destruct (c' <? c); lia. Qed.

(* (coordinate, position) arguments of the explicitly stamped addUse calls for one trace *)
Definition suses (k l : Z) (evs : list mev) : list (Z * Z) :=
  flat_map (fun e => match e with
                     | EUseS _ c p k' l' _ => if (k' =? k) && (l' =? l) then [(c, p)] else []
                     | _ => []
                     end) evs.

Definition is_some {A} (o : option A) : bool := match o with Some _ => true | None => false end.

Lemma pop_elem_noins : forall r la lb rt wt bt zl cm ip j c st,
  ssorted_f (p_z st) -> 0 <= p_apos st <= rank_in c (p_z st) ->
  not_inserting cm j c st -> p_toins st = [] ->
  let x := pop_elem r la lb rt wt bt zl cm ip j c st in
  kuses K_RD la (pe_ev x) = (if rt && mem_fib c (p_z st) then [(c, rank_in c (p_z st))] else [])
  /\ p_ins (pe_st x) = false /\ p_toins (pe_st x) = []
  /\ p_apos (pe_st x) = rank_in c (p_z st)
  /\ exists t1, p_z (pe_st x) = upd c (Some t1) (p_z st).
Proof.
  intros r la lb rt wt bt zl cm ip j c st Hs [H0 H1] Hni Ht x.
  assert (Hl : (Z.to_nat (p_apos st) <= length (p_z st))%nat).
  { pose proof (rkn_le_length c (p_z st)). rewrite rank_rkn in H1. lia. }
  assert (Hf : Forall (fun ct : Z * tree => fst ct < c) (firstn (Z.to_nat (p_apos st)) (p_z st))).
  { apply firstn_le_rank; auto. rewrite rank_rkn in H1. lia. }
  destruct (pop_elem_read_row r la lb rt wt bt zl cm ip j c st Hs H0 Hl Hf Hni Ht) as (Hr & Hi & Hti).
  pose proof (pop_elem_position r la lb rt wt bt zl cm ip j c st Hs H0 Hl Hf) as [Hp Hn].
  fold x in Hr, Hi, Hti, Hp, Hn. split; [exact Hr|]. split; [exact Hi|]. split; [exact Hti|].
  subst x. unfold pop_elem in *. cbv zeta in *. cbn [pe_ev pe_new pe_st fst snd p_z p_apos] in *.
  split; [exact Hp|]. rewrite Hp. rewrite Hp in Hn. rewrite Hn.
  destruct (mem_fib c (p_z st)) eqn:Hm; cbn [negb].
  - apply upd_self; auto.
  - eexists. rewrite rank_rkn, Nat2Z.id. apply upd_insert; auto.
Qed.

Lemma pop_post_noins : forall r la wt ip c new zref' st1 zes t1,
  ssorted_f zes -> p_z st1 = upd c (Some t1) zes -> p_apos st1 = rank_in c zes ->
  p_ins st1 = false -> p_toins st1 = [] ->
  let post := pop_post r la wt ip c new zref' st1 in
  exists o, p_z (snd post) = upd c o zes
    /\ suses K_WR la (fst post) = (if wt && is_some o then [(c, rank_in c zes)] else [])
    /\ p_apos (snd post) = rank_in c zes + (if is_some o then 1 else 0)
    /\ p_ins (snd post) = false /\ p_toins (snd post) = [].
Proof.
  intros r la wt ip c new zref' st1 zes t1 Hs Hz Ha Hi Ht post. subst post. unfold pop_post. cbv zeta.
  rewrite Hz, Ha, Hi, Ht. rewrite rank_rkn, Nat2Z.id, upd_replace by auto.
  match goal with |- context [if ?b then _ else _] => destruct b end.
  - exists None. cbn [fst snd p_z p_apos p_ins p_toins is_some].
    rewrite bisect_rank by (apply ssorted_upd; auto). rewrite rank_rkn, Nat2Z.id, rkn_upd_le by lia.
    rewrite upd_delete by auto. rewrite andb_false_r. repeat split; auto. lia.
  - exists (Some zref'). destruct wt; cbn [fst snd p_z p_apos p_ins p_toins is_some andb suses flat_map app].
    + rewrite !Z.eqb_refl. cbn [andb lenZ length Z.of_nat]. rewrite Z.sub_0_r. repeat split; auto.
    + repeat split; auto.
Qed.

Fixpoint inc_from (c : Z) (cs : list Z) : Prop :=
  match cs with [] => True | c2 :: cs' => c < c2 /\ inc_from c2 cs' end.
Definition elc (el : list mev * (Z * env)) : Z := fst (snd el).

Lemma inc_from_all : forall c cs, inc_from c cs -> Forall (fun c2 => c < c2) cs.
Proof.
  intros c cs. revert c. induction cs as [|c2 cs IH]; intros c H; constructor.
  - apply H.
  - destruct H as [H1 H2]. eapply Forall_impl; [|apply IH; exact H2]. cbn. intros; lia.
Qed.

Lemma flat_map_ext_in : forall {A B} (f g : A -> list B) l, (forall a, In a l -> f a = g a) ->
  flat_map f l = flat_map g l.
Proof.
  intros A B f g l. induction l as [|a l IH]; intros H; [reflexivity|]. cbn.
  rewrite (H a (or_introl eq_refl)), IH; auto. intros; apply H; right; auto.
Qed.

Definition start_ok (cm : bool) (j : Z) (st : pst) (els : list (list mev * (Z * env))) : Prop :=
  match els with
  | [] => True
  | el :: els' =>
    0 <= p_apos st <= rank_in (elc el) (p_z st) /\ inc_from (elc el) (map elc els')
    /\ ((j =? 0) && cm = true ->
        match last_coord (p_z st) with Some m => (elc el <? m) = false | None => True end)
  end.

(* a populate traversal that does not insert: its populate_read rows are the source coordinates
   already stored, its populate_write rows the ones kept, each at its position in the final fiber *)
Theorem pop_loop_noins : forall r la lb rt wt bt zl cm ip (body : body_t) els j st ls,
  0 <= j -> ssorted_f (p_z st) -> p_ins st = false -> p_toins st = [] -> start_ok cm j st els ->
  Forall (fun el => kuses K_RD la (fst el) = []) els ->
  let res := pop_loop r la lb rt wt bt zl cm ip body els j st ls in
  let zi := p_z st in
  let zf := p_z (fst (snd res)) in
  ssorted_f zf
  /\ (forall c', match els with [] => True | el :: _ => c' < elc el end ->
        rank_in c' zf = rank_in c' zi /\ mem_fib c' zf = mem_fib c' zi)
  /\ flat_map (fun it => kuses K_RD la (it_pre it)) (fst res)
     = flat_map (fun el => if rt && mem_fib (elc el) zi then [(elc el, rank_in (elc el) zf)] else []) els
  /\ flat_map (fun it => suses K_WR la (it_post it)) (fst res)
     = flat_map (fun el => if wt && mem_fib (elc el) zf then [(elc el, rank_in (elc el) zf)] else []) els
  /\ p_ins (fst (snd res)) = false.
Proof.
  intros r la lb rt wt bt zl cm ip body els. induction els as [|[pre [c e']] els IH];
    intros j st ls Hj Hs Hi Ht Hst Hpre.
  - cbn. auto 6.
  - inversion Hpre as [|? ? Hp1 Hp2]; subst. cbn [fst] in Hp1.
    destruct Hst as (Hap & Hinc & Hlast). unfold elc in Hap, Hlast. cbn [fst snd] in Hap, Hlast.
    assert (Hni : not_inserting cm j c st) by (split; auto).
    cbn [pop_loop].
    pose proof (pop_elem_noins r la lb rt wt bt zl cm ip j c st Hs Hap Hni Ht) as (Hr & Hi1 & Ht1 & Ha1 & t1 & Hz1).
    destruct (pop_elem r la lb rt wt bt zl cm ip j c st) as [[[[ev apos] new] zref] st1].
    cbn [pe_ev pe_st fst snd] in Hr, Hi1, Ht1, Ha1, Hz1.
    set (zr := match th_z (snd (body c e' {| th_z := Some zref; th_lab := ls |})) with Some t => t | None => zref end).
    destruct (pop_post_noins r la wt ip c new zr st1 (p_z st) t1 Hs Hz1 Ha1 Hi1 Ht1) as (o & Hz2 & Hw & Ha2 & Hi2 & Ht2).
    set (post := pop_post r la wt ip c new zr st1) in *.
    assert (Hs2 : ssorted_f (p_z (snd post))) by (rewrite Hz2; apply ssorted_upd; auto).
    assert (Hst2 : start_ok cm (j + 1) (snd post) els).
    { destruct els as [|el2 els2]; [exact I|]. cbn [map] in Hinc. destruct Hinc as [Hlt Hinc].
      split; [|split; [exact Hinc|]].
      - rewrite Ha2, Hz2, !rank_rkn. pose proof (rkn_upd_gt c (elc el2) o (p_z st) Hlt).
        destruct o; cbn [is_some]; lia.
      - intros H. assert (j + 1 =? 0 = false) by lia. rewrite H0 in H. discriminate. }
    specialize (IH (j + 1) (snd post) (th_lab (snd (body c e' {| th_z := Some zref; th_lab := ls |})))
                   ltac:(lia) Hs2 Hi2 Ht2 Hst2 Hp2).
    cbv zeta in IH. destruct IH as (IHs & IHst & IHr & IHw & IHi).
    cbn [fst snd flat_map it_pre it_post].
    set (rest := pop_loop r la lb rt wt bt zl cm ip body els (j + 1) (snd post)
                   (th_lab (snd (body c e' {| th_z := Some zref; th_lab := ls |})))) in *.
    assert (Hc : rank_in c (p_z (fst (snd rest))) = rank_in c (p_z st)
                 /\ mem_fib c (p_z (fst (snd rest))) = is_some o).
    { destruct (IHst c) as [E1 E2].
      { destruct els as [|el2 els2]; [exact I|]. cbn [map] in Hinc. apply Hinc. }
      rewrite E1, E2, Hz2, !rank_rkn, rkn_upd_le by lia. split; auto. apply mem_upd_eq; auto. }
    destruct Hc as [Hc1 Hc2].
    assert (Hall : Forall (fun c2 => c < c2) (map elc els)) by (apply inc_from_all; auto).
    split; [exact IHs|]. split; [|split; [|split; [|exact IHi]]].
    + intros c' Hc'. unfold elc in Hc'. cbn [fst snd] in Hc'.
      destruct (IHst c') as [E1 E2].
      { destruct els as [|el2 els2]; [exact I|]. cbn [map] in Hinc. destruct Hinc as [Hlt _]. change (c < elc el2) in Hlt. change (c' < elc el2). lia. }
      rewrite E1, E2, Hz2, !rank_rkn, rkn_upd_le by lia. split; auto. apply mem_upd_ne. lia.
    + rewrite kuses_app, Hp1, Hr, IHr. cbn [app]. change (elc (pre, (c, e'))) with c. rewrite Hc1.
      f_equal. apply flat_map_ext_in. intros el Hin.
      assert (c < elc el).
      { rewrite Forall_forall in Hall. apply Hall. apply in_map. exact Hin. }
      rewrite Hz2, mem_upd_ne by lia. reflexivity.
    + rewrite Hw, IHw. change (elc (pre, (c, e'))) with c. rewrite Hc1, Hc2. reflexivity.
Qed.

(* the same from the state in which run_level starts the generator (position 0, not inserting):
   [cm = false] is an uncompressed destination; otherwise the first source coordinate is not
   below the last stored one (Check.appending) *)
Corollary pop_loop_noins_init : forall r la lb rt wt bt zl cm ip (body : body_t) els zes oe isp ls,
  ssorted_f zes ->
  match els with [] => True | el :: els' => inc_from (elc el) (map elc els') end ->
  (cm = true -> match last_coord zes, els with
                | Some m, el :: _ => (elc el <? m) = false
                | _, _ => True end) ->
  Forall (fun el => kuses K_RD la (fst el) = []) els ->
  let st := {| p_z := zes; p_apos := 0; p_ins := false; p_oldend := oe; p_toins := []; p_isp := isp |} in
  let res := pop_loop r la lb rt wt bt zl cm ip body els 0 st ls in
  let zf := p_z (fst (snd res)) in
  ssorted_f zf
  /\ flat_map (fun it => kuses K_RD la (it_pre it)) (fst res)
     = flat_map (fun el => if rt && mem_fib (elc el) zes then [(elc el, rank_in (elc el) zf)] else []) els
  /\ flat_map (fun it => suses K_WR la (it_post it)) (fst res)
     = flat_map (fun el => if wt && mem_fib (elc el) zf then [(elc el, rank_in (elc el) zf)] else []) els.
Proof.
  intros r la lb rt wt bt zl cm ip body els zes oe isp ls Hs Hinc Hlast Hpre st.
  assert (Hst : start_ok cm 0 st els).
  { destruct els as [|el els']; [exact I|]. split; [|split; [exact Hinc|]].
    - cbn [p_apos p_z st]. rewrite rank_rkn. lia.
    - intros H. cbn [p_z st]. apply andb_true_iff in H. destruct H as [_ H]. specialize (Hlast H).
      destruct (last_coord zes); auto. }
  destruct (pop_loop_noins r la lb rt wt bt zl cm ip body els 0 st ls ltac:(lia) Hs eq_refl eq_refl Hst Hpre)
    as (H1 & _ & H3 & H4 & _).
  split; [exact H1|]. split; [exact H3|exact H4].
Qed.

(* ---- the same at the level: against the oracle's expect_at ---- *)
Lemma all_gt_inc : forall c es, all_gt c es -> ssorted_f es -> inc_from c (map fst es).
Proof.
  intros c es. revert c. induction es as [|[c' t'] es IH]; intros c Hg Hs; cbn; auto.
  destruct Hg as [H1 H2]. destruct Hs as [Hs1 Hs2]. split; auto.
Qed.

Lemma flat_map_map' : forall {A B C} (f : A -> B) (g : B -> list C) l,
  flat_map g (map f l) = flat_map (fun a => g (f a)) l.
Proof. intros. induction l as [|a l IH]; cbn; [|rewrite IH]; reflexivity. Qed.

Lemma map_flat_map' : forall {A B C} (f : B -> C) (g : A -> list B) l,
  map f (flat_map g l) = flat_map (fun a => map f (g a)) l.
Proof. intros. induction l as [|a l IH]; cbn; [|rewrite map_app, IH]; reflexivity. Qed.

Definition el_ce (el : list mev * (Z * env)) : Z * env := (fst (snd el), snd (snd el)).

(* a populate level over an abstract source stream whose elements are the reference elements of
   the level, in ascending coordinate order: when the traversal does not insert
   (Check.appending), the rows of populate_read / populate_write are, below point pt, the
   oracle's expect_at lists against the fiber before (zes) and after (zf) *)
Theorem pop_level_dest_rows : forall (L : level) e els zes pt r la lb rt wt bt zl ip (body : body_t) ls oe isp,
  l_pop L = true ->
  map el_ce els = ref_elems L e ->
  match map fst (ref_elems L e) with [] => True | c0 :: cs => inc_from c0 cs end ->
  Forall (fun el => kuses K_RD la (fst el) = []) els ->
  ssorted_f zes -> appending L zes e = true ->
  let st := {| p_z := zes; p_apos := 0; p_ins := false; p_oldend := oe; p_toins := []; p_isp := isp |} in
  let res := pop_loop r la lb rt wt bt zl (negb (l_zufmt L)) ip body els 0 st ls in
  let zf := p_z (fst (snd res)) in
  let rows := map (fun cp : Z * Z => addr pt (fst cp) (Some (snd cp))) in
  ssorted_f zf
  /\ (rt = true -> rows (flat_map (fun it => kuses K_RD la (it_pre it)) (fst res))
                   = expect_at L false K_RD 0 zes zf pt e)
  /\ (wt = true -> rows (flat_map (fun it => suses K_WR la (it_post it)) (fst res))
                   = expect_at L false K_WR 0 zes zf pt e).
Proof.
  intros L e els zes pt r la lb rt wt bt zl ip body ls oe isp Hpop Hels Hinc Hpre Hs Happ st res zf rows.
  assert (Hc : map elc els = map fst (ref_elems L e)).
  { rewrite <- Hels, map_map. reflexivity. }
  destruct (pop_loop_noins_init r la lb rt wt bt zl (negb (l_zufmt L)) ip body els zes oe isp ls Hs) as (H1 & H2 & H3).
  - destruct els as [|el els']; [exact I|]. cbn [map] in Hc. rewrite <- Hc in Hinc. exact Hinc.
  - intros Hcm. unfold appending in Happ. apply negb_true_iff in Hcm. rewrite Hcm in Happ. cbn [orb] in Happ.
    destruct (last_coord zes) as [m|]; [|exact I]. destruct els as [|el els']; [exact I|].
    rewrite <- Hels in Happ. cbn [map el_ce fst] in Happ. apply negb_true_iff in Happ. exact Happ.
  - exact Hpre.
  - fold st in H2, H3. fold res in H1, H2, H3. fold zf in H1, H2, H3.
    split; [exact H1|]. split; intros Ht; subst.
    + unfold rows. rewrite H2. unfold expect_at. rewrite Hpop.
      change (K_RD =? K_ITER) with false. change (K_RD =? K_INT) with false.
      change (K_RD =? K_POP) with false. change (K_RD =? K_RD) with true.
      change (0 =? 0) with true. cbn [andb]. rewrite <- Hels, flat_map_map', map_flat_map'.
      apply flat_map_ext_in. intros el _. unfold elc, el_ce. cbn [fst snd].
      destruct (mem_fib (fst (snd el)) zes); reflexivity.
    + unfold rows. rewrite H3. unfold expect_at. rewrite Hpop.
      change (K_WR =? K_ITER) with false. change (K_WR =? K_INT) with false.
      change (K_WR =? K_POP) with false. change (K_WR =? K_RD) with false. change (K_WR =? K_WR) with true.
      change (0 =? 0) with true. cbn [andb]. rewrite <- Hels, flat_map_map', map_flat_map'.
      apply flat_map_ext_in. intros el _. unfold elc, el_ce. cbn [fst snd].
      destruct (mem_fib (fst (snd el)) zf); reflexivity.
Qed.

(* the instance for  z_i << x_i  (run_level's populate branch over a fiber) *)
Corollary pop_fib_level_dest : forall tr u sh zu x e zes pt r la' lb' la lb rt wt bt zl ip (body : body_t) ls oe isp,
  let L := {| l_pop := true; l_src := SFib x; l_ufmt := u; l_zufmt := zu; l_proj := None; l_shape := sh |} in
  env_ok e -> ssorted_f zes -> appending L zes e = true ->
  let els := fst (src_stream tr u sh r la' lb' (SFib x) e) in
  let st := {| p_z := zes; p_apos := 0; p_ins := false; p_oldend := oe; p_toins := []; p_isp := isp |} in
  let res := pop_loop r la lb rt wt bt zl (negb zu) ip body els 0 st ls in
  let zf := p_z (fst (snd res)) in
  let rows := map (fun cp : Z * Z => addr pt (fst cp) (Some (snd cp))) in
  ssorted_f zf
  /\ (rt = true -> rows (flat_map (fun it => kuses K_RD la (it_pre it)) (fst res))
                   = expect_at L false K_RD 0 zes zf pt e)
  /\ (wt = true -> rows (flat_map (fun it => suses K_WR la (it_post it)) (fst res))
                   = expect_at L false K_WR 0 zes zf pt e).
Proof.
  intros tr u sh zu x e zes pt r la' lb' la lb rt wt bt zl ip body ls oe isp L He Hs Happ els.
  apply (pop_level_dest_rows L e els zes pt r la lb rt wt bt zl ip body ls oe isp); auto.
  - unfold els, src_stream, ref_elems, ref_off, pcoord, el_ce. cbn [fst snd L l_src l_proj l_ufmt l_shape].
    rewrite !map_map. reflexivity.
  - unfold ref_elems, pcoord. cbn [L l_src l_proj]. rewrite map_map. cbn [fst].
    destruct (ref_off_ok L e x He) as [Hso _].
    destruct (ref_off L e x) as [|[c0 t0] rest]; [exact I|]. destruct Hso as [Hg Hso].
    cbn [map fst]. apply all_gt_inc; auto.
  - unfold els, src_stream. cbn [fst]. apply Forall_forall. intros el Hin. apply in_map_iff in Hin.
    destruct Hin as (ct & <- & _). reflexivity.
Qed.

(* ... and such a traversal ends not inserting: there is no shift phase *)
Lemma pop_level_noins_pins : forall (L : level) e els zes r la lb rt wt bt zl ip (body : body_t) ls oe isp,
  map el_ce els = ref_elems L e ->
  match map fst (ref_elems L e) with [] => True | c0 :: cs => inc_from c0 cs end ->
  Forall (fun el => kuses K_RD la (fst el) = []) els ->
  ssorted_f zes -> appending L zes e = true ->
  let st := {| p_z := zes; p_apos := 0; p_ins := false; p_oldend := oe; p_toins := []; p_isp := isp |} in
  p_ins (fst (snd (pop_loop r la lb rt wt bt zl (negb (l_zufmt L)) ip body els 0 st ls))) = false.
Proof.
  intros L e els zes r la lb rt wt bt zl ip body ls oe isp Hels Hinc Hpre Hs Happ st.
  assert (Hc : map elc els = map fst (ref_elems L e)).
  { rewrite <- Hels, map_map. reflexivity. }
  assert (Hst : start_ok (negb (l_zufmt L)) 0 st els).
  { destruct els as [|el els']; [exact I|]. cbn [map] in Hc. rewrite <- Hc in Hinc.
    split; [|split; [exact Hinc|]].
    - cbn [p_apos p_z st]. rewrite rank_rkn. lia.
    - intros H. cbn [p_z st]. apply andb_true_iff in H. destruct H as [_ Hcm].
      unfold appending in Happ. apply negb_true_iff in Hcm. rewrite Hcm in Happ. cbn [orb] in Happ.
      destruct (last_coord zes) as [m|]; [|exact I].
      rewrite <- Hels in Happ. cbn [map el_ce fst] in Happ. apply negb_true_iff in Happ. exact Happ. }
  destruct (pop_loop_noins r la lb rt wt bt zl (negb (l_zufmt L)) ip body els 0 st ls ltac:(lia) Hs eq_refl eq_refl Hst Hpre)
    as (_ & _ & _ & _ & H5).
  exact H5.
Qed.
