(* C17CacheP.v — the cache state machine (next_evict sorted by (next stamp, binding), pinned
   staging lines, head-only hit detection) refines the furthest-next-use-with-bypass policy
   g_min_run on access indices, for schedules that are ordered by (stamp, binding) and in which
   two accesses with the same (stamp, binding) touch the same line (region 0). *)
From Coq Require Import ZArith List Bool Lia PeanoNat Permutation.
From FT Require Import Model.Base Model.Obs Model.C17Traffic Model.C17Check
                       Proofs.C17TrafficP Proofs.C17CheckP Proofs.C17LiftP.
Import ListNotations.
Open Scope Z_scope.

Definition sa := (nat * access)%type.
Definition idt := (Z * list Z)%type.

Definition aid_eq (x y : sa) : bool :=
  Nat.eqb (fst x) (fst y) && list_eqb (a_obj (snd x)) (a_obj (snd y)).
Definition aw (x : sa) : bool := a_w (snd x).
Definition astg (x : sa) : bool := a_stg (snd x).

Definition idz (x : sa) : idt := (Z.of_nat (fst x), a_obj (snd x)).
Definition eid (el : celem) : idt := (ce_pos el, ce_obj el).
Definition idmatch (id : idt) (y : sa) : bool :=
  Z.eqb (fst id) (Z.of_nat (fst y)) && list_eqb (snd id) (a_obj (snd y)).
Definition firstof (id : idt) (rest : list sa) : option sa := find (idmatch id) rest.

Lemma idmatch_iff id y : idmatch id y = true <-> id = idz y.
Proof.
  unfold idmatch, idz. destruct id as [p o]. cbn [fst snd].
  rewrite andb_true_iff, Z.eqb_eq, list_eqb_eq. split; [intros [-> ->]; reflexivity|].
  intros H. inversion H. auto.
Qed.

Lemma idmatch_false id y : idmatch id y = false <-> id <> idz y.
Proof.
  split; intros H.
  - intros E. apply idmatch_iff in E. congruence.
  - destruct (idmatch id y) eqn:E; auto. apply idmatch_iff in E. contradiction.
Qed.

Lemma aid_eq_idmatch x y : aid_eq x y = idmatch (idz x) y.
Proof.
  unfold aid_eq, idmatch, idz. cbn [fst snd]. f_equal.
  destruct (Nat.eqb_spec (fst x) (fst y)) as [E|E]; symmetry.
  - rewrite E. apply Z.eqb_refl.
  - apply Z.eqb_neq. lia.
Qed.

Lemma aid_eq_iff x y : aid_eq x y = true <-> idz x = idz y.
Proof. rewrite aid_eq_idmatch. apply idmatch_iff. Qed.

Lemma is_line_iff x el :
  is_line (Z.of_nat (fst x)) (a_obj (snd x)) el = true <-> eid el = idz x.
Proof.
  unfold is_line, eid, idz. rewrite andb_true_iff, Z.eqb_eq, list_eqb_eq.
  split; [intros [-> ->]; reflexivity|]. intros H. inversion H. auto.
Qed.

Lemma find_aid x rest : find (aid_eq x) rest = firstof (idz x) rest.
Proof.
  unfold firstof. induction rest as [|y r IH]; cbn [find]; [reflexivity|].
  rewrite aid_eq_idmatch, IH. reflexivity.
Qed.

(* ------------------------------------------------------------------ the order of next_evict *)
Definition clt (x y : sa) : bool :=
  if list_eqb (a_stamp (snd x)) (a_stamp (snd y)) then Z.ltb (Z.of_nat (fst x)) (Z.of_nat (fst y))
  else lex_lt (a_stamp (snd x)) (a_stamp (snd y)).

Lemma ce_lt_asym a b : ce_lt a b = true -> ce_lt b a = false.
Proof.
  unfold ce_lt. rewrite (list_eqb_sym (ce_next b)).
  destruct (list_eqb (ce_next a) (ce_next b)); [lia|apply lex_lt_asym].
Qed.

Lemma ce_lt_trans a b c : ce_lt a b = true -> ce_lt b c = true -> ce_lt a c = true.
Proof.
  unfold ce_lt.
  destruct (list_eqb (ce_next a) (ce_next b)) eqn:E1; destruct (list_eqb (ce_next b) (ce_next c)) eqn:E2.
  - apply list_eqb_eq in E1, E2. rewrite E1, E2, list_eqb_refl. lia.
  - apply list_eqb_eq in E1. rewrite E1, E2. auto.
  - apply list_eqb_eq in E2. rewrite <- E2, E1. auto.
  - intros H1 H2. pose proof (lex_lt_trans _ _ _ H1 H2) as T.
    destruct (list_eqb (ce_next a) (ce_next c)) eqn:E3; auto.
    apply list_eqb_eq in E3. rewrite E3 in H1. rewrite (lex_lt_asym _ _ H2) in H1. discriminate.
Qed.

(* not (b < a) and not (c < b) give not (c < a) *)
Lemma ce_le_trans a b c : ce_lt b a = false -> ce_lt c b = false -> ce_lt c a = false.
Proof.
  unfold ce_lt.
  destruct (list_eqb (ce_next b) (ce_next a)) eqn:E1; destruct (list_eqb (ce_next c) (ce_next b)) eqn:E2.
  - apply list_eqb_eq in E1, E2. rewrite E2, E1, list_eqb_refl. lia.
  - apply list_eqb_eq in E1. rewrite <- E1, E2. auto.
  - apply list_eqb_eq in E2. rewrite E2, E1. auto.
  - intros H1 H2. destruct (list_eqb (ce_next c) (ce_next a)) eqn:E3.
    + apply list_eqb_eq in E3. rewrite E3 in H2.
      assert (ce_next b = ce_next a) by (apply lex_total; assumption).
      apply list_eqb_neq in E1. contradiction.
    + eapply lex_le_trans; eassumption.
Qed.

Fixpoint sortedE (l : list celem) : Prop :=
  match l with
  | [] => True
  | u :: l' => (forall v, In v l' -> ce_lt v u = false) /\ sortedE l'
  end.

Lemma ce_insert_perm x l : Permutation (ce_insert x l) (x :: l).
Proof.
  induction l as [|h l IH]; cbn [ce_insert]; auto.
  destruct (ce_lt x h); auto.
  eapply perm_trans; [apply perm_skip; exact IH|]. apply perm_swap.
Qed.

Lemma ce_insert_sorted x l : sortedE l -> sortedE (ce_insert x l).
Proof.
  induction l as [|h l IH]; intros S; cbn [ce_insert].
  - cbn. split; auto. intros v [].
  - cbn [sortedE] in S. destruct S as [Sh Sl]. destruct (ce_lt x h) eqn:E.
    + cbn [sortedE]. split; [|split; auto].
      intros v [<-|Hv]; [apply ce_lt_asym; exact E|].
      (* v after h: not (v < h); x < h; so not (v < x) *)
      destruct (ce_lt v x) eqn:E2; auto.
      pose proof (ce_lt_trans _ _ _ E2 E) as T. specialize (Sh v Hv). congruence.
    + cbn [sortedE]. split; [|apply IH; exact Sl].
      intros v Hv. apply (Permutation_in _ (ce_insert_perm x l)) in Hv.
      destruct Hv as [<-|Hv]; [exact E|apply Sh; exact Hv].
Qed.

Lemma sortedE_app_last l v : sortedE (l ++ [v]) -> sortedE l /\ forall u, In u l -> ce_lt v u = false.
Proof.
  induction l as [|h l IH]; cbn [app sortedE]; intros S.
  - split; auto. intros u [].
  - destruct S as [Sh Sl]. destruct (IH Sl) as [S1 S2]. split.
    + split; auto. intros u Hu. apply Sh. apply in_or_app. left. exact Hu.
    + intros u [<-|Hu]; [apply Sh; apply in_or_app; right; left; reflexivity|apply S2; exact Hu].
Qed.

(* ------------------------------------------------------------------ ce_find / ce_remove *)
Lemma ce_find_some i o l el : ce_find i o l = Some el -> In el l /\ eid el = (i, o).
Proof.
  induction l as [|x l IH]; cbn [ce_find]; [discriminate|].
  destruct (is_line i o x) eqn:E.
  - intros H. inversion H; subst. split; [left; reflexivity|].
    unfold is_line in E. apply andb_true_iff in E. destruct E as [E1 E2].
    apply Z.eqb_eq in E1. apply list_eqb_eq in E2. unfold eid. congruence.
  - intros H. destruct (IH H). split; [right|]; assumption.
Qed.

Lemma is_line_eid i o x : is_line i o x = true <-> eid x = (i, o).
Proof.
  unfold is_line, eid. rewrite andb_true_iff, Z.eqb_eq, list_eqb_eq.
  split; [intros [-> ->]; reflexivity|]. intros H. inversion H. auto.
Qed.

Lemma ce_find_none i o l : ce_find i o l = None -> ~ In (i, o) (map eid l).
Proof.
  induction l as [|x l IH]; cbn [ce_find map In]; [tauto|].
  destruct (is_line i o x) eqn:E; [discriminate|].
  intros H [H'|H']; [|exact (IH H H')].
  apply is_line_eid in H'. congruence.
Qed.

Lemma ce_find_in i o l : In (i, o) (map eid l) -> exists el, ce_find i o l = Some el.
Proof.
  intros H. destruct (ce_find i o l) eqn:E; [eauto|]. apply ce_find_none in E. contradiction.
Qed.

Lemma ce_remove_perm i o l el : ce_find i o l = Some el ->
  Permutation (map eid l) ((i, o) :: map eid (ce_remove i o l))
  /\ length l = S (length (ce_remove i o l))
  /\ (forall x, In x (ce_remove i o l) -> In x l).
Proof.
  induction l as [|x l IH]; cbn [ce_find ce_remove]; [discriminate|].
  destruct (is_line i o x) eqn:E.
  - intros _. apply is_line_eid in E. cbn [map]. rewrite E. repeat split; auto. intros y Hy. right. exact Hy.
  - intros H. destruct (IH H) as (P & L & I). cbn [map length]. repeat split.
    + eapply perm_trans; [apply perm_skip; exact P|]. apply perm_swap.
    + lia.
    + intros y [<-|Hy]; [left; reflexivity|right; apply I; exact Hy].
Qed.

(* ------------------------------------------------------------------ schedules *)
Fixpoint wfs (l : list sa) : Prop :=
  match l with
  | [] => True
  | x :: r => (forall y, In y r -> clt y x = false)
              /\ (forall y, In y r -> clt x y = false -> idz x = idz y)
              /\ a_next (snd x) = option_map (fun y : sa => a_stamp (snd y)) (firstof (idz x) r)
              /\ wfs r
  end.

Lemma wfs_tl x r : wfs (x :: r) -> wfs r.
Proof. cbn [wfs]. tauto. Qed.

Lemma wfs_pair : forall rest a b, wfs rest -> In a rest -> In b rest ->
  clt a b = false -> clt b a = false -> idz a = idz b.
Proof.
  induction rest as [|x r IH]; intros a b W Ha Hb H1 H2; [destruct Ha|].
  cbn [wfs] in W. destruct W as (_ & W2 & _ & W).
  destruct Ha as [<-|Ha], Hb as [<-|Hb]; auto.
  symmetry. apply W2; assumption.
Qed.

Lemma firstof_some id rest y : firstof id rest = Some y -> In y rest /\ id = idz y.
Proof. unfold firstof. intros H. apply find_some in H. destruct H as [H1 H2]. apply idmatch_iff in H2. auto. Qed.

Notation nidx := (g_next_idx aid_eq).

Lemma nidx_none x rest : nidx x rest = None <-> firstof (idz x) rest = None.
Proof.
  unfold firstof. induction rest as [|y r IH]; cbn [g_next_idx find]; [split; reflexivity|].
  rewrite aid_eq_idmatch. destruct (idmatch (idz x) y); [split; discriminate|].
  destruct (nidx x r); cbn [option_map]; split; try discriminate; try tauto.
  intros H. apply IH in H. discriminate.
Qed.

Lemma nidx_some x rest y : firstof (idz x) rest = Some y -> exists j, nidx x rest = Some j.
Proof.
  intros H. destruct (nidx x rest) eqn:E; [eauto|]. apply nidx_none in E. congruence.
Qed.

Lemma later_refl a : later a a = true.
Proof. destruct a; cbn; auto. apply Nat.leb_refl. Qed.
Lemma later_total a b : later a b = false -> later b a = true.
Proof.
  destruct a, b; cbn; auto; try discriminate. intros H. apply Nat.leb_gt in H. apply Nat.leb_le. lia.
Qed.
Lemma later_trans a b c : later a b = true -> later b c = true -> later a c = true.
Proof.
  destruct a, b, c; cbn; auto; try discriminate. intros H1 H2.
  apply Nat.leb_le in H1, H2. apply Nat.leb_le. lia.
Qed.

(* index order of the next uses of two different lines = order of the keys of those uses *)
Lemma later_key : forall rest u v yu yv, wfs rest -> idz u <> idz v ->
  firstof (idz u) rest = Some yu -> firstof (idz v) rest = Some yv ->
  later (nidx u rest) (nidx v rest) = negb (clt yu yv).
Proof.
  induction rest as [|y r IH]; intros u v yu yv W N Fu Fv; [discriminate|].
  pose proof W as W0. cbn [wfs] in W. destruct W as (W1 & W2 & _ & W).
  unfold firstof in Fu, Fv. cbn [find g_next_idx] in *. rewrite !aid_eq_idmatch.
  destruct (idmatch (idz u) y) eqn:Mu; destruct (idmatch (idz v) y) eqn:Mv.
  - apply idmatch_iff in Mu, Mv. congruence.
  - inversion Fu; subst yu. fold (firstof (idz v) r) in Fv.
    destruct (nidx_some v r yv Fv) as [j ->]. cbn [option_map later Nat.leb].
    destruct (firstof_some _ _ _ Fv) as [Hin Hid].
    destruct (clt y yv) eqn:C; [reflexivity|]. exfalso.
    apply idmatch_iff in Mu. apply N. rewrite Mu, Hid. apply W2; assumption.
  - inversion Fv; subst yv. fold (firstof (idz u) r) in Fu.
    destruct (nidx_some u r yu Fu) as [j ->]. cbn [option_map later Nat.leb].
    destruct (firstof_some _ _ _ Fu) as [Hin _]. rewrite (W1 yu Hin). reflexivity.
  - fold (firstof (idz u) r) in Fu. fold (firstof (idz v) r) in Fv.
    destruct (nidx_some u r yu Fu) as [ju Eu]. destruct (nidx_some v r yv Fv) as [jv Ev].
    rewrite <- (IH u v yu yv W N Fu Fv). rewrite Eu, Ev. reflexivity.
Qed.

Notation furthest := (g_furthest aid_eq).

Lemma furthest_none rest R : furthest rest R = None -> R = [].
Proof.
  destruct R as [|y R]; auto. cbn [g_furthest]. destruct (furthest rest R); [|discriminate].
  destruct (later _ _); discriminate.
Qed.

Lemma furthest_max rest : forall R z, furthest rest R = Some z ->
  In z R /\ forall y, In y R -> later (nidx z rest) (nidx y rest) = true.
Proof.
  induction R as [|y R IH]; intros z H; [discriminate|]. cbn [g_furthest] in H.
  destruct (furthest rest R) as [z'|] eqn:F.
  - destruct (IH z' eq_refl) as [Hin Hmax].
    destruct (later (nidx y rest) (nidx z' rest)) eqn:L; inversion H; subst z.
    + split; [left; reflexivity|]. intros w [<-|Hw]; [apply later_refl|].
      eapply later_trans; [exact L|apply Hmax; exact Hw].
    + split; [right; exact Hin|]. intros w [<-|Hw]; [apply later_total; exact L|apply Hmax; exact Hw].
  - inversion H; subst z. apply furthest_none in F. subst R.
    split; [left; reflexivity|]. intros w [<-|[]]. apply later_refl.
Qed.

(* ------------------------------------------------------------------ dropping a line *)
Definition ideqb (a b : idt) : bool := Z.eqb (fst a) (fst b) && list_eqb (snd a) (snd b).
Lemma ideqb_iff a b : ideqb a b = true <-> a = b.
Proof.
  destruct a, b. unfold ideqb. cbn [fst snd]. rewrite andb_true_iff, Z.eqb_eq, list_eqb_eq.
  split; [intros [-> ->]; reflexivity|]. intros H. inversion H. auto.
Qed.

Lemma aid_eq_ideqb x y : aid_eq x y = ideqb (idz x) (idz y).
Proof. rewrite aid_eq_idmatch. reflexivity. Qed.

Notation drop := (g_drop aid_eq).

Lemma map_drop x R : map idz (drop x R) = filter (fun id => negb (ideqb (idz x) id)) (map idz R).
Proof.
  unfold g_drop. induction R as [|y R IH]; cbn [filter map]; [reflexivity|].
  rewrite aid_eq_ideqb. destruct (ideqb (idz x) (idz y)); cbn [negb map]; rewrite IH; reflexivity.
Qed.

Lemma drop_perm R x L : Permutation (map idz R) (idz x :: L) -> NoDup (map idz R) ->
  Permutation (map idz (drop x R)) L.
Proof.
  intros P N. rewrite map_drop.
  eapply perm_trans; [apply perm_filter; exact P|]. cbn [filter].
  assert (ideqb (idz x) (idz x) = true) as -> by (apply ideqb_iff; reflexivity). cbn [negb].
  rewrite filter_all; [apply Permutation_refl|].
  intros id Hid. apply negb_true_iff. destruct (ideqb (idz x) id) eqn:E; auto.
  apply ideqb_iff in E. subst id.
  pose proof (Permutation_NoDup P N) as N'. inversion N'; subst. contradiction.
Qed.

Lemma drop_absent R x : ~ In (idz x) (map idz R) -> drop x R = R.
Proof.
  intros H. unfold g_drop. apply filter_all. intros y Hy. apply negb_true_iff.
  destruct (aid_eq x y) eqn:E; auto. apply aid_eq_iff in E. exfalso. apply H. rewrite E. apply in_map. exact Hy.
Qed.

Lemma existsb_hit x L : existsb (aid_eq x) L = true <-> In (idz x) (map idz L).
Proof.
  rewrite existsb_exists. split.
  - intros [y [Hy E]]. apply aid_eq_iff in E. rewrite E. apply in_map. exact Hy.
  - intros H. apply in_map_iff in H. destruct H as [y [E Hy]]. exists y. split; auto. apply aid_eq_iff. auto.
Qed.

(* ------------------------------------------------------------------ next_evict against the
   replaceable resident set *)
Definition keyok (rest : list sa) (el : celem) : Prop :=
  exists y, firstof (eid el) rest = Some y /\ ce_next el = a_stamp (snd y).

Record RelNE (rest : list sa) (ne : list celem) (R : list sa) : Prop := {
  N_perm : Permutation (map idz R) (map eid ne);
  N_nd : NoDup (map eid ne);
  N_sorted : sortedE ne;
  N_key : forall el, In el ne -> keyok rest el }.

Lemma ce_lt_keys rest el el' y y' :
  firstof (eid el) rest = Some y -> ce_next el = a_stamp (snd y) ->
  firstof (eid el') rest = Some y' -> ce_next el' = a_stamp (snd y') ->
  ce_lt el el' = clt y y'.
Proof.
  intros F1 K1 F2 K2. destruct (firstof_some _ _ _ F1) as [_ E1]. destruct (firstof_some _ _ _ F2) as [_ E2].
  unfold eid, idz in E1, E2. inversion E1. inversion E2.
  unfold ce_lt, clt. rewrite K1, K2, H0, H2. reflexivity.
Qed.

Lemma relne_len rest ne R : RelNE rest ne R -> length R = length ne.
Proof. intros [P _ _ _]. apply Permutation_length in P. rewrite !map_length in P. exact P. Qed.

Lemma furthest_last rest ne0 v R : wfs rest -> RelNE rest (ne0 ++ [v]) R ->
  exists z, furthest rest R = Some z /\ idz z = eid v.
Proof.
  intros W [P N S K].
  destruct (furthest rest R) as [z|] eqn:F.
  2:{ apply furthest_none in F. subst R. cbn in P. apply Permutation_nil in P.
      rewrite map_app in P. destruct (map eid ne0); discriminate. }
  exists z. split; auto. destruct (furthest_max _ _ _ F) as [Hz Hmax].
  assert (Hzin : In (idz z) (map eid (ne0 ++ [v]))) by (apply (Permutation_in _ P); apply in_map; exact Hz).
  apply in_map_iff in Hzin. destruct Hzin as [elz [Ez Hel]].
  apply in_app_or in Hel. destruct Hel as [Hel|[<-|[]]]; [|congruence]. exfalso.
  (* the last element v belongs to some y of R *)
  assert (Hv : In (eid v) (map idz R)).
  { apply (Permutation_in _ (Permutation_sym P)). apply in_map. apply in_or_app. right. left. reflexivity. }
  apply in_map_iff in Hv. destruct Hv as [y [Ey Hy]].
  destruct (K elz (in_or_app _ _ _ (or_introl Hel))) as [fz [Fz Kz]].
  assert (Hvin : In v (ne0 ++ [v])) by (apply in_or_app; right; left; reflexivity).
  destruct (K v Hvin) as [fy [Fy Ky]].
  (* different lines *)
  assert (Nid : eid elz <> eid v).
  { rewrite map_app in N. cbn [map] in N. apply NoDup_remove_2 in N. rewrite app_nil_r in N.
    intros E. apply N. rewrite <- E. apply in_map. exact Hel. }
  pose proof (Hmax y Hy) as L.
  rewrite (later_key rest z y fz fy W) in L; try congruence.
  apply negb_true_iff in L.
  destruct (sortedE_app_last _ _ S) as [_ Sl]. pose proof (Sl elz Hel) as C.
  rewrite (ce_lt_keys rest v elz fy fz Fy Ky Fz Kz) in C.
  destruct (firstof_some _ _ _ Fz) as [Iz Idz]. destruct (firstof_some _ _ _ Fy) as [Iy Idy].
  pose proof (wfs_pair rest fz fy W Iz Iy L C). congruence.
Qed.

Lemma nodup_app_l {A} (l l' : list A) : NoDup (l ++ l') -> NoDup l.
Proof.
  induction l as [|x l IH]; cbn [app]; intros H; [constructor|].
  inversion H as [|? ? Hn Hd]; subst. constructor; auto.
  intros Hin. apply Hn. apply in_or_app. left. exact Hin.
Qed.

Lemma nodup_app_r {A} (l l' : list A) : NoDup (l ++ l') -> NoDup l'.
Proof.
  induction l as [|x l IH]; cbn [app]; intros H; auto. inversion H; subst. auto.
Qed.

Lemma relne_remove_last rest ne0 v R z : RelNE rest (ne0 ++ [v]) R -> idz z = eid v ->
  RelNE rest ne0 (drop z R).
Proof.
  intros [P N S K] E. constructor.
  - apply drop_perm.
    + rewrite E. eapply perm_trans; [exact P|]. rewrite map_app. cbn [map].
      apply Permutation_sym. apply Permutation_cons_append.
    + apply (Permutation_NoDup (Permutation_sym P) N).
  - rewrite map_app in N. apply nodup_app_l in N. exact N.
  - apply (sortedE_app_last _ _ S).
  - intros el Hel. apply K. apply in_or_app. left. exact Hel.
Qed.

Lemma map_fst_add_wr i v (t : list (Z * Z)) : map fst (add_wr i v t) = map fst t.
Proof.
  unfold add_wr. revert i. induction t as [|p t IH]; intros [|i]; cbn [upd map fst]; auto.
  rewrite IH. reflexivity.
Qed.

Lemma rev_cons_last {A} (l : list A) v t : rev l = v :: t -> l = rev t ++ [v].
Proof. intros H. rewrite <- (rev_involutive l), H. reflexivity. Qed.

Lemma evict_room cap line rest np : wfs rest -> forall fuel ne R occ ovf tr,
  RelNE rest ne R -> occ = line * Z.of_nat (length ne + np) ->
  exists ne' occ' ovf' tr',
    evict_loop fuel cap line ne occ ovf tr = (ne', occ', ovf', tr')
    /\ RelNE rest ne' (g_make_room aid_eq fuel cap line rest R np)
    /\ occ' = line * Z.of_nat (length ne' + np)
    /\ map fst tr' = map fst tr
    /\ (forall e, In e ne' -> In e ne).
Proof.
  intros W. induction fuel as [|f IH]; intros ne R occ ovf tr Rel Hocc; cbn [evict_loop g_make_room].
  - exists ne, occ, ovf, tr. repeat (split; auto).
  - pose proof (relne_len _ _ _ Rel) as Len. rewrite Len.
    assert (T : Z.ltb cap (occ + line) = negb (Z.leb ((Z.of_nat (length ne + np) + 1) * line) cap)).
    { rewrite Z.leb_antisym, negb_involutive. f_equal. rewrite Hocc. ring. }
    rewrite T. destruct (Z.leb ((Z.of_nat (length ne + np) + 1) * line) cap); cbn [negb].
    + exists ne, occ, ovf, tr. repeat (split; auto).
    + destruct (rev ne) as [|v t] eqn:Rv.
      * assert (ne = []) by (rewrite <- (rev_involutive ne), Rv; reflexivity). subst ne.
        destruct R; [|cbn in Len; discriminate]. cbn [g_furthest].
        exists [], occ, (ovf + 1), tr. repeat (split; auto).
      * apply rev_cons_last in Rv. subst ne. rewrite removelast_last.
        destruct (furthest_last rest (rev t) v R W Rel) as [z [Fz Ez]]. rewrite Fz.
        destruct (IH (rev t) (drop z R) (occ - line) ovf
                     (if ce_dirty v then add_wr (Z.to_nat (ce_pos v)) line tr else tr)
                     (relne_remove_last _ _ _ _ _ Rel Ez)) as (ne' & occ' & ovf' & tr' & E & R' & O' & T' & I').
        { rewrite Hocc, app_length. cbn [length]. lia. }
        exists ne', occ', ovf', tr'. rewrite E.
        split; [reflexivity|]. split; [exact R'|]. split; [exact O'|].
        split; [|intros e He; apply in_or_app; left; apply I'; exact He].
        rewrite T'. destruct (ce_dirty v); [apply map_fst_add_wr|reflexivity].
Qed.

(* the accessed replaceable line is the head of next_evict *)
Lemma accessed_is_head x rest ne R el : wfs (x :: rest) -> RelNE (x :: rest) ne R ->
  In el ne -> eid el = idz x -> exists ne', ne = el :: ne'.
Proof.
  intros W [P N S K] Hel Eel. destruct ne as [|h ne']; [destruct Hel|].
  destruct Hel as [->|Hel]; [eauto|]. exfalso.
  cbn [sortedE] in S. destruct S as [Sh _]. pose proof (Sh el Hel) as C.
  cbn [map] in N. inversion N as [|? ? Nh _]; subst.
  assert (Nid : eid h <> idz x).
  { intros E. apply Nh. rewrite E, <- Eel. apply in_map. exact Hel. }
  destruct (K h (or_introl eq_refl)) as [yh [Fh Kh]].
  destruct (K el (or_intror Hel)) as [ye [Fe Ke]].
  rewrite (ce_lt_keys _ _ _ _ _ Fe Ke Fh Kh) in C.
  unfold firstof in Fe, Fh. cbn [find] in Fe, Fh.
  assert (idmatch (eid el) x = true) as M by (apply idmatch_iff; exact Eel). rewrite M in Fe.
  inversion Fe; subst ye.
  assert (idmatch (eid h) x = false) as M' by (apply idmatch_false; exact Nid). rewrite M' in Fh.
  fold (firstof (eid h) rest) in Fh. destruct (firstof_some _ _ _ Fh) as [Ih Eh].
  cbn [wfs] in W. destruct W as (_ & W2 & _). apply Nid. rewrite Eh. symmetry. apply W2; assumption.
Qed.

(* ------------------------------------------------------------------ the simulation relation *)
Record Sim (line : Z) (rest : list sa) (c : cst) (R P : list sa) (fills : list Z) : Prop := {
  S_err : c_err c = 0;
  S_ne : RelNE rest (c_ne c) R;
  S_pin : Permutation (map idz P) (map eid (c_pin c));
  S_nd : NoDup (map eid (c_ne c) ++ map eid (c_pin c));
  S_pkey : forall el, In el (c_pin c) -> keyok rest el;
  S_occ : c_occ c = line * Z.of_nat (length (c_ne c) + length (c_pin c));
  S_tr : map fst (c_tr c) = map (Z.mul line) fills }.

Lemma keyok_tl x rest el : keyok (x :: rest) el -> eid el <> idz x -> keyok rest el.
Proof.
  intros [y [F K]] N. exists y. split; auto. unfold firstof in *. cbn [find] in F.
  assert (idmatch (eid el) x = false) as M by (apply idmatch_false; exact N). rewrite M in F. exact F.
Qed.

Lemma relne_tl x rest ne R : RelNE (x :: rest) ne R -> ~ In (idz x) (map eid ne) -> RelNE rest ne R.
Proof.
  intros [P N S K] A. constructor; auto. intros el Hel. apply (keyok_tl x); [apply K; exact Hel|].
  intros E. apply A. rewrite <- E. apply in_map. exact Hel.
Qed.

Lemma nodup_app_disj {A} (l l' : list A) x : NoDup (l ++ l') -> In x l -> ~ In x l'.
Proof.
  induction l as [|y l IH]; cbn [app]; intros N H; [destruct H|].
  inversion N as [|? ? Hn Hd]; subst. destruct H as [<-|H]; [|apply IH; assumption].
  intros H'. apply Hn. apply in_or_app. right. exact H'.
Qed.

Lemma nodup_app_intro {A} (l l' : list A) :
  NoDup l -> NoDup l' -> (forall x, In x l -> ~ In x l') -> NoDup (l ++ l').
Proof.
  induction l as [|y l IH]; cbn [app]; intros N N' D; auto.
  inversion N as [|? ? Hn Hd]; subst. constructor.
  - intros H. apply in_app_or in H. destruct H as [H|H]; [contradiction|]. apply (D y); [left; reflexivity|exact H].
  - apply IH; auto. intros x Hx. apply D. right. exact Hx.
Qed.

Lemma map_eid_insert e l : Permutation (map eid (ce_insert e l)) (eid e :: map eid l).
Proof. apply (Permutation_map eid (ce_insert_perm e l)). Qed.

Lemma length_insert e l : length (ce_insert e l) = S (length l).
Proof. apply (Permutation_length (ce_insert_perm e l)). Qed.

Lemma upd_map {A B} (f : A -> B) (g : A -> A) (g' : B -> B) i l :
  (forall a, f (g a) = g' (f a)) -> map f (upd i g l) = upd i g' (map f l).
Proof.
  intros H. revert i. induction l as [|a l IH]; intros [|i]; cbn [upd map]; auto.
  - rewrite H. reflexivity.
  - rewrite IH. reflexivity.
Qed.

Lemma tr_fills line i (w : bool) tr fills : map fst tr = map (Z.mul line) fills ->
  map fst (if negb w then add_rd i line tr else tr)
  = map (Z.mul line) (if w then fills else upd i (Z.add 1) fills).
Proof.
  intros H. destruct w; cbn [negb]; auto. unfold add_rd.
  rewrite (upd_map fst _ (fun z => z + line)) by reflexivity.
  rewrite (upd_map (Z.mul line) _ (fun z => z + line)) by (intros; lia).
  rewrite H. reflexivity.
Qed.

Lemma head_not_mine i o ne : ce_find i o ne = None ->
  match ne with h :: _ => is_line i o h | [] => false end = false.
Proof. destruct ne as [|h ne]; cbn [ce_find]; auto. destruct (is_line i o h); [discriminate|auto]. Qed.

Lemma ce_le_not_lt a b : ce_le a b = negb (ce_lt b a).
Proof.
  unfold ce_le, ce_lt, ce_same. rewrite (list_eqb_sym (ce_next b)).
  destruct (list_eqb (ce_next a) (ce_next b)) eqn:E; cbn [andb].
  - destruct (Z.ltb_spec (ce_pos a) (ce_pos b)), (Z.eqb_spec (ce_pos a) (ce_pos b)),
             (Z.ltb_spec (ce_pos b) (ce_pos a)); cbn; try lia; reflexivity.
  - rewrite orb_false_r. destruct (lex_lt (ce_next a) (ce_next b)) eqn:L.
    + rewrite (lex_lt_asym _ _ L). reflexivity.
    + destruct (lex_lt (ce_next b) (ce_next a)) eqn:L2; auto.
      apply list_eqb_neq in E. exfalso. apply E. apply lex_total; assumption.
Qed.

Section Step.
Variables (cap line : Z).
Notation amin := (g_min_run aid_eq aw astg fst cap line).

(* the line of x is not resident: the state relation survives the step unchanged *)
Lemma sim_bypass x rest c R P fills tr fills' :
  Sim line (x :: rest) c R P fills ->
  ~ In (idz x) (map eid (c_ne c) ++ map eid (c_pin c)) ->
  map fst tr = map (Z.mul line) fills' ->
  Sim line rest {| c_ne := c_ne c; c_pin := c_pin c; c_occ := c_occ c; c_ovf := c_ovf c;
                   c_tr := tr; c_err := 0 |} R P fills'.
Proof.
  intros [Er Ne Pi Nd Pk Oc Tr] A T. constructor; cbn [c_ne c_pin c_occ c_ovf c_tr c_err]; auto.
  - apply (relne_tl x); auto. intros H. apply A. apply in_or_app. left. exact H.
  - intros el Hel. apply (keyok_tl x); [apply Pk; exact Hel|].
    intros E. apply A. apply in_or_app. right. rewrite <- E. apply in_map. exact Hel.
Qed.

(* after making room a new line is inserted (pinned or replaceable) *)
Lemma sim_insert x rest c R P fills y' d (stg : bool) tr fills' :
  wfs rest -> Sim line (x :: rest) c R P fills ->
  ~ In (idz x) (map eid (c_ne c) ++ map eid (c_pin c)) ->
  firstof (idz x) rest = Some y' ->
  map fst tr = map (Z.mul line) fills' ->
  let el := {| ce_next := a_stamp (snd y'); ce_pos := Z.of_nat (fst x); ce_obj := a_obj (snd x);
               ce_dirty := d |} in
  let R' := g_make_room aid_eq (S (length R)) cap line rest R (length P) in
  exists ne' occ' ovf' tr',
    evict_loop (S (length (c_ne c))) cap line (c_ne c) (c_occ c) (c_ovf c) tr = (ne', occ', ovf', tr')
    /\ Sim line rest {| c_ne := if stg then ne' else ce_insert el ne';
                        c_pin := if stg then el :: c_pin c else c_pin c;
                        c_occ := occ' + line; c_ovf := ovf'; c_tr := tr'; c_err := 0 |}
           (if stg then R' else x :: R') (if stg then x :: P else P) fills'.
Proof.
  intros W [Er Ne Pi Nd Pk Oc Tr] A Fx T el R'.
  assert (Ane : ~ In (idz x) (map eid (c_ne c))) by (intros H; apply A; apply in_or_app; left; exact H).
  assert (Api : ~ In (idz x) (map eid (c_pin c))) by (intros H; apply A; apply in_or_app; right; exact H).
  pose proof (relne_tl x rest _ _ Ne Ane) as Ne0.
  pose proof (relne_len _ _ _ Ne) as Len.
  assert (LenP : length P = length (c_pin c)).
  { apply Permutation_length in Pi. rewrite !map_length in Pi. exact Pi. }
  destruct (evict_room cap line rest (length (c_pin c)) W (S (length (c_ne c))) (c_ne c) R (c_occ c)
                       (c_ovf c) tr Ne0 Oc) as (ne' & occ' & ovf' & tr' & E & Rel' & O' & T' & I').
  exists ne', occ', ovf', tr'. split; [exact E|].
  unfold R'. rewrite Len, LenP.
  set (R2 := g_make_room aid_eq (S (length (c_ne c))) cap line rest R (length (c_pin c))) in *.
  assert (Eel : eid el = idz x) by reflexivity.
  assert (Kel : keyok rest el) by (exists y'; split; [rewrite Eel; exact Fx|reflexivity]).
  assert (Ane' : ~ In (idz x) (map eid ne')).
  { intros H. apply in_map_iff in H. destruct H as [e [Ee He]]. apply Ane. rewrite <- Ee. apply in_map. apply I'. exact He. }
  assert (Npin : NoDup (map eid (c_pin c))) by (eapply nodup_app_r; exact Nd).
  assert (Disj : forall id, In id (map eid ne') -> ~ In id (map eid (c_pin c))).
  { intros id H. apply (nodup_app_disj _ _ id Nd). apply in_map_iff in H. destruct H as [e [Ee He]].
    rewrite <- Ee. apply in_map. apply I'. exact He. }
  assert (PkT : forall e, In e (c_pin c) -> keyok rest e).
  { intros e He. apply (keyok_tl x); [apply Pk; exact He|]. intros Ee. apply Api. rewrite <- Ee. apply in_map. exact He. }
  destruct Rel' as [P' N' S' K'].
  destruct stg; constructor; cbn [c_ne c_pin c_occ c_ovf c_tr c_err]; auto.
  - constructor; auto.
  - cbn [map]. rewrite Eel. apply perm_skip. exact Pi.
  - cbn [map]. apply nodup_app_intro; auto.
    + constructor; [rewrite Eel; exact Api|exact Npin].
    + intros id H [H'|H']; [rewrite Eel in H'; subst id; contradiction|exact (Disj id H H')].
  - intros e [<-|He]; [exact Kel|apply PkT; exact He].
  - rewrite O'. cbn [length]. lia.
  - rewrite T'. exact T.
  - constructor.
    + cbn [map]. eapply perm_trans; [|apply Permutation_sym; apply map_eid_insert].
      rewrite Eel. apply perm_skip. exact P'.
    + apply (Permutation_NoDup (Permutation_sym (map_eid_insert el ne'))). constructor; [rewrite Eel; exact Ane'|exact N'].
    + apply ce_insert_sorted. exact S'.
    + intros e He. apply (Permutation_in _ (ce_insert_perm el ne')) in He.
      destruct He as [<-|He]; [exact Kel|apply K'; exact He].
  - apply (Permutation_NoDup (Permutation_app_tail _ (Permutation_sym (map_eid_insert el ne')))).
    cbn [app]. constructor.
    + rewrite Eel. intros H. apply in_app_or in H. destruct H; contradiction.
    + apply nodup_app_intro; auto.
  - rewrite O', length_insert. lia.
  - rewrite T'. exact T.
Qed.
End Step.

Section Step2.
Variables (cap line : Z).
Notation amin := (g_min_run aid_eq aw astg fst cap line).

Lemma hit_iff x rest c R P fills : Sim line rest c R P fills ->
  (existsb (aid_eq x) (R ++ P) = true <-> In (idz x) (map eid (c_ne c) ++ map eid (c_pin c))).
Proof.
  intros [_ [Pn _ _ _] Pi _ _ _ _]. rewrite existsb_hit, map_app.
  split; intros H; apply in_app_or in H; apply in_or_app; destruct H as [H|H].
  - left. apply (Permutation_in _ Pn H).
  - right. apply (Permutation_in _ Pi H).
  - left. apply (Permutation_in _ (Permutation_sym Pn) H).
  - right. apply (Permutation_in _ (Permutation_sym Pi) H).
Qed.

Lemma step_hit_ne i a rest c R P fills el :
  wfs ((i, a) :: rest) -> Sim line ((i, a) :: rest) c R P fills ->
  ce_find (Z.of_nat i) (a_obj a) (c_ne c) = Some el ->
  exists R' P' fills',
    amin ((i, a) :: rest) R P fills = amin rest R' P' fills'
    /\ Sim line rest (cache_step cap line c (i, a)) R' P' fills'.
Proof.
  intros W S Fne. pose proof W as W0. cbn [wfs] in W. destruct W as (W1 & W2 & Wn & Wr).
  cbn [snd] in Wn. pose proof S as S0. destruct S as [Er Ne Pi Nd Pk Oc Tr].
  destruct (ce_find_some _ _ _ _ Fne) as [Hel Eel].
  change (Z.of_nat i, a_obj a) with (idz (i, a)) in Eel.
  destruct (accessed_is_head _ _ _ _ _ W0 Ne Hel Eel) as [ne' Hne].
  assert (Hit : existsb (aid_eq (i, a)) (R ++ P) = true).
  { apply (hit_iff _ _ _ _ _ _ S0). apply in_or_app. left. rewrite <- Eel. apply in_map. exact Hel. }
  assert (Api : ~ In (idz (i, a)) (map eid (c_pin c))).
  { apply (nodup_app_disj _ _ _ Nd). rewrite <- Eel. apply in_map. exact Hel. }
  assert (AP : ~ In (idz (i, a)) (map idz P)).
  { intros H. apply Api. apply (Permutation_in _ Pi H). }
  unfold cache_step. cbn zeta. cbn [fst snd]. rewrite Er, Fne. cbn [Z.eqb negb].
  rewrite Hne in *. cbn [tl].
  assert (is_line (Z.of_nat i) (a_obj a) el = true) as -> by (apply is_line_eid; exact Eel).
  cbn [andb]. cbn [map] in Nd. rewrite Eel in Nd. cbn [app] in Nd.
  inversion Nd as [|? ? Nx Nd']; subst.
  assert (Ane' : ~ In (idz (i, a)) (map eid ne')) by (intros H; apply Nx; apply in_or_app; left; exact H).
  destruct Ne as [Pn Nn Sn Kn]. cbn [map] in Pn, Nn. rewrite Eel in Pn, Nn.
  cbn [sortedE] in Sn. destruct Sn as [_ Sn'].
  assert (Kn' : forall e, In e ne' -> keyok rest e).
  { intros e He. apply (keyok_tl (i, a)); [apply Kn; right; exact He|].
    intros E. apply Ane'. rewrite <- E. apply in_map. exact He. }
  assert (Pk' : forall e, In e (c_pin c) -> keyok rest e).
  { intros e He. apply (keyok_tl (i, a)); [apply Pk; exact He|].
    intros E. apply Api. rewrite <- E. apply in_map. exact He. }
  cbn [g_min_run]. rewrite Hit.
  destruct (firstof (idz (i, a)) rest) as [y'|] eqn:Fx; rewrite Wn; cbn [option_map].
  - (* used again: re-keyed *)
    destruct (nidx_some _ _ _ Fx) as [j ->].
    exists R, P, fills. split; [reflexivity|].
    set (el2 := {| ce_next := a_stamp (snd y'); ce_pos := Z.of_nat i; ce_obj := a_obj a;
                   ce_dirty := ce_dirty el || a_wb a |}).
    assert (E2 : eid el2 = idz (i, a)) by reflexivity.
    constructor; cbn [c_ne c_pin c_occ c_ovf c_tr c_err]; auto.
    + constructor.
      * eapply perm_trans; [exact Pn|]. apply Permutation_sym. rewrite <- E2. apply map_eid_insert.
      * apply (Permutation_NoDup (Permutation_sym (map_eid_insert el2 ne'))). rewrite E2. exact Nn.
      * apply ce_insert_sorted. exact Sn'.
      * intros e He. apply (Permutation_in _ (ce_insert_perm el2 ne')) in He.
        destruct He as [<-|He]; [|apply Kn'; exact He].
        exists y'. split; [rewrite E2; exact Fx|reflexivity].
    + apply (Permutation_NoDup (Permutation_app_tail _ (Permutation_sym (map_eid_insert el2 ne')))).
      rewrite E2. cbn [app]. constructor; assumption.
    + rewrite length_insert. rewrite Oc. cbn [length]. reflexivity.
  - (* last use: the line leaves *)
    assert (nidx (i, a) rest = None) as -> by (apply nidx_none; exact Fx).
    exists (drop (i, a) R), (drop (i, a) P), fills. split; [reflexivity|].
    rewrite (drop_absent P (i, a) AP).
    constructor; cbn [c_ne c_pin c_occ c_ovf c_tr c_err]; auto.
    + constructor; auto. apply drop_perm; [exact Pn|]. apply (Permutation_NoDup (Permutation_sym Pn) Nn).
      inversion Nn; assumption.
    + rewrite Oc. cbn [length]. lia.
    + destruct (ce_dirty el || a_wb a); [rewrite map_fst_add_wr|]; exact Tr.
Qed.

Lemma step_hit_pin i a rest c R P fills ep :
  wfs ((i, a) :: rest) -> Sim line ((i, a) :: rest) c R P fills ->
  ce_find (Z.of_nat i) (a_obj a) (c_ne c) = None ->
  ce_find (Z.of_nat i) (a_obj a) (c_pin c) = Some ep ->
  exists R' P' fills',
    amin ((i, a) :: rest) R P fills = amin rest R' P' fills'
    /\ Sim line rest (cache_step cap line c (i, a)) R' P' fills'.
Proof.
  intros W S Fne Fpi. pose proof W as W0. cbn [wfs] in W. destruct W as (W1 & W2 & Wn & Wr).
  cbn [snd] in Wn. pose proof S as S0. destruct S as [Er Ne Pi Nd Pk Oc Tr].
  destruct (ce_find_some _ _ _ _ Fpi) as [Hel Eel].
  change (Z.of_nat i, a_obj a) with (idz (i, a)) in Eel.
  pose proof (ce_find_none _ _ _ Fne) as Ane. change (Z.of_nat i, a_obj a) with (idz (i, a)) in Ane.
  assert (Hit : existsb (aid_eq (i, a)) (R ++ P) = true).
  { apply (hit_iff _ _ _ _ _ _ S0). apply in_or_app. right. rewrite <- Eel. apply in_map. exact Hel. }
  assert (AR : ~ In (idz (i, a)) (map idz R)).
  { intros H. apply Ane. apply (Permutation_in _ (N_perm _ _ _ Ne) H). }
  destruct (ce_remove_perm _ _ _ _ Fpi) as (Prem & Lrem & Irem).
  change (Z.of_nat i, a_obj a) with (idz (i, a)) in Prem.
  pose proof (Permutation_NoDup (Permutation_app_head (map eid (c_ne c)) Prem) Nd) as Nd2.
  pose proof (NoDup_remove_1 _ _ _ Nd2) as Nd3. pose proof (NoDup_remove_2 _ _ _ Nd2) as Nx.
  set (rem := ce_remove (Z.of_nat i) (a_obj a) (c_pin c)) in *.
  assert (Arem : ~ In (idz (i, a)) (map eid rem)) by (intros H; apply Nx; apply in_or_app; right; exact H).
  assert (Krem : forall e, In e rem -> keyok rest e).
  { intros e He. apply (keyok_tl (i, a)); [apply Pk; apply Irem; exact He|].
    intros E. apply Arem. rewrite <- E. apply in_map. exact He. }
  pose proof (relne_tl _ _ _ _ Ne Ane) as Ne'.
  unfold cache_step. cbn zeta. cbn [fst snd]. rewrite Er, Fne, Fpi. cbn [Z.eqb negb].
  rewrite (head_not_mine _ _ _ Fne).
  cbn [g_min_run]. rewrite Hit.
  destruct (firstof (idz (i, a)) rest) as [y'|] eqn:Fx; rewrite Wn; cbn [option_map].
  - destruct (nidx_some _ _ _ Fx) as [j ->].
    exists R, P, fills. split; [reflexivity|].
    constructor; cbn [c_ne c_pin c_occ c_ovf c_tr c_err]; auto.
    + cbn [map eid ce_pos ce_obj]. fold rem. eapply perm_trans; [exact Pi|exact Prem].
    + intros e [<-|He]; [|apply Krem; exact He].
      exists y'. split; [exact Fx|reflexivity].
    + cbn [length]. fold rem. rewrite Oc, Lrem. reflexivity.
  - assert (nidx (i, a) rest = None) as -> by (apply nidx_none; exact Fx).
    exists (drop (i, a) R), (drop (i, a) P), fills. split; [reflexivity|].
    rewrite (drop_absent R (i, a) AR).
    constructor; cbn [c_ne c_pin c_occ c_ovf c_tr c_err]; auto.
    + apply drop_perm; [eapply perm_trans; [exact Pi|exact Prem]|].
      apply (Permutation_NoDup (Permutation_sym Pi)). eapply nodup_app_r. exact Nd.
    + fold rem. rewrite Oc, Lrem. lia.
    + cbn [andb]. destruct (ce_dirty ep || a_wb a); [rewrite map_fst_add_wr|]; exact Tr.
Qed.

Lemma make_room_fit f rest R np :
  Z.leb ((Z.of_nat (length R + np) + 1) * line) cap = true ->
  g_make_room aid_eq (S f) cap line rest R np = R.
Proof. intros H. cbn [g_make_room]. rewrite H. reflexivity. Qed.

Lemma step_miss i a rest c R P fills :
  wfs ((i, a) :: rest) -> Sim line ((i, a) :: rest) c R P fills ->
  ce_find (Z.of_nat i) (a_obj a) (c_ne c) = None ->
  ce_find (Z.of_nat i) (a_obj a) (c_pin c) = None ->
  exists R' P' fills',
    amin ((i, a) :: rest) R P fills = amin rest R' P' fills'
    /\ Sim line rest (cache_step cap line c (i, a)) R' P' fills'.
Proof.
  intros W S Fne Fpi. pose proof W as W0. cbn [wfs] in W. destruct W as (W1 & W2 & Wn & Wr).
  cbn [snd] in Wn. pose proof S as S0. destruct S as [Er Ne Pi Nd Pk Oc Tr].
  pose proof (ce_find_none _ _ _ Fne) as Ane. change (Z.of_nat i, a_obj a) with (idz (i, a)) in Ane.
  pose proof (ce_find_none _ _ _ Fpi) as Api. change (Z.of_nat i, a_obj a) with (idz (i, a)) in Api.
  assert (A : ~ In (idz (i, a)) (map eid (c_ne c) ++ map eid (c_pin c))).
  { intros H. apply in_app_or in H. destruct H; contradiction. }
  assert (Hit : existsb (aid_eq (i, a)) (R ++ P) = false).
  { destruct (existsb (aid_eq (i, a)) (R ++ P)) eqn:E; auto. apply (hit_iff _ _ _ _ _ _ S0) in E. contradiction. }
  pose proof (relne_tl _ _ _ _ Ne Ane) as Ne'.
  pose proof (relne_len _ _ _ Ne) as Len.
  assert (LenP : length P = length (c_pin c)).
  { apply Permutation_length in Pi. rewrite !map_length in Pi. exact Pi. }
  unfold cache_step. cbn zeta. cbn [fst snd]. rewrite Er, Fne, Fpi. cbn [Z.eqb negb andb].
  rewrite (head_not_mine _ _ _ Fne).
  set (tr := if negb (a_w a) then add_rd i line (c_tr c) else c_tr c).
  cbn [g_min_run]. rewrite Hit. unfold aw at 1. cbn [fst snd].
  set (fills' := if a_w a then fills else upd i (Z.add 1) fills).
  assert (T : map fst tr = map (Z.mul line) fills') by (apply tr_fills; exact Tr).
  assert (Tw : map fst (if a_wb a then add_wr i line tr else tr) = map (Z.mul line) fills').
  { destruct (a_wb a); [rewrite map_fst_add_wr|]; exact T. }
  destruct (firstof (idz (i, a)) rest) as [y'|] eqn:Fx; rewrite Wn; cbn [option_map].
  2:{ assert (nidx (i, a) rest = None) as -> by (apply nidx_none; exact Fx).
      exists R, P, fills'. split; [reflexivity|]. apply (sim_bypass line (i, a) rest c _ P fills _ fills' S0 A Tw). }
  destruct (nidx_some _ _ _ Fx) as [j Ej]. rewrite Ej.
  assert (T1 : Z.leb (c_occ c + line) cap = Z.leb ((Z.of_nat (length R + length P) + 1) * line) cap).
  { f_equal. rewrite Oc, Len, LenP. ring. }
  rewrite T1. unfold astg. cbn [snd].
  destruct (Z.leb ((Z.of_nat (length R + length P) + 1) * line) cap) eqn:Fit; cbn [orb].
  - destruct (sim_insert cap line (i, a) rest c R P fills y' (a_wb a) (a_stg a) tr fills' Wr S0 A Fx T)
      as (ne' & occ' & ovf' & tr' & E & Sm).
    cbn [fst snd] in E, Sm. rewrite E. rewrite (make_room_fit _ _ _ _ Fit) in Sm.
    destruct (a_stg a); eexists _, _, fills'; (split; [reflexivity|exact Sm]).
  - destruct (a_stg a) eqn:St; cbn [orb].
    + destruct (sim_insert cap line (i, a) rest c R P fills y' (a_wb a) true tr fills' Wr S0 A Fx T)
        as (ne' & occ' & ovf' & tr' & E & Sm).
      cbn [fst snd] in E, Sm. rewrite E. eexists _, _, fills'. split; [reflexivity|exact Sm].
    + destruct (rev (c_ne c)) as [|l t] eqn:Rv.
      * assert (Hne : c_ne c = []) by (rewrite <- (rev_involutive (c_ne c)), Rv; reflexivity).
        rewrite Hne in Len. destruct R; [|discriminate]. cbn [g_furthest].
        exists [], P, fills'. split; [reflexivity|]. apply (sim_bypass line (i, a) rest c _ P fills _ fills' S0 A Tw).
      * apply rev_cons_last in Rv.
        assert (Rel : RelNE rest (rev t ++ [l]) R) by (rewrite <- Rv; exact Ne').
        destruct (furthest_last rest (rev t) l R Wr Rel) as [z [Fz Ez]]. rewrite Fz.
        assert (Hl : In l (c_ne c)) by (rewrite Rv; apply in_or_app; right; left; reflexivity).
        destruct (N_key _ _ _ Ne' l Hl) as [fz [Ffz Kl]].
        assert (Nzx : idz z <> idz (i, a)).
        { rewrite Ez. intros E. apply Ane. rewrite <- E. apply in_map. exact Hl. }
        pose proof (later_key rest z (i, a) fz y' Wr Nzx) as LK. rewrite Ez in LK.
        specialize (LK Ffz Fx). rewrite Ej in LK. rewrite LK.
        set (el := {| ce_next := a_stamp (snd y'); ce_pos := Z.of_nat i; ce_obj := a_obj a; ce_dirty := a_wb a |}).
        assert (Cle : ce_le el l = negb (clt fz y')).
        { rewrite ce_le_not_lt. f_equal. apply (ce_lt_keys rest l el fz y'); auto. }
        rewrite Cle. destruct (negb (clt fz y')).
        -- destruct (sim_insert cap line (i, a) rest c R P fills y' (a_wb a) false tr fills' Wr S0 A Fx T)
             as (ne' & occ' & ovf' & tr' & E & Sm).
           cbn [fst snd] in E, Sm. rewrite E. eexists _, _, fills'. split; [reflexivity|exact Sm].
        -- exists R, P, fills'. split; [reflexivity|]. apply (sim_bypass line (i, a) rest c _ P fills _ fills' S0 A Tw).
Qed.

Lemma cache_step_sim x rest c R P fills :
  wfs (x :: rest) -> Sim line (x :: rest) c R P fills ->
  exists R' P' fills',
    amin (x :: rest) R P fills = amin rest R' P' fills'
    /\ Sim line rest (cache_step cap line c x) R' P' fills'.
Proof.
  destruct x as [i a]. intros W S.
  destruct (ce_find (Z.of_nat i) (a_obj a) (c_ne c)) as [el|] eqn:Fne.
  - eapply step_hit_ne; eauto.
  - destruct (ce_find (Z.of_nat i) (a_obj a) (c_pin c)) as [ep|] eqn:Fpi.
    + eapply step_hit_pin; eauto.
    + apply step_miss; auto.
Qed.

(* the cache run never fails on a well-formed schedule and charges exactly the fills of the
   furthest-next-use-with-bypass policy *)
Theorem cache_refines : forall sched c R P fills,
  wfs sched -> Sim line sched c R P fills ->
  let c' := fold_left (cache_step cap line) sched c in
  c_err c' = 0 /\ map fst (c_tr c') = map (Z.mul line) (amin sched R P fills).
Proof.
  induction sched as [|x rest IH]; intros c R P fills W S; cbn [fold_left g_min_run].
  - split; [exact (S_err _ _ _ _ _ _ S)|exact (S_tr _ _ _ _ _ _ S)].
  - destruct (cache_step_sim x rest c R P fills W S) as (R' & P' & fills' & E & S').
    cbn [g_min_run] in E. rewrite E. apply IH; [eapply wfs_tl; exact W|exact S'].
Qed.
End Step2.

Lemma sim_init line sched nb :
  Sim line sched {| c_ne := []; c_pin := []; c_occ := 0; c_ovf := 0; c_tr := repeat (0, 0) nb;
                    c_err := 0 |} [] [] (repeat 0 nb).
Proof.
  constructor; cbn [c_ne c_pin c_occ c_ovf c_tr c_err map app length]; auto.
  - constructor; cbn [map]; auto; [constructor|exact I|intros el []].
  - constructor.
  - intros el [].
  - cbn. lia.
  - induction nb as [|n IH]; cbn [repeat map fst]; [reflexivity|]. rewrite IH. f_equal. lia.
Qed.

Theorem cache_machine_spec cap line nb sched : wfs sched ->
  let c' := cache_run nb cap line sched in
  c_err c' = 0
  /\ map fst (c_tr c') = map (Z.mul line) (g_min_run aid_eq aw astg fst cap line sched [] [] (repeat 0 nb)).
Proof. intros W. unfold cache_run. apply cache_refines; [exact W|apply sim_init]. Qed.
