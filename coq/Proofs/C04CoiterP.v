(* C04CoiterP.v — proofs about the two-finger merges of Model/C04Coiter.v, for an arbitrary
   coordinate type with a decidable strict total order (instantiated with Python's tuple
   order in C04LexP.v). *)
From Coq Require Import ZArith List Bool Lia Sorted.
From FT Require Import Model.Base Model.C04Coiter.
Import ListNotations.

Section Generic.
  Context {C : Type}.
  Variable ceqb cltb : C -> C -> bool.
  Hypothesis ceqb_spec : forall x y, ceqb x y = true <-> x = y.
  Hypothesis clt_irrefl : forall x, cltb x x = false.
  Hypothesis clt_trans : forall x y z, cltb x y = true -> cltb y z = true -> cltb x z = true.
  Hypothesis clt_total : forall x y, ceqb x y = false -> cltb x y = false -> cltb y x = true.

  Definition clt (x y : C) : Prop := cltb x y = true.

  (* strictly ascending coordinates: "in ascending coordinate order and each coordinate once" *)
  Definition ksorted {P} (l : list (C * P)) : Prop := StronglySorted clt (map fst l).

  (* the payload found at coordinate c *)
  Fixpoint alookup {P} (c : C) (l : list (C * P)) : option P :=
    match l with
    | [] => None
    | (c', p) :: l' => if ceqb c c' then Some p else alookup c l'
    end.

  Lemma ceqb_refl x : ceqb x x = true.
  Proof. apply ceqb_spec. reflexivity. Qed.

  Lemma ceqb_false x y : ceqb x y = false <-> x <> y.
  Proof.
    split.
    - intros H E. apply ceqb_spec in E. congruence.
    - intros H. destruct (ceqb x y) eqn:E; [|reflexivity]. apply ceqb_spec in E. contradiction.
  Qed.

  Lemma clt_neq x y : clt x y -> ceqb x y = false.
  Proof.
    intros H. apply ceqb_false. intros ->. unfold clt in H. rewrite clt_irrefl in H. discriminate.
  Qed.

  Lemma clt_asym x y : clt x y -> cltb y x = false.
  Proof.
    intros H. destruct (cltb y x) eqn:E; [|reflexivity].
    pose proof (clt_trans _ _ _ H E) as T. rewrite clt_irrefl in T. discriminate.
  Qed.

  Lemma ksorted_tl {P} x (l : list (C * P)) : ksorted (x :: l) -> ksorted l.
  Proof. unfold ksorted; simpl; intros H; apply StronglySorted_inv in H; tauto. Qed.

  Lemma ksorted_hd {P} c p (l : list (C * P)) :
    ksorted ((c, p) :: l) -> Forall (clt c) (map fst l).
  Proof. unfold ksorted; simpl; intros H; apply StronglySorted_inv in H; tauto. Qed.

  Lemma ksorted_nil {P} : ksorted (@nil (C * P)).
  Proof. constructor. Qed.

  Lemma Forall_clt_trans k k' (l : list C) :
    clt k k' -> Forall (clt k') l -> Forall (clt k) l.
  Proof.
    intros Hk HF. eapply Forall_impl; [|exact HF]. intros a Ha. exact (clt_trans _ _ _ Hk Ha).
  Qed.

  (* a coordinate at or below a lower bound of the list is not in it *)
  Lemma alookup_below {P} c k (l : list (C * P)) :
    Forall (clt k) (map fst l) -> (c = k \/ clt c k) -> alookup c l = None.
  Proof.
    intros HF Hc. induction l as [|[c' p] l IH]; [reflexivity|].
    simpl in HF. inversion HF as [|? ? Hk HF']; subst. cbn [alookup].
    destruct (ceqb c c') eqn:E.
    - apply ceqb_spec in E. subst c'. exfalso. destruct Hc as [->|Hc].
      + unfold clt in Hk. rewrite clt_irrefl in Hk. discriminate.
      + pose proof (clt_trans _ _ _ Hc Hk) as T. rewrite clt_irrefl in T. discriminate.
    - apply IH. exact HF'.
  Qed.

  Lemma alookup_In {P} c v (l : list (C * P)) : alookup c l = Some v -> In (c, v) l.
  Proof.
    induction l as [|[c' p] l IH]; cbn [alookup]; [discriminate|].
    destruct (ceqb c c') eqn:E.
    - apply ceqb_spec in E. subst. intros [= ->]. left. reflexivity.
    - intros H. right. auto.
  Qed.

  Lemma In_alookup {P} c v (l : list (C * P)) :
    ksorted l -> In (c, v) l -> alookup c l = Some v.
  Proof.
    induction l as [|[c' p] l IH]; intros Hs Hin; [contradiction|].
    cbn [alookup]. destruct Hin as [E|Hin].
    - inversion E; subst. rewrite ceqb_refl. reflexivity.
    - destruct (ceqb c c') eqn:E.
      + apply ceqb_spec in E. subst c'. exfalso.
        pose proof (ksorted_hd _ _ _ Hs) as HF. rewrite Forall_forall in HF.
        assert (Hc : In c (map fst l)) by (apply (in_map fst) in Hin; exact Hin).
        apply HF in Hc. unfold clt in Hc. rewrite clt_irrefl in Hc. discriminate.
      + apply IH; [eapply ksorted_tl; exact Hs | exact Hin].
  Qed.

  Lemma alookup_keys {P} c (l : list (C * P)) :
    alookup c l <> None <-> In c (map fst l).
  Proof.
    induction l as [|[c' p] l IH]; cbn [alookup map fst]; [split; [congruence|intros []]|].
    destruct (ceqb c c') eqn:E.
    - apply ceqb_spec in E. subst. split; [intros _; left; reflexivity | congruence].
    - rewrite IH. split; [intros H; right; exact H|].
      intros [H|H]; [|exact H]. subst. rewrite ceqb_refl in E. discriminate.
  Qed.

  (* two strictly ascending lists with the same lookups are equal *)
  Lemma ksorted_ext {P} (l1 l2 : list (C * P)) :
    ksorted l1 -> ksorted l2 -> (forall c, alookup c l1 = alookup c l2) -> l1 = l2.
  Proof.
    revert l2. induction l1 as [|[c1 p1] l1 IH]; intros l2 H1 H2 Hext.
    - destruct l2 as [|[c2 p2] l2]; [reflexivity|].
      specialize (Hext c2). cbn [alookup] in Hext. rewrite ceqb_refl in Hext. discriminate.
    - destruct l2 as [|[c2 p2] l2].
      + specialize (Hext c1). cbn [alookup] in Hext. rewrite ceqb_refl in Hext. discriminate.
      + pose proof (ksorted_hd _ _ _ H1) as F1. pose proof (ksorted_hd _ _ _ H2) as F2.
        assert (Ec : c1 = c2).
        { pose proof (Hext c1) as E1. pose proof (Hext c2) as E2.
          cbn [alookup] in E1, E2. rewrite ceqb_refl in E1, E2.
          destruct (ceqb c1 c2) eqn:E12; [apply ceqb_spec; exact E12|].
          destruct (ceqb c2 c1) eqn:E21; [symmetry; apply ceqb_spec; exact E21|].
          exfalso.
          symmetry in E1. apply alookup_In in E1. apply (in_map fst) in E1. cbn [fst] in E1.
          apply alookup_In in E2. apply (in_map fst) in E2. cbn [fst] in E2.
          rewrite Forall_forall in F1, F2.
          pose proof (F2 _ E1) as A. pose proof (F1 _ E2) as B.
          pose proof (clt_trans _ _ _ A B) as T. rewrite clt_irrefl in T. discriminate. }
        subst c2.
        assert (Ep : p1 = p2).
        { specialize (Hext c1). cbn [alookup] in Hext. rewrite ceqb_refl in Hext. congruence. }
        subst p2. f_equal.
        apply IH; [eapply ksorted_tl; exact H1 | eapply ksorted_tl; exact H2 |].
        intros c. specialize (Hext c). cbn [alookup] in Hext.
        destruct (ceqb c c1) eqn:E; [|exact Hext].
        apply ceqb_spec in E. subst c.
        rewrite (alookup_below c1 c1 l1 F1 (or_introl eq_refl)).
        rewrite (alookup_below c1 c1 l2 F2 (or_introl eq_refl)). reflexivity.
  Qed.

  (* ---------------------------------------------------------------- the full outer join *)

  Section Join.
    Context {P Q : Type}.

    Fixpoint gmerge (a : list (C * P)) : list (C * Q) -> list (C * (option P * option Q)) :=
      fix inner (b : list (C * Q)) :=
        match a, b with
        | (ca, pa) :: a', (cb, pb) :: b' =>
          if ceqb ca cb then (ca, (Some pa, Some pb)) :: gmerge a' b'
          else if cltb ca cb then (ca, (Some pa, None)) :: gmerge a' b
          else (cb, (None, Some pb)) :: inner b'
        | (ca, pa) :: a', [] => (ca, (Some pa, None)) :: gmerge a' []
        | [], (cb, pb) :: b' => (cb, (None, Some pb)) :: inner b'
        | [], [] => []
        end.

    Lemma gmerge_cons ca pa a cb pb b :
      gmerge ((ca, pa) :: a) ((cb, pb) :: b) =
      if ceqb ca cb then (ca, (Some pa, Some pb)) :: gmerge a b
      else if cltb ca cb then (ca, (Some pa, None)) :: gmerge a ((cb, pb) :: b)
      else (cb, (None, Some pb)) :: gmerge ((ca, pa) :: a) b.
    Proof. reflexivity. Qed.

    Lemma gmerge_nil_l cb pb b :
      gmerge [] ((cb, pb) :: b) = (cb, (None, Some pb)) :: gmerge [] b.
    Proof. reflexivity. Qed.

    Lemma gmerge_nil_r ca pa a :
      gmerge ((ca, pa) :: a) [] = (ca, (Some pa, None)) :: gmerge a [].
    Proof. reflexivity. Qed.

    Lemma gmerge_keys_Forall (Pr : C -> Prop) a b :
      Forall Pr (map fst a) -> Forall Pr (map fst b) -> Forall Pr (map fst (gmerge a b)).
    Proof.
      revert b. induction a as [|[ca pa] a IHa]; intros b Ha Hb.
      - induction b as [|[cb pb] b IHb]; [constructor|].
        rewrite gmerge_nil_l. simpl in Hb |- *. inversion Hb; subst. constructor; auto.
      - induction b as [|[cb pb] b IHb].
        + rewrite gmerge_nil_r. simpl in Ha |- *. inversion Ha; subst.
          constructor; [assumption|]. apply IHa; [assumption|constructor].
        + rewrite gmerge_cons. simpl in Ha, Hb. inversion Ha; subst. inversion Hb; subst.
          destruct (ceqb ca cb); [|destruct (cltb ca cb)]; simpl; constructor; auto.
    Qed.

    Definition join_at (c : C) (a : list (C * P)) (b : list (C * Q))
      : option (option P * option Q) :=
      match alookup c a, alookup c b with
      | None, None => None
      | oa, ob => Some (oa, ob)
      end.

    (* the join is strictly ascending and holds, at every coordinate found in a or in b,
       what a and b hold there *)
    Lemma gmerge_spec a b :
      ksorted a -> ksorted b ->
      ksorted (gmerge a b) /\ forall c, alookup c (gmerge a b) = join_at c a b.
    Proof.
      revert b. induction a as [|[ca pa] a IHa]; intros b Ha Hb.
      - induction b as [|[cb pb] b IHb].
        + split; [constructor|]. intros c. reflexivity.
        + rewrite gmerge_nil_l.
          destruct (IHb (ksorted_tl _ _ Hb)) as [IS IL].
          pose proof (ksorted_hd _ _ _ Hb) as Fb.
          split.
          * unfold ksorted. cbn [map fst]. constructor; [exact IS|].
            apply gmerge_keys_Forall; [constructor|exact Fb].
          * intros c. cbn [alookup]. unfold join_at. cbn [alookup].
            destruct (ceqb c cb); [reflexivity|]. rewrite IL. reflexivity.
      - pose proof (ksorted_hd _ _ _ Ha) as Fa.
        pose proof (ksorted_tl _ _ Ha) as Ha'.
        induction b as [|[cb pb] b IHb].
        + rewrite gmerge_nil_r.
          destruct (IHa [] Ha' ksorted_nil) as [IS IL].
          split.
          * unfold ksorted. cbn [map fst]. constructor; [exact IS|].
            apply gmerge_keys_Forall; [exact Fa|constructor].
          * intros c. cbn [alookup]. unfold join_at. cbn [alookup].
            destruct (ceqb c ca); [reflexivity|]. rewrite IL. reflexivity.
        + pose proof (ksorted_hd _ _ _ Hb) as Fb.
          pose proof (ksorted_tl _ _ Hb) as Hb'.
          rewrite gmerge_cons.
          destruct (ceqb ca cb) eqn:Eab.
          * apply ceqb_spec in Eab. subst cb.
            destruct (IHa b Ha' Hb') as [IS IL].
            split.
            -- unfold ksorted. cbn [map fst]. constructor; [exact IS|].
               apply gmerge_keys_Forall; assumption.
            -- intros c. cbn [alookup]. unfold join_at. cbn [alookup].
               destruct (ceqb c ca); [reflexivity|]. rewrite IL. reflexivity.
          * destruct (cltb ca cb) eqn:Lab.
            -- destruct (IHa ((cb, pb) :: b) Ha' Hb) as [IS IL].
               split.
               ++ unfold ksorted. cbn [map fst]. constructor; [exact IS|].
                  apply gmerge_keys_Forall; [exact Fa|].
                  simpl. constructor; [exact Lab|].
                  eapply Forall_clt_trans; [exact Lab|exact Fb].
               ++ intros c. cbn [alookup]. rewrite IL. unfold join_at. cbn [alookup].
                  destruct (ceqb c ca) eqn:Eca; [|reflexivity].
                  apply ceqb_spec in Eca. subst c. rewrite Eab.
                  rewrite (alookup_below ca cb b Fb (or_intror Lab)). reflexivity.
            -- pose proof (clt_total _ _ Eab Lab) as Lba.
               destruct (IHb Hb') as [IS IL].
               split.
               ++ unfold ksorted. cbn [map fst]. constructor; [exact IS|].
                  apply gmerge_keys_Forall; [|exact Fb].
                  simpl. constructor; [exact Lba|].
                  eapply Forall_clt_trans; [exact Lba|exact Fa].
               ++ intros c. cbn [alookup]. rewrite IL. unfold join_at. cbn [alookup].
                  destruct (ceqb c cb) eqn:Ecb; [|reflexivity].
                  apply ceqb_spec in Ecb. subst c.
                  assert (Eba : ceqb cb ca = false).
                  { apply ceqb_false. intros ->. rewrite ceqb_refl in Eab. discriminate. }
                  rewrite Eba.
                  rewrite (alookup_below cb ca a Fa (or_intror Lba)). reflexivity.
    Qed.
  End Join.

  (* ---------------------------------------------------------------- selections of the join *)

  Definition emit {V W} (sel : V -> option W) (g : C * V) : list (C * W) :=
    match sel (snd g) with Some w => [(fst g, w)] | None => [] end.

  Lemma emit_keys_Forall {V W} (sel : V -> option W) (Pr : C -> Prop) (G : list (C * V)) :
    Forall Pr (map fst G) -> Forall Pr (map fst (flat_map (emit sel) G)).
  Proof.
    induction G as [|[k v] G IH]; intros HF; [constructor|].
    simpl in HF. inversion HF; subst. cbn [flat_map]. unfold emit at 1. cbn [fst snd].
    destruct (sel v); cbn [app map fst]; [constructor|]; auto.
  Qed.

  Lemma emit_spec {V W} (sel : V -> option W) (G : list (C * V)) :
    ksorted G ->
    ksorted (flat_map (emit sel) G)
    /\ forall c, alookup c (flat_map (emit sel) G)
                 = match alookup c G with Some v => sel v | None => None end.
  Proof.
    induction G as [|[k v] G IH]; intros Hs.
    - split; [constructor|reflexivity].
    - destruct (IH (ksorted_tl _ _ Hs)) as [IS IL].
      pose proof (ksorted_hd _ _ _ Hs) as HF.
      cbn [flat_map]. unfold emit at 1 3. cbn [fst snd].
      destruct (sel v) as [w|] eqn:Esel; cbn [app].
      + split.
        * unfold ksorted. cbn [map fst]. constructor; [exact IS|].
          apply emit_keys_Forall. exact HF.
        * intros c. cbn [alookup]. destruct (ceqb c k); [symmetry; exact Esel|apply IL].
      + split; [exact IS|].
        intros c. cbn [alookup]. rewrite IL.
        destruct (ceqb c k) eqn:E; [|reflexivity].
        apply ceqb_spec in E. subst c.
        rewrite (alookup_below k k G HF (or_introl eq_refl)). symmetry. exact Esel.
  Qed.

  Section Ops.
    Context {P Q : Type}.
    Variable da : P.
    Variable db : Q.

    Definition sel_and (v : option P * option Q) : option (P * Q) :=
      match v with (Some p, Some q) => Some (p, q) | _ => None end.

    Definition sel_or (v : option P * option Q) : option (Z * (P * Q)) :=
      match v with
      | (Some p, Some q) => Some (3%Z, (p, q))
      | (Some p, None) => Some (1%Z, (p, db))
      | (None, Some q) => Some (2%Z, (da, q))
      | (None, None) => None
      end.

    Definition sel_xor (v : option P * option Q) : option (Z * (P * Q)) :=
      match v with
      | (Some p, None) => Some (1%Z, (p, db))
      | (None, Some q) => Some (2%Z, (da, q))
      | _ => None
      end.

    Definition sel_sub (v : option P * option Q) : option P :=
      match v with (Some p, None) => Some p | _ => None end.

    (* each operator's loop is the join restricted to its truth-table rows: these identities
       are structural (no ordering assumption) *)
    Lemma and_merge_join a b :
      and_merge ceqb cltb a b = flat_map (emit sel_and) (gmerge (Q:=Q) a b).
    Proof.
      revert b. induction a as [|[ca pa] a IHa]; intros b.
      - induction b as [|[cb pb] b IHb]; [reflexivity|].
        rewrite gmerge_nil_l. cbn [flat_map emit sel_and fst snd app]. rewrite <- IHb.
        destruct b as [|[? ?] ?]; reflexivity.
      - induction b as [|[cb pb] b IHb].
        + rewrite gmerge_nil_r. cbn [flat_map emit sel_and fst snd app]. rewrite <- IHa.
          destruct a as [|[? ?] ?]; reflexivity.
        + rewrite gmerge_cons.
          change (and_merge ceqb cltb ((ca, pa) :: a) ((cb, pb) :: b))
            with (if ceqb ca cb then (ca, (pa, pb)) :: and_merge ceqb cltb a b
                  else if cltb ca cb then and_merge ceqb cltb a ((cb, pb) :: b)
                  else and_merge ceqb cltb ((ca, pa) :: a) b).
          destruct (ceqb ca cb); [|destruct (cltb ca cb)];
            cbn [flat_map emit sel_and fst snd app].
          * f_equal. apply IHa.
          * apply IHa.
          * apply IHb.
    Qed.

    Lemma or_merge_join a b :
      or_merge ceqb cltb da db a b = flat_map (emit sel_or) (gmerge a b).
    Proof.
      revert b. induction a as [|[ca pa] a IHa]; intros b.
      - induction b as [|[cb pb] b IHb]; [reflexivity|].
        rewrite gmerge_nil_l. cbn [flat_map emit sel_or fst snd app]. rewrite <- IHb.
        reflexivity.
      - induction b as [|[cb pb] b IHb].
        + rewrite gmerge_nil_r. cbn [flat_map emit sel_or fst snd app]. rewrite <- IHa.
          reflexivity.
        + rewrite gmerge_cons.
          change (or_merge ceqb cltb da db ((ca, pa) :: a) ((cb, pb) :: b))
            with (if ceqb ca cb then (ca, (3%Z, (pa, pb))) :: or_merge ceqb cltb da db a b
                  else if cltb ca cb
                       then (ca, (1%Z, (pa, db))) :: or_merge ceqb cltb da db a ((cb, pb) :: b)
                       else (cb, (2%Z, (da, pb))) :: or_merge ceqb cltb da db ((ca, pa) :: a) b).
          destruct (ceqb ca cb); [|destruct (cltb ca cb)];
            cbn [flat_map emit sel_or fst snd app]; f_equal.
          * apply IHa.
          * apply IHa.
          * apply IHb.
    Qed.

    Lemma xor_merge_join a b :
      xor_merge ceqb cltb da db a b = flat_map (emit sel_xor) (gmerge a b).
    Proof.
      revert b. induction a as [|[ca pa] a IHa]; intros b.
      - induction b as [|[cb pb] b IHb]; [reflexivity|].
        rewrite gmerge_nil_l. cbn [flat_map emit sel_xor fst snd app]. rewrite <- IHb.
        reflexivity.
      - induction b as [|[cb pb] b IHb].
        + rewrite gmerge_nil_r. cbn [flat_map emit sel_xor fst snd app]. rewrite <- IHa.
          reflexivity.
        + rewrite gmerge_cons.
          change (xor_merge ceqb cltb da db ((ca, pa) :: a) ((cb, pb) :: b))
            with (if ceqb ca cb then xor_merge ceqb cltb da db a b
                  else if cltb ca cb
                       then (ca, (1%Z, (pa, db))) :: xor_merge ceqb cltb da db a ((cb, pb) :: b)
                       else (cb, (2%Z, (da, pb))) :: xor_merge ceqb cltb da db ((ca, pa) :: a) b).
          destruct (ceqb ca cb); [|destruct (cltb ca cb)];
            cbn [flat_map emit sel_xor fst snd app].
          * apply IHa.
          * f_equal. apply IHa.
          * f_equal. apply IHb.
    Qed.

    Lemma sub_merge_join a b :
      sub_merge ceqb cltb a b = flat_map (emit sel_sub) (gmerge (Q:=Q) a b).
    Proof.
      revert b. induction a as [|[ca pa] a IHa]; intros b.
      - induction b as [|[cb pb] b IHb]; [reflexivity|].
        rewrite gmerge_nil_l. cbn [flat_map emit sel_sub fst snd app]. rewrite <- IHb.
        destruct b as [|[? ?] ?]; reflexivity.
      - induction b as [|[cb pb] b IHb].
        + rewrite gmerge_nil_r. cbn [flat_map emit sel_sub fst snd app]. rewrite <- IHa.
          reflexivity.
        + rewrite gmerge_cons.
          change (sub_merge ceqb cltb ((ca, pa) :: a) ((cb, pb) :: b))
            with (if ceqb ca cb then sub_merge ceqb cltb a b
                  else if cltb ca cb then (ca, pa) :: sub_merge ceqb cltb a ((cb, pb) :: b)
                  else sub_merge ceqb cltb ((ca, pa) :: a) b).
          destruct (ceqb ca cb); [|destruct (cltb ca cb)];
            cbn [flat_map emit sel_sub fst snd app].
          * apply IHa.
          * f_equal. apply IHa.
          * apply IHb.
    Qed.

    (* ---- the truth tables: for strictly ascending operands each operator's result is strictly
       ascending, and at every coordinate c it holds exactly what the table row for
       (c in a?, c in b?) says, with a's and b's own payloads at c *)
    Theorem and_merge_correct (a : list (C * P)) (b : list (C * Q)) :
      ksorted a -> ksorted b ->
      ksorted (and_merge ceqb cltb a b)
      /\ forall c, alookup c (and_merge ceqb cltb a b)
                   = match alookup c a, alookup c b with
                     | Some p, Some q => Some (p, q)
                     | _, _ => None
                     end.
    Proof.
      intros Ha Hb. rewrite and_merge_join.
      destruct (gmerge_spec (Q:=Q) a b Ha Hb) as [GS GL].
      destruct (emit_spec sel_and _ GS) as [ES EL].
      split; [exact ES|]. intros c. rewrite EL, GL. unfold join_at.
      destruct (alookup c a), (alookup c b); reflexivity.
    Qed.

    Theorem or_merge_correct (a : list (C * P)) (b : list (C * Q)) :
      ksorted a -> ksorted b ->
      ksorted (or_merge ceqb cltb da db a b)
      /\ forall c, alookup c (or_merge ceqb cltb da db a b)
                   = match alookup c a, alookup c b with
                     | Some p, Some q => Some (3%Z, (p, q))
                     | Some p, None => Some (1%Z, (p, db))
                     | None, Some q => Some (2%Z, (da, q))
                     | None, None => None
                     end.
    Proof.
      intros Ha Hb. rewrite or_merge_join.
      destruct (gmerge_spec a b Ha Hb) as [GS GL].
      destruct (emit_spec sel_or _ GS) as [ES EL].
      split; [exact ES|]. intros c. rewrite EL, GL. unfold join_at.
      destruct (alookup c a), (alookup c b); reflexivity.
    Qed.

    Theorem xor_merge_correct (a : list (C * P)) (b : list (C * Q)) :
      ksorted a -> ksorted b ->
      ksorted (xor_merge ceqb cltb da db a b)
      /\ forall c, alookup c (xor_merge ceqb cltb da db a b)
                   = match alookup c a, alookup c b with
                     | Some p, None => Some (1%Z, (p, db))
                     | None, Some q => Some (2%Z, (da, q))
                     | _, _ => None
                     end.
    Proof.
      intros Ha Hb. rewrite xor_merge_join.
      destruct (gmerge_spec a b Ha Hb) as [GS GL].
      destruct (emit_spec sel_xor _ GS) as [ES EL].
      split; [exact ES|]. intros c. rewrite EL, GL. unfold join_at.
      destruct (alookup c a), (alookup c b); reflexivity.
    Qed.

    Theorem sub_merge_correct (a : list (C * P)) (b : list (C * Q)) :
      ksorted a -> ksorted b ->
      ksorted (sub_merge ceqb cltb a b)
      /\ forall c, alookup c (sub_merge ceqb cltb a b)
                   = match alookup c a, alookup c b with
                     | Some p, None => Some p
                     | _, _ => None
                     end.
    Proof.
      intros Ha Hb. rewrite sub_merge_join.
      destruct (gmerge_spec (Q:=Q) a b Ha Hb) as [GS GL].
      destruct (emit_spec sel_sub _ GS) as [ES EL].
      split; [exact ES|]. intros c. rewrite EL, GL. unfold join_at.
      destruct (alookup c a), (alookup c b); reflexivity.
    Qed.

    (* the intersection as a filter of a's coordinates (design 6.4) *)
    Theorem and_merge_filter (a : list (C * P)) (b : list (C * Q)) :
      ksorted a -> ksorted b ->
      map fst (and_merge ceqb cltb a b)
      = filter (fun c => match alookup c b with Some _ => true | None => false end) (map fst a).
    Proof.
      intros Ha Hb.
      assert (E : and_merge ceqb cltb a b
                  = flat_map (fun cp => match alookup (fst cp) b with
                                        | Some q => [(fst cp, (snd cp, q))]
                                        | None => []
                                        end) a).
      { apply ksorted_ext.
        - apply and_merge_correct; assumption.
        - clear Hb. induction a as [|[ca pa] a IH]; [constructor|].
          cbn [flat_map fst snd]. pose proof (ksorted_hd _ _ _ Ha) as HF.
          specialize (IH (ksorted_tl _ _ Ha)).
          assert (HF' : Forall (clt ca) (map fst (flat_map (fun cp => match alookup (fst cp) b with
                                        | Some q => [(fst cp, (snd cp, q))]
                                        | None => []
                                        end) a))).
          { clear IH Ha. induction a as [|[c' p'] a IHa]; [constructor|].
            simpl in HF. inversion HF; subst. cbn [flat_map fst snd].
            destruct (alookup c' b); cbn [app map fst]; [constructor|]; auto. }
          destruct (alookup ca b); cbn [app]; [|exact IH].
          unfold ksorted. cbn [map fst]. constructor; [exact IH|exact HF'].
        - intros c. destruct (and_merge_correct a b Ha Hb) as [_ L]. rewrite L. clear L Hb.
          induction a as [|[ca pa] a IH]; [reflexivity|].
          pose proof (ksorted_hd _ _ _ Ha) as HF.
          specialize (IH (ksorted_tl _ _ Ha)).
          cbn [alookup flat_map fst snd].
          destruct (ceqb c ca) eqn:E.
          + apply ceqb_spec in E. subst c.
            destruct (alookup ca b) as [q|] eqn:Eq; cbn [app alookup].
            * rewrite ceqb_refl. reflexivity.
            * rewrite <- IH. rewrite (alookup_below ca ca a HF (or_introl eq_refl)). reflexivity.
          + destruct (alookup ca b) as [q|] eqn:Eq; cbn [app alookup]; [rewrite E|]; exact IH. }
      rewrite E. clear E Ha Hb. induction a as [|[ca pa] a IH]; [reflexivity|].
      cbn [flat_map map filter fst snd]. rewrite map_app, IH.
      destruct (alookup ca b); reflexivity.
    Qed.
  End Ops.
End Generic.
