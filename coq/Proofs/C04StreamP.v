(* C04StreamP.v — what an operand delivers (Fiber.__iter__): exactly its present coordinates,
   ascending, each with the operand's own payload object (or a new default, uncompressed
   rank, nothing stored). *)
From Coq Require Import ZArith List Bool Lia Sorted.
From FT Require Import Model.Base Model.Obs Model.C04Coiter Model.C04Check
                       Proofs.C04CoiterP Proofs.C04LexP.
Import ListNotations.
Open Scope Z_scope.

Definition origin_of (o : operand) (c : coord) : origin :=
  match index_of c (keys o) with Some i => Pos i | None => Fresh (op_default o) end.

Notation lclt := (clt lex_ltb).

Lemma index_of_below c k cs :
  Forall (lclt k) cs -> (c = k \/ lex_ltb c k = true) -> index_of c cs = None.
Proof.
  intros HF Hc. induction cs as [|x cs IH]; [reflexivity|].
  inversion HF as [|? ? Hk HF']; subst. cbn [index_of].
  destruct (lex_eqb x c) eqn:E.
  - apply lex_eqb_spec in E. subst x. exfalso. destruct Hc as [->|Hc].
    + unfold clt in Hk. rewrite lex_ltb_irrefl in Hk. discriminate.
    + pose proof (lex_ltb_trans _ _ _ Hc Hk) as T. rewrite lex_ltb_irrefl in T. discriminate.
  - rewrite (IH HF'). reflexivity.
Qed.

Lemma existsb_below (f : coord * tree -> bool) c k (es : list (coord * tree)) :
  Forall (lclt k) (map fst es) -> (c = k \/ lex_ltb c k = true) ->
  existsb (fun ct => lex_eqb (fst ct) c && f ct) es = false.
Proof.
  intros HF Hc. induction es as [|[x p] es IH]; [reflexivity|].
  simpl in HF. inversion HF as [|? ? Hk HF']; subst. cbn [existsb fst].
  rewrite (IH HF'), orb_false_r.
  destruct (lex_eqb x c) eqn:E; [|reflexivity].
  apply lex_eqb_spec in E. subst x. exfalso. destruct Hc as [->|Hc].
  - unfold clt in Hk. rewrite lex_ltb_irrefl in Hk. discriminate.
  - pose proof (lex_ltb_trans _ _ _ Hc Hk) as T. rewrite lex_ltb_irrefl in T. discriminate.
Qed.

Lemma iter_occ_keys_Forall (Pr : coord -> Prop) d es j :
  Forall Pr (map fst es) -> Forall Pr (map fst (iter_occ d es j)).
Proof.
  revert j. induction es as [|[c p] es IH]; intros j HF; [constructor|].
  simpl in HF. inversion HF; subst. cbn [iter_occ].
  destruct (is_empty d p); [apply IH; assumption|].
  cbn [map fst]. constructor; [assumption|apply IH; assumption].
Qed.

(* compressed rank: the non-empty stored elements, each with its own payload object *)
Lemma iter_occ_spec d es :
  lsorted es -> forall j,
  lsorted (iter_occ d es j)
  /\ forall c, llookup c (iter_occ d es j)
               = if existsb (fun ct => lex_eqb (fst ct) c && negb (is_empty d (snd ct))) es
                 then option_map (fun i => Pos (j + i)) (index_of c (map fst es))
                 else None.
Proof.
  induction es as [|[c' p] es IH]; intros Hs j.
  - split; [constructor|reflexivity].
  - pose proof (ksorted_hd _ _ _ _ Hs) as HF.
    destruct (IH (ksorted_tl _ _ _ Hs) (S j)) as [IS IL].
    cbn [iter_occ]. split.
    + destruct (is_empty d p); [exact IS|].
      unfold lsorted, ksorted. cbn [map fst]. constructor; [exact IS|].
      apply iter_occ_keys_Forall. exact HF.
    + intros c. cbn [existsb fst snd map index_of].
      destruct (lex_eqb c' c) eqn:E.
      * apply lex_eqb_spec in E. subst c'.
        rewrite (existsb_below (fun ct => negb (is_empty d (snd ct))) c c es HF (or_introl eq_refl)).
        assert (N : llookup c (iter_occ d es (S j)) = None).
        { rewrite IL.
          rewrite (existsb_below (fun ct => negb (is_empty d (snd ct))) c c es HF (or_introl eq_refl)).
          reflexivity. }
        destruct (is_empty d p); cbn [negb andb orb].
        -- exact N.
        -- unfold llookup. cbn [alookup]. rewrite lex_eqb_refl. cbn [option_map].
           rewrite Nat.add_0_r. reflexivity.
      * cbn [andb orb].
        assert (L : llookup c (if is_empty d p then iter_occ d es (S j)
                               else (c', Pos j) :: iter_occ d es (S j))
                    = llookup c (iter_occ d es (S j))).
        { destruct (is_empty d p); [reflexivity|]. unfold llookup. cbn [alookup].
          rewrite lex_eqb_sym, E. reflexivity. }
        rewrite L, IL.
        destruct (existsb _ es); [|reflexivity].
        destruct (index_of c (map fst es)); cbn [option_map]; [|reflexivity].
        rewrite Nat.add_succ_r. reflexivity.
Qed.

(* bisect_left + _coordExists on an ordered coordinate list = membership with position *)
Lemma first_ge_index c cs :
  StronglySorted lclt cs ->
  match index_of c cs with
  | Some i => first_ge c cs = i /\ coord_exists cs c i = true
  | None => coord_exists cs c (first_ge c cs) = false
  end.
Proof.
  induction cs as [|x cs IH]; intros Hs; [reflexivity|].
  apply StronglySorted_inv in Hs. destruct Hs as [Hs HF].
  specialize (IH Hs). cbn [index_of first_ge].
  destruct (lex_eqb x c) eqn:E.
  - apply lex_eqb_spec in E. subst x. rewrite lex_ltb_irrefl. split; [reflexivity|].
    unfold coord_exists. cbn [nth_error]. apply lex_eqb_refl.
  - destruct (lex_ltb x c) eqn:L.
    + destruct (index_of c cs) as [i|].
      * destruct IH as [-> IH]. split; [reflexivity|exact IH].
      * exact IH.
    + pose proof (lex_ltb_total _ _ E L) as Lcx.
      rewrite (index_of_below c x cs HF (or_intror Lcx)).
      unfold coord_exists. cbn [nth_error]. exact E.
Qed.

Lemma get_payload_origin o c :
  lex_sorted (keys o) = true ->
  get_payload o c None O = Some (origin_of o c, O).
Proof.
  intros Hs. unfold get_payload, origin_of, keys. cbn [negb coord2pos].
  pose proof (first_ge_index c (map fst (o_es o)) (lex_sorted_SS _ Hs)) as H.
  unfold keys in *. destruct (index_of c (map fst (o_es o))) as [i|].
  - destruct H as [-> ->]. reflexivity.
  - rewrite H. reflexivity.
Qed.

Lemma zrange_n_spec {P} (g : Z -> P) n : forall lo,
  lsorted (map (fun z => ([z], g z)) (zrange_n lo n))
  /\ Forall (fun c => exists z, c = [z] /\ lo <= z) (map fst (map (fun z => ([z], g z)) (zrange_n lo n)))
  /\ forall c, llookup c (map (fun z => ([z], g z)) (zrange_n lo n))
               = match c with
                 | [z] => if Z.leb lo z && Z.ltb z (lo + Z.of_nat n) then Some (g z) else None
                 | _ => None
                 end.
Proof.
  induction n as [|n IH]; intros lo.
  - split; [constructor|]. split; [constructor|].
    intros [|z [|? ?]]; try reflexivity. cbn [zrange_n map llookup alookup].
    destruct (Z.leb_spec lo z), (Z.ltb_spec z (lo + Z.of_nat 0)); try reflexivity. lia.
  - destruct (IH (lo + 1)) as [IS [IF IL]].
    cbn [zrange_n map]. split; [|split].
    + unfold lsorted, ksorted. cbn [map fst]. constructor; [exact IS|].
      eapply Forall_impl; [|exact IF]. intros c [z [-> Hz]].
      unfold clt. cbn [lex_ltb]. destruct (Z.eqb_spec lo z); [lia|]. apply Z.ltb_lt. lia.
    + cbn [map fst]. constructor; [exists lo; split; [reflexivity|lia]|].
      eapply Forall_impl; [|exact IF]. intros c [z [-> Hz]]. exists z. split; [reflexivity|lia].
    + intros c. unfold llookup. cbn [alookup]. fold (llookup c (map (fun z => ([z], g z)) (zrange_n (lo + 1) n))).
      rewrite IL. destruct c as [|z [|z' c']].
      * reflexivity.
      * cbn [lex_eqb]. rewrite andb_true_r.
        destruct (Z.eqb_spec z lo) as [->|N].
        -- destruct (Z.leb_spec lo lo), (Z.ltb_spec lo (lo + Z.of_nat (S n))); try reflexivity; lia.
        -- destruct (Z.leb_spec (lo + 1) z), (Z.ltb_spec z (lo + 1 + Z.of_nat n)),
             (Z.leb_spec lo z), (Z.ltb_spec z (lo + Z.of_nat (S n))); cbn [andb]; try reflexivity; lia.
      * cbn [lex_eqb]. destruct (z =? lo); reflexivity.
Qed.

Lemma present_arity o c :
  wf_operand o = true -> present o c = true -> length c = op_arity o.
Proof.
  unfold wf_operand, present. intros Hwf Hp.
  apply andb_true_iff in Hwf. destruct Hwf as [Hwf HU].
  apply andb_true_iff in Hwf. destruct Hwf as [Hwf _].
  apply andb_true_iff in Hwf. destruct Hwf as [_ Hun].
  destruct (o_U o).
  - apply Nat.eqb_eq in HU. destruct c as [|z [|? ?]]; try discriminate. rewrite HU. reflexivity.
  - apply existsb_exists in Hp. destruct Hp as [[x p] [Hin Hx]].
    apply andb_true_iff in Hx. destruct Hx as [Hx _]. cbn [fst] in Hx.
    apply lex_eqb_spec in Hx. subst x.
    unfold uniform_arity in Hun. rewrite forallb_forall in Hun.
    specialize (Hun _ Hin). cbn [fst] in Hun. apply Nat.eqb_eq in Hun. exact Hun.
Qed.

(* what Fiber.__iter__ delivers *)
Theorem stream_spec o :
  wf_operand o = true ->
  lsorted (stream o)
  /\ forall c, llookup c (stream o) = if present o c then Some (origin_of o c) else None.
Proof.
  intros Hwf. pose proof Hwf as Hwf0. unfold wf_operand in Hwf.
  apply andb_true_iff in Hwf. destruct Hwf as [Hwf HU].
  apply andb_true_iff in Hwf. destruct Hwf as [Hwf _].
  apply andb_true_iff in Hwf. destruct Hwf as [Hs _].
  unfold stream, present. destruct (o_U o).
  - unfold iter_shape, zrange.
    assert (E : map (fun z => ([z], match get_payload o [z] None 0 with
                                    | Some (p, _) => p
                                    | None => Fresh (op_default o)
                                    end)) (zrange_n (o_lo o) (Z.to_nat (o_hi o - o_lo o)))
                = map (fun z => ([z], origin_of o [z])) (zrange_n (o_lo o) (Z.to_nat (o_hi o - o_lo o)))).
    { apply map_ext. intros z. rewrite (get_payload_origin o [z] Hs). reflexivity. }
    rewrite E.
    destruct (zrange_n_spec (fun z => origin_of o [z]) (Z.to_nat (o_hi o - o_lo o)) (o_lo o))
      as [ZS [_ ZL]].
    split; [exact ZS|]. intros c. rewrite ZL. destruct c as [|z [|? ?]]; try reflexivity.
    destruct (Z.leb_spec (o_lo o) z); cbn [andb]; [|reflexivity].
    destruct (Z.ltb_spec z (o_hi o)), (Z.ltb_spec z (o_lo o + Z.of_nat (Z.to_nat (o_hi o - o_lo o))));
      try reflexivity; lia.
  - apply lex_sorted_lsorted in Hs.
    destruct (iter_occ_spec (o_d o) (o_es o) Hs O) as [IS IL].
    split; [exact IS|]. intros c. rewrite IL.
    destruct (existsb _ (o_es o)) eqn:Ex; [|reflexivity].
    unfold origin_of, keys.
    destruct (index_of c (map fst (o_es o))) as [i|] eqn:Ei; [reflexivity|].
    exfalso. apply existsb_exists in Ex. destruct Ex as [[x p] [Hin Hx]].
    apply andb_true_iff in Hx. destruct Hx as [Hx _]. cbn [fst] in Hx.
    apply lex_eqb_spec in Hx. subst x.
    clear - Hin Ei. induction (o_es o) as [|[x q] es IH]; [contradiction|].
    cbn [map fst index_of] in Ei. destruct (lex_eqb x c) eqn:E; [discriminate|].
    destruct Hin as [Hin|Hin].
    + inversion Hin; subst. rewrite lex_eqb_refl in E. discriminate.
    + destruct (index_of c (map fst es)); [discriminate|]. apply IH; [exact Hin|reflexivity].
Qed.
