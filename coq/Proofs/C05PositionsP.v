(* C05PositionsP.v — the position arithmetic of the populate generator (a_pos, the bisect on the
   suffix, getPayload's start_pos, the deletion index) always lands on bisect_left of the
   offered coordinate: the generator equals a position-free loop [loop2]. *)
From Coq Require Import ZArith List Bool Lia PeanoNat.
From FT Require Import Model.Base Model.Store Model.C05Populate Proofs.StoreWF Proofs.StoreMap.
Import ListNotations.
Open Scope Z_scope.

(* ---------- bisect ---------- *)
Lemma bisect_skipn c : forall cs k,
  (k <= bisect c cs)%nat -> (k + bisect c (skipn k cs))%nat = bisect c cs.
Proof.
  induction cs as [|x cs IH]; intros k Hk; cbn [bisect] in *.
  - assert (k = O) by lia. subst. reflexivity.
  - destruct (x <? c) eqn:E.
    + destruct k as [|k]; [cbn [skipn bisect]; rewrite E; reflexivity|].
      cbn [skipn]. specialize (IH k). lia.
    + assert (k = O) by lia. subst. cbn [skipn bisect]. rewrite E. reflexivity.
Qed.

Lemma bisect_firstn_lt c cs : Forall (fun x => x < c) (firstn (bisect c cs) cs).
Proof.
  induction cs as [|x cs IH]; cbn [bisect]; [constructor|].
  destruct (x <? c) eqn:E; cbn [firstn]; constructor; [lia|exact IH].
Qed.

Lemma bisect_ge_firstn c : forall cs k,
  (k <= length cs)%nat -> Forall (fun x => x < c) (firstn k cs) -> (k <= bisect c cs)%nat.
Proof.
  induction cs as [|x cs IH]; intros k Hk HF; cbn [length] in Hk; [lia|].
  destruct k as [|k]; [lia|]. cbn [firstn] in HF. inversion HF as [|? ? Hx HF']; subst.
  cbn [bisect]. assert (E : (x <? c) = true) by lia. rewrite E.
  specialize (IH k). assert (k <= bisect c cs)%nat by (apply IH; [lia|exact HF']). lia.
Qed.

Lemma bisect_insert_at c : forall cs,
  bisect c (insert_at (bisect c cs) c cs) = bisect c cs.
Proof.
  unfold insert_at. induction cs as [|x cs IH]; cbn [bisect firstn skipn app].
  - rewrite Z.ltb_irrefl. reflexivity.
  - destruct (x <? c) eqn:E; cbn [firstn skipn app bisect].
    + rewrite E. f_equal. exact IH.
    + rewrite Z.ltb_irrefl. reflexivity.
Qed.

(* ---------- remove_nth ---------- *)
Lemma remove_nth_insert_at {A} (x : A) : forall l i, (i <= length l)%nat ->
  remove_nth i (insert_at i x l) = l.
Proof.
  unfold insert_at. induction l as [|y l IH]; intros [|i] Hi; cbn [length] in Hi;
    cbn [firstn skipn app remove_nth]; try reflexivity; try lia.
  f_equal. apply IH. lia.
Qed.

Lemma firstn_remove_nth {A} : forall (l : list A) i, firstn i (remove_nth i l) = firstn i l.
Proof.
  induction l as [|y l IH]; intros [|i]; cbn [remove_nth firstn]; try reflexivity.
  f_equal. apply IH.
Qed.

Lemma length_remove_nth {A} : forall (l : list A) i, (i < length l)%nat ->
  length (remove_nth i l) = pred (length l).
Proof.
  induction l as [|y l IH]; intros [|i] Hi; cbn [length] in *; cbn [remove_nth length]; try lia.
  rewrite IH by lia. destruct l; cbn [length] in *; lia.
Qed.

Lemma map_remove_nth {A B} (f : A -> B) : forall l i, map f (remove_nth i l) = remove_nth i (map f l).
Proof.
  induction l as [|y l IH]; intros [|i]; cbn [remove_nth map]; try reflexivity. f_equal. apply IH.
Qed.

Lemma Forall_remove_nth {A} (P : A -> Prop) : forall l i, Forall P l -> Forall P (remove_nth i l).
Proof.
  induction l as [|y l IH]; intros [|i] H; cbn [remove_nth]; try assumption.
  - inversion H; assumption.
  - inversion H; subst. constructor; [assumption|]. apply IH. assumption.
Qed.

Lemma hd_gt_Forall x l : Forall (fun y => x < y) l -> hd_gt x l = true.
Proof. destruct l as [|y l]; intros H; [reflexivity|]. inversion H; subst. cbn [hd_gt]. lia. Qed.

Lemma ssorted_remove_nth : forall cs i, ssorted cs = true -> ssorted (remove_nth i cs) = true.
Proof.
  induction cs as [|x cs IH]; intros [|i] Hs; cbn [remove_nth]; try exact Hs.
  - rewrite ssorted_cons in Hs. apply andb_true_iff in Hs. tauto.
  - rewrite ssorted_cons in Hs. apply andb_true_iff in Hs. destruct Hs as [Hh Hs].
    rewrite ssorted_cons, (IH i Hs), andb_true_r.
    apply hd_gt_Forall. apply Forall_remove_nth. apply ssorted_all_gt; assumption.
Qed.

Lemma forallb_remove_nth {A} (f : A -> bool) : forall l i,
  forallb f l = true -> forallb f (remove_nth i l) = true.
Proof.
  induction l as [|y l IH]; intros [|i] H; cbn [remove_nth forallb] in *; try assumption.
  - apply andb_true_iff in H. tauto.
  - apply andb_true_iff in H. destruct H as [Hy Hl]. rewrite Hy, (IH i Hl). reflexivity.
Qed.

Lemma firstn_S_Forall {A} (P : A -> Prop) : forall l i x,
  nth_error l i = Some x -> Forall P (firstn i l) -> P x -> Forall P (firstn (S i) l).
Proof.
  induction l as [|y l IH]; intros [|i] x Hn HF Hx; cbn [nth_error] in Hn; try discriminate.
  - inversion Hn; subst. cbn [firstn]. constructor; [assumption|constructor].
  - cbn [firstn] in *. inversion HF; subst. constructor; [assumption|].
    apply (IH i x); assumption.
Qed.

(* ---------- C05_positions: what the generator computes for one offered coordinate ---------- *)
Theorem positions c cs a_pos :
  ssorted cs = true -> (a_pos <= bisect c cs)%nat ->
  let a_pos1 := match cs with [] => a_pos | _ :: _ => (a_pos + bisect c (skipn a_pos cs))%nat end in
  let gpp := match cs with
             | [] => None
             | _ :: _ => if coord_exists c cs a_pos1 then Some a_pos1
                         else match a_pos1 with O => None | S p => Some p end
             end in
  a_pos1 = bisect c cs /\ coord2pos c cs gpp = bisect c cs.
Proof.
  intros Hs Hle.
  assert (H1 : match cs with [] => a_pos | _ :: _ => (a_pos + bisect c (skipn a_pos cs))%nat end
               = bisect c cs).
  { destruct cs as [|x cs']; [cbn [bisect] in *; lia|]. apply bisect_skipn. exact Hle. }
  cbv zeta. rewrite H1. split; [reflexivity|].
  destruct cs as [|x cs']; [reflexivity|].
  destruct (coord_exists c (x :: cs') (bisect c (x :: cs'))).
  - apply start_pos_invisible; [exact Hs|lia].
  - destruct (bisect c (x :: cs')) as [|p] eqn:Hb; [cbn [coord2pos]; exact Hb|].
    rewrite start_pos_invisible; [cbn [coord2pos]; exact Hb|exact Hs|rewrite Hb; lia].
Qed.

(* ---------- the position-free loop ---------- *)
Section Loop2.
  Variables (n : nat) (dz : Z) (bd : body).
  Variable inner : list Z -> tree -> (ifib -> ifib) -> ifib -> nat -> list (list nat)
                   -> ifib * nat * list (list nat) * list ev.
  Variables (lvl : nat) (path : list Z).

  Definition step2 (plug : ifib -> ifib) (c : Z) (bp : tree) (es : ifib) (nx : nat)
             (rk : list (list nat)) : ifib * nat * list (list nat) * list ev :=
    let cs := map fst es in
    let i := bisect c cs in
    let existing := coord_exists c cs i in
    let '(es1, nx1, rk1) := create_at n dz lvl existing i c es nx rk in
    match nth_error es1 i with
    | None => (es1, nx1, rk1, [])
    | Some (_, zp) =>
      let e := {| e_path := path ++ [c]; e_a := bp; e_z := zp; e_root := plug es1;
                  e_nx := nx1; e_rk := rk1 |} in
      let '(zp', nx2, rk2, evs) := body_run n dz bd inner lvl path plug c bp es1 i zp nx1 rk1 in
      let es2 := set_nth i (c, zp') es1 in
      let remove := should_remove dz (negb existing) zp' in
      let '(es3, rk3) := finish n lvl c remove es2 rk2 in
      (es3, nx2, rk3, e :: evs)
    end.

  Fixpoint loop2 (plug : ifib -> ifib) (b : fib) (es : ifib) (nx : nat) (rk : list (list nat))
    : ifib * nat * list (list nat) * list ev :=
    match b with
    | [] => (es, nx, rk, [])
    | (c, bp) :: b' =>
      let '(es3, nx2, rk3, evs) := step2 plug c bp es nx rk in
      let '(esf, nxf, rkf, evs') := loop2 plug b' es3 nx2 rk3 in
      (esf, nxf, rkf, evs ++ evs')
    end.

  (* after locating / creating: the element is at bisect, the list is sorted *)
  Lemma located c es nx rk :
    ssorted (map fst es) = true ->
    let i := bisect c (map fst es) in
    let r := create_at n dz lvl (coord_exists c (map fst es) i) i c es nx rk in
    let es1 := fst (fst r) in
    ssorted (map fst es1) = true /\ bisect c (map fst es1) = i
    /\ exists zp, nth_error es1 i = Some (c, zp).
  Proof.
    intros Hs i. cbv zeta.
    assert (Hi : (i <= length es)%nat).
    { unfold i. rewrite <- (map_length fst es). apply bisect_le. }
    unfold create_at. destruct (coord_exists c (map fst es) i) eqn:Hex; cbn [fst].
    - split; [exact Hs|]. split; [reflexivity|]. apply coord_exists_nth. exact Hex.
    - destruct (Nat.eqb (S lvl) n); cbn [fst];
        rewrite map_fst_insert_at;
        (split; [apply insert_sorted; assumption|]);
        (split; [apply bisect_insert_at|]);
        eexists; apply nth_error_insert_at; exact Hi.
  Qed.

  (* the bound on a_pos for the next offered coordinate *)
  Lemma next_bound c c' cs (rm : bool) :
    ssorted cs = true -> c < c' -> nth_error cs (bisect c cs) = Some c ->
    ((if rm then bisect c cs else S (bisect c cs))
     <= bisect c' (if rm then remove_nth (bisect c cs) cs else cs))%nat.
  Proof.
    intros Hs Hlt Hn. set (i := bisect c cs) in *.
    assert (Hlen : (i < length cs)%nat) by (apply nth_error_Some; rewrite Hn; discriminate).
    assert (HF : Forall (fun x => x < c') (firstn i cs)).
    { eapply Forall_impl; [|apply bisect_firstn_lt]. cbn. intros; lia. }
    destruct rm.
    - apply bisect_ge_firstn.
      + rewrite length_remove_nth by exact Hlen. lia.
      + rewrite firstn_remove_nth. exact HF.
    - apply bisect_ge_firstn; [lia|]. apply (firstn_S_Forall _ cs i c); [exact Hn|exact HF|lia].
  Qed.

  Theorem loop1_loop2 plug : forall b es a_pos nx rk,
    ssorted (map fst es) = true -> ssorted (map fst b) = true ->
    match b with [] => True | (c, _) :: _ => (a_pos <= bisect c (map fst es))%nat end ->
    loop1 n dz bd inner lvl path plug b es a_pos nx rk = loop2 plug b es nx rk.
  Proof.
    induction b as [|[c bp] b IH]; intros es a_pos nx rk Hs Hb Hinv; [reflexivity|].
    cbn [loop1 loop2]. unfold step2.
    destruct (positions c (map fst es) a_pos Hs Hinv) as [Hp1 Hp2]. cbv zeta in Hp1, Hp2.
    rewrite Hp2, Hp1.
    set (i := bisect c (map fst es)).
    assert (Hpos : (if coord_exists c (map fst es) i then i else i) = i)
      by (destruct (coord_exists c (map fst es) i); reflexivity).
    rewrite Hpos.
    pose proof (located c es nx rk Hs) as Hloc. cbv zeta in Hloc. fold i in Hloc.
    destruct (create_at n dz lvl (coord_exists c (map fst es) i) i c es nx rk)
      as [[es1 nx1] rk1] eqn:Hcr.
    cbn [fst] in Hloc. destruct Hloc as [Hs1 [Hb1 [zp Hzp]]].
    rewrite Hzp.
    destruct (body_run n dz bd inner lvl path plug c bp es1 i zp nx1 rk1) as [[[zp' nx2] rk2] evs] eqn:Hbody.
    set (rm := should_remove dz (negb (coord_exists c (map fst es) i)) zp').
    assert (Hm2 : map fst (set_nth i (c, zp') es1) = map fst es1)
      by (apply (map_fst_set_nth i c zp' zp es1 Hzp)).
    unfold finish. rewrite Hm2, Hb1.
    assert (Hrest :
      loop1 n dz bd inner lvl path plug b
            (fst (if rm then (remove_nth i (set_nth i (c, zp') es1),
                              if Nat.ltb (S lvl) n then pop_rank (S lvl) rk2 else rk2)
                  else (set_nth i (c, zp') es1, rk2)))
            (if rm then i else S i) nx2
            (snd (if rm then (remove_nth i (set_nth i (c, zp') es1),
                              if Nat.ltb (S lvl) n then pop_rank (S lvl) rk2 else rk2)
                  else (set_nth i (c, zp') es1, rk2)))
      = loop2 plug b
            (fst (if rm then (remove_nth i (set_nth i (c, zp') es1),
                              if Nat.ltb (S lvl) n then pop_rank (S lvl) rk2 else rk2)
                  else (set_nth i (c, zp') es1, rk2)))
            nx2
            (snd (if rm then (remove_nth i (set_nth i (c, zp') es1),
                              if Nat.ltb (S lvl) n then pop_rank (S lvl) rk2 else rk2)
                  else (set_nth i (c, zp') es1, rk2)))).
    { cbn [map fst] in Hb. rewrite ssorted_cons in Hb. apply andb_true_iff in Hb.
      destruct Hb as [Hhd Hb'].
      apply IH.
      - destruct rm; cbn [fst].
        + rewrite map_remove_nth, Hm2. apply ssorted_remove_nth. exact Hs1.
        + rewrite Hm2. exact Hs1.
      - exact Hb'.
      - destruct b as [|[c' bp'] b']; [exact I|].
        cbn [map fst hd_gt] in Hhd.
        assert (Hn : nth_error (map fst es1) (bisect c (map fst es1)) = Some c).
        { rewrite Hb1, nth_error_map, Hzp. reflexivity. }
        pose proof (next_bound c c' (map fst es1) rm Hs1 ltac:(lia) Hn) as Hnb.
        rewrite Hb1 in Hnb.
        destruct rm; cbn [fst]; [rewrite map_remove_nth|]; rewrite Hm2; exact Hnb. }
    destruct rm; cbn [fst snd] in Hrest; rewrite Hrest;
      match goal with |- context [loop2 plug b ?e ?x ?r] =>
        destruct (loop2 plug b e x r) as [[[esf nxf] rkf] evs'] end;
      reflexivity.
  Qed.
End Loop2.
