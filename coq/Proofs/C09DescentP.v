(* C09DescentP.v — the *Below descent keeps well-formedness; the domains at depth from the
   booleans of c09_wf; the oracle's point maps under a prefix. *)
From Coq Require Import ZArith List Bool Lia Permutation PeanoNat.
From FT Require Import Model.Base Model.Obs Model.C09Transform Model.C09Check
                       Proofs.C09OrderP Proofs.C09FlattenP Proofs.C09BelowP Proofs.C09CheckP
                       Proofs.C09SwizzleP Proofs.C09WfP Proofs.C09RebuildP Proofs.C09SwapP
                       Proofs.C09UnflP Proofs.C09SplitP Proofs.C09LinearP Proofs.C09RefP Proofs.C09SpecP.
Import ListNotations.
Open Scope Z_scope.

Definition good (M : nat) (r : cfib) : Prop := csorted (CN r) = true /\ cdepth_ok (S M) (CN r) = true.

Lemma all_some_cons_inv : forall {A} (x : option A) l r, all_some (x :: l) = Some r ->
  exists y ys, x = Some y /\ all_some l = Some ys /\ r = y :: ys.
Proof.
  intros A x l r H. simpl in H. destruct x as [y|]; [|discriminate].
  destruct (all_some l) as [ys|]; [|discriminate]. inversion H. exists y, ys. auto.
Qed.

Lemma good_nil : forall M, good M [].
Proof. intros. split; reflexivity. Qed.

Lemma below_wf_aux : forall (W : cfib -> Prop) f d M,
  (forall s r', W s -> cempty d (CN s) = false -> f s = Some r' -> good M r') ->
  forall k es r, at_depth k W es -> Forall (fun cp => csorted (snd cp) = true) es ->
  upd_below k f d es = Some r ->
  map fst r = map fst es
  /\ Forall (fun cp => csorted (snd cp) = true /\ cdepth_ok (S k + M) (snd cp) = true) r.
Proof.
  intros W f d M Hf. induction k as [|k IH]; intros es.
  - induction es as [|[c p] es IHes]; intros r Hes Hcs Hr.
    + simpl in Hr. inversion Hr. split; [reflexivity|constructor].
    + inversion Hes as [|? ? [s [Es Ws]] Hrest]; subst. simpl in Es. subst p.
      inversion Hcs as [|? ? _ Hcs']; subst.
      unfold upd_below in Hr. cbn [map fst snd] in Hr.
      apply all_some_cons_inv in Hr. destruct Hr as [y [ys [Ey [Eys ->]]]].
      fold (upd_below 0 f d es) in Eys. destruct (IHes ys Hrest Hcs' Eys) as [I1 I2].
      destruct (cempty d (CN s)) eqn:Ee.
      * inversion Ey; subst y. split; [simpl; f_equal; exact I1|]. constructor; [|exact I2].
        simpl. split; reflexivity.
      * destruct (f s) as [rs|] eqn:Efs; [|discriminate]. simpl in Ey. inversion Ey; subst y.
        split; [simpl; f_equal; exact I1|]. constructor; [|exact I2].
        destruct (Hf s rs Ws Ee Efs) as [G1 G2]. simpl snd. split; [exact G1|exact G2].
  - induction es as [|[c p] es IHes]; intros r Hes Hcs Hr.
    + simpl in Hr. inversion Hr. split; [reflexivity|constructor].
    + inversion Hes as [|? ? [s [Es Ws]] Hrest]; subst. simpl in Es. subst p.
      inversion Hcs as [|? ? Hcsp Hcs']; subst. simpl in Hcsp.
      change (upd_below (S k) f d ((c, CN s) :: es))
        with (all_some (option_map (fun r => (c, CN r)) (upd_below k f d s)
                        :: map (fun cp => match snd cp with
                                          | CN s => option_map (fun r => (fst cp, CN r)) (upd_below k f d s)
                                          | CL _ => None end) es)) in Hr.
      apply all_some_cons_inv in Hr. destruct Hr as [y [ys [Ey [Eys ->]]]].
      change (all_some (map (fun cp => match snd cp with
                                          | CN s => option_map (fun r => (fst cp, CN r)) (upd_below k f d s)
                                          | CL _ => None end) es)) with (upd_below (S k) f d es) in Eys.
      destruct (IHes ys Hrest Hcs' Eys) as [I1 I2].
      destruct (upd_below k f d s) as [rs|] eqn:Ers; [|discriminate]. simpl in Ey. inversion Ey; subst y.
      apply csorted_CN in Hcsp. destruct Hcsp as [Hpw Hall].
      destruct (IH s rs Ws Hall Ers) as [J1 J2].
      split; [simpl; f_equal; exact I1|]. constructor; [|exact I2]. simpl snd. split.
      * apply csorted_CN. split; [rewrite J1; exact Hpw|].
        eapply Forall_impl; [|exact J2]. intros cp [H _]. exact H.
      * simpl. apply forallb_forall. intros cp Hin. rewrite Forall_forall in J2. apply (J2 _ Hin).
Qed.

Theorem below_wf : forall (W : cfib -> Prop) f d M,
  (forall s r', W s -> cempty d (CN s) = false -> f s = Some r' -> good M r') ->
  forall k es r, at_depth k W es -> csorted (CN es) = true -> upd_below k f d es = Some r ->
  good (S k + M) r.
Proof.
  intros W f d M Hf k es r Hes Hs Hr. apply csorted_CN in Hs. destruct Hs as [Hpw Hall].
  destruct (below_wf_aux W f d M Hf k es r Hes Hall Hr) as [J1 J2]. split.
  - apply csorted_CN. split; [rewrite J1; exact Hpw|].
    eapply Forall_impl; [|exact J2]. intros cp [H _]. exact H.
  - simpl. apply forallb_forall. intros cp Hin. rewrite Forall_forall in J2. apply (J2 _ Hin).
Qed.

(* ------------------------------------------------------------------ the domain k+1 levels down *)
Definition Wb (N : nat) (sh : list Z) (s : cfib) : Prop :=
  cdepth_ok N (CN s) = true /\ csorted (CN s) = true /\ cints (CN s) = true /\ cin_shape sh (CN s) = true.

Lemma at_depth_of_bool : forall k N sh es, (S k < N)%nat -> Wb N sh es ->
  at_depth k (Wb (N - S k) (skipn (S k) sh)) es.
Proof.
  induction k as [|k IH]; intros N sh es Hn [Hd [Hs [Hi Hc]]];
    (destruct N as [|N]; [lia|]); (destruct sh as [|s0 ss]; [simpl in Hc; discriminate|]);
    simpl in Hd, Hi, Hc; rewrite forallb_forall in Hd, Hi, Hc;
    apply csorted_CN in Hs; destruct Hs as [_ Hall]; rewrite Forall_forall in Hall;
    apply Forall_forall; intros [c p] Hin;
    pose proof (Hd _ Hin) as Hdp; pose proof (Hi _ Hin) as Hip; pose proof (Hc _ Hin) as Hcp;
    pose proof (Hall _ Hin) as Hsp; simpl in Hdp, Hip, Hcp, Hsp;
    apply andb_true_iff in Hip; destruct Hip as [_ Hip]; apply andb_true_iff in Hcp; destruct Hcp as [_ Hcp];
    (destruct N as [|N']; [lia|]); (destruct p as [v|s]; [discriminate|]); exists s; (split; [reflexivity|]).
  - replace (S (S N') - 1)%nat with (S N') by lia. simpl skipn. repeat split; assumption.
  - replace (S (S N') - S (S k))%nat with (S N' - S k)%nat by lia.
    change (skipn (S (S k)) (s0 :: ss)) with (skipn (S k) ss).
    apply (IH (S N') ss s); [lia|]. repeat split; assumption.
Qed.

(* ------------------------------------------------------------------ the oracle's maps under a prefix *)
Lemma img_flatten_cons : forall k levels style shape c q,
  img_flatten (S k) levels style shape (c :: q) = c :: img_flatten k levels style (tl shape) q.
Proof.
  intros. unfold img_flatten. simpl firstn. simpl skipn. destruct shape; [destruct k|]; reflexivity.
Qed.

Lemma img_flatten_nunder : forall k levels style shape p, (k <= length p)%nat ->
  img_flatten k levels style shape p = nunder k (img_flatten 0 levels style (skipn k shape)) p.
Proof.
  induction k as [|k IH]; intros levels style shape p H; [reflexivity|].
  destruct p as [|c q]; [simpl in H; lia|]. rewrite img_flatten_cons.
  change (nunder (S k) (img_flatten 0 levels style (skipn (S k) shape)) (c :: q))
    with (c :: nunder k (img_flatten 0 levels style (skipn (S k) shape)) q).
  f_equal. rewrite IH by (simpl in H; lia). f_equal. f_equal. destruct shape; [destruct k|]; reflexivity.
Qed.

Lemma nunder_ext : forall k (g g' : list coord -> list coord) p,
  (forall q, q = skipn k p -> g q = g' q) -> nunder k g p = nunder k g' p.
Proof.
  induction k as [|k IH]; intros g g' p H; [apply H; reflexivity|].
  destruct p as [|c q]; [reflexivity|]. simpl. f_equal. apply IH. intros q' E. apply H. exact E.
Qed.

(* ------------------------------------------------------------------ flatten of one fiber in the domain *)
Definition gflat (style : Z) (l : nat) (sh : list Z) : list coord -> list coord :=
  if style =? st_linear then imglin (S l) sh else imgflat (S l).

Definition style_ok (style : Z) : Prop := tp style \/ style = st_linear.

Lemma flatten_fiber : forall style l N sh fuel d s, style_ok style -> (S l < N)%nat -> length sh = N -> Wb N sh s ->
  merge_helper (S l) style true fuel sh d s = Some (flat_ref l style sh d s)
  /\ ccontent d (CN (flat_ref l style sh d s)) = map (on_pt (gflat style l sh)) (ccontent d (CN s))
  /\ good (N - 1 - S l) (flat_ref l style sh d s).
Proof.
  intros style l N sh fuel d s Hst Hl Hsh [Hd [Hs [Hi Hc]]].
  pose proof (wfl_of_bool (S l) N s Hl Hd Hs Hi) as Hwfl.
  pose proof (deepP_of_bool (S l) N s Hl Hd Hs) as Hdeep.
  destruct Hst as [Htp|Hlin].
  - pose proof (ref_ok_tp l style sh d s Htp Hwfl) as Hrok.
    pose proof (merge_helper_ref l style true fuel sh d s Hrok) as Eref.
    destruct (flatten_levels l style true fuel sh d s Htp Hwfl) as [r [Er [Hcont _]]].
    rewrite Eref in Er. inversion Er; subst r.
    split; [exact Eref|]. split; [|apply (flat_ref_wf l style sh d s _ Hrok Hdeep)].
    unfold gflat. destruct Htp as [-> | ->]; exact Hcont.
  - subst style.
    pose proof (wfs_of_bool (S l) N sh s Hl Hd Hc) as Hwfs.
    destruct (ref_ok_lin l sh d s ltac:(lia) Hwfl Hwfs) as [Hrok _].
    pose proof (merge_helper_ref l st_linear true fuel sh d s Hrok) as Eref.
    destruct (flatten_levels_lin l true fuel sh d s ltac:(lia) Hwfl Hwfs) as [r [Er [Hcont _]]].
    rewrite Eref in Er. inversion Er; subst r.
    split; [exact Eref|]. split; [exact Hcont|apply (flat_ref_wf l st_linear sh d s _ Hrok Hdeep)].
Qed.

Lemma gflat_img : forall style l sh q, style_ok style -> (S l < length q)%nat -> (S (S l) <= length sh)%nat ->
  Forall (fun c => is_single c = true) (firstn (S (S l)) q) ->
  gflat style l sh q = img_flatten 0 (S l) style sh q.
Proof.
  intros style l sh q [Htp| ->] Hq Hs Hsg; unfold gflat.
  - assert (E : style =? st_linear = false) by (destruct Htp as [-> | ->]; reflexivity). rewrite E.
    symmetry. apply img_flatten0_tp; [exact Htp|lia].
  - simpl. symmetry. apply img_flatten0_lin; [lia|exact Hs|exact Hsg].
Qed.

(* every point of a well-formed int tree: length n, all coordinates ints *)
Lemma points_all_single : forall d N es, (1 <= N)%nat -> Wb N (repeat 0 0) es \/ True ->
  cdepth_ok N (CN es) = true -> csorted (CN es) = true -> cints (CN es) = true ->
  forall pv, In pv (ccontent d (CN es)) ->
  length (fst pv) = N /\ Forall (fun c => is_single c = true) (fst pv).
Proof.
  intros d N es HN _ Hd Hs Hi pv Hin.
  pose proof (points_len d N (CN es) Hd _ Hin) as Hlen. split; [exact Hlen|].
  pose proof (wfl_of_bool (N - 1) N es ltac:(lia) Hd Hs Hi) as Hwfl.
  destruct (wfl_points (N - 1) d es Hwfl _ Hin) as [_ Hf].
  replace (S (N - 1)) with N in Hf by lia. rewrite firstn_all2 in Hf by lia. exact Hf.
Qed.

Lemma style_ok_of_bool : forall style,
  (style =? st_tuple) || (style =? st_pair) || (style =? st_linear) = true -> style_ok style.
Proof.
  intros style H. apply orb_true_iff in H. destruct H as [H|H].
  - left. apply orb_true_iff in H. destruct H as [E|E]; apply Z.eqb_eq in E; [left|right]; exact E.
  - right. apply Z.eqb_eq. exact H.
Qed.

Lemma in_firstn_skipn : forall {A} (x : A) a b l, In x (firstn a (skipn b l)) -> In x l.
Proof.
  intros A x a b l H. rewrite <- (firstn_skipn b l). apply in_or_app. right.
  rewrite <- (firstn_skipn a (skipn b l)). apply in_or_app. left. exact H.
Qed.

Theorem spec_flatten_below : forall c k levels style, k_op c = OFlatten (S k) levels style -> c09_wf c = true ->
  c09_holds c (c09_model c) = true.
Proof.
  intros c k levels style Hop Hwf. destruct (c09_wf_parts c Hwf) as [Hn [Et [Hd [Hs [Hi [Hsh Hok]]]]]].
  unfold op_ok in Hok. rewrite Hop in Hok.
  apply andb_true_iff in Hok. destruct Hok as [Hok Hst]. apply andb_true_iff in Hok. destruct Hok as [Hl0 Hl1].
  apply Nat.ltb_lt in Hl0, Hl1. apply style_ok_of_bool in Hst.
  destruct levels as [|l]; [lia|].
  rewrite Et in Hd, Hs, Hi, Hsh. set (es := k_es c) in *. set (d := k_d c). set (n := k_n c) in *.
  set (sh' := skipn (S k) (k_shape c)). set (N' := (n - S k)%nat).
  assert (Hshl : length sh' = N') by (unfold sh', N'; rewrite skipn_length; reflexivity).
  set (f := merge_helper (S l) style true (S n) sh' d).
  assert (Hat : at_depth k (Wb N' sh') es).
  { apply at_depth_of_bool; [lia|]. repeat split; assumption. }
  assert (Hrun : c09_run c = upd_below k f d es).
  { unfold c09_run. rewrite Hop. reflexivity. }
  destruct (below_content (Wb N' sh') f (gflat style l sh') d
              (fun s Ws => let '(conj A (conj B _)) := flatten_fiber style l N' sh' (S n) d s Hst ltac:(unfold N'; lia) Hshl Ws in
                           ex_intro _ (flat_ref l style sh' d s) (conj A B)) k es Hat) as [r [Er [Hc _]]].
  assert (Hgood : good (S k + (N' - 1 - S l)) r).
  { apply (below_wf (Wb N' sh') f d (N' - 1 - S l)) with (k := k) (es := es); auto.
    intros s r' Ws _ Efs.
    destruct (flatten_fiber style l N' sh' (S n) d s Hst ltac:(unfold N'; lia) Hshl Ws) as [A [_ G]].
    unfold f in Efs. rewrite A in Efs. inversion Efs; subst r'. exact G. }
  destruct Hgood as [Hs' Hd'].
  assert (Hod : out_depth c = S (S k + (N' - 1 - S l))) by (unfold out_depth; rewrite Hop; fold n; unfold N'; lia).
  apply (holds_of_parts c r); auto.
  - rewrite Hrun. exact Er.
  - rewrite Hod. exact Hd'.
  - rewrite Et. fold es. fold d.
    apply (content_ok_of_map d _ (nunder (S k) (gflat style l sh'))); auto.
    + apply content_NoDup. exact Hs.
    + intros pv Hin. unfold op_img. rewrite Hop.
      destruct (points_all_single d n es ltac:(lia) (or_intror I) Hd Hs Hi _ Hin) as [Hlen Hsg].
      rewrite img_flatten_nunder by lia. apply nunder_ext. intros q Eq. fold sh'.
      apply gflat_img; [exact Hst| | |].
      * subst q. rewrite skipn_length. lia.
      * rewrite Hshl. unfold N'. lia.
      * subst q. apply Forall_forall. intros x Hx. rewrite Forall_forall in Hsg. apply Hsg.
        apply (in_firstn_skipn x (S (S l)) (S k) (fst pv)). exact Hx.
Qed.
