(* C11OpsP.v — the translated operator tables of Payload and CoordPayload meet the operator
   specification, for every operator, every operand-kind combination of the scope and ALL operand
   values (parametric in the value type and in Python's arithmetic on it). *)
From Coq Require Import ZArith List Bool Lia.
From FT Require Import Model.Base Model.Obs Model.C11PyOps Model.C11Fiber
                       Gen.C11PayloadOps Gen.C11CoordPayloadOps Model.C11Check.
Import ListNotations.
Open Scope Z_scope.

(* what CPython's reflected comparison relies on:  x < y  is  y > x  on raw values, etc. *)
Definition cmp_swap_law {T : Type} (bop : pyop -> T -> T -> T) : Prop :=
  forall x y : T,
    bop OEq y x = bop OEq x y /\ bop ONe y x = bop ONe x y /\
    bop OGt y x = bop OLt x y /\ bop OGe y x = bop OLe x y /\
    bop OLt y x = bop OGt x y /\ bop OLe y x = bop OGe x y.

Definition combo_ok {T : Type} (bop : pyop -> T -> T -> T) (x y : T)
           (c : bool * pyop * okind * okind) : Prop :=
  match c with
  | (i, o, kl, kr) =>
    run_op T bop payload_table coordpayload_table i o kl kr x y = spec_op T bop i o kl kr x y
  end.

Lemma ops_all_combos : forall (T : Type) (bop : pyop -> T -> T -> T),
  cmp_swap_law bop ->
  forall x y : T, Forall (combo_ok bop x y) all_combos.
Proof.
  intros T bop Hsw x y.
  destruct (Hsw x y) as (H1 & H2 & H3 & H4 & H5 & H6).
  let l := eval vm_compute in all_combos in change all_combos with l.
  repeat (apply Forall_cons;
          [unfold combo_ok; vm_compute;
           rewrite ?H1, ?H2, ?H3, ?H4, ?H5, ?H6; reflexivity|]).
  apply Forall_nil.
Qed.

Lemma all_combos_complete i o kl kr :
  scope i o kl kr = true -> In (i, o, kl, kr) all_combos.
Proof.
  intros H. unfold all_combos. apply filter_In. split; [|exact H].
  apply in_flat_map. exists i. split; [destruct i; simpl; auto|].
  apply in_flat_map. exists o. split; [destruct o; simpl; tauto|].
  apply in_flat_map. exists kl. split; [destruct kl; simpl; tauto|].
  apply in_map. destruct kr; simpl; tauto.
Qed.

(* the statement used by the property file: for every combination inside the scope *)
Lemma ops_correct : forall (T : Type) (bop : pyop -> T -> T -> T),
  cmp_swap_law bop ->
  forall i o kl kr (x y : T), scope i o kl kr = true ->
    run_op T bop payload_table coordpayload_table i o kl kr x y = spec_op T bop i o kl kr x y.
Proof.
  intros T bop Hsw i o kl kr x y Hs.
  pose proof (ops_all_combos T bop Hsw x y) as HF.
  rewrite Forall_forall in HF.
  exact (HF _ (all_combos_complete i o kl kr Hs)).
Qed.

(* box-only and element forms, as separate readable statements *)
Definition box_only (k : okind) : bool := match k with KE => false | _ => true end.
Definition has_elem (kl kr : okind) : bool :=
  match kl, kr with KE, _ => true | _, KE => true | _, _ => false end.

(* every operator the two classes document is defined (so no TypeError by absence):
   the normal and reflected form of every arithmetic/logical operator, the six comparisons,
   the in-place forms of + - * / and "<<=" *)
Definition documented : list mkey :=
  flat_map (fun o => [(KNormal, o); (KReflected, o)])
           [OAdd; OSub; OMul; OTrueDiv; OFloorDiv; OAnd; OOr; OLshift]
  ++ map (fun o => (KNormal, o)) [OEq; ONe; OLt; OLe; OGt; OGe]
  ++ map (fun o => (KInplace, o)) [OAdd; OSub; OMul; OTrueDiv; OLshift].

Definition has_all (t : mtable) : bool :=
  forallb (fun k => match mlookup k t with Some _ => true | None => false end) documented.

Lemma ops_complete : has_all payload_table = true /\ has_all coordpayload_table = true.
Proof. split; vm_compute; reflexivity. Qed.

(* Python's comparisons on the concrete values satisfy the swap law *)
Lemma bop_py_swap : cmp_swap_law bop_py.
Proof.
  intros x y. unfold bop_py.
  repeat split; try reflexivity; f_equal; try (f_equal; apply Z.eqb_sym); apply Z.eqb_sym.
Qed.
