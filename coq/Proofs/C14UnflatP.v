(* C14UnflatP.v — unflattenRanks: the in-place loops of _unflattenRankIdsShape and the format
   carry-over compute unflatten_spec. *)
From Coq Require Import ZArith List Bool Lia PeanoNat.
From FT Require Import Model.Base Model.Obs Model.C14Attrs Model.C14Build Model.C14Check
                       Proofs.ObsP Proofs.C14BuildP Proofs.C14AttrsP Proofs.C14FlatP.
Import ListNotations.
Open Scope Z_scope.

Lemma length_snoc {A} (pre : list A) x : length (pre ++ [x]) = S (length pre).
Proof. rewrite app_length. simpl. lia. Qed.

(* ---- rank ids *)
Lemma unflat_ids_loop_spec : forall l atoms pre rest ids',
  unflat_seg_id l atoms = Some ids' ->
  unflat_ids_loop l (length pre) (pre ++ wrap_id atoms :: rest) = Some (pre ++ ids' ++ rest).
Proof.
  induction l as [|l IH]; intros atoms pre rest ids' H.
  - simpl in H. inversion H; subst. reflexivity.
  - cbn [unflat_seg_id] in H.
    destruct atoms as [|a0 [|a1 rest0]]; try discriminate.
    destruct (unflat_seg_id l (a1 :: rest0)) as [ids''|] eqn:E; [|discriminate].
    cbn [option_map] in H. inversion H; subst ids'. clear H.
    change (wrap_id (a0 :: a1 :: rest0)) with (RL (a0 :: a1 :: rest0)).
    cbn [unflat_ids_loop]. rewrite nth_error_mid.
    assert (Hstep : forall z, insert_at (S (length pre)) z
                       (set_nth (length pre) (RS a0) (pre ++ RL (a0 :: a1 :: rest0) :: rest))
                     = (pre ++ [RS a0]) ++ z :: rest).
    { intros z. rewrite set_nth_mid, insert_at_mid_S, <- app_assoc. reflexivity. }
    rewrite <- (length_snoc pre (RS a0)).
    destruct rest0 as [|a2 rest0].
    + rewrite length_snoc. rewrite Hstep. rewrite <- (length_snoc pre (RS a0)).
      change (RS a1) with (wrap_id [a1]).
      rewrite (IH [a1] (pre ++ [RS a0]) rest ids'' E). rewrite <- app_assoc. reflexivity.
    + rewrite length_snoc. rewrite Hstep. rewrite <- (length_snoc pre (RS a0)).
      change (RL (a1 :: a2 :: rest0)) with (wrap_id (a1 :: a2 :: rest0)).
      rewrite (IH (a1 :: a2 :: rest0) (pre ++ [RS a0]) rest ids'' E).
      rewrite <- app_assoc. reflexivity.
Qed.

Lemma unflat_seg_id_length : forall l atoms ids',
  unflat_seg_id l atoms = Some ids' -> length ids' = S l.
Proof.
  induction l as [|l IH]; intros atoms ids' H.
  - simpl in H. inversion H. reflexivity.
  - cbn [unflat_seg_id] in H. destruct atoms as [|a0 [|a1 rest0]]; try discriminate.
    destruct (unflat_seg_id l (a1 :: rest0)) as [ids''|] eqn:E; [|discriminate].
    cbn [option_map] in H. inversion H; subst. simpl. f_equal. eapply IH; exact E.
Qed.

Definition rid_len (r : rid) : nat := match r with RS _ => O | RL l => length l end.

Lemma wrap_id_len atoms : (rid_len (wrap_id atoms) <= length atoms)%nat.
Proof. destruct atoms as [|a [|b r]]; simpl; lia. Qed.

Lemma unflat_seg_id_len : forall l atoms ids',
  unflat_seg_id l atoms = Some ids' ->
  forall r, In r ids' -> (rid_len r <= length atoms)%nat /\ ((0 < l)%nat -> (rid_len r < length atoms)%nat).
Proof.
  induction l as [|l IH]; intros atoms ids' H r Hr.
  - simpl in H. inversion H; subst. destruct Hr as [<-|[]].
    split; [apply wrap_id_len|lia].
  - cbn [unflat_seg_id] in H. destruct atoms as [|a0 [|a1 rest0]]; try discriminate.
    destruct (unflat_seg_id l (a1 :: rest0)) as [ids''|] eqn:E; [|discriminate].
    cbn [option_map] in H. inversion H; subst. destruct Hr as [<-|Hr].
    + simpl. split; lia.
    + destruct (IH _ _ E r Hr) as [Hle _]. simpl in *. split; lia.
Qed.

(* ---- shapes *)
Lemma unflat_shape_loop_spec : forall l x pre rest s',
  unflat_seg l x = Some s' ->
  unflat_shape_loop l (length pre) (pre ++ x :: rest) = Some (pre ++ s' ++ rest).
Proof.
  induction l as [|l IH]; intros x pre rest s' H.
  - simpl in H. inversion H; subst. reflexivity.
  - cbn [unflat_seg] in H.
    destruct x as [z|[|s0 [|s1 [|s2 r]]]]; try discriminate.
    + (* ST [s0; s1] *)
      destruct (unflat_seg l s1) as [s''|] eqn:E; [|discriminate].
      cbn [option_map] in H. inversion H; subst s'. clear H.
      cbn [unflat_shape_loop]. rewrite nth_error_mid.
      rewrite set_nth_mid, insert_at_mid_S.
      replace (pre ++ s0 :: s1 :: rest) with ((pre ++ [s0]) ++ s1 :: rest)
        by (rewrite <- app_assoc; reflexivity).
      rewrite <- (length_snoc pre s0).
      rewrite (IH s1 (pre ++ [s0]) rest s'' E). rewrite <- app_assoc. reflexivity.
    + (* ST (s0 :: s1 :: s2 :: r) *)
      destruct (unflat_seg l (ST (s1 :: s2 :: r))) as [s''|] eqn:E; [|discriminate].
      cbn [option_map] in H. inversion H; subst s'. clear H.
      cbn [unflat_shape_loop]. rewrite nth_error_mid.
      rewrite set_nth_mid, insert_at_mid_S.
      replace (pre ++ s0 :: ST (s1 :: s2 :: r) :: rest)
        with ((pre ++ [s0]) ++ ST (s1 :: s2 :: r) :: rest)
        by (rewrite <- app_assoc; reflexivity).
      rewrite <- (length_snoc pre s0).
      rewrite (IH (ST (s1 :: s2 :: r)) (pre ++ [s0]) rest s'' E). rewrite <- app_assoc. reflexivity.
Qed.

(* ---- NoDup of a three-part list *)
Lemma NoDup_mid_not_in {A} : forall (a b c : list A) x,
  NoDup (a ++ b ++ c) -> In x b -> ~ In x a /\ ~ In x c.
Proof.
  induction a as [|h a IH]; intros b c x Hnd Hx.
  - split; [intros []|]. simpl in Hnd. revert Hnd Hx. clear.
    induction b as [|h b IH]; intros Hnd Hx; [contradiction|].
    simpl in Hnd. inversion Hnd as [|? ? Hnot Hnd']; subst.
    destruct Hx as [<-|Hx].
    + intros Hc. apply Hnot. apply in_or_app. right. exact Hc.
    + apply IH; assumption.
  - simpl in Hnd. inversion Hnd as [|? ? Hnot Hnd']; subst.
    destruct (IH b c x Hnd' Hx) as [Ha Hc]. split; [|exact Hc].
    intros [<-|Hin]; [|contradiction].
    apply Hnot. apply in_or_app. right. apply in_or_app. left. exact Hx.
Qed.

Lemma map_const_repeat {A B} (f : A -> B) (b : B) (l : list A) :
  (forall x, In x l -> f x = b) -> map f l = repeat b (length l).
Proof.
  induction l as [|h l IH]; intros H; [reflexivity|].
  simpl. rewrite (H h (or_introl eq_refl)), IH; [reflexivity|].
  intros x Hx. apply H. right. exact Hx.
Qed.

Lemma map_Some_repeat {A} (b : A) n : repeat (Some b) n = map Some (repeat b n).
Proof. induction n as [|n IH]; [reflexivity|simpl; rewrite IH; reflexivity]. Qed.

(* ---- the block *)
Lemma unflatten_attrs_spec : forall d l t,
  wf_kx t (XUnflatten d l) = true -> unflatten_attrs d l t = unflatten_spec d l t.
Proof.
  intros d l t Hwf. unfold wf_kx in Hwf. apply andb_true_iff in Hwf. destruct Hwf as [Ht Hx].
  destruct (wf_t_facts t Ht) as [Hnd [Hlen Hsh]].
  cbn [wf_x xform_spec] in Hx. apply andb_true_iff in Hx. destruct Hx as [Hl Hx].
  apply Nat.ltb_lt in Hl.
  unfold unflatten_spec in *. unfold unflatten_attrs.
  destruct (nth_error (t_ids t) d) as [[a|atoms]|] eqn:Eid; try discriminate.
  destruct (t_shape t) as [s|] eqn:Es; [|discriminate].
  destruct (unflat_seg_id l atoms) as [ids'|] eqn:Ei; [|discriminate].
  destruct (unflat_seg l (nth_sh s d)) as [s'|] eqn:Esh; [|discriminate].
  cbn [t_ids] in Hx. apply nodup_rid_NoDup in Hx.
  pose proof (Hsh s eq_refl) as Hls.
  assert (Hd : (d < length (t_ids t))%nat) by (apply nth_error_Some; congruence).
  (* the merged id has at least two atoms, so it is its own wrap *)
  assert (Hwrap : wrap_id atoms = RL atoms).
  { destruct l as [|l']; [lia|]. cbn [unflat_seg_id] in Ei.
    destruct atoms as [|a0 [|a1 r]]; try discriminate. reflexivity. }
  (* ids *)
  destruct (split_at d (t_ids t) _ Eid) as [Eids Elen].
  assert (Hids : unflat_ids_loop l d (t_ids t)
                 = Some (firstn d (t_ids t) ++ ids' ++ skipn (S d) (t_ids t))).
  { rewrite Eids at 1. rewrite <- Hwrap. rewrite <- Elen at 1.
    apply unflat_ids_loop_spec. exact Ei. }
  rewrite Hids.
  (* shape *)
  destruct (nth_error s d) as [x|] eqn:Ex.
  2:{ apply nth_error_None in Ex. lia. }
  assert (Hx' : nth_sh s d = x) by (unfold nth_sh; apply nth_error_nth; exact Ex).
  rewrite Hx' in Esh.
  destruct (split_at d s _ Ex) as [Ess Eslen].
  assert (Hshape : unflat_shape_loop l d s = Some (firstn d s ++ s' ++ skipn (S d) s)).
  { rewrite Ess at 1. rewrite <- Eslen at 1. apply unflat_shape_loop_spec. exact Esh. }
  rewrite Hshape.
  (* formats *)
  assert (Hnew : forall r, In r ids' -> mem_rid r (t_ids t) = false).
  { intros r Hr. apply not_in_mem_rid.
    destruct (NoDup_mid_not_in _ _ _ r Hx Hr) as [Ha Hc].
    rewrite Eids. intros Hin. apply in_app_or in Hin. destruct Hin as [Hin|[Hin|Hin]].
    - contradiction.
    - subst r. destruct (unflat_seg_id_len l atoms ids' Ei _ Hr) as [_ Hlt].
      specialize (Hlt Hl). simpl in Hlt. lia.
    - contradiction. }
  assert (Hf : all_some (map (fun r => if mem_rid r (t_ids t) then get_format t r else Some false)
                 (firstn d (t_ids t) ++ ids' ++ skipn (S d) (t_ids t)))
               = Some (firstn d (t_fmts t) ++ repeat false (S l) ++ skipn (S d) (t_fmts t))).
  { rewrite <- all_some_map_Some. f_equal. rewrite !map_app.
    rewrite (carried_formats t (firstn d (t_ids t)) (firstn d (t_fmts t)))
      by (first [intros r Hr; eapply my_firstn_In; exact Hr | apply get_format_firstn; assumption]).
    rewrite (carried_formats t (skipn (S d) (t_ids t)) (skipn (S d) (t_fmts t)))
      by (first [intros r Hr; eapply my_skipn_In; exact Hr | apply get_format_skipn; assumption]).
    rewrite (map_const_repeat _ (Some false) ids')
      by (intros r Hr; rewrite (Hnew r Hr); reflexivity).
    rewrite (unflat_seg_id_length l atoms ids' Ei), map_Some_repeat. reflexivity. }
  rewrite Hf. reflexivity.
Qed.
