(* Proofs tying Model/C19Check.v (the executable C19 oracle) to Proofs/C19IntersectP.v. *)
From Coq Require Import ZArith List Bool Lia PeanoNat.
From FT Require Import Model.Base Model.Obs Model.C19Intersect Model.C19Compute Model.C19Check
                       Proofs.ObsP Proofs.C19IntersectP Proofs.C19ComputeP.
Import ListNotations.
Open Scope Z_scope.

(* ---- well-formedness: boolean -> Prop, sub-lists *)
Lemma wf_fs_ok fs : wf_fs fs = true -> okL (depth_of fs) fs.
Proof.
  unfold wf_fs. intros H. apply andb_true_iff in H. destruct H as [H H3].
  apply andb_true_iff in H. destruct H as [H1 H2].
  split; [|exact H2]. rewrite Forall_forall. intros p Hp.
  rewrite forallb_forall in H1, H3. specialize (H1 p Hp). specialize (H3 p Hp).
  apply Nat.eqb_eq in H1. apply andb_true_iff in H3. destruct H3 as [Sa Sb].
  repeat split; assumption.
Qed.

Lemma fids_sorted_app l1 l2 : fids_sorted (l1 ++ l2) = true ->
  fids_sorted l1 = true /\ fids_sorted l2 = true.
Proof.
  induction l1 as [|f l1 IH]; intros H; [split; [reflexivity|exact H]|].
  cbn [app fids_sorted] in *. apply andb_true_iff in H. destruct H as [H1 H2].
  rewrite forallb_app in H1. apply andb_true_iff in H1. destruct H1 as [H1 _].
  destruct (IH H2) as [I1 I2]. rewrite H1, I1. split; [reflexivity|exact I2].
Qed.

Lemma okL_app d l1 l2 : okL d (l1 ++ l2) -> okL d l1 /\ okL d l2.
Proof.
  intros [Hall Hs]. apply Forall_app in Hall. destruct Hall as [A1 A2].
  rewrite map_app in Hs. destruct (fids_sorted_app _ _ Hs) as [S1 S2].
  split; split; assumption.
Qed.

Lemma okL_concat d segs : okL d (concat segs) -> Forall (okL d) segs.
Proof.
  induction segs as [|seg segs IH]; intros H; [constructor|].
  cbn [concat] in H. destruct (okL_app _ _ _ H) as [H1 H2]. constructor; [exact H1|exact (IH H2)].
Qed.

Lemma split_by_concat {A} lens : forall (l : list A),
  sum_nat lens = length l -> concat (split_by lens l) = l.
Proof.
  induction lens as [|n lens IH]; intros l H.
  - destruct l; [reflexivity|discriminate].
  - cbn [split_by concat sum_nat fold_right] in *. rewrite IH.
    + apply firstn_skipn.
    + rewrite skipn_length. unfold sum_nat. lia.
Qed.

(* ---- the three models under an arbitrary batching *)
Lemma tf_feed_ok all d segs : Forall (okL d) segs ->
  tf_feed all d segs = Some (cum 0 (map (total merge_steps) segs)).
Proof.
  intros Hok. unfold tf_feed, calls_of. destruct segs as [|seg segs]; [reflexivity|].
  inversion Hok as [|? ? Hseg Hsegs]; subst.
  cbn [map with_header]. destruct (tf_add_first all d seg Hseg) as (s' & E1 & Hs' & Hc).
  destruct (batch_rows all seg) as [r0 r1]. cbn [fst snd] in E1. cbn [feed]. rewrite E1.
  rewrite (feed_cum tf_add (batch_rows all) (total merge_steps) (started_at d) (okL d)
             (fun s x Hs Hx => tf_add_next all d x s Hx Hs) segs s' Hs' Hsegs).
  cbn [cum map]. rewrite Hc. reflexivity.
Qed.

Lemma sa_feed_ok all d segs : Forall (okL d) segs ->
  sa_feed all d segs = Some (cum 0 (map (total skip_steps) segs)).
Proof.
  intros Hok. unfold sa_feed, calls_of. destruct segs as [|seg segs]; [reflexivity|].
  inversion Hok as [|? ? Hseg Hsegs]; subst.
  cbn [map with_header]. destruct (sa_add_first all d seg Hseg) as (s' & E1 & Hs' & Hc).
  destruct (batch_rows all seg) as [r0 r1]. cbn [fst snd] in E1. cbn [feed]. rewrite E1.
  rewrite (feed_cum sa_add (batch_rows all) (total skip_steps) (started_at d) (okL d)
             (fun s x Hs Hx => sa_add_next all d x s Hx Hs) segs s' Hs' Hsegs).
  cbn [cum map]. rewrite Hc. reflexivity.
Qed.

Definition pick (side : bool) (c : list row * list row) : list row := if side then snd c else fst c.

Lemma lf_feed_ok side all d segs : Forall (okL d) segs ->
  lf_feed side all d segs
  = Some (cum 0 (map (total (if side then (fun a b => presented b a) else presented)) segs)).
Proof.
  intros Hok. unfold lf_feed, calls_of. destruct segs as [|seg segs]; [reflexivity|].
  inversion Hok as [|? ? Hseg Hsegs]; subst.
  cbn [map with_header].
  destruct (batch_lengths all d seg (proj1 Hseg)) as [L0 L1].
  destruct (batch_rows all seg) as [r0 r1] eqn:Eb. cbn [fst snd] in L0, L1. cbn [map feed].
  rewrite map_map.
  set (q := total (if side then (fun a b => presented b a) else presented)).
  assert (Hstep : forall (s : ist) (x : list fpair), i_started s = true -> okL d x ->
            exists s', Some (lf_add s (pick side (batch_rows all x))) = Some s'
                       /\ i_started s' = true /\ i_cnt s' = i_cnt s + q x).
  { intros s x Hs Hx. eexists. split; [reflexivity|]. split; [reflexivity|].
    unfold lf_add. cbn [i_cnt]. rewrite Hs.
    destruct (batch_lengths all d x (proj1 Hx)) as [X0 X1].
    unfold q, pick. destruct side; [rewrite X1|rewrite X0]; reflexivity. }
  set (s1 := lf_add ist0 _).
  change (map (fun x : list fpair => if side then snd (batch_rows all x) else fst (batch_rows all x)) segs)
    with (map (fun x => pick side (batch_rows all x)) segs).
  rewrite (feed_cum (fun s c => Some (lf_add s c)) (fun x => pick side (batch_rows all x)) q
             (fun s => i_started s = true) (okL d) Hstep segs s1 eq_refl Hsegs).
  assert (Hc : i_cnt s1 = 0 + q seg).
  { unfold s1, lf_add. cbn [i_cnt ist0 i_started]. unfold q.
    destruct side; cbn [fst snd length]; [rewrite <- L1|rewrite <- L0]; lia. }
  cbn [cum map]. rewrite Hc. reflexivity.
Qed.

(* ---- final totals do not depend on the batching *)
Lemma last_nonempty {A} (l : list A) x d1 d2 : last (x :: l) d1 = last (x :: l) d2.
Proof. revert x. induction l as [|y l IH]; intros x; [reflexivity|]. cbn [last]. apply IH. Qed.

Lemma last_cum : forall l acc, last (cum acc l) acc = acc + sumZ' l.
Proof.
  induction l as [|x l IH]; intros acc; [cbn; lia|].
  cbn [cum sumZ' fold_right]. destruct l as [|y l].
  - cbn. lia.
  - cbn [cum] in *. specialize (IH (acc + x)). cbn [cum] in IH.
    change (last ((acc + x) :: (acc + x + y) :: cum (acc + x + y) l) acc)
      with (last ((acc + x + y) :: cum (acc + x + y) l) acc).
    rewrite (last_nonempty _ _ acc (acc + x)), IH. fold (sumZ' (y :: l)). cbn [sumZ' fold_right]. lia.
Qed.

Lemma total_app q l1 l2 : total q (l1 ++ l2) = total q l1 + total q l2.
Proof.
  induction l1 as [|p l1 IH]; [reflexivity|].
  cbn [app]. rewrite !total_cons, IH. lia.
Qed.

Lemma total_concat q segs : sumZ' (map (total q) segs) = total q (concat segs).
Proof.
  induction segs as [|seg segs IH]; [reflexivity|].
  cbn [map concat sumZ' fold_right]. rewrite total_app. unfold sumZ' in IH. lia.
Qed.

Definition final (r : option (list Z)) : option Z :=
  match r with Some l => Some (last l 0) | None => None end.

Lemma final_cum q segs : final (Some (cum 0 (map (total q) segs))) = Some (total q (concat segs)).
Proof. cbn [final]. rewrite last_cum, total_concat. f_equal; lia. Qed.

(* ---- statements used by Properties/C19.v *)
Lemma two_finger_thm all segs :
  wf_fs (concat segs) = true ->
  tf_feed all (depth_of (concat segs)) segs = Some (cum 0 (map (total merge_steps) segs)).
Proof. intros H. apply tf_feed_ok, okL_concat, wf_fs_ok, H. Qed.

Lemma skip_ahead_thm all segs :
  wf_fs (concat segs) = true ->
  sa_feed all (depth_of (concat segs)) segs = Some (cum 0 (map (total skip_steps) segs)).
Proof. intros H. apply sa_feed_ok, okL_concat, wf_fs_ok, H. Qed.

Lemma leader_follower_thm all segs :
  wf_fs (concat segs) = true ->
  lf_feed false all (depth_of (concat segs)) segs = Some (cum 0 (map (total presented) segs))
  /\ lf_feed true all (depth_of (concat segs)) segs
     = Some (cum 0 (map (total (fun a b => presented b a)) segs)).
Proof.
  intros H. pose proof (okL_concat _ _ (wf_fs_ok _ H)) as Hok.
  split; [exact (lf_feed_ok false all _ segs Hok)|exact (lf_feed_ok true all _ segs Hok)].
Qed.

Lemma batching_thm all fs segs :
  wf_fs fs = true -> concat segs = fs ->
  final (tf_feed all (depth_of fs) segs) = Some (total merge_steps fs)
  /\ final (sa_feed all (depth_of fs) segs) = Some (total skip_steps fs)
  /\ final (lf_feed false all (depth_of fs) segs) = Some (total presented fs)
  /\ final (lf_feed true all (depth_of fs) segs) = Some (total (fun a b => presented b a) fs).
Proof.
  intros H E. subst fs. destruct (leader_follower_thm all segs H) as [L0 L1].
  rewrite (two_finger_thm all segs H), (skip_ahead_thm all segs H), L0, L1, !final_cum.
  repeat split.
Qed.

(* ---- leader-follower style intersections *)
Lemma lfs_ev_lengths a bs : length (fst (lfs_ev a bs)) = length a /\ length (snd (lfs_ev a bs)) = length a.
Proof.
  unfold lfs_ev. cbn [fst snd]. rewrite !map_length, combine_length, map_length, seq_length.
  split; apply Nat.min_id.
Qed.

Lemma lfs_batch_lengths all seg :
  Z.of_nat (length (fst (lfs_batch_rows all seg))) = total led seg
  /\ Z.of_nat (length (snd (lfs_batch_rows all seg))) = total led seg.
Proof.
  induction seg as [|p seg [I0 I1]]; [split; reflexivity|].
  cbn [lfs_batch_rows fst snd flat_map] in *.
  rewrite !app_length, !Nat2Z.inj_add, I0, I1, !total_cons.
  unfold lfs_fiber_rows. cbn [fst snd]. rewrite !map_length.
  destruct (lfs_ev_lengths (occ (f_d p) (f_a p)) (map fst (f_b p))) as [R0 R1]. rewrite R0, R1.
  split; reflexivity.
Qed.

Lemma lfs_feed_ok side all d segs :
  lfs_feed side all d segs = Some (cum 0 (map (total led) segs)).
Proof.
  unfold lfs_feed, lfs_calls_of. destruct segs as [|seg segs]; [reflexivity|].
  cbn [map with_header].
  destruct (lfs_batch_lengths all seg) as [L0 L1].
  destruct (lfs_batch_rows all seg) as [r0 r1] eqn:Eb. cbn [fst snd] in L0, L1. cbn [map feed].
  rewrite map_map.
  assert (Hstep : forall (s : ist) (x : list fpair), i_started s = true -> True ->
            exists s', Some (lf_add s (pick side (lfs_batch_rows all x))) = Some s'
                       /\ i_started s' = true /\ i_cnt s' = i_cnt s + total led x).
  { intros s x Hs _. eexists. split; [reflexivity|]. split; [reflexivity|].
    unfold lf_add. cbn [i_cnt]. rewrite Hs.
    destruct (lfs_batch_lengths all x) as [X0 X1].
    unfold pick. destruct side; [rewrite X1|rewrite X0]; reflexivity. }
  set (s1 := lf_add ist0 _).
  change (map (fun x : list fpair => if side then snd (lfs_batch_rows all x) else fst (lfs_batch_rows all x)) segs)
    with (map (fun x => pick side (lfs_batch_rows all x)) segs).
  assert (Hall : Forall (fun _ : list fpair => True) segs) by (apply Forall_forall; intros; exact I).
  rewrite (feed_cum (fun s c => Some (lf_add s c)) (fun x => pick side (lfs_batch_rows all x)) (total led)
             (fun s => i_started s = true) (fun _ => True) Hstep segs s1 eq_refl Hall).
  assert (Hc : i_cnt s1 = 0 + total led seg).
  { unfold s1, lf_add. cbn [i_cnt ist0 i_started].
    destruct side; cbn [fst snd length]; [rewrite <- L1|rewrite <- L0]; lia. }
  cbn [cum map]. rewrite Hc. reflexivity.
Qed.

Lemma lsched_model_spec fs lens : lsched_model fs lens = lsched_spec fs lens.
Proof. unfold lsched_model, lsched_spec. rewrite !lfs_feed_ok. reflexivity. Qed.

(* ---- the model's observation satisfies the oracle *)
Lemma sched_model_spec fs lens :
  wf_fs fs = true -> wf_sched (length fs) lens = true -> sched_model fs lens = sched_spec fs lens.
Proof.
  intros Hfs Hl. unfold wf_sched in Hl. apply andb_true_iff in Hl. destruct Hl as [_ Hsum].
  apply Nat.eqb_eq in Hsum. pose proof (split_by_concat lens fs Hsum) as Hc.
  unfold sched_model, sched_spec.
  assert (Hw : wf_fs (concat (split_by lens fs)) = true) by (rewrite Hc; exact Hfs).
  pose proof (two_finger_thm (map f_id fs) _ Hw) as T.
  pose proof (skip_ahead_thm (map f_id fs) _ Hw) as S.
  destruct (leader_follower_thm (map f_id fs) _ Hw) as [L0 L1].
  rewrite Hc in T, S, L0, L1. rewrite T, S, L0, L1. reflexivity.
Qed.

Lemma c19_model_holds c : c19_wf c = true -> holds c19_checker c (model c19_checker c) = true.
Proof.
  destruct c as [fs scheds|t u depth radix lat|fs scheds].
  - cbn [c19_wf holds model c19_checker c19_model c19_holds]. intros H.
    apply andb_true_iff in H. destruct H as [Hfs Hs].
    apply V_eqb_spec. f_equal. apply map_ext_in. intros lens Hin.
    rewrite forallb_forall in Hs. apply sched_model_spec; [exact Hfs|exact (Hs lens Hin)].
  - cbn [c19_wf holds model c19_checker c19_model c19_holds]. intros H.
    apply andb_true_iff in H. destruct H as [H Hrad].
    apply andb_true_iff in H. destruct H as [Hd Hsh].
    rewrite <- (swaps_tree_values depth radix lat t u Hsh).
    assert (Hr : radix_ok radix).
    { destruct radix as [r|]; cbn [radix_ok]; [apply Z.leb_le; exact Hrad|exact I]. }
    destruct lat as [l|].
    + rewrite (swaps_tree_int depth radix l t Hr Hd). cbn [Vo]. rewrite !Z.eqb_refl. reflexivity.
    + rewrite swaps_ref_N_eq. destruct (swaps_ref_N_total depth radix t Hr Hd) as [v Ev].
      rewrite Ev. cbn [Vo]. rewrite !Z.eqb_refl. reflexivity.
  - cbn [c19_wf holds model c19_checker c19_model c19_holds]. intros _.
    apply V_eqb_spec. f_equal. apply map_ext. intros lens. apply lsched_model_spec.
Qed.
