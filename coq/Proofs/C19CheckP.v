(* Proofs tying Model/C19Check.v (the executable C19 oracle) to Proofs/C19IntersectP.v. *)
From Coq Require Import ZArith List Bool Lia PeanoNat.
From FT Require Import Model.Base Model.Obs Model.C19Intersect Model.C19Compute Model.C19Check
                       Proofs.ObsP Proofs.C19IntersectP Proofs.C19ComputeP.
Import ListNotations.
Open Scope Z_scope.

(* ---- well-formedness: boolean -> Prop, sub-lists *)
Lemma wf_fs_ok fs : wf_fs fs = true -> okL (depth_of fs) fs.
Proof.
  unfold wf_fs. intros H. apply andb_true_iff in H. destruct H as [H H3].
  apply andb_true_iff in H. destruct H as [H1 H2].
  split; [|exact H2]. rewrite Forall_forall. intros p Hp.
  rewrite forallb_forall in H1, H3. specialize (H1 p Hp). specialize (H3 p Hp).
  apply Nat.eqb_eq in H1. apply andb_true_iff in H3. destruct H3 as [Sa Sb].
  repeat split; assumption.
Qed.

Lemma fids_sorted_app l1 l2 : fids_sorted (l1 ++ l2) = true ->
  fids_sorted l1 = true /\ fids_sorted l2 = true.
Proof.
  induction l1 as [|f l1 IH]; intros H; [split; [reflexivity|exact H]|].
  cbn [app fids_sorted] in *. apply andb_true_iff in H. destruct H as [H1 H2].
  rewrite forallb_app in H1. apply andb_true_iff in H1. destruct H1 as [H1 _].
  destruct (IH H2) as [I1 I2]. rewrite H1, I1. split; [reflexivity|exact I2].
Qed.

Lemma okL_app d l1 l2 : okL d (l1 ++ l2) -> okL d l1 /\ okL d l2.
Proof.
  intros [Hall Hs]. apply Forall_app in Hall. destruct Hall as [A1 A2].
  rewrite map_app in Hs. destruct (fids_sorted_app _ _ Hs) as [S1 S2].
  split; split; assumption.
Qed.

Lemma okL_concat d segs : okL d (concat segs) -> Forall (okL d) segs.
Proof.
  induction segs as [|seg segs IH]; intros H; [constructor|].
  cbn [concat] in H. destruct (okL_app _ _ _ H) as [H1 H2]. constructor; [exact H1|exact (IH H2)].
Qed.

Lemma split_by_concat {A} lens : forall (l : list A),
  sum_nat lens = length l -> concat (split_by lens l) = l.
Proof.
  induction lens as [|n lens IH]; intros l H.
  - destruct l; [reflexivity|discriminate].
  - cbn [split_by concat sum_nat fold_right] in *. rewrite IH.
    + apply firstn_skipn.
    + rewrite skipn_length. unfold sum_nat. lia.
Qed.

(* ---- the three models under an arbitrary batching, empty batches included *)
Lemma calls_from_None rowsf segs : calls_from None rowsf segs = map rowsf segs.
Proof.
  induction segs as [|seg segs IH]; [reflexivity|].
  cbn [calls_from map]. rewrite IH. destruct seg; reflexivity.
Qed.

Lemma tf_feed_ok all d segs : Forall (okL d) segs -> lead_n segs = O ->
  tf_feed all d segs = Some (cum 0 (map (total merge_steps) segs)).
Proof.
  intros Hok Hl. unfold tf_feed, calls_of. destruct segs as [|seg segs]; [reflexivity|].
  destruct seg as [|p seg]; [discriminate|].
  inversion Hok as [|? ? Hseg Hsegs]; subst.
  cbn [calls_from]. rewrite calls_from_None.
  destruct (tf_add_first all d (p :: seg) Hseg) as (s' & E1 & Hs' & Hc).
  cbn [feed]. rewrite E1.
  rewrite (feed_cum tf_add (batch_rows all) (total merge_steps) (started_at d) (okL d)
             (fun s x Hs Hx => tf_add_next all d x s Hx Hs) segs s' Hs' Hsegs).
  cbn [cum map]. rewrite Hc. reflexivity.
Qed.

Lemma sa_feed_ok all d segs : Forall (okL d) segs ->
  sa_feed all d segs = Some (cum 0 (map (total skip_steps) segs)).
Proof.
  unfold sa_feed, calls_of. induction segs as [|seg segs IH]; intros Hok; [reflexivity|].
  inversion Hok as [|? ? Hseg Hsegs]; subst. destruct seg as [|p seg].
  - cbn [calls_from]. change (batch_rows all []) with (@nil row, @nil row). cbn [feed].
    change (sa_add ist0 ([], [])) with (Some ist0). cbv beta iota. rewrite (IH Hsegs). reflexivity.
  - cbn [calls_from]. rewrite calls_from_None.
    destruct (sa_add_first all d (p :: seg) Hseg) as (s' & E1 & Hs' & Hc).
    cbn [feed]. rewrite E1.
    rewrite (feed_cum sa_add (batch_rows all) (total skip_steps) (started_at d) (okL d)
               (fun s x Hs Hx => sa_add_next all d x s Hx Hs) segs s' Hs' Hsegs).
    cbn [cum map]. rewrite Hc. reflexivity.
Qed.

Definition pick (side : bool) (c : list row * list row) : list row := if side then snd c else fst c.

(* what LeaderFollower will have counted once the heading row has arrived: before its first
   call the object owes one row (the heading), after an empty first call the debt shows as -1 *)
Definition eff (s : ist) : Z := i_cnt s + (if i_started s then 0 else -1).

Lemma lf_feed_gen (rowsf : list fpair -> list row * list row) (q : list fpair -> Z)
      (ok : list fpair -> Prop) side h :
  rowsf [] = ([], []) -> q [] = 0 ->
  (forall seg, ok seg -> Z.of_nat (length (pick side (rowsf seg))) = q seg) ->
  forall segs s, Forall ok segs -> eff s = -1 ->
  feed (fun s c => Some (lf_add s c)) s (map (pick side) (calls_from (Some h) rowsf segs))
  = Some (repeat (-1) (lead_n segs) ++ skipn (lead_n segs) (cum 0 (map q segs))).
Proof.
  intros Hnil Hq0 Hlen. induction segs as [|seg segs IH]; intros s Hok He; [reflexivity|].
  inversion Hok as [|? ? Hseg Hsegs]; subst. destruct seg as [|p seg].
  - cbn [calls_from map lead_n]. rewrite Hnil.
    assert (Hp : pick side (@nil row, @nil row) = []) by (destruct side; reflexivity).
    rewrite Hp. cbn [feed].
    assert (He' : eff (lf_add s []) = -1 /\ i_cnt (lf_add s []) = -1).
    { unfold eff, lf_add in *. cbn [i_cnt i_started length]. destruct (i_started s); lia. }
    rewrite (IH _ Hsegs (proj1 He')), (proj2 He').
    cbn [repeat app cum skipn]. rewrite Hq0. reflexivity.
  - cbn [calls_from lead_n map repeat app skipn]. rewrite calls_from_None, map_map.
    assert (Hp : pick side (h :: fst (rowsf (p :: seg)), h :: snd (rowsf (p :: seg)))
                 = h :: pick side (rowsf (p :: seg))) by (destruct side; reflexivity).
    rewrite Hp. cbn [feed].
    set (s1 := lf_add s _).
    assert (Hstep : forall (s : ist) (x : list fpair), i_started s = true -> ok x ->
              exists s', Some (lf_add s (pick side (rowsf x))) = Some s'
                         /\ i_started s' = true /\ i_cnt s' = i_cnt s + q x).
    { intros s0 x Hs Hx. eexists. split; [reflexivity|]. split; [reflexivity|].
      unfold lf_add. cbn [i_cnt]. rewrite Hs, (Hlen x Hx). reflexivity. }
    rewrite (feed_cum (fun s c => Some (lf_add s c)) (fun x => pick side (rowsf x)) q
               (fun s => i_started s = true) ok Hstep segs s1 eq_refl Hsegs).
    assert (Hc : i_cnt s1 = 0 + q (p :: seg)).
    { unfold s1, lf_add, eff in *. cbn [i_cnt length]. rewrite <- (Hlen _ Hseg).
      destruct (i_started s); lia. }
    cbn [cum map]. rewrite Hc. reflexivity.
Qed.

Lemma lf_feed_ok side all d segs : Forall (okL d) segs ->
  lf_feed side all d segs
  = Some (repeat (-1) (lead_n segs)
          ++ skipn (lead_n segs)
               (cum 0 (map (total (if side then (fun a b => presented b a) else presented)) segs))).
Proof.
  intros Hok. unfold lf_feed, calls_of.
  change (map (fun c : list row * list row => if side then snd c else fst c))
    with (map (pick side)).
  apply (lf_feed_gen (batch_rows all) _ (okL d) side (header d)); try reflexivity; [|exact Hok].
  intros seg Hseg. destruct (batch_lengths all d seg (proj1 Hseg)) as [X0 X1].
  unfold pick. destruct side; assumption.
Qed.

(* ---- final totals do not depend on the batching *)
Lemma last_nonempty {A} (l : list A) x d1 d2 : last (x :: l) d1 = last (x :: l) d2.
Proof. revert x. induction l as [|y l IH]; intros x; [reflexivity|]. cbn [last]. apply IH. Qed.

Lemma last_cum : forall l acc, last (cum acc l) acc = acc + sumZ' l.
Proof.
  induction l as [|x l IH]; intros acc; [cbn; lia|].
  cbn [cum sumZ' fold_right]. destruct l as [|y l].
  - cbn. lia.
  - cbn [cum] in *. specialize (IH (acc + x)). cbn [cum] in IH.
    change (last ((acc + x) :: (acc + x + y) :: cum (acc + x + y) l) acc)
      with (last ((acc + x + y) :: cum (acc + x + y) l) acc).
    rewrite (last_nonempty _ _ acc (acc + x)), IH. fold (sumZ' (y :: l)). cbn [sumZ' fold_right]. lia.
Qed.

Lemma total_app q l1 l2 : total q (l1 ++ l2) = total q l1 + total q l2.
Proof.
  induction l1 as [|p l1 IH]; [reflexivity|].
  cbn [app]. rewrite !total_cons, IH. lia.
Qed.

Lemma total_concat q segs : sumZ' (map (total q) segs) = total q (concat segs).
Proof.
  induction segs as [|seg segs IH]; [reflexivity|].
  cbn [map concat sumZ' fold_right]. rewrite total_app. unfold sumZ' in IH. lia.
Qed.

Definition final (r : option (list Z)) : option Z :=
  match r with Some l => Some (last l 0) | None => None end.

Lemma final_cum q segs : final (Some (cum 0 (map (total q) segs))) = Some (total q (concat segs)).
Proof. cbn [final]. rewrite last_cum, total_concat. f_equal; lia. Qed.

Lemma last_app_ne {A} (l1 l2 : list A) d : l2 <> [] -> last (l1 ++ l2) d = last l2 d.
Proof.
  intros Hne. induction l1 as [|a l1 IH]; [reflexivity|].
  cbn [app]. destruct (l1 ++ l2) as [|b r] eqn:E.
  - destruct l1; [cbn in E; contradiction|discriminate].
  - cbn [last]. cbn [last] in IH. exact IH.
Qed.

Lemma last_skipn {A} : forall k (l : list A) d, (k < length l)%nat -> last (skipn k l) d = last l d.
Proof.
  induction k as [|k IH]; intros l d Hk; [reflexivity|].
  destruct l as [|a l]; [cbn in Hk; lia|]. cbn [skipn]. cbn [length] in Hk.
  rewrite IH by lia. destruct l; [cbn in Hk; lia|reflexivity].
Qed.

Lemma cum_length : forall l acc, length (cum acc l) = length l.
Proof. induction l as [|x l IH]; intros acc; [reflexivity|]. cbn [cum length]. rewrite IH. reflexivity. Qed.

Lemma lead_n_le segs : (lead_n segs <= length segs)%nat.
Proof. induction segs as [|[|p seg] segs IH]; cbn [lead_n length]; lia. Qed.

Lemma lead_n_lt segs : concat segs <> [] -> (lead_n segs < length segs)%nat.
Proof.
  induction segs as [|[|p seg] segs IH]; intros H; cbn [lead_n length]; [contradiction| |lia].
  cbn [concat app] in H. specialize (IH H). lia.
Qed.

Lemma concat_drop_lead segs : concat (drop_lead segs) = concat segs.
Proof. induction segs as [|[|p seg] segs IH]; cbn [drop_lead concat app]; auto. Qed.

Lemma lead_n_drop_lead segs : lead_n (drop_lead segs) = O.
Proof. induction segs as [|[|p seg] segs IH]; cbn [drop_lead lead_n]; auto. Qed.

Lemma final_masked q k segs : (k < length segs)%nat ->
  final (Some (repeat (-1) k ++ skipn k (cum 0 (map (total q) segs)))) = Some (total q (concat segs)).
Proof.
  intros Hk. cbn [final].
  assert (Hlen : (k < length (cum 0 (map (total q) segs)))%nat) by (rewrite cum_length, map_length; exact Hk).
  rewrite last_app_ne.
  - rewrite (last_skipn _ _ _ Hlen), last_cum, total_concat. f_equal; lia.
  - intros E. apply (f_equal (@length Z)) in E. rewrite skipn_length in E. cbn [length] in E. lia.
Qed.

(* ---- statements used by Properties/C19.v *)
Lemma two_finger_thm all segs :
  wf_fs (concat segs) = true -> lead_n segs = O ->
  tf_feed all (depth_of (concat segs)) segs = Some (cum 0 (map (total merge_steps) segs)).
Proof. intros H Hl. apply tf_feed_ok; [apply okL_concat, wf_fs_ok, H|exact Hl]. Qed.

Lemma two_finger_empty_first_refuted :
  exists all d segs, wf_fs (concat segs) = true /\ concat segs <> [] /\ tf_feed all d segs = None.
Proof.
  exists [[]], O, [[]; [ {| f_id := []; f_d := 0; f_a := [(1, 1)]; f_b := [(1, 1)] |} ]].
  split; [reflexivity|]. split; [discriminate|reflexivity].
Qed.

Lemma skip_ahead_thm all segs :
  wf_fs (concat segs) = true ->
  sa_feed all (depth_of (concat segs)) segs = Some (cum 0 (map (total skip_steps) segs)).
Proof. intros H. apply sa_feed_ok, okL_concat, wf_fs_ok, H. Qed.

Lemma leader_follower_thm all segs :
  wf_fs (concat segs) = true ->
  lf_feed false all (depth_of (concat segs)) segs
  = Some (repeat (-1) (lead_n segs) ++ skipn (lead_n segs) (cum 0 (map (total presented) segs)))
  /\ lf_feed true all (depth_of (concat segs)) segs
     = Some (repeat (-1) (lead_n segs)
             ++ skipn (lead_n segs) (cum 0 (map (total (fun a b => presented b a)) segs))).
Proof.
  intros H. pose proof (okL_concat _ _ (wf_fs_ok _ H)) as Hok.
  split; [exact (lf_feed_ok false all _ segs Hok)|exact (lf_feed_ok true all _ segs Hok)].
Qed.

Lemma batching_thm all fs segs :
  wf_fs fs = true -> concat segs = fs ->
  (lead_n segs = O -> final (tf_feed all (depth_of fs) segs) = Some (total merge_steps fs))
  /\ final (sa_feed all (depth_of fs) segs) = Some (total skip_steps fs)
  /\ (fs <> [] ->
      final (lf_feed false all (depth_of fs) segs) = Some (total presented fs)
      /\ final (lf_feed true all (depth_of fs) segs) = Some (total (fun a b => presented b a) fs)).
Proof.
  intros H E. subst fs. destruct (leader_follower_thm all segs H) as [L0 L1].
  split; [intros Hl; rewrite (two_finger_thm all segs H Hl); apply final_cum|].
  split; [rewrite (skip_ahead_thm all segs H); apply final_cum|].
  intros Hne. pose proof (lead_n_lt segs Hne) as Hk.
  rewrite L0, L1. split; apply final_masked; exact Hk.
Qed.

(* ---- leader-follower style intersections *)
Lemma lfs_ev_lengths a bs : length (fst (lfs_ev a bs)) = length a /\ length (snd (lfs_ev a bs)) = length a.
Proof.
  unfold lfs_ev. cbn [fst snd]. rewrite !map_length, combine_length, map_length, seq_length.
  split; apply Nat.min_id.
Qed.

Lemma lfs_batch_lengths all seg :
  Z.of_nat (length (fst (lfs_batch_rows all seg))) = total led seg
  /\ Z.of_nat (length (snd (lfs_batch_rows all seg))) = total led seg.
Proof.
  induction seg as [|p seg [I0 I1]]; [split; reflexivity|].
  cbn [lfs_batch_rows fst snd flat_map] in *.
  rewrite !app_length, !Nat2Z.inj_add, I0, I1, !total_cons.
  unfold lfs_fiber_rows. cbn [fst snd]. rewrite !map_length.
  destruct (lfs_ev_lengths (occ (f_d p) (f_a p)) (map fst (f_b p))) as [R0 R1]. rewrite R0, R1.
  split; reflexivity.
Qed.

Lemma lfs_feed_ok side all d segs :
  lfs_feed side all d segs
  = Some (repeat (-1) (lead_n segs) ++ skipn (lead_n segs) (cum 0 (map (total led) segs))).
Proof.
  unfold lfs_feed, lfs_calls_of.
  change (map (fun c : list row * list row => if side then snd c else fst c))
    with (map (pick side)).
  apply (lf_feed_gen (lfs_batch_rows all) _ (fun _ => True) side (header d)); try reflexivity.
  - intros seg _. destruct (lfs_batch_lengths all seg) as [X0 X1].
    unfold pick. destruct side; assumption.
  - apply Forall_forall. intros; exact I.
Qed.

(* ---- the oracle on count lists *)
Lemma lead_eqb_refl k l : lead_eqb k (Vl VZ l) l = true.
Proof.
  unfold lead_eqb, Vl. rewrite map_length, Nat.eqb_refl. cbn [andb].
  rewrite skipn_map. apply V_eqb_refl.
Qed.

Lemma lead_eqb_masked k l : (k <= length l)%nat ->
  lead_eqb k (Vl VZ (repeat (-1) k ++ skipn k l)) l = true.
Proof.
  intros Hk. unfold lead_eqb, Vl.
  rewrite map_length, app_length, repeat_length, skipn_length.
  replace (k + (length l - k))%nat with (length l) by lia. rewrite Nat.eqb_refl. cbn [andb].
  rewrite map_app, skipn_app, map_length, repeat_length, Nat.sub_diag.
  rewrite skipn_all2 by (rewrite map_length, repeat_length; lia).
  cbn [skipn app]. apply V_eqb_refl.
Qed.

Lemma forall2b_map {A B} (f : A -> B -> bool) (g : A -> B) l :
  (forall x, In x l -> f x (g x) = true) -> forall2b f l (map g l) = true.
Proof.
  induction l as [|x l IH]; intros H; [reflexivity|].
  cbn [map forall2b]. rewrite (H x (or_introl eq_refl)), IH; [reflexivity|].
  intros y Hy. apply H. right. exact Hy.
Qed.

Lemma lsched_model_holds fs lens : lsched_holds fs lens (lsched_model fs lens) = true.
Proof.
  unfold lsched_holds, lsched_model. rewrite !lfs_feed_ok. cbn [Vres].
  assert (Hk : forall q, (lead_n (split_by lens fs) <= length (cum 0 (map (total q) (split_by lens fs))))%nat)
    by (intros q; rewrite cum_length, map_length; apply lead_n_le).
  rewrite !(lead_eqb_masked _ _ (Hk led)). reflexivity.
Qed.

(* ---- the model's observation satisfies the oracle *)
Lemma sched_model_holds fs lens :
  wf_fs fs = true -> wf_sched (length fs) lens = true -> sched_holds fs lens (sched_model fs lens) = true.
Proof.
  intros Hfs Hl. unfold wf_sched in Hl.
  apply Nat.eqb_eq in Hl. pose proof (split_by_concat lens fs Hl) as Hc.
  unfold sched_model, sched_holds.
  set (segs := split_by lens fs) in *.
  assert (Hw : wf_fs (concat segs) = true) by (rewrite Hc; exact Hfs).
  assert (Hw' : wf_fs (concat (drop_lead segs)) = true) by (rewrite concat_drop_lead; exact Hw).
  pose proof (two_finger_thm (map f_id fs) _ Hw' (lead_n_drop_lead segs)) as T.
  pose proof (skip_ahead_thm (map f_id fs) _ Hw) as S.
  destruct (leader_follower_thm (map f_id fs) _ Hw) as [L0 L1].
  rewrite concat_drop_lead in T. rewrite Hc in T, S, L0, L1. rewrite T, S, L0, L1. cbn [Vres].
  rewrite V_eqb_refl, lead_eqb_refl. cbn [andb].
  assert (Hk : forall q, (lead_n segs <= length (cum 0 (map (total q) segs)))%nat)
    by (intros q; rewrite cum_length, map_length; apply lead_n_le).
  rewrite (lead_eqb_masked _ _ (Hk presented)), (lead_eqb_masked _ _ (Hk (fun a b => presented b a))).
  reflexivity.
Qed.

Lemma c19_model_holds c : c19_wf c = true -> holds c19_checker c (model c19_checker c) = true.
Proof.
  destruct c as [fs scheds|t u depth radix lat|fs scheds].
  - cbn [c19_wf holds model c19_checker c19_model c19_holds]. intros H.
    apply andb_true_iff in H. destruct H as [Hfs Hs].
    apply forall2b_map. intros lens Hin.
    rewrite forallb_forall in Hs. apply sched_model_holds; [exact Hfs|exact (Hs lens Hin)].
  - cbn [c19_wf holds model c19_checker c19_model c19_holds]. intros H.
    apply andb_true_iff in H. destruct H as [H Hrad].
    apply andb_true_iff in H. destruct H as [Hd Hsh].
    rewrite <- (swaps_tree_values depth radix lat t u Hsh).
    assert (Hr : radix_ok radix).
    { destruct radix as [r|]; cbn [radix_ok]; [apply Z.leb_le; exact Hrad|exact I]. }
    destruct lat as [l|].
    + rewrite (swaps_tree_int depth radix l t Hr Hd). cbn [Vo]. rewrite !Z.eqb_refl. reflexivity.
    + rewrite swaps_ref_N_eq. destruct (swaps_ref_N_total depth radix t Hr Hd) as [v Ev].
      rewrite Ev. cbn [Vo]. rewrite !Z.eqb_refl. reflexivity.
  - cbn [c19_wf holds model c19_checker c19_model c19_holds]. intros _.
    apply forall2b_map. intros lens _. apply lsched_model_holds.
Qed.
