(* StoreMirrorCheck.v — C02: the executable oracle [c02_holds] (Model/StoreCheck.v) accepts the
   model's own observation for every well-formed case and every history.  The observation
   names the fibers of a rank by their coordinate paths ([path_of]); the work here is that
   [path_of] finds every identity that is in the tree, that the path it returns leads to the
   fiber with that identity, and that distinct identities have distinct paths. *)
From Coq Require Import ZArith List Bool Lia PeanoNat Permutation.
From FT Require Import Model.Base Model.Obs Model.Store Model.StoreCheck
                       Proofs.ObsP Proofs.StoreWF Proofs.StoreCheckP Proofs.StoreMirror.
Import ListNotations.
Open Scope nat_scope.

(* the fiber with identity x sits at coordinate path p below (and including) t *)
Inductive at_id : itree -> list Z -> nat -> Prop :=
| at_here id ow es : at_id (INode id ow es) [] id
| at_sub id ow es c t p x : In (c, t) es -> at_id t p x -> at_id (INode id ow es) (c :: p) x.

Definition po_list (f : nat) (x : nat) : ifib -> option (list Z) :=
  fix go (l : ifib) : option (list Z) :=
    match l with
    | [] => None
    | (c, t') :: l' => match path_of f x t' with Some p => Some (c :: p) | None => go l' end
    end.

Lemma path_of_S f x id ow es :
  path_of (S f) x (INode id ow es) = if Nat.eqb x id then Some [] else po_list f x es.
Proof. reflexivity. Qed.

Lemma po_list_inv f x : forall es p,
  po_list f x es = Some p ->
  exists c t p', p = c :: p' /\ In (c, t) es /\ path_of f x t = Some p'.
Proof.
  induction es as [|[c t] es IH]; intros p H; cbn [po_list] in H; [discriminate|].
  destruct (path_of f x t) as [p'|] eqn:Hp.
  - inversion H; subst. exists c, t, p'. split; [reflexivity|]. split; [left; reflexivity|exact Hp].
  - destruct (IH p H) as (c1 & t1 & p1 & E & Hin & Hp1).
    exists c1, t1, p1. split; [exact E|]. split; [right; exact Hin|exact Hp1].
Qed.

Lemma path_of_sound : forall fuel x t p, path_of fuel x t = Some p -> at_id t p x.
Proof.
  induction fuel as [|f IH]; intros x t p H; [discriminate|].
  destruct t as [v|id ow es]; [discriminate|]. rewrite path_of_S in H.
  destruct (Nat.eqb_spec x id) as [E|E].
  - inversion H; subst. constructor.
  - destruct (po_list_inv f x es p H) as (c & t & p' & -> & Hin & Hp).
    econstructor; [exact Hin|]. apply IH. exact Hp.
Qed.

Lemma po_list_some f x : forall es ct,
  In ct es -> path_of f x (snd ct) <> None -> po_list f x es <> None.
Proof.
  induction es as [|[c t] es IH]; intros ct Hin Hp; [contradiction|]. cbn [po_list].
  destruct (path_of f x t) as [p'|] eqn:Ht; [discriminate|].
  destruct Hin as [<-|Hin]; [cbn [snd] in Hp; contradiction|]. eapply IH; eassumption.
Qed.

Lemma size_bound_node id ow es :
  size_bound (INode id ow es) = S (fold_right (fun ct acc => size_bound (snd ct) + acc) 0 es).
Proof. reflexivity. Qed.

Lemma size_child : forall (es : ifib) ct,
  In ct es -> size_bound (snd ct) <= fold_right (fun ct acc => size_bound (snd ct) + acc) 0 es.
Proof.
  induction es as [|a es IH]; intros ct Hin; [contradiction|]. cbn [fold_right].
  destruct Hin as [<-|Hin]; [lia|]. specialize (IH ct Hin). lia.
Qed.

Lemma path_of_complete : forall fuel x t,
  size_bound t <= fuel -> In x (all_ids t) -> path_of fuel x t <> None.
Proof.
  induction fuel as [|f IH]; intros x t Hsz Hin.
  - destruct t as [v|id ow es]; [contradiction|]. rewrite size_bound_node in Hsz. lia.
  - destruct t as [v|id ow es]; [contradiction|]. rewrite path_of_S.
    destruct (Nat.eqb_spec x id) as [E|E]; [discriminate|].
    cbn [all_ids] in Hin. destruct Hin as [Hin|Hin]; [congruence|].
    apply in_flat_map in Hin. destruct Hin as [ct [Hct Hx]].
    apply (po_list_some f x es ct Hct). apply IH; [|exact Hx].
    rewrite size_bound_node in Hsz. pose proof (size_child es ct Hct). lia.
Qed.

(* ---------- where the path leads ---------- *)
Lemma at_id_ids : forall t p x, at_id t p x -> In x (ids (length p) t).
Proof.
  intros t p x H. induction H as [id ow es|id ow es c t p x Hin _ IH].
  - left. reflexivity.
  - cbn [length ids]. apply in_flat_map. exists (c, t). split; [exact Hin|exact IH].
Qed.

Lemma at_id_paths : forall t p x, at_id t p x -> In p (paths_at (length p) (erase t)).
Proof.
  intros t p x H. induction H as [id ow es|id ow es c t p x Hin _ IH].
  - left. reflexivity.
  - cbn [length erase paths_at]. apply in_flat_map. exists (c, erase t). split.
    + apply in_map_iff. exists (c, t). split; [reflexivity|exact Hin].
    + cbn [fst snd]. apply in_map. exact IH.
Qed.

Lemma NoDup_fst_fun {B} (l : list (Z * B)) c a b :
  NoDup (map fst l) -> In (c, a) l -> In (c, b) l -> a = b.
Proof.
  induction l as [|[c0 y] l IH]; intros Hnd Ha Hb; [contradiction|].
  cbn [map fst] in Hnd. inversion Hnd as [|? ? Hnin Hnd']; subst.
  destruct Ha as [Ea|Ha], Hb as [Eb|Hb].
  - congruence.
  - inversion Ea; subst. exfalso. apply Hnin. apply (in_map fst) in Hb. exact Hb.
  - inversion Eb; subst. exfalso. apply Hnin. apply (in_map fst) in Ha. exact Ha.
  - apply IH; assumption.
Qed.

(* with distinct coordinates in every fiber a path leads to one fiber only *)
Lemma at_id_fun n : forall t p x, at_id t p x ->
  forall lvl y, wf_i n lvl t = true -> at_id t p y -> x = y.
Proof.
  intros t p x H. induction H as [id ow es|id ow es c t p x Hin _ IH]; intros lvl y Hwf Hy.
  - inversion Hy; subst. reflexivity.
  - inversion Hy as [|? ? ? ? t2 ? ? Hin2 Hy2]; subst.
    rewrite wf_i_node in Hwf. apply andb_true_iff in Hwf. destruct Hwf as [_ Hwf].
    unfold wf_fib in Hwf. apply andb_true_iff in Hwf. destruct Hwf as [Hs Hk].
    assert (t2 = t) by (eapply NoDup_fst_fun; [apply ssorted_NoDup; exact Hs|eassumption|eassumption]).
    subst t2. rewrite forallb_forall in Hk. specialize (Hk _ Hin). cbn [snd] in Hk.
    eapply IH; eassumption.
Qed.

(* ---------- as many fibers at depth k as paths of depth k ---------- *)
Lemma flat_map_len {A B} (f : A -> list B) l :
  length (flat_map f l) = lsum (fun a => length (f a)) l.
Proof.
  induction l as [|a l IH]; cbn [flat_map lsum]; [reflexivity|]. rewrite app_length, IH. reflexivity.
Qed.

Lemma ids_paths_len : forall t k, length (ids k t) = length (paths_at k (erase t)).
Proof.
  induction t as [v|id ow es IH] using itree_ind'; intros k; [destruct k; reflexivity|].
  destruct k as [|k]; [reflexivity|]. cbn [ids erase paths_at].
  rewrite !flat_map_len, lsum_map. apply lsum_ext_in. intros ct Hin. cbn [fst snd].
  rewrite map_length. rewrite Forall_forall in IH. apply (IH ct Hin).
Qed.

(* ---------- path lists ---------- *)
Lemma path_eqb_refl p : path_eqb p p = true.
Proof. induction p as [|x p IH]; [reflexivity|]. cbn [path_eqb]. rewrite Z.eqb_refl, IH. reflexivity. Qed.

Lemma path_eqb_eq : forall a b, path_eqb a b = true -> a = b.
Proof.
  induction a as [|x a IH]; intros [|y b] H; cbn [path_eqb] in H; try discriminate; [reflexivity|].
  apply andb_true_iff in H. destruct H as [H1 H2]. apply Z.eqb_eq in H1. subst.
  f_equal. apply IH. exact H2.
Qed.

Lemma mem_path_in p l : In p l -> mem_path p l = true.
Proof.
  intros H. unfold mem_path. apply existsb_exists. exists p. split; [exact H|apply path_eqb_refl].
Qed.

Lemma nodup_paths_map (h : nat -> list Z) l :
  NoDup l -> (forall x y, In x l -> In y l -> h x = h y -> x = y) ->
  nodup_paths (map h l) = true.
Proof.
  intros Hnd. induction Hnd as [|x l Hnin Hnd IH]; intros Hinj; [reflexivity|].
  cbn [map nodup_paths]. rewrite IH.
  - rewrite andb_true_r. apply negb_true_iff. destruct (mem_path (h x) (map h l)) eqn:Hm; [|reflexivity].
    exfalso. unfold mem_path in Hm. apply existsb_exists in Hm. destruct Hm as [q [Hq Heq]].
    apply in_map_iff in Hq. destruct Hq as [y [<- Hy]]. apply path_eqb_eq in Heq.
    assert (x = y) by (apply Hinj; [left; reflexivity|right; exact Hy|exact Heq]).
    subst. contradiction.
  - intros a b Ha Hb. apply Hinj; right; assumption.
Qed.

Lemma all_some_map_in {A B} (f : A -> option B) (h : A -> B) l :
  (forall x, In x l -> f x = Some (h x)) -> all_some (map f l) = Some (map h l).
Proof.
  induction l as [|x l IH]; intros H; [reflexivity|]. cbn [map all_some].
  rewrite (H x (or_introl eq_refl)), IH; [reflexivity|]. intros y Hy. apply H. right. exact Hy.
Qed.

(* ---------- one rank ---------- *)
Lemma rank_mirrors_ok s k :
  wf_st s -> Mirror s -> k < nranks s ->
  rank_mirrors (map (fun id => path_of (S (size_bound (s_root s))) id (s_root s))
                    (nth k (s_ranks s) []))
               (paths_at k (erase (s_root s))) = true.
Proof.
  intros Hs HM Hk.
  destruct (mirror_meaning s Hs HM) as (Hranks & _ & _ & _ & _).
  destruct (Hranks k Hk) as (Hnd & Hin & Hperm).
  destruct HM as (HA & HB & HC & HD).
  destruct Hs as (rid & ow & es & Hr & Hn & Hw).
  set (root := s_root s) in *. set (F := S (size_bound root)).
  set (rk := nth k (s_ranks s) []) in *.
  set (h := fun id => match path_of F id root with Some p => p | None => [] end).
  assert (Hwfi : wf_i (nranks s) 0 root = true).
  { rewrite Hr, wf_i_node, Hw. apply Nat.ltb_lt in Hn. rewrite Hn. reflexivity. }
  (* every listed identity is found, at its depth *)
  assert (Hfound : forall x, In x rk -> path_of F x root = Some (h x) /\ at_id root (h x) x
                                       /\ length (h x) = k).
  { intros x Hx. apply Hin in Hx.
    assert (Hall : In x (all_ids root)).
    { apply (count_occ_In Nat.eq_dec). apply (count_occ_In Nat.eq_dec) in Hx.
      pose proof (cntl_ids_le_all x k root). unfold cntl in *. lia. }
    pose proof (path_of_complete F x root) as Hc.
    unfold h. destruct (path_of F x root) as [p|] eqn:Hp; [|exfalso; apply Hc; [unfold F; lia|exact Hall|reflexivity]].
    pose proof (path_of_sound F x root p Hp) as Hat.
    split; [reflexivity|]. split; [exact Hat|].
    destruct (Nat.eq_dec (length p) k) as [E|E]; [exact E|]. exfalso.
    pose proof (at_id_ids root p x Hat) as H1.
    apply (count_occ_In Nat.eq_dec) in H1. apply (count_occ_In Nat.eq_dec) in Hx.
    fold (cntl x (ids (length p) root)) in H1. fold (cntl x (ids k root)) in Hx.
    rewrite (cnt_ids x root (length p) (Nat.eqb (length p)) (fun j => eq_refl)) in H1.
    rewrite (cnt_ids x root k (Nat.eqb k) (fun j => eq_refl)) in Hx.
    pose proof (cnt_disj x root (Nat.eqb (length p)) (Nat.eqb k)) as Hd.
    specialize (HB x). rewrite cnt_all_ids in HB.
    assert (cnt x (Nat.eqb (length p)) root + cnt x (Nat.eqb k) root <= cnt x tt_ root).
    { apply Hd. intros j H2 H3. apply Nat.eqb_eq in H2, H3. lia. }
    lia. }
  unfold rank_mirrors.
  rewrite (all_some_map_in _ h rk) by (intros x Hx; apply (Hfound x Hx)).
  apply andb_true_iff. split; [apply andb_true_iff; split|].
  - apply nodup_paths_map; [exact Hnd|]. intros x y Hx Hy E.
    destruct (Hfound x Hx) as (_ & Hax & _). destruct (Hfound y Hy) as (_ & Hay & _).
    rewrite <- E in Hay. eapply (at_id_fun (nranks s)); eassumption.
  - apply Nat.eqb_eq. rewrite map_length, (Permutation_length Hperm). apply ids_paths_len.
  - apply forallb_forall. intros p Hp. apply in_map_iff in Hp. destruct Hp as [x [<- Hx]].
    destruct (Hfound x Hx) as (_ & Hax & Hlen). apply mem_path_in.
    rewrite <- Hlen. eapply at_id_paths. exact Hax.
Qed.

(* ---------- all ranks ---------- *)
Lemma forallb_combine_seq {A} (G : nat * A -> bool) : forall (l : list A) a,
  (forall k e, nth_error l k = Some e -> G (a + k, e) = true) ->
  forallb G (combine (seq a (length l)) l) = true.
Proof.
  induction l as [|e l IH]; intros a H; [reflexivity|].
  cbn [length seq combine forallb]. rewrite IH.
  - rewrite andb_true_r. specialize (H 0 e eq_refl). rewrite Nat.add_0_r in H. exact H.
  - intros k e' Hn. specialize (H (S k) e' Hn). rewrite Nat.add_succ_r in H. exact H.
Qed.

Definition mirror_ok (s : st) : bool :=
  mirror_state (nranks s)
    {| o_tree := erase (s_root s); o_ranks := rank_paths s; o_owners := owners_ok 0 (s_root s) |}.

Theorem mirror_state_ok s : wf_st s -> Mirror s -> mirror_ok s = true.
Proof.
  intros Hs HM. unfold mirror_ok, mirror_state. cbn [o_tree o_ranks o_owners].
  assert (Hlen : length (rank_paths s) = nranks s) by (unfold rank_paths; apply map_length).
  rewrite Hlen, Nat.eqb_refl. cbn [andb].
  destruct HM as (HA & HB & HC & HD). rewrite HD, andb_true_r.
  rewrite <- Hlen. apply forallb_combine_seq. intros k e Hn. cbn [plus fst snd].
  unfold rank_paths in Hn. rewrite nth_error_map in Hn.
  destruct (nth_error (s_ranks s) k) as [r|] eqn:Hr; [|discriminate].
  inversion Hn; subst e. clear Hn.
  assert (Hk : k < nranks s) by (apply nth_error_Some; rewrite Hr; discriminate).
  rewrite <- (nth_error_nth (s_ranks s) k [] Hr).
  apply rank_mirrors_ok; [exact Hs|repeat split; assumption|exact Hk].
Qed.

(* ---------- the oracle on the model's observation ---------- *)
Lemma c02_steps_run n : forall ops s,
  wf_st s -> Mirror s -> nranks s = n ->
  forallb (fun sv => match V_to_state sv with
                     | Some os => mirror_state n os
                     | None => false end)
          (map (fun v => match split_step v with Some (_, sv) => sv | None => VL [] end)
               (run_obs s ops)) = true.
Proof.
  induction ops as [|o ops IH]; intros s Hs HM Hn; [reflexivity|].
  cbn [run_obs].
  pose proof (step_wf s o Hs) as Hs'.
  pose proof (step_mirror s o Hs HM) as HM'.
  pose proof (step_nranks s o Hs) as Hn'.
  destruct (Store.step s o) as [s' out]. cbn [fst] in *.
  cbn [map forallb split_step]. rewrite V_to_state_V_state.
  pose proof (mirror_state_ok s' Hs' HM') as Hok. unfold mirror_ok in Hok.
  rewrite Hn', Hn in Hok. rewrite Hok. cbn [andb]. apply IH; [exact Hs'|exact HM'|congruence].
Qed.

Theorem c02_model_holds c :
  wf_case c = true -> holds c02_checker c (model c02_checker c) = true.
Proof.
  intros Hc. cbn [holds model c02_checker]. unfold hist_model, c02_holds.
  destruct (init_wf c Hc) as [Hs Hn].
  pose proof (init_mirror c Hc) as HM.
  cbn [forallb]. rewrite V_to_state_V_state.
  pose proof (mirror_state_ok _ Hs HM) as Hok. unfold mirror_ok in Hok. rewrite Hn in Hok.
  rewrite Hok. cbn [andb]. apply c02_steps_run; assumption.
Qed.

(* ---------- what the oracle says (oracle soundness) ---------- *)
Lemma mem_path_spec p l : mem_path p l = true <-> In p l.
Proof.
  split; [|apply mem_path_in]. unfold mem_path. intros H. apply existsb_exists in H.
  destruct H as [q [Hq He]]. apply path_eqb_eq in He. subst. exact Hq.
Qed.

Lemma nodup_paths_spec l : nodup_paths l = true <-> NoDup l.
Proof.
  induction l as [|p l IH]; [split; [constructor|reflexivity]|].
  cbn [nodup_paths]. rewrite andb_true_iff, negb_true_iff, IH. split.
  - intros [Hm Hn]. constructor; [|exact Hn]. intros Hin. apply mem_path_spec in Hin. congruence.
  - intros H. inversion H as [|? ? Hnin Hn]; subst. split; [|exact Hn].
    destruct (mem_path p l) eqn:Hm; [|reflexivity]. apply mem_path_spec in Hm. contradiction.
Qed.

Lemma all_some_spec {A} (l : list (option A)) ps : all_some l = Some ps <-> l = map Some ps.
Proof.
  revert ps. induction l as [|[x|] l IH]; intros ps; cbn [all_some].
  - split; [intros H; inversion H; reflexivity|]. destruct ps; [reflexivity|discriminate].
  - destruct (all_some l) as [r|] eqn:Hr; cbn [option_map].
    + split.
      * intros H. inversion H; subst. cbn [map]. f_equal. apply IH. reflexivity.
      * destruct ps as [|y ps]; [discriminate|]. cbn [map]. intros H. inversion H; subst.
        f_equal. f_equal. assert (Some r = Some ps) by (apply IH; reflexivity). congruence.
    + split; [discriminate|]. destruct ps as [|y ps]; [discriminate|]. cbn [map]. intros H.
      inversion H; subst. assert (None = Some ps) by (apply IH; reflexivity). discriminate.
  - split; [discriminate|]. destruct ps; discriminate.
Qed.

(* a rank's entry list passes iff it names, without repetition and without a stale entry, as
   many paths as the level has, all of them paths of the level *)
Theorem rank_mirrors_spec entries level :
  rank_mirrors entries level = true <->
  exists ps, entries = map Some ps /\ NoDup ps /\ length ps = length level /\ incl ps level.
Proof.
  unfold rank_mirrors. split.
  - destruct (all_some entries) as [ps|] eqn:Ha; [|discriminate]. intros H.
    apply andb_true_iff in H. destruct H as [H H3]. apply andb_true_iff in H. destruct H as [H1 H2].
    exists ps. split; [apply all_some_spec; exact Ha|]. split; [apply nodup_paths_spec; exact H1|].
    split; [apply Nat.eqb_eq; exact H2|]. intros p Hp. rewrite forallb_forall in H3.
    apply mem_path_spec. apply H3. exact Hp.
  - intros (ps & He & Hnd & Hlen & Hinc). apply all_some_spec in He. rewrite He.
    apply andb_true_iff. split; [apply andb_true_iff; split|].
    + apply nodup_paths_spec. exact Hnd.
    + apply Nat.eqb_eq. exact Hlen.
    + apply forallb_forall. intros p Hp. apply mem_path_spec. apply Hinc. exact Hp.
Qed.

Lemma NoDup_app_intro {A} (a b : list A) :
  NoDup a -> NoDup b -> (forall x, In x a -> In x b -> False) -> NoDup (a ++ b).
Proof.
  intros Ha. induction Ha as [|x a Hnin Ha IH]; intros Hb Hd; [exact Hb|].
  cbn [app]. constructor.
  - intros Hin. apply in_app_or in Hin. destruct Hin as [Hin|Hin]; [contradiction|].
    apply (Hd x); [left; reflexivity|exact Hin].
  - apply IH; [exact Hb|]. intros y Hy. apply Hd. right. exact Hy.
Qed.

Lemma NoDup_map_cons (c : Z) (l : list (list Z)) : NoDup l -> NoDup (map (cons c) l).
Proof.
  intros H. induction H as [|p l Hnin H IH]; [constructor|]. cbn [map]. constructor; [|exact IH].
  intros Hin. apply in_map_iff in Hin. destruct Hin as [q [E Hq]]. inversion E; subst. contradiction.
Qed.

(* in a tree with strictly increasing coordinates the paths of a level are distinct *)
Lemma paths_at_NoDup : forall t n k, wf_tree n t = true -> NoDup (paths_at k t).
Proof.
  induction t as [v|es IH] using tree_ind'; intros n k Hwf; [destruct k; constructor|].
  destruct n as [|n]; [discriminate|]. cbn [wf_tree] in Hwf.
  apply andb_true_iff in Hwf. destruct Hwf as [Hs Hk].
  destruct k as [|k]; [repeat constructor; intros []|]. cbn [paths_at].
  apply ssorted_NoDup in Hs. rewrite forallb_forall in Hk.
  induction es as [|[c t] es IHes]; [constructor|].
  inversion IH as [|? ? Ht Hes]; subst. cbn [map fst] in Hs.
  inversion Hs as [|? ? Hnin Hs']; subst. cbn [flat_map fst snd].
  apply NoDup_app_intro.
  - apply NoDup_map_cons. apply (Ht n k). apply (Hk (c, t)). left. reflexivity.
  - apply IHes; [exact Hes|exact Hs'|]. intros x Hx. apply Hk. right. exact Hx.
  - intros p Hp Hq. apply in_map_iff in Hp. destruct Hp as [p' [<- _]].
    apply in_flat_map in Hq. destruct Hq as [[c2 t2] [Hin2 Hq]]. cbn [fst snd] in Hq.
    apply in_map_iff in Hq. destruct Hq as [q' [E _]]. inversion E; subst c2.
    apply Hnin. apply (in_map fst) in Hin2. exact Hin2.
Qed.

Lemma forallb_combine_seq_inv {A} (G : nat * A -> bool) : forall (l : list A) a,
  forallb G (combine (seq a (length l)) l) = true ->
  forall k e, nth_error l k = Some e -> G (a + k, e) = true.
Proof.
  induction l as [|e0 l IH]; intros a H k e Hn; [destruct k; discriminate|].
  cbn [length seq combine forallb] in H. apply andb_true_iff in H. destruct H as [H0 H].
  destruct k as [|k]; cbn [nth_error] in Hn.
  - inversion Hn; subst. rewrite Nat.add_0_r. exact H0.
  - rewrite Nat.add_succ_r. apply (IH (S a) H k e Hn).
Qed.

(* the snapshot oracle: as many rank lists as ranks; rank k names — each once, none stale,
   none missing — exactly the fibers at depth k of the snapshot's tree; owners right *)
Theorem mirror_state_spec n os :
  wf_tree n (o_tree os) = true -> mirror_state n os = true ->
  length (o_ranks os) = n /\ o_owners os = true
  /\ forall k, k < n ->
       exists ps, nth k (o_ranks os) [] = map Some ps /\ NoDup ps
                  /\ (forall p, In p ps <-> In p (paths_at k (o_tree os))).
Proof.
  intros Hwf H. unfold mirror_state in H.
  apply andb_true_iff in H. destruct H as [H H3]. apply andb_true_iff in H. destruct H as [H1 H2].
  apply Nat.eqb_eq in H1. split; [exact H1|]. split; [exact H3|]. intros k Hk.
  rewrite <- H1 in H2, Hk.
  destruct (nth_error (o_ranks os) k) as [e|] eqn:He;
    [|apply nth_error_None in He; lia].
  pose proof (forallb_combine_seq_inv _ _ 0 H2 k e He) as Hr. cbn [plus fst snd] in Hr.
  rewrite (nth_error_nth _ _ [] He).
  apply rank_mirrors_spec in Hr. destruct Hr as (ps & E & Hnd & Hlen & Hinc).
  exists ps. split; [exact E|]. split; [exact Hnd|]. intros p. split; [apply Hinc|].
  apply (NoDup_length_incl Hnd); [lia|exact Hinc].
Qed.
