(* C14FlatP.v — flattenRanks/mergeRanks and unflattenRanks: the in-place loops of
   _flattenRankIdsShape / _unflattenRankIdsShape and the format carry-over compute the
   firstn/skipn re-arrangements flatten_spec / unflatten_spec. *)
From Coq Require Import ZArith List Bool Lia PeanoNat.
From FT Require Import Model.Base Model.Obs Model.C14Attrs Model.C14Build Model.C14Check
                       Proofs.ObsP Proofs.C14BuildP Proofs.C14AttrsP.
Import ListNotations.
Open Scope Z_scope.

(* ---- surgery on  pre ++ x :: rest *)
Lemma nth_error_mid {A} : forall (pre : list A) x rest,
  nth_error (pre ++ x :: rest) (length pre) = Some x.
Proof. induction pre as [|h pre IH]; intros; simpl; [reflexivity|apply IH]. Qed.

Lemma nth_error_mid_S {A} : forall (pre : list A) x y rest,
  nth_error (pre ++ x :: y :: rest) (S (length pre)) = Some y.
Proof. induction pre as [|h pre IH]; intros; simpl; [reflexivity|apply IH]. Qed.

Lemma set_nth_mid {A} : forall (pre : list A) x y rest,
  set_nth (length pre) y (pre ++ x :: rest) = pre ++ y :: rest.
Proof.
  induction pre as [|h pre IH]; intros; [reflexivity|].
  change (h :: set_nth (length pre) y (pre ++ x :: rest) = h :: (pre ++ y :: rest)).
  f_equal. apply IH.
Qed.

Lemma remove_at_mid_S {A} : forall (pre : list A) x y rest,
  remove_at (S (length pre)) (pre ++ x :: y :: rest) = pre ++ x :: rest.
Proof.
  induction pre as [|h pre IH]; intros; [reflexivity|].
  change (h :: remove_at (S (length pre)) (pre ++ x :: y :: rest) = h :: (pre ++ x :: rest)).
  f_equal. apply IH.
Qed.

Lemma insert_at_mid_S {A} : forall (pre : list A) x z rest,
  insert_at (S (length pre)) z (pre ++ x :: rest) = pre ++ x :: z :: rest.
Proof.
  induction pre as [|h pre IH]; intros; [reflexivity|].
  change (h :: insert_at (S (length pre)) z (pre ++ x :: rest) = h :: (pre ++ x :: z :: rest)).
  f_equal. apply IH.
Qed.

Lemma split_at {A} : forall d (l : list A) x,
  nth_error l d = Some x ->
  l = firstn d l ++ x :: skipn (S d) l /\ length (firstn d l) = d.
Proof.
  induction d as [|d IH]; intros [|h l] x H; simpl in H; try discriminate.
  - inversion H; subst. split; reflexivity.
  - destruct (IH l x H) as [E L]. split.
    + change (firstn (S d) (h :: l)) with (h :: firstn d l).
      change (skipn (S (S d)) (h :: l)) with (skipn (S d) l).
      simpl. f_equal. exact E.
    + simpl. f_equal. exact L.
Qed.

Lemma set_nth_split {A} : forall d (l : list A) x y,
  nth_error l d = Some x -> set_nth d y l = firstn d l ++ y :: skipn (S d) l.
Proof.
  induction d as [|d IH]; intros [|h l] x y H; simpl in H; try discriminate.
  - reflexivity.
  - change (h :: set_nth d y l = h :: (firstn d l ++ y :: skipn (S d) l)).
    f_equal. eapply IH; exact H.
Qed.

Lemma skipn_at {A} : forall d (l : list A) x,
  nth_error l d = Some x -> skipn d l = x :: skipn (S d) l.
Proof.
  induction d as [|d IH]; intros [|h l] x H; simpl in H; try discriminate.
  - inversion H; subst. reflexivity.
  - change (skipn (S d) (h :: l)) with (skipn d l).
    change (skipn (S (S d)) (h :: l)) with (skipn (S d) l). apply IH; exact H.
Qed.

Lemma my_skipn_skipn {A} : forall a b (l : list A), skipn a (skipn b l) = skipn (b + a) l.
Proof.
  intros a b. revert a. induction b as [|b IH]; intros a l; [reflexivity|].
  destruct l as [|h l]; [destruct a; reflexivity|].
  change (skipn (S b) (h :: l)) with (skipn b l).
  change (skipn (S b + a) (h :: l)) with (skipn (b + a) l). apply IH.
Qed.

Lemma firstn_app_exact {A} : forall (a b : list A), firstn (length a) (a ++ b) = a.
Proof. induction a as [|h a IH]; intros; simpl; [reflexivity|rewrite IH; reflexivity]. Qed.

Lemma skipn_app_exact {A} : forall (a b : list A), skipn (length a) (a ++ b) = b.
Proof. induction a as [|h a IH]; intros; simpl; [reflexivity|apply IH]. Qed.

(* l = firstn d l ++ firstn k (skipn d l) ++ skipn (d + k) l *)
Lemma three_parts {A} : forall d k (l : list A),
  l = firstn d l ++ firstn k (skipn d l) ++ skipn (d + k) l.
Proof.
  intros d k l. rewrite <- my_skipn_skipn, firstn_skipn, firstn_skipn. reflexivity.
Qed.

(* ---- membership *)
Lemma in_mem_rid r ids : In r ids -> mem_rid r ids = true.
Proof.
  intros H. unfold mem_rid. apply existsb_exists. exists r. split; [exact H|apply rid_eqb_refl].
Qed.

Lemma not_in_mem_rid r ids : ~ In r ids -> mem_rid r ids = false.
Proof.
  intros H. unfold mem_rid. destruct (existsb (rid_eqb r) ids) eqn:E; [|reflexivity].
  apply existsb_exists in E. destruct E as [x [Hx Ex]]. apply rid_eqb_spec in Ex. subst x.
  contradiction.
Qed.

(* formats of ranks that exist in the operand are carried by name = by position *)
Lemma carried_formats : forall t (part : list rid) (fpart : list bool),
  (forall r, In r part -> In r (t_ids t)) ->
  map (get_format t) part = map Some fpart ->
  map (fun r => if mem_rid r (t_ids t) then get_format t r else Some false) part = map Some fpart.
Proof.
  intros t part fpart Hin <-. apply map_ext_in. intros r Hr.
  rewrite (in_mem_rid r (t_ids t) (Hin r Hr)). reflexivity.
Qed.

Lemma get_format_firstn : forall t d,
  NoDup (t_ids t) -> length (t_fmts t) = length (t_ids t) ->
  map (get_format t) (firstn d (t_ids t)) = map Some (firstn d (t_fmts t)).
Proof.
  intros t d Hnd Hlen. rewrite <- firstn_map, (map_get_format_self t Hnd Hlen), firstn_map.
  reflexivity.
Qed.

Lemma get_format_skipn : forall t d,
  NoDup (t_ids t) -> length (t_fmts t) = length (t_ids t) ->
  map (get_format t) (skipn d (t_ids t)) = map Some (skipn d (t_fmts t)).
Proof.
  intros t d Hnd Hlen. rewrite <- skipn_map, (map_get_format_self t Hnd Hlen), skipn_map.
  reflexivity.
Qed.

(* ================================================================== flatten: rank ids *)
Lemma flat_ids_loop_spec : forall l pre acc rest,
  (l <= length rest)%nat ->
  flat_ids_loop l (length pre) (pre ++ RL acc :: rest)
  = Some (pre ++ RL (acc ++ flat_map atoms_of (firstn l rest)) :: skipn l rest).
Proof.
  induction l as [|l IH]; intros pre acc rest Hl.
  - simpl. rewrite app_nil_r. reflexivity.
  - destruct rest as [|nxt rest]; [simpl in Hl; lia|].
    cbn [flat_ids_loop]. rewrite nth_error_mid, nth_error_mid_S.
    rewrite set_nth_mid, remove_at_mid_S. cbn [atoms_of].
    rewrite IH by (simpl in Hl; lia).
    cbn [firstn flat_map skipn]. rewrite app_assoc. reflexivity.
Qed.

Lemma flat_ids_spec : forall d l ids,
  (d + l < length ids)%nat ->
  flat_ids d l ids
  = Some (firstn d ids ++ [RL (flat_map atoms_of (firstn (S l) (skipn d ids)))]
          ++ skipn (d + S l) ids).
Proof.
  intros d l ids H. unfold flat_ids.
  destruct (nth_error ids d) as [cur|] eqn:E.
  2:{ apply nth_error_None in E. lia. }
  destruct (split_at d ids cur E) as [Eids Elen].
  rewrite (skipn_at d ids cur E).
  assert (Hl : (l <= length (skipn (S d) ids))%nat) by (rewrite skipn_length; lia).
  rewrite (set_nth_split d ids cur _ E).
  rewrite <- Elen at 1. rewrite (flat_ids_loop_spec l _ _ _ Hl).
  rewrite my_skipn_skipn. cbn [firstn flat_map app].
  replace (S d + l)%nat with (d + S l)%nat by lia.
  destruct cur; reflexivity.
Qed.

(* ================================================================== flatten: shape *)
Section FlatShape.
  Variables (style : Z) (d l : nat).

  Lemma fsl_before : forall pre i rest new cur,
    (i + length pre <= d)%nat ->
    flat_shape_loop style d l i (pre ++ rest) new cur
    = flat_shape_loop style d l (i + length pre) rest (new ++ pre) cur.
  Proof.
    induction pre as [|x pre IH]; intros i rest new cur H.
    - simpl. rewrite Nat.add_0_r, app_nil_r. reflexivity.
    - simpl in H. cbn [app flat_shape_loop].
      replace (Nat.ltb i d) with true by (symmetry; apply Nat.ltb_lt; lia).
      rewrite IH by lia. simpl length.
      replace (S i + length pre)%nat with (i + S (length pre))%nat by lia.
      rewrite <- app_assoc. reflexivity.
  Qed.

  Lemma fsl_after : forall post i new cur,
    (d + l < i)%nat -> flat_shape_loop style d l i post new cur = new ++ post.
  Proof.
    induction post as [|x post IH]; intros i new cur H.
    - simpl. rewrite app_nil_r. reflexivity.
    - cbn [flat_shape_loop].
      replace (Nat.ltb i d) with false by (symmetry; apply Nat.ltb_ge; lia).
      replace (Nat.ltb (d + l) i) with true by (symmetry; apply Nat.ltb_lt; lia).
      rewrite IH by lia. rewrite <- app_assoc. reflexivity.
  Qed.

  (* inside the merged segment: position d + k, k <= l *)
  Lemma in_seg_tests : forall k, (k <= l)%nat ->
    Nat.ltb (d + k) d = false /\ Nat.ltb (d + l) (d + k) = false.
  Proof. intros k H. split; apply Nat.ltb_ge; lia. Qed.
End FlatShape.

Lemma fsl_tuple : forall d l post rest k new cur,
  rest <> [] -> (k + length rest = S l)%nat ->
  flat_shape_loop 0 d l (d + k) (rest ++ post) new cur
  = new ++ [ST (cur ++ flat_map comps rest)] ++ post.
Proof.
  intros d l post rest. induction rest as [|x rest IH]; intros k new cur Hne H; [contradiction|].
  simpl in H. cbn [app flat_shape_loop].
  destruct (in_seg_tests d l k ltac:(lia)) as [E1 E2]. rewrite E1, E2. cbn [Z.eqb Pos.eqb].
  destruct rest as [|y rest'].
  - simpl in H.
    replace (Nat.eqb (d + k) (d + l)) with true by (symmetry; apply Nat.eqb_eq; lia).
    cbn [app flat_map]. rewrite fsl_after by lia. rewrite app_nil_r, <- app_assoc. reflexivity.
  - simpl in H.
    replace (Nat.eqb (d + k) (d + l)) with false by (symmetry; apply Nat.eqb_neq; lia).
    replace (S (d + k)) with (d + S k)%nat by lia.
    rewrite IH by (first [discriminate | simpl; lia]).
    cbn [flat_map]. rewrite <- !app_assoc. reflexivity.
Qed.

Lemma fsl_pair : forall d l post rest k new cur,
  rest <> [] -> (k + length rest = S l)%nat ->
  flat_shape_loop 1 d l (d + k) (rest ++ post) new cur
  = new ++ [nest (cur ++ rest)] ++ post.
Proof.
  intros d l post rest. induction rest as [|x rest IH]; intros k new cur Hne H; [contradiction|].
  simpl in H. cbn [app flat_shape_loop].
  destruct (in_seg_tests d l k ltac:(lia)) as [E1 E2]. rewrite E1, E2. cbn [Z.eqb Pos.eqb].
  destruct rest as [|y rest'].
  - simpl in H.
    replace (Nat.eqb (d + k) (d + l)) with true by (symmetry; apply Nat.eqb_eq; lia).
    cbn [app]. rewrite fsl_after by lia. rewrite <- app_assoc. reflexivity.
  - simpl in H.
    replace (Nat.eqb (d + k) (d + l)) with false by (symmetry; apply Nat.eqb_neq; lia).
    replace (S (d + k)) with (d + S k)%nat by lia.
    rewrite IH by (first [discriminate | simpl; lia]).
    rewrite <- app_assoc. reflexivity.
Qed.

Lemma fsl_absolute : forall d l post rest k new cur,
  rest <> [] -> (k + length rest = S l)%nat ->
  flat_shape_loop 2 d l (d + k) (rest ++ post) new cur
  = new ++ [last rest (SZ 0)] ++ post.
Proof.
  intros d l post rest. induction rest as [|x rest IH]; intros k new cur Hne H; [contradiction|].
  simpl in H. cbn [app flat_shape_loop].
  destruct (in_seg_tests d l k ltac:(lia)) as [E1 E2]. rewrite E1, E2. cbn [Z.eqb Pos.eqb].
  destruct rest as [|y rest'].
  - simpl in H.
    replace (Nat.eqb (d + k) (d + l)) with true by (symmetry; apply Nat.eqb_eq; lia).
    cbn [app]. rewrite fsl_after by lia. rewrite <- app_assoc. reflexivity.
  - simpl in H.
    replace (Nat.eqb (d + k) (d + l)) with false by (symmetry; apply Nat.eqb_neq; lia).
    replace (S (d + k)) with (d + S k)%nat by lia.
    rewrite IH by (first [discriminate | simpl; lia]).
    reflexivity.
Qed.

(* relative: after the first rank of the segment nothing is added *)
Lemma fsl_relative_rest : forall d l post rest k new cur,
  (0 < k)%nat -> (k + length rest = S l)%nat ->
  flat_shape_loop 3 d l (d + k) (rest ++ post) new cur = new ++ post.
Proof.
  intros d l post rest. induction rest as [|y rest IH]; intros k new cur Hk H.
  - simpl in H. simpl app. apply fsl_after. lia.
  - simpl in H. cbn [app flat_shape_loop].
    destruct (in_seg_tests d l k ltac:(lia)) as [E1 E2]. rewrite E1, E2. cbn [Z.eqb Pos.eqb].
    replace (Nat.eqb (d + k) d) with false by (symmetry; apply Nat.eqb_neq; lia).
    replace (S (d + k)) with (d + S k)%nat by lia.
    apply IH; lia.
Qed.

Lemma mul_last_snoc : forall new a b, mul_last (new ++ [SZ a]) (SZ b) = new ++ [SZ (a * b)].
Proof.
  intros new a b. unfold mul_last. rewrite rev_unit. cbn [rev]. rewrite rev_involutive. reflexivity.
Qed.

Lemma fsl_linear_rest : forall d l post rest k new cur a,
  (0 < k)%nat -> (k + length rest = S l)%nat ->
  forallb is_sz rest = true ->
  flat_shape_loop 4 d l (d + k) (rest ++ post) (new ++ [SZ a]) cur
  = new ++ [SZ (a * fold_right Z.mul 1 (map sh_z rest))] ++ post.
Proof.
  intros d l post rest. induction rest as [|y rest IH]; intros k new cur a Hk H Hsz.
  - simpl in H. simpl app. rewrite fsl_after by lia. simpl. rewrite Z.mul_1_r, <- app_assoc. reflexivity.
  - simpl in H. cbn [forallb] in Hsz. apply andb_true_iff in Hsz. destruct Hsz as [Hy Hsz].
    destruct y as [b|]; [|discriminate].
    cbn [app flat_shape_loop].
    destruct (in_seg_tests d l k ltac:(lia)) as [E1 E2]. rewrite E1, E2. cbn [Z.eqb Pos.eqb].
    replace (Nat.eqb (d + k) d) with false by (symmetry; apply Nat.eqb_neq; lia).
    rewrite mul_last_snoc.
    replace (S (d + k)) with (d + S k)%nat by lia.
    rewrite IH by (try lia; exact Hsz).
    cbn [map fold_right sh_z]. rewrite Z.mul_assoc. reflexivity.
Qed.

Lemma flat_shape_spec : forall style d l s,
  (0 < l)%nat -> (d + l < length s)%nat -> 0 <= style <= 4 ->
  (style = 4 -> forallb is_sz (firstn (S l) (skipn d s)) = true) ->
  flat_shape_loop style d l 0 s [] []
  = firstn d s ++ [flat_entry style (firstn (S l) (skipn d s))] ++ skipn (d + S l) s.
Proof.
  intros style d l s Hl Hlen Hst Hsz.
  set (pre := firstn d s). set (seg := firstn (S l) (skipn d s)). set (post := skipn (d + S l) s).
  assert (Es : s = pre ++ seg ++ post) by apply three_parts.
  assert (Lpre : length pre = d) by (unfold pre; apply firstn_length_le; lia).
  assert (Lseg : length seg = S l).
  { unfold seg. apply firstn_length_le. rewrite skipn_length. lia. }
  rewrite Es at 1. rewrite fsl_before by lia.
  cbn [Nat.add app]. rewrite Lpre.
  destruct seg as [|x rest] eqn:Eseg; [simpl in Lseg; lia|].
  simpl in Lseg.
  replace d with (d + 0)%nat at 2 by lia.
  unfold flat_entry.
  destruct (Z.eqb style 0) eqn:E0.
  { apply Z.eqb_eq in E0. subst style. rewrite fsl_tuple by (first [discriminate | simpl; lia]). reflexivity. }
  destruct (Z.eqb style 1) eqn:E1.
  { apply Z.eqb_eq in E1. subst style. rewrite fsl_pair by (first [discriminate | simpl; lia]). reflexivity. }
  destruct (Z.eqb style 2) eqn:E2.
  { apply Z.eqb_eq in E2. subst style. rewrite fsl_absolute by (first [discriminate | simpl; lia]). reflexivity. }
  destruct (Z.eqb style 3) eqn:E3.
  { apply Z.eqb_eq in E3. subst style.
    cbn [app flat_shape_loop].
    destruct (in_seg_tests d l 0 ltac:(lia)) as [T1 T2]. rewrite T1, T2. cbn [Z.eqb Pos.eqb].
    replace (Nat.eqb (d + 0) d) with true by (symmetry; apply Nat.eqb_eq; lia).
    replace (S (d + 0)) with (d + 1)%nat by lia.
    rewrite fsl_relative_rest by lia. cbn [hd]. rewrite <- app_assoc. reflexivity. }
  apply Z.eqb_neq in E0, E1, E2, E3.
  assert (style = 4) by lia. subst style.
  pose proof (Hsz eq_refl) as Hall. fold seg in Hall. rewrite Eseg in Hall.
  cbn [forallb] in Hall. apply andb_true_iff in Hall. destruct Hall as [Hx Hall].
  destruct x as [a|]; [|discriminate].
  cbn [app flat_shape_loop].
  destruct (in_seg_tests d l 0 ltac:(lia)) as [T1 T2]. rewrite T1, T2. cbn [Z.eqb Pos.eqb].
  replace (Nat.eqb (d + 0) d) with true by (symmetry; apply Nat.eqb_eq; lia).
  replace (S (d + 0)) with (d + 1)%nat by lia.
  rewrite fsl_linear_rest by (try lia; exact Hall).
  reflexivity.
Qed.

(* ================================================================== flatten: the block *)
Lemma flatten_attrs_spec : forall d l st t,
  wf_kx t (XFlatten d l st) = true -> flatten_attrs d l st t = flatten_spec d l st t.
Proof.
  intros d l st t Hwf. unfold wf_kx in Hwf. apply andb_true_iff in Hwf. destruct Hwf as [Ht Hx].
  destruct (wf_t_facts t Ht) as [Hnd [Hlen Hsh]].
  cbn [wf_x] in Hx.
  apply andb_true_iff in Hx; destruct Hx as [Hx Hlin].
  apply andb_true_iff in Hx; destruct Hx as [Hx Hc0].
  apply andb_true_iff in Hx; destruct Hx as [Hx Habs].
  apply andb_true_iff in Hx; destruct Hx as [Hx Hc3].
  apply andb_true_iff in Hx; destruct Hx as [Hx Hc4].
  apply andb_true_iff in Hx; destruct Hx as [Hx Hc5].
  apply Nat.ltb_lt in Hx. apply Nat.ltb_lt in Hc5. apply Z.leb_le in Hc4. apply Z.leb_le in Hc3.
  apply negb_true_iff in Hc0. apply mem_rid_false_in in Hc0.
  unfold flatten_attrs, flatten_spec.
  rewrite (flat_ids_spec d l (t_ids t) Hc5).
  (* formats *)
  assert (Hf : all_some (map (fun r => if mem_rid r (t_ids t) then get_format t r else Some false)
                 (firstn d (t_ids t) ++ [RL (flat_map atoms_of (firstn (S l) (skipn d (t_ids t))))]
                  ++ skipn (d + S l) (t_ids t)))
               = Some (firstn d (t_fmts t) ++ [false] ++ skipn (d + S l) (t_fmts t))).
  { rewrite <- all_some_map_Some. f_equal. rewrite !map_app. cbn [map].
    rewrite (not_in_mem_rid _ _ Hc0).
    rewrite (carried_formats t (firstn d (t_ids t)) (firstn d (t_fmts t)))
      by (first [intros r Hr; eapply my_firstn_In; exact Hr | apply get_format_firstn; assumption]).
    rewrite (carried_formats t (skipn (d + S l) (t_ids t)) (skipn (d + S l) (t_fmts t)))
      by (first [intros r Hr; eapply my_skipn_In; exact Hr | apply get_format_skipn; assumption]).
    reflexivity. }
  rewrite Hf.
  destruct (t_shape t) as [s|] eqn:Es; cbn [option_map]; [|reflexivity].
  pose proof (Hsh s eq_refl) as Hls.
  destruct s as [|s0 s']; [simpl in Hls; lia|].
  rewrite flat_shape_spec; [reflexivity|exact Hx|lia|lia|].
  intros ->. cbn [Z.eqb negb orb] in Hlin. exact Hlin.
Qed.

Lemma merge_attrs_spec : forall d l st t,
  wf_kx t (XMerge d l st) = true -> flatten_attrs d l st t = flatten_spec d l st t.
Proof. intros d l st t H. apply flatten_attrs_spec. exact H. Qed.
