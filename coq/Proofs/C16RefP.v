(* C16RefP.v — facts about the oracle's own vocabulary: lexicographic chains, the reference
   iteration space, reached depth. *)
From Coq Require Import ZArith List Bool Lia.
From FT Require Import Model.Base Model.Obs Model.C16Metrics Model.C16Nest Model.C16Check.
Import ListNotations.
Open Scope Z_scope.

Lemma chain_app : forall R l1 l2,
  chain R l1 = true -> chain R l2 = true ->
  (forall a b, In a l1 -> In b l2 -> R a b = true) -> chain R (l1 ++ l2) = true.
Proof.
  intros R. induction l1 as [|a l1 IH]; intros l2 H1 H2 H; cbn [app]; auto.
  destruct l1 as [|b l1].
  - cbn [app]. destruct l2 as [|c l2]; auto.
    change (R a c && chain R (c :: l2) = true). rewrite (H a c) by (cbn; auto). rewrite H2. reflexivity.
  - cbn in H1. apply andb_true_iff in H1. destruct H1 as [Hab H1].
    change (R a b && chain R ((b :: l1) ++ l2) = true). rewrite Hab. cbn [andb].
    apply (IH l2 H1 H2). intros x y Hx Hy. apply H; auto. right. auto.
Qed.

Lemma chain_single : forall R a, chain R [a] = true.
Proof. reflexivity. Qed.

(* two stamps that agree on a prefix of length i and then differ strictly *)
Lemma lex_prefix_lt : forall (P : list Z) w1 w2 a b,
  firstn (S (length P)) a = P ++ [w1] -> firstn (S (length P)) b = P ++ [w2] -> w1 < w2 ->
  lex_lt a b = true /\ lex_le a b = true.
Proof.
  induction P as [|x P IH]; intros w1 w2 a b Ha Hb Hw; destruct a as [|y a], b as [|z b];
    cbn in *; try discriminate.
  - inversion Ha; inversion Hb; subst. assert (w1 <? w2 = true) as -> by lia. auto.
  - inversion Ha; inversion Hb; subst. destruct (IH w1 w2 a b) as [-> ->]; auto.
    rewrite Z.eqb_refl. cbn. rewrite !orb_true_r. auto.
Qed.

Lemma lex_le_refl_lt : forall a b, lex_lt a b = true -> lex_le a b = true.
Proof.
  induction a as [|x a IH]; intros [|y b] H; cbn in *; try discriminate.
  apply orb_true_iff in H. destruct H as [H|H]; [rewrite H; auto|].
  apply andb_true_iff in H. destruct H as [-> H]. rewrite (IH _ H). cbn. apply orb_true_r.
Qed.

Lemma list_eqb_refl : forall a, list_eqb a a = true.
Proof. induction a; cbn; auto. rewrite Z.eqb_refl. auto. Qed.
Lemma rows_eqb_refl : forall a, rows_eqb a a = true.
Proof. induction a; cbn; auto. rewrite list_eqb_refl. auto. Qed.

(* ------------------------------------------------------------------ space *)
Definition kids (L : level) (q : list Z * env) : list (list Z * env) :=
  map (fun ce => (fst q ++ [fst ce], snd ce)) (ref_elems L (snd q)).

Lemma space_S : forall L lv m pe, space (L :: lv) (S m) pe = space lv m (flat_map (kids L) pe).
Proof. reflexivity. Qed.

Lemma space_app : forall lv m a b, space lv m (a ++ b) = space lv m a ++ space lv m b.
Proof.
  induction lv as [|L lv IH]; intros m a b; destruct m; cbn [space]; auto.
  rewrite flat_map_app. apply IH.
Qed.

Lemma space_nil : forall lv m, space lv m [] = [].
Proof. induction lv as [|L lv IH]; intros [|m]; cbn; auto. Qed.

Lemma space_cons : forall lv m q pe, space lv m (q :: pe) = space lv m [q] ++ space lv m pe.
Proof. intros. apply (space_app lv m [q] pe). Qed.

(* number of consecutive levels, from the first of lv, that are entered below pe *)
Fixpoint dr (lv : list level) (pe : list (list Z * env)) : nat :=
  match lv with
  | [] => O
  | L :: lv' => match pe with [] => O | _ => S (dr lv' (flat_map (kids L) pe)) end
  end.

Lemma dr_nil : forall lv, dr lv [] = O.
Proof. destruct lv; reflexivity. Qed.

Lemma dr_app : forall lv a b, dr lv (a ++ b) = Nat.max (dr lv a) (dr lv b).
Proof.
  induction lv as [|L lv IH]; intros a b; cbn [dr]; auto.
  destruct a as [|x a]. { cbn. reflexivity. }
  destruct b as [|y b]. { rewrite app_nil_r. lia. }
  cbn [app].
  change (x :: a ++ y :: b) with ((x :: a) ++ (y :: b)). rewrite flat_map_app, IH. lia.
Qed.

Lemma dr_space : forall lv m pe, (m < dr lv pe)%nat <-> (space lv m pe <> [] /\ (m < length lv)%nat).
Proof.
  induction lv as [|L lv IH]; intros m pe.
  - cbn [dr length]. split; [lia|]. intros [_ H]. lia.
  - destruct pe as [|q pe].
    + cbn [dr]. rewrite space_nil. split; [lia|]. intros [H _]. congruence.
    + destruct m as [|m].
      * cbn. split; [intros _; split; [discriminate|lia]|lia].
      * rewrite space_S. cbn [dr length]. rewrite <- Nat.succ_lt_mono, IH. split; intros [H1 H2]; split; auto; lia.
Qed.

Lemma dr_le : forall lv pe, (dr lv pe <= length lv)%nat.
Proof.
  induction lv as [|L lv IH]; intros pe; cbn; auto. destruct pe; [lia|].
  specialize (IH (flat_map (kids L) (p :: pe))). lia.
Qed.
