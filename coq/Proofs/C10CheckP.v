(* C10CheckP.v — the world-step theorems (operands unchanged, result fresh) and the proof that
   the model's observation satisfies the oracle of C10Check.v. *)
From Coq Require Import ZArith List Bool PeanoNat Lia.
From FT Require Import Model.Base Model.Obs Model.C08Split Model.C10Model Model.C10Check
                       Proofs.ObsP Proofs.C10ModelP Proofs.C10OpsP.
Import ListNotations.
Local Open Scope N_scope.

Definition root_lab (t : lt) : N := match t with LF f _ _ => f | LB b _ => b end.
Lemma root_lab_in t : In (root_lab t) (labels t).
Proof. destruct t; left; reflexivity. Qed.
Lemma root_lab_map r t : root_lab (map_labels r t) = r (root_lab t).
Proof. destruct t; reflexivity. Qed.

Lemma hi_snap_tree nx s l : hi_snap nx s -> In l (labels (s_tree s)) -> l < nx.
Proof. intros H Hl. apply H. unfold snap_labels. apply in_or_app. left. exact Hl. Qed.

Lemma map_id_ext {A} (f : A -> A) l : (forall x, In x l -> f x = x) -> map f l = l.
Proof.
  induction l as [| x l IH]; intros H; cbn; [reflexivity|].
  rewrite H, IH; [reflexivity | intros; apply H; right; assumption | left; reflexivity].
Qed.

Lemma combine_map_snap ops :
  map (fun tx : lt * snapshot => {| s_tree := fst tx; s_ranks := s_ranks (snd tx) |})
      (combine (map s_tree ops) ops) = ops.
Proof. induction ops as [| [t r] ops IH]; cbn; [reflexivity|]. rewrite IH. reflexivity. Qed.

Lemma Forall2_eq_map {A B} (f : A -> B) (R : B -> B -> Prop) l w :
  Forall2 R (map f l) w -> (forall x y, In x l -> R (f x) y -> y = f x) -> w = map f l.
Proof.
  revert w. induction l as [| x l IH]; intros w H Hr; cbn in H; inversion H; subst; [reflexivity|].
  cbn. f_equal.
  - apply Hr; [left; reflexivity | assumption].
  - apply IH; [assumption|]. intros x0 y0 Hin. apply Hr. right. exact Hin.
Qed.

(* ---------- the operands are returned as they were *)
Theorem run_vop_unchanged fixed d n o ops nx r :
  (forall s, In s ops -> hi_snap nx s) ->
  run_vop fixed d n o ops nx = Some r -> v_ops r = ops.
Proof.
  intros Hhi H. unfold run_vop in H. destruct ops as [| s rest]; [discriminate|].
  remember (s :: rest) as ops eqn:Eops. clear Eops.
  destruct o.
  - (* copy *) destruct (deepcopy_snap s nx). inversion H. reflexivity.
  - destruct n; destruct (f_split sp d shape (s_tree s) nx) as [[t' n']|]; try discriminate.
    + inversion H. reflexivity.
    + destruct (from_fiber _ t' n'). inversion H. reflexivity.
  - destruct n; [destruct (f_flatten 0 d (s_tree s) nx) as [[t' n']|] | destruct (f_flatten (S n) d (s_tree s) nx) as [[t' n']|]]; try discriminate.
    + inversion H. reflexivity.
    + destruct (from_fiber _ t' n'). inversion H. reflexivity.
  - destruct n.
    + destruct (f_unflatten fixed (s_tree s) nx) as [[t' n']|]; [|discriminate]. inversion H. reflexivity.
    + destruct (l_empty d (s_tree s)).
      * destruct (mk_fiber nx true []) as [t0 n0]. destruct (from_fiber _ t0 n0). inversion H. reflexivity.
      * destruct (deepcopy (s_tree s) nx) as [c n1].
        destruct (f_unflatten fixed c n1) as [[t' n']|]; [|discriminate].
        destruct (from_fiber _ t' n'). inversion H. reflexivity.
  - destruct n.
    + destruct (f_swap fixed 0 d (s_tree s) nx) as [[t' n']|]; [|discriminate]. inversion H. reflexivity.
    + destruct (deepcopy (s_tree s) nx) as [c n1]. destruct (l_empty d (s_tree s)).
      * destruct (deepcopy (attach_attrs n1 (S n) 0 c) (3 * n1 + 2)) as [c2 n3].
        destruct (from_fiber _ c2 n3). inversion H. reflexivity.
      * destruct (f_swap fixed (S n) d c n1) as [[t' n']|]; [|discriminate].
        destruct (from_fiber _ t' n'). inversion H. reflexivity.
  - destruct n; [|discriminate]. destruct (f_arith op _ _ nx) as [t' n']. inversion H. reflexivity.
  - (* updateCoords: the in-place step addresses the copy's root, which no operand holds *)
    destruct n; [discriminate|]. destruct (deepcopy_snap s nx) as [s' n'] eqn:E.
    inversion H; subst; clear H. cbn [v_ops].
    apply map_id_ext. intros x Hx. destruct x as [tx rx]. cbn. f_equal.
    apply upd_fiber_id. unfold deepcopy_snap in E. inversion E; subst. cbn [s_tree map_snap].
    fold (root_lab (map_labels (fun l => nx + l) (s_tree s))). rewrite root_lab_map.
    intros Hin. pose proof (hi_snap_tree nx _ _ (Hhi _ Hx) Hin) as Hlt. cbn in Hlt. lia.
  - (* updatePayloads *)
    destruct n; [discriminate|]. destruct (deepcopy_snap s nx) as [s' n'] eqn:E.
    destruct (upd_pay_world d k (fibs_at (pred (S n)) (s_tree s')) (s_tree s' :: map s_tree ops) n')
      as [w n''] eqn:Ew.
    apply upd_pay_world_rel with (lo := nx) in Ew; [| unfold deepcopy_snap in E; inversion E; lia].
    destruct w as [| r0 w']; [discriminate|]. inversion H; subst; clear H. cbn [v_ops].
    inversion Ew as [| ? ? ? ? _ Hrest]; subst.
    apply Forall2_eq_map in Hrest.
    + rewrite Hrest. apply combine_map_snap.
    + intros x y Hx [_ Hid]. apply Hid. intros f Hf Hin.
      apply fibs_at_in in Hf. apply deepcopy_snap_lo in E. destruct E as [Hlo _].
      assert (nx <= f) by (apply Hlo; unfold snap_labels; apply in_or_app; left; exact Hf).
      pose proof (hi_snap_tree nx _ _ (Hhi _ Hx) Hin). lia.
  - destruct n; [discriminate|]. destruct (deepcopy (s_tree s) nx) as [c n1]. inversion H. reflexivity.
  - destruct n; [discriminate|]. destruct (deepcopy (s_tree s) nx) as [c n1]. destruct sub as [i|].
    + destruct (nth_error (es_of c) i) as [[ci [b v | f a es]]|]; try discriminate.
      destruct (deepcopy (attach_attrs n1 (S n) 1 (LF f a es)) (3 * n1 + 2)) as [c2 n3].
      destruct (from_fiber _ c2 n3). inversion H. reflexivity.
    + destruct (deepcopy (attach_attrs n1 (S n) 0 c) (3 * n1 + 2)) as [c2 n3].
      destruct (from_fiber _ c2 n3). inversion H. reflexivity.
Qed.

(* ---------- the result carries only labels at or above the counter of the call *)
Lemma fiber_snap_lo lo t : lo_ok lo t -> lo_snap lo (fiber_snap t).
Proof. intros H l Hl. unfold snap_labels, fiber_snap in Hl. cbn in Hl. rewrite app_nil_r in Hl. apply H. exact Hl. Qed.

Theorem run_vop_fresh d n o ops nx r :
  run_vop true d n o ops nx = Some r -> lo_snap nx (v_res r).
Proof.
  intros H. unfold run_vop in H. destruct ops as [| s rest]; [discriminate|].
  destruct o.
  - destruct (deepcopy_snap s nx) as [s' n'] eqn:E. inversion H; subst. cbn.
    apply deepcopy_snap_lo in E. tauto.
  - destruct n; destruct (f_split sp d shape (s_tree s) nx) as [[t' n']|] eqn:E; try discriminate;
      apply f_split_lo in E; destruct E as [Ht Hn].
    + inversion H; subst. cbn. apply fiber_snap_lo. exact Ht.
    + destruct (from_fiber _ t' n') as [s' n''] eqn:Ef. inversion H; subst. cbn.
      apply from_fiber_lo with (lo := nx) in Ef; [tauto | lia | exact Ht].
  - destruct n.
    + destruct (f_flatten 0 d (s_tree s) nx) as [[t' n']|] eqn:E; [|discriminate].
      apply f_flatten_lo in E. inversion H; subst. cbn. apply fiber_snap_lo. tauto.
    + destruct (f_flatten (S n) d (s_tree s) nx) as [[t' n']|] eqn:E; [|discriminate].
      apply f_flatten_lo in E. destruct E as [Ht Hn].
      destruct (from_fiber _ t' n') as [s' n''] eqn:Ef. inversion H; subst. cbn.
      apply from_fiber_lo with (lo := nx) in Ef; [tauto | lia | exact Ht].
  - destruct n.
    + destruct (f_unflatten true (s_tree s) nx) as [[t' n']|] eqn:E; [|discriminate].
      apply f_unflatten_lo in E. inversion H; subst. cbn. apply fiber_snap_lo. tauto.
    + destruct (l_empty d (s_tree s)).
      * destruct (mk_fiber nx true []) as [t0 n0] eqn:Em.
        apply mk_fiber_lo with (lo := nx) in Em; [| lia | apply lo_es_nil]. destruct Em as [Ht0 Hn0].
        destruct (from_fiber _ t0 n0) as [s' n''] eqn:Ef. inversion H; subst. cbn [v_res].
        apply from_fiber_lo with (lo := nx) in Ef; [tauto | lia | exact Ht0].
      * destruct (deepcopy (s_tree s) nx) as [c n1] eqn:Ec. apply deepcopy_lo in Ec.
        destruct (f_unflatten true c n1) as [[t' n']|] eqn:E; [|discriminate].
        apply f_unflatten_lo' with (lo := nx) in E; [|lia]. destruct E as [Ht Hn].
        destruct (from_fiber _ t' n') as [s' n''] eqn:Ef. inversion H; subst. cbn.
        apply from_fiber_lo with (lo := nx) in Ef; [tauto | lia | exact Ht].
  - destruct n.
    + destruct (f_swap true 0 d (s_tree s) nx) as [[t' n']|] eqn:E; [|discriminate].
      apply f_swap_lo in E. inversion H; subst. cbn. apply fiber_snap_lo. tauto.
    + destruct (deepcopy (s_tree s) nx) as [c n1] eqn:Ec. apply deepcopy_lo in Ec.
      destruct (l_empty d (s_tree s)).
      * destruct (deepcopy (attach_attrs n1 (S n) 0 c) (3 * n1 + 2)) as [c2 n3] eqn:E2.
        apply deepcopy_lo in E2. destruct E2 as [Hc2 Hn3].
        destruct (from_fiber _ c2 n3) as [s' n''] eqn:Ef. inversion H; subst. cbn [v_res].
        apply from_fiber_lo with (lo := nx) in Ef; [tauto | lia | eapply lo_ok_le; [|exact Hc2]; lia].
      * destruct (f_swap true (S n) d c n1) as [[t' n']|] eqn:E; [|discriminate].
        apply f_swap_lo in E. destruct E as [Ht Hn].
        destruct (from_fiber _ t' n') as [s' n''] eqn:Ef. inversion H; subst. cbn.
        apply from_fiber_lo with (lo := nx) in Ef; [tauto | lia | eapply lo_ok_le; [|exact Ht]; lia].
  - destruct n; [|discriminate]. destruct (f_arith op _ _ nx) as [t' n'] eqn:E.
    apply f_arith_lo in E. inversion H; subst. cbn. apply fiber_snap_lo. tauto.
  - destruct n; [discriminate|]. destruct (deepcopy_snap s nx) as [s' n'] eqn:E.
    apply deepcopy_snap_lo in E. destruct E as [Hlo _]. inversion H; subst; clear H. cbn [v_res].
    intros l Hl. unfold snap_labels in Hl. cbn [s_tree s_ranks] in Hl. apply in_app_or in Hl.
    destruct Hl as [Hl | Hl].
    + revert l Hl. change (lo_ok nx (upd_fiber (root_lab (s_tree s')) (map (fun ct : coord * lt => (bump_last k (fst ct), snd ct))) (s_tree s'))).
      apply upd_fiber_lo.
      * intros es Hes l Hl. rewrite labels_es_map_coord in Hl. apply Hes. exact Hl.
      * intros l Hl. apply Hlo. unfold snap_labels. apply in_or_app. left. exact Hl.
    + apply Hlo. unfold snap_labels. apply in_or_app. right. exact Hl.
  - destruct n; [discriminate|]. destruct (deepcopy_snap s nx) as [s' n'] eqn:E.
    destruct (upd_pay_world d k (fibs_at (pred (S n)) (s_tree s')) (s_tree s' :: map s_tree (s :: rest)) n')
      as [w n''] eqn:Ew.
    apply deepcopy_snap_lo in E. destruct E as [Hlo Hn].
    apply upd_pay_world_rel with (lo := nx) in Ew; [|lia].
    destruct w as [| r0 w']; [discriminate|]. inversion H; subst; clear H. cbn [v_res].
    inversion Ew as [| ? ? ? ? [Hr0 _] _]; subst.
    intros l Hl. unfold snap_labels in Hl. cbn [s_tree s_ranks] in Hl. apply in_app_or in Hl.
    destruct Hl as [Hl | Hl].
    + apply Hr0; [|exact Hl]. intros l' Hl'. apply Hlo. unfold snap_labels. apply in_or_app. left. exact Hl'.
    + apply Hlo. unfold snap_labels. apply in_or_app. right. exact Hl.
  - destruct n; [discriminate|]. destruct (deepcopy (s_tree s) nx) as [c n1] eqn:Ec.
    apply deepcopy_lo in Ec. destruct Ec as [Hc Hn]. inversion H; subst. cbn [v_res].
    apply fiber_snap_lo. apply attach_attrs_lo; [exact Hn | exact Hc].
  - destruct n; [discriminate|]. destruct (deepcopy (s_tree s) nx) as [c n1] eqn:Ec.
    apply deepcopy_lo in Ec. destruct Ec as [Hc Hn]. destruct sub as [i|].
    + destruct (nth_error (es_of c) i) as [[ci [b v | f a es]]|]; try discriminate.
      destruct (deepcopy (attach_attrs n1 (S n) 1 (LF f a es)) (3 * n1 + 2)) as [c2 n3] eqn:E2.
      apply deepcopy_lo in E2. destruct E2 as [Hc2 Hn3].
      destruct (from_fiber _ c2 n3) as [s' n''] eqn:Ef. inversion H; subst. cbn [v_res].
      apply from_fiber_lo with (lo := nx) in Ef; [tauto | lia | eapply lo_ok_le; [|exact Hc2]; lia].
    + destruct (deepcopy (attach_attrs n1 (S n) 0 c) (3 * n1 + 2)) as [c2 n3] eqn:E2.
      apply deepcopy_lo in E2. destruct E2 as [Hc2 Hn3].
      destruct (from_fiber _ c2 n3) as [s' n''] eqn:Ef. inversion H; subst. cbn [v_res].
      apply from_fiber_lo with (lo := nx) in Ef; [tauto | lia | eapply lo_ok_le; [|exact Hc2]; lia].
Qed.

(* ---------- mutation keeps labels *)
Lemma labels_mutate S k t : labels (mutate S k t) = labels t.
Proof.
  induction t as [b v | f a es IH] using lt_ind'; cbn [labels mutate]; [reflexivity|]. f_equal. f_equal.
  induction IH as [| ct es Hct _ IHes]; cbn [map flat_map snd]; [reflexivity|]. rewrite Hct, IHes. reflexivity.
Qed.
Lemma side_labels_mutate S k s : side_labels (mutate_snap S k s) = side_labels s.
Proof.
  unfold side_labels, mutate_snap. cbn. rewrite labels_mutate. f_equal. rewrite map_map.
  apply map_ext. intros r. reflexivity.
Qed.

(* ---------- oracle plumbing *)
Lemma zs_of_enc (g : N -> Z) l : zs_of (map (fun x => VZ (g x)) l) = Some (map g l).
Proof. induction l as [| x l IH]; cbn; [reflexivity|]. rewrite IH. reflexivity. Qed.

Lemma snap_parts_enc r s :
  snap_parts (enc_snap r s)
  = Some (enc_et (erase (s_tree s)), map (fun x => Z.of_N (r x)) (snap_labels s),
          VL [VL (map (fun x => enc_labs r (r_fibers x)) (s_ranks s));
              VL (map (owner_code (s_ranks s)) (owners (s_tree s)))]).
Proof. unfold snap_parts, enc_snap, enc_labs. rewrite zs_of_enc. reflexivity. Qed.

Lemma same_struct_refl r s : same_struct (enc_snap r s) (enc_snap r s) = true.
Proof. unfold same_struct. rewrite snap_parts_enc. rewrite !V_eqb_refl. reflexivity. Qed.

Lemma all2_refl r l : all2 same_struct (map (enc_snap r) l) (map (enc_snap r) l) = true.
Proof. induction l as [| s l IH]; cbn; [reflexivity|]. rewrite same_struct_refl, IH. reflexivity. Qed.

Lemma index_of_inj x y l : In x l -> index_of x l = index_of y l -> x = y.
Proof.
  induction l as [| z l IH]; cbn; [tauto|]. intros Hin H.
  destruct (N.eqb x z) eqn:Ex, (N.eqb y z) eqn:Ey.
  - apply N.eqb_eq in Ex, Ey. congruence.
  - exfalso. lia.
  - exfalso. lia.
  - destruct Hin as [-> | Hin]; [rewrite N.eqb_refl in Ex; discriminate|]. apply IH; [exact Hin | lia].
Qed.

Lemma In_dedup x l : forall seen, In x l -> ~ In x seen -> In x (dedup seen l).
Proof.
  induction l as [| y l IH]; intros seen Hin Hns; cbn; [destruct Hin|].
  destruct (mem y seen) eqn:Em.
  - destruct Hin as [-> | Hin]; [|apply IH; assumption].
    apply (proj2 (mem_false_iff x seen)) in Hns. congruence.
  - destruct (N.eq_dec x y) as [-> | Hne]; [left; reflexivity|]. right.
    destruct Hin as [-> | Hin]; [contradiction|]. apply IH; [exact Hin|].
    intros [-> | H]; [contradiction | contradiction].
Qed.

Lemma canon_inj snaps x y :
  In x (flat_map snap_labels snaps) -> canon_of snaps x = canon_of snaps y -> x = y.
Proof.
  unfold canon_of. intros Hin H. eapply index_of_inj; [|exact H].
  apply In_dedup; [exact Hin | intros []].
Qed.

Lemma disjoint_enc r a b :
  (forall x y, In x (snap_labels a) -> In y (snap_labels b) -> r x <> r y) ->
  disjoint_snaps (enc_snap r a) (enc_snap r b) = true.
Proof.
  intros H. unfold disjoint_snaps. rewrite !snap_parts_enc. unfold disjointZ.
  apply forallb_forall. intros z Hz. apply in_map_iff in Hz. destruct Hz as [x [<- Hx]].
  apply negb_true_iff. destruct (existsb _ _) eqn:E; [|reflexivity].
  apply existsb_exists in E. destruct E as [z' [Hz' E]]. apply in_map_iff in Hz'.
  destruct Hz' as [y [<- Hy]]. apply Z.eqb_eq in E. apply N2Z.inj in E.
  exfalso. eapply H; eauto.
Qed.

Lemma In_flat_map_snaps (s : snapshot) snaps l :
  In s snaps -> In l (snap_labels s) -> In l (flat_map snap_labels snaps).
Proof. intros Hs Hl. apply in_flat_map. exists s. auto. Qed.

Lemma boundedb_hi nx s : boundedb nx s = true -> hi_snap nx s.
Proof.
  unfold boundedb. intros H l Hl. rewrite forallb_forall in H. apply H in Hl.
  apply N.ltb_lt. exact Hl.
Qed.

(* ---------- the faithful model meets the oracle *)
Lemma trace_holds n d o ops nx t :
  forallb (boundedb nx) ops = true -> negb (Nat.eqb (length ops) O) = true ->
  trace_of true n d o ops nx = Some t -> holds_cv (length ops) (enc_trace t) = true.
Proof.
  intros Hb Hlen Hrun. unfold trace_of in Hrun.
  destruct (run_vop true d n o ops nx) as [r|] eqn:Er; [|discriminate].
  inversion Hrun; subst t; clear Hrun.
  assert (forall s, In s ops -> hi_snap nx s) as Hhi.
  { intros s Hs. apply boundedb_hi. rewrite forallb_forall in Hb. apply Hb. exact Hs. }
  pose proof (run_vop_unchanged _ _ _ _ _ _ _ Hhi Er) as Hun.
  pose proof (run_vop_fresh _ _ _ _ _ _ Er) as Hfr.
  (* mutating the result does not touch the operands *)
  assert (map (mutate_snap (side_labels (v_res r)) 7%Z) (v_ops r) = ops) as Hs2.
  { rewrite Hun. apply map_id_ext. intros s Hs. apply mutate_snap_id. intros l Hl Hin.
    apply side_labels_incl in Hl, Hin. specialize (Hhi s Hs l Hl). specialize (Hfr l Hin). lia. }
  rewrite Hs2, Hun.
  (* mutating the operands does not touch the result *)
  assert (mutate_snap (flat_map side_labels ops) 5%Z (mutate_snap (side_labels (v_res r)) 7%Z (v_res r))
          = mutate_snap (side_labels (v_res r)) 7%Z (v_res r)) as Hsr2.
  { apply mutate_snap_id. intros l Hl Hin. rewrite side_labels_mutate in Hl.
    apply side_labels_incl in Hl. specialize (Hfr l Hl).
    apply in_flat_map in Hin. destruct Hin as [s [Hs Hin]]. apply side_labels_incl in Hin.
    specialize (Hhi s Hs l Hin). lia. }
  rewrite Hsr2.
  unfold enc_trace, trace_snaps. cbn [t_s0 t_s1 t_sr t_s2 t_sr1 t_sr2].
  set (snaps := ops ++ ops ++ [v_res r] ++ ops ++ _).
  unfold holds_cv. rewrite map_length, Nat.eqb_refl. rewrite Hlen. cbn [andb].
  rewrite !all2_refl, same_struct_refl. cbn [andb Z.eqb]. rewrite !andb_true_r.
  apply forallb_forall. intros v Hv. apply in_map_iff in Hv. destruct Hv as [s [<- Hs]].
  apply disjoint_enc. intros x y Hx Hy Heq.
  apply canon_inj in Heq.
  - subst y. specialize (Hhi s Hs x Hx). specialize (Hfr x Hy). lia.
  - eapply In_flat_map_snaps; [|exact Hx]. unfold snaps. apply in_or_app. left. exact Hs.
Qed.

Lemma load_all_length n ts : forall n0 ops nx, load_all n ts n0 = (ops, nx) -> length ops = length ts.
Proof.
  induction ts as [| t ts IH]; intros n0 ops nx El; cbn in El.
  - inversion El. reflexivity.
  - destruct (load_snap n t n0) as [s n1]. destruct (load_all n ts n1) as [r n2] eqn:E2.
    inversion El; subst. cbn. f_equal. eapply IH. exact E2.
Qed.

Lemma cv_model_holds n d o ts :
  c10_wf (CV n d o ts) = true -> holds_cv (length ts) (c10_model (CV n d o ts)) = true.
Proof.
  cbn [c10_wf c10_model]. intros Hwf.
  apply andb_prop in Hwf. destruct Hwf as [Hwf Hrun]. apply andb_prop in Hwf. destruct Hwf as [Hlen Hb].
  unfold cv_run in *. destruct (load_all n ts 0) as [ops nx] eqn:El.
  pose proof (load_all_length _ _ _ _ _ El) as Hlo.
  destruct (trace_of true n d o ops nx) as [t|] eqn:Et; [|discriminate].
  rewrite <- Hlo. eapply trace_holds; [exact Hb | rewrite Hlo; exact Hlen | exact Et].
Qed.

Lemma cv2_model_holds n d o1 o2 t :
  c10_wf (CV2 n d o1 o2 t) = true -> holds_cv 1 (c10_model (CV2 n d o1 o2 t)) = true.
Proof.
  cbn [c10_wf c10_model]. unfold cv2_run. intros Hwf.
  destruct (first_step true n d o1 t) as [r1|]; [|discriminate].
  apply andb_prop in Hwf. destruct Hwf as [Hb Hrun].
  destruct (trace_of true (res_ranks n o1) d o2 [v_res r1] (v_nx r1)) as [tr|] eqn:Et; [|discriminate].
  change 1%nat with (length [v_res r1]). eapply trace_holds; [|reflexivity | exact Et].
  cbn [forallb]. rewrite Hb. reflexivity.
Qed.

Lemma cj_model_holds n d o1 t :
  c10_wf (CJ n d o1 t) = true -> holds_cj (c10_model (CJ n d o1 t)) = true.
Proof.
  cbn [c10_wf c10_model]. destruct (first_step true n d o1 t) as [r1|]; [|discriminate].
  intros _. unfold holds_cj. rewrite same_struct_refl. reflexivity.
Qed.

Lemma cr_model_holds n a b obs : holds_cr (c10_model (CR n a b obs)) = true.
Proof.
  cbn [c10_model]. unfold cr_run.
  destruct (load_snap n a 0) as [sa n1]. destruct (load_snap n b n1) as [sb n2].
  pose proof (observe_all_false D obs (sa, sb, n2)) as [H1 H2].
  destruct (fold_left (fun (st : pair_st) (o : robs) => observe false D o st) obs (sa, sb, n2)) as [[sa' sb'] n3]. cbn in H1, H2. subst.
  unfold enc_cr, holds_cr. rewrite !same_struct_refl. reflexivity.
Qed.

Theorem c10_model_holds : forall c, c10_wf c = true -> holds c10_checker c (model c10_checker c) = true.
Proof.
  intros c Hwf. cbn [holds model c10_checker]. unfold c10_holds. rewrite Hwf. cbn [andb].
  destruct c as [n d o ts | n a b obs | n d o1 o2 t | n d o1 t].
  - apply cv_model_holds. exact Hwf.
  - apply cr_model_holds.
  - apply cv2_model_holds. exact Hwf.
  - apply cj_model_holds. exact Hwf.
Qed.

(* ---------- corollaries used by the property file *)
Theorem run_vop_disjoint d n o ops nx r :
  (forall s, In s ops -> hi_snap nx s) -> run_vop true d n o ops nx = Some r ->
  forall s, In s (v_ops r) -> forall l, In l (snap_labels s) -> ~ In l (snap_labels (v_res r)).
Proof.
  intros Hhi Er s Hs l Hl Hin.
  rewrite (run_vop_unchanged _ _ _ _ _ _ _ Hhi Er) in Hs.
  pose proof (run_vop_fresh _ _ _ _ _ _ Er l Hin). specialize (Hhi s Hs l Hl). lia.
Qed.

Theorem run_vop_independent d n o ops nx r S k :
  (forall s, In s ops -> hi_snap nx s) -> run_vop true d n o ops nx = Some r ->
  (* any label-addressed mutation of objects of the result leaves the operands alone ... *)
  ((forall l, In l S -> In l (side_labels (v_res r))) -> map (mutate_snap S k) (v_ops r) = v_ops r)
  (* ... and any mutation of objects of the operands leaves the result alone *)
  /\ ((forall l, In l S -> In l (flat_map side_labels (v_ops r))) -> mutate_snap S k (v_res r) = v_res r).
Proof.
  intros Hhi Er. pose proof (run_vop_unchanged _ _ _ _ _ _ _ Hhi Er) as Hun.
  pose proof (run_vop_fresh _ _ _ _ _ _ Er) as Hfr. split; intros HS.
  - apply map_id_ext. intros s Hs. apply mutate_snap_id. intros l Hl Hin. rewrite Hun in Hs.
    apply HS in Hin. apply side_labels_incl in Hl, Hin. specialize (Hhi s Hs l Hl). specialize (Hfr l Hin). lia.
  - apply mutate_snap_id. intros l Hl Hin. apply HS in Hin. apply side_labels_incl in Hl.
    specialize (Hfr l Hl). apply in_flat_map in Hin. destruct Hin as [s [Hs Hin]]. rewrite Hun in Hs.
    apply side_labels_incl in Hin. specialize (Hhi s Hs l Hin). lia.
Qed.

(* what the oracle's disjointness test means *)
Lemma disjoint_enc_inv r a b :
  disjoint_snaps (enc_snap r a) (enc_snap r b) = true ->
  forall x y, In x (snap_labels a) -> In y (snap_labels b) -> r x <> r y.
Proof.
  unfold disjoint_snaps. rewrite !snap_parts_enc. unfold disjointZ. intros H x y Hx Hy Heq.
  rewrite forallb_forall in H.
  specialize (H (Z.of_N (r x)) (in_map (fun x => Z.of_N (r x)) _ _ Hx)).
  apply negb_true_iff in H.
  assert (existsb (Z.eqb (Z.of_N (r x))) (map (fun x0 => Z.of_N (r x0)) (snap_labels b)) = true) as E.
  { apply existsb_exists. exists (Z.of_N (r y)). split; [|rewrite Heq; apply Z.eqb_refl].
    apply in_map_iff. exists y. split; [reflexivity | exact Hy]. }
  congruence.
Qed.

Section EtInd.
  Variable P : et -> Prop.
  Hypothesis HL : forall v, P (EL v).
  Hypothesis HN : forall es, Forall (fun ct => P (snd ct)) es -> P (EN es).
  Fixpoint et_ind' (t : et) : P t :=
    match t with
    | EL v => HL v
    | EN es => HN es
        ((fix go (l : list (coord * et)) : Forall (fun ct => P (snd ct)) l :=
            match l with
            | [] => Forall_nil _
            | ct :: l' => Forall_cons ct (et_ind' (snd ct)) (go l')
            end) es)
    end.
End EtInd.

Lemma enc_coord_inj a b : enc_coord a = enc_coord b -> a = b.
Proof.
  unfold enc_coord. intros H. inversion H as [E]. clear H. revert b E.
  induction a as [| x a IH]; intros [| y b] E; cbn in E; try discriminate; [reflexivity|].
  inversion E. f_equal. apply IH. assumption.
Qed.

Lemma enc_et_inj a : forall b, enc_et a = enc_et b -> a = b.
Proof.
  induction a as [v | es IH] using et_ind'; intros [w | es'] H; cbn in H; try discriminate.
  - inversion H. reflexivity.
  - inversion H as [E]. clear H. f_equal. revert es' E.
    induction IH as [| ct es Hct _ IHes]; intros [| ct' es'] E; cbn in E; try discriminate; [reflexivity|].
    inversion E as [[Ec Et Er]]. f_equal.
    + destruct ct, ct'; cbn in *. f_equal; [apply enc_coord_inj; unfold enc_coord; rewrite Ec; reflexivity | apply Hct; exact Et].
    + apply IHes. exact Er.
Qed.

Lemma same_struct_inv r a b :
  same_struct (enc_snap r a) (enc_snap r b) = true -> erase (s_tree a) = erase (s_tree b).
Proof.
  unfold same_struct. rewrite !snap_parts_enc. intros H. apply andb_prop in H. destruct H as [H _].
  apply V_eqb_spec in H. apply enc_et_inj. exact H.
Qed.
