(* Proofs tying Model/C20CodecCheck.v (the executable C20 oracle) to Proofs/C20CodecP.v. *)
From Coq Require Import ZArith List Bool Lia.
From FT Require Import Model.Base Model.Obs Model.C20Codec Model.C20CodecCheck
                       Proofs.ObsP Proofs.C20CodecP.
Import ListNotations.
Open Scope Z_scope.

Lemma aapp_blank_r a : c20_aapp a (c20_blank_arr (length a)) = a.
Proof.
  induction a as [|[c p] a IH]; [reflexivity|]. cbn [length c20_blank_arr repeat c20_aapp].
  unfold c20_blank_arr in IH. rewrite IH, !app_nil_r. reflexivity.
Qed.

Lemma all_empty_blank n : c20_all_empty (c20_blank_arr n) = true.
Proof. induction n; [reflexivity|]. exact IHn. Qed.

Lemma zl_eqb_refl l : c20_zl_eqb l l = true.
Proof. induction l as [|x l IH]; [reflexivity|]. cbn [c20_zl_eqb]. rewrite Z.eqb_refl, IH. reflexivity. Qed.

Lemma content_eqb_refl l : c20_content_eqb l l = true.
Proof.
  induction l as [|[p v] l IH]; [reflexivity|]. cbn [c20_content_eqb].
  rewrite zl_eqb_refl, Z.eqb_refl, IH. reflexivity.
Qed.

Lemma wf_parts c : c20_wf c = true ->
  q_desc c <> [] /\ length (c20_dims c) = length (q_desc c)
  /\ forallb (Z.leb 0) (c20_dims c) = true /\ c20_wf_tree (c20_dims c) (q_tree c) = true.
Proof.
  unfold c20_wf. intros H.
  apply andb_true_iff in H. destruct H as [H _].
  apply andb_true_iff in H. destruct H as [H H4].
  apply andb_true_iff in H. destruct H as [H _].
  apply andb_true_iff in H. destruct H as [H H3].
  apply andb_true_iff in H. destruct H as [H1 H2].
  apply Nat.eqb_eq in H2. repeat split; auto.
  intros E. rewrite E in H1. discriminate.
Qed.

(* whole tensor: the arrays the model of Codec.encode produces decode, by layout alone and
   with nothing left over, to exactly the tensor's content *)
Lemma holds_decode_model c : c20_wf c = true ->
  let r := c20_root (q_desc c) (c20_dims c) (q_tree c) in
  c20_holds_decode c (fst r) (c20_arrs (snd r)) = true.
Proof.
  intros Hwf. destruct (wf_parts c Hwf) as [Hne [Hlen [Hpos Ht]]].
  cbv zeta. unfold c20_holds_decode, c20_root. cbn [fst snd].
  destruct (q_desc c) as [|f fs] eqn:Efs; [congruence|].
  set (ds := c20_dims c) in *. set (t := q_tree c) in *.
  pose proof (enc_length (f :: fs) ds t Hlen) as Hl.
  pose proof (all_rt (f :: fs) ds t Hlen Hne Hpos Ht) as Hrt.
  set (cnt := nth 0 (if c20_upper f then [snd (c20_enc (f :: fs) ds t)] else []) 0).
  destruct (Hrt cnt (c20_blank_arr (length (f :: fs)))) as [T [ET HT]].
  - apply blank_arr_len.
  - cbn [hd]. intros Hu. subst cnt. rewrite Hu. cbn [nth].
    destruct ds as [|d ds']; [discriminate|]. rewrite enc_ret.
    destruct f; [discriminate| |]; reflexivity.
  - rewrite <- Hl in ET at 1. rewrite aapp_blank_r in ET. rewrite ET. cbn [fst snd].
    rewrite Hl, Nat.eqb_refl, all_empty_blank, HT, content_eqb_refl.
    destruct (c20_upper f); reflexivity.
Qed.
