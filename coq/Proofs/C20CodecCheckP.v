(* Proofs tying Model/C20CodecCheck.v (the executable C20 oracle) to Proofs/C20CodecP.v. *)
From Coq Require Import ZArith List Bool Lia.
From FT Require Import Model.Base Model.Obs Model.C20Codec Model.C20CodecCheck
                       Proofs.ObsP Proofs.C20CodecP.
Import ListNotations.
Open Scope Z_scope.

Lemma aapp_blank_r a : c20_aapp a (c20_blank_arr (length a)) = a.
Proof.
  induction a as [|[c p] a IH]; [reflexivity|]. cbn [length c20_blank_arr repeat c20_aapp].
  unfold c20_blank_arr in IH. rewrite IH, !app_nil_r. reflexivity.
Qed.

Lemma all_empty_blank n : c20_all_empty (c20_blank_arr n) = true.
Proof. induction n; [reflexivity|]. exact IHn. Qed.

Lemma zl_eqb_refl l : c20_zl_eqb l l = true.
Proof. induction l as [|x l IH]; [reflexivity|]. cbn [c20_zl_eqb]. rewrite Z.eqb_refl, IH. reflexivity. Qed.

Lemma content_eqb_refl l : c20_content_eqb l l = true.
Proof.
  induction l as [|[p v] l IH]; [reflexivity|]. cbn [c20_content_eqb].
  rewrite zl_eqb_refl, Z.eqb_refl, IH. reflexivity.
Qed.

Lemma wf_parts c : c20_wf c = true ->
  q_desc c <> [] /\ length (c20_dims c) = length (q_desc c)
  /\ forallb (Z.leb 0) (c20_dims c) = true /\ c20_wf_tree (c20_dims c) (q_tree c) = true.
Proof.
  unfold c20_wf. intros H.
  apply andb_true_iff in H. destruct H as [H _].
  apply andb_true_iff in H. destruct H as [H H4].
  apply andb_true_iff in H. destruct H as [H _].
  apply andb_true_iff in H. destruct H as [H H3].
  apply andb_true_iff in H. destruct H as [H1 H2].
  apply Nat.eqb_eq in H2. repeat split; auto.
  intros E. rewrite E in H1. discriminate.
Qed.

(* whole tensor: the arrays the model of Codec.encode produces decode, by layout alone and
   with nothing left over, to exactly the tensor's content *)
Lemma holds_decode_model c : c20_wf c = true ->
  let r := c20_root (q_desc c) (c20_dims c) (q_tree c) in
  c20_holds_decode c (fst r) (c20_arrs (snd r)) = true.
Proof.
  intros Hwf. destruct (wf_parts c Hwf) as [Hne [Hlen [Hpos Ht]]].
  cbv zeta. unfold c20_holds_decode, c20_root. cbn [fst snd].
  destruct (q_desc c) as [|f fs] eqn:Efs; [congruence|].
  set (ds := c20_dims c) in *. set (t := q_tree c) in *.
  pose proof (enc_length (f :: fs) ds t Hlen) as Hl.
  pose proof (all_rt (f :: fs) ds t Hlen Hne Hpos Ht) as Hrt.
  set (cnt := nth 0 (if c20_upper f then [snd (c20_enc (f :: fs) ds t)] else []) 0).
  destruct (Hrt cnt (c20_blank_arr (length (f :: fs)))) as [T [ET HT]].
  - apply blank_arr_len.
  - cbn [hd]. intros Hu. subst cnt. rewrite Hu. cbn [nth].
    destruct ds as [|d ds']; [discriminate|]. rewrite enc_ret.
    destruct f; [discriminate| |]; reflexivity.
  - rewrite <- Hl in ET at 1. rewrite aapp_blank_r in ET. rewrite ET. cbn [fst snd].
    rewrite Hl, Nat.eqb_refl, all_empty_blank, HT, content_eqb_refl.
    destruct (c20_upper f); reflexivity.
Qed.

(* ------------------------------------------------------------------ reading back V *)
Lemma vl_Vl {A} (f : A -> V) l : vl (Vl f l) = map f l.
Proof. reflexivity. Qed.

Lemma vzl_Vl l : vzl (Vl VZ l) = l.
Proof. unfold vzl. rewrite vl_Vl, map_map. cbn [vz]. apply map_id. Qed.

Lemma vopt_Vo o : vopt (Vo VZ o) = o.
Proof. destruct o; reflexivity. Qed.

Lemma ol_eqb_refl l : c20_ol_eqb l l = true.
Proof.
  induction l as [|[x|] l IH]; [reflexivity| |]; cbn [c20_ol_eqb]; rewrite ?Z.eqb_refl, IH; reflexivity.
Qed.

Lemma arrs_of_Vl o : c20_arrs_of (Vl V_rank o) = c20_arrs o.
Proof.
  unfold c20_arrs_of, c20_arrs. rewrite vl_Vl, map_map. apply map_ext. intros r.
  unfold V_rank. cbn [vnth vl nth]. rewrite !vzl_Vl. reflexivity.
Qed.

Definition c20_pay_entries (f : c20_fmt) (leaf nextup : bool) (n : Z) : Z :=
  if leaf then n else match f with FU => 0 | _ => if nextup then n else 0 end.
Definition c20_occ_entries (leaf nextup : bool) (n : Z) : Z :=
  if negb leaf && nextup then n else 0.
Definition c20_layout_coords (f : c20_fmt) (dim : Z) (coords : list Z) : list Z :=
  match f with FU => c20_range dim | FC => coords | FB => c20_positions coords end.

(* the per-fiber oracle on the printed observation of a fiber = the same conditions on the
   fiber's fields and on the results of the modelled handle API *)
Lemma fiber_ok_unfold f dim leaf nextup qs e osf :
  c20_fiber_ok f dim leaf nextup qs (V_efib qs (e, osf))
  = let lc := c20_layout_coords f dim (ef_coords e) in
    let n := c20_len lc in
    (c20_code (ef_fmt e) =? c20_code f)
    && match f with
       | FU => c20_len (ef_coords e) =? 0 | FC => true | FB => c20_len (ef_coords e) =? dim
       end
    && (c20_len (ef_occ e) =? c20_occ_entries leaf nextup n)
    && (if leaf then c20_len (ef_vals e) =? n else c20_len (ef_vals e) =? 0)
    && c20_ol_eqb (map c20_e_coord (c20_scan e osf)) (map Some lc)
    && (if leaf || match f with FC => nextup | _ => true end
        then c20_ol_eqb (map c20_e_pay (c20_scan e osf)) (map Some (iota (length lc)))
        else true)
    && (if leaf then c20_ol_eqb (map c20_e_val (c20_scan e osf)) (map Some (ef_vals e)) else true)
    && match f with
       | FC => c20_ol_eqb (map (c20_c2h e) qs) (map (fun q => c20_first_ge (ef_coords e) q 0) qs)
       | _ => true
       end
    && (c20_size e =? match f with
                      | FU => 0 | FC => c20_len (ef_coords e)
                      | FB => (c20_len (ef_coords e) + 31) / 32
                      end + c20_occ_entries leaf nextup n + c20_pay_entries f leaf nextup n).
Proof.
  unfold c20_fiber_ok, V_efib, c20_layout_coords, c20_occ_entries, c20_pay_entries.
  cbn [fst snd vnth vl nth vz].
  rewrite !vzl_Vl, !vl_Vl, !map_map.
  rewrite (map_ext (fun x => vopt (vnth (V_elem x) 0)) c20_e_coord)
    by (intros x; unfold V_elem; cbn [vnth vl nth]; apply vopt_Vo).
  rewrite (map_ext (fun x => vopt (vnth (V_elem x) 1)) c20_e_pay)
    by (intros x; unfold V_elem; cbn [vnth vl nth]; apply vopt_Vo).
  rewrite (map_ext (fun x => vopt (vnth (V_elem x) 2)) c20_e_val)
    by (intros x; unfold V_elem; cbn [vnth vl nth]; apply vopt_Vo).
  rewrite (map_ext (fun x => vopt (Vo VZ (c20_c2h e x))) (c20_c2h e))
    by (intros x; apply vopt_Vo).
  reflexivity.
Qed.

Ltac c20_bools :=
  repeat (apply andb_true_iff; split); try reflexivity;
  try (apply Z.eqb_eq; cbn [c20_code negb andb orb length]; unfold c20_len in *; cbn [length] in *; lia).

Lemma fiber_ok_U d leaf nextup qs e osf :
  0 <= d -> ef_fmt e = FU -> ef_coords e = [] -> ef_shape e = d -> ef_npay e = d ->
  ef_leaf e = leaf -> ef_nextup e = nextup ->
  (if leaf then c20_len (ef_vals e) = d /\ ef_occ e = []
   else ef_vals e = [] /\ c20_len (ef_occ e) = (if nextup then d else 0)) ->
  c20_fiber_ok FU d leaf nextup qs (V_efib qs (e, osf)) = true.
Proof.
  intros Hd Hf Hc Hs Hn Hl Hu Hlv. rewrite fiber_ok_unfold. cbv zeta.
  unfold c20_layout_coords, c20_occ_entries, c20_pay_entries.
  destruct (scan_U e osf d Hf Hs Hn) as [S1 [S2 S3]].
  { intros Hl'. rewrite Hl' in Hl. subst leaf. apply Hlv. }
  rewrite S1, S2, Hf, Hc, (range_len d Hd), range_length.
  change (iota (Z.to_nat d)) with (c20_range d). rewrite !ol_eqb_refl.
  unfold c20_size. rewrite Hf, Hl, Hn.
  destruct leaf.
  - destruct Hlv as [Hv Ho]. rewrite (S3 Hl), Ho, Hv, ol_eqb_refl. cbn [negb andb orb].
    c20_bools.
  - destruct Hlv as [Hv Ho]. rewrite Hv, Ho. cbn [negb andb orb]. destruct nextup; c20_bools.
Qed.

Lemma fiber_ok_C d hi leaf nextup qs e osf :
  ef_fmt e = FC -> c20_asc 0 hi (ef_coords e) = true ->
  ef_leaf e = leaf -> ef_nextup e = nextup ->
  ef_npay e = (if leaf || nextup then c20_len (ef_coords e) else 0) ->
  (if leaf then c20_len (ef_vals e) = c20_len (ef_coords e) /\ ef_occ e = []
   else ef_vals e = [] /\ c20_len (ef_occ e) = (if nextup then c20_len (ef_coords e) else 0)) ->
  c20_fiber_ok FC d leaf nextup qs (V_efib qs (e, osf)) = true.
Proof.
  intros Hf Hasc Hl Hu Hn Hlv. rewrite fiber_ok_unfold. cbv zeta.
  unfold c20_layout_coords, c20_occ_entries, c20_pay_entries.
  destruct (scan_C e osf hi Hf Hasc) as [S1 [S2 S3]].
  { intros Hl'. rewrite Hl' in Hl. subst leaf. cbn [orb] in Hn. split; [exact Hn|apply Hlv]. }
  rewrite S1, Hf, ol_eqb_refl, iota_len_range.
  rewrite (map_ext (c20_c2h e) (fun q => c20_first_ge (ef_coords e) q 0)).
  2:{ intros q. unfold c20_c2h. rewrite Hf. apply (c2h_first_ge _ 0 hi), Hasc. }
  rewrite ol_eqb_refl.
  unfold c20_size. rewrite Hf, Hn. rewrite Hl, Hu in S2.
  destruct leaf.
  - destruct Hlv as [Hv Ho]. rewrite (S3 Hl), (S2 eq_refl), Ho, Hv, !ol_eqb_refl.
    cbn [negb andb orb]. c20_bools.
  - destruct Hlv as [Hv Ho]. rewrite Hv, Ho. cbn [negb andb orb] in *. destruct nextup.
    + rewrite (S2 eq_refl), ol_eqb_refl. c20_bools.
    + c20_bools.
Qed.

Lemma fiber_ok_B d cs leaf nextup qs e osf :
  0 <= d -> ef_fmt e = FB -> c20_asc 0 d cs = true -> ef_coords e = c20_bits d cs ->
  ef_leaf e = leaf -> ef_nextup e = nextup -> ef_npay e = c20_len cs ->
  (if leaf then c20_len (ef_vals e) = c20_len cs /\ ef_occ e = []
   else ef_vals e = [] /\ c20_len (ef_occ e) = (if nextup then c20_len cs else 0)) ->
  c20_fiber_ok FB d leaf nextup qs (V_efib qs (e, osf)) = true.
Proof.
  intros Hd Hf Hasc Hc Hl Hu Hn Hlv. rewrite fiber_ok_unfold. cbv zeta.
  unfold c20_layout_coords, c20_occ_entries, c20_pay_entries.
  destruct (scan_B e osf d cs Hf Hasc Hc Hn) as [S1 [S2 S3]].
  { intros Hl'. rewrite Hl' in Hl. subst leaf. apply Hlv. }
  rewrite S1, S2, Hf, Hc, (positions_bits d cs Hasc), (bits_len d cs Hd), iota_len_range, !ol_eqb_refl.
  unfold c20_size. rewrite Hf, Hl, Hu, Hn, Hc, (bits_len d cs Hd).
  destruct leaf.
  - destruct Hlv as [Hv Ho]. rewrite (S3 Hl), Ho, Hv, ol_eqb_refl. cbn [negb andb orb].
    c20_bools.
  - destruct Hlv as [Hv Ho]. rewrite Hv, Ho. cbn [negb andb orb]. destruct nextup; c20_bools.
Qed.

(* ------------------------------------------------------------------ invariant of the encoder's output *)
Definition c20_is_leaf (fs' : list c20_fmt) : bool := match fs' with [] => true | _ => false end.
Definition c20_nextup (fs' : list c20_fmt) : bool :=
  match fs' with g :: _ => c20_upper g | [] => false end.

Definition c20_rank_inv (f : c20_fmt) (d : Z) (leaf nextup : bool) (rk : c20_rank) : Prop :=
  rk_coords rk = concat (map ef_coords (rk_fibers rk))
  /\ rk_pays rk = concat (map (fun e => ef_occ e ++ ef_vals e) (rk_fibers rk))
  /\ Forall (fun e => forall qs osf, c20_fiber_ok f d leaf nextup qs (V_efib qs (e, osf)) = true)
            (rk_fibers rk).

Fixpoint c20_out_inv (fs : list c20_fmt) (ds : list Z) (o : c20_out) : Prop :=
  match fs, ds, o with
  | [], _, [] => True
  | f :: fs', d :: ds', rk :: o' =>
    c20_rank_inv f d (c20_is_leaf fs') (c20_nextup fs') rk /\ c20_out_inv fs' ds' o'
  | _, _, _ => False
  end.

Lemma out_inv_cons f fs' d ds' rk o' :
  c20_rank_inv f d (c20_is_leaf fs') (c20_nextup fs') rk -> c20_out_inv fs' ds' o' ->
  c20_out_inv (f :: fs') (d :: ds') (rk :: o').
Proof. intros; split; assumption. Qed.

Lemma out_inv_blank fs : forall ds, length ds = length fs -> c20_out_inv fs ds (c20_blank fs).
Proof.
  induction fs as [|f fs IH]; intros ds H; [exact I|].
  destruct ds as [|d ds]; [discriminate|]. cbn [c20_blank map c20_out_inv]. split.
  - repeat split; constructor.
  - apply IH. cbn [length] in H. lia.
Qed.

Lemma out_inv_oapp fs : forall ds a b,
  c20_out_inv fs ds a -> c20_out_inv fs ds b -> c20_out_inv fs ds (c20_oapp a b).
Proof.
  induction fs as [|f fs IH]; intros ds a b Ha Hb.
  - destruct a; [|destruct ds; contradiction]. exact Hb.
  - destruct ds as [|d ds]; [destruct a; contradiction|].
    destruct a as [|x a]; [contradiction|]. destruct b as [|y b]; [contradiction|].
    cbn [c20_out_inv] in *. destruct Ha as [[A1 [A2 A3]] Ha]. destruct Hb as [[B1 [B2 B3]] Hb].
    cbn [c20_oapp c20_out_inv]. split; [|apply IH; assumption].
    unfold c20_rank_inv. cbn [rk_coords rk_pays rk_fibers].
    rewrite !map_app, !concat_app, A1, A2, B1, B2. repeat split. apply Forall_app. split; assumption.
Qed.

Definition c20_leaf_fiber (f : c20_fmt) (d : Z) (es : fib) : c20_efib :=
  {| ef_fmt := f; ef_coords := c20_coords f d es; ef_occ := []; ef_vals := c20_vals f d es;
     ef_npay := c20_len (c20_vals f d es);
     ef_shape := match f with FU => d | _ => 0 end;
     ef_leaf := true; ef_nextup := false; ef_nnz := c20_ret f es |}.

Definition c20_int_fiber (f g : c20_fmt) (d : Z) (es : fib) (rs : list (c20_out * Z)) : c20_efib :=
  {| ef_fmt := f; ef_coords := c20_coords f d es;
     ef_occ := if c20_upper g then c20_cumul 0 (map snd rs) else [];
     ef_vals := [];
     ef_npay := match f with
                | FC => if c20_upper g then c20_len rs else 0
                | _ => c20_len rs
                end;
     ef_shape := match f with FU => d | _ => 0 end;
     ef_leaf := false; ef_nextup := c20_upper g; ef_nnz := c20_ret f es |}.

Lemma enc_leaf_fst f d ds t :
  fst (c20_enc [f] (d :: ds) t)
  = [{| rk_coords := c20_coords f d (c20_es t); rk_pays := c20_vals f d (c20_es t);
        rk_fibers := [c20_leaf_fiber f d (c20_es t)] |}].
Proof. reflexivity. Qed.

Lemma enc_int_fst f g fs'' d ds t :
  let rs := map (c20_enc (g :: fs'') ds) (c20_kids f d (c20_es t)) in
  fst (c20_enc (f :: g :: fs'') (d :: ds) t)
  = {| rk_coords := c20_coords f d (c20_es t);
       rk_pays := if c20_upper g then c20_cumul 0 (map snd rs) else [];
       rk_fibers := [c20_int_fiber f g d (c20_es t) rs] |}
    :: fold_right c20_oapp (c20_blank (g :: fs'')) (map fst rs).
Proof. reflexivity. Qed.

Lemma present_asc d es : c20_asc 0 d (map fst es) = true ->
  c20_asc 0 d (map fst (present 0 es)) = true.
Proof. intros H. apply (asc_filter (fun ct => negb (is_empty 0 (snd ct))) es 0 d H). Qed.

Lemma leaf_fiber_ok f d es qs osf : 0 <= d -> c20_asc 0 d (map fst es) = true ->
  c20_fiber_ok f d true false qs (V_efib qs (c20_leaf_fiber f d es, osf)) = true.
Proof.
  intros Hd Hasc. pose proof (present_asc d es Hasc) as Hp. destruct f.
  - apply fiber_ok_U; try reflexivity; [exact Hd| |].
    + cbn [c20_leaf_fiber ef_npay c20_vals]. rewrite len_map. apply range_len, Hd.
    + cbn [c20_leaf_fiber ef_vals ef_occ c20_vals]. rewrite len_map. split; [apply range_len, Hd|reflexivity].
  - apply (fiber_ok_C d d); try reflexivity; [exact Hp| |].
    + cbn [c20_leaf_fiber ef_npay ef_coords c20_vals c20_coords orb]. rewrite !len_map. reflexivity.
    + cbn [c20_leaf_fiber ef_vals ef_occ ef_coords c20_vals c20_coords]. rewrite !len_map.
      split; reflexivity.
  - apply (fiber_ok_B d (map fst (present 0 es))); try reflexivity; [exact Hd|exact Hp| |].
    + cbn [c20_leaf_fiber ef_npay c20_vals]. rewrite !len_map. reflexivity.
    + cbn [c20_leaf_fiber ef_vals ef_occ c20_vals]. rewrite !len_map. split; reflexivity.
Qed.

Lemma kids_len_U d es : 0 <= d -> c20_len (c20_kids FU d es) = d.
Proof. intros H. cbn [c20_kids]. rewrite len_map. apply range_len, H. Qed.

Lemma int_fiber_ok f g fs'' d ds es qs osf : 0 <= d -> c20_asc 0 d (map fst es) = true ->
  c20_fiber_ok f d false (c20_upper g) qs
    (V_efib qs (c20_int_fiber f g d es (map (c20_enc (g :: fs'') ds) (c20_kids f d es)), osf)) = true.
Proof.
  intros Hd Hasc. pose proof (present_asc d es Hasc) as Hp.
  set (rs := map (c20_enc (g :: fs'') ds) (c20_kids f d es)).
  assert (Hrs : c20_len rs = c20_len (c20_kids f d es)) by (subst rs; apply len_map).
  assert (Hocc : c20_len (if c20_upper g then c20_cumul 0 (map snd rs) else [])
                 = if c20_upper g then c20_len rs else 0).
  { destruct (c20_upper g); [|reflexivity]. rewrite cumul_len, len_map. reflexivity. }
  destruct f.
  - apply fiber_ok_U; try reflexivity; [exact Hd| |].
    + cbn [c20_int_fiber ef_npay]. rewrite Hrs. apply kids_len_U, Hd.
    + cbn [c20_int_fiber ef_vals ef_occ]. split; [reflexivity|].
      rewrite Hocc, Hrs, (kids_len_U d es Hd). reflexivity.
  - apply (fiber_ok_C d d); try reflexivity; [exact Hp| |].
    + cbn [c20_int_fiber ef_npay ef_coords c20_coords orb]. rewrite Hrs. cbn [c20_kids].
      rewrite !len_map. reflexivity.
    + cbn [c20_int_fiber ef_vals ef_occ ef_coords c20_coords]. split; [reflexivity|].
      rewrite Hocc, Hrs. cbn [c20_kids]. rewrite !len_map. reflexivity.
  - apply (fiber_ok_B d (map fst (present 0 es))); try reflexivity; [exact Hd|exact Hp| |].
    + cbn [c20_int_fiber ef_npay]. rewrite Hrs. cbn [c20_kids]. rewrite !len_map. reflexivity.
    + cbn [c20_int_fiber ef_vals ef_occ]. split; [reflexivity|].
      rewrite Hocc, Hrs. cbn [c20_kids]. rewrite !len_map. reflexivity.
Qed.

Lemma enc_inv fs : forall ds t,
  length ds = length fs -> forallb (Z.leb 0) ds = true -> c20_wf_tree ds t = true ->
  c20_out_inv fs ds (fst (c20_enc fs ds t)).
Proof.
  induction fs as [|f fs IH]; intros ds t Hlen Hpos Hwf; [exact I|].
  destruct ds as [|d ds]; [discriminate|]. destruct t as [v|es]; [discriminate|].
  cbn [forallb] in Hpos. apply andb_true_iff in Hpos. destruct Hpos as [Hd Hpos].
  apply Z.leb_le in Hd.
  pose proof Hwf as Hwf0. cbn [c20_wf_tree] in Hwf0. apply andb_true_iff in Hwf0.
  destruct Hwf0 as [Hasc _].
  destruct fs as [|g fs''].
  - rewrite enc_leaf_fst. cbn [c20_out_inv c20_is_leaf c20_nextup c20_es]. split; [|exact I].
    unfold c20_rank_inv. cbn [rk_coords rk_pays rk_fibers map concat c20_leaf_fiber ef_coords ef_occ ef_vals app].
    rewrite !app_nil_r. repeat split. constructor; [|constructor].
    intros qs osf. apply leaf_fiber_ok; assumption.
  - destruct ds as [|d' ds']; [discriminate|].
    rewrite enc_int_fst. cbv zeta. cbn [c20_es]. apply out_inv_cons.
    + cbn [c20_is_leaf c20_nextup]. unfold c20_rank_inv.
      cbn [rk_coords rk_pays rk_fibers map concat c20_int_fiber ef_coords ef_occ ef_vals app].
      rewrite !app_nil_r. repeat split. constructor; [|constructor].
      intros qs osf. apply int_fiber_ok; assumption.
    + assert (Hlen' : length (d' :: ds') = length (g :: fs'')) by (cbn [length] in *; lia).
      pose proof (kids_wf f d d' ds' es Hwf) as Hk.
      induction (c20_kids f d es) as [|k ks IHk]; cbn [map fold_right].
      * apply out_inv_blank, Hlen'.
      * inversion Hk as [|? ? Hk1 Hk2]; subst. apply out_inv_oapp.
        -- apply IH; assumption.
        -- apply IHk, Hk2.
Qed.

(* ------------------------------------------------------------------ levels of the model observation *)
Lemma osf_map {B} (g : c20_efib * Z -> B) (h : c20_efib -> B) l : forall a,
  (forall e z, g (e, z) = h e) -> map g (c20_osf a l) = map h l.
Proof.
  induction l as [|e l IH]; intros a H; [reflexivity|].
  cbn [c20_osf map]. rewrite H, (IH _ H). reflexivity.
Qed.

Lemma osf_in l : forall a eo, In eo (c20_osf a l) -> In (fst eo) l.
Proof.
  induction l as [|e l IH]; intros a eo H; [contradiction|].
  cbn [c20_osf] in H. destruct H as [<-|H]; [left; reflexivity|right; apply (IH _ _ H)].
Qed.

Lemma levels_ok_model fs : forall ds o qs, c20_out_inv fs ds o ->
  c20_levels_ok fs ds qs (c20_arrs o)
    (map (fun rk => Vl (V_efib qs) (c20_osf 0 (rk_fibers rk))) o) = true.
Proof.
  induction fs as [|f fs IH]; intros ds o qs H.
  - destruct o; [reflexivity|destruct ds; contradiction].
  - destruct ds as [|d ds]; [destruct o; contradiction|]. destruct o as [|rk o]; [contradiction|].
    cbn [c20_out_inv] in H. destruct H as [[H1 [H2 H3]] Ho].
    cbn [c20_arrs map c20_levels_ok].
    fold (c20_arrs o). fold (c20_is_leaf fs). fold (c20_nextup fs).
    rewrite vl_Vl, !map_map.
    rewrite (osf_map (fun x => vzl (vnth (V_efib qs x) 1)) ef_coords)
      by (intros e z; unfold V_efib; cbn [vnth vl nth fst]; apply vzl_Vl).
    rewrite (osf_map (fun x => vzl (vnth (V_efib qs x) 2) ++ vzl (vnth (V_efib qs x) 3))
                     (fun e => ef_occ e ++ ef_vals e))
      by (intros e z; unfold V_efib; cbn [vnth vl nth fst]; rewrite !vzl_Vl; reflexivity).
    rewrite <- H1, <- H2, !zl_eqb_refl, (IH ds o qs Ho). cbn [andb]. rewrite andb_true_r.
    apply forallb_forall. intros v Hv. apply in_map_iff in Hv. destruct Hv as [[e z] [<- Hin]].
    apply osf_in in Hin. cbn [fst] in Hin. rewrite Forall_forall in H3. apply (H3 e Hin).
Qed.

(* ------------------------------------------------------------------ the model meets the oracle *)
Lemma c20_model_holds c : c20_wf c = true ->
  holds c20_checker c (model c20_checker c) = true.
Proof.
  intros Hwf. cbn [holds model c20_checker]. unfold c20_holds, c20_model.
  cbn [vl vnth nth length Nat.eqb andb].
  rewrite vzl_Vl, arrs_of_Vl, vl_Vl.
  pose proof (holds_decode_model c Hwf) as Hd. cbv zeta in Hd. rewrite Hd. cbn [andb].
  destruct (wf_parts c Hwf) as [Hne [Hlen [Hpos Ht]]].
  unfold c20_root. cbn [snd]. apply levels_ok_model. apply enc_inv; assumption.
Qed.
