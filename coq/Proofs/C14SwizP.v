(* C14SwizP.v — swizzleRanks: the guide / swiz_len computation and the carry-over compute
   "rank j of the result is the operand's rank named new_ids[j]" (swizzle_spec). *)
From Coq Require Import ZArith List Bool Lia PeanoNat.
From FT Require Import Model.Base Model.Obs Model.C14Attrs Model.C14Build Model.C14Check
                       Proofs.ObsP Proofs.C14BuildP Proofs.C14AttrsP Proofs.C14FlatP.
Import ListNotations.
Open Scope Z_scope.

(* ---- sorted(old) == sorted(new) for duplicate-free old: same elements, same length *)
Lemma count_rid_in : forall r l, (1 <= count_rid r l)%nat -> In r l.
Proof.
  induction l as [|x l IH]; simpl; intros H; [lia|].
  destruct (rid_eqb r x) eqn:E.
  - left. symmetry. apply rid_eqb_spec. exact E.
  - right. apply IH. simpl in H. lia.
Qed.

Lemma in_count_rid : forall r l, In r l -> (1 <= count_rid r l)%nat.
Proof.
  induction l as [|x l IH]; simpl; intros H; [contradiction|].
  destruct H as [->|H].
  - rewrite rid_eqb_refl. lia.
  - specialize (IH H). lia.
Qed.

Lemma perm_b_facts : forall old new,
  NoDup old -> perm_b old new = true ->
  length new = length old /\ (forall r, In r new -> In r old) /\ (forall r, In r old -> In r new).
Proof.
  intros old new Hnd H. unfold perm_b in H. apply andb_true_iff in H. destruct H as [Hl Hc].
  apply Nat.eqb_eq in Hl.
  assert (Hincl : incl old new).
  { intros r Hr. apply count_rid_in.
    rewrite forallb_forall in Hc. specialize (Hc r Hr). apply Nat.eqb_eq in Hc.
    rewrite <- Hc. apply in_count_rid. exact Hr. }
  split; [symmetry; exact Hl|]. split; [|exact Hincl].
  apply (NoDup_length_incl Hnd); [lia|exact Hincl].
Qed.

(* ---- list.index on a member *)
Lemma index_of_in : forall r ids, In r ids ->
  exists i, index_of r ids = Some i /\ nth_error ids i = Some r /\ (i < length ids)%nat.
Proof.
  induction ids as [|x ids IH]; intros H; [contradiction|].
  simpl. destruct (rid_eqb r x) eqn:E.
  - apply rid_eqb_spec in E. subst x. exists O. repeat split. simpl. lia.
  - destruct H as [->|H]; [rewrite rid_eqb_refl in E; discriminate|].
    destruct (IH H) as [i [Hi [Hn Hlt]]]. exists (S i). rewrite Hi. repeat split; [exact Hn|simpl; lia].
Qed.

Lemma pos_of_in : forall r ids, In r ids ->
  index_of r ids = Some (pos_of r ids) /\ (pos_of r ids < length ids)%nat.
Proof.
  intros r ids H. destruct (index_of_in r ids H) as [i [Hi [_ Hlt]]].
  unfold pos_of. rewrite Hi. split; [reflexivity|exact Hlt].
Qed.

Lemma all_some_map_ext {A B} (f : A -> option B) (g : A -> B) (l : list A) :
  (forall x, In x l -> f x = Some (g x)) -> all_some (map f l) = Some (map g l).
Proof.
  induction l as [|x l IH]; intros H; [reflexivity|].
  simpl. rewrite (H x (or_introl eq_refl)), IH; [reflexivity|].
  intros y Hy. apply H. right. exact Hy.
Qed.

(* looking every rank up by its own name gives the list back *)
Lemma map_pos_self {A} (dflt : A) : forall ids (s : list A),
  NoDup ids -> length s = length ids ->
  map (fun r => nth (pos_of r ids) s dflt) ids = s.
Proof.
  induction ids as [|x ids IH]; intros [|y s] Hnd Hlen; simpl in Hlen; try discriminate; [reflexivity|].
  inversion Hnd as [|? ? Hnot Hnd']; subst.
  cbn [map]. f_equal.
  - unfold pos_of. simpl. rewrite rid_eqb_refl. reflexivity.
  - transitivity (map (fun r => nth (pos_of r ids) s dflt) ids); [|apply IH; [assumption|lia]].
    apply map_ext_in. intros r Hr.
    destruct (pos_of_in r ids Hr) as [Hi _].
    unfold pos_of at 1. simpl.
    rewrite rid_eqb_false by (intros ->; contradiction).
    rewrite Hi. reflexivity.
Qed.

(* ---- the reversed zip loop: common suffix *)
Lemma first_diff_prefix : forall a b,
  firstn (first_diff a b) a = firstn (first_diff a b) b
  /\ (first_diff a b <= length a)%nat /\ (first_diff a b <= length b)%nat.
Proof.
  induction a as [|x a IH]; intros [|y b]; simpl; try (repeat split; lia).
  destruct (rid_eqb x y) eqn:E; simpl; [|repeat split; lia].
  apply rid_eqb_spec in E. subst y. destruct (IH b) as [H1 [H2 H3]].
  rewrite H1. repeat split; lia.
Qed.

Lemma common_suffix : forall old new,
  length new = length old ->
  let k := (length new - first_diff (rev old) (rev new))%nat in
  skipn k old = skipn k new.
Proof.
  intros old new Hlen k.
  destruct (first_diff_prefix (rev old) (rev new)) as [H _].
  rewrite !firstn_rev in H. apply (f_equal (@rev rid)) in H. rewrite !rev_involutive in H.
  unfold k. rewrite Hlen at 1. exact H.
Qed.

(* ---- the block *)
Lemma swizzle_attrs_spec : forall ids t,
  wf_kx t (XSwizzle ids) = true -> swizzle_attrs ids t = swizzle_spec ids t.
Proof.
  intros new t Hwf. unfold wf_kx in Hwf. apply andb_true_iff in Hwf. destruct Hwf as [Ht Hx].
  destruct (wf_t_facts t Ht) as [Hnd [Hlen Hsh]].
  cbn [wf_x] in Hx. apply andb_true_iff in Hx. destruct Hx as [Hperm _].
  destruct (perm_b_facts _ _ Hnd Hperm) as [Hnl [Hno Hon]].
  unfold swizzle_attrs, swizzle_spec. rewrite Hperm. cbn [negb].
  destruct (list_eqb rid_eqb (t_ids t) new) eqn:Eeq.
  - (* same order: a deep copy *)
    apply (list_eqb_spec rid_eqb rid_eqb_spec) in Eeq. subst new.
    rewrite (map_pos_self false (t_ids t) (t_fmts t) Hnd Hlen).
    destruct t as [ids shape dflt fmts mut]. cbn [t_ids t_shape t_dflt t_fmts t_mut] in *.
    destruct shape as [s|]; cbn [option_map]; [|reflexivity].
    unfold nth_sh. rewrite (map_pos_self (SZ 0) ids s Hnd (Hsh s eq_refl)). reflexivity.
  - set (k := (length new - first_diff (rev (t_ids t)) (rev new))%nat).
    (* guide *)
    rewrite (all_some_map_ext (fun r => index_of r (t_ids t)) (fun r => pos_of r (t_ids t)) new)
      by (intros r Hr; apply pos_of_in; apply Hno; exact Hr).
    (* formats *)
    rewrite (all_some_map_ext (get_format t) (fun r => nth (pos_of r (t_ids t)) (t_fmts t) false) new).
    2:{ intros r Hr. destruct (pos_of_in r (t_ids t) (Hno r Hr)) as [Hi Hlt].
        unfold get_format. rewrite Hi. apply nth_error_nth'. lia. }
    destruct (t_shape t) as [s|] eqn:Es; cbn [option_map]; [|reflexivity].
    pose proof (Hsh s eq_refl) as Hls.
    destruct s as [|s0 s'].
    { (* no ranks at all: then old = new = [] *)
      simpl in Hls. destruct (t_ids t) as [|? ?]; [|simpl in Hls; lia].
      destruct new as [|? ?]; [|simpl in Hnl; lia]. simpl in Eeq. discriminate. }
    set (s := s0 :: s') in *.
    set (F := fun r => nth_sh s (pos_of r (t_ids t))).
    rewrite firstn_map, map_map.
    rewrite (all_some_map_ext (fun r => nth_error s (pos_of r (t_ids t))) F (firstn k new)).
    2:{ intros r Hr. apply my_firstn_In in Hr.
        destruct (pos_of_in r (t_ids t) (Hno r Hr)) as [_ Hlt].
        unfold F, nth_sh. apply nth_error_nth'. lia. }
    cbn [option_map].
    assert (Hsuf : skipn k s = map F (skipn k new)).
    { unfold k. rewrite <- (common_suffix (t_ids t) new Hnl). fold k.
      rewrite <- skipn_map. f_equal. symmetry.
      unfold F, nth_sh. apply map_pos_self; assumption. }
    rewrite Hsuf, <- map_app, firstn_skipn. reflexivity.
Qed.
