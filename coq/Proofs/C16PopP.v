(* C16PopP.v — the populate generator (z << src): locality of its events, the form of one trip
   through the loop, the stamp discipline of its destination-side rows (saved copy, bump,
   explicit-stamp rows; main loop and shift phase). *)
From Coq Require Import ZArith List Bool Lia ZifyBool.
From FT Require Import Model.Base Model.Obs Model.C16Metrics Model.C16Nest Model.C16Check
                       Proofs.C16MetricsP Proofs.C16CoreP Proofs.C16RefP Proofs.C16AndP
                       Proofs.C16NestP Proofs.C16PlainP Proofs.C16AndLevelP Proofs.C16EagerP.
Import ListNotations.
Open Scope Z_scope.

Section WithZZ.
Context {zz : ZZ}.

Definition ws (tr : list (Z * Z * Z)) : list (list Z) := map (fun x : Z * Z * Z => [fst (fst x)]) tr.
Definition wle (b : Z) (tr : list (Z * Z * Z)) : Prop := Forall (fun x => fst (fst x) <= b) tr.
Definition wge (b : Z) (tr : list (Z * Z * Z)) : Prop := Forall (fun x => b <= fst (fst x)) tr.

Lemma chain_ws_app : forall t1 t2 b, chain lex_le (ws t1) = true -> chain lex_le (ws t2) = true ->
  wle b t1 -> wge b t2 -> chain lex_le (ws (t1 ++ t2)) = true.
Proof.
  intros t1 t2 b H1 H2 L G. unfold ws. rewrite map_app. apply chain_app; auto.
  intros x y Hx Hy. apply in_map_iff in Hx. destruct Hx as (x0 & <- & Hx).
  apply in_map_iff in Hy. destruct Hy as (y0 & <- & Hy).
  unfold wle, wge in *. rewrite Forall_forall in L, G. specialize (L _ Hx). specialize (G _ Hy).
  cbn. lia.
Qed.

(* events that leave no explicit-stamp row in the trace (kind, label) *)
Definition nostamp (kind label : Z) (e : mev) : Prop :=
  match e with EUseS _ _ _ k l _ => (k =? kind) && (l =? label) = false | _ => True end.

Lemma lstep_fst_mono : forall a e, fst a <= fst (lstep a e).
Proof. intros a e. destruct e; cbn; lia. Qed.

Lemma ltrace_mono_gen : forall kind label evs a, Forall (nostamp kind label) evs ->
  let tr := ltrace a evs kind label in
  wge (fst a) tr /\ wle (fst (lfinal a evs)) tr /\ chain lex_le (ws tr) = true.
Proof.
  intros kind label evs. induction evs as [|e evs IH]; intros a H; cbn [ltrace lfinal fold_left].
  - repeat split; constructor.
  - inversion H; subst. destruct (IH (lstep a e) H3) as (I1 & I2 & I3).
    pose proof (lstep_fst_mono a e) as Hm.
    change (fold_left lstep evs (lstep a e)) with (lfinal (lstep a e) evs).
    pose proof (lfinal_mono evs (lstep a e)) as Hm2.
    assert (I1' : wge (fst a) (ltrace (lstep a e) evs kind label)).
    { eapply Forall_impl; [|exact I1]. intros x Hx. cbn in *. lia. }
    assert (Hone : lemit a e kind label = [] \/ exists c p, lemit a e kind label = [(fst a, c, p)]).
    { destruct e; cbn [lemit]; auto.
      - destruct ((kind0 =? kind) && (label0 =? label)); eauto.
      - cbn in H2. rewrite H2. auto. }
    destruct Hone as [-> | (c & p & ->)]; cbn [app]; auto.
    split; [constructor; [cbn; lia|exact I1']|]. split; [constructor; [cbn; lia|exact I2]|].
    change ((fst a, c, p) :: ltrace (lstep a e) evs kind label) with ([(fst a, c, p)] ++ ltrace (lstep a e) evs kind label).
    apply (chain_ws_app _ _ (fst a)); auto. constructor; [cbn; lia|constructor].
Qed.

Lemma lsafe_nostamp : forall evs a, Forall (fun e => match e with EUseS _ _ _ _ _ _ | EBump _ _ => False | _ => True end) evs ->
  lsafe a evs = true.
Proof.
  induction evs as [|e evs IH]; intros a H; auto. inversion H; subst. cbn [lsafe].
  rewrite IH by auto. destruct e; cbn in *; try contradiction; reflexivity.
Qed.

(* ------------------------------------------------------------------ one trip of the populate loop *)
(* the skeleton of a populate item: implicit events; copy of the counters; at most one read row of
   the existing element; the iter row and incIter of the `for` statement; then nothing, or the
   bump of the copy, the write row stamped with it, and incIter *)
Definition e3form (r la : Z) (E3 : list mev) : Prop := E3 = [] \/ exists c p, E3 = [EUse r c p K_RD la].
Definition wform (r la : Z) (W : list mev) : Prop :=
  W = [] \/ exists c p, W = [EBump r r; EUseS r c p K_WR la r; EInc r].

Definition noexp (e : mev) : Prop :=
  match e with EUseS _ _ _ _ _ _ | EBump _ _ | ESave _ => False | _ => True end.

Lemma noexp_nostamp : forall kind label evs, Forall noexp evs -> Forall (nostamp kind label) evs.
Proof. intros. eapply Forall_impl; [|exact H]. intros e He. destruct e; cbn in *; auto; contradiction. Qed.

Lemma lfinal_noexp_snd : forall evs a, Forall noexp evs -> snd (lfinal a evs) = snd a.
Proof.
  induction evs as [|e evs IH]; intros a H; auto. inversion H; subst. cbn [lfinal fold_left].
  change (fold_left lstep evs (lstep a e)) with (lfinal (lstep a e) evs). rewrite IH by auto.
  destruct e; cbn in *; try contradiction; reflexivity.
Qed.

Lemma item_rows : forall r la kind label A E3 c j W a,
  Forall noexp A -> e3form r la E3 -> wform r la W ->
  let sk := A ++ [ESave r] ++ E3 ++ [EUse r c j K_ITER 0] ++ [EInc r] ++ W in
  let tr := ltrace a sk kind label in
  let a' := lfinal a sk in
  wge (fst a) tr /\ chain lex_le (ws tr) = true
  /\ exists s', snd a' = Some s' /\ s' <= fst a' /\ fst a <= s' /\ wle s' tr
  /\ lsafe a sk = true.
Proof.
  intros r la kind label A E3 c j W a HA H3 HW sk tr a'.
  destruct (ltrace_mono_gen kind label A a (noexp_nostamp kind label A HA)) as (G1 & L1 & C1).
  set (a1 := lfinal a A) in *. set (v1 := fst a1) in *.
  assert (Hm1 : fst a <= v1) by apply lfinal_mono.
  assert (Etr : tr = ltrace a A kind label ++ ltrace (v1, Some v1) (E3 ++ [EUse r c j K_ITER 0] ++ [EInc r] ++ W) kind label).
  { unfold tr, sk. rewrite ltrace_app. fold a1. cbn [app ltrace lemit lstep]. reflexivity. }
  assert (Ea : a' = lfinal (v1, Some v1) (E3 ++ [EUse r c j K_ITER 0] ++ [EInc r] ++ W)).
  { unfold a', sk. rewrite lfinal_app. fold a1. cbn [app lfinal fold_left lstep]. reflexivity. }
  assert (Esafe : lsafe a sk = lsafe (v1, Some v1) (E3 ++ [EUse r c j K_ITER 0] ++ [EInc r] ++ W)).
  { unfold sk. rewrite lsafe_app. rewrite lsafe_nostamp.
    2:{ eapply Forall_impl; [|exact HA]. intros e He. destruct e; cbn in *; auto. }
    fold a1. cbn [app lsafe lstep andb]. reflexivity. }
  (* the tail is a finite computation *)
  assert (Tail : let t2 := ltrace (v1, Some v1) (E3 ++ [EUse r c j K_ITER 0] ++ [EInc r] ++ W) kind label in
                 let a2 := lfinal (v1, Some v1) (E3 ++ [EUse r c j K_ITER 0] ++ [EInc r] ++ W) in
                 wge v1 t2 /\ chain lex_le (ws t2) = true
                 /\ exists s', snd a2 = Some s' /\ s' <= fst a2 /\ v1 <= s' /\ wle s' t2
                 /\ lsafe (v1, Some v1) (E3 ++ [EUse r c j K_ITER 0] ++ [EInc r] ++ W) = true).
  { destruct H3 as [-> | (c3 & p3 & ->)]; destruct HW as [-> | (cw & pw & ->)];
      cbn [app ltrace lemit lstep lfinal fold_left lsafe fst snd option_map andb];
      repeat match goal with |- context [if ?b then _ else _] => destruct b end;
      cbn [app]; unfold wge, wle, ws; cbn [map fst snd];
      (split; [repeat constructor; cbn; lia|]); (split; [cbn; lia|]);
      eexists; (split; [reflexivity|]); (split; [cbn; lia|]); (split; [cbn; lia|]);
      (split; [repeat constructor; cbn; lia|reflexivity]). }
  cbv zeta in Tail. destruct Tail as (G2 & C2 & s' & S1 & S2 & S3 & L2 & Sf).
  split; [|split].
  - rewrite Etr. unfold wge. rewrite Forall_app. split; auto.
    eapply Forall_impl; [|exact G2]. intros x Hx. cbn in *. lia.
  - rewrite Etr. apply (chain_ws_app _ _ v1); auto.
  - exists s'. rewrite Ea. split; [exact S1|split; [exact S2|split; [lia|split]]].
    + rewrite Etr. unfold wle. rewrite Forall_app. split; auto.
      eapply Forall_impl; [|exact L1]. intros x Hx. cbn in *. lia.
    + rewrite Esafe. exact Sf.
Qed.

(* ------------------------------------------------------------------ all trips *)
Definition popitem (i : nat) (la : Z) (it : item) : Prop :=
  exists A E3, it_pre it = A ++ [ESave (Z.of_nat i)] ++ E3 /\ Forall noexp A
               /\ e3form (Z.of_nat i) la E3 /\ wform (Z.of_nat i) la (it_post it).

Lemma items_rows : forall i la kind label items, Forall (popitem i la) items ->
  forall a,
  let tr := ltrace a (skels i items) kind label in
  let a' := lfinal a (skels i items) in
  wge (fst a) tr /\ chain lex_le (ws tr) = true /\ lsafe a (skels i items) = true
  /\ fst a <= fst a'
  /\ (items = [] \/ exists s', snd a' = Some s' /\ s' <= fst a' /\ fst a <= s' /\ wle s' tr).
Proof.
  intros i la kind label items H. induction H as [|it items (A & E3 & Hp & HA & H3 & HW) H IH]; intros a.
  - cbn. repeat split; auto; try constructor. lia.
  - change (skels i (it :: items)) with (skel i it ++ skels i items).
    assert (Esk : skel i it = A ++ [ESave (Z.of_nat i)] ++ E3 ++ [EUse (Z.of_nat i) (it_c it) (it_j it) K_ITER 0]
                              ++ [EInc (Z.of_nat i)] ++ it_post it).
    { unfold skel. rewrite Hp, <- !app_assoc. reflexivity. }
    rewrite Esk.
    destruct (item_rows (Z.of_nat i) la kind label A E3 (it_c it) (it_j it) (it_post it) a HA H3 HW)
      as (G1 & C1 & s1 & S1 & S2 & S3 & L1 & Sf1).
    set (sk1 := A ++ [ESave (Z.of_nat i)] ++ E3 ++ [EUse (Z.of_nat i) (it_c it) (it_j it) K_ITER 0]
                  ++ [EInc (Z.of_nat i)] ++ it_post it) in *.
    set (a1 := lfinal a sk1) in *.
    destruct (IH a1) as (G2 & C2 & Sf2 & M2 & D2).
    cbv zeta. rewrite ltrace_app, lfinal_app, lsafe_app. fold a1.
    assert (M1 : fst a <= fst a1) by apply lfinal_mono.
    assert (L1' : wle (fst a1) (ltrace a sk1 kind label)).
    { eapply Forall_impl; [|exact L1]. intros x Hx. cbn in *. lia. }
    split; [|split; [|split; [|split]]].
    + unfold wge. rewrite Forall_app. split; auto.
      eapply Forall_impl; [|exact G2]. intros x Hx. cbn in *. lia.
    + apply (chain_ws_app _ _ (fst a1)); auto.
    + rewrite Sf1, Sf2. reflexivity.
    + lia.
    + right. destruct D2 as [-> | (s2 & T1 & T2 & T3 & L2)].
      * cbn [skels flat_map lfinal fold_left ltrace]. rewrite app_nil_r.
        exists s1. repeat split; auto.
      * exists s2. split; [exact T1|split; [exact T2|split; [lia|]]].
        unfold wle. rewrite Forall_app. split; auto.
        eapply Forall_impl; [|exact L1]. intros x Hx. cbn in *. lia.
Qed.

(* ------------------------------------------------------------------ the shift phase *)
Definition shift_hit (c : Z) (toins : list Z) : bool :=
  match rev toins with t0 :: _ => c =? t0 | [] => false end.
Definition shift_grp (r la : Z) (rt wt : bool) (ip len c i0 : Z) (toins : list Z) : list mev :=
  [EBump r r]
  ++ opt_ev rt (EUseS r c (if shift_hit c toins then ip + lenZ toins - 1 else len - i0 - 1 - lenZ toins) K_RD la r)
  ++ opt_ev wt (EUseS r c (len - i0 - 1) K_WR la r).

Lemma shift_cons : forall r la rt wt ip len c t els i0 toins,
  shift_phase r la rt wt ip len ((c, t) :: els) i0 toins
  = shift_grp r la rt wt ip len c i0 toins
    ++ shift_phase r la rt wt ip len els (i0 + 1)
         (if shift_hit c toins then removelast toins else toins).
Proof.
  intros. unfold shift_grp, shift_hit. cbn [shift_phase]. rewrite <- !app_assoc. reflexivity.
Qed.

Lemma shift_rows : forall r la rt wt ip len kind label els i0 toins v s,
  let S := shift_phase r la rt wt ip len els i0 toins in
  let tr := ltrace (v, Some s) S kind label in
  wge (s + 1) tr /\ chain lex_le (ws tr) = true /\ lsafe (v, Some s) S = true
  /\ Forall (fun e => match e with EBump _ _ | EUseS _ _ _ _ _ _ => True | _ => False end) S.
Proof.
  intros r la rt wt ip len kind label els. induction els as [|[c t] els IH]; intros i0 toins v s.
  - cbn. repeat split; constructor.
  - cbv zeta. rewrite shift_cons.
    set (toins' := if shift_hit c toins then removelast toins else toins).
    destruct (IH (i0 + 1) toins' v (s + 1)) as (G & C & Sf & Fm).
    set (S' := shift_phase r la rt wt ip len els (i0 + 1) toins') in *.
    set (grp := shift_grp r la rt wt ip len c i0 toins).
    assert (Hg : let t1 := ltrace (v, Some s) grp kind label in
                 lfinal (v, Some s) grp = (v, Some (s + 1)) /\ wge (s + 1) t1 /\ wle (s + 1) t1
                 /\ chain lex_le (ws t1) = true /\ lsafe (v, Some s) grp = true
                 /\ Forall (fun e => match e with EBump _ _ | EUseS _ _ _ _ _ _ => True | _ => False end) grp).
    { unfold grp, shift_grp. destruct rt, wt; cbn [opt_ev app ltrace lemit lstep lfinal fold_left lsafe fst snd option_map andb];
        repeat match goal with |- context [if ?b then _ else _] => destruct b end;
        cbn [app]; unfold wge, wle, ws; cbn [map fst snd];
        repeat split; repeat constructor; cbn; lia. }
    cbv zeta in Hg. destruct Hg as (Hf & G1 & L1 & C1 & Sf1 & Fm1).
    rewrite ltrace_app, lsafe_app, Hf, Sf1, Sf. cbn [andb].
    split; [|split; [|split]]; auto.
    + unfold wge. rewrite Forall_app. split; auto. eapply Forall_impl; [|exact G]. intros x Hx. cbn in *. lia.
    + apply (chain_ws_app _ _ (s + 1)); auto. eapply Forall_impl; [|exact G]. intros x Hx. cbn in *. lia.
    + rewrite Forall_app. split; auto.
Qed.

Definition is_shift (S : list mev) : Prop :=
  S = [] \/ exists r la rt wt ip len els i0 toins, S = shift_phase r la rt wt ip len els i0 toins.

Lemma pop_skel_chain : forall i items fin_s S kind label,
  Forall (popitem i 0) items -> Forall noexp fin_s -> is_shift S -> (items = [] -> S = []) ->
  (Forall (no_key kind label) fin_s \/ Forall (no_key kind label) S) ->
  chain lex_le (ws (ltrace (0, None) (skels i items ++ fin_s ++ S) kind label)) = true
  /\ lsafe (0, None) (skels i items ++ fin_s ++ S) = true.
Proof.
  intros i items fin_s S kind label Hpop Hfin HS Hnil Hcase.
  destruct (items_rows i 0 kind label items Hpop (0, None)) as (G1 & C1 & Sf1 & M1 & D1).
  set (a1 := lfinal (0, None) (skels i items)) in *.
  destruct (ltrace_mono_gen kind label fin_s a1 (noexp_nostamp kind label fin_s Hfin)) as (G2 & L2 & C2).
  set (a2 := lfinal a1 fin_s) in *.
  assert (Hs2 : snd a2 = snd a1) by (apply lfinal_noexp_snd; auto).
  assert (Sf2 : lsafe a1 fin_s = true).
  { apply lsafe_nostamp. eapply Forall_impl; [|exact Hfin]. intros ev Hev. destruct ev; cbn in *; auto. }
  rewrite !ltrace_app, !lsafe_app. fold a1. fold a2. rewrite Sf1, Sf2. cbn [andb].
  destruct D1 as [Hit | (s' & T1 & T2 & T3 & L1)].
  - (* no element: no shift phase either *)
    rewrite (Hnil Hit). cbn [ltrace lsafe]. rewrite app_nil_r. split; [|reflexivity].
    subst items. cbn [skels flat_map ltrace app] in *. exact C2.
  - assert (Ea2 : a2 = (fst a2, Some s')) by (destruct a2 as [v2 sv2]; cbn in *; congruence).
    assert (M2 : fst a1 <= fst a2) by apply lfinal_mono.
    assert (HS' : let t3 := ltrace a2 S kind label in
                  wge (s' + 1) t3 /\ chain lex_le (ws t3) = true /\ lsafe a2 S = true).
    { destruct HS as [-> | (r0 & la0 & rt0 & wt0 & ip0 & len0 & els0 & i0 & ti0 & ->)].
      - cbn. repeat split; constructor.
      - rewrite Ea2. destruct (shift_rows r0 la0 rt0 wt0 ip0 len0 kind label els0 i0 ti0 (fst a2) s') as (A & B & C & _).
        auto. }
    cbv zeta in HS'. destruct HS' as (G3 & C3 & Sf3). rewrite Sf3. split; [|reflexivity].
    destruct Hcase as [Hn | Hn].
    + rewrite (ltrace_no_key kind label fin_s a1 Hn). cbn [app].
      apply (chain_ws_app _ _ s'); auto.
      eapply Forall_impl; [|exact G3]. intros x Hx. cbn in *. lia.
    + rewrite (ltrace_no_key kind label S a2 Hn), app_nil_r.
      apply (chain_ws_app _ _ (fst a1)); auto.
      eapply Forall_impl; [|exact L1]. intros x Hx. cbn in *. lia.
Qed.


(* ------------------------------------------------------------------ the populate generator *)
Definition ftyp (dz : nat) (es : fib) : Prop := Forall (fun ct => depth_ok dz (snd ct) = true) es.

Lemma ftyp_insert : forall dz n x es, ftyp dz es -> depth_ok dz (snd x) = true -> ftyp dz (insert_at n x es).
Proof.
  intros dz n x es H Hx. revert n. induction H as [|y es Hy H IH]; intros n; destruct n; cbn; repeat constructor; auto.
  apply IH.
Qed.
Lemma ftyp_replace : forall dz n x es, ftyp dz es -> depth_ok dz (snd x) = true -> ftyp dz (replace_at n x es).
Proof.
  intros dz n x es H Hx. revert n. induction H as [|y es Hy H IH]; intros n; destruct n; cbn; repeat constructor; auto.
  apply IH.
Qed.
Lemma ftyp_delete : forall dz n es, ftyp dz es -> ftyp dz (delete_at n es).
Proof.
  intros dz n es H. revert n. induction H as [|y es Hy H IH]; intros n; destruct n; cbn; auto; constructor; auto.
  apply IH.
Qed.

Definition popA (i : nat) (la lb : Z) (e : mev) : Prop :=
  match e with
  | EUse r _ _ k l => r = Z.of_nat i /\ ((k = K_POP /\ l = lb) \/ (k = K_RD /\ l = la))
  | EInc r => r = Z.of_nat i
  | _ => False
  end.

Lemma read_phase_popA : forall i la lb lo hi nt es p,
  Forall (popA i la lb) (read_phase (Z.of_nat i) la lo hi nt es p).
Proof.
  intros i la lb lo hi nt es. induction es as [|[c t] es IH]; intros p; cbn [read_phase]; [constructor|].
  destruct (hi <=? c); [constructor|]. rewrite Forall_app. split; [|apply IH].
  destruct ((lo <=? c) && negb (is_empty 0 t)); [|constructor].
  constructor; [cbn; split; [reflexivity|right; split; reflexivity]|].
  constructor; [cbn; reflexivity|constructor].
Qed.

Definition pe_ev (x : list mev * Z * bool * tree * pst) := fst (fst (fst (fst x))).
Definition pe_new (x : list mev * Z * bool * tree * pst) := snd (fst (fst x)).
Definition pe_zref (x : list mev * Z * bool * tree * pst) := snd (fst x).
Definition pe_st (x : list mev * Z * bool * tree * pst) := snd x.

Lemma nthZ_In : forall n (es : fib) ct, nthZ n es = Some ct -> In ct es.
Proof. intros n es ct H. unfold nthZ in H. eapply nth_error_In; eauto. Qed.

Lemma pop_elem_facts : forall i la lb rt wt bt zleaf cmpr ip j c st dz,
  let x := pop_elem (Z.of_nat i) la lb rt wt bt zleaf cmpr ip j c st in
  (exists A E3, pe_ev x = A ++ [ESave (Z.of_nat i)] ++ E3 /\ Forall (popA i la lb) A
                /\ e3form (Z.of_nat i) la E3)
  /\ (ftyp dz (p_z st) -> (zleaf = true -> dz = O) -> (zleaf = false -> (0 < dz)%nat) ->
      depth_ok dz (pe_zref x) = true /\ ftyp dz (p_z (pe_st x))).
Proof.
  intros i la lb rt wt bt zleaf cmpr ip j c st dz x. subst x. unfold pop_elem. cbv zeta.
  cbn [pe_ev pe_zref pe_st fst snd].
  set (zes := p_z st).
  set (apos := match zes with [] => p_apos st | _ :: _ => p_apos st + bisect c (skipnZ (p_apos st) zes) end).
  set (existing := match nthZ apos zes with Some (c', t) => if c' =? c then Some t else None | None => None end).
  split.
  - match goal with |- context [?a ++ ?b ++ [ESave _] ++ ?d] => exists (a ++ b), d end.
    split; [rewrite <- app_assoc; reflexivity|].
    split.
    + rewrite Forall_app. split.
      * destruct bt; [|constructor]. constructor; [cbn; split; [reflexivity|left; split; reflexivity]|constructor].
      * match goal with |- Forall _ (if ?b then _ else _) => destruct b end; [apply read_phase_popA|constructor].
    + unfold e3form. destruct existing; cbn; [destruct rt; cbn; eauto|auto].
  - intros Hf Hl1 Hl2.
    assert (Hz : depth_ok dz (match existing with Some t => t | None => if zleaf then Leaf 0 else Node [] end) = true).
    { unfold existing. destruct (nthZ apos zes) as [[c' t]|] eqn:En.
      - destruct (c' =? c).
        + apply nthZ_In in En. unfold ftyp in Hf. rewrite Forall_forall in Hf. apply (Hf _ En).
        + destruct zleaf; [rewrite Hl1 by auto; reflexivity|]. specialize (Hl2 eq_refl). destruct dz; [lia|reflexivity].
      - destruct zleaf; [rewrite Hl1 by auto; reflexivity|]. specialize (Hl2 eq_refl). destruct dz; [lia|reflexivity]. }
    split; [exact Hz|].
    destruct existing; cbn; auto. apply ftyp_insert; auto.
Qed.

Lemma pop_post_facts : forall i la wt ip c new zref' st dz,
  wform (Z.of_nat i) la (fst (pop_post (Z.of_nat i) la wt ip c new zref' st))
  /\ (ftyp dz (p_z st) -> depth_ok dz zref' = true ->
      ftyp dz (p_z (snd (pop_post (Z.of_nat i) la wt ip c new zref' st)))).
Proof.
  intros i la wt ip c new zref' st dz. unfold pop_post. cbv zeta.
  match goal with |- context [if ?b then _ else _] => destruct b end; [|destruct wt]; cbn [fst snd p_z].
  - split; [left; reflexivity|]. intros Hf Hz. apply ftyp_delete, ftyp_replace; auto.
  - split; [right; eauto|]. intros Hf Hz. apply ftyp_replace; auto.
  - split; [left; reflexivity|]. intros Hf Hz. apply ftyp_replace; auto.
Qed.

Definition linv (i : nat) (ls : lab) : Prop := labinv i {| th_z := None; th_lab := ls |}.
Lemma labinv_linv : forall i z, labinv i z <-> linv i (th_lab z).
Proof. intros i z. unfold linv, labinv, noall. cbn [th_lab]. tauto. Qed.

Definition zty (dz : nat) (z : thr) : Prop := exists t, th_z z = Some t /\ depth_ok dz t = true.
Definition srcP (i : nat) (e : mev) : Prop :=
  match e with
  | EUse r _ _ k _ => r = Z.of_nat i /\ k = K_INT
  | EInc r => r = Z.of_nat i
  | _ => False
  end.

Lemma pop_loop_facts : forall i la lb rt wt bt zleaf cmpr ip (body : body_t) pt dz,
  (zleaf = true -> dz = O) -> (zleaf = false -> (0 < dz)%nat) ->
  (forall c e' z', labinv (S i) z' -> zty dz z' ->
     labinv (S i) (snd (body c e' z')) /\ zty dz (snd (body c e' z'))) ->
  forall els j st ls, linv (S i) ls -> ftyp dz (p_z st) ->
  let res := pop_loop (Z.of_nat i) la lb rt wt bt zleaf cmpr ip body els j st ls in
  Forall2 (fun it el =>
             it_c it = fst (snd el) /\ it_env it = snd (snd el)
             /\ labinv (S i) (it_zin it) /\ zty dz (it_zin it)
             /\ it_body it = fst (body (it_c it) (it_env it) (it_zin it))
             /\ (exists A E3, it_pre it = (fst el ++ A) ++ [ESave (Z.of_nat i)] ++ E3
                              /\ Forall (popA i la lb) A /\ e3form (Z.of_nat i) la E3)
             /\ wform (Z.of_nat i) la (it_post it)) (fst res) els
  /\ map (fun it => (it_c it, it_j it)) (fst res)
     = map (fun jc : Z * (list mev * (Z * env)) => (fst (snd (snd jc)), fst jc)) (enumZ els j)
  /\ children pt (fst res) = map (fun el => (pt ++ [fst (snd el)], snd (snd el))) els
  /\ linv (S i) (snd (snd res)) /\ ftyp dz (p_z (fst (snd res))).
Proof.
  intros i la lb rt wt bt zleaf cmpr ip body pt dz Hl1 Hl2 Hb els.
  induction els as [|[pre [c e']] els IH]; intros j st ls Hls Hf.
  - cbn. split; [constructor|split; [reflexivity|split; [reflexivity|split; assumption]]].
  - cbn [pop_loop]. 
    destruct (pop_elem_facts i la lb rt wt bt zleaf cmpr ip j c st dz) as [(A & E3 & Hev & HA & H3) Hty].
    destruct (Hty Hf Hl1 Hl2) as [Hz Hf1].
    destruct (pop_elem (Z.of_nat i) la lb rt wt bt zleaf cmpr ip j c st) as [[[[ev apos] new] zref] st1] eqn:Epe.
    cbn [pe_ev pe_zref pe_st fst snd] in Hev, Hz, Hf1.
    set (zin := {| th_z := Some zref; th_lab := ls |}).
    assert (Hzin : labinv (S i) zin /\ zty dz zin).
    { split; [apply labinv_linv; exact Hls|exists zref; split; auto]. }
    destruct (Hb c e' zin (proj1 Hzin) (proj2 Hzin)) as [Hb1 Hb2].
    set (b := body c e' zin) in *.
    set (zref' := match th_z (snd b) with Some t => t | None => zref end).
    assert (Hz' : depth_ok dz zref' = true).
    { unfold zref'. destruct Hb2 as (t & -> & Ht). exact Ht. }
    destruct (pop_post_facts i la wt ip c new zref' st1 dz) as [Hw Hfp].
    specialize (Hfp Hf1 Hz').
    set (post := pop_post (Z.of_nat i) la wt ip c new zref' st1) in *.
    destruct (IH (j + 1) (snd post) (th_lab (snd b)) (proj1 (labinv_linv _ _) Hb1) Hfp) as (I1 & I2 & I3 & I4 & I5).
    cbn [fst snd]. split; [|split; [|split; [|split]]]; auto.
    + constructor; auto. cbn [it_c it_env it_zin it_body it_pre it_post fst snd].
      split; [reflexivity|split; [reflexivity|split; [apply Hzin|split; [apply Hzin|split; [reflexivity|split]]]]].
      * exists A, E3. rewrite Hev, <- !app_assoc. auto.
      * exact Hw.
    + cbn [map enumZ it_c it_j fst snd]. f_equal. exact I2.
    + cbn [children map it_c it_env fst snd]. f_equal. exact I3.
Qed.

(* ------------------------------------------------------------------ the level's own rows *)
Lemma ltrace_uses_gen : forall la evs a, Forall (nostamp K_INT la) evs ->
  map (fun x : Z * Z * Z => (snd (fst x), snd x)) (ltrace a evs K_INT la) = uses la evs.
Proof.
  intros la evs. induction evs as [|e evs IH]; intros a H; auto. inversion H; subst.
  cbn [ltrace]. rewrite map_app, IH by auto. unfold uses at 2. cbn [flat_map]. fold (uses la evs).
  f_equal. destruct e; cbn [lemit map]; auto.
  - destruct ((kind =? K_INT) && (label =? la)); reflexivity.
  - cbn in H2. rewrite H2. reflexivity.
Qed.

Definition nouse (la : Z) (e : mev) : Prop := uses la [e] = [].
Lemma uses_nouse : forall la evs, Forall (nouse la) evs -> uses la evs = [].
Proof.
  intros la evs H. induction H as [|e evs He H IH]; auto.
  change (e :: evs) with ([e] ++ evs). rewrite uses_app, He, IH. reflexivity.
Qed.

(* kinds of the events a populate level adds to those of its source *)
Definition popK (e : mev) : Prop :=
  match ev_key e with Some (k, _) => k = K_POP \/ k = K_RD \/ k = K_WR | None => True end.

Lemma popA_facts : forall i la lb e, popA i la lb e ->
  noexp e /\ local i e /\ popK e /\ no_key K_ITER 0 e.
Proof.
  intros i la lb e H. destruct e; cbn in H; try contradiction.
  - destruct H as [-> [[-> ->]|[-> ->]]]; repeat split; cbn; auto.
  - subst. repeat split; cbn; auto.
Qed.

Lemma srcP_facts : forall i e, srcP i e ->
  noexp e /\ local i e /\ no_key K_ITER 0 e
  /\ (forall k l, k <> K_INT -> no_key k l e).
Proof.
  intros i e H. destruct e; cbn in H; try contradiction.
  - destruct H as [-> ->]. split; [exact I|split; [reflexivity|split; [reflexivity|]]].
    intros k l Hk. unfold no_key. cbn [ev_key].
    destruct (K_INT =? k) eqn:E; [lia|reflexivity].
  - subst. repeat split; cbn; auto; intros; exact I.
Qed.

(* (coordinate, position) arguments of the addUse calls for one trace *)
Definition kuses (k l : Z) (evs : list mev) : list (Z * Z) :=
  flat_map (fun e => match e with
                     | EUse _ c p k' l' => if (k' =? k) && (l' =? l) then [(c, p)] else []
                     | _ => []
                     end) evs.

Lemma kuses_app : forall k l a b, kuses k l (a ++ b) = kuses k l a ++ kuses k l b.
Proof. intros. unfold kuses. apply flat_map_app. Qed.

Lemma kuses_uses : forall l evs, kuses K_INT l evs = uses l evs.
Proof. reflexivity. Qed.

Lemma ltrace_kuses : forall k l evs a, Forall (nostamp k l) evs ->
  map (fun x : Z * Z * Z => (snd (fst x), snd x)) (ltrace a evs k l) = kuses k l evs.
Proof.
  intros k l evs. induction evs as [|e evs IH]; intros a H; auto. inversion H; subst.
  cbn [ltrace]. rewrite map_app, IH by auto. unfold kuses at 2. cbn [flat_map]. fold (kuses k l evs).
  f_equal. destruct e; cbn [lemit map]; auto.
  - destruct ((kind =? k) && (label =? l)); reflexivity.
  - cbn in H2. rewrite H2. reflexivity.
Qed.

Lemma kuses_none : forall k l evs, Forall (no_key k l) evs -> kuses k l evs = [].
Proof.
  intros k l evs H. induction H as [|e evs He H IH]; auto. cbn [kuses flat_map]. fold (kuses k l evs).
  rewrite IH, app_nil_r. destruct e; auto. unfold no_key in He. cbn in He. rewrite He. reflexivity.
Qed.

Lemma read_phase_nopop : forall r la lb lo hi nt es p, kuses K_POP lb (read_phase r la lo hi nt es p) = [].
Proof.
  intros r la lb lo hi nt es. induction es as [|[c t] es IH]; intros p; cbn [read_phase]; auto.
  destruct (hi <=? c); auto. rewrite kuses_app, IH, app_nil_r.
  destruct ((lo <=? c) && negb (is_empty 0 t)); reflexivity.
Qed.

Lemma pop_elem_pop_rows : forall r la lb rt wt bt zl cm ip j c st,
  kuses K_POP lb (pe_ev (pop_elem r la lb rt wt bt zl cm ip j c st)) = if bt then [(c, j)] else [].
Proof.
  intros. unfold pop_elem. cbv zeta. cbn [pe_ev fst].
  rewrite kuses_app, kuses_app, kuses_app.
  match goal with |- kuses _ _ ?a ++ kuses _ _ ?b ++ kuses _ _ ?c0 ++ kuses _ _ ?d = _ =>
    assert (Hb : kuses K_POP lb b = []); [|assert (Hd : kuses K_POP lb d = []); [|rewrite Hb, Hd]] end.
  - match goal with |- kuses _ _ (if ?x then _ else _) = _ => destruct x end;
      [apply read_phase_nopop|reflexivity].
  - match goal with |- kuses _ _ (if ?x then _ else _) = _ => destruct x end;
      [reflexivity|destruct rt; reflexivity].
  - destruct bt; cbn [opt_ev kuses flat_map app]; [|reflexivity]. rewrite !Z.eqb_refl. reflexivity.
Qed.

Lemma pop_loop_pop_rows : forall i la lb rt wt bt zl cm ip (body : body_t) els j st ls,
  Forall (fun el => Forall (srcP i) (fst el)) els ->
  kuses K_POP lb (skels i (fst (pop_loop (Z.of_nat i) la lb rt wt bt zl cm ip body els j st ls)))
  = if bt then map (fun jc : Z * (list mev * (Z * env)) => (fst (snd (snd jc)), fst jc)) (enumZ els j) else [].
Proof.
  intros i la lb rt wt bt zl cm ip body els. induction els as [|[pre [c e']] els IH]; intros j st ls Hs.
  - cbn. destruct bt; reflexivity.
  - inversion Hs; subst. cbn [pop_loop].
    pose proof (pop_elem_pop_rows (Z.of_nat i) la lb rt wt bt zl cm ip j c st) as Hp.
    destruct (pop_elem (Z.of_nat i) la lb rt wt bt zl cm ip j c st) as [[[[ev apos] new] zref] st1].
    cbn [pe_ev fst] in Hp. cbn [fst snd].
    match goal with |- kuses K_POP lb (skels i (?it :: ?rest)) = _ =>
      change (skels i (it :: rest)) with (skel i it ++ skels i rest) end.
    rewrite kuses_app, IH by auto. unfold skel. cbn [it_pre it_c it_j it_post].
    rewrite !kuses_app, Hp.
    assert (kuses K_POP lb pre = []) as ->.
    { apply kuses_none. eapply Forall_impl; [|exact H1]. intros ev0 H0.
      apply (proj2 (proj2 (proj2 (srcP_facts i ev0 H0)))). unfold K_POP, K_INT. lia. }
    assert (kuses K_POP lb (fst (pop_post (Z.of_nat i) la wt ip c new
              match th_z (snd (body c e' {| th_z := Some zref; th_lab := ls |})) with Some t => t | None => zref end st1)) = []) as ->.
    { destruct (pop_post_facts i la wt ip c new
                  match th_z (snd (body c e' {| th_z := Some zref; th_lab := ls |})) with Some t => t | None => zref end st1 O)
        as [[-> | (c0 & p0 & ->)] _]; reflexivity. }
    cbn [kuses flat_map app enumZ map fst snd]. destruct bt; reflexivity.
Qed.

Lemma enum_map' : forall {A B} (f : A -> B) l j,
  enumZ (map f l) j = map (fun jc => (fst jc, f (snd jc))) (enumZ l j).
Proof. induction l as [|a l IH]; intros j; cbn; auto. rewrite IH. reflexivity. Qed.

Definition shiftK (i : nat) (e : mev) : Prop :=
  match e with
  | EBump s r => s = Z.of_nat i /\ r = Z.of_nat i
  | EUseS r _ _ k _ s => r = Z.of_nat i /\ s = Z.of_nat i /\ (k = K_RD \/ k = K_WR)
  | _ => False
  end.

Lemma shiftK_facts : forall i e, shiftK i e ->
  local i e /\ (forall k l, k <> K_RD -> k <> K_WR -> no_key k l e) /\ (forall k l, kuses k l [e] = [])
  /\ (forall k l, k <> K_RD -> k <> K_WR -> nostamp k l e).
Proof.
  intros i e H. destruct e; cbn in H; try contradiction.
  - destruct H as [-> ->]. repeat split; cbn; auto.
  - destruct H as (-> & -> & Hk). repeat split; cbn; auto.
    + intros k l H1 H2. unfold no_key. cbn. destruct (kind =? k) eqn:E; auto. destruct Hk; lia.
    + intros k l H1 H2. destruct (kind =? k) eqn:E; auto. destruct Hk; lia.
Qed.

Lemma shift_phase_shiftK : forall i la rt wt ip len els i0 ti,
  Forall (shiftK i) (shift_phase (Z.of_nat i) la rt wt ip len els i0 ti).
Proof.
  intros i la rt wt ip len els. induction els as [|[c t] l IH]; intros i0 ti; [cbn; constructor|].
  rewrite shift_cons. rewrite Forall_app. split; [|apply IH]. unfold shift_grp.
  destruct rt, wt; cbn [opt_ev app]; repeat (apply Forall_cons; [cbn; auto 6|]); apply Forall_nil.
Qed.

Definition pst0 (zes : fib) : pst :=
  {| p_z := zes; p_apos := 0; p_ins := false; p_oldend := 0; p_toins := []; p_isp := 0 |}.

End WithZZ.
