(* Proofs about Model/Obs.v: V_eqb decides equality of observations. *)
From Coq Require Import ZArith List Bool Lia.
From FT Require Import Model.Obs.
Import ListNotations.
Open Scope Z_scope.

Section VInd.
  Variable P : V -> Prop.
  Hypothesis HZ : forall z, P (VZ z).
  Hypothesis HL : forall l, Forall P l -> P (VL l).
  Fixpoint V_ind' (v : V) : P v :=
    match v with
    | VZ z => HZ z
    | VL l => HL l ((fix go (l : list V) : Forall P l :=
                       match l with
                       | [] => Forall_nil _
                       | x :: l' => Forall_cons x (V_ind' x) (go l')
                       end) l)
    end.
End VInd.

Lemma V_eqb_spec : forall a b, V_eqb a b = true <-> a = b.
Proof.
  induction a as [z|l IH] using V_ind'; intros [y|lb]; simpl.
  - rewrite Z.eqb_eq. split; congruence.
  - split; discriminate.
  - split; discriminate.
  - revert lb. induction l as [|x l IHl]; intros [|y lb].
    + split; reflexivity.
    + split; discriminate.
    + split; discriminate.
    + inversion IH as [|? ? Hx Hl]; subst.
      rewrite andb_true_iff, (Hx y), (IHl Hl lb).
      split.
      * intros [-> E]. inversion E. reflexivity.
      * intros E. inversion E. split; reflexivity.
Qed.

Lemma V_eqb_refl a : V_eqb a a = true.
Proof. apply V_eqb_spec. reflexivity. Qed.
