(* C09FlattenP.v — flattenRanks (tuple / pair): content of the result = content of the operand
   with the flattened coordinates concatenated, in the same order; the result is sorted. *)
From Coq Require Import ZArith List Bool Lia.
From FT Require Import Model.Base Model.C09Transform Proofs.C09OrderP.
Import ListNotations.
Open Scope Z_scope.

(* ------------------------------------------------------------------ list helpers *)
Lemma flat_map_flat_map : forall {A B C} (g : B -> list C) (h : A -> list B) l,
  flat_map g (flat_map h l) = flat_map (fun x => flat_map g (h x)) l.
Proof. induction l as [|x l IH]; simpl; [reflexivity|]. rewrite flat_map_app, IH. reflexivity. Qed.

Lemma map_flat_map : forall {A B C} (F : B -> C) (G : A -> list B) l,
  map F (flat_map G l) = flat_map (fun x => map F (G x)) l.
Proof. induction l as [|x l IH]; simpl; [reflexivity|]. rewrite map_app, IH. reflexivity. Qed.

Lemma flat_map_map : forall {A B C} (g : B -> list C) (h : A -> B) l,
  flat_map g (map h l) = flat_map (fun x => g (h x)) l.
Proof. induction l as [|x l IH]; simpl; [reflexivity|]. rewrite IH. reflexivity. Qed.

Lemma flat_map_filter_nil : forall {A B} (f : A -> bool) (g : A -> list B) l,
  (forall x, f x = false -> g x = []) -> flat_map g (filter f l) = flat_map g l.
Proof.
  induction l as [|x l IH]; intros H; simpl; [reflexivity|].
  destruct (f x) eqn:E; simpl; rewrite IH by exact H; [reflexivity|].
  rewrite (H x E). reflexivity.
Qed.

Lemma flat_map_ext_in : forall {A B} (f g : A -> list B) l,
  (forall x, In x l -> f x = g x) -> flat_map f l = flat_map g l.
Proof.
  induction l as [|x l IH]; intros H; simpl; [reflexivity|].
  rewrite (H x (or_introl eq_refl)), IH; [reflexivity|]. intros; apply H; right; assumption.
Qed.

Lemma all_some_map_Some : forall {A B} (f : A -> option B) (g : A -> B) l,
  (forall x, In x l -> f x = Some (g x)) -> all_some (map f l) = Some (map g l).
Proof.
  induction l as [|x l IH]; intros H; simpl; [reflexivity|].
  rewrite (H x (or_introl eq_refl)), IH; [reflexivity|]. intros; apply H; right; assumption.
Qed.

(* ------------------------------------------------------------------ empties carry no content *)
Lemma cempty_content : forall d t, cempty d t = true -> ccontent d t = [].
Proof.
  intros d t. induction t as [v|es IH] using ct_ind'; simpl; intros H.
  - rewrite H. reflexivity.
  - induction es as [|[c p] es IHes]; simpl; [reflexivity|].
    simpl in H. apply andb_true_iff in H. destruct H as [Hp Hes].
    inversion IH as [|? ? IHp IHrest]; subst. simpl in IHp.
    rewrite (IHp Hp). simpl. apply IHes; assumption.
Qed.

Definition pcons (c : coord) (pv : list coord * Z) : list coord * Z := (c :: fst pv, snd pv).

Lemma content_CN : forall d es,
  ccontent d (CN es) = flat_map (fun cp => map (pcons (fst cp)) (ccontent d (snd cp))) es.
Proof. reflexivity. Qed.

Lemma content_present : forall d es, ccontent d (CN (cpresent d es)) = ccontent d (CN es).
Proof.
  intros d es. rewrite !content_CN. unfold cpresent. apply flat_map_filter_nil.
  intros [c p] H. simpl in *. apply negb_false_iff in H. rewrite (cempty_content _ _ H). reflexivity.
Qed.

(* ------------------------------------------------------------------ the grouping loop on ascending keys *)
Definition single (kp : coord * ct) : coord * list ct := (fst kp, [snd kp]).

Lemma ins_group_last : forall k p acc,
  Forall (fun k' => ccmp k' k = Lt) (map fst acc) -> ins_group k p acc = acc ++ [(k, [p])].
Proof.
  induction acc as [|[k' ps] acc IH]; intros H; simpl; [reflexivity|].
  inversion H as [|? ? Hk Hrest]; subst. simpl in Hk. rewrite Hk. rewrite IH by exact Hrest. reflexivity.
Qed.

Lemma group_fold_asc : forall items acc,
  pw ccmp (map fst items) ->
  (forall k' k, In k' (map fst acc) -> In k (map fst items) -> ccmp k' k = Lt) ->
  fold_left (fun acc kp => ins_group (fst kp) (snd kp) acc) items acc = acc ++ map single items.
Proof.
  induction items as [|[k p] items IH]; intros acc Hpw Hc; simpl; [rewrite app_nil_r; reflexivity|].
  destruct Hpw as [Hk Hpw]. simpl.
  rewrite ins_group_last.
  - rewrite IH; [rewrite <- app_assoc; reflexivity|exact Hpw|].
    intros k' k0 Hin Hin0. rewrite map_app in Hin. apply in_app_or in Hin. destruct Hin as [Hin|Hin].
    + apply Hc; [exact Hin|right; exact Hin0].
    + simpl in Hin. destruct Hin as [<-|[]]. rewrite Forall_forall in Hk. apply Hk. exact Hin0.
  - apply Forall_forall. intros k' Hin. apply Hc; [exact Hin|left; reflexivity].
Qed.

Lemma group_items_asc : forall items,
  pw ccmp (map fst items) -> group_items items = map single items.
Proof. intros items H. unfold group_items. rewrite group_fold_asc; auto. intros ? ? []. Qed.

Lemma merge_tf_single : forall fuel d raise p, merge_tf fuel d raise [p] = Some p.
Proof. destruct fuel; reflexivity. Qed.

Lemma merge_singles : forall fuel d raise items,
  all_some (map (fun g => option_map (pair (fst g)) (merge_tf fuel d raise (snd g))) (map single items))
  = Some items.
Proof.
  induction items as [|[k p] items IH]; simpl; [reflexivity|].
  rewrite merge_tf_single. simpl. rewrite IH. reflexivity.
Qed.

(* ------------------------------------------------------------------ one level *)
Definition all_fibers (es : cfib) : bool := forallb (fun cp => negb (is_leaf (snd cp))) es.
Definition is_single (c : coord) : bool := match c with [_] => true | _ => false end.

(* the coordinate map of one flattening step, on points *)
Definition img2 (p : list coord) : list coord :=
  match p with c1 :: c0 :: rest => (c1 ++ c0) :: rest | _ => p end.
Definition on_pt (f : list coord -> list coord) (pv : list coord * Z) : list coord * Z :=
  (f (fst pv), snd pv).

Definition tp (style : Z) : Prop := style = st_tuple \/ style = st_pair.

Lemma flatten_coords_tp : forall style sh c1 c0, tp style -> flatten_coords style sh c1 c0 = c1 ++ c0.
Proof. intros style sh c1 c0 [->| ->]; reflexivity. Qed.

Lemma existsb_leaf_false : forall es, all_fibers es = true -> existsb (fun cp => is_leaf (snd cp)) es = false.
Proof.
  induction es as [|[c p] es IH]; simpl; intros H; [reflexivity|].
  apply andb_true_iff in H. destruct H as [Hp Hes]. apply negb_true_iff in Hp. rewrite Hp. simpl. auto.
Qed.

Lemma merge_items_content : forall style sh d cur, tp style -> all_fibers cur = true ->
  ccontent d (CN (merge_items style sh d cur)) = map (on_pt img2) (ccontent d (CN cur)).
Proof.
  intros style sh d cur Hs Hf. rewrite !content_CN. unfold merge_items.
  rewrite flat_map_flat_map, map_flat_map. apply flat_map_ext_in.
  intros [c1 p1] Hin. simpl.
  assert (Hp1 : negb (is_leaf p1) = true).
  { unfold all_fibers in Hf. rewrite forallb_forall in Hf. apply (Hf _ Hin). }
  destruct p1 as [v|s]; [discriminate|]. simpl sub.
  rewrite flat_map_map. simpl.
  unfold cpresent. rewrite flat_map_filter_nil.
  2:{ intros [c0 p0] H. simpl in *. apply negb_false_iff in H. rewrite (cempty_content _ _ H). reflexivity. }
  rewrite !map_flat_map. apply flat_map_ext_in. intros [c0 p0] _. simpl.
  rewrite !map_map. apply map_ext. intros [q v]. unfold pcons, on_pt. simpl.
  rewrite flatten_coords_tp by exact Hs. reflexivity.
Qed.

Lemma ccmp_app_single_lt : forall a b x y, (a ?= b) = Lt -> ccmp ([a] ++ x) ([b] ++ y) = Lt.
Proof. intros a b x y H. unfold ccmp. simpl. rewrite H. reflexivity. Qed.

Lemma ccmp_app_single_same : forall a x y, ccmp ([a] ++ x) ([a] ++ y) = ccmp x y.
Proof. intros a x y. unfold ccmp. simpl. rewrite Z.compare_refl. reflexivity. Qed.

Lemma ccmp_single : forall a b, ccmp [a] [b] = Lt -> (a ?= b) = Lt.
Proof. intros a b H. unfold ccmp in H. simpl in H. destruct (a ?= b); try discriminate; reflexivity. Qed.

(* keys of the flattened fiber are pairwise ascending *)
Lemma merge_items_pw : forall style sh d cur, tp style ->
  pw ccmp (map fst cur) -> forallb (fun cp => is_single (fst cp)) cur = true ->
  Forall (fun cp => pw ccmp (map fst (sub (snd cp)))) cur ->
  pw ccmp (map fst (merge_items style sh d cur)).
Proof.
  intros style sh d cur Hs. unfold merge_items.
  induction cur as [|[c1 p1] cur IH]; intros Hpw Hsg Hsub; simpl; [exact I|].
  destruct Hpw as [Hc1 Hpw]. simpl in Hsg. apply andb_true_iff in Hsg. destruct Hsg as [Hs1 Hsg].
  inversion Hsub as [|? ? Hp1 Hrest]; subst. simpl in Hp1.
  destruct c1 as [|a [|? ?]]; try discriminate.
  rewrite map_app. apply pw_app.
  - rewrite map_map. simpl.
    assert (E : map (fun x : coord * ct => flatten_coords style sh [a] (fst x)) (cpresent d (sub p1))
                = map (fun c0 => [a] ++ c0) (map fst (cpresent d (sub p1)))).
    { rewrite map_map. apply map_ext. intros x. apply flatten_coords_tp. exact Hs. }
    rewrite E. apply (pw_map ccmp ccmp).
    + intros x y H. rewrite ccmp_app_single_same. exact H.
    + unfold cpresent.
      assert (E2 : forall l, map fst (filter (fun cp : coord * ct => negb (cempty d (snd cp))) l)
                   = map fst (filter (fun cp : coord * ct => negb (cempty d (snd cp))) l)) by reflexivity.
      clear E E2. induction (sub p1) as [|[c0 p0] s IHs]; simpl; [exact I|].
      destruct Hp1 as [Hc0 Hp1]. simpl.
      destruct (negb (cempty d p0)); simpl; [|auto].
      split; [|auto]. apply Forall_forall. intros y Hy.
      apply in_map_iff in Hy. destruct Hy as [[c' p'] [<- Hy]]. apply filter_In in Hy.
      rewrite Forall_forall in Hc0. apply Hc0. apply in_map_iff. exists (c', p'). tauto.
  - apply IH; assumption.
  - intros x y Hx Hy.
    apply in_map_iff in Hx. destruct Hx as [[kx px] [<- Hx]].
    apply in_map_iff in Hx. destruct Hx as [[c0 p0] [Ex Hx]]. inversion Ex; subst. simpl.
    apply in_map_iff in Hy. destruct Hy as [[ky py] [<- Hy]].
    apply in_flat_map in Hy. destruct Hy as [[c1' p1'] [Hin' Hy]].
    apply in_map_iff in Hy. destruct Hy as [[c0' p0'] [Ey Hy]]. inversion Ey; subst. simpl.
    rewrite forallb_forall in Hsg. specialize (Hsg _ Hin'). simpl in Hsg.
    destruct c1' as [|b [|? ?]]; try discriminate.
    rewrite !flatten_coords_tp by exact Hs.
    apply ccmp_app_single_lt. apply ccmp_single.
    rewrite Forall_forall in Hc1. apply Hc1. apply in_map_iff. exists ([b], p1'). split; [reflexivity|exact Hin'].
Qed.

(* levels = 1 *)
Lemma merge_helper_1 : forall style raise fuel shapes d es, tp style ->
  all_fibers es = true ->
  pw ccmp (map fst (merge_items style (prodZ (firstn 1 (tl shapes))) d es)) ->
  merge_helper 1 style raise fuel shapes d es
  = Some (merge_items style (prodZ (firstn 1 (tl shapes))) d es).
Proof.
  intros style raise fuel shapes d es Hs Hf Hpw.
  unfold merge_helper. rewrite existsb_leaf_false by exact Hf.
  rewrite group_items_asc by exact Hpw. apply merge_singles.
Qed.

(* ------------------------------------------------------------------ any number of levels *)
Definition under (f : list coord -> list coord) (p : list coord) : list coord :=
  match p with c :: q => c :: f q | [] => [] end.

(* the point map of flattenRanks(levels): the first levels+1 coordinates are concatenated *)
Fixpoint imgflat (levels : nat) (p : list coord) : list coord :=
  match levels with O => p | S l => img2 (under (imgflat l) p) end.

(* [n] levels of fibers below es, int coordinates, ascending, at every one of these levels *)
Fixpoint wfl (n : nat) (es : cfib) : Prop :=
  pw ccmp (map fst es) /\ forallb (fun cp => is_single (fst cp)) es = true /\
  match n with
  | O => True
  | S n' => Forall (fun cp => exists s, snd cp = CN s /\ wfl n' s) es
  end.

Lemma wfl_pw : forall n es, wfl n es -> pw ccmp (map fst es).
Proof. destruct n; simpl; tauto. Qed.

Definition lowF (l : nat) style raise fuel (shapes : list Z) d (cp : coord * ct) : option (coord * ct) :=
  match snd cp with
  | CN s => option_map (fun r => (fst cp, CN r)) (merge_helper (S l) style raise fuel (tl shapes) d s)
  | CL _ => None
  end.

Lemma merge_helper_step : forall l style raise fuel shapes d es,
  merge_helper (S (S l)) style raise fuel shapes d es
  = match all_some (map (lowF l style raise fuel shapes d) es) with
    | None => None
    | Some cur =>
      if existsb (fun cp => is_leaf (snd cp)) cur then None
      else all_some (map (fun g => option_map (pair (fst g)) (merge_tf fuel d raise (snd g)))
                         (group_items (merge_items style (prodZ (firstn (S (S l)) (tl shapes))) d cur)))
    end.
Proof. intros. destruct es; reflexivity. Qed.

Lemma all_some_Forall2 : forall {A B} (f : A -> option B) (R : A -> B -> Prop) l,
  (forall x, In x l -> exists y, f x = Some y /\ R x y) ->
  exists ys, all_some (map f l) = Some ys /\ Forall2 R l ys.
Proof.
  induction l as [|x l IH]; intros H; simpl.
  - exists []. split; [reflexivity|constructor].
  - destruct (H x (or_introl eq_refl)) as [y [Ey Ry]].
    destruct IH as [ys [Eys Rys]]; [intros; apply H; right; assumption|].
    exists (y :: ys). rewrite Ey, Eys. split; [reflexivity|constructor; assumption].
Qed.

Lemma content_cons : forall d c p es,
  ccontent d (CN ((c, p) :: es)) = map (pcons c) (ccontent d p) ++ ccontent d (CN es).
Proof. reflexivity. Qed.

Definition Rlow (f : list coord -> list coord) (d : Z) (cp cp' : coord * ct) : Prop :=
  fst cp' = fst cp /\
  exists s r, snd cp = CN s /\ snd cp' = CN r
              /\ ccontent d (CN r) = map (on_pt f) (ccontent d (CN s)) /\ pw ccmp (map fst r).

Lemma Rlow_facts : forall f d es cur, Forall2 (Rlow f d) es cur ->
  map fst cur = map fst es /\ all_fibers cur = true
  /\ Forall (fun cp => pw ccmp (map fst (sub (snd cp)))) cur
  /\ ccontent d (CN cur) = map (on_pt (under f)) (ccontent d (CN es)).
Proof.
  intros f d es cur H. induction H as [|cp cp' es cur [Hc [s [r [Es [Er [Hcont Hpw]]]]]] _ IH].
  - repeat split; constructor.
  - destruct IH as [I1 [I2 [I3 I4]]]. destruct cp as [c p], cp' as [c' p']. simpl in Hc, Es, Er. subst.
    repeat split.
    + simpl. f_equal. exact I1.
    + exact I2.
    + constructor; [exact Hpw|exact I3].
    + rewrite !content_cons, map_app. f_equal; [|exact I4].
      rewrite Hcont. rewrite !map_map. apply map_ext. intros [q v]. reflexivity.
Qed.

Lemma forallb_single_map : forall (es cur : cfib), map fst cur = map fst es ->
  forallb (fun cp => is_single (fst cp)) es = true -> forallb (fun cp => is_single (fst cp)) cur = true.
Proof.
  intros es cur. revert es. induction cur as [|[c p] cur IH]; intros [|[c' p'] es] E H; simpl in *; try discriminate; auto.
  inversion E; subst. apply andb_true_iff in H. destruct H as [Ha Hb]. rewrite Ha. simpl. eapply IH; eauto.
Qed.

Lemma imgflat_1 : forall p, imgflat 1 p = img2 p.
Proof. destruct p; reflexivity. Qed.

Theorem flatten_levels : forall l style raise fuel shapes d es, tp style -> wfl (S l) es ->
  exists r, merge_helper (S l) style raise fuel shapes d es = Some r
    /\ ccontent d (CN r) = map (on_pt (imgflat (S l))) (ccontent d (CN es))
    /\ pw ccmp (map fst r).
Proof.
  induction l as [|l IH]; intros style raise fuel shapes d es Hs Hwf.
  - destruct Hwf as [Hpw [Hsg Hsub]].
    assert (Hf : all_fibers es = true).
    { unfold all_fibers. apply forallb_forall. intros cp Hin. rewrite Forall_forall in Hsub.
      destruct (Hsub _ Hin) as [s [E _]]. rewrite E. reflexivity. }
    assert (Hk : pw ccmp (map fst (merge_items style (prodZ (firstn 1 (tl shapes))) d es))).
    { apply merge_items_pw; auto. eapply Forall_impl; [|exact Hsub].
      intros cp [s [E Hw]]. rewrite E. simpl. eapply wfl_pw. exact Hw. }
    eexists. split; [apply merge_helper_1; assumption|]. split; [|exact Hk].
    rewrite merge_items_content by assumption. apply map_ext. intros [p v]. unfold on_pt. simpl.
    destruct p; reflexivity.
  - destruct Hwf as [Hpw [Hsg Hsub]].
    destruct (all_some_Forall2 (lowF l style raise fuel shapes d) (Rlow (imgflat (S l)) d) es) as [cur [Ecur Rcur]].
    { intros [c p] Hin. rewrite Forall_forall in Hsub. destruct (Hsub _ Hin) as [s [E Hw]]. simpl in E. subst p.
      destruct (IH style raise fuel (tl shapes) d s Hs Hw) as [r [Er [Hc Hp]]].
      exists (c, CN r). unfold lowF. cbn [snd fst]. rewrite Er. cbn [option_map]. split; [reflexivity|].
      split; [reflexivity|]. exists s, r. auto. }
    destruct (Rlow_facts _ _ _ _ Rcur) as [F1 [F2 [F3 F4]]].
    assert (Hk : pw ccmp (map fst (merge_items style (prodZ (firstn (S (S l)) (tl shapes))) d cur))).
    { apply merge_items_pw; auto; [rewrite F1; exact Hpw|eapply forallb_single_map; eauto]. }
    eexists. split.
    + rewrite merge_helper_step, Ecur. rewrite existsb_leaf_false by exact F2.
      rewrite group_items_asc by exact Hk. apply merge_singles.
    + split; [|exact Hk]. rewrite merge_items_content by assumption. rewrite F4, map_map.
      apply map_ext. intros [p v]. reflexivity.
Qed.

(* closed form of the point map *)
Lemma imgflat_closed : forall levels p, (levels < length p)%nat ->
  imgflat levels p = concat (firstn (S levels) p) :: skipn (S levels) p.
Proof.
  induction levels as [|l IH]; intros p H.
  - destruct p as [|c q]; [simpl in H; lia|]. simpl. rewrite app_nil_r. reflexivity.
  - destruct p as [|c q]; [simpl in H; lia|]. simpl in H.
    change (imgflat (S l) (c :: q)) with (img2 (c :: imgflat l q)).
    rewrite IH by lia. reflexivity.
Qed.
