(* C07IterP.v — lemmas about the traversal model (Model/C07Iter.v) and the declarative
   slices of Model/C07IterCheck.v. *)
From Coq Require Import ZArith List Bool Lia ZifyBool.
From FT Require Import Model.Base Model.Obs Model.C07Iter Model.C07IterCheck.
Import ListNotations.
Open Scope Z_scope.

(* ------------------------------------------------------------------ sorted lists *)

Lemma ssorted_inv c l :
  ssorted (c :: l) = true -> ssorted l = true /\ Forall (fun x => c < x) l.
Proof.
  revert c. induction l as [|y l IH]; intros c H.
  - split; [reflexivity|constructor].
  - change (Z.ltb c y && ssorted (y :: l) = true) in H.
    apply andb_true_iff in H. destruct H as [Hcy Hs].
    split; [exact Hs|].
    destruct (IH y Hs) as [_ Hall].
    constructor; [lia|].
    eapply Forall_impl; [|exact Hall]. cbn beta. intros a Ha. lia.
Qed.

Lemma ssorted_intro c l :
  ssorted l = true -> Forall (fun x => c < x) l -> ssorted (c :: l) = true.
Proof.
  intros Hs Hall. destruct l as [|y l]; [reflexivity|].
  change (Z.ltb c y && ssorted (y :: l) = true).
  inversion Hall; subst. apply andb_true_iff. split; [lia|exact Hs].
Qed.

Lemma ssorted_app_inv l1 l2 :
  ssorted (l1 ++ l2) = true ->
  ssorted l1 = true /\ ssorted l2 = true /\
  forall x y, In x l1 -> In y l2 -> x < y.
Proof.
  induction l1 as [|a l1 IH]; intros H.
  - repeat split; auto. intros x y [].
  - cbn [app] in H. apply ssorted_inv in H. destruct H as [Hs Hall].
    destruct (IH Hs) as [H1 [H2 H3]].
    apply Forall_app in Hall. destruct Hall as [Ha1 Ha2].
    repeat split; auto.
    + apply ssorted_intro; auto.
    + intros x y [Hx|Hx] Hy.
      * subst. rewrite Forall_forall in Ha2. auto.
      * auto.
Qed.

Lemma ssorted_NoDup l : ssorted l = true -> NoDup l.
Proof.
  induction l as [|a l IH]; intros H; [constructor|].
  apply ssorted_inv in H. destruct H as [Hs Hall].
  constructor; auto. intros Hin. rewrite Forall_forall in Hall.
  specialize (Hall _ Hin). lia.
Qed.

(* ------------------------------------------------------------------ Python range *)

Lemma zrange_loop_in fuel : forall lo hi step c,
  1 <= step -> (Z.to_nat (hi - lo) <= fuel)%nat ->
  (In c (zrange_loop fuel lo hi step) <-> exists k, 0 <= k /\ c = lo + k * step /\ c < hi).
Proof.
  induction fuel as [|fuel IH]; intros lo hi step c Hstep Hfuel.
  - cbn [zrange_loop]. split; [intros []|].
    intros [k [Hk [Hc Hlt]]]. assert (0 <= k * step) by nia. lia.
  - cbn [zrange_loop]. destruct (lo <? hi) eqn:Hlt.
    + cbn [In]. rewrite (IH (lo + step) hi step c Hstep) by lia.
      split.
      * intros [Heq|[k [Hk [Hc Hch]]]].
        -- exists 0. lia.
        -- exists (k + 1). split; [lia|]. split; [nia|lia].
      * intros [k [Hk [Hc Hch]]].
        destruct (Z.eq_dec k 0) as [->|Hne].
        -- left. lia.
        -- right. exists (k - 1). split; [lia|]. split; [nia|lia].
    + split; [intros []|].
      intros [k [Hk [Hc Hch]]]. assert (0 <= k * step) by nia. lia.
Qed.

Lemma zrange_in lo hi step c :
  1 <= step ->
  (In c (zrange lo hi step) <-> lo <= c < hi /\ (c - lo) mod step = 0).
Proof.
  intros Hstep. unfold zrange. rewrite zrange_loop_in by lia.
  split.
  - intros [k [Hk [Hc Hlt]]]. assert (0 <= k * step) by nia.
    split; [lia|]. replace (c - lo) with (k * step) by lia. apply Z_mod_mult.
  - intros [[Hlo Hhi] Hmod].
    apply Z.mod_divide in Hmod; [|lia]. destruct Hmod as [z Hz].
    exists z. split; [nia|]. split; lia.
Qed.

Lemma zrange_loop_lb fuel : forall lo hi step,
  1 <= step -> Forall (fun x => lo <= x) (zrange_loop fuel lo hi step).
Proof.
  induction fuel as [|fuel IH]; intros lo hi step Hstep; cbn [zrange_loop]; [constructor|].
  destruct (lo <? hi); [|constructor].
  constructor; [lia|].
  eapply Forall_impl; [|apply (IH (lo + step) hi step Hstep)]. cbn beta. intros a Ha. lia.
Qed.

Lemma zrange_loop_sorted fuel : forall lo hi step,
  1 <= step -> ssorted (zrange_loop fuel lo hi step) = true.
Proof.
  induction fuel as [|fuel IH]; intros lo hi step Hstep; cbn [zrange_loop]; [reflexivity|].
  destruct (lo <? hi); [|reflexivity].
  apply ssorted_intro; [apply IH; exact Hstep|].
  eapply Forall_impl; [|apply (zrange_loop_lb fuel (lo + step) hi step Hstep)].
  cbn beta. intros a Ha. lia.
Qed.

Lemma zrange_sorted lo hi step : 1 <= step -> ssorted (zrange lo hi step) = true.
Proof. intros. unfold zrange. apply zrange_loop_sorted. assumption. Qed.

(* ------------------------------------------------------------------ indexed lists *)

Lemma indexed_from_app a : forall b i,
  indexed_from i (a ++ b) = indexed_from i a ++ indexed_from (i + zlen a) b.
Proof.
  induction a as [|[c t] a IH]; intros b i.
  - cbn [app indexed_from]. unfold zlen. cbn [length]. f_equal. lia.
  - cbn [app indexed_from]. rewrite IH. f_equal. f_equal. f_equal. unfold zlen. cbn [length]. lia.
Qed.

Lemma indexed_from_coords es : forall i, map ycoord (indexed_from i es) = map fst es.
Proof.
  induction es as [|[c t] es IH]; intros i; cbn [indexed_from map]; [reflexivity|].
  rewrite IH. reflexivity.
Qed.

Lemma indexed_from_strip es : forall i,
  map (fun y => (ycoord y, ypay y)) (indexed_from i es) = es.
Proof.
  induction es as [|[c t] es IH]; intros i; cbn [indexed_from map]; [reflexivity|].
  rewrite IH. reflexivity.
Qed.

(* ------------------------------------------------------------------ iterRange *)

Definition slice_pred (d : Z) (lo hi : option Z) (y : yelem) : bool :=
  in_range lo hi (ycoord y) && nonempty d y.

Lemma filter_above_hi d lo hi es : forall i c,
  ge_hi hi c = true -> Forall (fun x => c < x) (map fst es) ->
  filter (slice_pred d lo hi) (indexed_from i es) = [].
Proof.
  induction es as [|[c' t] es IH]; intros i c Hge Hall; cbn [indexed_from filter]; [reflexivity|].
  cbn [map fst] in Hall. inversion Hall as [|? ? Hc Hall']; subst.
  assert (Hge' : ge_hi hi c' = true).
  { unfold ge_hi in *. destruct hi; [lia|discriminate]. }
  unfold slice_pred at 1, in_range. cbn [ycoord fst]. rewrite Hge'.
  rewrite andb_false_r. cbn [andb].
  apply (IH _ c); auto.
Qed.

Lemma iter_range_loop_filter d lo hi es : forall i,
  ssorted (map fst es) = true ->
  iter_range_loop d lo hi i es = filter (slice_pred d lo hi) (indexed_from i es).
Proof.
  induction es as [|[c t] es IH]; intros i Hs; [reflexivity|].
  cbn [map fst] in Hs. apply ssorted_inv in Hs. destruct Hs as [Hs Hall].
  cbn [iter_range_loop indexed_from filter].
  unfold slice_pred at 1, in_range, nonempty. cbn [ycoord ypay fst snd].
  destruct (ge_hi hi c) eqn:Hge.
  - rewrite andb_false_r. cbn [andb]. symmetry. apply (filter_above_hi d lo hi es _ c); auto.
  - destruct (in_lo lo c) eqn:Hlo; cbn [andb negb].
    + destruct (is_empty d t) eqn:He; cbn [negb]; rewrite IH by exact Hs; reflexivity.
    + apply IH. exact Hs.
Qed.

Lemma ssorted_skipn n : forall l, ssorted l = true -> ssorted (skipn n l) = true.
Proof.
  induction n as [|n IH]; intros l Hs; [exact Hs|].
  destruct l as [|a l]; [reflexivity|].
  cbn [skipn]. apply IH. apply ssorted_inv in Hs. tauto.
Qed.

Lemma filter_legal_prefix d lo hi (low : Z -> bool) pre : forall i,
  (forall c, low c = true -> in_lo lo c = false) ->
  forallb (fun ct => low (fst ct) || is_empty d (snd ct)) pre = true ->
  filter (slice_pred d lo hi) (indexed_from i pre) = [].
Proof.
  induction pre as [|[c t] pre IH]; intros i Hlow Hall; [reflexivity|].
  cbn [forallb fst snd] in Hall. apply andb_true_iff in Hall. destruct Hall as [H1 H2].
  cbn [indexed_from filter].
  unfold slice_pred at 1, in_range, nonempty. cbn [ycoord ypay fst snd].
  apply orb_true_iff in H1. destruct H1 as [H1|H1].
  - rewrite (Hlow _ H1). cbn [andb]. apply IH; auto.
  - rewrite H1. cbn [negb]. rewrite andb_false_r. apply IH; auto.
Qed.

Lemma below_in_lo lo c : below lo c = true -> in_lo lo c = false.
Proof. unfold below, in_lo. destruct lo; [lia|discriminate]. Qed.

(* the core clause: the eager range iterator = the declarative slice, for every legal
   start_pos *)
Lemma iter_range_spec f lo hi sp :
  ssorted (map fst (f_es f)) = true ->
  legal_sp (f_d f) (f_es f) (below lo) sp = true ->
  iter_range f lo hi sp = Some (spec_range (f_d f) lo hi (f_es f)).
Proof.
  intros Hs Hlegal. unfold iter_range, spec_range, indexed.
  fold (slice_pred (f_d f) lo hi).
  destruct sp as [p|].
  - cbn [legal_sp] in Hlegal.
    apply andb_true_iff in Hlegal. destruct Hlegal as [Hp Hpre].
    apply andb_true_iff in Hp. destruct Hp as [Hp0 Hplen].
    rewrite Hplen. f_equal.
    rewrite iter_range_loop_filter.
    2:{ rewrite <- skipn_map. apply ssorted_skipn. exact Hs. }
    pose proof (indexed_from_app (firstn (Z.to_nat p) (f_es f))
                                 (skipn (Z.to_nat p) (f_es f)) 0) as Hsplit.
    rewrite firstn_skipn in Hsplit. rewrite Hsplit, filter_app.
    rewrite (filter_legal_prefix (f_d f) lo hi (below lo) (firstn (Z.to_nat p) (f_es f)) 0);
      auto using below_in_lo.
    cbn [app]. f_equal. f_equal.
    unfold zlen in *. rewrite firstn_length. lia.
  - f_equal. apply iter_range_loop_filter. exact Hs.
Qed.

(* a legal start_pos never changes what is yielded *)
Lemma iter_range_start_pos f lo hi sp :
  ssorted (map fst (f_es f)) = true ->
  legal_sp (f_d f) (f_es f) (below lo) sp = true ->
  iter_range f lo hi sp = iter_range f lo hi None.
Proof.
  intros Hs Hl. rewrite (iter_range_spec f lo hi sp Hs Hl).
  symmetry. apply iter_range_spec; auto.
Qed.

(* what the slice is, in terms of the stored element list *)
Lemma spec_range_elems d lo hi es :
  map (fun y => (ycoord y, ypay y)) (spec_range d lo hi es)
  = filter (fun ct => in_range lo hi (fst ct) && negb (is_empty d (snd ct))) es.
Proof.
  unfold spec_range, indexed. generalize 0.
  induction es as [|[c t] es IH]; intros i; cbn [indexed_from filter]; [reflexivity|].
  unfold nonempty at 1. cbn [ycoord ypay fst snd].
  destruct (in_range lo hi c && negb (is_empty d t)); cbn [map]; rewrite IH; reflexivity.
Qed.

Lemma indexed_from_nth es : forall i y,
  In y (indexed_from i es) ->
  nth_error es (Z.to_nat (yorig y - i)) = Some (ycoord y, ypay y) /\ i <= yorig y.
Proof.
  induction es as [|[c t] es IH]; intros i y Hin; [destruct Hin|].
  cbn [indexed_from In] in Hin. destruct Hin as [<-|Hin].
  - cbn [yorig ycoord ypay fst snd]. rewrite Z.sub_diag. split; [reflexivity|lia].
  - destruct (IH _ _ Hin) as [Hn Hle].
    split; [|lia].
    replace (Z.to_nat (yorig y - i)) with (S (Z.to_nat (yorig y - (i + 1)))) by lia.
    exact Hn.
Qed.

(* every yielded triple is the stored element at the position it names *)
Lemma spec_range_origin d lo hi es y :
  In y (spec_range d lo hi es) ->
  nth_error es (Z.to_nat (yorig y)) = Some (ycoord y, ypay y).
Proof.
  unfold spec_range. intros Hin. apply filter_In in Hin. destruct Hin as [Hin _].
  apply indexed_from_nth in Hin. rewrite Z.sub_0_r in Hin. tauto.
Qed.

Lemma filter_sorted_y (P : yelem -> bool) l :
  ssorted (map ycoord l) = true -> ssorted (map ycoord (filter P l)) = true.
Proof.
  induction l as [|y l IH]; intros Hs; [reflexivity|].
  cbn [map] in Hs. apply ssorted_inv in Hs. destruct Hs as [Hs Hall].
  cbn [filter]. destruct (P y); [|auto].
  cbn [map]. apply ssorted_intro; [auto|].
  rewrite Forall_forall in *. intros x Hx. apply Hall.
  apply in_map_iff in Hx. destruct Hx as [z [<- Hz]].
  apply filter_In in Hz. apply in_map. tauto.
Qed.

Lemma spec_range_sorted d lo hi es :
  ssorted (map fst es) = true -> ssorted (map ycoord (spec_range d lo hi es)) = true.
Proof.
  intros Hs. unfold spec_range. apply filter_sorted_y.
  unfold indexed. rewrite indexed_from_coords. exact Hs.
Qed.

(* ------------------------------------------------------------------ point lookups *)

Definition cfind (c : Z) (ys : list yelem) : option yelem :=
  find (fun y => ycoord y =? c) ys.

Lemma cfind_none_above c es : forall i,
  Forall (fun x => c < x) (map fst es) -> cfind c (indexed_from i es) = None.
Proof.
  induction es as [|[c' t] es IH]; intros i Hall; [reflexivity|].
  cbn [map fst] in Hall. inversion Hall; subst.
  unfold cfind. cbn [indexed_from find ycoord fst].
  destruct (c' =? c) eqn:E; [lia|]. apply IH. assumption.
Qed.

Lemma coord2pos_find c es : forall i,
  ssorted (map fst es) = true ->
  cfind c (indexed_from i es)
  = match coord_exists c (coord2pos c es) es with
    | Some t => Some (c, t, i + Z.of_nat (coord2pos c es))
    | None => None
    end.
Proof.
  induction es as [|[c' t'] es IH]; intros i Hs; [reflexivity|].
  cbn [map fst] in Hs. apply ssorted_inv in Hs. destruct Hs as [Hs Hall].
  cbn [coord2pos]. destruct (c <=? c') eqn:Hle.
  - unfold coord_exists. cbn [nth_error]. unfold cfind. cbn [indexed_from find ycoord fst].
    destruct (c' =? c) eqn:E.
    + f_equal. f_equal; [f_equal; lia|lia].
    + apply cfind_none_above. eapply Forall_impl; [|exact Hall]. cbn beta. intros; lia.
  - unfold coord_exists. cbn [nth_error].
    unfold cfind. cbn [indexed_from find ycoord fst].
    destruct (c' =? c) eqn:E; [lia|].
    fold (cfind c (indexed_from (i + 1) es)). rewrite (IH (i + 1) Hs).
    unfold coord_exists. destruct (nth_error es (coord2pos c es)) as [[c2 t2]|]; [|reflexivity].
    destruct (c2 =? c); [|reflexivity]. f_equal. f_equal. lia.
Qed.

Lemma get_payload_spec d c es :
  ssorted (map fst es) = true ->
  (c, fst (get_payload d c es), snd (get_payload d c es)) = spec_lookup (dflt d es) es c.
Proof.
  intros Hs. unfold spec_lookup, spec_find, indexed, get_payload.
  fold (cfind c (indexed_from 0 es)). rewrite (coord2pos_find c es 0 Hs).
  destruct (coord_exists c (coord2pos c es) es); reflexivity.
Qed.

Lemma cfind_lookup c es : forall i,
  option_map ypay (cfind c (indexed_from i es)) = lookup c es.
Proof.
  induction es as [|[c' t'] es IH]; intros i; [reflexivity|].
  unfold cfind. cbn [indexed_from find ycoord fst lookup].
  rewrite Z.eqb_sym. destruct (c =? c'); [reflexivity|]. apply IH.
Qed.

(* the payload the declarative lookup names: the stored one, or the default *)
Lemma spec_lookup_pay dt es c :
  ypay (spec_lookup dt es c) = match lookup c es with Some t => t | None => dt end
  /\ ycoord (spec_lookup dt es c) = c.
Proof.
  unfold spec_lookup, spec_find, indexed.
  pose proof (cfind_lookup c es 0) as H. unfold cfind in H.
  destruct (find (fun y => ycoord y =? c) (indexed_from 0 es)) as [y|] eqn:E.
  - cbn [option_map] in H. rewrite <- H. split; [reflexivity|].
    apply find_some in E. lia.
  - cbn [option_map] in H. rewrite <- H. split; reflexivity.
Qed.

(* ... and its origin is the position where that payload is stored, or -1 *)
Lemma spec_lookup_origin dt es c :
  match lookup c es with
  | Some t => nth_error es (Z.to_nat (yorig (spec_lookup dt es c))) = Some (c, t)
              /\ 0 <= yorig (spec_lookup dt es c)
  | None => yorig (spec_lookup dt es c) = -1
  end.
Proof.
  unfold spec_lookup, spec_find, indexed.
  pose proof (cfind_lookup c es 0) as H. unfold cfind in H.
  destruct (find (fun y => ycoord y =? c) (indexed_from 0 es)) as [y|] eqn:E.
  - cbn [option_map] in H. rewrite <- H.
    apply find_some in E. destruct E as [Hin Hc].
    apply indexed_from_nth in Hin. rewrite Z.sub_0_r in Hin.
    destruct Hin as [Hn Hle]. split; [|exact Hle]. rewrite Hn. f_equal. f_equal. lia.
  - cbn [option_map] in H. rewrite <- H. reflexivity.
Qed.

Lemma shape_loop_spec d cs es :
  ssorted (map fst es) = true -> shape_loop d cs es = spec_shape d es cs.
Proof.
  intros Hs. unfold shape_loop, spec_shape. apply map_ext. intros c.
  apply get_payload_spec. exact Hs.
Qed.

(* ------------------------------------------------------------------ reference variants *)

Lemma insert_at_S {A} n (x a : A) l : insert_at (S n) x (a :: l) = a :: insert_at n x l.
Proof. reflexivity. Qed.

Lemma get_payload_ref_ins_gen t c es :
  match coord_exists c (coord2pos c es) es with
  | Some _ => es
  | None => insert_at (coord2pos c es) (c, t) es
  end = ins c t es.
Proof.
  induction es as [|[c' t'] es IH]; [reflexivity|].
  cbn [coord2pos ins]. destruct (c <=? c') eqn:Hle.
  - unfold coord_exists. cbn [nth_error].
    destruct (c' =? c) eqn:E.
    + destruct (c <? c') eqn:E1; [lia|]. destruct (c =? c') eqn:E2; [reflexivity|lia].
    + destruct (c <? c') eqn:E1; [reflexivity|lia].
  - destruct (c <? c') eqn:E1; [lia|]. destruct (c =? c') eqn:E2; [lia|].
    unfold coord_exists in *. cbn [nth_error].
    destruct (nth_error es (coord2pos c es)) as [[c2 t2]|] eqn:En.
    + destruct (c2 =? c).
      * rewrite <- IH. reflexivity.
      * rewrite insert_at_S. rewrite <- IH. reflexivity.
    + rewrite insert_at_S. rewrite <- IH. reflexivity.
Qed.

Lemma get_payload_ref_ins d c es : get_payload_ref d c es = ins c (dflt d es) es.
Proof. unfold get_payload_ref. apply get_payload_ref_ins_gen. Qed.

Lemma dflt_ins d c es : dflt d (ins c (dflt d es) es) = dflt d es.
Proof.
  destruct es as [|[c' t'] es]; [reflexivity|].
  cbn [ins]. destruct (c <? c').
  - cbn [dflt]. destruct t'; reflexivity.
  - destruct (c =? c'); reflexivity.
Qed.

Lemma ins_coords c t es x :
  In x (map fst (ins c t es)) <-> x = c \/ In x (map fst es).
Proof.
  induction es as [|[c' t'] es IH]; cbn [ins map fst In].
  - intuition.
  - destruct (c <? c') eqn:E1; cbn [map fst In]; [intuition|].
    destruct (c =? c') eqn:E2; cbn [map fst In].
    + assert (c = c') by lia. subst. intuition.
    + rewrite IH. intuition.
Qed.

Lemma ins_sorted c t es :
  ssorted (map fst es) = true -> ssorted (map fst (ins c t es)) = true.
Proof.
  induction es as [|[c' t'] es IH]; intros Hs; [reflexivity|].
  cbn [ins]. destruct (c <? c') eqn:E1.
  - cbn [map fst]. apply ssorted_intro; [exact Hs|].
    cbn [map fst] in Hs. apply ssorted_inv in Hs. destruct Hs as [_ Hall].
    constructor; [lia|]. eapply Forall_impl; [|exact Hall]. cbn beta. intros; lia.
  - destruct (c =? c') eqn:E2; [exact Hs|].
    cbn [map fst] in *. apply ssorted_inv in Hs. destruct Hs as [Hs Hall].
    apply ssorted_intro; [auto|].
    rewrite Forall_forall in *. intros x Hx. apply ins_coords in Hx.
    destruct Hx as [->|Hx]; [lia|auto].
Qed.

Lemma lookup_none_above c es :
  Forall (fun x => c < x) (map fst es) -> lookup c es = None.
Proof.
  induction es as [|[c' t'] es IH]; intros Hall; [reflexivity|].
  cbn [map fst] in Hall. inversion Hall; subst. cbn [lookup].
  destruct (c =? c') eqn:E; [lia|auto].
Qed.

(* insertion as a finite-map update: only an absent coordinate gets the new payload *)
Lemma lookup_ins c t es x :
  ssorted (map fst es) = true ->
  lookup x (ins c t es)
  = if x =? c then match lookup c es with Some t' => Some t' | None => Some t end
    else lookup x es.
Proof.
  induction es as [|[c' t'] es IH]; intros Hs.
  - cbn [ins lookup]. destruct (x =? c); reflexivity.
  - cbn [map fst] in Hs. apply ssorted_inv in Hs. destruct Hs as [Hs Hall].
    cbn [ins]. destruct (c <? c') eqn:E1.
    + cbn [lookup]. destruct (x =? c) eqn:Exc.
      * destruct (c =? c') eqn:E2; [lia|].
        rewrite (lookup_none_above c es); [reflexivity|].
        eapply Forall_impl; [|exact Hall]. cbn beta. intros; lia.
      * reflexivity.
    + destruct (c =? c') eqn:E2.
      * cbn [lookup]. destruct (x =? c) eqn:Exc; [|reflexivity].
        assert (x = c) by lia. subst x. rewrite E2. reflexivity.
      * cbn [lookup]. rewrite IH by exact Hs. rewrite E2.
        destruct (x =? c') eqn:Exc'.
        -- destruct (x =? c) eqn:Exc; [lia|reflexivity].
        -- reflexivity.
Qed.

Definition post_of (dt : tree) (es : fib) (cs : list Z) : fib :=
  fold_left (fun acc c => ins c dt acc) cs es.

Lemma post_of_sorted dt cs : forall es,
  ssorted (map fst es) = true -> ssorted (map fst (post_of dt es cs)) = true.
Proof.
  induction cs as [|c cs IH]; intros es Hs; [exact Hs|].
  cbn [post_of fold_left]. apply IH. apply ins_sorted. exact Hs.
Qed.

(* the fiber after a reference traversal, as a finite map: the stored payloads are kept and
   exactly the visited absent coordinates hold the default *)
Lemma lookup_post dt cs : forall es x,
  ssorted (map fst es) = true ->
  lookup x (post_of dt es cs)
  = match lookup x es with
    | Some t => Some t
    | None => if existsb (Z.eqb x) cs then Some dt else None
    end.
Proof.
  induction cs as [|c cs IH]; intros es x Hs.
  - cbn [post_of fold_left existsb]. destruct (lookup x es); reflexivity.
  - cbn [post_of fold_left existsb]. fold (post_of dt (ins c dt es) cs).
    rewrite IH by (apply ins_sorted; exact Hs).
    rewrite lookup_ins by exact Hs.
    destruct (x =? c) eqn:E.
    + assert (x = c) by lia. subst x. destruct (lookup c es); reflexivity.
    + cbn [orb]. reflexivity.
Qed.

Lemma dflt_post d cs : forall es,
  dflt d (post_of (dflt d es) es cs) = dflt d es.
Proof.
  induction cs as [|c cs IH]; intros es; [reflexivity|].
  cbn [post_of fold_left]. fold (post_of (dflt d es) (ins c (dflt d es) es) cs).
  rewrite <- (dflt_ins d c es) at 1. rewrite IH. apply dflt_ins.
Qed.

Lemma shape_ref_loop_post d cs : forall es,
  snd (shape_ref_loop d cs es) = spec_post d es cs.
Proof.
  induction cs as [|c cs IH]; intros es; [reflexivity|].
  cbn [shape_ref_loop snd]. rewrite IH. rewrite get_payload_ref_ins.
  unfold spec_post. cbn [fold_left]. rewrite dflt_ins. reflexivity.
Qed.

Lemma get_payload_fst d c es :
  ssorted (map fst es) = true ->
  fst (get_payload d c es) = match lookup c es with Some t => t | None => dflt d es end.
Proof.
  intros Hs. pose proof (get_payload_spec d c es Hs) as H.
  pose proof (spec_lookup_pay (dflt d es) es c) as [Hp _].
  rewrite <- H in Hp. exact Hp.
Qed.

Lemma shape_ref_loop_yields d cs : forall es,
  ssorted (map fst es) = true ->
  with_origin d (spec_post d es cs) (fst (shape_ref_loop d cs es))
  = spec_shape_ref d es cs.
Proof.
  intros es Hs. unfold spec_shape_ref.
  (* generalise: the loop started later, from a fiber es1 that the rest of the walk extends *)
  assert (G : forall cs1 es1 (post : fib),
             ssorted (map fst es1) = true ->
             ssorted (map fst post) = true ->
             dflt d post = dflt d es ->
             (forall x t, lookup x es1 = Some t -> lookup x post = Some t) ->
             (forall x, In x cs1 -> lookup x post <> None) ->
             dflt d es1 = dflt d es ->
             post = post_of (dflt d es) es1 cs1 ->
             with_origin d post (fst (shape_ref_loop d cs1 es1))
             = map (spec_lookup (dflt d es) post) cs1).
  { induction cs1 as [|c cs1 IH1]; intros es1 post Hs1 Hsp Hdp Hkeep Hall Hd1 Hpost; [reflexivity|].
    cbn [shape_ref_loop fst with_origin map].
    rewrite get_payload_ref_ins. rewrite Hd1.
    set (es2 := ins c (dflt d es) es1).
    assert (Hs2 : ssorted (map fst es2) = true) by (apply ins_sorted; exact Hs1).
    f_equal.
    - cbn [fst snd].
      rewrite <- Hdp. rewrite <- (get_payload_spec d c post Hsp).
      f_equal. f_equal.
      rewrite (get_payload_fst d c es2 Hs2), (get_payload_fst d c post Hsp).
      assert (Hl2 : exists t, lookup c es2 = Some t).
      { unfold es2. rewrite lookup_ins by exact Hs1. rewrite Z.eqb_refl.
        destruct (lookup c es1); eauto. }
      destruct Hl2 as [t Ht]. rewrite Ht.
      assert (Hlp : lookup c post = Some t).
      { rewrite Hpost. cbn [post_of fold_left]. fold es2. fold (post_of (dflt d es) es2 cs1).
        rewrite lookup_post by exact Hs2. rewrite Ht. reflexivity. }
      rewrite Hlp. reflexivity.
    - apply IH1; auto.
      + intros x t Hx. rewrite Hpost. cbn [post_of fold_left]. fold es2.
        fold (post_of (dflt d es) es2 cs1). rewrite lookup_post by exact Hs2. rewrite Hx. reflexivity.
      + intros x Hx. apply Hall. right. exact Hx.
      + unfold es2. rewrite <- Hd1. apply dflt_ins. }
  apply G; auto.
  - unfold spec_post. apply post_of_sorted. exact Hs.
  - apply dflt_post.
  - intros x t Hx. unfold spec_post. fold (post_of (dflt d es) es cs).
    rewrite lookup_post by exact Hs. rewrite Hx. reflexivity.
  - intros x Hx. unfold spec_post. fold (post_of (dflt d es) es cs).
    rewrite lookup_post by exact Hs. destruct (lookup x es); [discriminate|].
    assert (E : existsb (Z.eqb x) cs = true).
    { apply existsb_exists. exists x. split; [exact Hx|lia]. }
    rewrite E. discriminate.
Qed.

(* ------------------------------------------------------------------ dense co-iteration *)

Definition all_sorted (fs : list fib) : Prop := Forall (fun es => ssorted (map fst es) = true) fs.

Lemma co_loop_spec d cs fs :
  all_sorted fs -> co_loop d cs fs = spec_co d fs cs.
Proof.
  intros Hs. unfold co_loop, spec_co. apply map_ext. intros c. f_equal.
  apply map_ext_in. intros es Hin. unfold all_sorted in Hs. rewrite Forall_forall in Hs.
  pose proof (get_payload_spec d c es (Hs _ Hin)) as H. rewrite <- H.
  cbn [ypay yorig fst snd]. destruct (get_payload d c es); reflexivity.
Qed.

Lemma post_of_app dt es a b : post_of dt es (a ++ b) = post_of dt (post_of dt es a) b.
Proof. unfold post_of. apply fold_left_app. Qed.

Lemma ins_present c t es t' :
  ssorted (map fst es) = true -> lookup c es = Some t' -> ins c t es = es.
Proof.
  induction es as [|[c' t2] es IH]; intros Hs Hl; [discriminate|].
  cbn [map fst] in Hs. apply ssorted_inv in Hs. destruct Hs as [Hs Hall].
  cbn [lookup] in Hl. cbn [ins].
  destruct (c =? c') eqn:E.
  - destruct (c <? c') eqn:E1; [lia|reflexivity].
  - destruct (c <? c') eqn:E1.
    + rewrite (lookup_none_above c es) in Hl; [discriminate|].
      eapply Forall_impl; [|exact Hall]. cbn beta. intros; lia.
    + rewrite IH; auto.
Qed.

Lemma post_of_absorb dt cs : forall P,
  ssorted (map fst P) = true ->
  (forall c, In c cs -> lookup c P <> None) -> post_of dt P cs = P.
Proof.
  induction cs as [|c cs IH]; intros P Hs Hall; [reflexivity|].
  cbn [post_of fold_left].
  destruct (lookup c P) as [t'|] eqn:El.
  - rewrite (ins_present c dt P t' Hs El). apply IH; auto.
    intros x Hx. apply Hall. right. exact Hx.
  - exfalso. apply (Hall c); [left; reflexivity|exact El].
Qed.

Lemma post_of_idem dt es cs :
  ssorted (map fst es) = true -> post_of dt (post_of dt es cs) cs = post_of dt es cs.
Proof.
  intros Hs. apply post_of_absorb; [apply post_of_sorted; exact Hs|].
  intros c Hc. rewrite lookup_post by exact Hs.
  destruct (lookup c es); [discriminate|].
  assert (E : existsb (Z.eqb c) cs = true).
  { apply existsb_exists. exists c. split; [exact Hc|lia]. }
  rewrite E. discriminate.
Qed.

Lemma val_at_post d es cs c :
  ssorted (map fst es) = true ->
  val_at d (post_of (dflt d es) es cs) c = val_at d es c.
Proof.
  intros Hs. unfold val_at. rewrite lookup_post by exact Hs. rewrite dflt_post.
  destruct (lookup c es); [reflexivity|]. destruct (existsb (Z.eqb c) cs); reflexivity.
Qed.

Lemma co_ref_loop_gen d cs : forall fs cs0,
  all_sorted fs ->
  co_ref_loop d cs (map (fun es => post_of (dflt d es) es cs0) fs)
  = (map (fun c => (c, map (fun es => val_at d es c) fs)) cs,
     map (fun es => post_of (dflt d es) es (cs0 ++ cs)) fs).
Proof.
  induction cs as [|c cs IH]; intros fs cs0 Hs.
  - cbn [co_ref_loop map]. rewrite app_nil_r. reflexivity.
  - cbn [co_ref_loop].
    assert (Hstep : map (get_payload_ref d c) (map (fun es => post_of (dflt d es) es cs0) fs)
                    = map (fun es => post_of (dflt d es) es (cs0 ++ [c])) fs).
    { rewrite map_map. apply map_ext. intros es.
      rewrite get_payload_ref_ins, dflt_post, post_of_app. reflexivity. }
    rewrite Hstep. rewrite (IH fs (cs0 ++ [c]) Hs).
    cbn [fst snd map]. rewrite <- app_assoc. cbn [app]. f_equal. f_equal. f_equal.
    rewrite map_map. apply map_ext_in. intros es Hin.
    unfold all_sorted in Hs. rewrite Forall_forall in Hs. specialize (Hs _ Hin).
    rewrite get_payload_fst by (apply post_of_sorted; exact Hs).
    fold (val_at d (post_of (dflt d es) es (cs0 ++ [c])) c).
    apply val_at_post. exact Hs.
Qed.

Lemma co_ref_loop_0 d cs fs :
  all_sorted fs ->
  co_ref_loop d cs fs
  = (map (fun c => (c, map (fun es => val_at d es c) fs)) cs,
     map (fun es => post_of (dflt d es) es cs) fs).
Proof.
  intros Hs. pose proof (co_ref_loop_gen d cs fs [] Hs) as H.
  cbn [app] in H.
  replace (map (fun es : fib => post_of (dflt d es) es []) fs) with fs in H; [exact H|].
  symmetry. rewrite <- (map_id fs) at 2. apply map_ext. reflexivity.
Qed.

Lemma combine_map2 {A B C} (f : A -> B) (g : A -> C) l :
  combine (map f l) (map g l) = map (fun a => (f a, g a)) l.
Proof. induction l as [|a l IH]; cbn [map combine]; [reflexivity|]. rewrite IH. reflexivity. Qed.

Lemma co_ref_spec d cs fs :
  all_sorted fs ->
  let r := co_ref_loop d cs fs in
  snd r = map (fun es => spec_post d es cs) fs /\
  co_with_origin d (snd r) (fst r) = spec_co_ref d fs cs.
Proof.
  intros Hs. cbn zeta.
  rewrite (co_ref_loop_0 d cs fs Hs). cbn [fst snd].
  split; [reflexivity|].
  unfold co_with_origin, spec_co_ref. rewrite map_map. apply map_ext. intros c.
  cbn [fst snd]. f_equal. rewrite map_map. rewrite combine_map2.
  apply map_ext_in. intros es Hin.
  unfold all_sorted in Hs. rewrite Forall_forall in Hs. specialize (Hs _ Hin).
  unfold spec_post. fold (post_of (dflt d es) es cs).
  assert (Hsp : ssorted (map fst (post_of (dflt d es) es cs)) = true)
    by (apply post_of_sorted; exact Hs).
  pose proof (get_payload_spec d c _ Hsp) as G. rewrite dflt_post in G. rewrite <- G.
  cbn [ypay yorig fst snd]. f_equal.
  rewrite get_payload_fst by exact Hsp.
  fold (val_at d (post_of (dflt d es) es cs) c). symmetry. apply val_at_post. exact Hs.
Qed.

Lemma co_ref_second d cs fs :
  all_sorted fs ->
  co_ref_loop d cs (snd (co_ref_loop d cs fs)) = co_ref_loop d cs fs.
Proof.
  intros Hs.
  rewrite (co_ref_loop_0 d cs fs Hs). cbn [snd].
  rewrite (co_ref_loop_gen d cs fs cs Hs). f_equal.
  apply map_ext_in. intros es Hin.
  unfold all_sorted in Hs. rewrite Forall_forall in Hs. specialize (Hs _ Hin).
  rewrite post_of_app. apply post_of_idem. exact Hs.
Qed.

(* ------------------------------------------------------------------ default iteration *)

Lemma below_none c : below None c = false.
Proof. reflexivity. Qed.

Lemma iter_dispatch_spec f sp :
  ssorted (map fst (f_es f)) = true ->
  fmt_U f || legal_sp (f_d f) (f_es f) (below None) sp = true ->
  iter_dispatch f sp = Some (spec_default_iter f).
Proof.
  intros Hs Hl. unfold iter_dispatch, spec_default_iter.
  destruct (fmt_U f) eqn:EU.
  - f_equal. unfold iter_range_shape. apply shape_loop_spec. exact Hs.
  - cbn [orb] in Hl. unfold iter_occupancy. apply iter_range_spec; assumption.
Qed.

Lemma spec_shape_coords d es cs : map ycoord (spec_shape d es cs) = cs.
Proof.
  unfold spec_shape. rewrite map_map. rewrite <- (map_id cs) at 2. apply map_ext.
  intros c. apply spec_lookup_pay.
Qed.

Lemma spec_default_iter_sorted f :
  ssorted (map fst (f_es f)) = true ->
  ssorted (map ycoord (spec_default_iter f)) = true.
Proof.
  intros Hs. unfold spec_default_iter. destruct (fmt_U f).
  - rewrite spec_shape_coords. apply zrange_sorted. lia.
  - apply spec_range_sorted. exact Hs.
Qed.

(* ------------------------------------------------------------------ monotone images *)

Lemma ssorted_map_mono (g : Z -> Z) l :
  (forall x y, x < y -> g x < g y) -> ssorted l = true -> ssorted (map g l) = true.
Proof.
  intros Hg. induction l as [|a l IH]; intros Hs; [reflexivity|].
  apply ssorted_inv in Hs. destruct Hs as [Hs Hall].
  cbn [map]. apply ssorted_intro; [auto|].
  rewrite Forall_forall in *. intros x Hx. apply in_map_iff in Hx.
  destruct Hx as [z [<- Hz]]. apply Hg. auto.
Qed.

Lemma ssorted_snoc l z :
  ssorted l = true -> (forall x, In x l -> x < z) -> ssorted (l ++ [z]) = true.
Proof.
  induction l as [|a l IH]; intros Hs Hlt; [reflexivity|].
  apply ssorted_inv in Hs. destruct Hs as [Hs Hall].
  cbn [app]. apply ssorted_intro.
  - apply IH; auto. intros x Hx. apply Hlt. right. exact Hx.
  - apply Forall_app. split; [exact Hall|]. constructor; [|constructor].
    apply Hlt. left. reflexivity.
Qed.

Lemma ssorted_rev_anti (g : Z -> Z) l :
  (forall x y, x < y -> g y < g x) -> ssorted l = true -> ssorted (map g (rev l)) = true.
Proof.
  intros Hg. induction l as [|a l IH]; intros Hs; [reflexivity|].
  apply ssorted_inv in Hs. destruct Hs as [Hs Hall].
  cbn [rev]. rewrite map_app. cbn [map]. apply ssorted_snoc; [auto|].
  intros x Hx. apply in_map_iff in Hx. destruct Hx as [z [<- Hz]].
  apply Hg. apply in_rev in Hz. rewrite Forall_forall in Hall. auto.
Qed.

Lemma filter_sorted_key {A} (g : A -> Z) (P : A -> bool) l :
  ssorted (map g l) = true -> ssorted (map g (filter P l)) = true.
Proof.
  induction l as [|y l IH]; intros Hs; [reflexivity|].
  cbn [map] in Hs. apply ssorted_inv in Hs. destruct Hs as [Hs Hall].
  cbn [filter]. destruct (P y); [|auto].
  cbn [map]. apply ssorted_intro; [auto|].
  rewrite Forall_forall in *. intros x Hx. apply Hall.
  apply in_map_iff in Hx. destruct Hx as [z [<- Hz]].
  apply filter_In in Hz. apply in_map. tauto.
Qed.

(* ------------------------------------------------------------------ project *)

Definition image (k b : Z) (y : yelem) : Z := k * ycoord y + b.

Lemma filter_filter {A} (P Q : A -> bool) l :
  filter Q (filter P l) = filter (fun x => P x && Q x) l.
Proof.
  induction l as [|a l IH]; [reflexivity|].
  cbn [filter]. destruct (P a); cbn [filter andb]; [destruct (Q a)|]; rewrite IH; reflexivity.
Qed.

Lemma filter_iv_above k b lo hi ys z :
  hi <= z -> Forall (fun x => z < x) (map (image k b) ys) ->
  filter (fun y => in_iv (Some (lo, hi)) (ycoord y)) (map (retag k b) ys) = [].
Proof.
  intros Hz. induction ys as [|y ys IH]; intros Hall; [reflexivity|].
  cbn [map] in Hall. inversion Hall; subst.
  cbn [map filter]. unfold retag at 1. cbn [ycoord fst in_iv]. unfold image in *.
  destruct (lo <=? k * ycoord y + b) eqn:E1; destruct (k * ycoord y + b <? hi) eqn:E2;
    cbn [andb]; try lia; auto.
Qed.

(* the generator's loop with its early break = the plain interval filter, whenever the
   images come in ascending order *)
Lemma proj_loop_filter k b iv ys :
  ssorted (map (image k b) ys) = true ->
  proj_loop k b iv ys = filter (fun y => in_iv iv (ycoord y)) (map (retag k b) ys).
Proof.
  induction ys as [|y ys IH]; intros Hs; [reflexivity|].
  cbn [map] in Hs. apply ssorted_inv in Hs. destruct Hs as [Hs Hall].
  cbn [proj_loop map filter]. destruct iv as [[lo hi]|].
  - cbn [in_iv]. change (ycoord (retag k b y)) with (k * ycoord y + b).
    change (retag k b y) with (k * ycoord y + b, ypay y, yorig y).
    destruct (hi <=? k * ycoord y + b) eqn:E1.
    + replace (k * ycoord y + b <? hi) with false by lia. rewrite andb_false_r.
      symmetry. apply (filter_iv_above k b lo hi ys (image k b y)); [unfold image; lia|exact Hall].
    + replace (k * ycoord y + b <? hi) with true by lia. rewrite andb_true_r.
      destruct (lo <=? k * ycoord y + b); rewrite IH by exact Hs; reflexivity.
  - cbn [in_iv]. rewrite IH by exact Hs. reflexivity.
Qed.

Lemma map_retag_filter_ne d k b l :
  map (retag k b) (filter (nonempty d) l) = filter (nonempty d) (map (retag k b) l).
Proof.
  induction l as [|y l IH]; [reflexivity|].
  cbn [filter map].
  change (nonempty d (retag k b y)) with (nonempty d y).
  destruct (nonempty d y); cbn [map]; rewrite IH; reflexivity.
Qed.

Lemma images_forward k b ys :
  0 < k -> ssorted (map ycoord ys) = true -> ssorted (map (image k b) ys) = true.
Proof.
  intros Hk Hs. unfold image.
  rewrite <- (map_map ycoord (fun c => k * c + b)).
  apply ssorted_map_mono; [|exact Hs]. intros x y Hxy. nia.
Qed.

Lemma images_reversed k b es :
  k < 0 -> ssorted (map fst es) = true ->
  ssorted (map (image k b) (rev (indexed es))) = true.
Proof.
  intros Hk Hs. unfold image.
  rewrite <- (map_map ycoord (fun c => k * c + b)).
  rewrite map_rev. unfold indexed. rewrite indexed_from_coords.
  apply ssorted_rev_anti; [|exact Hs]. intros x y Hxy. nia.
Qed.

(* the projected slice of a source list *)
Definition proj_of (d k b : Z) (iv : option (Z * Z)) (src : list yelem) : list yelem :=
  filter (fun y => in_iv iv (ycoord y) && nonempty d y) (map (retag k b) src).

Lemma project_from_source d k b iv src :
  ssorted (map (image k b) src) = true ->
  lazy_occ d (proj_loop k b iv src) = proj_of d k b iv src.
Proof.
  intros Hs. unfold lazy_occ, proj_of. fold (nonempty d).
  rewrite proj_loop_filter by exact Hs. apply filter_filter.
Qed.

(* elements before a legal start_pos contribute nothing to the projection *)
Lemma proj_of_legal_prefix d k b iv pre : forall i,
  forallb (fun ct => match iv with Some (lo, _) => k * fst ct + b <? lo | None => false end
                     || is_empty d (snd ct)) pre = true ->
  proj_of d k b iv (indexed_from i pre) = [].
Proof.
  induction pre as [|[c t] pre IH]; intros i Hall; [reflexivity|].
  cbn [forallb fst snd] in Hall. apply andb_true_iff in Hall. destruct Hall as [H1 H2].
  unfold proj_of. cbn [indexed_from map filter].
  change (ycoord (retag k b (c, t, i))) with (k * c + b).
  change (nonempty d (retag k b (c, t, i))) with (negb (is_empty d t)).
  fold (proj_of d k b iv (indexed_from (i + 1) pre)). rewrite (IH _ H2).
  apply orb_true_iff in H1. destruct H1 as [H1|H1].
  - destruct iv as [[lo hi]|]; [|discriminate]. cbn [in_iv].
    replace (lo <=? k * c + b) with false by lia. reflexivity.
  - rewrite H1. rewrite andb_false_r. reflexivity.
Qed.

Lemma proj_of_nonempty_src d k b iv l :
  proj_of d k b iv (filter (nonempty d) l) = proj_of d k b iv l.
Proof.
  unfold proj_of. rewrite map_retag_filter_ne, filter_filter.
  apply filter_ext. intros y. destruct (nonempty d y); destruct (in_iv iv (ycoord y)); reflexivity.
Qed.

Lemma spec_range_all d es :
  spec_range d None None es = filter (nonempty d) (indexed es).
Proof. unfold spec_range. apply filter_ext. intros y. reflexivity. Qed.

Lemma project_spec f k b iv sp :
  ssorted (map fst (f_es f)) = true ->
  wf_op1 f (OpProject k b iv sp) = true ->
  project f k b iv sp = Some (spec_project f k b iv).
Proof.
  intros Hs Hwf. cbn [wf_op1] in Hwf.
  apply andb_true_iff in Hwf. destruct Hwf as [Hk0 Hsp].
  unfold project, proj_source, proj_reversed, spec_project.
  fold (proj_of (f_d f) k b iv (if k <? 0 then rev (indexed (f_es f)) else spec_default_iter f)).
  destruct (k * 0 + b >? k * 1 + b) eqn:Erev.
  - (* decreasing map *)
    assert (Hk : k < 0) by lia.
    replace (k <? 0) with true by lia.
    destruct sp as [p|]; [apply andb_true_iff in Hsp; destruct Hsp as [Hsp _];
                          apply andb_true_iff in Hsp; lia|].
    f_equal. rewrite project_from_source.
    2:{ unfold lazy_occ. apply filter_sorted_key. apply images_reversed; assumption. }
    unfold lazy_occ. fold (nonempty (f_d f)). apply proj_of_nonempty_src.
  - assert (Hk : 0 < k) by lia.
    replace (k <? 0) with false by lia.
    destruct sp as [p|].
    + apply andb_true_iff in Hsp. destruct Hsp as [Hsp Hlegal].
      apply andb_true_iff in Hsp. destruct Hsp as [_ Hok]. rewrite Hok.
      unfold iter_dispatch, spec_default_iter. destruct (fmt_U f).
      * f_equal. unfold iter_range_shape. rewrite shape_loop_spec by exact Hs.
        apply project_from_source. apply images_forward; [exact Hk|].
        rewrite spec_shape_coords. apply zrange_sorted. lia.
      * cbn [legal_sp] in Hlegal.
        apply andb_true_iff in Hlegal. destruct Hlegal as [Hp Hpre].
        apply andb_true_iff in Hp. destruct Hp as [Hp0 Hplen].
        unfold iter_occupancy, iter_range. rewrite Hplen. f_equal.
        rewrite iter_range_loop_filter.
        2:{ rewrite <- skipn_map. apply ssorted_skipn. exact Hs. }
        assert (Hss : ssorted (map ycoord (indexed_from p (skipn (Z.to_nat p) (f_es f)))) = true).
        { rewrite indexed_from_coords. rewrite <- skipn_map. apply ssorted_skipn. exact Hs. }
        rewrite project_from_source.
        2:{ apply images_forward; [exact Hk|]. apply filter_sorted_key. exact Hss. }
        rewrite spec_range_all. rewrite proj_of_nonempty_src.
        replace (slice_pred (f_d f) None None) with (nonempty (f_d f)) by reflexivity.
        rewrite proj_of_nonempty_src.
        pose proof (indexed_from_app (firstn (Z.to_nat p) (f_es f))
                                     (skipn (Z.to_nat p) (f_es f)) 0) as Hsplit.
        rewrite firstn_skipn in Hsplit. unfold indexed. rewrite Hsplit.
        unfold proj_of at 2. rewrite map_app, filter_app.
        fold (proj_of (f_d f) k b iv (indexed_from 0 (firstn (Z.to_nat p) (f_es f)))).
        rewrite (proj_of_legal_prefix (f_d f) k b iv _ 0 Hpre). cbn [app].
        unfold proj_of. f_equal. f_equal. f_equal.
        unfold zlen in *. rewrite firstn_length. lia.
    + cbn [proj_sp_ok]. rewrite iter_dispatch_spec; [|exact Hs|cbn [legal_sp]; apply orb_true_r].
      f_equal. apply project_from_source.
      apply images_forward; [exact Hk|]. apply spec_default_iter_sorted. exact Hs.
Qed.

(* ascending order of the projected coordinates *)
Lemma spec_project_sorted f k b iv :
  ssorted (map fst (f_es f)) = true -> k <> 0 ->
  ssorted (map ycoord (spec_project f k b iv)) = true.
Proof.
  intros Hs Hk. unfold spec_project. apply filter_sorted_key.
  rewrite map_map.
  change (fun x => ycoord (retag k b x)) with (image k b).
  destruct (k <? 0) eqn:E.
  - apply images_reversed; [lia|exact Hs].
  - apply images_forward; [lia|]. apply spec_default_iter_sorted. exact Hs.
Qed.

(* ------------------------------------------------------------------ prune *)

Lemma prune_loop_spec P ys : forall i,
  prune_loop P i ys
  = map snd (filter (fun iy => P (fst iy) (ycoord (snd iy)) (ypay (snd iy))) (enumerate_from i ys)).
Proof.
  induction ys as [|y ys IH]; intros i; [reflexivity|].
  cbn [prune_loop enumerate_from filter fst snd].
  destruct (P i (ycoord y) (ypay y)); cbn [map snd]; rewrite IH; reflexivity.
Qed.

Lemma prune_spec f P sp :
  ssorted (map fst (f_es f)) = true ->
  match sp with
  | None => true
  | Some q => (0 <=? q) && (q <? zlen (f_es f)) &&
              (fmt_U f || legal_sp (f_d f) (f_es f) (below None) sp)
  end = true ->
  prune f P sp = Some (spec_prune f P).
Proof.
  intros Hs Hsp. unfold prune, prune_source, spec_prune.
  assert (Hsrc : iter_dispatch f sp = Some (spec_default_iter f)).
  { apply iter_dispatch_spec; [exact Hs|]. destruct sp as [q|]; [|apply orb_true_r].
    apply andb_true_iff in Hsp. tauto. }
  destruct sp as [q|].
  - apply andb_true_iff in Hsp. destruct Hsp as [Hq _].
    apply andb_true_iff in Hq. destruct Hq as [_ Hq]. rewrite Hq, Hsrc.
    f_equal. unfold lazy_occ. rewrite prune_loop_spec. reflexivity.
  - rewrite Hsrc. f_equal. unfold lazy_occ. rewrite prune_loop_spec. reflexivity.
Qed.

(* ------------------------------------------------------------------ statements for C07.v *)

Definition strip_y (y : yelem) : Z * tree := (ycoord y, ypay y).

Lemma iter_range_full f lo hi sp :
  ssorted (map fst (f_es f)) = true ->
  legal_sp (f_d f) (f_es f) (below lo) sp = true ->
  exists ys, iter_range f lo hi sp = Some ys /\
    map strip_y ys
    = filter (fun ct => in_range lo hi (fst ct) && negb (is_empty (f_d f) (snd ct))) (f_es f) /\
    ssorted (map ycoord ys) = true /\
    (forall y, In y ys -> nth_error (f_es f) (Z.to_nat (yorig y)) = Some (ycoord y, ypay y)).
Proof.
  intros Hs Hl. exists (spec_range (f_d f) lo hi (f_es f)).
  split; [apply iter_range_spec; assumption|].
  split; [apply spec_range_elems|].
  split; [apply spec_range_sorted; exact Hs|].
  intros y. apply spec_range_origin.
Qed.

Lemma spec_lookup_strip d es c :
  strip_y (spec_lookup (dflt d es) es c) = (c, val_at d es c).
Proof.
  unfold strip_y, val_at. destruct (spec_lookup_pay (dflt d es) es c) as [H1 H2].
  rewrite H1, H2. reflexivity.
Qed.

Lemma range_shape_full f lo hi step :
  ssorted (map fst (f_es f)) = true ->
  let ys := iter_range_shape f lo hi step in
  map strip_y ys = map (fun c => (c, val_at (f_d f) (f_es f) c)) (zrange lo hi step) /\
  (forall y, In y ys ->
     match lookup (ycoord y) (f_es f) with
     | Some t => nth_error (f_es f) (Z.to_nat (yorig y)) = Some (ycoord y, t)
     | None => yorig y = -1
     end).
Proof.
  intros Hs. cbn zeta. unfold iter_range_shape. rewrite shape_loop_spec by exact Hs.
  unfold spec_shape. split.
  - rewrite map_map. apply map_ext. intros c. apply spec_lookup_strip.
  - intros y Hin. apply in_map_iff in Hin. destruct Hin as [c [<- _]].
    destruct (spec_lookup_pay (dflt (f_d f) (f_es f)) (f_es f) c) as [_ Hc]. rewrite Hc.
    pose proof (spec_lookup_origin (dflt (f_d f) (f_es f)) (f_es f) c) as Ho.
    destruct (lookup c (f_es f)); tauto.
Qed.

Lemma range_shape_ref_full f lo hi step :
  ssorted (map fst (f_es f)) = true ->
  let r := iter_range_shape_ref f lo hi step in
  map strip_y (fst r) = map (fun c => (c, val_at (f_d f) (f_es f) c)) (zrange lo hi step) /\
  (forall y, In y (fst r) ->
     nth_error (snd r) (Z.to_nat (yorig y)) = Some (ycoord y, ypay y)).
Proof.
  intros Hs. cbn zeta. unfold iter_range_shape_ref. cbn [fst snd].
  set (cs := zrange lo hi step). set (d := f_d f). set (es := f_es f) in *.
  rewrite shape_ref_loop_post. rewrite shape_ref_loop_yields by exact Hs.
  unfold spec_shape_ref, spec_post. fold (post_of (dflt d es) es cs).
  assert (Hsp : ssorted (map fst (post_of (dflt d es) es cs)) = true)
    by (apply post_of_sorted; exact Hs).
  split.
  - rewrite map_map. apply map_ext. intros c.
    pose proof (spec_lookup_strip d (post_of (dflt d es) es cs) c) as H.
    rewrite dflt_post in H. rewrite H. f_equal.
    unfold val_at. rewrite lookup_post by exact Hs. rewrite dflt_post.
    destruct (lookup c es); [reflexivity|]. destruct (existsb (Z.eqb c) cs); reflexivity.
  - intros y Hin. apply in_map_iff in Hin. destruct Hin as [c [<- Hc]].
    pose proof (spec_lookup_origin (dflt d es) (post_of (dflt d es) es cs) c) as Ho.
    pose proof (spec_lookup_pay (dflt d es) (post_of (dflt d es) es cs) c) as [Hp Hcc].
    rewrite Hcc, Hp.
    assert (Hl : lookup c (post_of (dflt d es) es cs) <> None).
    { rewrite lookup_post by exact Hs. destruct (lookup c es); [discriminate|].
      assert (E : existsb (Z.eqb c) cs = true).
      { apply existsb_exists. exists c. split; [exact Hc|lia]. }
      rewrite E. discriminate. }
    destruct (lookup c (post_of (dflt d es) es cs)); [tauto|congruence].
Qed.

Lemma ref_post_full f lo hi step :
  ssorted (map fst (f_es f)) = true ->
  let post := snd (iter_range_shape_ref f lo hi step) in
  ssorted (map fst post) = true /\
  forall x, lookup x post
            = match lookup x (f_es f) with
              | Some t => Some t
              | None => if existsb (Z.eqb x) (zrange lo hi step)
                        then Some (dflt (f_d f) (f_es f)) else None
              end.
Proof.
  intros Hs. cbn zeta. unfold iter_range_shape_ref. cbn [snd].
  rewrite shape_ref_loop_post. unfold spec_post.
  fold (post_of (dflt (f_d f) (f_es f)) (f_es f) (zrange lo hi step)).
  split; [apply post_of_sorted; exact Hs|].
  intros x. apply lookup_post. exact Hs.
Qed.

Lemma dispatch_full f sp :
  ssorted (map fst (f_es f)) = true ->
  fmt_U f || legal_sp (f_d f) (f_es f) (below None) sp = true ->
  iter_dispatch f sp
  = if fmt_U f
    then Some (iter_range_shape f (fst (get_active f)) (snd (get_active f)) 1)
    else iter_range f None None None.
Proof.
  intros Hs Hl. unfold iter_dispatch. destruct (fmt_U f); [reflexivity|].
  cbn [orb] in Hl. unfold iter_occupancy. apply iter_range_start_pos; assumption.
Qed.

Lemma coiter_full d cs fs :
  all_sorted fs ->
  map (fun e => (fst e, map fst (snd e))) (co_loop d cs fs)
  = map (fun c => (c, map (fun es => val_at d es c) fs)) cs.
Proof.
  intros Hs. unfold co_loop. rewrite map_map. apply map_ext. intros c. cbn [fst snd].
  f_equal. rewrite map_map. apply map_ext_in. intros es Hin.
  unfold all_sorted in Hs. rewrite Forall_forall in Hs.
  apply get_payload_fst. auto.
Qed.

Lemma coiter_ref_full d cs fs :
  all_sorted fs ->
  co_ref_loop d cs fs
  = (map (fun c => (c, map (fun es => val_at d es c) fs)) cs,
     map (fun es => spec_post d es cs) fs).
Proof. intros Hs. apply co_ref_loop_0. exact Hs. Qed.

(* ------------------------------------------------------------------ project, compressed format,
   in terms of the stored element list *)

Lemma filter_rev' {A} (P : A -> bool) l : filter P (rev l) = rev (filter P l).
Proof.
  induction l as [|a l IH]; [reflexivity|].
  cbn [rev filter]. rewrite filter_app, IH. cbn [filter].
  destruct (P a); cbn [rev]; [reflexivity|]. apply app_nil_r.
Qed.

Lemma proj_of_indexed d k b iv es : forall i,
  map strip_y (proj_of d k b iv (indexed_from i es))
  = map (fun ct => (k * fst ct + b, snd ct))
        (filter (fun ct => in_iv iv (k * fst ct + b) && negb (is_empty d (snd ct))) es).
Proof.
  induction es as [|[c t] es IH]; intros i; [reflexivity|].
  unfold proj_of. cbn [indexed_from map filter fst snd].
  change (ycoord (retag k b (c, t, i))) with (k * c + b).
  change (nonempty d (retag k b (c, t, i))) with (negb (is_empty d t)).
  fold (proj_of d k b iv (indexed_from (i + 1) es)).
  destruct (in_iv iv (k * c + b) && negb (is_empty d t)); cbn [map]; rewrite IH; reflexivity.
Qed.

Lemma project_compressed f k b iv :
  fmt_U f = false ->
  map strip_y (spec_project f k b iv)
  = (if k <? 0 then @rev (Z * tree) else fun l => l)
      (map (fun ct => (k * fst ct + b, snd ct))
           (filter (fun ct => in_iv iv (k * fst ct + b) && negb (is_empty (f_d f) (snd ct)))
                   (f_es f))).
Proof.
  intros HU. unfold spec_project, spec_default_iter. rewrite HU.
  fold (proj_of (f_d f) k b iv
          (if k <? 0 then rev (indexed (f_es f)) else spec_range (f_d f) None None (f_es f))).
  destruct (k <? 0).
  - unfold proj_of. rewrite map_rev, filter_rev', map_rev.
    fold (proj_of (f_d f) k b iv (indexed (f_es f))). unfold indexed.
    rewrite proj_of_indexed. reflexivity.
  - rewrite spec_range_all, proj_of_nonempty_src. unfold indexed. apply proj_of_indexed.
Qed.

(* ------------------------------------------------------------------ Fiber.fromLazy *)

Lemma is_empty_content d t : is_empty d t = true -> content d t = [].
Proof.
  induction t as [v|es IH] using tree_ind'; intros He.
  - cbn [is_empty] in He. cbn [content]. rewrite He. reflexivity.
  - cbn [is_empty] in He. cbn [content].
    induction es as [|[c t] es IHes]; [reflexivity|].
    cbn [forallb snd] in He. apply andb_true_iff in He. destruct He as [H1 H2].
    inversion IH as [|? ? Ht IH']; subst. cbn [snd] in Ht.
    cbn [flat_map fst snd]. rewrite (Ht H1). cbn [map app]. apply IHes; assumption.
Qed.

Lemma coord2pos_above c l :
  Forall (fun x => x < c) (map fst l) -> coord2pos c l = length l.
Proof.
  induction l as [|[c' t] l IH]; intros H; [reflexivity|].
  cbn [map fst] in H. inversion H; subst. cbn [coord2pos length].
  destruct (c <=? c') eqn:E; [lia|]. f_equal. auto.
Qed.

Lemma Forall_skipn {A} (P : A -> Prop) n : forall l, Forall P l -> Forall P (skipn n l).
Proof.
  induction n as [|n IH]; intros l H; [exact H|].
  destruct l; [constructor|]. inversion H; subst. cbn [skipn]. auto.
Qed.

Lemma coord2pos_from_above p c es :
  Forall (fun x => x < c) (map fst es) -> (p <= length es)%nat ->
  coord2pos_from p c es = length es.
Proof.
  intros H Hp. unfold coord2pos_from. rewrite coord2pos_above.
  - rewrite skipn_length. lia.
  - rewrite <- skipn_map. apply Forall_skipn. exact H.
Qed.

Lemma coord_exists_beyond c es : coord_exists c (length es) es = None.
Proof.
  unfold coord_exists. replace (nth_error es (length es)) with (@None (Z * tree)); [reflexivity|].
  symmetry. apply nth_error_None. lia.
Qed.

Lemma insert_at_end {A} (x : A) l : insert_at (length l) x l = l ++ [x].
Proof. unfold insert_at. rewrite firstn_all, skipn_all. reflexivity. Qed.

Lemma set_nth_end {A} (x y : A) l : set_nth (length l) y (l ++ [x]) = l ++ [y].
Proof. induction l as [|a l IH]; [reflexivity|]. cbn [length app set_nth]. rewrite IH. reflexivity. Qed.

Lemma ins_above c t l :
  Forall (fun x => x < c) (map fst l) -> ins c t l = l ++ [(c, t)].
Proof.
  induction l as [|[c' t'] l IH]; intros H; [reflexivity|].
  cbn [map fst] in H. inversion H; subst. cbn [ins app].
  destruct (c <? c') eqn:E1; [lia|]. destruct (c =? c') eqn:E2; [lia|].
  rewrite IH by assumption. reflexivity.
Qed.

Lemma coord2pos_snoc c (x : tree) acc :
  Forall (fun y => y < c) (map fst acc) -> coord2pos c (acc ++ [(c, x)]) = length acc.
Proof.
  induction acc as [|[c' t'] acc IHa]; intros Habove.
  - cbn [app coord2pos]. replace (c <=? c) with true by lia. reflexivity.
  - cbn [map fst] in Habove. inversion Habove; subst. cbn [app coord2pos length].
    destruct (c <=? c') eqn:E; [lia|]. f_equal. auto.
Qed.

(* the inner loop of Fiber.__ilshift__ appends a copy of every non-empty element *)
Lemma ilshift_loop_spec cp d : forall l acc,
  ssorted (map fst l) = true ->
  (forall x y, In x (map fst acc) -> In y (map fst l) -> x < y) ->
  ilshift_loop cp d l acc
  = acc ++ map (fun ct => (fst ct, cp (snd ct)))
               (filter (fun ct => negb (is_empty d (snd ct))) l).
Proof.
  induction l as [|[c s] l IH]; intros acc Hs Hlt.
  - cbn [ilshift_loop filter map]. rewrite app_nil_r. reflexivity.
  - cbn [map fst] in Hs. apply ssorted_inv in Hs. destruct Hs as [Hs Hall].
    cbn [ilshift_loop filter snd].
    destruct (is_empty d s) eqn:He; cbn [negb].
    + apply IH; [exact Hs|]. intros x y Hx Hy. apply Hlt; [exact Hx|right; exact Hy].
    + assert (Habove : Forall (fun x => x < c) (map fst acc)).
      { apply Forall_forall. intros x Hx. apply Hlt; [exact Hx|left; reflexivity]. }
      rewrite get_payload_ref_ins, (ins_above c _ acc Habove).
      assert (Hpos : coord2pos c (acc ++ [(c, dflt d acc)]) = length acc)
        by (apply coord2pos_snoc; exact Habove).
      rewrite Hpos, set_nth_end.
      rewrite IH; [|exact Hs|].
      * rewrite <- app_assoc. reflexivity.
      * intros x y Hx Hy. rewrite map_app in Hx. apply in_app_or in Hx.
        destruct Hx as [Hx|Hx].
        -- apply Hlt; [exact Hx|right; exact Hy].
        -- cbn [map fst In] in Hx. destruct Hx as [<-|[]].
           rewrite Forall_forall in Hall. auto.
Qed.

Lemma assign_copy_node d es :
  ssorted (map fst es) = true ->
  assign_copy d (Node es)
  = Node (map (fun ct => (fst ct, assign_copy d (snd ct)))
              (filter (fun ct => negb (is_empty d (snd ct))) es)).
Proof.
  intros Hs. cbn [assign_copy]. rewrite ilshift_loop_spec; [reflexivity|exact Hs|].
  intros x y [].
Qed.

(* the copy has the content of the original (it only leaves out empty elements) *)
Lemma assign_copy_content d t :
  sorted_t t = true -> content d (assign_copy d t) = content d t.
Proof.
  induction t as [v|es IH] using tree_ind'; intros Hs; [reflexivity|].
  cbn [sorted_t] in Hs. apply andb_true_iff in Hs. destruct Hs as [Hs Hsub].
  rewrite assign_copy_node by exact Hs. cbn [content]. clear Hs.
  induction es as [|[c t] es IHes]; [reflexivity|].
  cbn [forallb snd] in Hsub. apply andb_true_iff in Hsub. destruct Hsub as [H1 H2].
  inversion IH as [|? ? Ht IH']; subst. cbn [snd] in Ht.
  cbn [filter snd]. destruct (is_empty d t) eqn:He; cbn [negb].
  - cbn [flat_map fst snd]. rewrite (is_empty_content d t He). cbn [map app]. auto.
  - cbn [map flat_map fst snd]. rewrite (Ht H1). f_equal. auto.
Qed.

Lemma assign_copy_keeps d t :
  sorted_t t = true -> is_empty d t = false ->
  match assign_copy d t with Node sub => Nat.eqb (length sub) O | Leaf v => v =? d end = false.
Proof.
  intros Hs He. destruct t as [v|es].
  - cbn [assign_copy is_empty] in *. exact He.
  - cbn [sorted_t] in Hs. apply andb_true_iff in Hs. destruct Hs as [Hs _].
    rewrite assign_copy_node by exact Hs. cbn [is_empty] in He.
    induction es as [|[c t] es IHes]; [discriminate|].
    cbn [forallb snd] in He. cbn [filter snd].
    destruct (is_empty d t) eqn:E; cbn [negb]; [|reflexivity].
    cbn [andb] in He. apply IHes; [|exact He].
    cbn [map fst] in Hs. apply ssorted_inv in Hs. tauto.
Qed.

(* the populate generator on the fresh destination appends one copy per offered element *)
Lemma from_lazy_loop_spec d dt : forall b es a_pos,
  ssorted (map fst b) = true ->
  (forall x y, In x (map fst es) -> In y (map fst b) -> x < y) ->
  a_pos = length es ->
  Forall (fun ct => sorted_t (snd ct) = true /\ is_empty d (snd ct) = false) b ->
  from_lazy_loop d dt b es a_pos
  = es ++ map (fun ct => (fst ct, assign_copy d (snd ct))) b.
Proof.
  induction b as [|[c bp] b IH]; intros es a_pos Hs Hlt Hpos Hall.
  - cbn [from_lazy_loop map]. rewrite app_nil_r. reflexivity.
  - cbn [map fst] in Hs. apply ssorted_inv in Hs. destruct Hs as [Hs Hb].
    inversion Hall as [|? ? [Hst Hne] Hall']; subst. cbn [snd] in Hst, Hne.
    assert (Habove : Forall (fun x => x < c) (map fst es)).
    { apply Forall_forall. intros x Hx. apply Hlt; [exact Hx|left; reflexivity]. }
    cbn [from_lazy_loop].
    set (a_pos1 := match es with [] => length es | _ :: _ => coord2pos_from (length es) c es end).
    assert (Ha1 : a_pos1 = length es).
    { unfold a_pos1. destruct es; [reflexivity|]. apply coord2pos_from_above; [exact Habove|lia]. }
    rewrite Ha1. clear a_pos1 Ha1.
    rewrite coord_exists_beyond.
    set (idx := match match es with
                      | [] => None
                      | _ :: _ => match length es with O => None | S p => Some p end
                      end with
                | None => coord2pos c es
                | Some p => coord2pos_from p c es
                end).
    assert (Hidx : idx = length es).
    { unfold idx. destruct es as [|e es']; [reflexivity|].
      cbn [length]. apply coord2pos_from_above; [exact Habove|cbn [length]; lia]. }
    rewrite Hidx. clear idx Hidx.
    rewrite coord_exists_beyond. cbn [negb andb].
    rewrite insert_at_end, set_nth_end.
    pose proof (assign_copy_keeps d bp Hst Hne) as Hk.
    rewrite Hk.
    rewrite IH; auto.
    + rewrite <- app_assoc. reflexivity.
    + intros x y Hx Hy. rewrite map_app in Hx. apply in_app_or in Hx. destruct Hx as [Hx|Hx].
      * apply Hlt; [exact Hx|right; exact Hy].
      * cbn [map fst In] in Hx. destruct Hx as [<-|[]]. rewrite Forall_forall in Hb. auto.
    + rewrite app_length. cbn [length]. lia.
Qed.

Lemma content_node_copy d b :
  Forall (fun ct => sorted_t (snd ct) = true) b ->
  content d (Node (map (fun ct => (fst ct, assign_copy d (snd ct))) b)) = content d (Node b).
Proof.
  intros H. cbn [content]. induction b as [|[c t] b IH]; [reflexivity|].
  inversion H; subst. cbn [map flat_map fst snd] in *.
  rewrite assign_copy_content by assumption. f_equal. auto.
Qed.

(* Fiber.fromLazy materialises the yielded list: an eager fiber with the same coordinates, each
   payload a copy without empty elements — hence with the content of the yielded list *)
Lemma from_lazy_spec d dt ys :
  ssorted (map ycoord ys) = true ->
  Forall (fun y => sorted_t (ypay y) = true /\ is_empty d (ypay y) = false) ys ->
  from_lazy d dt ys = map (fun y => (ycoord y, assign_copy d (ypay y))) ys
  /\ content d (Node (from_lazy d dt ys)) = content d (Node (map strip_y ys)).
Proof.
  intros Hs Hall.
  assert (H1 : from_lazy d dt ys = map (fun ct => (fst ct, assign_copy d (snd ct))) (map strip_y ys)).
  { unfold from_lazy. fold strip_y. rewrite from_lazy_loop_spec; [reflexivity| | |reflexivity|].
    - rewrite map_map. exact Hs.
    - intros x y [].
    - apply Forall_forall. intros ct Hin. apply in_map_iff in Hin. destruct Hin as [y [<- Hy]].
      rewrite Forall_forall in Hall. apply (Hall y Hy). }
  split.
  - rewrite H1, map_map. reflexivity.
  - rewrite H1. apply content_node_copy.
    apply Forall_forall. intros ct Hin. apply in_map_iff in Hin. destruct Hin as [y [<- Hy]].
    rewrite Forall_forall in Hall. apply (Hall y Hy).
Qed.

(* ---- what project / prune yield is fit for fromLazy: ascending, non-empty, sorted payloads *)

Definition pay_sorted (es : fib) : Prop := Forall (fun ct => sorted_t (snd ct) = true) es.

Lemma indexed_from_In es : forall i y, In y (indexed_from i es) -> In (ycoord y, ypay y) es.
Proof.
  induction es as [|[c t] es IH]; intros i y Hin; [destruct Hin|].
  cbn [indexed_from In] in Hin. destruct Hin as [<-|Hin]; [left; reflexivity|right; eauto].
Qed.

Lemma default_iter_pay f y :
  pay_sorted (f_es f) -> In y (spec_default_iter f) -> sorted_t (ypay y) = true.
Proof.
  intros Hp Hin. unfold pay_sorted in Hp. rewrite Forall_forall in Hp.
  unfold spec_default_iter in Hin. destruct (fmt_U f).
  - unfold spec_shape in Hin. apply in_map_iff in Hin. destruct Hin as [c [<- _]].
    unfold spec_lookup, spec_find.
    destruct (find (fun y => ycoord y =? c) (indexed (f_es f))) as [y0|] eqn:E.
    + apply find_some in E. destruct E as [E _]. apply indexed_from_In in E.
      apply (Hp _ E).
    + cbn [ypay fst snd]. destruct (f_es f) as [|[c0 [v|sub]] r]; reflexivity.
  - unfold spec_range in Hin. apply filter_In in Hin. destruct Hin as [Hin _].
    apply indexed_from_In in Hin. apply (Hp _ Hin).
Qed.

Lemma spec_project_fit f k b iv :
  pay_sorted (f_es f) ->
  Forall (fun y => sorted_t (ypay y) = true /\ is_empty (f_d f) (ypay y) = false)
         (spec_project f k b iv).
Proof.
  intros Hp. apply Forall_forall. intros y Hin. unfold spec_project in Hin.
  apply filter_In in Hin. destruct Hin as [Hin Hf].
  apply andb_true_iff in Hf. destruct Hf as [_ Hne]. unfold nonempty in Hne.
  split; [|destruct (is_empty (f_d f) (ypay y)); [discriminate|reflexivity]].
  apply in_map_iff in Hin. destruct Hin as [y0 [<- Hy0]].
  change (ypay (retag k b y0)) with (ypay y0).
  destruct (k <? 0).
  - apply in_rev in Hy0. apply indexed_from_In in Hy0.
    unfold pay_sorted in Hp. rewrite Forall_forall in Hp. apply (Hp _ Hy0).
  - apply (default_iter_pay f y0 Hp Hy0).
Qed.

Lemma enumerate_from_In ys : forall i iy, In iy (enumerate_from i ys) -> In (snd iy) ys.
Proof.
  induction ys as [|y ys IH]; intros i iy Hin; [destruct Hin|].
  cbn [enumerate_from In] in Hin. destruct Hin as [<-|Hin]; [left; reflexivity|right; eauto].
Qed.

Lemma spec_prune_fit f P :
  pay_sorted (f_es f) ->
  Forall (fun y => sorted_t (ypay y) = true /\ is_empty (f_d f) (ypay y) = false)
         (spec_prune f P).
Proof.
  intros Hp. apply Forall_forall. intros y Hin. unfold spec_prune in Hin.
  apply filter_In in Hin. destruct Hin as [Hin Hne]. unfold nonempty in Hne.
  split; [|destruct (is_empty (f_d f) (ypay y)); [discriminate|reflexivity]].
  apply in_map_iff in Hin. destruct Hin as [iy [<- Hiy]].
  apply filter_In in Hiy. destruct Hiy as [Hiy _]. apply enumerate_from_In in Hiy.
  apply (default_iter_pay f _ Hp Hiy).
Qed.

Lemma enumerate_from_snd ys : forall i, map snd (enumerate_from i ys) = ys.
Proof. induction ys as [|y ys IH]; intros i; cbn [enumerate_from map snd]; [reflexivity|]. rewrite IH. reflexivity. Qed.

Lemma spec_prune_sorted f P :
  ssorted (map fst (f_es f)) = true -> ssorted (map ycoord (spec_prune f P)) = true.
Proof.
  intros Hs. unfold spec_prune. apply filter_sorted_key.
  rewrite map_map.
  apply (filter_sorted_key (fun iy : Z * yelem => ycoord (snd iy))).
  rewrite <- (map_map snd ycoord). rewrite enumerate_from_snd.
  apply spec_default_iter_sorted. exact Hs.
Qed.

(* ------------------------------------------------------------------ windows over a projection *)

Lemma lazy_range_above d lo hi ys z :
  ge_hi hi z = true -> Forall (fun x => z < x) (map ycoord ys) ->
  filter (fun y => in_range lo hi (ycoord y) && nonempty d y) ys = [].
Proof.
  intros Hz. induction ys as [|y ys IH]; intros Hall; [reflexivity|].
  cbn [map] in Hall. inversion Hall; subst. cbn [filter].
  assert (Hge : ge_hi hi (ycoord y) = true).
  { unfold ge_hi in *. destruct hi; [lia|discriminate]. }
  unfold in_range. rewrite Hge, andb_false_r. cbn [andb]. auto.
Qed.

Lemma lazy_range_loop_filter d lo hi ys :
  ssorted (map ycoord ys) = true ->
  lazy_range_loop d lo hi ys = filter (fun y => in_range lo hi (ycoord y) && nonempty d y) ys.
Proof.
  induction ys as [|y ys IH]; intros Hs; [reflexivity|].
  cbn [map] in Hs. apply ssorted_inv in Hs. destruct Hs as [Hs Hall].
  cbn [lazy_range_loop filter]. unfold in_range at 1, nonempty at 1.
  destruct (ge_hi hi (ycoord y)) eqn:Hge.
  - rewrite andb_false_r. cbn [andb]. symmetry.
    apply (lazy_range_above d lo hi ys (ycoord y)); assumption.
  - destruct (in_lo lo (ycoord y)); cbn [andb negb].
    + destruct (is_empty d (ypay y)); cbn [negb]; rewrite IH by exact Hs; reflexivity.
    + apply IH. exact Hs.
Qed.

Lemma proj_source_none f k b iv :
  ssorted (map fst (f_es f)) = true -> k <> 0 ->
  exists src, proj_source f k b iv None = Some src /\
              ssorted (map (image k b) src) = true /\
              proj_of (f_d f) k b iv src = spec_project f k b iv.
Proof.
  intros Hs Hk. unfold proj_source, proj_reversed, spec_project.
  fold (proj_of (f_d f) k b iv (if k <? 0 then rev (indexed (f_es f)) else spec_default_iter f)).
  destruct (k * 0 + b >? k * 1 + b) eqn:Erev.
  - replace (k <? 0) with true by lia. eexists. split; [reflexivity|]. split.
    + unfold lazy_occ. apply filter_sorted_key. apply images_reversed; [lia|exact Hs].
    + unfold lazy_occ. fold (nonempty (f_d f)). apply proj_of_nonempty_src.
  - replace (k <? 0) with false by lia. cbn [proj_sp_ok].
    rewrite iter_dispatch_spec; [|exact Hs|cbn [legal_sp]; apply orb_true_r].
    eexists. split; [reflexivity|]. split; [|reflexivity].
    apply images_forward; [lia|]. apply spec_default_iter_sorted. exact Hs.
Qed.

Lemma project_window_spec f k b iv lo hi :
  ssorted (map fst (f_es f)) = true -> k <> 0 ->
  project_window f k b iv lo hi
  = Some (filter (fun y => in_range lo hi (ycoord y)) (spec_project f k b iv)).
Proof.
  intros Hs Hk. unfold project_window.
  destruct (proj_source_none f k b iv Hs Hk) as [src [Hsrc [Himg Hproj]]].
  rewrite Hsrc. f_equal. rewrite <- Hproj. unfold proj_of.
  rewrite proj_loop_filter by exact Himg.
  rewrite lazy_range_loop_filter.
  2:{ apply filter_sorted_key. rewrite map_map.
      change (fun x => ycoord (retag k b x)) with (image k b). exact Himg. }
  rewrite !filter_filter. apply filter_ext. intros y.
  destruct (in_iv iv (ycoord y)); destruct (in_range lo hi (ycoord y));
    destruct (nonempty (f_d f) y); reflexivity.
Qed.

(* ------------------------------------------------------------------ owned fibers *)

Lemma dispatch_owned f u sp :
  ssorted (map fst (f_es f)) = true ->
  f_owner f = Some u ->
  u || legal_sp (f_d f) (f_es f) (below None) sp = true ->
  iter_dispatch f sp
  = if u
    then Some (iter_range_shape f (fst (get_active f)) (snd (get_active f)) 1)
    else iter_range f None None None.
Proof.
  intros Hs Ho Hl.
  assert (Hf : fmt_U f = u) by (unfold fmt_U; rewrite Ho; reflexivity).
  rewrite <- Hf in *. apply dispatch_full; assumption.
Qed.

(* ------------------------------------------------------------------ histories (grow, then traverse) *)

Lemma ins_pay_sorted c t es : sorted_t t = true -> pay_sorted es -> pay_sorted (ins c t es).
Proof.
  intros Ht. unfold pay_sorted. induction es as [|[c' t'] es IH]; intros H.
  - cbn [ins]. constructor; [exact Ht|constructor].
  - cbn [ins]. destruct (c <? c'); [constructor; [exact Ht|exact H]|].
    destruct (c =? c'); [exact H|]. inversion H; subst. constructor; auto.
Qed.

Lemma post_of_pay_sorted dt cs : forall es,
  sorted_t dt = true -> pay_sorted es -> pay_sorted (post_of dt es cs).
Proof.
  induction cs as [|c cs IH]; intros es Ht H; [exact H|].
  cbn [post_of fold_left]. apply IH; [exact Ht|]. apply ins_pay_sorted; assumption.
Qed.

Lemma dflt_sorted d es : sorted_t (dflt d es) = true.
Proof. destruct es as [|[c [v|sub]] r]; reflexivity. Qed.

Lemma history_full f lo hi step :
  ssorted (map fst (f_es f)) = true -> pay_sorted (f_es f) ->
  let f' := set_es f (snd (iter_range_shape_ref f lo hi step)) in
  f_es f' = spec_post (f_d f) (f_es f) (zrange lo hi step) /\
  ssorted (map fst (f_es f')) = true /\ pay_sorted (f_es f') /\
  get_active f' = match f_active f with
                  | Some a => a
                  | None => (0, match f_shape f with
                                | Some s => if s =? 0 then est_shape (f_es f') else s
                                | None => est_shape (f_es f')
                                end)
                  end.
Proof.
  intros Hs Hp. cbn zeta. unfold iter_range_shape_ref. cbn [snd set_es f_es].
  rewrite shape_ref_loop_post. unfold spec_post.
  fold (post_of (dflt (f_d f) (f_es f)) (f_es f) (zrange lo hi step)).
  split; [reflexivity|]. split; [apply post_of_sorted; exact Hs|].
  split; [apply post_of_pay_sorted; [apply dflt_sorted|exact Hp]|reflexivity].
Qed.
