(* C04CheckP.v — the faithful model's observation satisfies the truth-table oracle
   (Model/C04Check.v). *)
From Coq Require Import ZArith List Bool Lia Sorted.
From FT Require Import Model.Base Model.Obs Model.C04Coiter Model.C04Check
                       Proofs.ObsP Proofs.C04CoiterP Proofs.C04LexP Proofs.C04StreamP.
Import ListNotations.
Open Scope Z_scope.

(* ------------------------------------------------------------------ encodings *)

Definition origin_matches (e : eorigin) (o : origin) : Prop :=
  match e, o with
  | EPos i, Pos j => i = j
  | EFresh d, Fresh t => is_empty d t = true
  | _, _ => False
  end.

Lemma v_empty_tree d t : v_empty d (V_tree t) = is_empty d t.
Proof.
  induction t as [v|es IH] using tree_ind'; [reflexivity|].
  cbn [V_tree v_empty is_empty]. induction es as [|[c s] es IHes]; [reflexivity|].
  inversion IH as [|? ? Hs Hes]; subst. cbn [map forallb fst snd].
  cbn [snd] in Hs. rewrite Hs, (IHes Hes). reflexivity.
Qed.

Lemma origin_ok_enc e o : origin_matches e o -> origin_ok e (V_origin o) = true.
Proof.
  destruct e as [i|d], o as [j|t]; cbn [origin_matches V_origin origin_ok Vn]; try contradiction.
  - intros ->. apply Z.eqb_refl.
  - intros H. rewrite v_empty_tree. exact H.
Qed.

Lemma origins_ok_enc es os :
  Forall2 origin_matches es os -> origins_ok es (map V_origin os) = true.
Proof.
  induction 1 as [|e o es os H _ IH]; [reflexivity|].
  cbn [map origins_ok]. rewrite (origin_ok_enc _ _ H), IH. reflexivity.
Qed.

Lemma dec_zs_enc c : dec_zs (map VZ c) = Some c.
Proof. induction c as [|z c IH]; [reflexivity|]. cbn [map dec_zs]. rewrite IH. reflexivity. Qed.

Definition dec_of (it : item) : coord * Z * list V :=
  (fst (fst it), snd (fst it), map V_origin (snd it)).

Lemma dec_items_enc its : dec_items (Vl V_item its) = Some (map dec_of its).
Proof.
  unfold Vl, dec_items. induction its as [|[[c m] os] its IH]; [reflexivity|].
  cbn [map opt_all]. unfold V_item at 1, dec_item at 1. cbn [fst snd V_coord Vl].
  rewrite dec_zs_enc. rewrite IH. reflexivity.
Qed.

Lemma mem_In c l : mem c l = true <-> In c l.
Proof.
  unfold mem. rewrite existsb_exists. split.
  - intros [x [Hin E]]. apply lex_eqb_spec in E. subst. exact Hin.
  - intros H. exists c. split; [exact H|apply lex_eqb_refl].
Qed.

(* ------------------------------------------------------------------ the glue *)

(* a strictly ascending keyed list whose entry at every coordinate is what the truth table
   says passes the check *)
Lemma check_items_keyed {W} (mk : W -> Z * list origin) exp_at univ (R : list (coord * W)) :
  lsorted R ->
  (forall c, match llookup c R with
             | Some w => exists m es, exp_at c = Some (m, es) /\ fst (mk w) = m
                                      /\ Forall2 origin_matches es (snd (mk w))
             | None => exp_at c = None
             end) ->
  check_items exp_at univ
    (Vl V_item (map (fun x => (fst x, fst (mk (snd x)), snd (mk (snd x)))) R)) = true.
Proof.
  intros Hs Hb. unfold check_items. rewrite dec_items_enc.
  rewrite !map_map. cbn [dec_of fst snd].
  assert (Ek : map (fun x : coord * W => fst x) R = map fst R) by reflexivity.
  rewrite Ek.
  rewrite (SS_lex_sorted _ Hs). cbn [andb].
  apply andb_true_iff. split.
  - rewrite forallb_forall. intros it Hin. apply in_map_iff in Hin.
    destruct Hin as [[c w] [<- Hin]]. cbn [fst snd].
    pose proof (Hb c) as Hc. unfold llookup in Hc.
    rewrite (In_alookup lex_eqb lex_ltb lex_eqb_spec lex_ltb_irrefl c w R Hs Hin) in Hc.
    unfold dec_of. cbn [fst snd].
    destruct Hc as [m [es [-> [Em HF]]]]. rewrite Em, Z.eqb_refl. cbn [andb].
    apply origins_ok_enc. exact HF.
  - rewrite forallb_forall. intros c _. pose proof (Hb c) as Hc.
    destruct (exp_at c) as [[m es]|] eqn:E; [|reflexivity].
    apply mem_In. apply (alookup_keys lex_eqb lex_eqb_spec).
    fold (llookup c R). destruct (llookup c R); [discriminate|congruence].
Qed.

(* ------------------------------------------------------------------ operand facts *)

Lemma op_default_empty o : is_empty (o_d o) (op_default o) = true.
Proof.
  unfold op_default. destruct (o_owned o).
  - destruct (o_depth o) as [|[|n]]; cbn [is_empty forallb]; try apply Z.eqb_refl; reflexivity.
  - destruct (o_es o) as [|[c [v|es]] l]; cbn [is_empty forallb]; try apply Z.eqb_refl; reflexivity.
Qed.

Lemma expect_matches o c : origin_matches (expect o c) (origin_of o c).
Proof.
  unfold expect, origin_of. destruct (index_of c (keys o)); cbn [origin_matches];
    [reflexivity|apply op_default_empty].
Qed.

Lemma absent_matches o : origin_matches (absent o) (Fresh (op_default o)).
Proof. apply op_default_empty. Qed.

(* ------------------------------------------------------------------ binary operators *)

Lemma or_holds a b :
  wf_operand a = true -> wf_operand b = true ->
  check_items (exp_or a b) (universe a ++ universe b) (Vl V_item (m_or a b)) = true.
Proof.
  intros Ha Hb. destruct (stream_spec a Ha) as [SA LA]. destruct (stream_spec b Hb) as [SB LB].
  destruct (or_merge_correct lex_eqb lex_ltb lex_eqb_spec lex_ltb_irrefl lex_ltb_trans lex_ltb_total
              (Fresh (op_default a)) (Fresh (op_default b)) (stream a) (stream b) SA SB) as [RS RL].
  unfold m_or, items3.
  apply (check_items_keyed (fun w => (fst w, [fst (snd w); snd (snd w)]))); [exact RS|].
  intros c. unfold llookup. rewrite RL. fold (llookup c (stream a)). fold (llookup c (stream b)).
  rewrite LA, LB. unfold exp_or.
  destruct (present a c), (present b c); cbn [orb fst snd].
  - exists 3, [expect a c; expect b c]. repeat split.
    constructor; [apply expect_matches|]. constructor; [apply expect_matches|constructor].
  - exists 1, [expect a c; absent b]. repeat split.
    constructor; [apply expect_matches|]. constructor; [apply absent_matches|constructor].
  - exists 2, [absent a; expect b c]. repeat split.
    constructor; [apply absent_matches|]. constructor; [apply expect_matches|constructor].
  - reflexivity.
Qed.

Lemma xor_holds a b :
  wf_operand a = true -> wf_operand b = true ->
  check_items (exp_xor a b) (universe a ++ universe b) (Vl V_item (m_xor a b)) = true.
Proof.
  intros Ha Hb. destruct (stream_spec a Ha) as [SA LA]. destruct (stream_spec b Hb) as [SB LB].
  destruct (xor_merge_correct lex_eqb lex_ltb lex_eqb_spec lex_ltb_irrefl lex_ltb_trans lex_ltb_total
              (Fresh (op_default a)) (Fresh (op_default b)) (stream a) (stream b) SA SB) as [RS RL].
  unfold m_xor, items3.
  apply (check_items_keyed (fun w => (fst w, [fst (snd w); snd (snd w)]))); [exact RS|].
  intros c. unfold llookup. rewrite RL. fold (llookup c (stream a)). fold (llookup c (stream b)).
  rewrite LA, LB. unfold exp_xor.
  destruct (present a c), (present b c); cbn [xorb fst snd].
  - reflexivity.
  - exists 1, [expect a c; absent b]. repeat split.
    constructor; [apply expect_matches|]. constructor; [apply absent_matches|constructor].
  - exists 2, [absent a; expect b c]. repeat split.
    constructor; [apply absent_matches|]. constructor; [apply expect_matches|constructor].
  - reflexivity.
Qed.

Lemma present_constrained o c : present o c = true -> constrained o = true.
Proof.
  unfold present, constrained. destruct (o_U o); [reflexivity|].
  destruct (o_es o); [discriminate|reflexivity].
Qed.

Lemma stream_head o c og r :
  wf_operand o = true -> stream o = (c, og) :: r -> present o c = true.
Proof.
  intros Hwf E. destruct (stream_spec o Hwf) as [_ L]. specialize (L c).
  rewrite E in L. unfold llookup in L. cbn [alookup] in L. rewrite lex_eqb_refl in L.
  destruct (present o c); [reflexivity|discriminate].
Qed.

Lemma and_op_merge {P Q} (sa : list (coord * P)) (sb : list (coord * Q)) :
  sa = [] \/ sb = [] \/ arity sa = arity sb ->
  and_op sa sb = and_merge lex_eqb lex_ltb sa sb.
Proof.
  intros H. unfold and_op.
  destruct (Nat.eqb (arity sa) (arity sb)) eqn:E; [reflexivity|].
  destruct H as [->|[->|H]].
  - destruct sb as [|[? ?] ?]; destruct (Nat.ltb _ _); reflexivity.
  - destruct sa as [|[? ?] ?]; destruct (Nat.ltb _ _); reflexivity.
  - apply Nat.eqb_neq in E. contradiction.
Qed.

Lemma and_holds a b :
  wf_operand a = true -> wf_operand b = true ->
  (constrained a = true -> constrained b = true -> op_arity a = op_arity b) ->
  check_items (exp_and a b) (universe a ++ universe b) (Vl V_item (m_and a b)) = true.
Proof.
  intros Ha Hb Heq. destruct (stream_spec a Ha) as [SA LA]. destruct (stream_spec b Hb) as [SB LB].
  unfold m_and. rewrite and_op_merge.
  2:{ destruct (stream a) as [|[ca oa] ra] eqn:Ea; [left; reflexivity|].
      destruct (stream b) as [|[cb ob] rb] eqn:Eb; [right; left; reflexivity|].
      right. right. cbn [arity].
      pose proof (stream_head a ca oa ra Ha Ea) as Pa.
      pose proof (stream_head b cb ob rb Hb Eb) as Pb.
      rewrite (present_arity a ca Ha Pa), (present_arity b cb Hb Pb).
      apply Heq; eapply present_constrained; eassumption. }
  destruct (and_merge_correct lex_eqb lex_ltb lex_eqb_spec lex_ltb_irrefl lex_ltb_trans lex_ltb_total
              (stream a) (stream b) SA SB) as [RS RL].
  unfold items2.
  apply (check_items_keyed (fun w => (0, [fst w; snd w]))); [exact RS|].
  intros c. unfold llookup. rewrite RL. fold (llookup c (stream a)). fold (llookup c (stream b)).
  rewrite LA, LB.
  assert (Hboth : present a c = true -> present b c = true ->
                  exp_and a b c = Some (0, [expect a c; expect b c])).
  { intros Pa Pb. unfold exp_and.
    pose proof (present_arity a c Ha Pa) as La. pose proof (present_arity b c Hb Pb) as Lb.
    rewrite <- La, <- Lb, Nat.max_id, Nat.eqb_refl, firstn_all, Pa, Pb. reflexivity. }
  assert (Hnone : present a c && present b c = false -> exp_and a b c = None).
  { intros Hf. unfold exp_and.
    destruct (Nat.eqb (length c) (Nat.max (op_arity a) (op_arity b))) eqn:El; [|reflexivity].
    destruct (present a (firstn (op_arity a) c)) eqn:Pa; [|reflexivity].
    destruct (present b (firstn (op_arity b) c)) eqn:Pb; [|reflexivity].
    exfalso. apply Nat.eqb_eq in El.
    pose proof (Heq (present_constrained _ _ Pa) (present_constrained _ _ Pb)) as En.
    rewrite <- En, Nat.max_id in El. rewrite <- En in Pb. rewrite <- El, firstn_all in Pa, Pb.
    rewrite Pa, Pb in Hf. discriminate. }
  destruct (present a c) eqn:Pa, (present b c) eqn:Pb.
  - exists 0, [expect a c; expect b c]. split; [apply Hboth; reflexivity|]. split; [reflexivity|].
    cbn [fst snd]. constructor; [apply expect_matches|]. constructor; [apply expect_matches|constructor].
  - apply Hnone. reflexivity.
  - apply Hnone. reflexivity.
  - apply Hnone. reflexivity.
Qed.

Lemma iter_occ_nonempty d es : forall j c og,
  In (c, og) (iter_occ d es j) ->
  exists i p, og = Pos (j + i) /\ nth_error es i = Some (c, p) /\ is_empty d p = false.
Proof.
  induction es as [|[c' p'] es IH]; intros j c og Hin; [contradiction|].
  cbn [iter_occ] in Hin. destruct (is_empty d p') eqn:E.
  - destruct (IH _ _ _ Hin) as [i [p [-> [Hn He]]]].
    exists (S i), p. rewrite Nat.add_succ_r. repeat split; assumption.
  - destruct Hin as [Hin|Hin].
    + inversion Hin; subst. exists O, p'. rewrite Nat.add_0_r. repeat split. exact E.
    + destruct (IH _ _ _ Hin) as [i [p [-> [Hn He]]]].
      exists (S i), p. rewrite Nat.add_succ_r. repeat split; assumption.
Qed.

Lemma filter_all {A} (f : A -> bool) l : (forall x, In x l -> f x = true) -> filter f l = l.
Proof.
  induction l as [|x l IH]; intros H; [reflexivity|]. cbn [filter].
  rewrite (H x (or_introl eq_refl)), IH; [reflexivity|]. intros y Hy. apply H. right. exact Hy.
Qed.

(* a - b, a's rank compressed (for an uncompressed a see the known finding, region 1) *)
Lemma sub_holds a b :
  wf_operand a = true -> wf_operand b = true -> o_U a = false ->
  check_items (exp_sub a b) (universe a) (Vl V_item (m_sub a b)) = true.
Proof.
  intros Ha Hb HU. destruct (stream_spec a Ha) as [SA LA]. destruct (stream_spec b Hb) as [SB LB].
  destruct (sub_merge_correct lex_eqb lex_ltb lex_eqb_spec lex_ltb_irrefl lex_ltb_trans lex_ltb_total
              (stream a) (stream b) SA SB) as [RS RL].
  unfold m_sub. rewrite filter_all.
  2:{ intros [c og] Hin. cbn [snd].
      pose proof (In_alookup lex_eqb lex_ltb lex_eqb_spec lex_ltb_irrefl c og _ RS Hin) as L.
      rewrite RL in L.
      destruct (alookup lex_eqb c (stream a)) as [p|] eqn:Ea; [|discriminate].
      destruct (alookup lex_eqb c (stream b)); [discriminate|]. inversion L; subst p.
      apply alookup_In in Ea; [|exact lex_eqb_spec].
      unfold stream in Ea. rewrite HU in Ea.
      destruct (iter_occ_nonempty _ _ _ _ _ Ea) as [i [p [-> [Hn He]]]].
      cbn [origin_empty Nat.add]. rewrite Hn, He. reflexivity. }
  unfold items1.
  apply (check_items_keyed (fun w => (0, [w]))); [exact RS|].
  intros c. unfold llookup. rewrite RL. fold (llookup c (stream a)). fold (llookup c (stream b)).
  rewrite LA, LB. unfold exp_sub.
  destruct (present a c), (present b c); cbn [andb negb]; try reflexivity.
  exists 0, [expect a c]. repeat split. cbn [snd]. constructor; [apply expect_matches|constructor].
Qed.

(* ------------------------------------------------------------------ the case level *)

Lemma wf_case_ops c :
  wf_case c = true ->
  In (op_a c) (k_ops c) /\ In (op_b c) (k_ops c)
  /\ forall o, In o (k_ops c) -> wf_operand o = true.
Proof.
  unfold wf_case. intros H.
  apply andb_true_iff in H. destruct H as [H _].
  apply andb_true_iff in H. destruct H as [Hall Hlen].
  apply Nat.leb_le in Hlen. rewrite forallb_forall in Hall.
  split; [apply nth_In; lia|]. split; [apply nth_In; lia|]. exact Hall.
Qed.

Lemma wf_case_arity c :
  wf_case c = true -> k_mixed c = false ->
  forall o o', In o (k_ops c) -> In o' (k_ops c) ->
  constrained o = true -> constrained o' = true -> op_arity o = op_arity o'.
Proof.
  unfold wf_case. intros H Hm. rewrite Hm in H.
  apply andb_true_iff in H. destruct H as [_ H]. rewrite forallb_forall in H.
  intros o o' Ho Ho' Co Co'.
  pose proof (H _ Ho) as A. pose proof (H _ Ho') as B. rewrite Co in A. rewrite Co' in B.
  apply Nat.eqb_eq in A. apply Nat.eqb_eq in B. congruence.
Qed.

Lemma holds_pure_model ops :
  holds_pure ops (Vb true) (Vl V_snap ops) (Vl V_snap ops)
             (Vl (fun o => Vl VZ (rank_counts o)) ops) (Vl (fun o => Vl VZ (rank_counts o)) ops)
  = true.
Proof. unfold holds_pure. rewrite !V_eqb_refl. reflexivity. Qed.
