(* Proofs tying Model/FormatCheck.v (the executable C18 oracle) to Proofs/FormatP.v. *)
From Coq Require Import ZArith List Bool Lia.
From FT Require Import Model.Base Model.Obs Model.Format Model.FormatCheck
                       Proofs.ObsP Proofs.FormatP.
Import ListNotations.
Open Scope Z_scope.

Lemma get_subtree_spec d rs es pt :
  get_subtree d rs es pt = spec_subtree d rs es pt.
Proof.
  unfold get_subtree, spec_subtree.
  destruct (Nat.eqb (length pt) (length rs)); [reflexivity|].
  destruct (descend rs es pt) as [[rs' es']|]; [|reflexivity].
  destruct rs' as [|r rs'']; [reflexivity|].
  apply get_subtree_loop. discriminate.
Qed.

Lemma subtree_whole d root rs es :
  rs <> [] ->
  forallb (fun r => negb (isU (fst r))) rs = true ->
  depth_ok (length rs) (Node es) = true ->
  no_empty_sub d (Node es) = true ->
  exists v, get_subtree d rs es [] = Some v /\
            tensor_fp root rs (Node es)
            = root_fp root + sumZ (map (fun r => rh (fst r)) rs) + v.
Proof.
  intros Hrs HC Hd Hne. exists (sub_fp d rs es). split.
  - rewrite get_subtree_spec. unfold spec_subtree.
    destruct rs as [|r rs']; [congruence|]. reflexivity.
  - rewrite tensor_fp_tree_sum, (sub_fp_all_fp d rs es HC Hd Hne). reflexivity.
Qed.

Lemma fill_defaults :
  fill_opt None = {| rh := 0; fh := 0; cb := 0; pb := 0; isU := false; interleaved := false |}
  /\ fill_root None = (0, 0)
  /\ (forall r, fill_opt (Some r) = fill_rspec r)
  /\ fill_int None = 0 /\ fill_bool None = false.
Proof. repeat split. Qed.

Lemma c18_model_spec c : c18_model c = c18_spec c.
Proof.
  unfold c18_model, c18_spec.
  rewrite tensor_fp_tree_sum. unfold root_fp.
  rewrite (map_ext (fun kr : nat * rk => rank_fp (fst kr) (snd kr) (k_tree c))
                   (fun kr : nat * rk => rh (fst (snd kr))
                      + sumZ (map (fiber_fp (fst (snd kr)) (snd (snd kr)))
                                  (level (fst kr) (k_tree c)))))
    by (intros [k r]; apply rank_fp_sum).
  rewrite (map_ext (get_subtree (k_d c) (k_ranks c) (root_es c))
                   (spec_subtree (k_d c) (k_ranks c) (root_es c)))
    by (intros pt; apply get_subtree_spec).
  reflexivity.
Qed.

Lemma c18_model_holds c : holds c18_checker c (model c18_checker c) = true.
Proof. cbn [holds model c18_checker]. rewrite c18_model_spec. apply V_eqb_refl. Qed.
