(* C15RunP.v — lemmas about the loop-nest interpreter of Model/C15Metrics.v: transparency,
   two-finger intersection = set intersection, event counts = recursive sums. *)
From Coq Require Import ZArith List Bool Lia Sorted.
From FT Require Import Model.Base Model.Obs Model.C15Metrics Model.C15Check.
Import ListNotations.
Open Scope Z_scope.

(* ------------------------------------------------------------------ counting events *)

Definition cnt (p : mev -> bool) (evs : list mev) : Z := Z.of_nat (length (filter p evs)).
Definition is_cnt (k : Z) (e : mev) : bool := match e with ECount k' => Z.eqb k' k | _ => false end.
Definition is_use (r : Z) (e : mev) : bool := match e with EUse r' => Z.eqb r' r | _ => false end.
Definition is_reg (r : Z) (e : mev) : bool := match e with ERegister r' => Z.eqb r' r | _ => false end.

Lemma cnt_app p a b : cnt p (a ++ b) = cnt p a + cnt p b.
Proof. unfold cnt. rewrite filter_app, app_length. lia. Qed.

Lemma cnt_nil p : cnt p [] = 0.
Proof. reflexivity. Qed.

Lemma cnt_cons p e l : cnt p (e :: l) = (if p e then 1 else 0) + cnt p l.
Proof. unfold cnt. cbn [filter]. destruct (p e); cbn [length]; lia. Qed.

Lemma cnt_nonneg p l : 0 <= cnt p l.
Proof. unfold cnt. lia. Qed.

Lemma cnt_fail_evs p f k : p EFail = false -> cnt p (fail_evs f k) = 0.
Proof. intros H. unfold fail_evs. destruct (f && k); [rewrite cnt_cons, H|]; reflexivity. Qed.

(* ------------------------------------------------------------------ transparency *)

Lemma step_fst r l zb f1 f2 body1 body2 st1 st2 el :
  (forall z a b, fst (body1 z a b) = fst (body2 z a b)) ->
  fst st1 = fst st2 ->
  fst (step true r l zb f1 body1 st1 el) = fst (step false r l zb f2 body2 st2 el).
Proof.
  intros Hb Hst. destruct el as [c [ta tb]]. unfold step. rewrite Hst.
  destruct (lz l).
  - destruct (lookup c (elems (fst st2))) as [zc|].
    + specialize (Hb zc ta tb). destruct (body1 zc ta tb), (body2 zc ta tb).
      cbn [fst] in *. subst. reflexivity.
    + specialize (Hb (z_default zb) ta tb).
      destruct (body1 (z_default zb) ta tb), (body2 (z_default zb) ta tb).
      cbn [fst] in *. subst. reflexivity.
  - specialize (Hb (fst st2) ta tb). destruct (body1 (fst st2) ta tb), (body2 (fst st2) ta tb).
    cbn [fst] in *. subst. reflexivity.
Qed.

Lemma fold_step_fst r l zb f1 f2 body1 body2 :
  (forall z a b, fst (body1 z a b) = fst (body2 z a b)) ->
  forall els st1 st2, fst st1 = fst st2 ->
  fst (fold_left (step true r l zb f1 body1) els st1)
  = fst (fold_left (step false r l zb f2 body2) els st2).
Proof.
  intros Hb. induction els as [|el els IH]; intros st1 st2 Hst; cbn [fold_left]; auto.
  apply IH. apply step_fst; auto.
Qed.

Lemma run_transparent : forall lv r wt da db z a b,
  fst (run true r wt da db lv z a b) = fst (run false r wt da db lv z a b).
Proof.
  induction lv as [|l lv IH]; intros r wt da db z a b; cbn [run].
  - unfold leaf_stmt. destruct a, b; reflexivity.
  - apply fold_step_fst; auto.
Qed.

(* with collection off nothing is emitted *)
Lemma fold_step_off r l zb body :
  (forall z a b, snd (body z a b) = []) ->
  forall els st, snd st = [] -> snd (fold_left (step false r l zb false body) els st) = [].
Proof.
  intros Hb. induction els as [|[c [ta tb]] els IH]; intros st Hst; cbn [fold_left]; auto.
  apply IH. unfold step. destruct (lz l).
  - destruct (lookup c (elems (fst st))) as [zc|].
    + specialize (Hb zc ta tb). destruct (body zc ta tb). cbn [snd fst] in *.
      rewrite Hst, Hb. reflexivity.
    + specialize (Hb (z_default zb) ta tb). destruct (body (z_default zb) ta tb).
      cbn [snd fst] in *. rewrite Hst, Hb. reflexivity.
  - specialize (Hb (fst st) ta tb). destruct (body (fst st) ta tb). cbn [snd fst] in *.
    rewrite Hst, Hb. reflexivity.
Qed.

Lemma run_off_silent : forall lv r wt da db z a b, snd (run false r wt da db lv z a b) = [].
Proof.
  induction lv as [|l lv IH]; intros r wt da db z a b; cbn [run andb].
  - unfold leaf_stmt. destruct a, b; reflexivity.
  - apply fold_step_off; auto.
Qed.

(* ------------------------------------------------------------------ sortedness *)

Definition ssortedP (l : fib) : Prop := StronglySorted Z.lt (map fst l).

Lemma ssorted_Sorted l : ssorted l = true -> Sorted Z.lt l.
Proof.
  induction l as [|x l IH]; intros H; [constructor|].
  cbn [ssorted] in H. destruct l as [|y l'].
  - repeat constructor.
  - apply andb_true_iff in H. destruct H as [Hlt Hs]. constructor; auto.
    constructor. lia.
Qed.

Lemma ssorted_SS l : ssorted l = true -> StronglySorted Z.lt l.
Proof.
  intros H. apply Sorted_StronglySorted.
  - intros x y z. lia.
  - apply ssorted_Sorted; auto.
Qed.

Lemma ssortedP_tl x l : ssortedP (x :: l) -> ssortedP l.
Proof. unfold ssortedP; cbn [map]; intros H; apply StronglySorted_inv in H; tauto. Qed.

Lemma ssortedP_hd_lt c p l c' : ssortedP ((c, p) :: l) -> In c' (map fst l) -> c < c'.
Proof.
  unfold ssortedP; cbn [map fst]; intros H Hin. apply StronglySorted_inv in H.
  destruct H as [_ H]. rewrite Forall_forall in H. auto.
Qed.

Lemma ssortedP_filter f l : ssortedP l -> ssortedP (filter f l).
Proof.
  unfold ssortedP. induction l as [|[c p] l IH]; intros H; cbn [filter map]; auto.
  cbn [map fst] in H. apply StronglySorted_inv in H. destruct H as [Hs Hall].
  destruct (f (c, p)); auto. cbn [map fst]. constructor; auto.
  rewrite Forall_forall in *. intros x Hx. apply Hall.
  apply in_map_iff in Hx. destruct Hx as [[c' p'] [Hc Hin]]. apply filter_In in Hin.
  apply in_map_iff. exists (c', p'). tauto.
Qed.

Lemma lookup_In c (l : fib) q : lookup c l = Some q -> In (c, q) l.
Proof.
  induction l as [|[c' p'] l IH]; cbn [lookup]; [discriminate|].
  destruct (Z.eqb_spec c c'); intros H.
  - inversion H; subst. left; reflexivity.
  - right; auto.
Qed.

Lemma and_spec_drop_b a cb pb b :
  (forall c, In c (map fst a) -> cb < c) ->
  and_spec a ((cb, pb) :: b) = and_spec a b.
Proof.
  intros Hall. induction a as [|[c p] a IH]; cbn [and_spec]; auto.
  assert (cb < c) by (apply Hall; cbn [map fst]; left; reflexivity).
  cbn [lookup]. destruct (Z.eqb_spec c cb); [lia|].
  rewrite IH; auto. intros c0 Hc0; apply Hall; cbn [map]; right; auto.
Qed.

Lemma and_merge_nil_r a : and_merge a [] = [].
Proof. destruct a as [|[c p] a]; reflexivity. Qed.

Lemma and_spec_nil_r a : and_spec a [] = [].
Proof. induction a as [|[c p] a IH]; cbn [and_spec lookup]; auto. Qed.

Lemma and_merge_cons ca pa a cb pb b :
  and_merge ((ca, pa) :: a) ((cb, pb) :: b) =
  if Z.eqb ca cb then (ca, (pa, pb)) :: and_merge a b
  else if Z.ltb ca cb then and_merge a ((cb, pb) :: b)
  else and_merge ((ca, pa) :: a) b.
Proof. reflexivity. Qed.

(* the two-finger walk yields exactly the elements of a whose coordinate b also has *)
Lemma and_merge_spec : forall a b,
  ssortedP a -> ssortedP b -> and_merge a b = and_spec a b.
Proof.
  induction a as [|[ca pa] a IHa]; intros b Hsa Hsb.
  - destruct b; reflexivity.
  - induction b as [|[cb pb] b IHb].
    + rewrite and_merge_nil_r, and_spec_nil_r; reflexivity.
    + rewrite and_merge_cons. cbn [and_spec lookup].
      destruct (Z.eqb_spec ca cb) as [Heq|Hne].
      * subst cb. rewrite IHa by eauto using ssortedP_tl.
        f_equal. symmetry. apply and_spec_drop_b.
        intros c Hc. exact (ssortedP_hd_lt _ _ _ _ Hsa Hc).
      * destruct (Z.ltb_spec ca cb).
        -- rewrite IHa by eauto using ssortedP_tl.
           assert (lookup ca b = None) as ->.
           { destruct (lookup ca b) eqn:E; auto. apply lookup_In in E.
             assert (In ca (map fst b)) as Hin by (apply in_map_iff; exists (ca, t); auto).
             pose proof (ssortedP_hd_lt _ _ _ _ Hsb Hin). lia. }
           reflexivity.
        -- rewrite IHb by eauto using ssortedP_tl.
           cbn [and_spec].
           rewrite (and_spec_drop_b a cb pb b); auto.
           intros c Hc. pose proof (ssortedP_hd_lt _ _ _ _ Hsa Hc). lia.
Qed.

Lemma sorted_t_elems t : sorted_t t = true -> ssortedP (elems t).
Proof.
  destruct t as [v|es]; cbn [sorted_t elems]; intros H.
  - constructor.
  - apply andb_true_iff in H. destruct H as [H _]. apply ssorted_SS; auto.
Qed.

Lemma seq_SS : forall n st, StronglySorted Z.lt (map Z.of_nat (seq st n)).
Proof.
  induction n as [|n IH]; intros st; cbn [seq map]; constructor; auto.
  rewrite Forall_forall. intros x Hx. apply in_map_iff in Hx. destruct Hx as [y [<- Hy]].
  apply in_seq in Hy. lia.
Qed.

Lemma op_elems_sorted u sh d below t : sorted_t t = true -> ssortedP (op_elems u sh d below t).
Proof.
  intros H. unfold op_elems. destruct u.
  - unfold ssortedP. rewrite map_map. cbn [fst]. rewrite map_id. apply seq_SS.
  - unfold present. apply ssortedP_filter. apply sorted_t_elems; auto.
Qed.

Lemma iter_elems_spec l da db ba bb a b :
  sorted_t a = true -> sorted_t b = true ->
  iter_elems l da db ba bb a b = spec_elems l da db ba bb a b.
Proof.
  intros Ha Hb. unfold iter_elems, spec_elems. destruct (la l && lb l); auto.
  apply and_merge_spec; apply op_elems_sorted; auto.
Qed.

(* where the yielded payloads come from *)
Lemma and_spec_In a b c p q :
  In (c, (p, q)) (and_spec a b) -> In (c, p) a /\ In (c, q) b.
Proof.
  induction a as [|[c' p'] a IH]; cbn [and_spec]; [intros []|].
  destruct (lookup c' b) eqn:E.
  - intros [H|H].
    + inversion H; subst. split; [left; reflexivity | apply lookup_In; auto].
    + apply IH in H. destruct H; split; [right|]; auto.
  - intros H. apply IH in H. destruct H; split; [right|]; auto.
Qed.

Lemma spec_elems_In l da db ba bb a b c ta tb :
  la l || lb l = true ->
  In (c, (ta, tb)) (spec_elems l da db ba bb a b) ->
  (if la l then In (c, ta) (op_elems (ua l) (lshape l) da ba a) else ta = a) /\
  (if lb l then In (c, tb) (op_elems (ub l) (lshape l) db bb b) else tb = b).
Proof.
  unfold spec_elems. destruct (la l) eqn:Ea, (lb l) eqn:Eb; cbn [andb orb]; intros Hl;
    [| | |discriminate].
  - apply and_spec_In.
  - intros H. apply in_map_iff in H. destruct H as [[c' s] [Heq Hin]].
    cbn [fst snd] in Heq. inversion Heq; subst. split; auto.
  - intros H. apply in_map_iff in H. destruct H as [[c' s] [Heq Hin]].
    cbn [fst snd] in Heq. inversion Heq; subst. split; auto.
Qed.

(* ------------------------------------------------------------------ linear measures of a loop *)

Lemma sumZ_map_ext {A} (f g : A -> Z) l :
  (forall x, In x l -> f x = g x) -> sumZ (map f l) = sumZ (map g l).
Proof.
  induction l as [|x l IH]; intros H; cbn [map sumZ fold_right]; auto.
  unfold sumZ in IH. rewrite IH, (H x); auto; [left; auto | intros; apply H; right; auto].
Qed.

Lemma sumZ_map_const1 {A} (l : list A) : sumZ (map (fun _ => 1) l) = Z.of_nat (length l).
Proof. induction l as [|x l IH]; cbn [map sumZ fold_right length]; [reflexivity|]. unfold sumZ in IH. lia. Qed.

Lemma sumZ_map_0 {A} (l : list A) : sumZ (map (fun _ => 0) l) = 0.
Proof. induction l as [|x l IH]; cbn [map sumZ fold_right]; [reflexivity|]. unfold sumZ in IH. lia. Qed.

(* ------------------------------------------------------------------ well-formed operands *)

Definition op_ok (f : level -> bool) (lv : list level) (t : tree) : Prop :=
  depth_ok (cntb f lv) t = true /\ sorted_t t = true.

Lemma op_default_ok f lv d : op_ok f lv (op_default (existsb f lv) d).
Proof.
  unfold op_ok, op_default, cntb. induction lv as [|l lv IH]; cbn [existsb filter].
  - split; reflexivity.
  - destruct (f l); cbn [orb length].
    + split; reflexivity.
    + exact IH.
Qed.

Lemma op_ok_down f l lv t u sh d :
  op_ok f (l :: lv) t ->
  if f l then forall c s, In (c, s) (op_elems u sh d (existsb f lv) t) -> op_ok f lv s
  else op_ok f lv t.
Proof.
  unfold op_ok at 1, cntb. cbn [filter]. destruct (f l) eqn:Ef; [|unfold op_ok, cntb; tauto].
  cbn [length]. intros [Hd Hs] c s Hin.
  destruct t as [v|es]; [discriminate|]. cbn [depth_ok sorted_t] in *.
  apply andb_true_iff in Hs. destruct Hs as [_ Hs]. rewrite forallb_forall in Hd, Hs.
  assert (forall c' s', In (c', s') es -> op_ok f lv s') as Hch.
  { intros c' s' Hi. split; [apply (Hd _ Hi) | apply (Hs _ Hi)]. }
  unfold op_elems in Hin. destruct u.
  - apply in_map_iff in Hin. destruct Hin as [c0 [Heq _]]. inversion Heq; subst. cbn [elems].
    destruct (lookup c es) as [s'|] eqn:El.
    + apply lookup_In in El. eapply Hch; eauto.
    + apply op_default_ok.
  - cbn [elems] in Hin. unfold present in Hin. apply filter_In in Hin. eapply Hch; apply Hin.
Qed.

Lemma spec_elems_ok l lv da db a b c ta tb :
  la l || lb l = true ->
  op_ok la (l :: lv) a -> op_ok lb (l :: lv) b ->
  In (c, (ta, tb)) (lv_elems da db l lv a b) -> op_ok la lv ta /\ op_ok lb lv tb.
Proof.
  intros Hl Ha Hb Hin. unfold lv_elems in Hin. apply spec_elems_In in Hin; auto.
  destruct Hin as [H1 H2].
  apply (op_ok_down _ _ _ _ (ua l) (lshape l) da) in Ha.
  apply (op_ok_down _ _ _ _ (ub l) (lshape l) db) in Hb.
  destruct (la l), (lb l); subst; split; eauto.
Qed.

(* ------------------------------------------------------------------ counts of multiplies and updates *)

(* ------------------------------------------------------------------ iteration counts *)

Lemma fold_step_cnt_in p r l zb fl body (g : tree -> tree -> Z) els :
  (forall k, cnt p (fail_evs fl k) = 0) ->
  (forall c ta tb, In (c, (ta, tb)) els -> forall z, cnt p (snd (body z ta tb)) = g ta tb) ->
  forall st,
  cnt p (snd (fold_left (step true r l zb fl body) els st))
  = cnt p (snd st)
    + sumZ (map (fun el => cnt p [EUse r] + g (fst (snd el)) (snd (snd el))) els).
Proof.
  intros Hpf. induction els as [|[c [ta tb]] els IH]; intros Hb st; cbn [fold_left map sumZ fold_right].
  - lia.
  - rewrite IH by (intros; eapply Hb; right; eauto). cbn [fst snd].
    assert (cnt p (snd (step true r l zb fl body st (c, (ta, tb))))
            = cnt p (snd st) + (cnt p [EUse r] + g ta tb)) as ->; [|unfold sumZ; lia].
    pose proof (Hb c ta tb (or_introl eq_refl)) as H1.
    unfold step. destruct (lz l).
    + destruct (lookup c (elems (fst st))) as [zc|].
      * specialize (H1 zc). destruct (body zc ta tb). cbn [snd] in *.
        rewrite !cnt_app, H1. reflexivity.
      * specialize (H1 (z_default zb)). destruct (body (z_default zb) ta tb).
        cbn [snd] in *. rewrite !cnt_app, H1, Hpf, Z.add_0_r. reflexivity.
    + specialize (H1 (fst st)). destruct (body (fst st) ta tb). cbn [snd] in *.
      rewrite !cnt_app, H1. reflexivity.
Qed.

Lemma run_cnt_leafs k : k = 0 \/ k = 2 ->
  forall wt da db lv r z a b, forallb (fun l => la l || lb l) lv = true ->
  op_ok la lv a -> op_ok lb lv b ->
  cnt (is_cnt k) (snd (run true r wt da db lv z a b)) = spec_leafs da db lv a b.
Proof.
  intros Hk wt da db. induction lv as [|l lv IH]; intros r z a b Hlv Ha Hb.
  - cbn [run spec_leafs]. destruct Ha as [Ha _], Hb as [Hb _]. unfold cntb in *. cbn in Ha, Hb.
    destruct a as [va|]; [|discriminate]. destruct b as [vb|]; [|discriminate].
    unfold leaf_stmt, evs_if. cbn [snd]. rewrite !cnt_cons.
    destruct (Z.eqb (leaf_val z) 0); [rewrite cnt_nil | rewrite cnt_cons, cnt_nil];
      destruct Hk; subst k; reflexivity.
  - cbn [run spec_leafs]. cbn [forallb] in Hlv. apply andb_true_iff in Hlv. destruct Hlv as [Hl Hlv].
    assert (sorted_t a = true /\ sorted_t b = true) as [Hsa Hsb] by (unfold op_ok in *; tauto).
    rewrite iter_elems_spec by auto. fold (lv_elems da db l lv a b).
    rewrite (fold_step_cnt_in (is_cnt k) r l _ _ _ (fun ta tb => spec_leafs da db lv ta tb)).
    + cbn [snd]. unfold evs_if. rewrite !cnt_cons, !cnt_nil.
      rewrite (sumZ_map_ext _ (fun el => spec_leafs da db lv (fst (snd el)) (snd (snd el)))).
      * destruct Hk; subst k; cbn [is_cnt]; lia.
      * intros x _. destruct Hk; subst k; cbn [is_cnt]; lia.
    + intros k0. apply cnt_fail_evs. reflexivity.
    + intros c ta tb Hin z'. destruct (spec_elems_ok _ _ _ _ _ _ _ _ _ Hl Ha Hb Hin). apply IH; auto.
Qed.

Lemma run_cnt_use : forall wt da db lv r z a b q,
  forallb (fun l => la l || lb l) lv = true ->
  op_ok la lv a -> op_ok lb lv b ->
  cnt (is_use q) (snd (run true r wt da db lv z a b))
  = if Z.ltb q r then 0 else spec_bodies (Z.to_nat (q - r)) da db lv a b.
Proof.
  intros wt da db. induction lv as [|l lv IH]; intros r z a b q Hlv Ha Hb.
  - cbn [run spec_bodies]. unfold leaf_stmt, evs_if.
    destruct a, b; cbn [snd]; try (destruct (Z.ltb q r); reflexivity).
    destruct (Z.eqb (leaf_val z) 0); destruct (Z.ltb q r); reflexivity.
  - cbn [run]. cbn [forallb] in Hlv. apply andb_true_iff in Hlv. destruct Hlv as [Hl Hlv].
    assert (sorted_t a = true /\ sorted_t b = true) as [Hsa Hsb] by (unfold op_ok in *; tauto).
    rewrite iter_elems_spec by auto. fold (lv_elems da db l lv a b).
    rewrite (fold_step_cnt_in (is_use q) r l _ _ _
               (fun ta tb => if Z.ltb q (r + 1) then 0
                             else spec_bodies (Z.to_nat (q - (r + 1))) da db lv ta tb)).
    2:{ intros k0. apply cnt_fail_evs. reflexivity. }
    2:{ intros c ta tb Hin z'. destruct (spec_elems_ok _ _ _ _ _ _ _ _ _ Hl Ha Hb Hin). apply IH; auto. }
    cbn [snd]. unfold evs_if. rewrite !cnt_cons, !cnt_nil. cbn [is_use is_reg].
    destruct (Z.ltb_spec q r) as [Hlt|Hge].
    + rewrite (sumZ_map_ext _ (fun _ => 0)), sumZ_map_0; [lia|].
      intros x _. destruct (Z.eqb_spec r q); [lia|]. destruct (Z.ltb_spec q (r + 1)); lia.
    + destruct (Z.eqb_spec r q) as [Heq|Hne].
      * subst q. replace (Z.to_nat (r - r)) with O by lia. cbn [spec_bodies].
        rewrite (sumZ_map_ext _ (fun _ => 1)), sumZ_map_const1; [lia|].
        intros x _. destruct (Z.ltb_spec r (r + 1)); lia.
      * replace (Z.to_nat (q - r)) with (S (Z.to_nat (q - (r + 1)))) by lia.
        cbn [spec_bodies].
        rewrite (sumZ_map_ext _ (fun el => spec_bodies (Z.to_nat (q - (r + 1))) da db lv
                                                    (fst (snd el)) (snd (snd el)))); [lia|].
        intros x _. destruct (Z.ltb_spec q (r + 1)); lia.
Qed.

(* a rank's rows are only written after the rank was registered *)
Definition reg_first (q : Z) (evs : list mev) : Prop :=
  cnt (is_reg q) evs = 0 -> cnt (is_use q) evs = 0.

Lemma reg_first_app q a b : reg_first q a -> reg_first q b -> reg_first q (a ++ b).
Proof.
  unfold reg_first. rewrite !cnt_app. intros Ha Hb H.
  pose proof (cnt_nonneg (is_reg q) a). pose proof (cnt_nonneg (is_reg q) b).
  rewrite Ha, Hb; lia.
Qed.

Lemma fold_step_reg_first q r l zb fl body :
  q <> r ->
  (forall z ta tb, reg_first q (snd (body z ta tb))) ->
  forall els st, reg_first q (snd st) ->
  reg_first q (snd (fold_left (step true r l zb fl body) els st)).
Proof.
  intros Hq Hb. induction els as [|[c [ta tb]] els IH]; intros st Hst; cbn [fold_left]; auto.
  apply IH.
  assert (reg_first q (evs_if true [EUse r])) as Hu.
  { unfold reg_first, evs_if. rewrite !cnt_cons, !cnt_nil. cbn [is_use is_reg].
    destruct (Z.eqb_spec r q); lia. }
  assert (forall k, reg_first q (fail_evs fl k)) as Hfe.
  { intros k _. apply cnt_fail_evs. reflexivity. }
  unfold step. destruct (lz l).
  - destruct (lookup c (elems (fst st))) as [zc|].
    + specialize (Hb zc ta tb). destruct (body zc ta tb). cbn [snd] in *.
      repeat apply reg_first_app; auto.
    + specialize (Hb (z_default zb) ta tb). destruct (body (z_default zb) ta tb). cbn [snd] in *.
      repeat apply reg_first_app; auto.
  - specialize (Hb (fst st) ta tb). destruct (body (fst st) ta tb). cbn [snd] in *.
    repeat apply reg_first_app; auto.
Qed.

Lemma fold_step_prefix r l zb fl body :
  forall els st, exists ext, snd (fold_left (step true r l zb fl body) els st) = snd st ++ ext.
Proof.
  induction els as [|[c [ta tb]] els IH]; intros st; cbn [fold_left].
  - exists []. rewrite app_nil_r. reflexivity.
  - destruct (IH (step true r l zb fl body st (c, (ta, tb)))) as [ext Hext]. rewrite Hext.
    unfold step. destruct (lz l).
    + destruct (lookup c (elems (fst st))) as [zc|].
      * destruct (body zc ta tb). cbn [snd]. eexists. rewrite <- app_assoc. reflexivity.
      * destruct (body (z_default zb) ta tb). cbn [snd]. eexists. rewrite <- app_assoc. reflexivity.
    + destruct (body (fst st) ta tb). cbn [snd]. eexists. rewrite <- app_assoc. reflexivity.
Qed.

Lemma run_reg_first : forall wt da db lv r z a b q, reg_first q (snd (run true r wt da db lv z a b)).
Proof.
  intros wt da db. induction lv as [|l lv IH]; intros r z a b q.
  - cbn [run]. unfold reg_first, leaf_stmt, evs_if. intros _.
    destruct a, b; cbn [snd]; try reflexivity.
    destruct (Z.eqb (leaf_val z) 0); reflexivity.
  - cbn [run]. destruct (Z.eq_dec q r) as [Heq|Hne].
    + subst q. unfold reg_first. intros H. exfalso.
      match type of H with context [fold_left (step true r l ?zb ?fl ?bd) ?els ?st0] =>
        destruct (fold_step_prefix r l zb fl bd els st0) as [ext Hext] end.
      rewrite Hext in H. cbn [snd] in H. unfold evs_if in H.
      rewrite cnt_app, cnt_cons, cnt_nil in H. cbn [is_reg] in H. rewrite Z.eqb_refl in H.
      pose proof (cnt_nonneg (is_reg r) ext). lia.
    + apply fold_step_reg_first; auto.
      cbn [snd]. unfold reg_first, evs_if. intros _. reflexivity.
Qed.


(* ------------------------------------------------------------------ the populate assertion *)

Lemma cnt_zero_existsb p l : cnt p l = 0 -> existsb p l = false.
Proof.
  induction l as [|x l IH]; cbn [existsb]; auto. rewrite cnt_cons.
  pose proof (cnt_nonneg p l). destruct (p x); intros Hc; [lia|]. apply IH. lia.
Qed.

(* without a registered write trace on a shapeless output the assertion is never reached *)
Lemma run_no_fail : forall wt da db lv r z a b,
  (forall q, wt q = false) -> cnt is_fail (snd (run true r wt da db lv z a b)) = 0.
Proof.
  intros wt da db. induction lv as [|l lv IH]; intros r z a b Hwt.
  - cbn [run]. unfold leaf_stmt, evs_if. destruct a, b; cbn [snd]; try reflexivity.
    destruct (Z.eqb (leaf_val z) 0); reflexivity.
  - cbn [run]. rewrite Hwt. cbn [andb].
    rewrite (fold_step_cnt_in is_fail r l _ false _ (fun _ _ => 0)).
    + cbn [snd]. unfold evs_if. rewrite !cnt_cons, !cnt_nil. cbn [is_fail].
      rewrite (sumZ_map_ext _ (fun _ => 0)), sumZ_map_0; [lia|]. intros x _. lia.
    + intros k. reflexivity.
    + intros c ta tb _ z'. apply IH; auto.
Qed.
